//go:build !maporder

package maporder

// Controlled reports whether this binary can fix Go's map iteration order.
const Controlled = false

// Set is a no-op without the runtime overlay.
func Set(int) {}
