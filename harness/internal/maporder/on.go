//go:build maporder

package maporder

import _ "unsafe"

//go:linkname verifIterOverride internal/runtime/maps.verifIterOverride
var verifIterOverride uint64

// Controlled reports whether this binary can fix Go's map iteration order.
const Controlled = true

// Set fixes the start offset of every map iteration of this
// process (0..7 give all rotations of a map that fits one group); -1 restores
// the runtime's random choice.
func Set(o int) {
	if o < 0 {
		verifIterOverride = 0
		return
	}
	verifIterOverride = uint64(o) + 1
}
