// Package conc drives the cooperative scheduler (verifshim/sched, added to the
// repository module by the build overlay) for the engines that explore
// lock-level interleavings of the real code: every execution of a small
// multi-threaded scenario with at most `Bound` preemptions is enumerated by
// depth-first search over scheduling choices; each execution runs on a fresh
// instance of the system and is identified by its list of choices.
//
// Scheduling points are (1) every Lock/RLock/Once.Do of the repository files
// whose sync import the overlay redirects to verifshim/sync and (2) every
// node-database read (Txn.Get, NewIterator) and durable write (WriteBatch
// flush, Txn commit) through the hooks of the vendored badger copy.
package conc

import (
	"encoding/json"
	"fmt"
	"os"
	"sort"
	"strings"
	"sync"
	"time"

	"github.com/dgraph-io/badger/v4/verifhook"

	"github.com/oasisprotocol/oasis-core/go/verifshim/sched"

	"verif/harness/internal/ev"
	"verif/harness/internal/maporder"
)

// Instance is one fresh copy of the system under test with its threads.
type Instance struct {
	Bodies []func()
	// Final is evaluated after all threads have finished (or the execution was
	// cut by a deadlock); it returns "" or the description of the violation.
	Final func(res *sched.Result) string
	// Outcome is an optional signature of the observable result, for counting
	// distinct outcomes (one outcome from many executions = nothing collided).
	Outcome func() string
	Close   func()
}

// Scenario is a closed, small concurrent driver.
type Scenario struct {
	Name  string
	Bound int // preemption bound
	New   func() (*Instance, error)
	// Key is the stable known-findings key of violations of this scenario
	// ("" = Name).
	Key string
	// RaceUnsafe: the harness's own reference model is mutated by several
	// threads of this scenario (fine under the cooperative scheduler, a harness
	// race when free-running): skipped by RaceRun.
	RaceUnsafe bool
}

// Notes is a goroutine-safe list of strings for what thread bodies report
// (problems, outcomes): the same bodies also run free under the race detector.
type Notes struct {
	mu sync.Mutex
	s  []string
}

func (n *Notes) Add(format string, a ...any) {
	n.mu.Lock()
	n.s = append(n.s, fmt.Sprintf(format, a...))
	n.mu.Unlock()
}

func (n *Notes) List() []string {
	n.mu.Lock()
	defer n.mu.Unlock()
	return append([]string{}, n.s...)
}

func (n *Notes) Len() int { return len(n.List()) }

// Artefact is the replayable schedule of one execution.
type Artefact struct {
	Scenario string   `json:"scenario"`
	Choices  []int    `json:"choices"`
	Steps    []string `json:"steps,omitempty"`
}

var hooksInstalled bool

// quietReads[i]: database reads of thread i are not scheduling points.  Sound
// when no other thread of the scenario writes to the database: reads commute
// with reads, and the thread's own order of reads and writes is fixed.
var quietReads [8]bool

// QuietReads is called by a scenario while it builds an instance.
func QuietReads(thread int, on bool) { quietReads[thread] = on }

// InstallDBHooks turns the vendored badger's read and durable-write hooks
// into scheduling points (no effect outside a controlled execution).
func InstallDBHooks() {
	if hooksInstalled {
		return
	}
	sched.DumpOnHang = os.Getenv("VERIF_CONC_DEBUG") != ""
	hooksInstalled = true
	rd := func(kind string) {
		if t := sched.Current(); t >= 0 && t < len(quietReads) && quietReads[t] {
			return
		}
		sched.Point("db-read-"+kind, nil, nil)
	}
	// A point BEFORE every durable write: every shared operation of a thread (lock, read, write) is
	// then preceded by a point, so a thread can be held right before its write while others run.
	wr := func(kind string) { sched.Point("db-write-"+kind, nil, nil) }
	verifhook.Read.Store(&rd)
	verifhook.PreDurable.Store(&wr)
}

type runner struct {
	r      *ev.Run
	engine string
}

// one runs one execution of the scenario along prefix.
func one(sc *Scenario, prefix []int) (*sched.Result, string, string, error) {
	quietReads = [8]bool{}
	// Map iteration order is part of the schedule's meaning (the order of a thread's database
	// operations may follow it): fix it for the execution.
	maporder.Set(0)
	defer maporder.Set(-1)
	inst, err := sc.New()
	if err != nil {
		return nil, "", "", err
	}
	res := sched.Run(prefix, inst.Bodies)
	if os.Getenv("VERIF_CONC_DEBUG") != "" {
		fmt.Fprintf(os.Stderr, "conc: %s prefix=%v steps=%d deadlock=%v blocked=%v hung=%v panics=%v\n  last: %v\n", sc.Name, prefix, len(res.Steps), res.Deadlock, res.Blocked, res.Hung, res.Panics, tail(labels(res), 12))
	}
	what := ""
	switch {
	case res.Hung || res.Diverged != "":
		// harness problems, reported by the caller
	default:
		var parts []string
		for id, p := range res.Panics {
			first := p
			if i := strings.Index(first, "\n"); i > 0 && os.Getenv("VERIF_STACK") == "" {
				first = first[:i]
			}
			parts = append(parts, fmt.Sprintf("thread %d panicked: %s", id, first))
		}
		if res.Deadlock {
			parts = append(parts, "deadlock: "+strings.Join(res.Blocked, ", "))
		}
		if len(parts) == 0 && inst.Final != nil {
			if w := inst.Final(res); w != "" {
				parts = append(parts, w)
			}
		}
		what = strings.Join(parts, "; ")
	}
	out := ""
	if inst.Outcome != nil {
		out = inst.Outcome()
	}
	if inst.Close != nil && len(res.Panics) == 0 && !res.Deadlock && !res.Hung {
		// after a panic or an aborted execution locks of the instance may be left held
		// (closing could block for ever): the instance is leaked, the process is short-lived
		inst.Close()
	}
	return res, what, out, nil
}

func labels(res *sched.Result) []string {
	var s []string
	for _, st := range res.Steps {
		s = append(s, st.Label)
	}
	return s
}

// Explore enumerates all executions of all scenarios within their bounds.
// The caller must have called r.Fork before (executions of one process run one
// at a time: the scheduler and the database hooks are process-global).
func Explore(r *ev.Run, engine string, scs []Scenario) { explore(r, engine, scs, false, time.Time{}) }

// ExploreExtra explores the scenarios once more with their bounds raised by
// one, until the given instant.  This goes beyond the claimed bound: being cut
// by the time limit does not make the check non-exhaustive; the evidence
// records how far it got (conc_extra_*).  Violations count as usual.
func ExploreExtra(r *ev.Run, engine string, scs []Scenario, until time.Time) {
	up := make([]Scenario, len(scs))
	copy(up, scs)
	for i := range up {
		up[i].Bound++
	}
	explore(r, engine, up, true, until)
}

func explore(r *ev.Run, engine string, scs []Scenario, extra bool, until time.Time) {
	InstallDBHooks()
	if only := os.Getenv("VERIF_CONC_ONLY"); only != "" {
		// development aid: restrict to the scenarios whose name contains the string
		var keep []Scenario
		for _, sc := range scs {
			if strings.Contains(sc.Name, only) {
				keep = append(keep, sc)
			}
		}
		scs = keep
	}
	pfx := ""
	if extra {
		pfx = "conc_extra_"
	}
	expired := func() bool {
		if extra {
			return time.Now().After(until) || r.Expired()
		}
		return r.Expired()
	}
	capHit := func() {
		if extra {
			r.Set("conc_extra_complete", false)
			return
		}
		r.Cap("deadline")
	}
	if extra {
		r.Set("conc_extra_complete", true)
	}
	type item struct {
		sc   int
		root []int
		leaf bool // the default execution itself
	}
	var items []item
	for i := range scs {
		sc := &scs[i]
		res, _, _, err := one(sc, nil)
		if err != nil {
			r.HarnessError("scenario %s: %v", sc.Name, err)
			continue
		}
		if res.Hung || res.Diverged != "" {
			r.HarnessError("scenario %s: default execution hung=%v diverged=%q (last steps %v)", sc.Name, res.Hung, res.Diverged, tail(labels(res), 6))
			continue
		}
		// Determinism: the same choices must give the same steps.
		res2, _, _, _ := one(sc, nil)
		if res2 == nil || strings.Join(labels(res), "|") != strings.Join(labels(res2), "|") {
			if os.Getenv("VERIF_CONC_DEBUG") != "" && res2 != nil {
				fmt.Fprintf(os.Stderr, "A: %v\nB: %v\n", labels(res), labels(res2))
			}
			r.HarnessError("scenario %s: two default executions differ (non-determinism the scheduler does not own)", sc.Name)
			continue
		}
		items = append(items, item{sc: i, leaf: true})
		for _, rt := range sched.Roots(sc.Bound, res) {
			if sc.Bound < 3 {
				items = append(items, item{sc: i, root: rt})
				continue
			}
			// Large subtrees (bound >= 3) are split once more, so that the shards finish evenly:
			// the execution of the first deviation itself plus one item per second deviation.
			res1, _, _, err := one(sc, rt)
			if err != nil || res1.Hung || res1.Diverged != "" || len(res1.Panics) > 0 || res1.Deadlock {
				items = append(items, item{sc: i, root: rt})
				continue
			}
			items = append(items, item{sc: i, root: rt, leaf: true})
			for _, rt2 := range sched.RootsFrom(sc.Bound, res1, len(rt)) {
				items = append(items, item{sc: i, root: rt2})
			}
		}
	}
	// Largest subtrees first (a deviation at an early step leaves the most steps to deviate
	// at again); the shards take items round-robin, which then balances them.
	sort.SliceStable(items, func(a, b int) bool { return len(items[a].root) < len(items[b].root) })
	if !extra {
		r.Set("conc_scenarios", len(scs))
		r.Set("conc_work_items", len(items))
	}
	ev.ParallelRange(len(items), r.Seed, func(k int) {
		it := items[k]
		sc := &scs[it.sc]
		if expired() {
			capHit()
			return
		}
		visit := func(res *sched.Result, what, out string) bool {
			r.Add("states", int64(len(res.Steps)))
			r.Add("transitions", int64(len(res.Steps)))
			r.Add(pfx+"executions", 1)
			if n := int64(len(res.Steps)); n > r.Get("max_steps") {
				r.Set("max_steps", n)
			}
			if out != "" {
				r.Outcome(sc.Name + ": " + out)
				if os.Getenv("VERIF_CONC_OUTCOMES") != "" {
					fmt.Fprintf(os.Stderr, "OUTCOME %s\n", out)
				}
			}
			if res.Hung || res.Diverged != "" {
				r.HarnessError("scenario %s choices %v: hung=%v diverged=%q", sc.Name, res.Choices, res.Hung, res.Diverged)
				return false
			}
			if res.Foreign > 0 {
				r.Add("foreign_calls", res.Foreign)
			}
			if what != "" {
				key := sc.Key
				if key == "" {
					key = sc.Name
				}
				// a scenario may classify its violation: "[[class]] text" puts the class into the key
				// that known findings are matched against
				if strings.HasPrefix(what, "[[") {
					if j := strings.Index(what, "]]"); j > 0 {
						key += " " + what[2:j]
						what = strings.TrimSpace(what[j+2:])
					}
				}
				r.Violate(ev.Violation{Engine: engine, Key: "conc " + key, What: fmt.Sprintf("%s, schedule %v (%d preemptions): %s", sc.Name, compact(res), res.PreemptionsBefore(len(res.Steps)), what), Artefact: Artefact{Scenario: sc.Name, Choices: res.Choices, Steps: labels(res)}})
				if os.Getenv("VERIF_SHOW_KNOWN") != "" {
					fmt.Fprintf(os.Stderr, "VIOL %s :: %s\n", key, what)
				}
				if r.IsKnown("conc " + key) {
					// a listed finding must not hide other violations of the same subtree
					return true
				}
				// one counterexample per work item is enough
				return false
			}
			if expired() {
				capHit()
				return false
			}
			return true
		}
		if it.leaf {
			res, what, out, err := one(sc, it.root)
			if err == nil {
				visit(res, what, out)
			}
			return
		}
		var lastWhat, lastOut string
		sched.Explore(sc.Bound, it.root, func(prefix []int) *sched.Result {
			res, what, out, err := one(sc, prefix)
			if err != nil {
				r.HarnessError("scenario %s: %v", sc.Name, err)
				return &sched.Result{Diverged: err.Error()}
			}
			lastWhat, lastOut = what, out
			return res
		}, func(res *sched.Result) bool { return visit(res, lastWhat, lastOut) })
	})
	r.Alias("traces_validated_against_impl", "transitions")
}

// Replay re-executes one recorded schedule; returns the violation text.
func Replay(scs []Scenario, raw any) (string, error) {
	InstallDBHooks()
	b, _ := json.Marshal(raw)
	var a Artefact
	if err := json.Unmarshal(b, &a); err != nil {
		return "", err
	}
	for i := range scs {
		if scs[i].Name == a.Scenario {
			res, what, _, err := one(&scs[i], a.Choices)
			if err != nil {
				return "", err
			}
			if res.Diverged != "" || res.Hung {
				return "", fmt.Errorf("schedule does not fit the current code: %s hung=%v", res.Diverged, res.Hung)
			}
			return what, nil
		}
	}
	return "", fmt.Errorf("unknown scenario %q", a.Scenario)
}

func tail(s []string, n int) []string {
	if len(s) > n {
		return s[len(s)-n:]
	}
	return s
}

// compact renders a schedule as runs of thread ids: "t0x5 t1x3 t0x2".
func compact(res *sched.Result) string {
	var sb strings.Builder
	prev, n := "", 0
	flush := func() {
		if n > 0 {
			fmt.Fprintf(&sb, "%sx%d ", prev, n)
		}
	}
	for _, st := range res.Steps {
		id := st.Label
		if i := strings.Index(id, ":"); i > 0 {
			id = id[:i]
		}
		if id != prev {
			flush()
			prev, n = id, 0
		}
		n++
	}
	flush()
	return strings.TrimSpace(sb.String())
}

// RaceRun is the free-running complement of Explore: the same scenario bodies
// run as ordinary goroutines (no scheduler, the sync shim passes through) in a
// binary built with the race detector, `iters` times per scenario.  The
// cooperative scheduler's hand-offs are happens-before edges, so the detector
// is blind under Explore; unsynchronised accesses between scheduling points
// are caught here (the detector aborts the process with exit code 66, which
// the caller reports).  This pass samples schedules; it decides nothing by
// itself and is reported separately.
// FreeRunning is set while RaceRun executes scenario bodies as ordinary goroutines: oracles that depend on
// the order in which threads report (which only the cooperative scheduler fixes) must not be applied then.
var FreeRunning bool

func RaceRun(r *ev.Run, scs []Scenario, iters int) {
	FreeRunning = true
	defer func() { FreeRunning = false }()
	for i := range scs {
		sc := &scs[i]
		if sc.RaceUnsafe {
			continue
		}
		for it := 0; it < iters; it++ {
			if r.Expired() {
				r.Cap("deadline")
				return
			}
			inst, err := sc.New()
			if err != nil {
				r.HarnessError("scenario %s: %v", sc.Name, err)
				break
			}
			var wg sync.WaitGroup
			panics := make([]string, len(inst.Bodies))
			for bi, body := range inst.Bodies {
				wg.Add(1)
				go func(bi int, body func()) {
					defer wg.Done()
					defer func() {
						if p := recover(); p != nil {
							panics[bi] = fmt.Sprint(p)
						}
					}()
					body()
				}(bi, body)
			}
			wg.Wait()
			what := ""
			for bi, p := range panics {
				if p != "" {
					what = fmt.Sprintf("thread %d panicked: %s", bi, p)
				}
			}
			if what == "" && inst.Final != nil {
				what = inst.Final(&sched.Result{})
			}
			if what == "" && inst.Close != nil {
				inst.Close()
			}
			r.Add("race_pass_executions", 1)
			if what != "" {
				key := sc.Key
				if key == "" {
					key = sc.Name
				}
				r.Violate(ev.Violation{Engine: "race", Key: "conc-free " + key, What: fmt.Sprintf("%s, free-running goroutines: %s", sc.Name, what), Artefact: Artefact{Scenario: sc.Name}})
				break
			}
		}
	}
}
