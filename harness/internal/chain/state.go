package chain

import (
	"context"
	"fmt"

	"github.com/oasisprotocol/oasis-core/go/common/cbor"
	"github.com/oasisprotocol/oasis-core/go/common/crypto/signature"
	"github.com/oasisprotocol/oasis-core/go/consensus/api/transaction"
	stakingState "github.com/oasisprotocol/oasis-core/go/consensus/cometbft/apps/staking/state"
	staking "github.com/oasisprotocol/oasis-core/go/staking/api"
	"github.com/oasisprotocol/oasis-core/go/storage/mkvs"
	"github.com/oasisprotocol/oasis-core/go/storage/mkvs/node"
)

var Ctx = context.Background()

// Tree opens a read-only tree at the last committed state root.
func (n *Node) Tree() mkvs.Tree {
	root := node.Root{Version: uint64(n.Height), Type: node.RootTypeState}
	copy(root.Hash[:], n.AppHash)
	return mkvs.NewWithRoot(nil, n.Srv.State().Storage().NodeDB(), root, mkvs.WithoutWriteLog())
}

// Nonce reads the account nonce from the committed state.
func (n *Node) Nonce(addr staking.Address) uint64 {
	t := n.Tree()
	defer t.Close()
	acct, err := stakingState.NewImmutableState(t).Account(Ctx, addr)
	if err != nil {
		return 0
	}
	return acct.General.Nonce
}

// SignTx builds and signs a consensus transaction.
func SignTx(s signature.Signer, nonce uint64, fee *transaction.Fee, method transaction.MethodName, body any) []byte {
	tx := transaction.NewTransaction(nonce, fee, method, body)
	st, err := transaction.Sign(s, tx)
	if err != nil {
		panic(fmt.Errorf("sign: %w", err))
	}
	return cbor.Marshal(st)
}

// Fee builds a fee.
func Fee(amount, gas uint64) *transaction.Fee {
	return &transaction.Fee{Amount: q(amount), Gas: transaction.Gas(gas)}
}
