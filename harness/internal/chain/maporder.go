package chain

import "verif/harness/internal/maporder"

// MapOrderControlled reports whether this binary can fix Go's map iteration order.
const MapOrderControlled = maporder.Controlled

// SetMapIterOffset fixes the start offset of every map iteration of this
// process (see internal/maporder).
func SetMapIterOffset(o int) { maporder.Set(o) }
