//go:build !maporder

package chain

// MapOrderControlled reports whether this binary can fix Go's map iteration order.
const MapOrderControlled = false

// SetMapIterOffset is a no-op without the runtime overlay.
func SetMapIterOffset(int) {}
