// Package chain drives the real ABCI multiplexer with all real consensus
// applications, without CometBFT: deterministic genesis documents, nodes
// (replicas) that execute blocks along a chosen execution path, transaction
// construction, and state dumps.
package chain

import (
	"fmt"
	"github.com/oasisprotocol/oasis-core/go/common/version"
	"net"
	"time"

	beacon "github.com/oasisprotocol/oasis-core/go/beacon/api"
	"github.com/oasisprotocol/oasis-core/go/common"
	"github.com/oasisprotocol/oasis-core/go/common/cbor"
	"github.com/oasisprotocol/oasis-core/go/common/crypto/signature"
	memorySigner "github.com/oasisprotocol/oasis-core/go/common/crypto/signature/signers/memory"
	"github.com/oasisprotocol/oasis-core/go/common/entity"
	"github.com/oasisprotocol/oasis-core/go/common/identity"
	"github.com/oasisprotocol/oasis-core/go/common/node"
	"github.com/oasisprotocol/oasis-core/go/common/quantity"
	"github.com/oasisprotocol/oasis-core/go/consensus/api/transaction"
	cmt "github.com/oasisprotocol/oasis-core/go/consensus/cometbft/api"
	consensus "github.com/oasisprotocol/oasis-core/go/consensus/genesis"
	genesis "github.com/oasisprotocol/oasis-core/go/genesis/api"
	governance "github.com/oasisprotocol/oasis-core/go/governance/api"
	keymanager "github.com/oasisprotocol/oasis-core/go/keymanager/api"
	"github.com/oasisprotocol/oasis-core/go/keymanager/churp"
	"github.com/oasisprotocol/oasis-core/go/keymanager/secrets"
	registry "github.com/oasisprotocol/oasis-core/go/registry/api"
	roothash "github.com/oasisprotocol/oasis-core/go/roothash/api"
	scheduler "github.com/oasisprotocol/oasis-core/go/scheduler/api"
	staking "github.com/oasisprotocol/oasis-core/go/staking/api"
	vault "github.com/oasisprotocol/oasis-core/go/vault/api"
)

// Keys holds every deterministic key of the universe.
type Keys struct {
	Entities []signature.Signer   // entity keys
	Nodes    []*identity.Identity // one validator node per entity (+ spares)
	Accounts []signature.Signer   // plain accounts
}

func testIdentity(name string) *identity.Identity {
	return &identity.Identity{
		NodeSigner:      memorySigner.NewTestSigner("verif node " + name),
		P2PSigner:       memorySigner.NewTestSigner("verif p2p " + name),
		ConsensusSigner: memorySigner.NewTestSigner("verif consensus " + name),
		VRFSigner:       memorySigner.NewTestSigner("verif vrf " + name),
		TLSSigner:       memorySigner.NewTestSigner("verif tls " + name),
	}
}

// NewKeys builds nEnt entities with one node each plus nSpare spare node
// identities and nAcct plain accounts.
func NewKeys(nEnt, nSpare, nAcct int) *Keys {
	k := &Keys{}
	for i := 0; i < nEnt; i++ {
		k.Entities = append(k.Entities, memorySigner.NewTestSigner(fmt.Sprintf("verif entity %d", i)))
	}
	for i := 0; i < nEnt+nSpare; i++ {
		k.Nodes = append(k.Nodes, testIdentity(fmt.Sprintf("%d", i)))
	}
	for i := 0; i < nAcct; i++ {
		k.Accounts = append(k.Accounts, memorySigner.NewTestSigner(fmt.Sprintf("verif account %d", i)))
	}
	return k
}

func Addr(s signature.Signer) staking.Address { return staking.NewAddress(s.Public()) }

func q(n uint64) quantity.Quantity { return *quantity.NewFromUint64(n) }

func maxU(a uint64, l []uint64) uint64 {
	for _, x := range l {
		if x > a {
			a = x
		}
	}
	return a
}

func maxInt(a, b int) int {
	if a > b {
		return a
	}
	return b
}

// GenesisOptions selects a genesis variant.
type GenesisOptions struct {
	EpochInterval       int64  // blocks per epoch (insecure beacon)
	MaxValidators       int    // scheduler limit
	MinTransactBalance  uint64 // staking parameter
	LastBlockFees       uint64 // fees carried into the first block
	CommonPool          uint64
	BypassStake         bool
	Escrow              []uint64 // self-escrow per entity (default 1000, 2000, 3000)
	MaxBlockGas         uint64
	NoRewards           bool     // no staking rewards (stake changes only through transactions and slashing)
	MaxPerEntity        int      // scheduler MaxValidatorsPerEntity (default 1)
	ExtraNodes          bool     // entity 1 also owns node 3 (a second validator node) at genesis
	Upgrader            bool     // replicas run with a node-local upgrade backend (the real manager)
	NodeExpiration      uint64   // expiration epoch of genesis nodes (default 4)
	NodeExpirations     []uint64 // per-node override of the expiration epoch
	ZeroThresholds      bool     // all stake thresholds zero (tiny stakes can be elected)
	MinGasPrice         uint64   // consensus parameter
	TxByteGas           uint64   // gas cost per transaction byte
	Runtime             bool     // register a compute runtime owned by entity 0; all genesis nodes are also compute workers for it
	RtGroupSize         uint16   // executor committee size (default 2)
	RtBackupSize        uint16   // backup workers (default 0)
	RtMaxInMessages     uint32   // incoming message queue capacity (default 1)
	RtMaxNodesPerEnt    uint16   // MaxNodes scheduling constraint per entity (0 = none)
	RtMinPool           uint16   // MinPoolSize scheduling constraint (default = group size)
	DebondingInterval   uint64   // staking debonding interval in epochs (default 1)
	RtFunded            bool     // account 1 holds a 700-unit delegation to the runtime's own account (needed for runtime governance)
	SlashAmount         uint64   // amount slashed for consensus equivocation (default 300); a huge value wipes an escrow account
	RtSlashEquivocation uint64   // runtime slashing amount for executor / proposal equivocation (default: the runtime does not slash)
	RtRoundTimeout      int64    // executor round timeout in blocks (default 5)
	RtTwoVersions       bool     // the runtime has a second deployment (version 1.0.0) valid from epoch 3; node 1 is registered for the old version only
	Prefix              []string // letter names executed (one block each) before the explored history starts: part of the initial state (interpreted by the engines, not by Genesis)
	RtWhitelist         bool     // the compute runtime admits only whitelisted entities: every entity at most 1 compute and 2 validator nodes and 1 observer node for it; observers additionally only from entity 0 (per-role policy)
	GovMetadata         bool     // governance: proposals must carry metadata (a title), votes do not need a registered entity
	Focus               string   // interpreted by the engines: restricts the alphabet of a world to one theme (e.g. "churp")
	KeyManager          bool     // a key manager runtime without TEE hardware owned by entity 0; all genesis nodes are also key manager nodes for it (pristine init response)
	Feature261          bool     // consensus feature version 26.1 (runtime owner index, node / runtime admission rules of 26.1 after genesis)
	VRF                 bool     // VRF beacon backend (the production one): epochs of EpochInterval blocks, proofs accepted VRFDelay blocks after an epoch starts, alpha is high quality with >= VRFThreshold proofs
	VRFDelay            int64    // proof submission delay (default 1)
	VRFThreshold        uint64   // alpha high-quality threshold (default 2)
	Vault               bool     // a vault (creator account 0, id 1) with balance 100 exists at genesis: admin {a0,a1} threshold 1, suspend {a1}, withdraw policy 60 per 10 blocks for account 1

}

// NodeDescriptor builds the descriptor of node i owned by entity ent.
func (k *Keys) NodeDescriptor(i, ent int, expiration beacon.EpochTime, roles node.RolesMask) *node.Node {
	id := k.Nodes[i]
	var consensusAddr, p2pAddr node.Address
	_ = consensusAddr.FromIP(net.ParseIP("127.0.0.1"), uint16(9000+i))
	_ = p2pAddr.FromIP(net.ParseIP("127.0.0.1"), uint16(9100+i))
	return &node.Node{
		Versioned:  cbor.NewVersioned(node.LatestNodeDescriptorVersion),
		ID:         id.NodeSigner.Public(),
		EntityID:   k.Entities[ent].Public(),
		Expiration: expiration,
		TLS:        node.TLSInfo{PubKey: id.TLSSigner.Public()},
		P2P:        node.P2PInfo{ID: id.P2PSigner.Public(), Addresses: []node.Address{p2pAddr}},
		Consensus: node.ConsensusInfo{
			ID:        id.ConsensusSigner.Public(),
			Addresses: []node.ConsensusAddress{{ID: id.ConsensusSigner.Public(), Address: consensusAddr}},
		},
		VRF:   node.VRFInfo{ID: id.VRFSigner.Public()},
		Roles: roles,
	}
}

// RuntimeID is the identifier of the universe's compute runtime.
func RuntimeID() common.Namespace {
	return common.NewTestNamespaceFromSeed([]byte("verif runtime 0"), common.NamespaceTest)
}

// RuntimeDescriptor builds the compute runtime descriptor (entity governed, owned by entity ent).
func (k *Keys) RuntimeDescriptor(ent int, o GenesisOptions) *registry.Runtime {
	gs, mi, mp := o.RtGroupSize, o.RtMaxInMessages, o.RtMinPool
	if gs == 0 {
		gs = 2
	}
	if mi == 0 {
		mi = 1
	}
	if mp == 0 {
		mp = gs
	}
	wc := registry.SchedulingConstraints{MinPoolSize: &registry.MinPoolSizeConstraint{Limit: mp}}
	if o.RtMaxNodesPerEnt > 0 {
		wc.MaxNodes = &registry.MaxNodesConstraint{Limit: o.RtMaxNodesPerEnt}
	}
	cons := map[scheduler.Role]registry.SchedulingConstraints{scheduler.RoleWorker: wc}
	if o.RtBackupSize > 0 {
		cons[scheduler.RoleBackupWorker] = registry.SchedulingConstraints{MinPoolSize: &registry.MinPoolSizeConstraint{Limit: o.RtBackupSize}}
	}
	rt := &registry.Runtime{
		Versioned: cbor.NewVersioned(registry.LatestRuntimeDescriptorVersion),
		ID:        RuntimeID(),
		EntityID:  k.Entities[ent].Public(),
		Kind:      registry.KindCompute,
		Executor: registry.ExecutorParameters{
			GroupSize:                  gs,
			GroupBackupSize:            o.RtBackupSize,
			AllowedStragglers:          0,
			RoundTimeout:               rtRoundTimeout(o),
			MaxMessages:                8,
			MinLiveRoundsForEvaluation: 1,
			MinLiveRoundsPercent:       50,
			MaxLivenessFailures:        1,
		},
		TxnScheduler: registry.TxnSchedulerParameters{
			BatchFlushTimeout: time.Second,
			MaxBatchSize:      10,
			MaxBatchSizeBytes: 10240,
			MaxInMessages:     mi,
			ProposerTimeout:   2 * time.Second,
		},
		AdmissionPolicy: registry.RuntimeAdmissionPolicy{AnyNode: &registry.AnyNodeRuntimeAdmissionPolicy{}},
		Constraints: map[scheduler.CommitteeKind]map[scheduler.Role]registry.SchedulingConstraints{
			scheduler.KindComputeExecutor: cons,
		},
		GovernanceModel: registry.GovernanceEntity,
		Staking: registry.RuntimeStakingParameters{
			MinInMessageFee: q(1),
		},
		Deployments: []*registry.VersionInfo{{}},
	}
	if o.RtWhitelist {
		wl := map[signature.PublicKey]registry.EntityWhitelistConfig{}
		for _, e := range k.Entities {
			wl[e.Public()] = registry.EntityWhitelistConfig{MaxNodes: map[node.RolesMask]uint16{node.RoleComputeWorker: 1, node.RoleValidator: 2, node.RoleObserver: 1}}
		}
		rt.AdmissionPolicy = registry.RuntimeAdmissionPolicy{
			EntityWhitelist: &registry.EntityWhitelistRuntimeAdmissionPolicy{Entities: wl},
			PerRole: map[node.RolesMask]registry.PerRoleAdmissionPolicy{
				node.RoleObserver: {EntityWhitelist: &registry.EntityWhitelistRoleAdmissionPolicy{Entities: map[signature.PublicKey]registry.EntityWhitelistRoleConfig{k.Entities[0].Public(): {}}}},
			},
		}
	}
	if o.RtTwoVersions {
		rt.Deployments = append(rt.Deployments, &registry.VersionInfo{Version: version.Version{Major: 1}, ValidFrom: 3})
	}
	if o.RtSlashEquivocation > 0 {
		rt.Staking.Slashing = map[staking.SlashReason]staking.Slash{staking.SlashRuntimeEquivocation: {Amount: q(o.RtSlashEquivocation)}}
	}
	rt.Genesis.StateRoot.Empty()
	return rt
}

// KMRuntimeID is the identifier of the universe's key manager runtime.
func KMRuntimeID() common.Namespace {
	return common.NewTestNamespaceFromSeed([]byte("verif key manager 0"), common.NamespaceTest|common.NamespaceKeyManager)
}

// KMRuntimeIDValue is KMRuntimeID() as an addressable value.
var KMRuntimeIDValue = KMRuntimeID()

// KMRuntimeDescriptor builds the descriptor of the key manager runtime (no TEE hardware: init
// responses and secrets are signed by the well-known insecure attestation key).
func (k *Keys) KMRuntimeDescriptor(ent int) *registry.Runtime {
	return &registry.Runtime{
		Versioned:       cbor.NewVersioned(registry.LatestRuntimeDescriptorVersion),
		ID:              KMRuntimeID(),
		EntityID:        k.Entities[ent].Public(),
		Kind:            registry.KindKeyManager,
		TEEHardware:     node.TEEHardwareInvalid,
		AdmissionPolicy: registry.RuntimeAdmissionPolicy{AnyNode: &registry.AnyNodeRuntimeAdmissionPolicy{}},
		GovernanceModel: registry.GovernanceEntity,
		Deployments:     []*registry.VersionInfo{{}},
	}
}

// KMNodeRuntime is the per-runtime part of a key manager node's descriptor carrying the given
// init response, signed by signer (nil: the insecure attestation key).
func KMNodeRuntime(rsp *secrets.InitResponse, signer signature.Signer) *node.Runtime {
	if signer == nil {
		signer = keymanager.TestSigners[0]
	}
	nr := &node.Runtime{ID: KMRuntimeID()}
	if rsp != nil {
		sr, err := secrets.SignInitResponse(signer, rsp)
		if err != nil {
			panic(err)
		}
		nr.ExtraInfo = cbor.Marshal(sr)
	}
	return nr
}

// NodeSigners returns the signers that must sign node i's descriptor.
func (k *Keys) NodeSigners(i int) []signature.Signer {
	id := k.Nodes[i]
	return []signature.Signer{id.NodeSigner, id.P2PSigner, id.ConsensusSigner, id.VRFSigner, id.TLSSigner}
}

// EntityDescriptor builds the descriptor of entity e owning the given nodes.
func (k *Keys) EntityDescriptor(e int, nodes []int) *entity.Entity {
	ent := &entity.Entity{Versioned: cbor.NewVersioned(entity.LatestDescriptorVersion), ID: k.Entities[e].Public()}
	for _, n := range nodes {
		ent.Nodes = append(ent.Nodes, k.Nodes[n].NodeSigner.Public())
	}
	return ent
}

func withRuntimes(n *node.Node, rts []*node.Runtime) *node.Node {
	n.Runtimes = rts
	return n
}

var GenesisTime = time.Unix(1700000000, 0).UTC()

// Genesis builds a deterministic genesis document.
func Genesis(k *Keys, o GenesisOptions) (*genesis.Document, error) {
	if o.EpochInterval == 0 {
		o.EpochInterval = 3
	}
	if o.MaxValidators == 0 {
		o.MaxValidators = 3
	}
	if o.CommonPool == 0 {
		o.CommonPool = 100000
	}
	if o.NodeExpiration == 0 {
		o.NodeExpiration = 4
	}
	nEnt := len(k.Entities)
	for len(o.Escrow) < nEnt {
		o.Escrow = append(o.Escrow, uint64(1000*(len(o.Escrow)+1)))
	}
	if o.VRFDelay == 0 {
		o.VRFDelay = 1
	}
	if o.VRFThreshold == 0 {
		o.VRFThreshold = 2
	}
	doc := &genesis.Document{
		Height:  1,
		ChainID: "verif-chain",
		Time:    GenesisTime,
		Beacon: beacon.Genesis{
			Base: 1,
			Parameters: beacon.ConsensusParameters{
				Backend:            beacon.BackendInsecure,
				InsecureParameters: &beacon.InsecureParameters{Interval: o.EpochInterval},
			},
		},
		Registry: registry.Genesis{
			Parameters: registry.ConsensusParameters{
				DebugAllowUnroutableAddresses: true,
				DebugAllowTestRuntimes:        true,
				DebugDeployImmediately:        true,
				MaxNodeExpiration:             beacon.EpochTime(maxU(o.NodeExpiration, o.NodeExpirations) + 1),
				EnableRuntimeGovernanceModels: map[registry.RuntimeGovernanceModel]bool{
					registry.GovernanceEntity:  true,
					registry.GovernanceRuntime: true,
				},
				GasCosts: transaction.Costs{
					registry.GasOpRegisterEntity:   3,
					registry.GasOpDeregisterEntity: 3,
					registry.GasOpRegisterNode:     4,
					registry.GasOpUnfreezeNode:     2,
					registry.GasOpRegisterRuntime:  5,
				},
			},
		},
		Scheduler: scheduler.Genesis{
			Parameters: scheduler.ConsensusParameters{
				MinValidators:          1,
				MaxValidators:          o.MaxValidators,
				MaxValidatorsPerEntity: maxInt(o.MaxPerEntity, 1),
				DebugBypassStake:       o.BypassStake,
			},
		},
		Governance: governance.Genesis{
			Parameters: governance.ConsensusParameters{
				StakeThreshold:                 68,
				UpgradeCancelMinEpochDiff:      3,
				UpgradeMinEpochDiff:            3,
				VotingPeriod:                   2,
				MinProposalDeposit:             q(100),
				EnableChangeParametersProposal: true,
				GasCosts: transaction.Costs{
					governance.GasOpSubmitProposal: 4,
					governance.GasOpCastVote:       2,
				},
			},
		},
		RootHash: roothash.Genesis{
			Parameters: roothash.ConsensusParameters{
				MaxRuntimeMessages:   32,
				MaxInRuntimeMessages: 32,
			},
		},
		Consensus: consensus.Genesis{
			Backend: cmt.BackendName,
			Parameters: consensus.Parameters{
				TimeoutCommit:     1 * time.Millisecond,
				SkipTimeoutCommit: true,
				MaxTxSize:         32 * 1024,
				MaxBlockSize:      1024 * 1024,
				MaxBlockGas:       transaction.Gas(o.MaxBlockGas),
				MaxEvidenceSize:   64 * 1024,
				GasCosts:          transaction.Costs{consensus.GasOpTxByte: transaction.Gas(o.TxByteGas)},
				MinGasPrice:       o.MinGasPrice,
			},
		},
		Vault: &vault.Genesis{Parameters: vault.DefaultConsensusParameters},
	}
	// Staking.
	st := staking.Genesis{
		Parameters: staking.ConsensusParameters{
			DebondingInterval: beacon.EpochTime(maxU(o.DebondingInterval, []uint64{1})),
			Thresholds: map[staking.ThresholdKind]quantity.Quantity{
				staking.KindEntity:            q(100),
				staking.KindNodeValidator:     q(200),
				staking.KindNodeCompute:       q(300),
				staking.KindNodeObserver:      q(50),
				staking.KindNodeKeyManager:    q(400),
				staking.KindRuntimeCompute:    q(500),
				staking.KindRuntimeKeyManager: q(600),
				staking.KindKeyManagerChurp:   q(700),
			},
			RewardSchedule:                    []staking.RewardStep{{Until: 1000, Scale: q(5000000)}},
			SigningRewardThresholdNumerator:   1,
			SigningRewardThresholdDenominator: 2,
			CommissionScheduleRules: staking.CommissionScheduleRules{
				RateChangeInterval: 1,
				RateBoundLead:      2,
				MaxRateSteps:       4,
				MaxBoundSteps:      4,
			},
			Slashing: map[staking.SlashReason]staking.Slash{
				staking.SlashConsensusEquivocation:      {Amount: q(slashAmount(o)), FreezeInterval: 1},
				staking.SlashConsensusLightClientAttack: {Amount: q(250), FreezeInterval: 1},
			},
			GasCosts: transaction.Costs{
				staking.GasOpTransfer:                2,
				staking.GasOpBurn:                    2,
				staking.GasOpAddEscrow:               3,
				staking.GasOpReclaimEscrow:           3,
				staking.GasOpAmendCommissionSchedule: 2,
				staking.GasOpAllow:                   2,
				staking.GasOpWithdraw:                2,
			},
			MinDelegationAmount:       q(10),
			MinTransferAmount:         q(5),
			MinTransactBalance:        q(o.MinTransactBalance),
			MaxAllowances:             4,
			FeeSplitWeightPropose:     q(2),
			FeeSplitWeightVote:        q(1),
			FeeSplitWeightNextPropose: q(1),
			RewardFactorEpochSigned:   q(1),
			RewardFactorBlockProposed: q(1),
			DebugBypassStake:          o.BypassStake,
		},
		TokenSymbol:   "VRF",
		CommonPool:    q(o.CommonPool),
		LastBlockFees: q(o.LastBlockFees),
		Ledger:        map[staking.Address]*staking.Account{},
		Delegations:   map[staking.Address]map[staking.Address]*staking.Delegation{},
	}
	total := o.CommonPool + o.LastBlockFees
	for i, es := range k.Entities {
		a := Addr(es)
		bal := uint64(5000)
		st.Ledger[a] = &staking.Account{
			General: staking.GeneralAccount{Balance: q(bal)},
			Escrow: staking.EscrowAccount{
				Active: staking.SharePool{Balance: q(o.Escrow[i]), TotalShares: q(o.Escrow[i])},
				CommissionSchedule: staking.CommissionSchedule{
					Rates:  []staking.CommissionRateStep{{Start: 0, Rate: q(uint64(10000 * (i + 1)))}},
					Bounds: []staking.CommissionRateBoundStep{{Start: 0, RateMin: q(0), RateMax: q(100000)}},
				},
			},
		}
		st.Delegations[a] = map[staking.Address]*staking.Delegation{a: {Shares: q(o.Escrow[i])}}
		total += bal + o.Escrow[i]
	}
	for i, as := range k.Accounts {
		bal := uint64(1000 * (i + 1))
		if i == len(k.Accounts)-1 && len(k.Accounts) > 2 {
			bal = 0 // one empty account
			continue
		}
		st.Ledger[Addr(as)] = &staking.Account{General: staking.GeneralAccount{Balance: q(bal)}}
		total += bal
	}
	// account 0 delegates to entity 0 (a non-self delegation)
	if len(k.Accounts) > 0 && nEnt > 0 {
		e0 := Addr(k.Entities[0])
		st.Ledger[e0].Escrow.Active.Balance = q(o.Escrow[0] + 500)
		st.Ledger[e0].Escrow.Active.TotalShares = q(o.Escrow[0] + 500)
		st.Delegations[e0][Addr(k.Accounts[0])] = &staking.Delegation{Shares: q(500)}
		total += 500
	}
	if o.Runtime && o.RtFunded && len(k.Accounts) > 1 {
		ra := staking.NewRuntimeAddress(RuntimeID())
		st.Ledger[ra] = &staking.Account{Escrow: staking.EscrowAccount{Active: staking.SharePool{Balance: q(700), TotalShares: q(700)}}}
		st.Delegations[ra] = map[staking.Address]*staking.Delegation{Addr(k.Accounts[1]): {Shares: q(700)}}
		total += 700
	}
	if o.Vault && len(k.Accounts) > 1 {
		a0, a1 := Addr(k.Accounts[0]), Addr(k.Accounts[1])
		v := &vault.Vault{Creator: a0, ID: 1, State: vault.StateActive,
			AdminAuthority:   vault.Authority{Addresses: []staking.Address{a0, a1}, Threshold: 1},
			SuspendAuthority: vault.Authority{Addresses: []staking.Address{a1}, Threshold: 1}}
		doc.Vault.Vaults = []*vault.Vault{v}
		doc.Vault.States = map[staking.Address]map[staking.Address]*vault.AddressState{
			v.Address(): {a1: {WithdrawPolicy: vault.WithdrawPolicy{LimitAmount: q(60), LimitInterval: 10}}},
		}
		st.Ledger[v.Address()] = &staking.Account{General: staking.GeneralAccount{Balance: q(100), Hooks: map[staking.HookKind]staking.HookDestination{staking.HookKindWithdraw: {Module: vault.ModuleName}}}}
		total += 100
	}
	st.TotalSupply = q(total)
	if o.ZeroThresholds {
		for kind := range st.Parameters.Thresholds {
			st.Parameters.Thresholds[kind] = q(0)
		}
	}
	if o.NoRewards {
		st.Parameters.RewardSchedule = nil
		st.Parameters.RewardFactorEpochSigned = q(0)
		st.Parameters.RewardFactorBlockProposed = q(0)
	}
	doc.Staking = st

	// Registry: the compute runtime (before the nodes that serve it).
	roles := node.RoleValidator
	var nodeRts []*node.Runtime
	if o.Runtime {
		doc.Registry.Runtimes = append(doc.Registry.Runtimes, k.RuntimeDescriptor(0, o))
		roles |= node.RoleComputeWorker
		nodeRts = []*node.Runtime{{ID: RuntimeID()}}
	}
	if o.KeyManager {
		doc.Registry.Runtimes = append(doc.Registry.Runtimes, k.KMRuntimeDescriptor(0))
		roles |= node.RoleKeyManager
		nodeRts = append(nodeRts, KMNodeRuntime(&secrets.InitResponse{}, nil))
		doc.KeyManager = keymanager.Genesis{
			Genesis: secrets.Genesis{Parameters: secrets.ConsensusParameters{GasCosts: transaction.Costs{
				secrets.GasOpUpdatePolicy: 3, secrets.GasOpPublishMasterSecret: 2, secrets.GasOpPublishEphemeralSecret: 2,
			}}},
			Churp: &churp.Genesis{Parameters: churp.ConsensusParameters{GasCosts: churp.DefaultGasCosts}},
		}
	}
	// Registry: entities and their validator nodes.
	for e := range k.Entities {
		owned := []int{e}
		if o.ExtraNodes && e == 1 && len(k.Nodes) > 3 {
			owned = []int{1, 3}
		}
		se, err := entity.SignEntity(k.Entities[e], registry.RegisterGenesisEntitySignatureContext, k.EntityDescriptor(e, owned))
		if err != nil {
			return nil, err
		}
		doc.Registry.Entities = append(doc.Registry.Entities, se)
		exp := o.NodeExpiration
		if e < len(o.NodeExpirations) && o.NodeExpirations[e] > 0 {
			exp = o.NodeExpirations[e]
		}
		rts := nodeRts
		if o.Runtime && o.RtTwoVersions && e != 1 {
			rts = append(append([]*node.Runtime{}, nodeRts...), &node.Runtime{ID: RuntimeID(), Version: version.Version{Major: 1}})
		}
		sn, err := node.MultiSignNode(k.NodeSigners(e), registry.RegisterGenesisNodeSignatureContext, withRuntimes(k.NodeDescriptor(e, e, beacon.EpochTime(exp), roles), rts))
		if err != nil {
			return nil, err
		}
		doc.Registry.Nodes = append(doc.Registry.Nodes, sn)
		if o.ExtraNodes && e == 1 && len(k.Nodes) > 3 {
			sn3, err := node.MultiSignNode(k.NodeSigners(3), registry.RegisterGenesisNodeSignatureContext, withRuntimes(k.NodeDescriptor(3, 1, beacon.EpochTime(o.NodeExpiration), roles), nodeRts))
			if err != nil {
				return nil, err
			}
			doc.Registry.Nodes = append(doc.Registry.Nodes, sn3)
		}
	}
	if o.GovMetadata {
		doc.Governance.Parameters.AllowProposalMetadata = true
		doc.Governance.Parameters.AllowVoteWithoutEntity = true
	}
	if o.Feature261 {
		v := version.MustFromString("26.1")
		doc.Consensus.Parameters.FeatureVersion = &v
	}
	if o.VRF {
		doc.Beacon.Parameters = beacon.ConsensusParameters{
			Backend: beacon.BackendVRF,
			VRFParameters: &beacon.VRFParameters{
				AlphaHighQualityThreshold: o.VRFThreshold,
				Interval:                  o.EpochInterval,
				ProofSubmissionDelay:      o.VRFDelay,
				GasCosts:                  transaction.Costs{beacon.GasOpVRFProve: 2},
			},
		}
	}
	return doc, nil
}

func rtRoundTimeout(o GenesisOptions) int64 {
	if o.RtRoundTimeout > 0 {
		return o.RtRoundTimeout
	}
	return 5
}

func slashAmount(o GenesisOptions) uint64 {
	if o.SlashAmount > 0 {
		return o.SlashAmount
	}
	return 300
}
