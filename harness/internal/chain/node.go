package chain

import (
	beacon "github.com/oasisprotocol/oasis-core/go/beacon/api"
	"github.com/oasisprotocol/oasis-core/go/common"
	"github.com/oasisprotocol/oasis-core/go/roothash/api/commitment"
	"github.com/dgraph-io/badger/v4/verifhook"
	"bytes"
	"context"
	"crypto/sha256"
	"encoding/binary"
	"fmt"
	"math"
	"os"
	"sort"
	"sync"
	"time"

	"github.com/cometbft/cometbft/abci/types"
	cmtproto "github.com/cometbft/cometbft/proto/tendermint/types"
	cmttypes "github.com/cometbft/cometbft/types"
	"github.com/spf13/viper"

	"github.com/oasisprotocol/oasis-core/go/common/crypto/signature"
	"github.com/oasisprotocol/oasis-core/go/common/identity"
	"github.com/oasisprotocol/oasis-core/go/common/logging"
	"github.com/oasisprotocol/oasis-core/go/common/persistent"
	"github.com/oasisprotocol/oasis-core/go/upgrade"
	upgradeAPI "github.com/oasisprotocol/oasis-core/go/upgrade/api"
	"github.com/oasisprotocol/oasis-core/go/consensus/cometbft/abci"
	cmtapi "github.com/oasisprotocol/oasis-core/go/consensus/cometbft/api"
	beaconApp "github.com/oasisprotocol/oasis-core/go/consensus/cometbft/apps/beacon"
	governanceApp "github.com/oasisprotocol/oasis-core/go/consensus/cometbft/apps/governance"
	keymanagerApp "github.com/oasisprotocol/oasis-core/go/consensus/cometbft/apps/keymanager"
	registryApp "github.com/oasisprotocol/oasis-core/go/consensus/cometbft/apps/registry"
	roothashApp "github.com/oasisprotocol/oasis-core/go/consensus/cometbft/apps/roothash"
	schedulerApp "github.com/oasisprotocol/oasis-core/go/consensus/cometbft/apps/scheduler"
	stakingApp "github.com/oasisprotocol/oasis-core/go/consensus/cometbft/apps/staking"
	sanityApp "github.com/oasisprotocol/oasis-core/go/consensus/cometbft/apps/supplementarysanity"
	vaultApp "github.com/oasisprotocol/oasis-core/go/consensus/cometbft/apps/vault"
	tmbeacon "github.com/oasisprotocol/oasis-core/go/consensus/cometbft/beacon"
	genesis "github.com/oasisprotocol/oasis-core/go/genesis/api"
	"github.com/oasisprotocol/oasis-core/go/storage/mkvs"
	"github.com/oasisprotocol/oasis-core/go/storage/mkvs/node"
)

var initOnce sync.Once

func init() {
	viper.Set("debug.dont_blame_oasis", true)
	viper.Set("debug.allow_root", true)
	// Replicas are created by the thousand (one node database each); the shipped 64 MiB memtable arena
	// costs memory and tens of milliseconds per open.  Only the flush frequency depends on the size
	// (see third_party/badger/verifhook); the crash phase of C01, which counts durable writes, is
	// indifferent to it as well (flushes of the memtable are not durable-write boundaries of the node database API).
	if os.Getenv("VERIF_BADGER_DEFAULT_MEMTABLE") == "" {
		verifhook.MemTableSize.Store(8 << 20)
	}
}

// Init performs the process-wide initialisation (logging off, debug flags,
// chain context of the given genesis document).
func Init(doc *genesis.Document) {
	initOnce.Do(func() {
		viper.Set("debug.dont_blame_oasis", true)
		if os.Getenv("VERIF_CHAIN_LOG") != "" {
			_ = logging.Initialize(os.Stderr, logging.FmtLogfmt, logging.LevelDebug, nil)
		}
		doc.SetChainContext()
	})
}

// Path is the way a replica executes a block.
type Path int

const (
	PathPropose Path = iota // PrepareProposal, ProcessProposal (cached), Begin/Deliver/End (cached), Commit
	PathProcess             // ProcessProposal executes, Begin/Deliver/End from cache, Commit
	PathReplay              // no proposal phase: Begin/Deliver/End/Commit
	PathProcess2            // first processes a different proposal for the same height, then PathProcess
)

func (p Path) String() string {
	return [...]string{"propose", "process", "replay", "process-after-other-proposal"}[p]
}

// Val is a validator as known to the consensus engine.
type Val struct {
	PubKey []byte
	Power  int64
}

func (v Val) Address() []byte {
	h := sha256.Sum256(v.PubKey)
	return h[:20]
}

// Node is one replica.
type Node struct {
	Doc     *genesis.Document
	Backend string
	Dir     string
	Srv     *abci.ApplicationServer
	Mux     types.Application
	ident   *identity.Identity
	cancel  context.CancelFunc

	Height  int64
	AppHash []byte
	Vals    []Val // current validator set (sorted by pubkey)
	Sanity  bool
	// CommitLock, if set, is held around Commit (CometBFT holds the mempool lock
	// during Commit, so no CheckTx overlaps it).
	CommitLock sync.Locker

	upg      upgradeAPI.Backend
	upgStore *persistent.CommonStore
	upgDir   string
}

// PruneKeep > 0 configures replicas created afterwards with the keep-last-N
// state pruner (the prune worker's ticker never fires within a run; the
// harness calls Pruner().Prune itself).
var PruneKeep uint64

// NewNode creates a replica (memory-only if dir is empty) and starts it.
func NewNode(doc *genesis.Document, ident *identity.Identity, backend, dir string, withSanity bool) (*Node, error) {
	Init(doc)
	ctx, cancel := context.WithCancel(context.Background())
	prune := abci.PruneConfig{Strategy: abci.PruneNone, PruneInterval: time.Hour}
	if PruneKeep > 0 {
		prune = abci.PruneConfig{Strategy: abci.PruneKeepN, NumKept: PruneKeep, PruneInterval: time.Hour}
	}
	cfg := &abci.ApplicationConfig{
		DataDir:             dir,
		StorageBackend:      backend,
		Pruning:             prune,
		HaltEpoch:           math.MaxUint64,
		MinGasPrice:         0,
		DisableCheckpointer: true,
		Identity:            ident,
		MemoryOnlyStorage:   dir == "",
		InitialHeight:       doc.Height,
		ChainContext:        doc.ChainContext(),
	}
	// A node-local upgrade backend (the real manager over its persistent store) for worlds that ask for one:
	// the governance application submits / cancels / looks up pending upgrades there while executing blocks.
	var upg upgradeAPI.Backend
	var upgStore *persistent.CommonStore
	upgDir := ""
	if _, ok := upgraderDocs.Load(doc); ok {
		ud := dir
		if ud == "" {
			var err error
			if ud, err = os.MkdirTemp("", "verif-upgrader"); err != nil {
				cancel()
				return nil, err
			}
			upgDir = ud
		}
		var err error
		if upgStore, err = persistent.NewCommonStore(ud); err != nil {
			cancel()
			return nil, err
		}
		if upg, err = upgrade.New(upgStore, ud, true); err != nil {
			upgStore.Close()
			cancel()
			return nil, err
		}
	}
	srv, err := abci.NewApplicationServer(ctx, upg, cfg)
	if err != nil {
		cancel()
		return nil, err
	}
	state := srv.State()
	md := srv.MessageDispatcher()
	// (the roothash application only hands executor commitments seen in the mempool to the local node's
	// roothash service; the service client object itself starts broker goroutines that never stop)
	rh := nopCommitmentNotifier{}
	sApp := stakingApp.New(state, md)
	apps := []cmtapi.Application{
		beaconApp.New(),
		governanceApp.New(state, md),
		keymanagerApp.New(state),
		registryApp.New(state, md),
		roothashApp.New(state, md, rh),
		schedulerApp.New(state, md),
		sApp,
		vaultApp.New(state, md),
	}
	for _, app := range apps {
		if err := srv.Register(app); err != nil {
			cancel()
			return nil, fmt.Errorf("register %s: %w", app.Name(), err)
		}
		app.Subscribe()
	}
	if withSanity {
		if err := srv.Register(sanityApp.New(state, 1)); err != nil {
			cancel()
			return nil, err
		}
	}
	bc := &epochSource{base: doc.Beacon.Base, q: tmbeacon.NewStateQueryFactory(state)}
	if err := srv.SetEpochtime(bc); err != nil {
		cancel()
		return nil, err
	}
	if err := srv.SetTransactionAuthHandler(sApp); err != nil {
		cancel()
		return nil, err
	}
	if err := srv.Start(); err != nil {
		cancel()
		return nil, err
	}
	n := &Node{Doc: doc, Backend: backend, Dir: dir, Srv: srv, Mux: srv.Mux(), ident: ident, cancel: cancel, Sanity: withSanity, upg: upg, upgStore: upgStore, upgDir: upgDir}
	return n, nil
}

// epochSource is the time source of the multiplexer: the three read-only queries it uses, answered from
// the beacon application's state exactly as the node's beacon service client answers them (GetBaseEpoch,
// GetEpoch, GetFutureEpoch of consensus/cometbft/beacon.ServiceClient are these three lines each).  The
// service client itself is not used because every instance starts two pub/sub broker goroutines that
// cannot be stopped; with hundreds of thousands of replicas per run they pinned tens of gigabytes.
type epochSource struct {
	beacon.Backend
	base beacon.EpochTime
	q    tmbeacon.QueryFactory
}

func (e *epochSource) GetBaseEpoch(context.Context) (beacon.EpochTime, error) { return e.base, nil }

func (e *epochSource) GetEpoch(ctx context.Context, height int64) (beacon.EpochTime, error) {
	q, err := e.q.QueryAt(ctx, height)
	if err != nil {
		return beacon.EpochInvalid, err
	}
	epoch, _, err := q.Epoch(ctx)
	return epoch, err
}

func (e *epochSource) GetFutureEpoch(ctx context.Context, height int64) (*beacon.EpochTimeState, error) {
	q, err := e.q.QueryAt(ctx, height)
	if err != nil {
		return nil, err
	}
	return q.FutureEpoch(ctx)
}

type nopCommitmentNotifier struct{}

func (nopCommitmentNotifier) DeliverExecutorCommitment(common.Namespace, *commitment.ExecutorCommitment) {}

// Close releases the replica.
func (n *Node) Close() {
	defer func() { _ = recover() }()
	n.Srv.Stop()
	n.Srv.Cleanup()
	n.cancel()
	abci.VerifReleaseState(n.Srv)
	if n.upg != nil {
		n.upg.Close()
	}
	if n.upgStore != nil {
		n.upgStore.Close()
	}
	if n.upgDir != "" {
		_ = os.RemoveAll(n.upgDir)
	}
}

var upgraderDocs sync.Map

// EnableUpgrader makes replicas of this genesis document run with a node-local upgrade backend.
func EnableUpgrader(doc *genesis.Document) { upgraderDocs.Store(doc, true) }

// InitChain runs InitChain with the genesis document.
func (n *Node) InitChain() (err error) {
	defer func() {
		if p := recover(); p != nil {
			err = fmt.Errorf("InitChain panic: %v", p)
		}
	}()
	gd, err := cmtapi.GetCometBFTGenesisDocument(n.Doc)
	if err != nil {
		return err
	}
	var vals []types.ValidatorUpdate
	for _, v := range gd.Validators {
		vals = append(vals, cmttypes.TM2PB.ValidatorUpdate(cmttypes.NewValidator(v.PubKey, v.Power)))
	}
	cp := gd.ConsensusParams.ToProto()
	resp := n.Mux.InitChain(types.RequestInitChain{
		Time:            gd.GenesisTime,
		ChainId:         gd.ChainID,
		ConsensusParams: &cp,
		Validators:      vals,
		AppStateBytes:   gd.AppState,
		InitialHeight:   gd.InitialHeight,
	})
	n.Vals = nil
	n.applyValidatorUpdates(vals)
	n.AppHash = resp.AppHash
	n.Height = n.Doc.Height - 1
	n.applyValidatorUpdates(resp.Validators)
	return nil
}

// Resume re-attaches to a replica whose state was loaded from disk.
func (n *Node) Resume(height int64, appHash []byte, vals []Val) {
	n.Height, n.AppHash, n.Vals = height, appHash, vals
}

func (n *Node) applyValidatorUpdates(ups []types.ValidatorUpdate) {
	m := map[string]int64{}
	for _, v := range n.Vals {
		m[string(v.PubKey)] = v.Power
	}
	for _, u := range ups {
		pk := u.PubKey.GetEd25519()
		if u.Power == 0 {
			delete(m, string(pk))
		} else {
			m[string(pk)] = u.Power
		}
	}
	n.Vals = n.Vals[:0]
	for pk, p := range m {
		n.Vals = append(n.Vals, Val{PubKey: []byte(pk), Power: p})
	}
	sort.Slice(n.Vals, func(i, j int) bool { return bytes.Compare(n.Vals[i].PubKey, n.Vals[j].PubKey) < 0 })
}

// Block is the consensus-level input of one height.
type Block struct {
	Txs         [][]byte             // user transactions (the proposer appends system transactions)
	Proposer    []byte               // proposer address
	Votes       []types.VoteInfo     // last commit info
	Misbehavior []types.Misbehavior  // evidence
	Time        time.Time
	MaxTxBytes  int64 // size limit handed to the proposer (0 = the genesis MaxBlockSize): a mempool batch that does not fit is cut
	full        [][]byte // txs including system txs, fixed by the proposer
}

// FullTxs returns the transaction list including system transactions (set once
// a proposer prepared the block).
func (b *Block) FullTxs() [][]byte { return b.full }
func (b *Block) SetFullTxs(t [][]byte) { b.full = t }

// Result is what a replica reports for one block.
type Result struct {
	Path             Path
	Accepted         bool // ProcessProposal verdict (true for replay)
	PreparedTxs      [][]byte
	TxResults        []types.ResponseDeliverTx
	ValidatorUpdates []types.ValidatorUpdate
	BlockEvents      []types.Event // BeginBlock + EndBlock events
	AppHash          []byte
	Panic            string
}

func blockHash(height int64, txs [][]byte, t time.Time) []byte {
	h := sha256.New()
	var b [8]byte
	binary.BigEndian.PutUint64(b[:], uint64(height))
	h.Write(b[:])
	binary.BigEndian.PutUint64(b[:], uint64(t.UnixNano()))
	h.Write(b[:])
	for _, tx := range txs {
		binary.BigEndian.PutUint64(b[:], uint64(len(tx)))
		h.Write(b[:])
		h.Write(tx)
	}
	return h.Sum(nil)
}

// Hook, if set, is called between consecutive ABCI calls of Exec with the
// index of the call about to be made (used to inject foreign calls).
type Hook func(n *Node, step int)

// Exec executes the block at height n.Height+1 along the given path.
func (n *Node) Exec(b *Block, path Path, hook Hook) (res *Result) {
	res = &Result{Path: path, Accepted: true}
	defer func() {
		if p := recover(); p != nil {
			res.Panic = fmt.Sprintf("%v", p)
		}
	}()
	height := n.Height + 1
	step := 0
	call := func() {
		if hook != nil {
			hook(n, step)
		}
		step++
	}
	extVotes := make([]types.ExtendedVoteInfo, 0, len(b.Votes))
	for _, v := range b.Votes {
		extVotes = append(extVotes, types.ExtendedVoteInfo{Validator: v.Validator, SignedLastBlock: v.SignedLastBlock})
	}
	if path == PathPropose {
		call()
		maxTxBytes := int64(n.Doc.Consensus.Parameters.MaxBlockSize)
		if b.MaxTxBytes > 0 {
			maxTxBytes = b.MaxTxBytes
		}
		pr := n.Mux.PrepareProposal(types.RequestPrepareProposal{
			MaxTxBytes:      maxTxBytes,
			Txs:             b.Txs,
			LocalLastCommit: types.ExtendedCommitInfo{Votes: extVotes},
			Misbehavior:     b.Misbehavior,
			Height:          height,
			Time:            b.Time,
			ProposerAddress: b.Proposer,
		})
		res.PreparedTxs = pr.Txs
		if len(pr.Txs) == 0 {
			res.Accepted = false
			res.Panic = "PrepareProposal returned an empty proposal (recovered panic or failure inside proposal execution)"
			return res
		}
		if b.full == nil {
			b.full = pr.Txs
		}
	}
	txs := b.full
	if txs == nil {
		res.Panic = "harness: block has no prepared transaction list"
		return res
	}
	hash := blockHash(height, txs, b.Time)
	if path == PathProcess2 {
		// On even heights first a malformed proposal (no block metadata), which must be rejected
		// without effect; on odd heights the valid alternative is the first proposal of the height.
		if height%2 == 0 {
			call()
			other := [][]byte{}
			_ = n.Mux.ProcessProposal(types.RequestProcessProposal{
				Txs: other, ProposedLastCommit: types.CommitInfo{Votes: b.Votes}, Misbehavior: nil,
				Hash: blockHash(height, other, b.Time.Add(time.Second)), Height: height, Time: b.Time.Add(time.Second), ProposerAddress: b.Proposer,
			})
		}
		// A different, VALID proposal for the same height first, which is then not decided: the
		// replica prepares its own proposal (no user transactions, another time) as the proposer of
		// an earlier round would, and validates it; afterwards the decided block arrives.
		call()
		pk := n.ident.ConsensusSigner.Public()
		own := Val{PubKey: pk[:]}.Address()
		t2 := b.Time.Add(time.Second)
		pr := n.Mux.PrepareProposal(types.RequestPrepareProposal{
			MaxTxBytes:      int64(n.Doc.Consensus.Parameters.MaxBlockSize),
			Txs:             nil,
			LocalLastCommit: types.ExtendedCommitInfo{Votes: extVotes},
			Height:          height,
			Time:            t2,
			ProposerAddress: own,
		})
		if os.Getenv("VERIF_CHAIN_DEBUG") != "" {
			fmt.Fprintf(os.Stderr, "CHAIN own alternative proposal at height %d: %d txs\n", height, len(pr.Txs))
		}
		if len(pr.Txs) > 0 {
			call()
			_ = n.Mux.ProcessProposal(types.RequestProcessProposal{
				Txs: pr.Txs, ProposedLastCommit: types.CommitInfo{Votes: b.Votes}, Misbehavior: nil,
				Hash: blockHash(height, pr.Txs, t2), Height: height, Time: t2, ProposerAddress: own,
			})
		}
	}
	if path != PathReplay {
		call()
		pp := n.Mux.ProcessProposal(types.RequestProcessProposal{
			Txs: txs, ProposedLastCommit: types.CommitInfo{Votes: b.Votes}, Misbehavior: b.Misbehavior,
			Hash: hash, Height: height, Time: b.Time, ProposerAddress: b.Proposer,
		})
		if pp.Status != types.ResponseProcessProposal_ACCEPT {
			res.Accepted = false
			return res
		}
	}
	call()
	bb := n.Mux.BeginBlock(types.RequestBeginBlock{
		Hash:                hash,
		Header:              cmtproto.Header{Height: height, Time: b.Time, ProposerAddress: b.Proposer, ChainID: n.Doc.ChainID},
		LastCommitInfo:      types.CommitInfo{Votes: b.Votes},
		ByzantineValidators: b.Misbehavior,
	})
	res.BlockEvents = append(res.BlockEvents, bb.Events...)
	for _, tx := range txs {
		call()
		r := n.Mux.DeliverTx(types.RequestDeliverTx{Tx: tx})
		res.TxResults = append(res.TxResults, r)
	}
	call()
	eb := n.Mux.EndBlock(types.RequestEndBlock{Height: height})
	res.ValidatorUpdates = eb.ValidatorUpdates
	res.BlockEvents = append(res.BlockEvents, eb.Events...)
	call()
	if n.CommitLock != nil {
		n.CommitLock.Lock()
	}
	cm := n.Mux.Commit()
	if n.CommitLock != nil {
		n.CommitLock.Unlock()
	}
	// the application returns a slice into its own state root array: copy it
	res.AppHash = append([]byte{}, cm.Data...)
	n.Height = height
	n.AppHash = append([]byte{}, cm.Data...)
	n.applyValidatorUpdates(eb.ValidatorUpdates)
	return res
}

// CheckTx runs a mempool check.
func (n *Node) CheckTx(tx []byte) (r types.ResponseCheckTx, panicked string) {
	defer func() {
		if p := recover(); p != nil {
			panicked = fmt.Sprintf("%v", p)
		}
	}()
	return n.Mux.CheckTx(types.RequestCheckTx{Tx: tx, Type: types.CheckTxType_New}), ""
}

// Dump reads the complete consensus state at the last committed height.
func (n *Node) Dump() (map[string][]byte, error) {
	root := node.Root{Namespace: n.stateNamespace(), Version: uint64(n.Height), Type: node.RootTypeState}
	copy(root.Hash[:], n.AppHash)
	t := mkvs.NewWithRoot(nil, n.Srv.State().Storage().NodeDB(), root, mkvs.WithoutWriteLog())
	defer t.Close()
	it := t.NewIterator(context.Background())
	defer it.Close()
	out := map[string][]byte{}
	for it.Rewind(); it.Valid(); it.Next() {
		out[string(it.Key())] = append([]byte{}, it.Value()...)
	}
	return out, it.Err()
}

func (n *Node) stateNamespace() (ns [32]byte) { return ns }

// PubKeyOf returns the ABCI public key of a validator.
func PubKeyOf(pk signature.PublicKey) []byte { return pk[:] }
