// Package ev holds what every engine shares: tiers, evidence files, replay
// artefacts, known-findings matching and the VIOLATION / KNOWN-FINDING protocol.
package ev

import (
	"runtime/pprof"
	"bufio"
	"encoding/json"
	"flag"
	"fmt"
	"os"
	"os/exec"
	"path/filepath"
	"runtime"
	"sort"
	"strconv"
	"strings"
	"sync"
	"time"
)

// Root is the /verif directory (overridable for runs from a snapshot).
func Root() string {
	if r := os.Getenv("VERIF_ROOT"); r != "" {
		return r
	}
	return "/verif"
}

// Run is the per-check context.
type Run struct {
	ID        string
	Tier      string
	Seed      int64
	Level     string
	Replay    string
	Start     time.Time
	Deadline  time.Time // internal soft deadline; zero = none
	NoWrite   bool
	mu        sync.Mutex
	cov       map[string]any
	assume    []string
	samples   []any
	viol      []Violation
	known     []knownEntry
	knownHit  map[string]bool
	outcomes  map[string]struct{}
	capsHit   []string
	Exhaust   bool
	harnessEr []string
	added     map[string]bool
	aliases   map[string]string
	shardK    int
	shardN    int
}

// Violation is one replayable counterexample.
type Violation struct {
	Property string `json:"property"`
	Engine   string `json:"engine"`
	// Key identifies the failing input for known-findings matching.
	Key      string `json:"key"`
	What     string `json:"what"`
	Artefact any    `json:"artefact"`
}

type knownEntry struct {
	Property string `json:"property"`
	Kind     string `json:"kind"` // "known" | "fixed"
	Match    string `json:"match"`
	Commit   string `json:"commit,omitempty"`
	What     string `json:"what"`
}

// Parse handles the common flags: <ID> [--tier quick|thorough] [--replay f].
func Parse(level string) *Run {
	if len(os.Args) < 2 {
		fmt.Println("usage: <engine> <property-id> [--tier quick|thorough] [--replay file]")
		os.Exit(2)
	}
	id := os.Args[1]
	fs := flag.NewFlagSet(id, flag.ExitOnError)
	tier := fs.String("tier", "", "quick|thorough")
	replay := fs.String("replay", "", "replay artefact")
	budget := fs.Duration("budget", 0, "soft deadline override")
	_ = fs.Parse(os.Args[2:])
	r := New(id, level)
	if *tier != "" {
		r.Tier = *tier
	}
	r.Replay = *replay
	if *budget > 0 {
		r.Deadline = r.Start.Add(*budget)
	}
	return r
}

// New creates a run context from the environment.
func New(id, level string) *Run {
	r := &Run{ID: id, Level: level, Tier: "quick", Start: time.Now(), Exhaust: true,
		cov: map[string]any{}, knownHit: map[string]bool{}, outcomes: map[string]struct{}{}, added: map[string]bool{}, aliases: map[string]string{}}
	if t := os.Getenv("VERIF_TIER"); t == "quick" || t == "thorough" {
		r.Tier = t
	}
	if s := os.Getenv("VERIF_SEED"); s != "" {
		if v, err := strconv.ParseInt(s, 10, 64); err == nil {
			r.Seed = v
		}
	}
	if os.Getenv("VERIF_NO_EVIDENCE") != "" {
		r.NoWrite = true
	}
	r.loadKnown()
	return r
}

func (r *Run) Thorough() bool { return r.Tier == "thorough" }

// Workers is the number of parallel workers to use.
func Workers() int {
	if s := os.Getenv("VERIF_WORKERS"); s != "" {
		if v, err := strconv.Atoi(s); err == nil && v > 0 {
			return v
		}
	}
	n := runtime.NumCPU()
	if n > 16 {
		n = 16
	}
	return n
}

func (r *Run) loadKnown() {
	f, err := os.Open(filepath.Join(Root(), "known_findings.jsonl"))
	if err != nil {
		return
	}
	defer f.Close()
	sc := bufio.NewScanner(f)
	sc.Buffer(make([]byte, 1<<20), 1<<24)
	for sc.Scan() {
		line := strings.TrimSpace(sc.Text())
		if line == "" || strings.HasPrefix(line, "#") {
			continue
		}
		var k knownEntry
		if json.Unmarshal([]byte(line), &k) == nil && k.Property == r.ID {
			r.known = append(r.known, k)
		}
	}
}

// Set records a coverage key.
func (r *Run) Set(k string, v any) { r.mu.Lock(); r.cov[k] = v; r.mu.Unlock() }

// Add adds n to an integer coverage key.
func (r *Run) Add(k string, n int64) {
	r.mu.Lock()
	cur, _ := r.cov[k].(int64)
	r.cov[k] = cur + n
	r.added[k] = true
	r.mu.Unlock()
}

// Alias makes coverage key dst a copy of src at Finish (after shard merging).
func (r *Run) Alias(dst, src string) { r.mu.Lock(); r.aliases[dst] = src; r.mu.Unlock() }

func (r *Run) Get(k string) int64 {
	r.mu.Lock()
	defer r.mu.Unlock()
	cur, _ := r.cov[k].(int64)
	return cur
}

func (r *Run) Assume(s ...string) { r.mu.Lock(); r.assume = append(r.assume, s...); r.mu.Unlock() }

// Sample records up to max sample cases.
func (r *Run) Sample(v any, max int) {
	r.mu.Lock()
	if len(r.samples) < max {
		r.samples = append(r.samples, v)
	}
	r.mu.Unlock()
}

// Outcome records a distinct observation transcript (vacuity guard).
func (r *Run) Outcome(s string) {
	r.mu.Lock()
	if len(r.outcomes) < 1<<20 {
		r.outcomes[s] = struct{}{}
	}
	r.mu.Unlock()
}

// Cap records that a cap was hit: the run is not exhaustive.
func (r *Run) Cap(what string) {
	r.mu.Lock()
	r.Exhaust = false
	for _, c := range r.capsHit {
		if c == what {
			r.mu.Unlock()
			return
		}
	}
	r.capsHit = append(r.capsHit, what)
	r.mu.Unlock()
}

// Expired reports whether the internal soft deadline has passed.
func (r *Run) Expired() bool {
	return !r.Deadline.IsZero() && time.Now().After(r.Deadline)
}

// HarnessError records a harness (not property) failure; exit code 2.
func (r *Run) HarnessError(format string, a ...any) {
	r.mu.Lock()
	if len(r.harnessEr) < 20 {
		r.harnessEr = append(r.harnessEr, fmt.Sprintf(format, a...))
	}
	r.mu.Unlock()
}

// Violate records a violation (deduplicated by key; at most 50 kept).
func (r *Run) Violate(v Violation) {
	v.Property = r.ID
	r.mu.Lock()
	defer r.mu.Unlock()
	for _, k := range r.known {
		if k.Kind == "known" && k.Match != "" && strings.Contains(v.Key, k.Match) {
			r.knownHit[k.Match+" :: "+k.What] = true
			return
		}
	}
	for _, o := range r.viol {
		if o.Key == v.Key {
			return
		}
	}
	if len(r.viol) < 50 {
		r.viol = append(r.viol, v)
	}
}

// IsKnown reports whether a violation with this key is a listed known finding.
func (r *Run) IsKnown(key string) bool {
	r.mu.Lock()
	defer r.mu.Unlock()
	for _, k := range r.known {
		if k.Kind == "known" && k.Match != "" && strings.Contains(key, k.Match) {
			return true
		}
	}
	return false
}

func (r *Run) NumViolations() int { r.mu.Lock(); defer r.mu.Unlock(); return len(r.viol) }

// Finish writes evidence, prints protocol lines and exits.
func (r *Run) Finish() {
	if os.Getenv("VERIF_MEMSTATS") != "" {
		var ms runtime.MemStats
		runtime.GC()
		runtime.ReadMemStats(&ms)
		fmt.Fprintf(os.Stderr, "MEMSTATS goroutines=%d heap_alloc=%dMB heap_sys=%dMB heap_objects=%d\n", runtime.NumGoroutine(), ms.HeapAlloc>>20, ms.HeapSys>>20, ms.HeapObjects)
		if f, err := os.Create(os.Getenv("VERIF_MEMSTATS")); err == nil {
			_ = pprof.Lookup("goroutine").WriteTo(f, 1)
			f.Close()
		}
	}
	wall := time.Since(r.Start).Seconds()
	r.mu.Lock()
	defer r.mu.Unlock()
	if out := os.Getenv("VERIF_SHARD_OUT"); out != "" && r.shardN > 0 {
		r.writeShard(out)
		os.Exit(0)
	}
	for dst, src := range r.aliases {
		r.cov[dst] = r.cov[src]
	}
	cov := r.cov
	cov["exhaustive"] = r.Exhaust
	if len(r.capsHit) > 0 {
		cov["caps_hit"] = r.capsHit
	}
	if len(r.samples) == 0 {
		r.samples = append(r.samples, "no sample recorded")
	}
	cov["samples"] = r.samples
	cov["distinct_outcomes"] = len(r.outcomes)
	sort.Strings(r.assume)
	if r.assume == nil {
		r.assume = []string{}
	}
	e := map[string]any{
		"property_id": r.ID, "tier": r.Tier, "seed": r.Seed, "level": r.Level,
		"coverage": cov, "assumptions": r.assume, "wall_s": wall, "violations": len(r.viol),
	}
	if len(r.knownHit) > 0 {
		var kk []string
		for k := range r.knownHit {
			kk = append(kk, k)
		}
		sort.Strings(kk)
		e["known_findings_hit"] = kk
	}
	if len(r.harnessEr) > 0 {
		e["harness_errors"] = r.harnessEr
	}
	if pfx := os.Getenv("VERIF_EVIDENCE_MERGE"); pfx != "" && !r.NoWrite && r.Replay == "" {
		// Second engine of a property: fold this run into the evidence file the first engine wrote.
		e = mergeEvidence(filepath.Join(Root(), "evidence", r.ID+".json"), pfx, e)
	}
	if !r.NoWrite && r.Replay == "" {
		dir := filepath.Join(Root(), "evidence")
		_ = os.MkdirAll(dir, 0o755)
		b, _ := json.MarshalIndent(e, "", " ")
		tmp := filepath.Join(dir, "."+r.ID+".tmp")
		_ = os.WriteFile(tmp, append(b, '\n'), 0o644)
		_ = os.Rename(tmp, filepath.Join(dir, r.ID+".json"))
	}
	for k := range r.knownHit {
		fmt.Printf("KNOWN-FINDING: property=%s %s\n", r.ID, k)
	}
	for _, h := range r.harnessEr {
		fmt.Printf("HARNESS-ERROR: property=%s %s\n", r.ID, h)
	}
	for i, v := range r.viol {
		path := r.Replay
		if path == "" {
			dir := filepath.Join(Root(), "replays", r.ID)
			_ = os.MkdirAll(dir, 0o755)
			path = filepath.Join(dir, fmt.Sprintf("%s-%s-%s%d.json", r.ID, r.Tier, os.Getenv("VERIF_EVIDENCE_MERGE"), i))
			b, _ := json.MarshalIndent(v, "", " ")
			_ = os.WriteFile(path, append(b, '\n'), 0o644)
		}
		fmt.Printf("VIOLATION property=%s replay=%s\n", r.ID, path)
		fmt.Printf("  what: %s\n", v.What)
	}
	fmt.Printf("%s tier=%s exhaustive=%v wall=%.1fs violations=%d coverage=%s\n", r.ID, r.Tier, r.Exhaust, wall, len(r.viol), brief(cov))
	switch {
	case len(r.viol) > 0:
		os.Exit(1)
	case len(r.harnessEr) > 0:
		os.Exit(2)
	}
	os.Exit(0)
}

// mergeEvidence folds the evidence of a second engine (keys prefixed) into the
// evidence the first engine wrote for the same property and tier.
func mergeEvidence(path, pfx string, e map[string]any) map[string]any {
	b, err := os.ReadFile(path)
	if err != nil {
		return e
	}
	var first map[string]any
	if json.Unmarshal(b, &first) != nil || first["property_id"] != e["property_id"] || first["tier"] != e["tier"] {
		return e
	}
	fc, _ := first["coverage"].(map[string]any)
	sc, _ := e["coverage"].(map[string]any)
	if fc == nil || sc == nil {
		return e
	}
	num := func(v any) float64 {
		switch x := v.(type) {
		case float64:
			return x
		case int:
			return float64(x)
		case int64:
			return float64(x)
		}
		return 0
	}
	for k, v := range sc {
		switch k {
		case "states", "transitions", "traces_validated_against_impl", "distinct_outcomes":
			fc[pfx+"_"+k] = v
			fc[k] = num(fc[k]) + num(v)
		case "exhaustive":
			fb, _ := fc[k].(bool)
			sb, _ := v.(bool)
			fc[k] = fb && sb
		case "samples":
			fs, _ := fc[k].([]any)
			ss, _ := v.([]any)
			fc[k] = append(fs, ss...)
		case "caps_hit":
			fs, _ := fc[k].([]any)
			for _, c := range v.([]string) {
				fs = append(fs, pfx+": "+c)
			}
			fc[k] = fs
		default:
			if _, clash := fc[k]; clash {
				fc[pfx+"_"+k] = v
			} else {
				fc[k] = v
			}
		}
	}
	as, _ := first["assumptions"].([]any)
	for _, a := range e["assumptions"].([]string) {
		as = append(as, a)
	}
	first["assumptions"] = as
	first["violations"] = num(first["violations"]) + num(e["violations"])
	first["wall_s"] = num(first["wall_s"]) + num(e["wall_s"])
	if k2, ok := e["known_findings_hit"]; ok {
		k1, _ := first["known_findings_hit"].([]any)
		for _, k := range k2.([]string) {
			k1 = append(k1, k)
		}
		first["known_findings_hit"] = k1
	}
	if h2, ok := e["harness_errors"]; ok {
		h1, _ := first["harness_errors"].([]any)
		for _, h := range h2.([]string) {
			h1 = append(h1, h)
		}
		first["harness_errors"] = h1
	}
	return first
}

func brief(cov map[string]any) string {
	var ks []string
	for k, v := range cov {
		switch v.(type) {
		case int, int64, bool, float64:
			ks = append(ks, fmt.Sprintf("%s=%v", k, v))
		}
	}
	sort.Strings(ks)
	return strings.Join(ks, " ")
}

// LoadReplay reads a violation artefact.
func LoadReplay(path string) (*Violation, error) {
	b, err := os.ReadFile(path)
	if err != nil {
		return nil, err
	}
	var v Violation
	if err := json.Unmarshal(b, &v); err != nil {
		return nil, err
	}
	return &v, nil
}

type shardState struct {
	Adds      map[string]int64 `json:"adds"`
	Sets      map[string]any   `json:"sets"`
	Aliases   map[string]string `json:"aliases"`
	Assume    []string         `json:"assume"`
	Samples   []any            `json:"samples"`
	Viol      []Violation      `json:"viol"`
	KnownHit  []string         `json:"known_hit"`
	Outcomes  []string         `json:"outcomes"`
	Caps      []string         `json:"caps"`
	HarnessEr []string         `json:"harness_errors"`
}

func (r *Run) writeShard(path string) {
	st := shardState{Adds: map[string]int64{}, Sets: map[string]any{}, Aliases: r.aliases, Assume: r.assume, Samples: r.samples, Viol: r.viol, Caps: r.capsHit, HarnessEr: r.harnessEr}
	for k, v := range r.cov {
		if r.added[k] {
			st.Adds[k], _ = v.(int64)
		} else {
			st.Sets[k] = v
		}
	}
	for k := range r.knownHit {
		st.KnownHit = append(st.KnownHit, k)
	}
	for k := range r.outcomes {
		st.Outcomes = append(st.Outcomes, k)
	}
	b, _ := json.Marshal(st)
	_ = os.WriteFile(path, b, 0o644)
}

// Fork turns the run into a multi-process one: the parent re-executes this
// binary n times with the same arguments (child k handles the indices i with
// i mod n == k of every ParallelRange, on one OS thread-group of its own),
// merges the children's results and finishes; in a child Fork returns.
// Separate processes avoid the page-fault and GC contention of thousands of
// short-lived databases in one address space.
func (r *Run) Fork(n int) {
	if r.Replay != "" || n <= 1 {
		return
	}
	if s := os.Getenv("VERIF_SHARD"); s != "" {
		fmt.Sscanf(s, "%d/%d", &r.shardK, &r.shardN)
		return
	}
	dir, err := os.MkdirTemp("", "verif-shards-")
	if err != nil {
		r.HarnessError("fork: %v", err)
		r.Finish()
	}
	defer os.RemoveAll(dir)
	var wg sync.WaitGroup
	outs := make([]string, n)
	errs := make([]error, n)
	logs := make([][]byte, n)
	for k := 0; k < n; k++ {
		outs[k] = filepath.Join(dir, fmt.Sprintf("shard%d.json", k))
		wg.Add(1)
		go func(k int) {
			defer wg.Done()
			cmd := exec.Command(os.Args[0], os.Args[1:]...)
			cmd.Env = append(os.Environ(), fmt.Sprintf("VERIF_SHARD=%d/%d", k, n), "VERIF_SHARD_OUT="+outs[k], "GOMAXPROCS=2")
			logs[k], errs[k] = cmd.CombinedOutput()
		}(k)
	}
	wg.Wait()
	for k := 0; k < n; k++ {
		b, err := os.ReadFile(outs[k])
		if err != nil {
			tail := string(logs[k])
			if len(tail) > 1500 {
				tail = tail[len(tail)-1500:]
			}
			r.HarnessError("shard %d/%d produced no result (%v): %s", k, n, errs[k], tail)
			continue
		}
		var st shardState
		if err := json.Unmarshal(b, &st); err != nil {
			r.HarnessError("shard %d: %v", k, err)
			continue
		}
		for key, v := range st.Adds {
			r.Add(key, v)
		}
		for key, v := range st.Sets {
			if f, ok := v.(float64); ok && f == float64(int64(f)) {
				v = int64(f)
			}
			r.Set(key, v)
		}
		for d, s := range st.Aliases {
			r.Alias(d, s)
		}
		for _, a := range st.Assume {
			dup := false
			for _, b := range r.assume {
				dup = dup || a == b
			}
			if !dup {
				r.Assume(a)
			}
		}
		for _, sm := range st.Samples {
			r.Sample(sm, 6)
		}
		for _, v := range st.Viol {
			r.Violate(v)
		}
		for _, kh := range st.KnownHit {
			r.mu.Lock()
			r.knownHit[kh] = true
			r.mu.Unlock()
		}
		for _, o := range st.Outcomes {
			r.Outcome(o)
		}
		for _, c := range st.Caps {
			r.Cap(c)
		}
		for _, h := range st.HarnessEr {
			r.HarnessError("%s", h)
		}
	}
	r.Finish()
}

// ParallelRange runs f(i) for i in [0,n) on Workers() goroutines; f must be
// safe for concurrent use on distinct i. Order of visiting is permuted by seed
// only in its starting offset (results must be order independent).
func ParallelRange(n int, seed int64, f func(i int)) {
	if s := os.Getenv("VERIF_SHARD"); s != "" {
		var k, m int
		if _, err := fmt.Sscanf(s, "%d/%d", &k, &m); err == nil && m > 0 {
			for i := 0; i < n; i++ {
				if i%m == k {
					f(i)
				}
			}
			return
		}
	}
	w := Workers()
	if w > n {
		w = n
	}
	if w <= 0 {
		return
	}
	var next int64
	var mu sync.Mutex
	off := 0
	if n > 0 {
		off = int(((seed % int64(n)) + int64(n)) % int64(n))
	}
	var wg sync.WaitGroup
	for k := 0; k < w; k++ {
		wg.Add(1)
		go func() {
			defer wg.Done()
			for {
				mu.Lock()
				i := next
				next++
				mu.Unlock()
				if i >= int64(n) {
					return
				}
				f((int(i) + off) % n)
			}
		}()
	}
	wg.Wait()
}
