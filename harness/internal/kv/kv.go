// Package kv holds the oracle side of the MKVS checks: the adversarial key
// alphabet, an independent canonical-trie hasher that looks only at the sorted
// key/value set, an ordered-map reference, and node database helpers.
package kv

import (
	"bytes"
	"context"
	"encoding/binary"
	"fmt"
	"os"
	"regexp"
	"runtime/debug"
	"sort"
	"strings"

	"github.com/dgraph-io/badger/v4/verifhook"

	"github.com/oasisprotocol/oasis-core/go/common"
	"github.com/oasisprotocol/oasis-core/go/common/crypto/hash"
	"github.com/oasisprotocol/oasis-core/go/storage/mkvs"
	dbapi "github.com/oasisprotocol/oasis-core/go/storage/mkvs/db/api"
	badgerdb "github.com/oasisprotocol/oasis-core/go/storage/mkvs/db/badger"
	pathbadger "github.com/oasisprotocol/oasis-core/go/storage/mkvs/db/pathbadger"
	"github.com/oasisprotocol/oasis-core/go/storage/mkvs/node"
)

var Ctx = context.Background()

func init() {
	// Memory-only databases are created by the thousand; the shipped 64 MiB
	// memtable arena makes each open cost tens of milliseconds.  Only the
	// flush frequency depends on the size (see third_party/badger/verifhook).
	// Thousands of short-lived databases: trade memory for fewer collections.
	debug.SetGCPercent(200)
	debug.SetMemoryLimit(6 << 30)
	if os.Getenv("VERIF_BADGER_DEFAULT_MEMTABLE") == "" {
		verifhook.MemTableSize.Store(8 << 20)
	}
}

// Keys is the adversarial alphabet: empty key, keys that are proper prefixes
// of others, keys splitting an edge inside a byte, first-bit-different keys.
var Keys = [][]byte{
	{},
	{0x00},
	{0x00, 0x00},
	{0x00, 0x80},
	{0x00, 0x00, 0x01},
	{0x80},
	{0x80, 0x00},
	{0xff},
}

// Keys6 is the 6-key sub-alphabet, Keys5 the 5-key one.
var (
	Keys6 = [][]byte{{}, {0x00}, {0x00, 0x00}, {0x00, 0x80}, {0x80}, {0xff}}
	Keys5 = [][]byte{{}, {0x00}, {0x00, 0x00}, {0x00, 0x80}, {0x80}}
)

// Values: index 0 means absent.
var Values = [][]byte{nil, {}, []byte("a"), []byte("b")}

// Contents is a key/value set (string(key) -> value, value non-nil).
type Contents map[string][]byte

func (c Contents) Clone() Contents {
	o := make(Contents, len(c))
	for k, v := range c {
		o[k] = v
	}
	return o
}

func (c Contents) SortedKeys() []string {
	ks := make([]string, 0, len(c))
	for k := range c {
		ks = append(ks, k)
	}
	sort.Strings(ks)
	return ks
}

func (c Contents) String() string {
	var sb strings.Builder
	sb.WriteString("{")
	for i, k := range c.SortedKeys() {
		if i > 0 {
			sb.WriteString(",")
		}
		fmt.Fprintf(&sb, "%x=%q", k, c[k])
	}
	sb.WriteString("}")
	return sb.String()
}

func (c Contents) Equal(o Contents) bool {
	if len(c) != len(o) {
		return false
	}
	for k, v := range c {
		w, ok := o[k]
		if !ok || !bytes.Equal(v, w) {
			return false
		}
	}
	return true
}

// ContentsFromIndex decodes a mixed-radix index: digit i (base len(vals)) is
// the value index of keys[i]; 0 = absent.
func ContentsFromIndex(idx int, keys [][]byte, vals [][]byte) Contents {
	c := Contents{}
	for _, k := range keys {
		d := idx % len(vals)
		idx /= len(vals)
		if d != 0 {
			c[string(k)] = vals[d]
		}
	}
	return c
}

func Pow(b, e int) int {
	r := 1
	for i := 0; i < e; i++ {
		r *= b
	}
	return r
}

// ---- canonical hasher ------------------------------------------------------

func bitLen(k string) int { return len(k) * 8 }

func getBit(k string, i int) bool { return k[i/8]&(1<<(7-uint(i%8))) != 0 }

// bitsOf extracts bits [from,to) of k, left-aligned, zero padded.
func bitsOf(k string, from, to int) []byte {
	n := to - from
	out := make([]byte, (n+7)/8)
	for i := 0; i < n; i++ {
		if getBit(k, from+i) {
			out[i/8] |= 1 << (7 - uint(i%8))
		}
	}
	return out
}

func emptyHash() hash.Hash {
	var h hash.Hash
	h.Empty()
	return h
}

func leafHash(k string, v []byte) hash.Hash {
	var kl, vl [4]byte
	binary.LittleEndian.PutUint32(kl[:], uint32(len(k)))
	binary.LittleEndian.PutUint32(vl[:], uint32(len(v)))
	return hash.NewFromBytes([]byte{0x00}, kl[:], []byte(k), vl[:], v)
}

// CanonicalRoot computes the root hash from the key/value set alone, following
// the documented structure: a compressed binary Patricia trie in which an
// internal node exists exactly where at least two of {a key ending here, keys
// continuing with bit 0, keys continuing with bit 1} are non-empty.
func CanonicalRoot(c Contents) hash.Hash {
	return canon(c, c.SortedKeys(), 0)
}

func canon(c Contents, keys []string, depth int) hash.Hash {
	switch len(keys) {
	case 0:
		return emptyHash()
	case 1:
		return leafHash(keys[0], c[keys[0]])
	}
	// Longest common prefix (in bits) of all keys, limited by the shortest.
	first, last := keys[0], keys[len(keys)-1] // sorted: lcp(all) = lcp(first,last)
	minLen := bitLen(first)
	for _, k := range keys {
		if bitLen(k) < minLen {
			minLen = bitLen(k)
		}
	}
	cp := depth
	for cp < minLen && cp < bitLen(last) && getBit(first, cp) == getBit(last, cp) {
		cp++
	}
	var leafH, leftH, rightH hash.Hash
	leafH = emptyHash()
	var left, right []string
	for _, k := range keys {
		switch {
		case bitLen(k) == cp:
			leafH = leafHash(k, c[k])
		case getBit(k, cp):
			right = append(right, k)
		default:
			left = append(left, k)
		}
	}
	leftH = canon(c, left, cp)
	rightH = canon(c, right, cp)
	var bl [2]byte
	binary.LittleEndian.PutUint16(bl[:], uint16(cp-depth))
	return hash.NewFromBytes([]byte{0x01}, bl[:], bitsOf(first, depth, cp), leafH[:], leftH[:], rightH[:])
}

// ---- node databases ----------------------------------------------------------

var Namespace = common.NewTestNamespaceFromSeed([]byte("verif kvmc"), 0)

// Backends lists the node database backends by name.
var Backends = []string{"badger", "pathbadger"}

// OpenDB opens a node database: memory-only if dir is empty.
func OpenDB(backend, dir string) (dbapi.NodeDB, error) {
	cfg := &dbapi.Config{Namespace: Namespace, MaxCacheSize: 1024 * 1024, NoFsync: true}
	if dir == "" {
		cfg.MemoryOnly = true
	} else {
		cfg.DB = dir
		if err := os.MkdirAll(dir, 0o755); err != nil {
			return nil, err
		}
	}
	switch backend {
	case "badger":
		return badgerdb.New(cfg)
	case "pathbadger":
		return pathbadger.New(cfg)
	}
	return nil, fmt.Errorf("unknown backend %s", backend)
}

// ---- tree helpers ----------------------------------------------------------------

// TreeContents reads the whole tree through an iterator.
func TreeContents(t mkvs.ImmutableKeyValueTree) (Contents, []string, error) {
	it := t.NewIterator(Ctx)
	defer it.Close()
	c := Contents{}
	var order []string
	for it.Rewind(); it.Valid(); it.Next() {
		k := string(it.Key())
		v := it.Value()
		if v == nil {
			v = []byte{}
		}
		c[k] = append([]byte{}, v...)
		order = append(order, k)
	}
	return c, order, it.Err()
}

// RootOf computes the root hash of the tree without persisting anything.
func RootOf(t mkvs.Tree) (hash.Hash, error) {
	_, h, err := t.Commit(Ctx, Namespace, 1, mkvs.NoPersist())
	return h, err
}

var (
	reDirtyLeaf = regexp.MustCompile(`\[false/[0-9a-f]{64}\]`)
	reDirtyInt  = regexp.MustCompile(`\[false/("(?:[^"\\]|\\.)*"\(\d+\))/[0-9a-f]{64}\]`)
)

// NormDump is the in-memory tree serialised by DumpLocal with the (stale)
// hashes of dirty nodes removed: the physical shape used as a state key.
func NormDump(t mkvs.Tree) string {
	var buf bytes.Buffer
	t.DumpLocal(Ctx, &buf, 0)
	s := reDirtyInt.ReplaceAllString(buf.String(), "[false/$1]")
	s = reDirtyLeaf.ReplaceAllString(s, "[false]")
	return s
}

// RootFor makes a node.Root.
func RootFor(version uint64, typ node.RootType, h hash.Hash) node.Root {
	return node.Root{Namespace: Namespace, Version: version, Type: typ, Hash: h}
}
