package kv

import (
	"encoding/hex"
	"encoding/json"
)

// Contents keys are arbitrary bytes; JSON object keys must be valid UTF-8 (Go replaces other bytes by
// U+FFFD), so artefacts carry the keys as "x" + hex.  Plain keys of older artefacts are still read.
func (c Contents) MarshalJSON() ([]byte, error) {
	m := make(map[string][]byte, len(c))
	for k, v := range c {
		m["x"+hex.EncodeToString([]byte(k))] = v
	}
	return json.Marshal(m)
}

func (c *Contents) UnmarshalJSON(b []byte) error {
	var m map[string][]byte
	if err := json.Unmarshal(b, &m); err != nil {
		return err
	}
	if m == nil {
		*c = nil
		return nil
	}
	out := make(Contents, len(m))
	for k, v := range m {
		if len(k) > 0 && k[0] == 'x' && len(k)%2 == 1 {
			if raw, err := hex.DecodeString(k[1:]); err == nil {
				if v == nil {
					v = []byte{}
				}
				out[string(raw)] = v
				continue
			}
		}
		if v == nil {
			v = []byte{}
		}
		out[k] = v
	}
	*c = out
	return nil
}
