//go:build verif

package badger

import (
	"fmt"
	"math"
	"strings"

	"github.com/dgraph-io/badger/v4"

	"github.com/oasisprotocol/oasis-core/go/common/crypto/hash"
	"github.com/oasisprotocol/oasis-core/go/storage/mkvs/db/api"
)

// VerifDump serialises the complete physical store (every key, every version,
// deletion markers, value hashes) for the /verif harness. Read-only.
func VerifDump(ndb api.NodeDB) string {
	d := ndb.(*badgerNodeDB)
	txn := d.db.NewTransactionAt(math.MaxUint64, false)
	defer txn.Discard()
	it := txn.NewIterator(badger.IteratorOptions{AllVersions: true, PrefetchValues: false})
	defer it.Close()
	var sb strings.Builder
	for it.Rewind(); it.Valid(); it.Next() {
		item := it.Item()
		var vh string
		if item.IsDeletedOrExpired() {
			vh = "<del>"
		} else {
			v, _ := item.ValueCopy(nil)
			h := hash.NewFromBytes(v)
			vh = h.String()[:16]
		}
		fmt.Fprintf(&sb, "%x@%d=%s\n", item.Key(), item.Version(), vh)
	}
	return sb.String()
}
