//go:build verif

// Package sched is the cooperative scheduler of the /verif harness.  It exists
// only in builds with the verif tag (added by the build overlay; nothing of it
// is in the repository).  Controlled threads are real goroutines of which
// exactly one runs at a time; a thread hands control back at every Point (a
// lock acquisition through the sync shim, a node-database read or durable
// write through the badger hooks), where the explorer decides which enabled
// thread continues.  One execution is determined by its list of choices, so
// every schedule can be replayed.
package sched

import (
	"fmt"
	"os"
	"runtime"
	"strconv"
	"strings"
	"sync/atomic"
	"time"
)

// Step is one scheduling decision.
type Step struct {
	Enabled []int  // thread ids, canonical order: running thread first (if enabled), then ascending
	Chosen  int    // index into Enabled
	Label   string // what the chosen thread is about to do
	// RunningEnabled says that the previously running thread was still enabled:
	// choosing another one is a preemption.
	RunningEnabled bool
}

// Result describes one complete execution.
type Result struct {
	Steps    []Step
	Choices  []int
	Panics   map[int]string // thread id -> panic text
	Deadlock bool           // some thread unfinished and nobody enabled
	Blocked  []string       // labels of the blocked threads at a deadlock
	Hung     bool           // a thread did not come back to the scheduler (harness problem)
	Foreign  int64          // shim calls from goroutines the scheduler does not own
	Diverged string         // replayed prefix did not fit (non-determinism): harness problem
}

type thread struct {
	id    int
	gid   int64
	wake  chan bool // true: continue, false: abort (unwind)
	done  bool
	label string
	guard func() bool
}

type abortSentinel struct{}

// Sched is one execution in progress.
type Sched struct {
	threads []*thread
	cur     *thread
	yield   chan struct{}
	foreign atomic.Int64
	byGid   map[int64]*thread
	names   map[any]int
}

// name gives the object behind p a small number that is stable across
// executions of the same scenario (order of first use), for readable labels.
func (s *Sched) name(p any) string {
	n, ok := s.names[p]
	if !ok {
		n = len(s.names) + 1
		s.names[p] = n
	}
	return fmt.Sprintf("#%d", n)
}

var active atomic.Pointer[Sched]

// HangTimeout is how long the scheduler waits for the running thread to reach
// its next point before it declares the execution hung (a harness problem:
// the thread blocks on something the scheduler does not own).
var HangTimeout = 30 * time.Second

// DumpOnHang prints all goroutine stacks when an execution hangs.
var DumpOnHang = false

// Active reports whether the calling goroutine is a controlled thread of an
// execution in progress.
func Active() bool {
	s := active.Load()
	if s == nil {
		return false
	}
	return s.lookup() != nil
}

// Current returns the id of the calling controlled thread, or -1.
func Current() int {
	s := active.Load()
	if s == nil {
		return -1
	}
	if t := s.lookup(); t != nil {
		return t.id
	}
	return -1
}

func goid() int64 {
	var buf [64]byte
	n := runtime.Stack(buf[:], false)
	// "goroutine 123 [running]:..."
	f := strings.Fields(string(buf[:n]))
	if len(f) < 2 {
		return -1
	}
	id, _ := strconv.ParseInt(f[1], 10, 64)
	return id
}

func (s *Sched) lookup() *thread {
	g := goid()
	// byGid is written only while all threads are parked (start-up), read afterwards.
	return s.byGid[g]
}

// Point hands control to the scheduler.  guard (may be nil) tells whether the
// thread can proceed; it is evaluated by the scheduler while every thread is
// parked.  Outside an execution, or on a goroutine the scheduler does not own,
// Point returns false at once and the caller must fall back to the real
// primitive.
func Point(kind string, obj any, guard func() bool) bool {
	s := active.Load()
	if s == nil {
		return false
	}
	t := s.lookup()
	if t == nil {
		s.foreign.Add(1)
		return false
	}
	if t != s.cur {
		panic(fmt.Sprintf("sched: thread %d at a point while thread %d is running", t.id, s.cur.id))
	}
	label := kind
	if obj != nil {
		label += " " + s.name(obj)
	}
	t.label, t.guard = label, guard
	s.yield <- struct{}{}
	if !<-t.wake {
		panic(abortSentinel{})
	}
	t.guard = nil
	return true
}

// Run executes the bodies as controlled threads. Choices are taken from
// prefix while it lasts (an out-of-range choice is reported in Diverged) and
// are 0 afterwards: keep running the current thread, else the lowest id.
func Run(prefix []int, bodies []func()) *Result {
	s := &Sched{yield: make(chan struct{}), byGid: map[int64]*thread{}, names: map[any]int{}}
	res := &Result{Panics: map[int]string{}}
	started := make(chan int64)
	for i, body := range bodies {
		t := &thread{id: i, wake: make(chan bool), label: "start"}
		s.threads = append(s.threads, t)
		go func(t *thread, body func()) {
			started <- goid()
			defer func() {
				if r := recover(); r != nil {
					if _, ok := r.(abortSentinel); !ok {
						buf := make([]byte, 4096)
						n := runtime.Stack(buf, false)
						res.Panics[t.id] = fmt.Sprintf("%v\n%s", r, buf[:n])
					}
				}
				t.done = true
				s.yield <- struct{}{}
			}()
			if !<-t.wake {
				panic(abortSentinel{})
			}
			body()
		}(t, body)
		t.gid = <-started
		s.byGid[t.gid] = t
	}
	if !active.CompareAndSwap(nil, s) {
		panic("sched: nested executions")
	}
	defer active.Store(nil)

	abort := func() {
		// unwind every parked thread so that no goroutine (and no lock) is left behind
		for _, t := range s.threads {
			for !t.done {
				// deferred code of the unwinding thread may reach further points
				s.cur = t
				t.wake <- false
				<-s.yield
			}
		}
	}
	for {
		var enabled []int
		unfinished := 0
		runningEnabled := false
		for _, t := range s.threads {
			if t.done {
				continue
			}
			unfinished++
			if t.guard == nil || t.guard() {
				if t == s.cur {
					runningEnabled = true
				} else {
					enabled = append(enabled, t.id)
				}
			}
		}
		if runningEnabled {
			enabled = append([]int{s.cur.id}, enabled...)
		}
		if unfinished == 0 {
			break
		}
		if len(enabled) == 0 {
			res.Deadlock = true
			for _, t := range s.threads {
				if !t.done {
					res.Blocked = append(res.Blocked, fmt.Sprintf("t%d:%s", t.id, t.label))
				}
			}
			abort()
			break
		}
		c := 0
		if len(res.Choices) < len(prefix) {
			c = prefix[len(res.Choices)]
			if c < 0 || c >= len(enabled) {
				res.Diverged = fmt.Sprintf("choice %d of the prefix is %d but only %d threads are enabled", len(res.Choices), c, len(enabled))
				abort()
				break
			}
		}
		t := s.threads[enabled[c]]
		res.Steps = append(res.Steps, Step{Enabled: enabled, Chosen: c, Label: fmt.Sprintf("t%d:%s", t.id, t.label), RunningEnabled: runningEnabled})
		res.Choices = append(res.Choices, c)
		s.cur = t
		t.wake <- true
		select {
		case <-s.yield:
		case <-time.After(HangTimeout):
			// A controlled thread blocks on something the scheduler does not see.
			res.Hung = true
			if DumpOnHang {
				buf := make([]byte, 1<<20)
				n := runtime.Stack(buf, true)
				fmt.Fprintf(os.Stderr, "sched: thread t%d (%s) did not come back; goroutines:\n%s\n", t.id, t.label, buf[:n])
			}
			res.Foreign = s.foreign.Load()
			return res
		}
	}
	res.Foreign = s.foreign.Load()
	return res
}

// PreemptionsBefore counts the preemptions among steps [0,i).
func (r *Result) PreemptionsBefore(i int) int {
	n := 0
	for k := 0; k < i && k < len(r.Steps); k++ {
		if r.Steps[k].RunningEnabled && r.Steps[k].Chosen != 0 {
			n++
		}
	}
	return n
}

// Explore enumerates every execution with at most bound preemptions that
// extends one of the root prefixes (nil: all).  visit is called for every
// complete execution, after run(prefix) has produced it; run must build a
// fresh instance of the system and call Run.  Explore stops early when visit
// returns false.  It returns the number of executions.
func Explore(bound int, root []int, run func(prefix []int) *Result, visit func(*Result) bool) int {
	n := 0
	stop := false
	var rec func(prefix []int)
	rec = func(prefix []int) {
		if stop {
			return
		}
		x := run(prefix)
		n++
		if !visit(x) {
			stop = true
			return
		}
		if x.Diverged != "" || x.Hung {
			return
		}
		for i := len(prefix); i < len(x.Steps); i++ {
			p := x.Steps[i]
			cost := x.PreemptionsBefore(i)
			if p.RunningEnabled {
				cost++
			}
			if cost > bound {
				continue
			}
			for alt := 1; alt < len(p.Enabled); alt++ {
				np := append(append([]int{}, x.Choices[:i]...), alt)
				rec(np)
				if stop {
					return
				}
			}
		}
	}
	rec(root)
	return n
}

// Roots splits the exploration below the default execution into independent
// subtrees: the default execution itself (returned as the nil-prefix leaf is
// visited by the caller through FirstOnly) and one root per first deviation.
func Roots(bound int, x *Result) [][]int {
	var out [][]int
	for i := 0; i < len(x.Steps); i++ {
		p := x.Steps[i]
		cost := 0
		if p.RunningEnabled {
			cost = 1
		}
		if cost > bound {
			continue
		}
		for alt := 1; alt < len(p.Enabled); alt++ {
			out = append(out, append(append([]int{}, x.Choices[:i]...), alt))
		}
	}
	return out
}

// RootsFrom lists the first deviations from execution x at steps >= from that
// stay within the preemption bound: the roots of the independent subtrees
// below x (x itself is not included).
func RootsFrom(bound int, x *Result, from int) [][]int {
	var out [][]int
	for i := from; i < len(x.Steps); i++ {
		p := x.Steps[i]
		cost := x.PreemptionsBefore(i)
		if p.RunningEnabled {
			cost++
		}
		if cost > bound {
			continue
		}
		for alt := 1; alt < len(p.Enabled); alt++ {
			out = append(out, append(append([]int{}, x.Choices[:i]...), alt))
		}
	}
	return out
}
