//go:build verif

// Package sync replaces the standard sync package in the repository packages
// whose lock-level interleavings the /verif harness explores (the import is
// rewritten by the build overlay; see bin/genoverlay.py).  Outside a
// controlled execution every type behaves exactly like the standard one.
package sync

import (
	rsync "sync"

	"github.com/oasisprotocol/oasis-core/go/verifshim/sched"
)

type (
	WaitGroup = rsync.WaitGroup
	Map       = rsync.Map
	Pool      = rsync.Pool
	Locker    = rsync.Locker
	Cond      = rsync.Cond
)

func NewCond(l Locker) *Cond { return rsync.NewCond(l) }

func OnceFunc(f func()) func() { return rsync.OnceFunc(f) }

func OnceValue[T any](f func() T) func() T { return rsync.OnceValue(f) }

func OnceValues[T1, T2 any](f func() (T1, T2)) func() (T1, T2) { return rsync.OnceValues(f) }

// Mutex is sync.Mutex with a scheduling point before Lock.  The held flag
// counts only controlled holders; the real mutex is taken as well, so that
// code outside the scheduler's control stays excluded.
type Mutex struct {
	real rsync.Mutex
	held bool
}

func (m *Mutex) Lock() {
	if sched.Point("lock", m, func() bool { return !m.held }) {
		m.real.Lock()
		m.held = true
		return
	}
	m.real.Lock()
}

func (m *Mutex) TryLock() bool {
	if sched.Point("trylock", m, nil) {
		if m.held {
			return false
		}
		if !m.real.TryLock() {
			return false
		}
		m.held = true
		return true
	}
	return m.real.TryLock()
}

func (m *Mutex) Unlock() {
	if sched.Active() {
		m.held = false
	}
	m.real.Unlock()
}

// RWMutex is sync.RWMutex with scheduling points before Lock and RLock.
type RWMutex struct {
	real    rsync.RWMutex
	writer  bool
	readers int
}

func (m *RWMutex) Lock() {
	if sched.Point("wlock", m, func() bool { return !m.writer && m.readers == 0 }) {
		m.real.Lock()
		m.writer = true
		return
	}
	m.real.Lock()
}

func (m *RWMutex) Unlock() {
	if sched.Active() {
		m.writer = false
	}
	m.real.Unlock()
}

func (m *RWMutex) RLock() {
	if sched.Point("rlock", m, func() bool { return !m.writer }) {
		m.real.RLock()
		m.readers++
		return
	}
	m.real.RLock()
}

func (m *RWMutex) RUnlock() {
	if sched.Active() {
		m.readers--
	}
	m.real.RUnlock()
}

func (m *RWMutex) TryLock() bool  { return m.real.TryLock() }
func (m *RWMutex) TryRLock() bool { return m.real.TryRLock() }
func (m *RWMutex) RLocker() Locker { return (*rlocker)(m) }

type rlocker RWMutex

func (r *rlocker) Lock()   { (*RWMutex)(r).RLock() }
func (r *rlocker) Unlock() { (*RWMutex)(r).RUnlock() }

// Once is sync.Once with a scheduling point before Do.
type Once struct {
	real    rsync.Once
	running bool
}

func (o *Once) Do(f func()) {
	if sched.Point("once", o, func() bool { return !o.running }) {
		o.running = true
		defer func() { o.running = false }()
	}
	o.real.Do(f)
}
