//go:build verif

package staking

import (
	beacon "github.com/oasisprotocol/oasis-core/go/beacon/api"
	"github.com/oasisprotocol/oasis-core/go/consensus/cometbft/api"
	stakingState "github.com/oasisprotocol/oasis-core/go/consensus/cometbft/apps/staking/state"
	staking "github.com/oasisprotocol/oasis-core/go/staking/api"
)

// Forwarding wrappers so that the /verif harness can drive the package-private
// transaction handlers and the epoch-change handler on a mock application state.

func VerifAddEscrow(app *Application, ctx *api.Context, state *stakingState.MutableState, escrow *staking.Escrow) (*staking.AddEscrowResult, error) {
	return app.addEscrow(ctx, state, escrow, false)
}

func VerifReclaimEscrow(app *Application, ctx *api.Context, state *stakingState.MutableState, reclaim *staking.ReclaimEscrow) (*staking.ReclaimEscrowResult, error) {
	return app.reclaimEscrow(ctx, state, reclaim, false)
}

func VerifOnEpochChange(app *Application, ctx *api.Context, epoch beacon.EpochTime) error {
	return app.onEpochChange(ctx, epoch)
}
