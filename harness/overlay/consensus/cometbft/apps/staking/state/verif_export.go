//go:build verif

package state

import (
	"context"

	"github.com/oasisprotocol/oasis-core/go/common/quantity"
)

// VerifComputeCommission forwards to the package-private computeCommission with
// an explicit (non-nil) rate, in which case no state is consulted.
func VerifComputeCommission(rate, total *quantity.Quantity) (*quantity.Quantity, *quantity.Quantity, error) {
	return (&MutableState{}).computeCommission(context.Background(), rate, total)
}
