//go:build verif

package stateless

import (
	"context"

	cmttypes "github.com/cometbft/cometbft/types"

	"github.com/oasisprotocol/oasis-core/go/common/crypto/hash"
	consensusAPI "github.com/oasisprotocol/oasis-core/go/consensus/api"
	"github.com/oasisprotocol/oasis-core/go/consensus/api/transaction"
	"github.com/oasisprotocol/oasis-core/go/consensus/cometbft/api"
)

// Forwarding wrappers only: they give the /verif harness (engine slmc, property
// C19) access to the package-private verification functions.

func VerifVerifyBlock(blk *consensusAPI.Block, lb *cmttypes.LightBlock) error {
	return verifyBlock(blk, lb)
}

func VerifVerifyTransactions(txs [][]byte, lb *cmttypes.LightBlock) error {
	return verifyTransactions(txs, lb)
}

func VerifVerifyBlockResults(results *consensusAPI.BlockResults, resultsHash []byte, lb *cmttypes.LightBlock) (*api.BlockResultsMeta, error) {
	return verifyBlockResults(results, resultsHash, lb)
}

func VerifVerifyTransactionProof(proof *transaction.Proof, tx *transaction.SignedTransaction, lb *cmttypes.LightBlock) error {
	return verifyTransactionProof(proof, tx, lb)
}

func VerifTransactionsWithProofs(txs [][]byte) *consensusAPI.TransactionsWithProofs {
	return transactionsWithProofs(txs)
}

func VerifStateRootFromMetaTx(metaTx []byte) (hash.Hash, error) {
	return stateRootFromMetaTx(metaTx)
}

func VerifStateRootFromBlockTxs(txs [][]byte) (hash.Hash, error) {
	return stateRootFromBlockTxs(txs)
}

func (c *Core) VerifVerifyNextValidators(validators *consensusAPI.Validators, lb *cmttypes.LightBlock) error {
	return c.verifyNextValidators(validators, lb)
}

func (c *Core) VerifVerifyParameters(ctx context.Context, params *consensusAPI.Parameters, lb *cmttypes.LightBlock) error {
	return c.verifyParameters(ctx, params, lb)
}

func (c *Core) VerifVerifyBlockResults(ctx context.Context, results *consensusAPI.BlockResults, lb *cmttypes.LightBlock) (*api.BlockResultsMeta, error) {
	return c.verifyBlockResults(ctx, results, lb)
}
