//go:build verif

package light

import (
	cmtlight "github.com/cometbft/cometbft/light"
	cmtlightprovider "github.com/cometbft/cometbft/light/provider"
	cmtlightstore "github.com/cometbft/cometbft/light/store"
)

// VerifNewClient forwards to the package-private lazy client constructor with
// caller-supplied providers and trusted store (NewClient hard-wires libp2p
// providers), so that the /verif harness (engine slmc, property C19) can hand a
// real Client over a pre-populated trusted store to stateless.NewCore.
// Forwarding wrapper only.
func VerifNewClient(
	chainID string,
	trustOptions cmtlight.TrustOptions,
	primary cmtlightprovider.Provider,
	witnesses []cmtlightprovider.Provider,
	trustedStore cmtlightstore.Store,
	options ...cmtlight.Option,
) (*Client, error) {
	lc, err := newLazyClient(chainID, trustOptions, primary, witnesses, trustedStore, options...)
	if err != nil {
		return nil, err
	}
	return &Client{lightClient: lc}, nil
}
