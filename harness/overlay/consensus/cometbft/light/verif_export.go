//go:build verif

package light

import (
	"github.com/libp2p/go-libp2p/core"

	"github.com/oasisprotocol/oasis-core/go/common/logging"
	"github.com/oasisprotocol/oasis-core/go/p2p/rpc"

	cmtlight "github.com/cometbft/cometbft/light"
	cmtlightprovider "github.com/cometbft/cometbft/light/provider"
	cmtlightstore "github.com/cometbft/cometbft/light/store"
)

// VerifNewClient forwards to the package-private lazy client constructor with
// caller-supplied providers and trusted store (NewClient hard-wires libp2p
// providers), so that the /verif harness (engine slmc, property C19) can hand a
// real Client over a pre-populated trusted store to stateless.NewCore.
// Forwarding wrapper only.
func VerifNewClient(
	chainID string,
	trustOptions cmtlight.TrustOptions,
	primary cmtlightprovider.Provider,
	witnesses []cmtlightprovider.Provider,
	trustedStore cmtlightstore.Store,
	options ...cmtlight.Option,
) (*Client, error) {
	lc, err := newLazyClient(chainID, trustOptions, primary, witnesses, trustedStore, options...)
	if err != nil {
		return nil, err
	}
	return &Client{lightClient: lc}, nil
}

// VerifNewProvider builds a light block Provider over the given RPC client and a
// fixed peer (NewProviderPool hard-wires libp2p), without the peer-refresh
// worker.  Forwarding constructor only: the methods under test are unchanged.
func VerifNewProvider(chainID string, rc rpc.Client, mgr rpc.PeerManager, peer core.PeerID) *Provider {
	return &Provider{
		chainID:   chainID,
		p2pMgr:    mgr,
		rc:        rc,
		refreshCh: make(chan struct{}, 1),
		logger:    logging.GetLogger("cometbft/light/p2p"),
		pool:      &ProviderPool{peerRegistry: map[core.PeerID]bool{}},
		peerID:    &peer,
	}
}
