//go:build verif

package abci

// VerifPrune runs the state pruner exactly as the prune worker does after a
// commit notification (the worker itself waits on a ticker the harness does
// not drive).
func VerifPrune(a *ApplicationServer, latestVersion uint64) error {
	return a.mux.state.statePruner.Prune(latestVersion)
}

// VerifLastRetained returns the state pruner's last retained version.
func VerifLastRetained(a *ApplicationServer) uint64 {
	return a.mux.state.statePruner.GetLastRetainedVersion()
}

// VerifReleaseState closes the pruner notification channel of a stopped
// application server: its buffering goroutine otherwise lives for the rest of
// the process (harmless for a node, not for a harness that creates hundreds of
// thousands of replicas).  Only to be called after Stop and Cleanup.
func VerifReleaseState(a *ApplicationServer) {
	defer func() { _ = recover() }()
	ch := a.mux.state.prunerNotifyCh
	ch.Close()
	for range ch.Out() { // drain what the stopped prune worker did not read, so that the buffering goroutine ends
	}
}
