//go:build verif

package abci

// VerifPrune runs the state pruner exactly as the prune worker does after a
// commit notification (the worker itself waits on a ticker the harness does
// not drive).
func VerifPrune(a *ApplicationServer, latestVersion uint64) error {
	return a.mux.state.statePruner.Prune(latestVersion)
}

// VerifLastRetained returns the state pruner's last retained version.
func VerifLastRetained(a *ApplicationServer) uint64 {
	return a.mux.state.statePruner.GetLastRetainedVersion()
}
