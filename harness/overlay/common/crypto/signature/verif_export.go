//go:build verif

package signature

// VerifRegisteredContexts lists every registered signature context and whether
// it uses chain separation (for the /verif harness, property C09). Read-only.
func VerifRegisteredContexts() map[string]bool {
	out := map[string]bool{}
	registeredContexts.Range(func(k, v any) bool {
		out[string(k.(Context))] = v.(*contextOptions).chainSeparation
		return true
	})
	return out
}
