//go:build verif

package protocol

import "context"

// Verification hooks (build tag verif): the response dispatcher driven synchronously, and the
// registration / cleanup steps of call() as separate operations so that an explorer can place
// them anywhere between dispatches.

// VerifRegisterPending performs the registration step of call(): a fresh response channel
// (capacity 1) under the next request id.
func VerifRegisterPending(conn Connection) (uint64, <-chan *Body) {
	c := conn.(*connection)
	respCh := make(chan *Body, 1)
	c.Lock()
	id := c.nextRequestID
	c.nextRequestID++
	c.pendingRequests[id] = respCh
	c.Unlock()
	return id, respCh
}

// VerifUnregisterPending performs the deferred cleanup step of call().
func VerifUnregisterPending(conn Connection, id uint64) {
	c := conn.(*connection)
	c.Lock()
	defer c.Unlock()
	delete(c.pendingRequests, id)
}

// VerifPendingCount returns the number of registered pending requests.
func VerifPendingCount(conn Connection) int {
	c := conn.(*connection)
	c.RLock()
	defer c.RUnlock()
	return len(c.pendingRequests)
}

// VerifHandleMessage runs the incoming-message dispatcher on one decoded message.
func VerifHandleMessage(ctx context.Context, conn Connection, m *Message) {
	conn.(*connection).handleMessage(ctx, m)
}
