//go:build verif

package txpool

import (
	"github.com/oasisprotocol/oasis-core/go/common/crypto/hash"
	"github.com/oasisprotocol/oasis-core/go/runtime/host/protocol"
)

// VerifScheduler forwards to the package-private main queue scheduler so that
// the /verif harness can drive it.  Forwarding wrappers only.
type VerifScheduler struct {
	s *mainQueueScheduler
	q *mainQueue // the queue that owns s: transactions are added through its Add, as the pool does
}

// VerifTx is an opaque handle for a main queue transaction.
type VerifTx struct{ t *mainQueueTransaction }

func VerifNewScheduler(capacity int) *VerifScheduler {
	q := newMainQueue(capacity)
	return &VerifScheduler{s: q.scheduler, q: q}
}

func VerifNewTx(raw []byte, sender string, seq, priority uint64) *VerifTx {
	meta := &TxQueueMeta{raw: raw, hash: hash.NewFromBytes(raw)}
	return &VerifTx{t: newMainQueueTransaction(meta, sender, seq, priority)}
}

func (t *VerifTx) Hash() hash.Hash { return t.t.meta.hash }

func (v *VerifScheduler) Add(t *VerifTx, seq uint64) error { return v.s.add(t.t, seq) }

// QueueAdd adds the transaction the way the pool does: through mainQueue.Add with the check-tx metadata.
func (v *VerifScheduler) QueueAdd(t *VerifTx, stateSeq uint64) error {
	return v.q.Add(t.t.meta, &protocol.CheckTxMetadata{Priority: t.t.priority, Sender: []byte(t.t.sender), SenderSeq: t.t.seq, SenderStateSeq: stateSeq})
}
func (v *VerifScheduler) Schedule(limit int) []*TxQueueMeta { return v.s.schedule(limit) }
func (v *VerifScheduler) Reset()                            { v.s.reset() }
func (v *VerifScheduler) HandleTxUsed(h hash.Hash)          { v.s.handleTxUsed(h) }
func (v *VerifScheduler) Forward(sender string, seq uint64) { v.s.forward(sender, seq) }
func (v *VerifScheduler) All() []*TxQueueMeta               { return v.s.all() }
func (v *VerifScheduler) Size() int                         { return v.s.size() }
func (v *VerifScheduler) Has(h hash.Hash) bool              { _, ok := v.s.get(h); return ok }
func (v *VerifScheduler) Drain() []*TxQueueMeta             { return v.s.drain() }
