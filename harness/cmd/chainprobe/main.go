package main

import (
	"encoding/json"
	"fmt"
	"os"
	"time"

	"github.com/cometbft/cometbft/abci/types"

	roothashState "github.com/oasisprotocol/oasis-core/go/consensus/cometbft/apps/roothash/state"
	schedulerState "github.com/oasisprotocol/oasis-core/go/consensus/cometbft/apps/scheduler/state"

	"verif/harness/internal/chain"
)

func main() {
	k := chain.NewKeys(3, 1, 3)
	var o chain.GenesisOptions
	if j := os.Getenv("VERIF_PROBE_OPTS"); j != "" {
		if err := json.Unmarshal([]byte(j), &o); err != nil {
			fmt.Println("opts:", err)
			os.Exit(1)
		}
	}
	doc, err := chain.Genesis(k, o)
	if err != nil {
		fmt.Println("genesis:", err)
		os.Exit(1)
	}
	if err := doc.SanityCheck(); err != nil {
		fmt.Println("sanity:", err)
		os.Exit(1)
	}
	t0 := time.Now()
	n, err := chain.NewNode(doc, k.Nodes[0], "badger", "", true)
	if err != nil {
		fmt.Println("node:", err)
		os.Exit(1)
	}
	fmt.Println("node created in", time.Since(t0))
	t0 = time.Now()
	if err := n.InitChain(); err != nil {
		fmt.Println("initchain:", err)
		os.Exit(1)
	}
	fmt.Printf("InitChain in %v apphash=%x vals=%d\n", time.Since(t0), n.AppHash, len(n.Vals))
	for h := 0; h < 7; h++ {
		var votes []types.VoteInfo
		for _, v := range n.Vals {
			votes = append(votes, types.VoteInfo{Validator: types.Validator{Address: v.Address(), Power: v.Power}, SignedLastBlock: true})
		}
		b := &chain.Block{Proposer: n.Vals[0].Address(), Votes: votes, Time: chain.GenesisTime.Add(time.Duration(h+1) * time.Second)}
		t0 = time.Now()
		r := n.Exec(b, chain.PathPropose, nil)
		if o.Runtime {
			t := n.Tree()
			cs, err := schedulerState.NewImmutableState(t).AllCommittees(chain.Ctx)
			for _, c := range cs {
				fmt.Printf("   committee %s rt=%s valid_for=%d members=%d\n", c.Kind, c.RuntimeID, c.ValidFor, len(c.Members))
			}
			rs, err2 := roothashState.NewImmutableState(t).RuntimeState(chain.Ctx, chain.RuntimeID())
			if err2 == nil {
				fmt.Printf("   runtime state: round=%d suspended=%v committee=%v\n", rs.LastBlock.Header.Round, rs.Suspended, rs.Committee != nil)
			} else {
				fmt.Println("   runtime state:", err, err2)
			}
			t.Close()
		}
		fmt.Printf("height %d: %v accepted=%v panic=%q apphash=%x txs=%d updates=%d\n", n.Height, time.Since(t0), r.Accepted, r.Panic, r.AppHash, len(r.TxResults), len(r.ValidatorUpdates))
	}
	d, err := n.Dump()
	fmt.Println("dump keys:", len(d), err)
}
