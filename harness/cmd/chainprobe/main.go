package main

import (
	"fmt"
	"os"
	"time"

	"github.com/cometbft/cometbft/abci/types"

	"verif/harness/internal/chain"
)

func main() {
	k := chain.NewKeys(3, 1, 3)
	doc, err := chain.Genesis(k, chain.GenesisOptions{})
	if err != nil {
		fmt.Println("genesis:", err)
		os.Exit(1)
	}
	if err := doc.SanityCheck(); err != nil {
		fmt.Println("sanity:", err)
		os.Exit(1)
	}
	t0 := time.Now()
	n, err := chain.NewNode(doc, k.Nodes[0], "badger", "", true)
	if err != nil {
		fmt.Println("node:", err)
		os.Exit(1)
	}
	fmt.Println("node created in", time.Since(t0))
	t0 = time.Now()
	if err := n.InitChain(); err != nil {
		fmt.Println("initchain:", err)
		os.Exit(1)
	}
	fmt.Printf("InitChain in %v apphash=%x vals=%d\n", time.Since(t0), n.AppHash, len(n.Vals))
	for h := 0; h < 7; h++ {
		var votes []types.VoteInfo
		for _, v := range n.Vals {
			votes = append(votes, types.VoteInfo{Validator: types.Validator{Address: v.Address(), Power: v.Power}, SignedLastBlock: true})
		}
		b := &chain.Block{Proposer: n.Vals[0].Address(), Votes: votes, Time: chain.GenesisTime.Add(time.Duration(h+1) * time.Second)}
		t0 = time.Now()
		r := n.Exec(b, chain.PathPropose, nil)
		fmt.Printf("height %d: %v accepted=%v panic=%q apphash=%x txs=%d updates=%d\n", n.Height, time.Since(t0), r.Accepted, r.Panic, r.AppHash, len(r.TxResults), len(r.ValidatorUpdates))
	}
	d, err := n.Dump()
	fmt.Println("dump keys:", len(d), err)
}
