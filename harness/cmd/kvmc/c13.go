package main

import (
	"bytes"
	"encoding/json"
	"fmt"
	"os"
	"sort"
	"strings"

	"github.com/oasisprotocol/oasis-core/go/common/crypto/hash"
	storage "github.com/oasisprotocol/oasis-core/go/storage/api"
	"github.com/oasisprotocol/oasis-core/go/storage/mkvs"
	dbapi "github.com/oasisprotocol/oasis-core/go/storage/mkvs/db/api"
	"github.com/oasisprotocol/oasis-core/go/storage/mkvs/node"
	"github.com/oasisprotocol/oasis-core/go/storage/mkvs/writelog"

	"verif/harness/internal/ev"
	"verif/harness/internal/kv"
)

// C13: the served write log of two consecutive roots reproduces the second
// root; a received write log is persisted only if it reaches the expected root.

var c13Keys = [][]byte{{0x00}, {0x00, 0x00}, {0x80}, {}}

type c13cfg struct {
	Backend string      `json:"backend"`
	Type    string      `json:"root_type"` // state | io
	Base    kv.Contents `json:"base"`
}

func (c c13cfg) rootType() node.RootType {
	if c.Type == "io" {
		return node.RootTypeIO
	}
	return node.RootTypeState
}

type c13Artefact struct {
	Config   c13cfg            `json:"config"`
	Batch    []op              `json:"batch"`
	Mode     string            `json:"mode,omitempty"` // "" | "siblings"
	Batch2   []op              `json:"batch2,omitempty"`
	Mutation string            `json:"mutation,omitempty"`
	Log      writelog.WriteLog `json:"log,omitempty"`
}

// c13Prepare creates a database holding the finalized base root (state type)
// or nothing (io type: roots have no parents, the batch is applied to the
// empty root of the same version).
func c13Prepare(cfg c13cfg) (dbapi.NodeDB, node.Root, error) {
	ndb, err := kv.OpenDB(cfg.Backend, "")
	if err != nil {
		return nil, node.Root{}, err
	}
	if cfg.Type == "io" {
		var r node.Root
		r.Empty()
		r.Namespace, r.Version, r.Type = kv.Namespace, 2, node.RootTypeIO
		return ndb, r, nil
	}
	t := mkvs.New(nil, ndb, node.RootTypeState)
	for _, k := range cfg.Base.SortedKeys() {
		_ = t.Insert(kv.Ctx, []byte(k), cfg.Base[k])
	}
	_, h, err := t.Commit(kv.Ctx, kv.Namespace, 1)
	t.Close()
	if err != nil {
		ndb.Close()
		return nil, node.Root{}, err
	}
	root := kv.RootFor(1, node.RootTypeState, h)
	if err := ndb.Finalize([]node.Root{root}); err != nil {
		ndb.Close()
		return nil, node.Root{}, err
	}
	return ndb, root, nil
}

func readLog(ndb dbapi.NodeDB, from, to node.Root) (writelog.WriteLog, error) {
	it, err := ndb.GetWriteLog(kv.Ctx, from, to)
	if err != nil {
		return nil, err
	}
	var wl writelog.WriteLog
	for {
		more, err := it.Next()
		if err != nil {
			return nil, err
		}
		if !more {
			return wl, nil
		}
		e, err := it.Value()
		if err != nil {
			return nil, err
		}
		wl = append(wl, e)
	}
}

func applyLogRef(base kv.Contents, wl writelog.WriteLog) kv.Contents {
	c := base.Clone()
	for _, e := range wl {
		if e.Value == nil {
			delete(c, string(e.Key))
		} else {
			c[string(e.Key)] = e.Value
		}
	}
	return c
}

func logString(wl writelog.WriteLog) string {
	var sb strings.Builder
	sb.WriteString("[")
	for i, e := range wl {
		if i > 0 {
			sb.WriteString(" ")
		}
		if e.Value == nil {
			fmt.Fprintf(&sb, "%x=<del>", e.Key)
		} else {
			fmt.Fprintf(&sb, "%x=%q", e.Key, e.Value)
		}
	}
	sb.WriteString("]")
	return sb.String()
}

func cloneLog(wl writelog.WriteLog) writelog.WriteLog {
	o := make(writelog.WriteLog, len(wl))
	for i, e := range wl {
		o[i] = writelog.LogEntry{Key: append([]byte{}, e.Key...)}
		if e.Value != nil {
			o[i].Value = append([]byte{}, e.Value...)
		}
	}
	return o
}

// logMutants: complete entry-level neighbourhood of a write log.
func logMutants(wl writelog.WriteLog) (names []string, out []writelog.WriteLog) {
	add := func(n string, l writelog.WriteLog) { names = append(names, n); out = append(out, l) }
	add("drop-all", writelog.WriteLog{})
	add("drop-all-nil", nil)
	alts := [][]byte{nil, {}, []byte("a"), []byte("b"), []byte("c")}
	for i := range wl {
		l := cloneLog(wl)
		add(fmt.Sprintf("drop[%d]", i), append(l[:i], l[i+1:]...))
		l = cloneLog(wl)
		l = append(l[:i+1], l[i:]...)
		add(fmt.Sprintf("dup[%d]", i), l)
		for _, k := range c13Keys {
			if bytes.Equal(k, wl[i].Key) {
				continue
			}
			l = cloneLog(wl)
			l[i].Key = k
			add(fmt.Sprintf("key[%d]=%x", i, k), l)
		}
		for _, v := range alts {
			if (v == nil) == (wl[i].Value == nil) && bytes.Equal(v, wl[i].Value) {
				continue
			}
			l = cloneLog(wl)
			l[i].Value = v
			add(fmt.Sprintf("val[%d]=%q(nil=%v)", i, v, v == nil), l)
		}
		if i+1 < len(wl) {
			l = cloneLog(wl)
			l[i], l[i+1] = l[i+1], l[i]
			add(fmt.Sprintf("swap[%d]", i), l)
		}
	}
	for _, k := range c13Keys {
		l := cloneLog(wl)
		add(fmt.Sprintf("append(%x=z)", k), append(l, writelog.LogEntry{Key: k, Value: []byte("z")}))
		l = cloneLog(wl)
		add(fmt.Sprintf("append(%x=<del>)", k), append(l, writelog.LogEntry{Key: k, Value: nil}))
	}
	return
}

type c13env struct {
	cfg  c13cfg
	src  dbapi.NodeDB
	dst  dbapi.NodeDB
	root node.Root // parent root (present in both)
}

func (e *c13env) close() {
	if e.src != nil {
		e.src.Close()
	}
	if e.dst != nil {
		e.dst.Close()
	}
}

func (e *c13env) freshDst() error {
	if e.dst != nil {
		e.dst.Close()
	}
	var err error
	e.dst, _, err = c13Prepare(e.cfg)
	return err
}

// c13Case runs one batch: returns violation text, key tag, artefact mutation/log.
func c13Case(e *c13env, batch []op, r *ev.Run) (what, mut string, mlog writelog.WriteLog) {
	defer func() {
		if p := recover(); p != nil {
			what = fmt.Sprintf("panic: %v", p)
		}
	}()
	base := e.cfg.Base
	if e.cfg.Type == "io" {
		base = kv.Contents{}
	}
	if e.cfg.Backend == "pathbadger" {
		// pathbadger serves write logs only for the first root committed in a
		// version (sequence number 0): one source database per batch.
		if e.src != nil {
			e.src.Close()
		}
		var err error
		if e.src, _, err = c13Prepare(e.cfg); err != nil {
			r.HarnessError("prepare src: %v", err)
			return "", "", nil
		}
	}
	var t mkvs.Tree
	if e.cfg.Type == "io" {
		t = mkvs.New(nil, e.src, node.RootTypeIO)
	} else {
		t = mkvs.NewWithRoot(nil, e.src, e.root)
	}
	defer t.Close()
	c := base.Clone()
	for _, o := range batch {
		if err := applyOp(t, c, o); err != nil {
			return fmt.Sprintf("batch op %s failed: %v", o, err), "", nil
		}
	}
	_, h2, err := t.Commit(kv.Ctx, kv.Namespace, 2)
	if err != nil {
		return fmt.Sprintf("commit of batch failed: %v", err), "", nil
	}
	root2 := kv.RootFor(2, e.cfg.rootType(), h2)
	if hr := kv.CanonicalRoot(c); hr != h2 {
		return fmt.Sprintf("committed root %s differs from contents-only hash %s", h2, hr), "", nil
	}
	// 1. the served write log reproduces the second root.
	wl, err := readLog(e.src, e.root, root2)
	if err == dbapi.ErrWriteLogNotFound && h2.Equal(&e.root.Hash) {
		// Unchanged root: no log is stored, nothing is served for this pair.
		r.Add("pairs_not_served_unchanged_root", 1)
		return "", "", nil
	}
	if err != nil {
		tag := ""
		if e.cfg.Backend == "pathbadger" && strings.Contains(err.Error(), "failed to fetch node") {
			for _, o := range batch {
				if v, ok := base[string(o.Key)]; ok && o.Op == "ins" && bytes.Equal(v, o.Val) {
					tag = "pathbadger-same-value-overwrite-of-root-embedded-leaf"
				}
			}
		}
		return fmt.Sprintf("GetWriteLog(%s -> %s) failed: %v", e.root.Hash, h2, err), tag, nil
	}
	r.Add("transitions", 1)
	if got := applyLogRef(base, wl); !got.Equal(c) {
		return fmt.Sprintf("served write log %s applied to %s gives %s, the second root holds %s", logString(wl), base, got, c), "served", wl
	}
	seen := map[string]bool{}
	for _, en := range wl {
		if seen[string(en.Key)] {
			return fmt.Sprintf("served write log %s has a duplicate key", logString(wl)), "served", wl
		}
		seen[string(en.Key)] = true
	}
	rc, _ := storage.NewRootCache(e.dst)
	// 2. corruptions first (dst does not yet hold root2), honest log last.
	names, ms := logMutants(wl)
	for i, m := range ms {
		if e.dst.HasRoot(root2) && !root2.Hash.Equal(&e.root.Hash) {
			if err := e.freshDst(); err != nil {
				r.HarnessError("fresh dst: %v", err)
				return "", "", nil
			}
			rc, _ = storage.NewRootCache(e.dst)
		}
		had := e.dst.HasRoot(root2)
		before := rootSet(e.dst)
		_, err := rc.Apply(kv.Ctx, e.root, root2, cloneLog(m))
		r.Add("transitions", 1)
		r.Add("mutants", 1)
		neutral := applyLogRef(base, m).Equal(c)
		switch {
		case err == nil && !neutral && !had:
			return fmt.Sprintf("corrupted write log %s (%s of %s) for %s -> %s was accepted", logString(m), names[i], logString(wl), base, c), names[i], m
		case err == nil:
			// accepted (semantically neutral, or root already present): root must read back exactly.
			tt := mkvs.NewWithRoot(nil, e.dst, root2)
			got, _, rerr := kv.TreeContents(tt)
			tt.Close()
			if rerr != nil || !got.Equal(c) {
				return fmt.Sprintf("after accepting log %s the expected root reads back %s (err=%v), expected %s", logString(m), got, rerr, c), names[i], m
			}
		default:
			if neutral && !had {
				// A log with the same net effect may legitimately be rejected only for
				// being malformed (duplicate keys); it must not claim a mismatch... the
				// property does not require acceptance, so nothing to check.
				_ = neutral
			}
			if e.dst.HasRoot(root2) && !had {
				return fmt.Sprintf("apply of corrupted log %s failed (%v) but the expected root %s appeared in the database", logString(m), err, h2), names[i], m
			}
			if after := rootSet(e.dst); after != before {
				return fmt.Sprintf("failed apply of log %s changed the stored roots of version 2 from {%s} to {%s}", logString(m), before, after), names[i], m
			}
		}
	}
	// 3. honest log on the (possibly fresh) destination.
	if e.dst.HasRoot(root2) && !root2.Hash.Equal(&e.root.Hash) {
		if err := e.freshDst(); err != nil {
			r.HarnessError("fresh dst: %v", err)
			return "", "", nil
		}
		rc, _ = storage.NewRootCache(e.dst)
	}
	if _, err := rc.Apply(kv.Ctx, e.root, root2, cloneLog(wl)); err != nil {
		return fmt.Sprintf("honest served log %s for %s -> %s rejected: %v", logString(wl), base, c, err), "served", wl
	}
	if !e.dst.HasRoot(root2) {
		return "honest apply succeeded but the root is absent", "served", wl
	}
	tt := mkvs.NewWithRoot(nil, e.dst, root2)
	got, _, rerr := kv.TreeContents(tt)
	tt.Close()
	if rerr != nil || !got.Equal(c) {
		return fmt.Sprintf("after honest apply the root reads back %s (err=%v), expected %s", got, rerr, c), "served", wl
	}
	r.Add("transitions", 1)
	// 4. the version is finalized; further applies into it: whatever Apply answers, a success means
	// that the announced root is present and reads back the log's result, a failure that it is absent.
	if !root2.Hash.Equal(&e.root.Hash) {
		if err := e.dst.Finalize([]node.Root{root2}); err == nil {
			for i, m := range ms {
				mc := applyLogRef(base, m)
				if mc.Equal(c) {
					continue
				}
				// the mutant's own, correct root: a different state transition announced for the finalized version
				rootM := root2
				rootM.Hash = kv.CanonicalRoot(mc)
				if rootM.Hash.Equal(&e.root.Hash) {
					continue
				}
				_, err := rc.Apply(kv.Ctx, e.root, rootM, cloneLog(m))
				r.Add("transitions", 1)
				has := e.dst.HasRoot(rootM)
				switch {
				case err == nil && !has:
					return fmt.Sprintf("apply of log %s into the already finalized version announced root %s and reported success, but that root is not in the database", logString(m), rootM.Hash), "finalized:" + names[i], m
				case err == nil:
					tt := mkvs.NewWithRoot(nil, e.dst, rootM)
					got, _, rerr := kv.TreeContents(tt)
					tt.Close()
					if rerr != nil || !got.Equal(mc) {
						return fmt.Sprintf("apply of log %s into the already finalized version was accepted but root %s reads back %s (err=%v)", logString(m), rootM.Hash, got, rerr), "finalized:" + names[i], m
					}
				case has:
					return fmt.Sprintf("apply of log %s into the already finalized version failed (%v) but its root %s appeared", logString(m), err, rootM.Hash), "finalized:" + names[i], m
				}
				if i > 6 {
					break // a handful of different transitions per case is enough
				}
			}
		}
		// version 2 is finalized now: the next case needs a fresh destination
		if err := e.freshDst(); err != nil {
			r.HarnessError("fresh dst: %v", err)
		}
	}
	return "", "", nil
}

// c13Siblings: several roots of one version.  On top of the finalized base root two batches are
// committed as version 2 (siblings A then B, both pending), a third root C is derived from A inside
// version 2 (a chain of same-version roots), then one of A / B is finalized.  Before and after the
// finalization every parent -> child pair is asked for: whatever the database serves must turn the
// parent's contents into the child's; the first root of the version must be served.
func c13Siblings(cfg c13cfg, b1, b2 []op, r *ev.Run) (what string) {
	defer func() {
		if p := recover(); p != nil {
			what = fmt.Sprintf("panic: %v", p)
		}
	}()
	for _, fin := range []string{"A", "B"} {
		src, root1, err := c13Prepare(cfg)
		if err != nil {
			r.HarnessError("prepare src: %v", err)
			return ""
		}
		base := cfg.Base
		if cfg.Type == "io" {
			base = kv.Contents{}
		}
		type stored struct {
			name   string
			parent node.Root
			pc     kv.Contents
			root   node.Root
			c      kv.Contents
		}
		var all []stored
		commit := func(name string, parent node.Root, pc kv.Contents, batch []op) (*stored, string) {
			var t mkvs.Tree
			if cfg.Type == "io" && parent.Hash.IsEmpty() {
				t = mkvs.New(nil, src, node.RootTypeIO)
			} else {
				t = mkvs.NewWithRoot(nil, src, parent)
			}
			defer t.Close()
			c := pc.Clone()
			for _, o := range batch {
				if err := applyOp(t, c, o); err != nil {
					return nil, fmt.Sprintf("%s: batch op %s failed: %v", name, o, err)
				}
			}
			_, h, err := t.Commit(kv.Ctx, kv.Namespace, 2)
			if err != nil {
				return nil, fmt.Sprintf("%s: commit failed: %v", name, err)
			}
			if hr := kv.CanonicalRoot(c); hr != h {
				return nil, fmt.Sprintf("%s: committed root %s differs from contents-only hash %s", name, h, hr)
			}
			return &stored{name: name, parent: parent, pc: pc, root: kv.RootFor(2, cfg.rootType(), h), c: c}, ""
		}
		a, w := commit("A", root1, base, b1)
		if w != "" {
			src.Close()
			return w
		}
		b, w := commit("B", root1, base, b2)
		if w != "" {
			src.Close()
			return w
		}
		all = append(all, *a)
		if !b.root.Hash.Equal(&a.root.Hash) {
			all = append(all, *b)
		}
		if !a.root.Hash.Equal(&root1.Hash) || cfg.Type == "io" {
			if c, w := commit("C", a.root, a.c, b2); w == "" {
				dup := false
				for _, s := range all {
					dup = dup || s.root.Hash.Equal(&c.root.Hash)
				}
				if !dup && !c.root.Hash.Equal(&a.root.Hash) {
					all = append(all, *c)
				}
			} else {
				r.Add("sibling_chain_commits_refused", 1)
			}
		}
		ask := func(stage string) string {
			for i, s := range all {
				if s.root.Hash.Equal(&s.parent.Hash) {
					continue
				}
				if !src.HasRoot(s.root) {
					continue // discarded at finalization
				}
				wl, err := readLog(src, s.parent, s.root)
				r.Add("transitions", 1)
				if err != nil {
					if i == 0 && stage == "pending" && !(cfg.Backend == "pathbadger" && strings.Contains(err.Error(), "failed to fetch node")) {
						return fmt.Sprintf("%s: GetWriteLog(parent -> %s), the first root committed in the version, failed: %v", stage, s.name, err)
					}
					r.Add("sibling_pairs_not_served", 1)
					continue
				}
				r.Add("sibling_pairs_served", 1)
				if got := applyLogRef(s.pc, wl); !got.Equal(s.c) {
					return fmt.Sprintf("%s: the write log %s served for (parent %s -> %s %s) applied to the parent gives %s", stage, logString(wl), s.pc, s.name, s.c, got)
				}
			}
			return ""
		}
		if w := ask("pending"); w != "" {
			src.Close()
			return w
		}
		pick := a.root
		if fin == "B" {
			pick = b.root
		}
		if pick.Hash.Equal(&root1.Hash) && cfg.Type != "io" {
			src.Close()
			continue
		}
		if err := src.Finalize([]node.Root{pick}); err != nil {
			src.Close()
			r.Add("sibling_finalize_refused", 1)
			continue
		}
		w = ask("after finalizing " + fin)
		src.Close()
		if w != "" {
			return w
		}
	}
	return ""
}

func rootSet(ndb dbapi.NodeDB) string {
	roots, _ := ndb.GetRootsForVersion(2)
	var ss []string
	for _, rt := range roots {
		ss = append(ss, fmt.Sprintf("%d:%s", rt.Type, rt.Hash))
	}
	sort.Strings(ss)
	return strings.Join(ss, ",")
}

var _ = hash.Hash{}

func c13Batches(depth int) [][]op {
	var letters []op
	for _, k := range c13Keys {
		letters = append(letters, op{Op: "ins", Key: k, Val: []byte("a")}, op{Op: "ins", Key: k, Val: []byte("b")}, op{Op: "ins", Key: k, Val: []byte{}}, op{Op: "rem", Key: k})
	}
	var out [][]op
	var gen func(prefix []op)
	gen = func(prefix []op) {
		out = append(out, append([]op{}, prefix...))
		if len(prefix) == depth {
			return
		}
		for _, l := range letters {
			gen(append(prefix, l))
		}
	}
	gen(nil)
	// All same-key triples (remove/re-insert/overwrite chains on one key) even at depth 2.
	if depth < 3 {
		for _, k := range [][]byte{{0x00}, {0x80}} {
			var ls []op
			for _, l := range letters {
				if bytes.Equal(l.Key, k) {
					ls = append(ls, l)
				}
			}
			for _, a := range ls {
				for _, b := range ls {
					for _, c := range ls {
						out = append(out, []op{a, b, c})
					}
				}
			}
		}
	}
	return out
}

func runC13(r *ev.Run) {
	if r.Replay != "" {
		v, err := ev.LoadReplay(r.Replay)
		if err != nil {
			fmt.Println("cannot load replay:", err)
			os.Exit(2)
		}
		b, _ := json.Marshal(v.Artefact)
		var a c13Artefact
		_ = json.Unmarshal(b, &a)
		if a.Mode == "siblings" {
			rr := ev.New("C13", "model_checking")
			rr.NoWrite = true
			if what := c13Siblings(a.Config, a.Batch, a.Batch2, rr); what != "" {
				fmt.Printf("VIOLATION property=C13 replay=%s\n  what: %s\n", r.Replay, what)
				os.Exit(1)
			}
			fmt.Println("replay: property held")
			os.Exit(0)
		}
		e := &c13env{cfg: a.Config}
		var err1, err2 error
		e.src, e.root, err1 = c13Prepare(a.Config)
		e.dst, _, err2 = c13Prepare(a.Config)
		if err1 != nil || err2 != nil {
			fmt.Println("prepare failed", err1, err2)
			os.Exit(2)
		}
		rr := ev.New("C13", "model_checking")
		rr.NoWrite = true
		what, _, _ := c13Case(e, a.Batch, rr)
		if what != "" {
			fmt.Printf("VIOLATION property=C13 replay=%s\n  what: %s\n", r.Replay, what)
			os.Exit(1)
		}
		fmt.Println("replay: property held")
		os.Exit(0)
	}
	depth := 2
	if r.Thorough() {
		depth = 3
	}
	batches := c13Batches(depth)
	// bases over 3 keys x {absent,a} plus the empty-key variants.
	var bases []kv.Contents
	for i := 0; i < 8; i++ {
		bases = append(bases, kv.ContentsFromIndex(i, c13Keys[:3], [][]byte{nil, []byte("a")}))
	}
	bases = append(bases, kv.Contents{"": []byte("a"), "\x00": []byte{}}, kv.Contents{"\x00": []byte("b"), "\x00\x00": []byte("a"), "\x80": []byte("a"), "": []byte{}})
	var cfgs []c13cfg
	for _, be := range kv.Backends {
		for _, b := range bases {
			cfgs = append(cfgs, c13cfg{Backend: be, Type: "state", Base: b})
		}
		cfgs = append(cfgs, c13cfg{Backend: be, Type: "io"})
	}
	// shard: (cfg, chunk of batches)
	const chunk = 300
	type shard struct {
		cfg    c13cfg
		lo, hi int
	}
	var shards []shard
	for _, c := range cfgs {
		for lo := 0; lo < len(batches); lo += chunk {
			hi := lo + chunk
			if hi > len(batches) {
				hi = len(batches)
			}
			shards = append(shards, shard{c, lo, hi})
		}
	}
	ev.ParallelRange(len(shards), r.Seed, func(si int) {
		sh := shards[si]
		if r.Expired() {
			r.Cap("deadline")
			return
		}
		e := &c13env{cfg: sh.cfg}
		var err1, err2 error
		e.src, e.root, err1 = c13Prepare(sh.cfg)
		e.dst, _, err2 = c13Prepare(sh.cfg)
		if err1 != nil || err2 != nil {
			r.HarnessError("prepare: %v %v", err1, err2)
			return
		}
		defer e.close()
		for bi := sh.lo; bi < sh.hi; bi++ {
			what, mut, mlog := c13Case(e, batches[bi], r)
			r.Add("states", 1)
			if what != "" {
				var nm []string
				for _, o := range batches[bi] {
					nm = append(nm, o.String())
				}
				r.Violate(ev.Violation{Engine: "kvmc", Key: fmt.Sprintf("c13 %s %s base=%s batch=[%s] %s", sh.cfg.Backend, sh.cfg.Type, sh.cfg.Base, strings.Join(nm, " "), mut),
					What:     fmt.Sprintf("%s %s root, base %s, batch [%s]: %s", sh.cfg.Backend, sh.cfg.Type, sh.cfg.Base, strings.Join(nm, " "), what),
					Artefact: c13Artefact{Config: sh.cfg, Batch: batches[bi], Mutation: mut, Log: mlog}})
				// A failed case may leave the destination in an unknown state.
				_ = e.freshDst()
			}
			if bi%131 == 0 && si%7 == 0 {
				var nm []string
				for _, o := range batches[bi] {
					nm = append(nm, o.String())
				}
				r.Sample(map[string]any{"backend": sh.cfg.Backend, "type": sh.cfg.Type, "base": sh.cfg.Base.String(), "batch": nm}, 5)
			}
		}
	})
	// Several roots in one version.
	var sb [][]op
	for _, b := range c13Batches(2) {
		if len(b) <= 1 || (r.Thorough() && len(b) <= 2) {
			sb = append(sb, b)
		}
	}
	type sjob struct {
		cfg    c13cfg
		i1, i2 int
	}
	var sjobs []sjob
	for _, c := range cfgs {
		for i1 := range sb {
			for i2 := range sb {
				if r.Thorough() && len(sb[i1])+len(sb[i2]) > 3 {
					continue
				}
				sjobs = append(sjobs, sjob{c, i1, i2})
			}
		}
	}
	ev.ParallelRange(len(sjobs), r.Seed, func(ji int) {
		j := sjobs[ji]
		if r.Expired() {
			r.Cap("deadline")
			return
		}
		what := c13Siblings(j.cfg, sb[j.i1], sb[j.i2], r)
		r.Add("states", 1)
		r.Add("sibling_cases", 1)
		if what != "" {
			r.Violate(ev.Violation{Engine: "kvmc", Key: fmt.Sprintf("c13 siblings %s %s base=%s A=%v B=%v", j.cfg.Backend, j.cfg.Type, j.cfg.Base, sb[j.i1], sb[j.i2]),
				What:     fmt.Sprintf("%s %s roots, base %s, version 2 roots A=%v B=%v (C = A then B's batch): %s", j.cfg.Backend, j.cfg.Type, j.cfg.Base, sb[j.i1], sb[j.i2], what),
				Artefact: c13Artefact{Config: j.cfg, Mode: "siblings", Batch: sb[j.i1], Batch2: sb[j.i2]}})
		}
	})
	r.Set("batches", len(batches))
	r.Set("configs", len(cfgs))
	r.Alias("traces_validated_against_impl", "transitions")
	r.Set("rule", "for every (backend, root type, finalized base contents) and every batch of <= depth operations over 4 keys x {a,b,'',remove} (includes remove-then-reinsert, insert-then-remove, overwrite with the same value): GetWriteLog(parent, child) applied to the parent gives exactly the child contents/root; RootCache.Apply of every entry-level mutant (drop, drop-all, duplicate, key/value alteration incl. insert<->delete, swap, append) on a second database: accepted only if its net effect equals the announced transition, else the expected root (and any other new root) is absent afterwards; the honest log is accepted and reads back; several roots in one version: two sibling roots A, B on the finalized base and a root C derived from A inside the version, for every pair of batches of <= 1 (thorough: together <= 3) operations; before and after finalizing A or B every parent -> child pair that is served must turn the parent's contents into the child's, and the first root of the version must be served")
	r.Assume("keys limited to 4, logs <= depth entries", "destination database is recreated after an accepted neutral mutant")
	r.Finish()
}
