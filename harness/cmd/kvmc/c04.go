package main

import (
	"bytes"
	"context"
	"encoding/json"
	"fmt"
	"os"
	"sort"
	"strings"
	"sync"

	"github.com/oasisprotocol/oasis-core/go/common/crypto/hash"
	"github.com/oasisprotocol/oasis-core/go/storage/mkvs"
	dbapi "github.com/oasisprotocol/oasis-core/go/storage/mkvs/db/api"
	"github.com/oasisprotocol/oasis-core/go/storage/mkvs/node"
	"github.com/oasisprotocol/oasis-core/go/storage/mkvs/syncer"

	"verif/harness/internal/ev"
	"verif/harness/internal/kv"
)

// C04: proofs are complete and cannot be made to lie.

// probe keys: alphabet + extensions / prefixes / neighbours of present keys.
var c04Probes = [][]byte{{}, {0x00}, {0x00, 0x00}, {0x00, 0x80}, {0x00, 0x00, 0x01}, {0x80}, {0x80, 0x00}, {0xff},
	{0x00, 0x00, 0x00}, {0x00, 0x40}, {0x40}, {0x00, 0x80, 0x00}, {0xc0}}

type c04req struct {
	Kind     string   `json:"kind"` // get | iter | prefixes
	Key      []byte   `json:"key,omitempty"`
	Siblings bool     `json:"siblings,omitempty"`
	V        uint16   `json:"v"`
	Prefetch uint16   `json:"prefetch,omitempty"`
	Prefixes [][]byte `json:"prefixes,omitempty"`
}

func (q c04req) String() string {
	switch q.Kind {
	case "get":
		return fmt.Sprintf("SyncGet(%x,sib=%v,v%d)", q.Key, q.Siblings, q.V)
	case "iter":
		return fmt.Sprintf("SyncIterate(%x,prefetch=%d,v%d)", q.Key, q.Prefetch, q.V)
	}
	return fmt.Sprintf("SyncGetPrefixes(%x,limit=%d,v%d)", q.Prefixes, q.Prefetch, q.V)
}

func honest(src mkvs.Tree, root node.Root, q c04req) (*syncer.Proof, error) {
	tid := syncer.TreeID{Root: root, Position: root.Hash}
	var rsp *syncer.ProofResponse
	var err error
	switch q.Kind {
	case "get":
		rsp, err = src.SyncGet(kv.Ctx, &syncer.GetRequest{Tree: tid, Key: q.Key, IncludeSiblings: q.Siblings, ProofVersion: q.V})
	case "iter":
		rsp, err = src.SyncIterate(kv.Ctx, &syncer.IterateRequest{Tree: tid, Key: q.Key, Prefetch: q.Prefetch, ProofVersion: q.V})
	case "prefixes":
		rsp, err = src.SyncGetPrefixes(kv.Ctx, &syncer.GetPrefixesRequest{Tree: tid, Prefixes: q.Prefixes, Limit: q.Prefetch, ProofVersion: q.V})
	}
	if err != nil {
		return nil, err
	}
	return &rsp.Proof, nil
}

// fixedSyncer answers every request with the same proof.
type fixedSyncer struct{ p *syncer.Proof }

func (f *fixedSyncer) SyncGet(context.Context, *syncer.GetRequest) (*syncer.ProofResponse, error) {
	return &syncer.ProofResponse{Proof: *cloneProof(f.p)}, nil
}

func (f *fixedSyncer) SyncGetPrefixes(context.Context, *syncer.GetPrefixesRequest) (*syncer.ProofResponse, error) {
	return &syncer.ProofResponse{Proof: *cloneProof(f.p)}, nil
}

func (f *fixedSyncer) SyncIterate(context.Context, *syncer.IterateRequest) (*syncer.ProofResponse, error) {
	return &syncer.ProofResponse{Proof: *cloneProof(f.p)}, nil
}

func cloneProof(p *syncer.Proof) *syncer.Proof {
	q := &syncer.Proof{V: p.V, UntrustedRoot: p.UntrustedRoot}
	for _, e := range p.Entries {
		if e == nil {
			q.Entries = append(q.Entries, nil)
		} else {
			q.Entries = append(q.Entries, append([]byte{}, e...))
		}
	}
	return q
}

// readerAnswers reads through a remote-backed tree that holds only the trusted
// root.  Every answer obtained without an error must be the truth.
func readerLies(rs syncer.ReadSyncer, root node.Root, truth kv.Contents, nodeCap uint64) (lie string) {
	defer func() {
		if p := recover(); p != nil {
			lie = fmt.Sprintf("panic in remote-backed reader: %v", p)
		}
	}()
	for _, k := range c04Probes {
		// Fresh reader per key so that an error on one key does not hide others.
		rd := mkvs.NewWithRoot(rs, nil, root, mkvs.Capacity(nodeCap, 0))
		v, err := rd.Get(kv.Ctx, k)
		rd.Close()
		if err != nil {
			continue
		}
		want, present := truth[string(k)]
		if !valEq(v, want, present) {
			return fmt.Sprintf("reader Get(%x) = %q (nil=%v) but the tree holds %q (present=%v)", k, v, v == nil, want, present)
		}
	}
	// Iteration: what is yielded before an error must be a prefix of the truth.
	for _, seek := range [][]byte{nil, {0x00, 0x00}, {0x80}} {
		rd := mkvs.NewWithRoot(rs, nil, root, mkvs.Capacity(nodeCap, 0))
		it := rd.NewIterator(kv.Ctx)
		if seek == nil {
			it.Rewind()
		} else {
			it.Seek(seek)
		}
		want := sortedFrom(truth, seek)
		i := 0
		for ; it.Valid(); it.Next() {
			if i >= len(want) || string(it.Key()) != want[i] || !bytes.Equal(it.Value(), truth[want[i]]) {
				w := "<end>"
				if i < len(want) {
					w = fmt.Sprintf("%x=%q", want[i], truth[want[i]])
				}
				lie = fmt.Sprintf("reader iteration from %x yields %x=%q at position %d, the tree has %s", seek, it.Key(), it.Value(), i, w)
				break
			}
			i++
		}
		if lie == "" && it.Err() == nil && i != len(want) {
			lie = fmt.Sprintf("reader iteration from %x ended without error after %d items, the tree has %d", seek, i, len(want))
		}
		it.Close()
		rd.Close()
		if lie != "" {
			return lie
		}
	}
	return ""
}

// readerLiesWarm: a reader whose cache was warmed by a Get of one key then iterates from a seek
// position (the cache state at the start of the iteration matters when it is small).
func readerLiesWarm(rs syncer.ReadSyncer, root node.Root, truth kv.Contents, nodeCap uint64) (lie string) {
	defer func() {
		if p := recover(); p != nil {
			lie = fmt.Sprintf("panic in remote-backed reader: %v", p)
		}
	}()
	seeks := [][]byte{{0x00, 0x00}, {0x00, 0x81}, {0x7f}, {0x80}, {0x80, 0x01}}
	for _, g := range c04Probes {
		for _, seek := range seeks {
			rd := mkvs.NewWithRoot(rs, nil, root, mkvs.Capacity(nodeCap, 0))
			if v, err := rd.Get(kv.Ctx, g); err == nil {
				want, present := truth[string(g)]
				if !valEq(v, want, present) {
					rd.Close()
					return fmt.Sprintf("reader Get(%x) = %q (nil=%v) but the tree holds %q (present=%v)", g, v, v == nil, want, present)
				}
			}
			it := rd.NewIterator(kv.Ctx)
			it.Seek(seek)
			want := sortedFrom(truth, seek)
			i := 0
			for ; it.Valid(); it.Next() {
				if i >= len(want) || string(it.Key()) != want[i] || !bytes.Equal(it.Value(), truth[want[i]]) {
					lie = fmt.Sprintf("after Get(%x), reader iteration from %x yields %x=%q at position %d contrary to the tree", g, seek, it.Key(), it.Value(), i)
					break
				}
				i++
			}
			if lie == "" && it.Err() == nil && i != len(want) {
				lie = fmt.Sprintf("after Get(%x), reader iteration from %x ended without error after %d items, the tree has %d", g, seek, i, len(want))
			}
			it.Close()
			rd.Close()
			if lie != "" {
				return lie
			}
		}
	}
	return ""
}

// readerSessionLies: one reader used for a whole session.  Every sequence of up to `depth` reads (a Get
// of a probe key, or an iteration from a seek position with or without prefetch) is run on a single
// remote-backed tree with a small node cache; a read may fail (cache too small), but every answer
// obtained without an error must be the truth whatever reads, failed or not, came before it.
type c04read struct {
	Get      []byte
	Iter     bool
	Seek     []byte
	Prefetch uint16
}

func (o c04read) String() string {
	if !o.Iter {
		return fmt.Sprintf("Get(%x)", o.Get)
	}
	return fmt.Sprintf("Iterate(from=%x,prefetch=%d)", o.Seek, o.Prefetch)
}

func c04Reads() []c04read {
	var ops []c04read
	for _, k := range c04Probes {
		ops = append(ops, c04read{Get: k})
	}
	for _, pf := range []uint16{0, 3} {
		for _, seek := range [][]byte{nil, {0x00, 0x00}, {0x80}} {
			ops = append(ops, c04read{Iter: true, Seek: seek, Prefetch: pf})
		}
	}
	return ops
}

func readerSessionLies(rs syncer.ReadSyncer, root node.Root, truth kv.Contents, nodeCap, valueCap uint64, depth int) (lie string, sessions int64) {
	var cur []c04read
	defer func() {
		if p := recover(); p != nil {
			lie = fmt.Sprintf("panic in remote-backed reader during session %v: %v", cur, p)
		}
	}()
	ops := c04Reads()
	do := func(rd mkvs.Tree, o c04read) string {
		if !o.Iter {
			v, err := rd.Get(kv.Ctx, o.Get)
			if err != nil {
				return ""
			}
			want, present := truth[string(o.Get)]
			if !valEq(v, want, present) {
				return fmt.Sprintf("Get(%x) = %q (nil=%v) but the tree holds %q (present=%v)", o.Get, v, v == nil, want, present)
			}
			return ""
		}
		it := rd.NewIterator(kv.Ctx, mkvs.IteratorPrefetch(o.Prefetch))
		defer it.Close()
		if o.Seek == nil {
			it.Rewind()
		} else {
			it.Seek(o.Seek)
		}
		want := sortedFrom(truth, o.Seek)
		i := 0
		for ; it.Valid(); it.Next() {
			if i >= len(want) || string(it.Key()) != want[i] || !bytes.Equal(it.Value(), truth[want[i]]) {
				return fmt.Sprintf("%s yields %x=%q at position %d contrary to the tree", o, it.Key(), it.Value(), i)
			}
			i++
		}
		if it.Err() == nil && i != len(want) {
			return fmt.Sprintf("%s ended without error after %d items, the tree has %d", o, i, len(want))
		}
		return ""
	}
	idx := make([]int, depth)
	for {
		rd := mkvs.NewWithRoot(rs, nil, root, mkvs.Capacity(nodeCap, valueCap))
		cur = cur[:0]
		sessions++
		for _, k := range idx {
			cur = append(cur, ops[k])
			if w := do(rd, ops[k]); w != "" {
				rd.Close()
				var before []string
				for _, o := range cur[:len(cur)-1] {
					before = append(before, o.String())
				}
				return fmt.Sprintf("one reader, after [%s]: %s", strings.Join(before, " "), w), sessions
			}
		}
		rd.Close()
		k := depth - 1
		for k >= 0 {
			idx[k]++
			if idx[k] < len(ops) {
				break
			}
			idx[k] = 0
			k--
		}
		if k < 0 {
			return "", sessions
		}
	}
}

// subtreeClaim walks a verified subtree (as returned by VerifyProof) with an
// independent lookup and reports what it claims about key: a value, absence,
// or unknown (an unresolved hash pointer).
func subtreeClaim(ptr *node.Pointer, key []byte) (val []byte, present, known bool) {
	depth := 0
	klen := len(key) * 8
	bit := func(i int) bool { return key[i/8]&(1<<(7-uint(i%8))) != 0 }
	for {
		if ptr == nil {
			return nil, false, true
		}
		if ptr.Node == nil {
			if ptr.Hash.IsEmpty() {
				return nil, false, true
			}
			return nil, false, false
		}
		switch n := ptr.Node.(type) {
		case *node.LeafNode:
			if bytes.Equal(n.Key, key) {
				return n.Value, true, true
			}
			return nil, false, true
		case *node.InternalNode:
			l := int(n.LabelBitLength)
			if depth+l > klen {
				return nil, false, true
			}
			for i := 0; i < l; i++ {
				lb := n.Label[i/8]&(1<<(7-uint(i%8))) != 0
				if lb != bit(depth+i) {
					return nil, false, true
				}
			}
			depth += l
			switch {
			case depth == klen:
				ptr = n.LeafNode
			case bit(depth):
				ptr = n.Right
			default:
				ptr = n.Left
			}
		default:
			return nil, false, false
		}
	}
}

// verifierLies checks the direct outputs of the verifier for an accepted proof.
func verifierLies(root hash.Hash, p *syncer.Proof, truth kv.Contents) string {
	var pv syncer.ProofVerifier
	ptr, err := pv.VerifyProof(kv.Ctx, root, cloneProof(p))
	if err != nil {
		return ""
	}
	for _, k := range c04Probes {
		v, present, known := subtreeClaim(ptr, k)
		if !known {
			continue
		}
		want, has := truth[string(k)]
		if present != has || (present && !bytes.Equal(v, want)) {
			return fmt.Sprintf("verified subtree claims key %x -> %q (present=%v) but the tree holds %q (present=%v)", k, v, present, want, has)
		}
	}
	wl, err := pv.VerifyProofToWriteLog(kv.Ctx, root, cloneProof(p))
	if err != nil {
		return "VerifyProof accepts but VerifyProofToWriteLog rejects: " + err.Error()
	}
	for _, e := range wl {
		want, has := truth[string(e.Key)]
		if !has || !bytes.Equal(want, e.Value) {
			return fmt.Sprintf("verified write log contains %x=%q which is not in the tree", e.Key, e.Value)
		}
	}
	return ""
}

type c04Artefact struct {
	Contents kv.Contents   `json:"contents"`
	Request  c04req        `json:"request"`
	Mutation string        `json:"mutation"`
	Proof    *syncer.Proof `json:"proof,omitempty"`
	Other    kv.Contents   `json:"other_tree,omitempty"`
	Tape     []int         `json:"tape,omitempty"`
	NodeCap  uint64        `json:"node_cap,omitempty"`
	Depth    int           `json:"depth,omitempty"`
	ValueCap uint64        `json:"value_cap,omitempty"`
}

var c04SessionDepth = 2

func hashEntry(h hash.Hash) []byte { return append([]byte{0x02}, h[:]...) }

// entryMutants: complete entry-level neighbourhood of a proof.
func entryMutants(p *syncer.Proof, universe [][]byte) (names []string, out []*syncer.Proof) {
	add := func(name string, q *syncer.Proof) { names = append(names, name); out = append(out, q) }
	n := len(p.Entries)
	for i := 0; i < n; i++ {
		q := cloneProof(p)
		q.Entries = append(q.Entries[:i], q.Entries[i+1:]...)
		add(fmt.Sprintf("drop[%d]", i), q)
		q = cloneProof(p)
		q.Entries = append(q.Entries[:i+1], q.Entries[i:]...)
		add(fmt.Sprintf("dup[%d]", i), q)
		if p.Entries[i] != nil {
			q = cloneProof(p)
			q.Entries[i] = nil
			add(fmt.Sprintf("nil[%d]", i), q)
		}
		if i+1 < n {
			q = cloneProof(p)
			q.Entries[i], q.Entries[i+1] = q.Entries[i+1], q.Entries[i]
			add(fmt.Sprintf("swap[%d]", i), q)
		}
		// full node -> its hash, hash -> empty hash
		if e := p.Entries[i]; len(e) > 0 && e[0] == 0x01 {
			if nd, err := node.UnmarshalBinary(e[1:]); err == nil {
				if _, isInt := nd.(*node.InternalNode); !isInt {
					q = cloneProof(p)
					q.Entries[i] = hashEntry(nd.GetHash())
					add(fmt.Sprintf("tohash[%d]", i), q)
				}
			}
		}
		var eh hash.Hash
		eh.Empty()
		q = cloneProof(p)
		q.Entries[i] = hashEntry(eh)
		add(fmt.Sprintf("emptyhash[%d]", i), q)
		for j, u := range universe {
			if bytes.Equal(u, p.Entries[i]) {
				continue
			}
			q = cloneProof(p)
			q.Entries[i] = append([]byte{}, u...)
			add(fmt.Sprintf("splice[%d<-u%d]", i, j), q)
		}
	}
	// Internal-node entries re-encoded in the non-compact serialization (the true child hashes
	// appended, which makes the node carry its correct hash by itself), with the child entries that
	// follow kept, replaced by nil entries, or replaced by empty-hash entries: the verifier must
	// still bind the children to the node.
	for _, in := range proofInternals(p) {
		e := p.Entries[in.idx]
		nc := append(append(append([]byte{}, e...), in.left[:]...), in.right[:]...)
		q := cloneProof(p)
		q.Entries[in.idx] = nc
		add(fmt.Sprintf("noncompact[%d]", in.idx), q)
		nchildren := 2
		if p.V == 1 {
			nchildren = 3
		}
		var eh hash.Hash
		eh.Empty()
		for _, kind := range []string{"nil", "emptyhash"} {
			q = cloneProof(p)
			var repl [][]byte
			for c := 0; c < nchildren; c++ {
				if kind == "nil" {
					repl = append(repl, nil)
				} else {
					repl = append(repl, hashEntry(eh))
				}
			}
			ents := append([][]byte{}, q.Entries[:in.idx]...)
			ents = append(ents, nc)
			ents = append(ents, repl...)
			ents = append(ents, q.Entries[in.end:]...)
			q.Entries = ents
			add(fmt.Sprintf("noncompact[%d]+children=%s", in.idx, kind), q)
		}
	}
	for _, extra := range [][]byte{nil, {0x01}, {0x02}, {}} {
		q := cloneProof(p)
		q.Entries = append(q.Entries, extra)
		add(fmt.Sprintf("append(%x)", extra), q)
	}
	q := cloneProof(p)
	q.V ^= 1
	add("flipV", q)
	q = cloneProof(p)
	q.V = 2
	add("V=2", q)
	// fabricated proofs
	var eh hash.Hash
	eh.Empty()
	for name, ents := range map[string][][]byte{"fab[nil]": {nil}, "fab[emptyhash]": {hashEntry(eh)}, "fab[nil,nil]": {nil, nil}, "fab[]": {}, "fab[roothash]": {hashEntry(p.UntrustedRoot)}} {
		add(name, &syncer.Proof{V: p.V, UntrustedRoot: p.UntrustedRoot, Entries: ents})
	}
	return
}

// proofInternal describes a full internal-node entry of a well-formed proof: its index, the
// end of its subtree in the entry list and the hashes of its children.
type proofInternal struct {
	idx, end    int
	left, right hash.Hash
}

// proofInternals walks a well-formed proof the way the verifier does.
func proofInternals(p *syncer.Proof) (out []proofInternal) {
	var eh hash.Hash
	eh.Empty()
	var walk func(idx int) (int, hash.Hash, *node.Pointer, bool)
	walk = func(idx int) (int, hash.Hash, *node.Pointer, bool) {
		if idx >= len(p.Entries) {
			return 0, eh, nil, false
		}
		e := p.Entries[idx]
		if e == nil {
			return idx + 1, eh, nil, true
		}
		if len(e) == 0 {
			return 0, eh, nil, false
		}
		switch e[0] {
		case 0x02:
			var h hash.Hash
			if h.UnmarshalBinary(e[1:]) != nil {
				return 0, eh, nil, false
			}
			return idx + 1, h, &node.Pointer{Clean: true, Hash: h}, true
		case 0x01:
			n, err := node.UnmarshalBinary(e[1:])
			if err != nil {
				return 0, eh, nil, false
			}
			nd, isInt := n.(*node.InternalNode)
			if !isInt {
				return idx + 1, n.GetHash(), &node.Pointer{Clean: true, Hash: n.GetHash(), Node: n}, true
			}
			pos := idx + 1
			ok := true
			if p.V == 1 {
				var lp *node.Pointer
				if pos, _, lp, ok = walk(pos); !ok {
					return 0, eh, nil, false
				}
				nd.LeafNode = lp
			}
			var lh, rh hash.Hash
			var l, r *node.Pointer
			if pos, lh, l, ok = walk(pos); !ok {
				return 0, eh, nil, false
			}
			if pos, rh, r, ok = walk(pos); !ok {
				return 0, eh, nil, false
			}
			nd.Left, nd.Right = l, r
			nd.UpdateHash()
			out = append(out, proofInternal{idx: idx, end: pos, left: lh, right: rh})
			return pos, nd.Hash, &node.Pointer{Clean: true, Hash: nd.Hash, Node: nd}, true
		}
		return 0, eh, nil, false
	}
	walk(0)
	return out
}

func bitMutants(p *syncer.Proof) (names []string, out []*syncer.Proof) {
	for i, e := range p.Entries {
		for b := 0; b < len(e)*8; b++ {
			q := cloneProof(p)
			q.Entries[i][b/8] ^= 1 << uint(b%8)
			names = append(names, fmt.Sprintf("bit[%d.%d]", i, b))
			out = append(out, q)
		}
		for l := 0; l < len(e); l++ {
			q := cloneProof(p)
			q.Entries[i] = q.Entries[i][:l]
			names = append(names, fmt.Sprintf("trunc[%d:%d]", i, l))
			out = append(out, q)
		}
	}
	return
}

// tapeSyncer: an adversarial peer. For request number i it serves menu item
// tape[i] (0 = honest); beyond the tape it is honest.
type tapeSyncer struct {
	src      mkvs.Tree
	root     node.Root
	other    mkvs.Tree
	oroot    node.Root
	tape     []int
	pos      int
	menuSize int
}

const c04MenuSize = 7

func (t *tapeSyncer) serve(q c04req, pos hash.Hash) (*syncer.ProofResponse, error) {
	choice := 0
	if t.pos < len(t.tape) {
		choice = t.tape[t.pos]
	}
	t.pos++
	tid := syncer.TreeID{Root: t.root, Position: pos}
	do := func(src mkvs.Tree, tid syncer.TreeID, q c04req) (*syncer.Proof, error) {
		var rsp *syncer.ProofResponse
		var err error
		switch q.Kind {
		case "get":
			rsp, err = src.SyncGet(kv.Ctx, &syncer.GetRequest{Tree: tid, Key: q.Key, IncludeSiblings: q.Siblings, ProofVersion: q.V})
		case "iter":
			rsp, err = src.SyncIterate(kv.Ctx, &syncer.IterateRequest{Tree: tid, Key: q.Key, Prefetch: q.Prefetch, ProofVersion: q.V})
		default:
			rsp, err = src.SyncGetPrefixes(kv.Ctx, &syncer.GetPrefixesRequest{Tree: tid, Prefixes: q.Prefixes, Limit: q.Prefetch, ProofVersion: q.V})
		}
		if err != nil {
			return nil, err
		}
		return &rsp.Proof, nil
	}
	p, err := do(t.src, tid, q)
	if err != nil {
		return nil, err
	}
	switch choice {
	case 0:
	case 1: // honest answer for another key
		q2 := q
		q2.Key = []byte{0x80}
		if bytes.Equal(q.Key, q2.Key) {
			q2.Key = []byte{0x00}
		}
		if p2, err := do(t.src, tid, q2); err == nil {
			p = p2
		}
	case 2: // honest answer from another tree, relabelled to our root
		if p2, err := do(t.other, syncer.TreeID{Root: t.oroot, Position: t.oroot.Hash}, q); err == nil {
			p = p2
			p.UntrustedRoot = t.root.Hash
		}
	case 3: // first full leaf replaced by nil
		for i, e := range p.Entries {
			if len(e) > 1 && e[0] == 0x01 && e[1] == node.PrefixLeafNode {
				p.Entries[i] = nil
				break
			}
		}
	case 4: // last entry dropped
		if len(p.Entries) > 0 {
			p.Entries = p.Entries[:len(p.Entries)-1]
		}
	case 5: // root-anchored proof holding only the root hash
		p = &syncer.Proof{V: p.V, UntrustedRoot: t.root.Hash, Entries: [][]byte{hashEntry(t.root.Hash)}}
	case 6: // fabricated empty subtree
		p = &syncer.Proof{V: p.V, UntrustedRoot: pos, Entries: [][]byte{nil}}
	}
	return &syncer.ProofResponse{Proof: *p}, nil
}

func (t *tapeSyncer) SyncGet(_ context.Context, r *syncer.GetRequest) (*syncer.ProofResponse, error) {
	return t.serve(c04req{Kind: "get", Key: r.Key, Siblings: r.IncludeSiblings, V: r.ProofVersion}, r.Tree.Position)
}

func (t *tapeSyncer) SyncGetPrefixes(_ context.Context, r *syncer.GetPrefixesRequest) (*syncer.ProofResponse, error) {
	return t.serve(c04req{Kind: "prefixes", Prefixes: r.Prefixes, Prefetch: r.Limit, V: r.ProofVersion}, r.Tree.Position)
}

func (t *tapeSyncer) SyncIterate(_ context.Context, r *syncer.IterateRequest) (*syncer.ProofResponse, error) {
	return t.serve(c04req{Kind: "iter", Key: r.Key, Prefetch: r.Prefetch, V: r.ProofVersion}, r.Tree.Position)
}

// tapeReaderLies runs one long-lived reader (cache shared across operations)
// against the adversary following the tape.
func tapeReaderLies(ts *tapeSyncer, truth kv.Contents, nodeCap uint64) (lie string, requests int) {
	defer func() {
		if p := recover(); p != nil {
			lie = fmt.Sprintf("panic in remote-backed reader: %v", p)
		}
	}()
	rd := mkvs.NewWithRoot(ts, nil, ts.root, mkvs.Capacity(nodeCap, 0))
	defer rd.Close()
	for _, k := range [][]byte{{0x00}, {0x00, 0x80}, {0x80}, {0x00, 0x00}, {}} {
		v, err := rd.Get(kv.Ctx, k)
		if err != nil {
			continue
		}
		want, present := truth[string(k)]
		if !valEq(v, want, present) {
			return fmt.Sprintf("reader Get(%x) = %q (nil=%v) but the tree holds %q (present=%v)", k, v, v == nil, want, present), ts.pos
		}
	}
	it := rd.NewIterator(kv.Ctx, mkvs.IteratorPrefetch(1))
	defer it.Close()
	want := truth.SortedKeys()
	i := 0
	for it.Rewind(); it.Valid(); it.Next() {
		if i >= len(want) || string(it.Key()) != want[i] || !bytes.Equal(it.Value(), truth[want[i]]) {
			return fmt.Sprintf("reader iteration yields %x=%q at position %d contrary to the tree %s", it.Key(), it.Value(), i, truth), ts.pos
		}
		i++
	}
	if it.Err() == nil && i != len(want) {
		return fmt.Sprintf("reader iteration ended without error after %d items, the tree has %d", i, len(want)), ts.pos
	}
	return "", ts.pos
}

type c04tree struct {
	c    kv.Contents
	root node.Root
	t    mkvs.Tree
}

func c04Requests(thorough bool) []c04req {
	var qs []c04req
	for _, v := range []uint16{0, 1} {
		for _, k := range c04Probes {
			for _, sib := range []bool{false, true} {
				qs = append(qs, c04req{Kind: "get", Key: k, Siblings: sib, V: v})
			}
		}
		pf := []uint16{0, 1, 2, 255}
		for _, k := range [][]byte{{}, {0x00}, {0x00, 0x40}, {0x80}, {0xff, 0xff}} {
			for _, p := range pf {
				qs = append(qs, c04req{Kind: "iter", Key: k, Prefetch: p, V: v})
			}
		}
		for _, px := range [][][]byte{{{0x00}}, {{}}, {{0x00, 0x00}, {0x80}}, {{0x40}},
			// overlapping, unsorted and repeated prefixes
			{{0x00, 0x00}, {0x00}}, {{0x00, 0x80}, {0x00}}, {{0x00}, {0x00, 0x00}}, {{0x80}, {}}, {{0x80}, {0x00}}, {{0x00}, {0x00}}, {{0xff}, {0x00, 0x80}, {}}} {
			for _, lim := range []uint16{0, 1, 2, 255} {
				qs = append(qs, c04req{Kind: "prefixes", Prefixes: px, Prefetch: lim, V: v})
			}
		}
	}
	return qs
}

func c04MakeTree(ndb dbapi.NodeDB, c kv.Contents) (*c04tree, error) {
	t := mkvs.New(nil, ndb, node.RootTypeState)
	for _, k := range c.SortedKeys() {
		if err := t.Insert(kv.Ctx, []byte(k), c[k]); err != nil {
			return nil, err
		}
	}
	_, h, err := t.Commit(kv.Ctx, kv.Namespace, 1)
	if err != nil {
		return nil, err
	}
	return &c04tree{c: c, root: kv.RootFor(1, node.RootTypeState, h), t: t}, nil
}

// c04CheckTree runs completeness + soundness for one tree. universe = entries of
// proofs from neighbouring trees used for splicing.
func c04CheckTree(r *ev.Run, tr *c04tree, neighbours []*c04tree, reqs []c04req, bitLevel bool) {
	var pv syncer.ProofVerifier
	var evals, mutants, accepted, prefixChecks, sessions int64
	// An honest peer (the tree itself) read through small node caches: gets, iteration from several
	// seek positions.  A cache that is too small may make a read fail, never lie.
	for _, nc := range []uint64{1, 2, 3} {
		evals++
		lie := readerLies(tr.t, tr.root, tr.c, nc)
		if lie == "" {
			lie = readerLiesWarm(tr.t, tr.root, tr.c, nc)
		}
		if lie != "" {
			r.Violate(ev.Violation{Engine: "kvmc", Key: fmt.Sprintf("c04 small-cache %s cap=%d", tr.c, nc), What: fmt.Sprintf("tree %s read from an honest peer through a node cache of %d: %s", tr.c, nc, lie), Artefact: c04Artefact{Contents: tr.c, NodeCap: nc, Mutation: "small-cache"}})
		}
	}
	for _, cp := range [][2]uint64{{1, 0}, {2, 0}, {3, 0}, {4, 0}, {0, 1}, {0, 3}, {2, 3}} {
		lie, n := readerSessionLies(tr.t, tr.root, tr.c, cp[0], cp[1], c04SessionDepth)
		sessions += n
		if lie != "" {
			r.Violate(ev.Violation{Engine: "kvmc", Key: fmt.Sprintf("c04 reader-session %s cap=%d/%d", tr.c, cp[0], cp[1]), What: fmt.Sprintf("tree %s read from an honest peer through a cache of %d nodes / %d value bytes (0 = unlimited): %s", tr.c, cp[0], cp[1], lie), Artefact: c04Artefact{Contents: tr.c, NodeCap: cp[0], ValueCap: cp[1], Mutation: "reader-session", Depth: c04SessionDepth}})
		}
	}
	// splice universe: all distinct entries of the get-proofs of the neighbours and of this tree
	uniSet := map[string]struct{}{}
	var universe [][]byte
	addU := func(p *syncer.Proof) {
		for _, e := range p.Entries {
			if e == nil {
				continue
			}
			if _, ok := uniSet[string(e)]; !ok && len(universe) < 40 {
				uniSet[string(e)] = struct{}{}
				universe = append(universe, e)
			}
		}
	}
	for _, nb := range neighbours {
		for _, k := range [][]byte{{0x00}, {0x80}, {0x00, 0x00}} {
			if p, err := honest(nb.t, nb.root, c04req{Kind: "get", Key: k, V: 1}); err == nil {
				addU(p)
			}
			if p, err := honest(nb.t, nb.root, c04req{Kind: "get", Key: k, V: 0}); err == nil {
				addU(p)
			}
		}
	}
	for _, q := range reqs {
		p, err := honest(tr.t, tr.root, q)
		evals++
		if err != nil {
			r.Violate(ev.Violation{Engine: "kvmc", Key: fmt.Sprintf("c04 produce %s %s", tr.c, q), What: fmt.Sprintf("tree %s: %s failed: %v", tr.c, q, err), Artefact: c04Artefact{Contents: tr.c, Request: q, Mutation: "honest"}})
			continue
		}
		// completeness
		if _, err := pv.VerifyProof(kv.Ctx, tr.root.Hash, p); err != nil {
			r.Violate(ev.Violation{Engine: "kvmc", Key: fmt.Sprintf("c04 honest-rejected %s %s", tr.c, q), What: fmt.Sprintf("tree %s: honest proof of %s does not verify: %v", tr.c, q, err), Artefact: c04Artefact{Contents: tr.c, Request: q, Mutation: "honest", Proof: p}})
			continue
		}
		if q.Kind == "get" {
			rd := mkvs.NewWithRoot(&fixedSyncer{p}, nil, tr.root)
			v, err := rd.Get(kv.Ctx, q.Key)
			rd.Close()
			want, present := tr.c[string(q.Key)]
			if err != nil || !valEq(v, want, present) {
				r.Violate(ev.Violation{Engine: "kvmc", Key: fmt.Sprintf("c04 incomplete %s %s", tr.c, q), What: fmt.Sprintf("tree %s: proof of %s does not determine the key: reader got %q err=%v, truth %q (present=%v)", tr.c, q, v, err, want, present), Artefact: c04Artefact{Contents: tr.c, Request: q, Mutation: "honest", Proof: p}})
			}
		}
		if q.Kind == "iter" {
			// the first item at or after the key must be determined by the proof
			rd := mkvs.NewWithRoot(&fixedSyncer{p}, nil, tr.root)
			it := rd.NewIterator(kv.Ctx)
			it.Seek(q.Key)
			want := sortedFrom(tr.c, q.Key)
			ok := true
			if len(want) == 0 {
				ok = !it.Valid() && it.Err() == nil
			} else {
				ok = it.Valid() && string(it.Key()) == want[0] && bytes.Equal(it.Value(), tr.c[want[0]])
				for j := 1; ok && j <= int(q.Prefetch) && j < len(want) && j < 3; j++ {
					it.Next()
					ok = it.Valid() && string(it.Key()) == want[j]
				}
			}
			if !ok {
				r.Violate(ev.Violation{Engine: "kvmc", Key: fmt.Sprintf("c04 incomplete %s %s", tr.c, q), What: fmt.Sprintf("tree %s: proof of %s does not determine the iteration start (reader err=%v valid=%v key=%x)", tr.c, q, it.Err(), it.Valid(), it.Key()), Artefact: c04Artefact{Contents: tr.c, Request: q, Mutation: "honest", Proof: p}})
			}
			it.Close()
			rd.Close()
		}
		if q.Kind == "prefixes" {
			if w := prefixIncomplete(tr.root, tr.c, q, p); w != "" {
				r.Violate(ev.Violation{Engine: "kvmc", Key: fmt.Sprintf("c04 incomplete %s %s", tr.c, q), What: fmt.Sprintf("tree %s: proof of %s %s", tr.c, q, w), Artefact: c04Artefact{Contents: tr.c, Request: q, Mutation: "honest", Proof: p}})
			}
			prefixChecks++
		}
		lie := verifierLies(tr.root.Hash, p, tr.c)
		if lie == "" {
			lie = readerLies(&fixedSyncer{p}, tr.root, tr.c, 0)
		}
		if lie != "" {
			r.Violate(ev.Violation{Engine: "kvmc", Key: fmt.Sprintf("c04 honest-lie %s %s", tr.c, q), What: fmt.Sprintf("tree %s: honest proof of %s: %s", tr.c, q, lie), Artefact: c04Artefact{Contents: tr.c, Request: q, Mutation: "honest", Proof: p}})
		}
		// soundness: complete entry-level neighbourhood (+ bit level for small trees)
		names, ms := entryMutants(p, universe)
		if bitLevel && len(tr.c) <= 3 && q.Kind == "get" && !q.Siblings {
			n2, m2 := bitMutants(p)
			names, ms = append(names, n2...), append(ms, m2...)
		}
		for mi, m := range ms {
			mutants++
			func() {
				defer func() {
					if pp := recover(); pp != nil {
						r.Violate(ev.Violation{Engine: "kvmc", Key: fmt.Sprintf("c04 panic %s %s %s", tr.c, q, names[mi]), What: fmt.Sprintf("tree %s: verifying mutant %s of %s panics: %v", tr.c, names[mi], q, pp), Artefact: c04Artefact{Contents: tr.c, Request: q, Mutation: names[mi], Proof: m}})
					}
				}()
				if _, err := pv.VerifyProof(kv.Ctx, tr.root.Hash, cloneProof(m)); err != nil {
					return
				}
				accepted++
				lie := verifierLies(tr.root.Hash, m, tr.c)
				if lie == "" {
					lie = readerLies(&fixedSyncer{m}, tr.root, tr.c, 0)
				}
				if lie != "" {
					r.Violate(ev.Violation{Engine: "kvmc", Key: fmt.Sprintf("c04 lie %s %s %s", tr.c, q, names[mi]), What: fmt.Sprintf("tree %s: mutant %s of the proof of %s is accepted and %s", tr.c, names[mi], q, lie), Artefact: c04Artefact{Contents: tr.c, Request: q, Mutation: names[mi], Proof: m}})
				}
			}()
		}
	}
	r.Add("states", 1)
	r.Add("transitions", evals+mutants)
	r.Add("honest_proofs", evals)
	r.Add("prefix_fetch_completeness_checks", prefixChecks)
	r.Add("reader_sessions", sessions)
	r.Add("transitions", sessions)
	r.Add("mutants", mutants)
	r.Add("mutants_accepted_and_read_back", accepted)
}

func runC04(r *ev.Run) {
	keys := kv.Keys6
	vals := [][]byte{nil, []byte("a"), []byte("b")}
	if r.Thorough() {
		vals = kv.Values
	}
	if r.Replay != "" {
		c04Replay(r)
		return
	}
	total := kv.Pow(len(vals), len(keys))
	if r.Thorough() {
		c04SessionDepth = 3
	}
	reqs := c04Requests(r.Thorough())
	// One database per worker shard; trees of a shard + their single-key neighbours.
	nshards := 64
	var mu sync.Mutex
	ev.ParallelRange(nshards, r.Seed, func(sh int) {
		ndb, err := kv.OpenDB("badger", "")
		if err != nil {
			r.HarnessError("open db: %v", err)
			return
		}
		defer ndb.Close()
		cache := map[int]*c04tree{}
		get := func(i int) *c04tree {
			if t, ok := cache[i]; ok {
				return t
			}
			t, err := c04MakeTree(ndb, kv.ContentsFromIndex(i, keys, vals))
			if err != nil {
				r.HarnessError("make tree: %v", err)
				return nil
			}
			cache[i] = t
			return t
		}
		for i := sh; i < total; i += nshards {
			if r.Expired() {
				r.Cap("deadline")
				return
			}
			tr := get(i)
			if tr == nil {
				return
			}
			// neighbours: contents differing in exactly one key's value (first 3 keys for splicing)
			var nbs []*c04tree
			for ki := 0; ki < len(keys); ki++ {
				digit := (i / kv.Pow(len(vals), ki)) % len(vals)
				alt := (digit + 1) % len(vals)
				j := i + (alt-digit)*kv.Pow(len(vals), ki)
				if nb := get(j); nb != nil {
					nbs = append(nbs, nb)
				}
			}
			c04CheckTree(r, tr, nbs, reqs, true)
			if i%97 == 0 {
				mu.Lock()
				r.Sample(map[string]any{"tree": tr.c.String(), "root": tr.root.Hash.String(), "requests": len(reqs)}, 4)
				mu.Unlock()
			}
			// keep memory bounded
			if len(cache) > 200 {
				for k, t := range cache {
					t.t.Close()
					delete(cache, k)
				}
			}
		}
	})
	// Remote-backed reader against an adversarial peer: all tapes up to length R.
	R := 2
	if r.Thorough() {
		R = 3
	}
	c04Adversary(r, R)
	r.Set("trees", total)
	r.Set("requests_per_tree", len(reqs))
	r.Alias("traces_validated_against_impl", "transitions")
	r.Set("rule", "for every tree over the 6-key alphabet and every request (SyncGet x 13 probe keys x siblings x proof version; SyncIterate x prefetch; SyncGetPrefixes x limit): honest proof verifies and determines the answer; every entry-level mutant (drop, dup, swap, nil, to-hash, empty-hash, splice from neighbouring trees, append, version flip, fabricated, internal-node entries re-encoded non-compact with kept / nil / empty-hash children) and, for trees <= 3 keys, every bit flip and truncation: rejected, or every answer a remote-backed reader derives from it equals the real contents; adversarial peer: every response tape of length <= R over a 7-item menu")
	r.Assume("keys limited to the 6-key alphabet, values a/b (thorough adds the empty value)", "SHA-512/256 trusted")
	r.Finish()
}

func c04Adversary(r *ev.Run, R int) {
	// Representative trees (with prefix keys and deep shared prefixes) x other trees.
	bases := []kv.Contents{
		{"\x00": []byte("a"), "\x00\x00": []byte("a"), "\x00\x80": []byte("a"), "\x80": []byte("a")},
		{"": []byte("a"), "\x00": []byte("b"), "\x80": []byte("a")},
		{"\x00\x00": []byte("a"), "\x00\x80": []byte("b")},
		{"\x80": []byte("a")},
	}
	others := []kv.Contents{
		{"\x00": []byte("b"), "\x00\x00": []byte("a"), "\x00\x80": []byte("a"), "\x80": []byte("a")},
		{"\x00\x00": []byte("a"), "\x80": []byte("a")},
	}
	var tapes [][]int
	var gen func(prefix []int)
	gen = func(prefix []int) {
		tapes = append(tapes, append([]int{}, prefix...))
		if len(prefix) == R+2 {
			return
		}
		for c := 0; c < c04MenuSize; c++ {
			// at most R deviations from honesty anywhere in the first R+2 requests
			dev := 0
			for _, x := range prefix {
				if x != 0 {
					dev++
				}
			}
			if c != 0 && dev >= R {
				continue
			}
			gen(append(prefix, c))
		}
	}
	gen(nil)
	type job struct {
		b, o int
		cap  uint64
	}
	var jobs []job
	for b := range bases {
		for o := range others {
			for _, c := range []uint64{0, 2, 4} {
				jobs = append(jobs, job{b, o, c})
			}
		}
	}
	ev.ParallelRange(len(jobs), r.Seed, func(ji int) {
		j := jobs[ji]
		ndb, err := kv.OpenDB("badger", "")
		if err != nil {
			r.HarnessError("open db: %v", err)
			return
		}
		defer ndb.Close()
		bt, err1 := c04MakeTree(ndb, bases[j.b])
		ot, err2 := c04MakeTree(ndb, others[j.o])
		if err1 != nil || err2 != nil {
			r.HarnessError("make tree: %v %v", err1, err2)
			return
		}
		var n, reqs int64
		for _, tape := range tapes {
			ts := &tapeSyncer{src: bt.t, root: bt.root, other: ot.t, oroot: ot.root, tape: tape}
			lie, nreq := tapeReaderLies(ts, bt.c, j.cap)
			n++
			reqs += int64(nreq)
			if lie != "" {
				r.Violate(ev.Violation{Engine: "kvmc", Key: fmt.Sprintf("c04 adversary %s other=%s cap=%d tape=%v", bt.c, ot.c, j.cap, tape), What: fmt.Sprintf("reader of %s (node cache %d) against a peer following tape %v (0 honest,1 other key,2 other tree,3 leaf->nil,4 drop last,5 root hash only,6 fabricated empty): %s", bt.c, j.cap, tape, lie), Artefact: c04Artefact{Contents: bt.c, Other: ot.c, Tape: tape, NodeCap: j.cap, Mutation: "adversary"}})
			}
		}
		r.Add("adversary_executions", n)
		r.Add("adversary_requests", reqs)
		r.Add("transitions", reqs)
		r.Add("states", n)
	})
	r.Set("adversary_tapes", len(tapes))
}

func c04Replay(r *ev.Run) {
	v, err := ev.LoadReplay(r.Replay)
	if err != nil {
		fmt.Println("cannot load replay:", err)
		os.Exit(2)
	}
	b, _ := json.Marshal(v.Artefact)
	var a c04Artefact
	_ = json.Unmarshal(b, &a)
	ndb, _ := kv.OpenDB("badger", "")
	defer ndb.Close()
	tr, _ := c04MakeTree(ndb, a.Contents)
	what := ""
	switch {
	case a.Mutation == "small-cache":
		if what = readerLies(tr.t, tr.root, tr.c, a.NodeCap); what == "" {
			what = readerLiesWarm(tr.t, tr.root, tr.c, a.NodeCap)
		}
	case a.Mutation == "reader-session":
		what, _ = readerSessionLies(tr.t, tr.root, tr.c, a.NodeCap, a.ValueCap, a.Depth)
	case a.Mutation == "adversary":
		ot, _ := c04MakeTree(ndb, a.Other)
		what, _ = tapeReaderLies(&tapeSyncer{src: tr.t, root: tr.root, other: ot.t, oroot: ot.root, tape: a.Tape}, tr.c, a.NodeCap)
	case a.Mutation == "honest":
		p, err := honest(tr.t, tr.root, a.Request)
		if err != nil {
			what = err.Error()
		} else {
			var pv syncer.ProofVerifier
			if _, err := pv.VerifyProof(kv.Ctx, tr.root.Hash, p); err != nil {
				what = "honest proof rejected: " + err.Error()
			} else if a.Request.Kind == "get" {
				rd := mkvs.NewWithRoot(&fixedSyncer{p}, nil, tr.root)
				v, err := rd.Get(kv.Ctx, a.Request.Key)
				want, present := tr.c[string(a.Request.Key)]
				if err != nil || !valEq(v, want, present) {
					what = fmt.Sprintf("proof does not determine key: %q err=%v", v, err)
				}
			}
			if what == "" && a.Request.Kind == "prefixes" {
				what = prefixIncomplete(tr.root, tr.c, a.Request, p)
			}
			if what == "" {
				what = readerLies(&fixedSyncer{p}, tr.root, tr.c, 0)
			}
		}
	default:
		var pv syncer.ProofVerifier
		func() {
			defer func() {
				if pp := recover(); pp != nil {
					what = fmt.Sprintf("panic: %v", pp)
				}
			}()
			if _, err := pv.VerifyProof(kv.Ctx, tr.root.Hash, cloneProof(a.Proof)); err == nil {
				if what = verifierLies(tr.root.Hash, a.Proof, tr.c); what == "" {
					what = readerLies(&fixedSyncer{a.Proof}, tr.root, tr.c, 0)
				}
			}
		}()
	}
	if what != "" {
		fmt.Printf("VIOLATION property=C04 replay=%s\n  what: %s\n", r.Replay, what)
		os.Exit(1)
	}
	fmt.Println("replay: property held")
	os.Exit(0)
}

var _ = sort.Strings
var _ = strings.Join

// prefixIncomplete: the proof of a prefix fetch must determine the first Limit keys of the
// concatenation, over the requested prefixes in request order, of the keys under each prefix, and for
// every prefix whose keys all fit, the complete range under it (so that the absence of further keys
// is determined too).  The reader holds only the root and this proof.
func prefixIncomplete(root node.Root, c kv.Contents, q c04req, p *syncer.Proof) string {
	total := 0
	var mustKnow []string
	var complete [][]byte
pl:
	for _, px := range q.Prefixes {
		for _, k := range sortedFrom(c, px) {
			if total >= int(q.Prefetch) {
				break pl
			}
			if !bytes.HasPrefix([]byte(k), px) {
				break
			}
			mustKnow = append(mustKnow, k)
			total++
		}
		if total < int(q.Prefetch) {
			complete = append(complete, px)
		}
	}
	rd := mkvs.NewWithRoot(&fixedSyncer{p}, nil, root)
	defer rd.Close()
	for _, k := range mustKnow {
		v, err := rd.Get(kv.Ctx, []byte(k))
		if err != nil || !valEq(v, c[k], true) {
			return fmt.Sprintf("does not determine key %x, which is among the first %d keys under the requested prefixes: reader got %q err=%v, truth %q", k, q.Prefetch, v, err, c[k])
		}
	}
	for _, px := range complete {
		var want, got []string
		for _, k := range sortedFrom(c, px) {
			if bytes.HasPrefix([]byte(k), px) {
				want = append(want, k)
			}
		}
		it := rd.NewIterator(kv.Ctx)
		for it.Seek(px); it.Valid() && bytes.HasPrefix(it.Key(), px); it.Next() {
			got = append(got, string(it.Key()))
		}
		err := it.Err()
		it.Close()
		if err != nil || fmt.Sprint(got) != fmt.Sprint(want) {
			return fmt.Sprintf("does not determine the keys under prefix %x (all of which fit into the limit): reader iterates %x err=%v, truth %x", px, got, err, want)
		}
	}
	return ""
}
