package main

import (
	"bytes"
	"encoding/json"
	"fmt"
	"os"
	"strings"
	"sync"

	"github.com/oasisprotocol/oasis-core/go/common/crypto/hash"
	"github.com/oasisprotocol/oasis-core/go/storage/mkvs"
	"github.com/oasisprotocol/oasis-core/go/storage/mkvs/node"
	"github.com/oasisprotocol/oasis-core/go/storage/mkvs/writelog"

	"verif/harness/internal/ev"
	"verif/harness/internal/kv"
)

// op is one tree operation of a C02/C03 history.
type op struct {
	Op  string `json:"op"` // ins | rem | commit | reopen
	Key []byte `json:"key,omitempty"`
	Val []byte `json:"val,omitempty"`
}

func (o op) String() string {
	switch o.Op {
	case "ins":
		return fmt.Sprintf("ins(%x,%q)", o.Key, o.Val)
	case "rem":
		return fmt.Sprintf("rem(%x)", o.Key)
	case "get":
		return fmt.Sprintf("get(%x)", o.Key)
	}
	return o.Op
}

func opsFor(keys [][]byte) []op {
	var ops []op
	for _, k := range keys {
		for _, v := range kv.Values[1:] {
			ops = append(ops, op{Op: "ins", Key: k, Val: v})
		}
	}
	for _, k := range keys {
		ops = append(ops, op{Op: "rem", Key: k})
	}
	return ops
}

func applyOp(t mkvs.Tree, c kv.Contents, o op) error {
	switch o.Op {
	case "ins":
		if err := t.Insert(kv.Ctx, o.Key, o.Val); err != nil {
			return err
		}
		v := o.Val
		if v == nil {
			v = []byte{}
		}
		c[string(o.Key)] = v
	case "rem":
		if err := t.Remove(kv.Ctx, o.Key); err != nil {
			return err
		}
		delete(c, string(o.Key))
	}
	return nil
}

// buildSorted builds the canonical representative of contents c: a fresh
// in-memory tree with the keys inserted in ascending order.
func buildSorted(c kv.Contents, reverse bool, opts ...mkvs.Option) (mkvs.Tree, error) {
	t := mkvs.New(nil, nil, node.RootTypeState, opts...)
	ks := c.SortedKeys()
	if reverse {
		for i, j := 0, len(ks)-1; i < j; i, j = i+1, j-1 {
			ks[i], ks[j] = ks[j], ks[i]
		}
	}
	for _, k := range ks {
		if err := t.Insert(kv.Ctx, []byte(k), c[k]); err != nil {
			return nil, err
		}
	}
	return t, nil
}

type c02Artefact struct {
	Mode     string      `json:"mode"`
	Backend  string      `json:"backend,omitempty"`
	Capacity uint64      `json:"capacity,omitempty"`
	ValueCap uint64      `json:"value_capacity,omitempty"`
	Base     kv.Contents `json:"base,omitempty"`
	Ops      []op        `json:"ops,omitempty"`
	Contents kv.Contents `json:"contents,omitempty"`
	Note     string      `json:"note,omitempty"`
}

func runC02(r *ev.Run) {
	if r.Replay != "" {
		v, err := ev.LoadReplay(r.Replay)
		if err != nil {
			fmt.Println("cannot load replay:", err)
			os.Exit(2)
		}
		b, _ := json.Marshal(v.Artefact)
		var a c02Artefact
		_ = json.Unmarshal(b, &a)
		what := replayC02(a)
		if what != "" {
			fmt.Printf("VIOLATION property=C02 replay=%s\n  what: %s\n", r.Replay, what)
			os.Exit(1)
		}
		fmt.Println("replay: property held")
		os.Exit(0)
	}
	keys := kv.Keys
	nvals := len(kv.Values)
	total := kv.Pow(nvals, len(keys))
	allOps := opsFor(keys)

	// Root table: contents index -> canonical root; injectivity over the whole universe.
	canon := make([]hash.Hash, total)
	ev.ParallelRange(total, 0, func(i int) { canon[i] = kv.CanonicalRoot(kv.ContentsFromIndex(i, keys, kv.Values)) })
	{
		seen := map[hash.Hash]int{}
		for i, h := range canon {
			if j, dup := seen[h]; dup {
				r.HarnessError("oracle: canonical hasher not injective for %d and %d", i, j)
			}
			seen[h] = i
		}
	}
	violate := func(key, what string, a c02Artefact) {
		r.Violate(ev.Violation{Engine: "kvmc", Key: key, What: what, Artefact: a})
	}

	// Phase 1+2: every contents set, four constructions, then the closure step:
	// for every letter the successor is physically identical to the canonical
	// representative of its contents (so every finite no-commit history ends in
	// the canonical shape) and its root equals the contents-only hash.
	var muRoots sync.Mutex
	implRoots := map[hash.Hash]string{}
	ev.ParallelRange(total, r.Seed, func(i int) {
		c := kv.ContentsFromIndex(i, keys, kv.Values)
		var states, trans int64
		// constructions
		for mode := 0; mode < 4; mode++ {
			var t mkvs.Tree
			var err error
			name := ""
			switch mode {
			case 0:
				name = "sorted-insert"
				t, err = buildSorted(c, false)
			case 1:
				name = "reverse-insert"
				t, err = buildSorted(c, true)
			case 2:
				name = "insert-all-then-remove"
				t = mkvs.New(nil, nil, node.RootTypeState)
				for _, k := range keys {
					_ = t.Insert(kv.Ctx, k, []byte("x"))
				}
				for _, k := range keys {
					if v, ok := c[string(k)]; ok {
						_ = t.Insert(kv.Ctx, k, v)
					}
				}
				for j := len(keys) - 1; j >= 0; j-- {
					if _, ok := c[string(keys[j])]; !ok {
						_ = t.Remove(kv.Ctx, keys[j])
					}
				}
			case 3:
				name = "commit-between"
				t = mkvs.New(nil, nil, node.RootTypeState)
				for j, k := range c.SortedKeys() {
					_ = t.Insert(kv.Ctx, []byte(k), c[k])
					if j%2 == 0 {
						_, _ = kv.RootOf(t)
					}
				}
			}
			if err != nil {
				violate("c02 build "+name+" "+c.String(), fmt.Sprintf("%s of %s failed: %v", name, c, err), c02Artefact{Mode: name, Contents: c})
				continue
			}
			h, err := kv.RootOf(t)
			trans += int64(len(c) + 1)
			if err != nil || h != canon[i] {
				violate("c02 root "+name+" "+c.String(), fmt.Sprintf("root after %s of %s is %s, contents-only hash is %s (err=%v)", name, c, h, canon[i], err), c02Artefact{Mode: name, Contents: c})
			}
			if mode == 0 {
				muRoots.Lock()
				if prev, dup := implRoots[h]; dup && prev != c.String() {
					violate("c02 injective "+c.String(), fmt.Sprintf("contents %s and %s share root %s", prev, c, h), c02Artefact{Mode: "injective", Contents: c})
				}
				implRoots[h] = c.String()
				muRoots.Unlock()
			}
			t.Close()
		}
		states++
		// closure step
		for _, o := range allOps {
			t, _ := buildSorted(c, false)
			c2 := c.Clone()
			if err := applyOp(t, c2, o); err != nil {
				violate("c02 op-error "+o.String()+" "+c.String(), fmt.Sprintf("%s on %s failed: %v", o, c, err), c02Artefact{Mode: "closure", Base: c, Ops: []op{o}})
				continue
			}
			ref, _ := buildSorted(c2, false)
			d1, d2 := kv.NormDump(t), kv.NormDump(ref)
			h, _ := kv.RootOf(t)
			hr := kv.CanonicalRoot(c2)
			trans++
			if h != hr {
				violate("c02 closure-root "+o.String()+" "+c.String(), fmt.Sprintf("%s applied to %s: root %s, contents-only hash of %s is %s", o, c, h, c2, hr), c02Artefact{Mode: "closure", Base: c, Ops: []op{o}})
			} else if d1 != d2 {
				violate("c02 closure-shape "+o.String()+" "+c.String(), fmt.Sprintf("%s applied to %s: in-memory shape differs from the canonical shape of %s:\n%s\nvs\n%s", o, c, c2, d1, d2), c02Artefact{Mode: "closure", Base: c, Ops: []op{o}, Note: "shape"})
			}
			t.Close()
			ref.Close()
		}
		r.Add("states", states)
		r.Add("transitions", trans)
		if i%9973 == 1 {
			r.Sample(map[string]any{"contents": c.String(), "root": canon[i].String()}, 4)
		}
	})
	r.Set("contents_sets", total)
	r.Set("distinct_roots", len(implRoots))

	// Phase 3: dirty/clean interplay. For every committed C1 over the sub-alphabet,
	// every op sequence of length <= L, commit again: root is contents-only.
	sub := kv.Keys5
	subVals := [][]byte{nil, {}, []byte("a")}
	L := 2
	if r.Thorough() {
		sub = kv.Keys6
		subVals = kv.Values
	}
	subOps := func() []op {
		var ops []op
		for _, k := range sub {
			for _, v := range kv.Values[1:] {
				ops = append(ops, op{Op: "ins", Key: k, Val: v})
			}
			ops = append(ops, op{Op: "rem", Key: k})
		}
		return ops
	}()
	nsub := kv.Pow(len(subVals), len(sub))
	ev.ParallelRange(nsub, r.Seed, func(i int) {
		c1 := kv.ContentsFromIndex(i, sub, subVals)
		var trans int64
		idx := make([]int, L)
		for {
			t, _ := buildSorted(c1, false)
			_, _ = kv.RootOf(t) // commit: everything clean
			c := c1.Clone()
			seq := make([]op, 0, L)
			for _, k := range idx {
				seq = append(seq, subOps[k])
				_ = applyOp(t, c, subOps[k])
				// intermediate commit after first op in odd sequences exercises partial dirtiness
			}
			h, err := kv.RootOf(t)
			trans += int64(L + 2)
			if hr := kv.CanonicalRoot(c); err != nil || h != hr {
				violate(fmt.Sprintf("c02 recommit %s %v", c1, seq), fmt.Sprintf("commit %s, then %v, commit: root %s but contents-only hash of %s is %s (err=%v)", c1, seq, h, c, hr, err), c02Artefact{Mode: "recommit", Base: c1, Ops: seq})
			}
			t.Close()
			k := L - 1
			for k >= 0 {
				idx[k]++
				if idx[k] < len(subOps) {
					break
				}
				idx[k] = 0
				k--
			}
			if k < 0 {
				break
			}
		}
		r.Add("transitions", trans)
		r.Add("states", int64(kv.Pow(len(subOps), L)))
	})

	// Phase 3b: the write log of a batch. For every committed C1 over three keys of the sub-alphabet,
	// every batch of <= 3 operations on these keys (remove / re-insert / remove chains on one key
	// included): the write log returned by the commit, replayed on a second tree at C1, must reach the
	// same root (= the contents-only hash), and must not mention a key twice.
	{
		bk := sub[:3]
		var bops []op
		for _, k := range bk {
			for _, v := range kv.Values[1:] {
				bops = append(bops, op{Op: "ins", Key: k, Val: v})
			}
			bops = append(bops, op{Op: "rem", Key: k})
		}
		BL := 3
		if r.Thorough() {
			BL = 4
		}
		nb := kv.Pow(len(subVals), len(bk))
		ev.ParallelRange(nb, r.Seed, func(i int) {
			c1 := kv.ContentsFromIndex(i, bk, subVals)
			var trans int64
			idx := make([]int, BL)
			for l := 1; l <= BL; l++ {
				for k := range idx {
					idx[k] = 0
				}
				for {
					// a real commit of the base (a NoPersist commit, as RootOf does, keeps the pending write log)
					t, _ := buildSorted(c1, false)
					_, _, _ = t.Commit(kv.Ctx, kv.Namespace, 1)
					c := c1.Clone()
					seq := make([]op, 0, l)
					for _, k := range idx[:l] {
						seq = append(seq, bops[k])
						_ = applyOp(t, c, bops[k])
					}
					wl, h, err := t.Commit(kv.Ctx, kv.Namespace, 2)
					t.Close()
					t2, _ := buildSorted(c1, false)
					_, _, _ = t2.Commit(kv.Ctx, kv.Namespace, 1)
					var h2 hash.Hash
					err2 := t2.ApplyWriteLog(kv.Ctx, writelog.NewStaticIterator(wl))
					if err2 == nil {
						h2, err2 = kv.RootOf(t2)
					}
					t2.Close()
					trans += int64(l + 3)
					hr := kv.CanonicalRoot(c)
					dup := false
					seenK := map[string]bool{}
					for _, e := range wl {
						dup = dup || seenK[string(e.Key)]
						seenK[string(e.Key)] = true
					}
					if err != nil || err2 != nil || h != hr || h2 != hr || dup {
						violate(fmt.Sprintf("c02 batchlog %s %v", c1, seq), fmt.Sprintf("commit %s, then batch %v, commit: root %s, contents-only hash of %s is %s (err=%v); the batch's write log %v replayed on a tree at %s gives root %s (err=%v, duplicate key=%v)", c1, seq, h, c, hr, err, wl, c1, h2, err2, dup), c02Artefact{Mode: "batchlog", Base: c1, Ops: seq})
					}
					k := l - 1
					for k >= 0 {
						idx[k]++
						if idx[k] < len(bops) {
							break
						}
						idx[k] = 0
						k--
					}
					if k < 0 {
						break
					}
				}
			}
			r.Add("transitions", trans)
			r.Add("batch_write_logs_replayed", int64(kv.Pow(len(bops), BL)))
		})
	}

	// Phase 4: backends, tiny caches, reopen, write-log replay.
	c02Backends(r, sub, subVals, subOps, violate)

	// Phase 5: cache pressure over several commits.
	c02Pressure(r, violate)

	r.Alias("traces_validated_against_impl", "transitions")
	r.Set("rule", "phase1: all contents over 8 keys x {absent,\"\",a,b}, 4 constructions, root == contents-only canonical hash, roots injective; phase2: closure (every letter from every canonical state yields the canonical physical shape); phase3: commit, all op sequences <= L over the sub-alphabet, commit; phase3b: commit, every batch of <= 3 (thorough 4) operations on three keys, commit: the batch's write log replayed on a second tree at the first root reaches the same root; phase4: same on badger/pathbadger with cache capacity 1/2/unbounded, reopen at root, write-log replay; phase5: a 10-key tree (paths of up to 5 nodes) reopened with node caches of 6, 7, 8 and unlimited: every sequence of 3 (thorough 4) rounds, a round being get+remove+commit or insert+commit of one of 5 keys; after every commit the root equals the contents-only hash and every key reads back")
	r.Assume("SHA-512/256 (common/crypto/hash) is trusted and collision free on the explored universe", "keys outside the 8-key alphabet and values other than \"\", a, b are not covered")
	r.Finish()
}

func c02Backends(r *ev.Run, sub [][]byte, subVals [][]byte, subOps []op, violate func(string, string, c02Artefact)) {
	nsub := kv.Pow(len(subVals), len(sub))
	caps := [][2]uint64{{0, 0}, {0, 1}, {2, 0}, {2, 1}, {1, 0}}
	if e := os.Getenv("VERIF_KV_CAPS"); e != "" {
		_ = json.Unmarshal([]byte(e), &caps)
	}
	type job struct {
		backend string
		i       int
	}
	var jobs []job
	for _, b := range kv.Backends {
		for i := 0; i < nsub; i++ {
			jobs = append(jobs, job{b, i})
		}
	}
	ev.ParallelRange(len(jobs), r.Seed, func(ji int) {
		j := jobs[ji]
		c1 := kv.ContentsFromIndex(j.i, sub, subVals)
		what, a := c02BackendCase(j.backend, c1, subOps, caps, r)
		if what != "" {
			// known root cause (see known_findings.jsonl): a node cache not larger than the number of internal
			// nodes on the path being walked evicts an ancestor that is in use
			tag := ""
			var ks [][]byte
			for k := range c1 {
				ks = append(ks, []byte(k))
			}
			for _, o := range a.Ops {
				ks = append(ks, o.Key)
			}
			if a.Capacity > 0 && a.Capacity <= uint64(triePathNodes(ks)) {
				tag = " nodecap<=path"
			}
			violate(fmt.Sprintf("c02 backend %s %s %v cap=%d/%d%s", j.backend, c1, a.Ops, a.Capacity, a.ValueCap, tag), what, a)
		}
	})
}

// c02BackendCase: commit c1 as version 1 on a real node database, finalize,
// then for every single letter and cache capacity reopen at the root, apply,
// commit as version 2 and compare with the contents-only hash; the served
// write log replayed on a second tree must reach the same root.
func c02BackendCase(backend string, c1 kv.Contents, subOps []op, caps [][2]uint64, r *ev.Run) (what string, art c02Artefact) {
	defer func() {
		if p := recover(); p != nil {
			what = fmt.Sprintf("%s cap=%d/%d: panic during %v on reopened %s: %v", backend, art.Capacity, art.ValueCap, art.Ops, c1, p)
		}
	}()
	ndb, err := kv.OpenDB(backend, "")
	if err != nil {
		return "", c02Artefact{}
	}
	defer ndb.Close()
	t := mkvs.New(nil, ndb, node.RootTypeState)
	for _, k := range c1.SortedKeys() {
		_ = t.Insert(kv.Ctx, []byte(k), c1[k])
	}
	_, h1, err := t.Commit(kv.Ctx, kv.Namespace, 1)
	t.Close()
	art = c02Artefact{Mode: "backend", Backend: backend, Base: c1}
	if err != nil {
		return fmt.Sprintf("commit of %s on %s failed: %v", c1, backend, err), art
	}
	if hr := kv.CanonicalRoot(c1); h1 != hr {
		return fmt.Sprintf("%s: committed root %s of %s differs from contents-only hash %s", backend, h1, c1, hr), art
	}
	root1 := kv.RootFor(1, node.RootTypeState, h1)
	if err := ndb.Finalize([]node.Root{root1}); err != nil {
		return fmt.Sprintf("%s: finalize failed: %v", backend, err), art
	}
	var trans int64
	for _, capn := range caps {
		for _, o := range subOps {
			art.Capacity, art.ValueCap = capn[0], capn[1]
			art.Ops = []op{o}
			t2 := mkvs.NewWithRoot(nil, ndb, root1, mkvs.Capacity(capn[0], capn[1]))
			c := c1.Clone()
			if err := applyOp(t2, c, o); err != nil {
				return fmt.Sprintf("%s cap=%d/%d: %s on reopened %s failed: %v", backend, capn[0], capn[1], o, c1, err), art
			}
			wl, h2, err := t2.Commit(kv.Ctx, kv.Namespace, 2)
			trans += 2
			if err != nil {
				return fmt.Sprintf("%s cap=%d/%d: commit after %s on reopened %s failed: %v", backend, capn[0], capn[1], o, c1, err), art
			}
			if hr := kv.CanonicalRoot(c); h2 != hr {
				return fmt.Sprintf("%s cap=%d/%d: reopen %s, %s, commit: root %s, contents-only hash of %s is %s", backend, capn[0], capn[1], c1, o, h2, c, hr), art
			}
			// contents readable back through a third tree with tiny cache
			t3 := mkvs.NewWithRoot(nil, ndb, kv.RootFor(2, node.RootTypeState, h2), mkvs.Capacity(1, 1))
			got, _, err := kv.TreeContents(t3)
			t3.Close()
			if err != nil || !got.Equal(c) {
				return fmt.Sprintf("%s cap=%d/%d: after %s on %s the stored root reads back %s, expected %s (err=%v)", backend, capn[0], capn[1], o, c1, got, c, err), art
			}
			// write log replay from root1 reaches the same root
			t4 := mkvs.NewWithRoot(nil, ndb, root1, mkvs.Capacity(capn[0], capn[1]))
			if err := t4.ApplyWriteLog(kv.Ctx, writelog.NewStaticIterator(wl)); err != nil {
				return fmt.Sprintf("%s: write-log replay failed: %v", backend, err), art
			}
			h4, err := kv.RootOf(t4)
			t4.Close()
			if err != nil || h4 != h2 {
				return fmt.Sprintf("%s cap=%d/%d: write log of (%s -> %s) replayed gives root %s, expected %s", backend, capn[0], capn[1], c1, c, h4, h2), art
			}
			t2.Close()
		}
	}
	r.Add("transitions", trans)
	r.Add("states", int64(len(caps)*len(subOps)))
	return "", art
}

func replayC02(a c02Artefact) string {
	switch a.Mode {
	case "closure", "recommit":
		t, _ := buildSorted(a.Base, false)
		if a.Mode == "recommit" {
			_, _ = kv.RootOf(t)
		}
		c := a.Base.Clone()
		for _, o := range a.Ops {
			if err := applyOp(t, c, o); err != nil {
				return err.Error()
			}
		}
		h, _ := kv.RootOf(t)
		if hr := kv.CanonicalRoot(c); h != hr {
			return fmt.Sprintf("root %s != contents-only hash %s of %s", h, hr, c)
		}
		if a.Note == "shape" {
			ref, _ := buildSorted(c, false)
			t2, _ := buildSorted(a.Base, false)
			c2 := a.Base.Clone()
			for _, o := range a.Ops {
				_ = applyOp(t2, c2, o)
			}
			if kv.NormDump(t2) != kv.NormDump(ref) {
				return "in-memory shape differs from canonical shape"
			}
		}
	case "batchlog":
		t, _ := buildSorted(a.Base, false)
		_, _, _ = t.Commit(kv.Ctx, kv.Namespace, 1)
		c := a.Base.Clone()
		for _, o := range a.Ops {
			_ = applyOp(t, c, o)
		}
		wl, h, err := t.Commit(kv.Ctx, kv.Namespace, 2)
		if err != nil {
			return err.Error()
		}
		t2, _ := buildSorted(a.Base, false)
		_, _, _ = t2.Commit(kv.Ctx, kv.Namespace, 1)
		if err := t2.ApplyWriteLog(kv.Ctx, writelog.NewStaticIterator(wl)); err != nil {
			return err.Error()
		}
		h2, _ := kv.RootOf(t2)
		if hr := kv.CanonicalRoot(c); h != hr || h2 != hr {
			return fmt.Sprintf("batch root %s, replayed write log %v gives %s, contents-only hash %s of %s", h, wl, h2, hr, c)
		}
	case "pressure":
		return c02PressureCase(a.Backend, a.Capacity, a.Ops)
	case "backend":
		ev2 := ev.New("C02", "model_checking")
		ev2.NoWrite = true
		what, _ := c02BackendCase(a.Backend, a.Base, a.Ops, [][2]uint64{{a.Capacity, a.ValueCap}}, ev2)
		return what
	default:
		var t mkvs.Tree
		switch a.Mode {
		case "reverse-insert":
			t, _ = buildSorted(a.Contents, true)
		default:
			t, _ = buildSorted(a.Contents, false)
		}
		h, _ := kv.RootOf(t)
		if hr := kv.CanonicalRoot(a.Contents); h != hr {
			return fmt.Sprintf("root %s != contents-only hash %s of %s", h, hr, a.Contents)
		}
	}
	return ""
}

// ---- phase 5: cache pressure over several commits ------------------------------

var c02PressureBase = []byte{0x00, 0x20, 0x40, 0x50, 0x58, 0x60, 0x80, 0xa0, 0xc0, 0xe0}
var c02PressureKeys = []byte{0x00, 0x80, 0x5c, 0x58, 0x20}

// c02PressureRounds: round i < 5 reads and removes key i and commits; round 5+i inserts key i and commits.
func c02PressureOps(rounds []int) []op {
	var ops []op
	for _, rd := range rounds {
		k := []byte{c02PressureKeys[rd%5]}
		if rd < 5 {
			ops = append(ops, op{Op: "get", Key: k}, op{Op: "rem", Key: k}, op{Op: "commit"})
		} else {
			ops = append(ops, op{Op: "ins", Key: k, Val: []byte("n")}, op{Op: "commit"})
		}
	}
	return ops
}

func c02PressureCase(backend string, capacity uint64, ops []op) (what string) {
	defer func() {
		if p := recover(); p != nil {
			what = fmt.Sprintf("panic: %v", p)
		}
	}()
	ndb, err := kv.OpenDB(backend, "")
	if err != nil {
		return "harness: " + err.Error()
	}
	defer ndb.Close()
	c := kv.Contents{}
	base := mkvs.New(nil, ndb, node.RootTypeState)
	for _, k := range c02PressureBase {
		_ = base.Insert(kv.Ctx, []byte{k}, []byte("v"))
		c[string([]byte{k})] = []byte("v")
	}
	_, h, err := base.Commit(kv.Ctx, kv.Namespace, 1)
	base.Close()
	if err != nil {
		return "harness: " + err.Error()
	}
	root := kv.RootFor(1, node.RootTypeState, h)
	if err := ndb.Finalize([]node.Root{root}); err != nil {
		return "harness: " + err.Error()
	}
	t := mkvs.NewWithRoot(nil, ndb, root, mkvs.Capacity(capacity, 0))
	defer t.Close()
	version := uint64(1)
	for i, o := range ops {
		switch o.Op {
		case "get":
			v, err := t.Get(kv.Ctx, o.Key)
			if err != nil {
				return fmt.Sprintf("step %d %s failed: %v", i, o, err)
			}
			want, ok := c[string(o.Key)]
			if (v == nil) == ok || (ok && !bytes.Equal(v, want)) {
				return fmt.Sprintf("step %d get(%x) = %q, contents hold %q (present=%v)", i, o.Key, v, want, ok)
			}
		case "commit":
			version++
			_, h, err := t.Commit(kv.Ctx, kv.Namespace, version)
			if err != nil {
				return fmt.Sprintf("step %d commit failed: %v", i, err)
			}
			if hr := kv.CanonicalRoot(c); h != hr {
				return fmt.Sprintf("step %d: committed root %s differs from the contents-only hash %s of %s", i, h, hr, c)
			}
			if err := ndb.Finalize([]node.Root{kv.RootFor(version, node.RootTypeState, h)}); err != nil {
				return fmt.Sprintf("step %d finalize failed: %v", i, err)
			}
		default:
			if err := applyOp(t, c, o); err != nil {
				return fmt.Sprintf("step %d %s failed: %v", i, o, err)
			}
		}
	}
	for k, want := range c {
		v, err := t.Get(kv.Ctx, []byte(k))
		if err != nil || !bytes.Equal(v, want) {
			return fmt.Sprintf("final get(%x) = %q (err=%v), contents hold %q", k, v, err, want)
		}
	}
	return ""
}

func c02Pressure(r *ev.Run, violate func(string, string, c02Artefact)) {
	depth := 3
	if r.Thorough() {
		depth = 4
	}
	total := kv.Pow(10, depth)
	type cfg struct {
		be  string
		cap uint64
	}
	var cfgs []cfg
	for _, be := range kv.Backends {
		for _, cp := range []uint64{0, 6, 7, 8} {
			cfgs = append(cfgs, cfg{be, cp})
		}
	}
	ev.ParallelRange(total*len(cfgs), r.Seed, func(i int) {
		if r.Expired() {
			r.Cap("deadline")
			return
		}
		cf := cfgs[i%len(cfgs)]
		x := i / len(cfgs)
		rounds := make([]int, depth)
		for d := 0; d < depth; d++ {
			rounds[d] = x % 10
			x /= 10
		}
		ops := c02PressureOps(rounds)
		what := c02PressureCase(cf.be, cf.cap, ops)
		r.Add("transitions", int64(len(ops)))
		r.Add("states", 1)
		r.Add("pressure_sequences", 1)
		if what == "" {
			return
		}
		if strings.HasPrefix(what, "harness:") {
			r.HarnessError("%s", what)
			return
		}
		tag := ""
		var ks [][]byte
		for _, k := range c02PressureBase {
			ks = append(ks, []byte{k})
		}
		for _, o := range ops {
			if o.Op == "ins" {
				ks = append(ks, o.Key)
			}
		}
		if cf.cap > 0 && cf.cap <= uint64(triePathNodes(ks)) {
			tag = " nodecap<=path" // known root cause, see known_findings.jsonl
		}
		violate(fmt.Sprintf("c02 pressure %s cap=%d %v%s", cf.be, cf.cap, rounds, tag), fmt.Sprintf("%s, 10-key tree reopened with a node cache of %d, rounds %v (%v): %s", cf.be, cf.cap, rounds, ops, what), c02Artefact{Mode: "pressure", Backend: cf.be, Capacity: cf.cap, Ops: ops})
	})
}

// triePathNodes is the number of internal nodes on the longest path of the tree holding the given keys
// (a compressed binary trie: an internal node per branching point, a key that ends at the branching point
// is the node's own leaf).
func triePathNodes(keys [][]byte) int {
	uniq := map[string]bool{}
	var ks [][]byte
	for _, k := range keys {
		if !uniq[string(k)] {
			uniq[string(k)] = true
			ks = append(ks, k)
		}
	}
	bit := func(k []byte, i int) bool { return k[i/8]&(0x80>>uint(i%8)) != 0 }
	var rec func(ks [][]byte, from int) int
	rec = func(ks [][]byte, from int) int {
		if len(ks) <= 1 {
			return 0
		}
		// common prefix length in bits
		l := from
		for {
			stop := false
			for _, k := range ks {
				if len(k)*8 <= l {
					stop = true
				}
			}
			if stop {
				break
			}
			b0 := bit(ks[0], l)
			for _, k := range ks[1:] {
				if bit(k, l) != b0 {
					stop = true
				}
			}
			if stop {
				break
			}
			l++
		}
		var left, right [][]byte
		for _, k := range ks {
			if len(k)*8 <= l {
				continue // the node's own leaf
			}
			if bit(k, l) {
				right = append(right, k)
			} else {
				left = append(left, k)
			}
		}
		a, b := rec(left, l+1), rec(right, l+1)
		if b > a {
			a = b
		}
		return 1 + a
	}
	return rec(ks, 0)
}
