// kvmc decides the MKVS properties C02, C03, C04, C12, C13 by exhaustive
// enumeration over an adversarial key alphabet on the real tree, overlays,
// proofs, checkpoints and write logs.
package main

import (
	"fmt"
	"os"

	"verif/harness/internal/ev"
)

func main() {
	if len(os.Args) < 2 {
		fmt.Println("usage: kvmc <C02|C03|C04|C12|C13> [--tier t] [--replay f]")
		os.Exit(2)
	}
	switch os.Args[1] {
	case "C02":
		runC02(ev.Parse("model_checking"))
	case "C03":
		runC03(ev.Parse("model_checking"))
	case "C04":
		runC04(ev.Parse("model_checking"))
	case "C12":
		if ph := os.Getenv("VERIF_PHASE"); ph == "conc" || ph == "race" {
			runC12Conc(ev.Parse("model_checking"))
		}
		runC12(ev.Parse("model_checking"))
	case "C13":
		runC13(ev.Parse("model_checking"))
	default:
		fmt.Println("kvmc: unknown property", os.Args[1])
		os.Exit(2)
	}
}
