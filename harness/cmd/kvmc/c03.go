package main

import (
	"bytes"
	"encoding/json"
	"fmt"
	"os"
	"strings"

	"github.com/oasisprotocol/oasis-core/go/storage/mkvs"
	dbapi "github.com/oasisprotocol/oasis-core/go/storage/mkvs/db/api"
	"github.com/oasisprotocol/oasis-core/go/storage/mkvs/node"

	"verif/harness/internal/ev"
	"verif/harness/internal/kv"
)

// C03: the tree and any stack of overlays behave as an ordered map.

var c03Keys = [][]byte{{0x01}, {0x01, 0x00}, {0x01, 0x80}, {0x80}, {}}

// seek positions: every key plus keys between / before / after, including one
// longer than a prefix key that sorts before it and shares its leading bits.
var c03Seeks = [][]byte{{}, {0x00}, {0x00, 0xff}, {0x01}, {0x01, 0x00}, {0x01, 0x00, 0x00}, {0x01, 0x7f}, {0x01, 0x80}, {0x01, 0xff}, {0x02}, {0x7f, 0xff, 0xff}, {0x80}, {0x80, 0x00}, {0xff}}

type l3 struct {
	Op  string `json:"op"` // ins rem remex get seek commit reopen push popc popd
	Key []byte `json:"key,omitempty"`
	Val []byte `json:"val,omitempty"`
}

func (l l3) String() string {
	switch l.Op {
	case "ins":
		return fmt.Sprintf("ins(%x,%q)", l.Key, l.Val)
	case "rem", "remex", "get", "seek":
		return fmt.Sprintf("%s(%x)", l.Op, l.Key)
	}
	return l.Op
}

func c03Alphabet(nkeys int) []l3 {
	var ls []l3
	keys := c03Keys[:nkeys]
	for _, k := range keys {
		ls = append(ls, l3{Op: "ins", Key: k, Val: []byte("a")})
	}
	for _, k := range keys {
		ls = append(ls, l3{Op: "rem", Key: k})
	}
	for _, k := range keys {
		ls = append(ls, l3{Op: "get", Key: k})
	}
	ls = append(ls, l3{Op: "commit"}, l3{Op: "push"}, l3{Op: "popc"}, l3{Op: "popd"}, l3{Op: "reopen"}, l3{Op: "copy"}, l3{Op: "swap"})
	for _, k := range keys {
		ls = append(ls, l3{Op: "ins", Key: k, Val: []byte{}})
	}
	for _, k := range keys[:3] {
		ls = append(ls, l3{Op: "remex", Key: k})
	}
	for _, k := range [][]byte{{0x00, 0xff}, {0x01, 0x00}, {0x80}} {
		ls = append(ls, l3{Op: "seek", Key: k})
	}
	return ls
}

type c03cfg struct {
	Backend string      `json:"backend"`
	Init    kv.Contents `json:"init"`
	NodeCap uint64      `json:"node_cap"`
	ValCap  uint64      `json:"val_cap"`
	Observe bool        `json:"observe_every_step"`
}

func (c c03cfg) String() string {
	return fmt.Sprintf("%s init=%s cap=%d/%d obs=%v", c.Backend, c.Init, c.NodeCap, c.ValCap, c.Observe)
}

type c03exec struct {
	cfg       c03cfg
	ndb       dbapi.NodeDB
	tree      mkvs.Tree
	root      node.Root
	version   uint64
	committed kv.Contents
	base      kv.Contents // pending contents of the base tree
	stack     []mkvs.OverlayTree
	ref       []kv.Contents // ref[i] = contents as seen through stack[i]
	obs       strings.Builder
	// copyT is an OverlayTree.Copy of the top overlay over the same inner tree; while copyOn is set the
	// letters operate on the copy.  The two must behave as independent ordered maps.
	copyT   mkvs.OverlayTree
	copyRef kv.Contents
	copyOn  bool
}

func (e *exec3) dropCopy() {
	if e.copyT != nil {
		e.copyT.Close()
	}
	e.copyT, e.copyRef, e.copyOn = nil, nil, false
}

func (e *exec3) top() mkvs.KeyValueTree {
	if e.copyT != nil && e.copyOn {
		return e.copyT
	}
	if len(e.stack) > 0 {
		return e.stack[len(e.stack)-1]
	}
	return e.tree
}

type exec3 = c03exec

func (e *exec3) topRef() kv.Contents {
	if e.copyT != nil && e.copyOn {
		return e.copyRef
	}
	if len(e.ref) > 0 {
		return e.ref[len(e.ref)-1]
	}
	return e.base
}

func valEq(got []byte, want []byte, present bool) bool {
	if !present {
		return got == nil
	}
	return got != nil && bytes.Equal(got, want)
}

// sortedFrom returns the reference scan starting at seek.
func sortedFrom(c kv.Contents, seek []byte) []string {
	var out []string
	for _, k := range c.SortedKeys() {
		if bytes.Compare([]byte(k), seek) >= 0 {
			out = append(out, k)
		}
	}
	return out
}

func scan(t mkvs.ImmutableKeyValueTree, seek []byte, rewind bool, limit int) ([]string, []string, error) {
	it := t.NewIterator(kv.Ctx)
	defer it.Close()
	if rewind {
		it.Rewind()
	} else {
		it.Seek(seek)
	}
	var ks, vs []string
	for n := 0; it.Valid() && n < limit; n++ {
		ks = append(ks, string(it.Key()))
		v := it.Value()
		if v == nil {
			vs = append(vs, "<nil>")
		} else {
			vs = append(vs, string(v))
		}
		it.Next()
	}
	return ks, vs, it.Err()
}

func checkScan(t mkvs.ImmutableKeyValueTree, ref kv.Contents, seek []byte, rewind bool, limit int) string {
	ks, vs, err := scan(t, seek, rewind, limit)
	if err != nil {
		return fmt.Sprintf("iteration from %x failed: %v", seek, err)
	}
	want := sortedFrom(ref, seek)
	if rewind {
		want = ref.SortedKeys()
	}
	if len(want) > limit {
		want = want[:limit]
	}
	if len(ks) != len(want) {
		return fmt.Sprintf("iteration from %x (rewind=%v) yields keys %x, reference %x", seek, rewind, ks, want)
	}
	for i := range ks {
		if ks[i] != want[i] || vs[i] != string(ref[want[i]]) {
			return fmt.Sprintf("iteration from %x (rewind=%v) yields %x=%q at position %d, reference %x=%q (all keys %x)", seek, rewind, ks[i], vs[i], i, want[i], ref[want[i]], ks)
		}
	}
	return ""
}

// observe compares every get and every scan with the reference.
func (e *exec3) observe(t mkvs.KeyValueTree, ref kv.Contents) string {
	for _, k := range c03Keys {
		got, err := t.Get(kv.Ctx, k)
		if err != nil {
			return fmt.Sprintf("get(%x) failed: %v", k, err)
		}
		want, present := ref[string(k)]
		if !valEq(got, want, present) {
			return fmt.Sprintf("get(%x) = %q (nil=%v), reference %q (present=%v)", k, got, got == nil, want, present)
		}
	}
	if r := checkScan(t, ref, nil, true, 100); r != "" {
		return r
	}
	for _, s := range c03Seeks {
		if r := checkScan(t, ref, s, false, 100); r != "" {
			return r
		}
	}
	return ""
}

func newExec3(cfg c03cfg, ndb dbapi.NodeDB, root node.Root, version uint64) *exec3 {
	e := &exec3{cfg: cfg, ndb: ndb, root: root, version: version, committed: cfg.Init.Clone(), base: cfg.Init.Clone()}
	e.tree = mkvs.NewWithRoot(nil, ndb, root, mkvs.Capacity(cfg.NodeCap, cfg.ValCap))
	return e
}

func (e *exec3) close() {
	e.dropCopy()
	for i := len(e.stack) - 1; i >= 0; i-- {
		e.stack[i].Close()
	}
	e.tree.Close()
}

func (e *exec3) step(l l3) (res string) {
	defer func() {
		if p := recover(); p != nil {
			res = fmt.Sprintf("panic in %s: %v", l, p)
		}
	}()
	switch l.Op {
	case "commit", "reopen", "push", "popc", "popd":
		// the copy lives only as long as the overlay it was taken from stays the top and uncommitted
		e.dropCopy()
	}
	t := e.top()
	ref := e.topRef()
	switch l.Op {
	case "copy":
		if len(e.stack) == 0 || e.copyT != nil {
			return ""
		}
		e.copyT = e.stack[len(e.stack)-1].Copy(nil)
		e.copyRef = e.ref[len(e.ref)-1].Clone()
	case "swap":
		if e.copyT == nil {
			return ""
		}
		e.copyOn = !e.copyOn
	case "ins":
		if err := t.Insert(kv.Ctx, l.Key, l.Val); err != nil {
			return fmt.Sprintf("%s failed: %v", l, err)
		}
		ref[string(l.Key)] = l.Val
	case "rem":
		if err := t.Remove(kv.Ctx, l.Key); err != nil {
			return fmt.Sprintf("%s failed: %v", l, err)
		}
		delete(ref, string(l.Key))
	case "remex":
		got, err := t.RemoveExisting(kv.Ctx, l.Key)
		if err != nil {
			return fmt.Sprintf("%s failed: %v", l, err)
		}
		want, present := ref[string(l.Key)]
		if !valEq(got, want, present) {
			return fmt.Sprintf("%s returned %q (nil=%v), reference previous value %q (present=%v)", l, got, got == nil, want, present)
		}
		delete(ref, string(l.Key))
	case "get":
		got, err := t.Get(kv.Ctx, l.Key)
		if err != nil {
			return fmt.Sprintf("%s failed: %v", l, err)
		}
		want, present := ref[string(l.Key)]
		if !valEq(got, want, present) {
			return fmt.Sprintf("%s = %q (nil=%v), reference %q (present=%v)", l, got, got == nil, want, present)
		}
	case "seek":
		if r := checkScan(t, ref, l.Key, false, 2); r != "" {
			return l.String() + ": " + r
		}
	case "commit":
		e.version++
		_, h, err := e.tree.Commit(kv.Ctx, kv.Namespace, e.version)
		if err != nil {
			return fmt.Sprintf("tree commit failed: %v", err)
		}
		e.root = kv.RootFor(e.version, node.RootTypeState, h)
		e.committed = e.base.Clone()
		if e.cfg.Backend == "pathbadger" {
			if err := e.ndb.Finalize([]node.Root{e.root}); err != nil {
				return fmt.Sprintf("finalize failed: %v", err)
			}
		}
	case "reopen":
		for i := len(e.stack) - 1; i >= 0; i-- {
			e.stack[i].Close()
		}
		e.stack, e.ref = nil, nil
		e.tree.Close()
		e.tree = mkvs.NewWithRoot(nil, e.ndb, e.root, mkvs.Capacity(e.cfg.NodeCap, e.cfg.ValCap))
		e.base = e.committed.Clone()
	case "push":
		if len(e.stack) >= 3 {
			return ""
		}
		e.stack = append(e.stack, mkvs.NewOverlay(t))
		e.ref = append(e.ref, ref.Clone())
	case "popc":
		if len(e.stack) == 0 {
			return ""
		}
		if _, err := e.stack[len(e.stack)-1].Commit(kv.Ctx); err != nil {
			return fmt.Sprintf("overlay commit failed: %v", err)
		}
		e.stack[len(e.stack)-1].Close()
		top := e.ref[len(e.ref)-1]
		e.stack, e.ref = e.stack[:len(e.stack)-1], e.ref[:len(e.ref)-1]
		if len(e.ref) > 0 {
			e.ref[len(e.ref)-1] = top
		} else {
			e.base = top
		}
	case "popd":
		if len(e.stack) == 0 {
			return ""
		}
		e.stack[len(e.stack)-1].Close()
		e.stack, e.ref = e.stack[:len(e.stack)-1], e.ref[:len(e.ref)-1]
	}
	if e.cfg.Observe {
		if r := e.observe(e.top(), e.topRef()); r != "" {
			return fmt.Sprintf("after %s: %s", l, r)
		}
		if r := e.observeOther(); r != "" {
			return fmt.Sprintf("after %s: %s", l, r)
		}
	}
	return ""
}

// observeOther observes the member of the (overlay, copy) pair that the letters do not operate on.
func (e *exec3) observeOther() string {
	if e.copyT == nil {
		return ""
	}
	if e.copyOn {
		if r := e.observe(e.stack[len(e.stack)-1], e.ref[len(e.ref)-1]); r != "" {
			return "overlay whose copy was written to: " + r
		}
		return ""
	}
	if r := e.observe(e.copyT, e.copyRef); r != "" {
		return "copy of the overlay that was written to: " + r
	}
	return ""
}

// finish: observe the top, then commit all overlays down, observe the base
// tree, commit it, reopen with a fresh tree and observe again.
func (e *exec3) finish() (res string) {
	defer func() {
		if p := recover(); p != nil {
			res = fmt.Sprintf("panic in closing observation: %v", p)
		}
	}()
	if r := e.observe(e.top(), e.topRef()); r != "" {
		return "final: " + r
	}
	if r := e.observeOther(); r != "" {
		return "final: " + r
	}
	if e.copyT != nil && e.copyOn {
		// commit the copy instead of the original: its writes must reach the inner tree as the reference says
		if _, err := e.copyT.Commit(kv.Ctx); err != nil {
			return fmt.Sprintf("commit of the overlay copy failed: %v", err)
		}
		top := e.copyRef
		e.dropCopy()
		e.stack[len(e.stack)-1].Close()
		e.stack, e.ref = e.stack[:len(e.stack)-1], e.ref[:len(e.ref)-1]
		if len(e.ref) > 0 {
			e.ref[len(e.ref)-1] = top
		} else {
			e.base = top
		}
		if r := e.observe(e.top(), e.topRef()); r != "" {
			return "after committing the overlay copy: " + r
		}
	}
	for len(e.stack) > 0 {
		if r := e.step(l3{Op: "popc"}); r != "" {
			return r
		}
	}
	if r := e.observe(e.tree, e.base); r != "" {
		return "after committing all overlays: " + r
	}
	if r := e.step(l3{Op: "commit"}); r != "" {
		return r
	}
	if hr := kv.CanonicalRoot(e.base); hr != e.root.Hash {
		return fmt.Sprintf("committed root %s differs from contents-only hash %s of %s", e.root.Hash, hr, e.base)
	}
	if r := e.step(l3{Op: "reopen"}); r != "" {
		return r
	}
	if r := e.observe(e.tree, e.base); r != "" {
		return "after commit and reopen: " + r
	}
	return ""
}

type c03Artefact struct {
	Config  c03cfg `json:"config"`
	Letters []l3   `json:"letters"`
}

// c03Prepare commits cfg.Init as version 1 of a fresh database.
func c03Prepare(cfg c03cfg) (dbapi.NodeDB, node.Root, error) {
	ndb, err := kv.OpenDB(cfg.Backend, "")
	if err != nil {
		return nil, node.Root{}, err
	}
	t := mkvs.New(nil, ndb, node.RootTypeState)
	for _, k := range cfg.Init.SortedKeys() {
		_ = t.Insert(kv.Ctx, []byte(k), cfg.Init[k])
	}
	_, h, err := t.Commit(kv.Ctx, kv.Namespace, 1)
	t.Close()
	if err != nil {
		ndb.Close()
		return nil, node.Root{}, err
	}
	root := kv.RootFor(1, node.RootTypeState, h)
	if err := ndb.Finalize([]node.Root{root}); err != nil {
		ndb.Close()
		return nil, node.Root{}, err
	}
	return ndb, root, nil
}

func c03Run(cfg c03cfg, ndb dbapi.NodeDB, root node.Root, version *uint64, seq []l3) string {
	if cfg.Backend == "pathbadger" {
		// pathbadger keys nodes by path: a root may only be derived from a
		// finalized parent, so every execution gets its own database and
		// finalizes each commit (as the ABCI state does).
		var err error
		if ndb, root, err = c03Prepare(cfg); err != nil {
			return ""
		}
		defer ndb.Close()
	}
	e := newExec3(cfg, ndb, root, 1)
	defer func() {
		defer func() { _ = recover() }()
		e.close()
	}()
	for i, l := range seq {
		if r := e.step(l); r != "" {
			return fmt.Sprintf("step %d: %s", i, r)
		}
	}
	return e.finish()
}

func runC03(r *ev.Run) {
	if r.Replay != "" {
		v, err := ev.LoadReplay(r.Replay)
		if err != nil {
			fmt.Println("cannot load replay:", err)
			os.Exit(2)
		}
		b, _ := json.Marshal(v.Artefact)
		var a c03Artefact
		_ = json.Unmarshal(b, &a)
		if _, deep := a.Config.Init["\x20"]; deep {
			c03Keys = c03DeepKeys
		}
		ndb, root, err := c03Prepare(a.Config)
		if err != nil {
			fmt.Println("prepare failed:", err)
			os.Exit(2)
		}
		ver := uint64(1)
		if what := c03Run(a.Config, ndb, root, &ver, a.Letters); what != "" {
			fmt.Printf("VIOLATION property=C03 replay=%s\n  what: %s\n", r.Replay, what)
			os.Exit(1)
		}
		fmt.Println("replay: property held")
		os.Exit(0)
	}
	depth := 3
	nkeys := 4
	if r.Thorough() {
		depth = 4
	}
	if d := os.Getenv("VERIF_KV_DEPTH"); d != "" {
		fmt.Sscan(d, &depth)
	}
	alpha := c03Alphabet(nkeys)
	_ = len(alpha)
	leaf := func(k, v string) uint64 { return (&node.LeafNode{Key: []byte(k), Value: []byte(v)}).Size() }
	l1 := leaf("\x01\x00", "a")
	inits := []kv.Contents{
		{"\x01": []byte("a"), "\x01\x00": []byte("a"), "\x01\x80": []byte("a")},
		{},
		{"\x01": []byte("a"), "\x01\x00": []byte("a"), "\x01\x80": []byte("a"), "\x80": []byte("a"), "": []byte("a")},
		{"\x01\x00": []byte("a"), "\x80": []byte{}},
	}
	caps := [][2]uint64{{0, 0}, {2, 0}, {0, 2 * l1}, {0, l1}, {3, 3 * l1}, {1, 0}}
	var cfgs []c03cfg
	for _, init := range inits {
		for _, c := range caps {
			for _, obs := range []bool{false, true} {
				cfgs = append(cfgs, c03cfg{Backend: "badger", Init: init, NodeCap: c[0], ValCap: c[1], Observe: obs})
			}
		}
	}
	// pathbadger on the first two initial states, two cache settings.
	for _, init := range inits[:2] {
		for _, c := range [][2]uint64{{0, 0}, {2, 2 * l1}} {
			cfgs = append(cfgs, c03cfg{Backend: "pathbadger", Init: init, NodeCap: c[0], ValCap: c[1], Observe: false})
		}
	}
	type shard struct {
		cfg c03cfg
		l0  int
	}
	deepTag := ""
	pass := func(cfgs []c03cfg, alpha []l3, label string, depth int, pathLen uint64) {
		n := len(alpha)
		var shards []shard
		for _, c := range cfgs {
			for i := 0; i < n; i++ {
				shards = append(shards, shard{c, i})
			}
		}
		var names []string
		for _, l := range alpha {
			names = append(names, l.String())
		}
		r.Set(label+"alphabet", names)
		r.Set(label+"letters", n)
		r.Set(label+"depth", depth)
		r.Set(label+"configs", len(cfgs))
		ev.ParallelRange(len(shards), r.Seed, func(si int) {
			sh := shards[si]
			if r.Expired() {
				r.Cap("deadline")
				return
			}
			ndb, root, err := c03Prepare(sh.cfg)
			if err != nil {
				r.HarnessError("prepare %s: %v", sh.cfg, err)
				return
			}
			version := uint64(1)
			count := 0
			depth := depth
			if sh.cfg.Backend == "pathbadger" {
				depth--
			}
			idx := make([]int, depth)
			idx[0] = sh.l0
			seq := make([]l3, depth)
			var execs int64
			outcomes := map[string]struct{}{}
			for {
				for k := range idx {
					seq[k] = alpha[idx[k]]
				}
				what := c03Run(sh.cfg, ndb, root, &version, seq)
				execs++
				count++
				if what != "" {
					best := append([]l3(nil), seq...)
					for k := 1; k < depth; k++ {
						if w := c03Run(sh.cfg, ndb, root, &version, seq[:k]); w != "" {
							best, what = append([]l3(nil), seq[:k]...), w
							break
						}
					}
					var nm []string
					for _, l := range best {
						nm = append(nm, l.String())
					}
					tag := ""
					if sh.cfg.ValCap > 0 {
						tag = " valcap-limited"
					}
					if deepTag != "" && sh.cfg.NodeCap > 0 && sh.cfg.NodeCap <= pathLen {
						tag += deepTag
					}
					key := fmt.Sprintf("c03 %s cap=%d/%d%s %s [%s]", sh.cfg.Backend, sh.cfg.NodeCap, sh.cfg.ValCap, tag, sh.cfg.Init, strings.Join(nm, " "))
					r.Violate(ev.Violation{Engine: "kvmc", Key: key, What: fmt.Sprintf("%s history=[%s]: %s", sh.cfg, strings.Join(nm, " "), what), Artefact: c03Artefact{Config: sh.cfg, Letters: best}})
				}
				if len(outcomes) < 256 {
					outcomes[what] = struct{}{}
				}
				// Keep the shared database small: start a new one periodically.
				if count >= 3000 {
					ndb.Close()
					ndb, root, err = c03Prepare(sh.cfg)
					if err != nil {
						r.HarnessError("prepare %s: %v", sh.cfg, err)
						return
					}
					version, count = 1, 0
				}
				k := depth - 1
				for k >= 1 {
					idx[k]++
					if idx[k] < n {
						break
					}
					idx[k] = 0
					k--
				}
				if k < 1 {
					break
				}
			}
			ndb.Close()
			r.Add("states", execs)
			r.Add("transitions", execs*int64(depth+4))
			if si%37 == 0 {
				var nm []string
				for _, l := range seq {
					nm = append(nm, l.String())
				}
				r.Sample(map[string]any{"config": sh.cfg.String(), "history": nm}, 5)
			}
		})
	}
	pass(cfgs, alpha, "", depth, 0)
	// Second universe: a balanced 8-key tree whose paths hold three internal nodes (four once key 10
	// is inserted) with node caches around that size: eviction of nodes that are in use.
	c03Keys = c03DeepKeys
	deepTag = " nodecap<=path"
	var deepCfgs []c03cfg
	dcaps := []uint64{2, 3, 5}
	if r.Thorough() {
		dcaps = []uint64{2, 3, 4, 5, 6}
	}
	for _, nc := range dcaps {
		deepCfgs = append(deepCfgs, c03cfg{Backend: "badger", Init: c03DeepInit(), NodeCap: nc})
	}
	deepCfgs = append(deepCfgs, c03cfg{Backend: "pathbadger", Init: c03DeepInit(), NodeCap: 5})
	pass(deepCfgs, c03Alphabet(nkeys), "deep_", depth, c03DeepPath)
	// Third universe: long sequences (cache pressure builds up over many operations) over a small
	// alphabet on the same tree, node capacities just above the path length (3 internal nodes; key 10
	// is not used here): these must hold.
	long := []l3{{Op: "get", Key: []byte{0x00}}, {Op: "get", Key: []byte{0x80}}, {Op: "get", Key: []byte{0xc0}}, {Op: "ins", Key: []byte{0xc0}, Val: []byte("b")}, {Op: "rem", Key: []byte{0x20}}, {Op: "get", Key: []byte{0x20}}}
	longDepth := 7
	if r.Thorough() {
		longDepth = 8
	}
	var longCfgs []c03cfg
	for _, nc := range []uint64{4, 5} {
		longCfgs = append(longCfgs, c03cfg{Backend: "badger", Init: c03DeepInit(), NodeCap: nc})
	}
	pass(longCfgs, long, "long_", longDepth, 3)
	r.Set("long_depth", longDepth)
	r.Alias("traces_validated_against_impl", "states")
	r.Set("rule", "every letter sequence of length depth, per configuration (backend, initial committed contents, node/value cache capacity, observe-every-step or at end); each execution runs on a fresh tree opened at the committed root; closing observation = all gets, full scan, scans from 14 seek positions, on the top of the stack, after committing all overlays, and after tree commit + reopen; second universe (deep_*): a balanced 8-key tree {00,20,..,e0} with operation keys 00, 20, c0, 10 and node-cache capacities 2, 3, 5 (thorough 2..6) around the path length; third universe (long_*): every sequence of 7 (thorough 8) letters over {get 00, get 80, get c0, ins c0, rem 20, get 20} on that tree with node capacities 4 and 5 (just above the path length)")
	r.Assume("modifying a tree while one of its iterators is live is excluded (unspecified by the API)", "values are non-nil byte strings (empty or not)", "keys limited to the 5-key alphabet; seek positions to 14 probes")
	r.Finish()
}

// Deep universe of C03: see runC03.
var c03DeepKeys = [][]byte{{0x00}, {0x20}, {0xc0}, {0x10}, {0xe0}}

// c03DeepPath is the number of internal nodes on the longest path once key 10 is present.
const c03DeepPath = 4

func c03DeepInit() kv.Contents {
	c := kv.Contents{}
	for _, b := range []byte{0x00, 0x20, 0x40, 0x60, 0x80, 0xa0, 0xc0, 0xe0} {
		c[string([]byte{b})] = []byte("a")
	}
	return c
}
