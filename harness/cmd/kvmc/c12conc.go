package main

import (
	"bytes"
	"errors"
	"fmt"
	"os"
	"strings"
	"sync"
	"time"

	"github.com/oasisprotocol/oasis-core/go/common/crypto/hash"
	"github.com/oasisprotocol/oasis-core/go/storage/mkvs"
	"github.com/oasisprotocol/oasis-core/go/storage/mkvs/checkpoint"
	dbapi "github.com/oasisprotocol/oasis-core/go/storage/mkvs/db/api"
	"github.com/oasisprotocol/oasis-core/go/storage/mkvs/node"
	"github.com/oasisprotocol/oasis-core/go/verifshim/sched"

	"verif/harness/internal/conc"
	"verif/harness/internal/ev"
	"verif/harness/internal/kv"
)

// C12, concurrency phase: "restoring its chunks ... from concurrent callers and
// with retries".  The production driver (worker/storage/committee
// checkpoint_sync.go) runs several fetcher goroutines which call RestoreChunk
// for different chunks at the same time and re-dispatch a chunk whose bytes
// were corrupted.  Every interleaving (preemption bounded) of such callers at
// the restorer's and the node database's locks and at every database read and
// durable write is executed on the real restorer and backends.

type c12call struct {
	Chunk   int  `json:"chunk"`
	Corrupt bool `json:"corrupt,omitempty"` // send a corrupted copy (must be rejected, restore continues)
	// BadProof: send a chunk whose digest matches the manifest (which the
	// adversarial provider also supplied) but whose proof does not verify: the
	// restorer must abort the whole restore.
	BadProof bool `json:"bad_proof,omitempty"`
}

type c12concCfg struct {
	Tree    string
	Backend string
	Chunks  int
	Threads [][]c12call
	Name    string
}

func c12concTrees() []c12tree {
	return []c12tree{
		{Name: "two-leaves", Contents: kv.Contents{"\x00": []byte("a"), "\x80": []byte("b")}},
		{Name: "prefix-keys", Contents: kv.Contents{"": []byte("e"), "\x00": []byte("a"), "\x00\x00": []byte("b"), "\x80": []byte("c")}},
	}
}

// c12concCheckpoint finds a chunk size giving exactly n chunks.
func c12concCheckpoint(src *c12Source, n int) *c12cp {
	for cs := uint64(1); cs < 600; cs++ {
		cp, err := src.create(cs, 1)
		if err == nil && len(cp.chunks) == n {
			return cp
		}
	}
	return nil
}

func c12concScenarios(r *ev.Run, dir string) []conc.Scenario {
	var scs []conc.Scenario
	bound := 2
	if r.Thorough() {
		bound = 3
	}
	type plan struct {
		name    string
		n       int
		threads [][]c12call
		bound   int
	}
	g := func(i int) c12call { return c12call{Chunk: i} }
	bad := func(i int) c12call { return c12call{Chunk: i, Corrupt: true} }
	forged := func(i int) c12call { return c12call{Chunk: i, BadProof: true} }
	plans := []plan{
		{"2chunks/t0[0] t1[1]", 2, [][]c12call{{g(0)}, {g(1)}}, bound},
		{"3chunks/t0[0,1] t1[2]", 3, [][]c12call{{g(0), g(1)}, {g(2)}}, bound},
		{"3chunks/t0[2,0] t1[1]", 3, [][]c12call{{g(2), g(0)}, {g(1)}}, bound},
		{"3chunks/t0[0] t1[1] t2[2]", 3, [][]c12call{{g(0)}, {g(1)}, {g(2)}}, bound},
		{"2chunks/retry t0[bad0,0] t1[1]", 2, [][]c12call{{bad(0), g(0)}, {g(1)}}, bound},
		{"3chunks/retry t0[0] t1[bad1,1,2]", 3, [][]c12call{{g(0)}, {bad(1), g(1), g(2)}}, bound},
		// a chunk with a matching digest but a failing proof aborts the restore while another chunk is in flight
		{"2chunks/forged t0[forged0] t1[1]", 2, [][]c12call{{forged(0)}, {g(1)}}, bound},
		{"3chunks/forged t0[0,forged2] t1[1]", 3, [][]c12call{{g(0), forged(2)}, {g(1)}}, bound},
		// the same chunk sent by two callers at once (a duplicate in flight); the caller that is told
		// "done" finalizes at once, as a driver that does not wait for stragglers would
		{"2chunks/dup t0[0,1] t1[1]", 2, [][]c12call{{g(0), g(1)}, {g(1)}}, bound},
		{"2chunks/dup t0[1,0] t1[0]", 2, [][]c12call{{g(1), g(0)}, {g(0)}}, bound},
	}
	if r.Thorough() {
		plans = append(plans,
			plan{"3chunks/t0[1,2] t1[0]", 3, [][]c12call{{g(1), g(2)}, {g(0)}}, bound},
			plan{"4chunks/t0[0,3] t1[1,2]", 4, [][]c12call{{g(0), g(3)}, {g(1), g(2)}}, bound},
			plan{"4chunks/t0[0] t1[1] t2[2,3]", 4, [][]c12call{{g(0)}, {g(1)}, {g(2), g(3)}}, 2},
		)
	}
	for _, tr := range c12concTrees() {
		src, err := c12MakeSource(tr.Contents, dir)
		if err != nil {
			r.HarnessError("source: %v", err)
			continue
		}
		cps := map[int]*c12cp{}
		for _, n := range []int{2, 3, 4} {
			cps[n] = c12concCheckpoint(src, n)
		}
		src.ndb.Close()
		for _, p := range plans {
			cp := cps[p.n]
			if cp == nil {
				continue
			}
			for _, be := range kv.Backends {
				tr, p, cp, be := tr, p, cp, be
				scs = append(scs, conc.Scenario{
					Name:  fmt.Sprintf("c12 %s %s %s", tr.Name, be, p.name),
					Bound: p.bound,
					New:   func() (*conc.Instance, error) { return c12concInstance(tr, be, cp, p.threads) },
				})
			}
		}
	}
	// "restart": a chunk of checkpoint A is still being imported while the driver gives up on A (abort) and
	// starts restoring checkpoint B of the same version; B must restore completely and exactly
	trees := c12concTrees()
	srcA, errA := c12MakeSourceTyped(trees[0].Contents, dir, node.RootTypeIO) // the version's IO root first (as the sync worker does), then its state root
	srcB, errB := c12MakeSource(trees[1].Contents, dir)
	if errA == nil && errB == nil {
		for _, n := range []int{2, 3} {
			cpA, cpB := c12concCheckpoint(srcA, 2), c12concCheckpoint(srcB, n)
			if cpA == nil || cpB == nil {
				continue
			}
			for _, be := range kv.Backends {
				for stale := 0; stale < 2; stale++ {
					be, cpA, cpB, stale, n := be, cpA, cpB, stale, n
					scs = append(scs, conc.Scenario{
						Name:  fmt.Sprintf("c12 restart %s: chunk %d of an aborted restore of the IO root in flight, then a %d-chunk restore of the state root", be, stale, n),
						Bound: bound,
						New:   func() (*conc.Instance, error) { return c12restartInstance(trees[1], be, cpA, cpB, stale) },
					})
				}
			}
		}
	}
	if errA == nil {
		srcA.ndb.Close()
	}
	if errB == nil {
		srcB.ndb.Close()
	}
	return scs
}

func c12restartInstance(trB c12tree, backend string, cpA, cpB *c12cp, stale int) (*conc.Instance, error) {
	ndb, err := kv.OpenDB(backend, "")
	if err != nil {
		return nil, err
	}
	rs, _ := checkpoint.NewRestorer(ndb)
	if err := ndb.StartMultipartInsert(cpA.meta.Root.Version); err != nil {
		ndb.Close()
		return nil, err
	}
	if err := rs.StartRestore(kv.Ctx, cpA.meta); err != nil {
		ndb.Close()
		return nil, err
	}
	var mu sync.Mutex
	var problems []string
	note := func(f string, a ...any) {
		mu.Lock()
		problems = append(problems, fmt.Sprintf(f, a...))
		mu.Unlock()
	}
	staleDone := false
	var bDone []bool
	inst := &conc.Instance{Close: func() { ndb.Close() }}
	inst.Bodies = append(inst.Bodies, func() {
		done, _ := rs.RestoreChunk(kv.Ctx, uint64(stale), bytes.NewReader(cpA.chunks[stale]))
		mu.Lock()
		staleDone = done
		mu.Unlock()
	}, func() {
		_ = rs.AbortRestore(kv.Ctx)
		if err := ndb.AbortMultipartInsert(); err != nil {
			note("AbortMultipartInsert failed: %v", err)
			return
		}
		if err := ndb.StartMultipartInsert(cpB.meta.Root.Version); err != nil {
			note("StartMultipartInsert for the second restore failed: %v", err)
			return
		}
		if err := rs.StartRestore(kv.Ctx, cpB.meta); err != nil {
			note("StartRestore of the second checkpoint failed: %v", err)
			return
		}
		for i := range cpB.chunks {
			done, err := rs.RestoreChunk(kv.Ctx, uint64(i), bytes.NewReader(cpB.chunks[i]))
			if err != nil {
				note("genuine chunk %d of the second restore was rejected: %v", i, err)
				return
			}
			mu.Lock()
			bDone = append(bDone, done)
			mu.Unlock()
		}
	})
	inst.Outcome = func() string { return fmt.Sprintf("stale=%v b=%v p=%d", staleDone, bDone, len(problems)) }
	inst.Final = func(_ *sched.Result) string {
		if len(problems) > 0 {
			return problems[0]
		}
		if staleDone {
			return "the chunk of the aborted restore was told that a restore is complete"
		}
		for i, d := range bDone {
			if d != (i == len(cpB.chunks)-1) {
				return fmt.Sprintf("second restore of %d chunks fed in order: completion flags %v", len(cpB.chunks), bDone)
			}
		}
		if len(bDone) != len(cpB.chunks) {
			return "harness: second restore incomplete"
		}
		if err := ndb.Finalize([]node.Root{cpB.meta.Root}); err != nil {
			return "Finalize after the second restore failed: " + err.Error()
		}
		return readBack(ndb, cpB.meta.Root, trB.Contents)
	}
	return inst, nil
}

type c12concResult struct {
	thread int
	call   c12call
	done   bool
	err    error
}

func c12concInstance(tr c12tree, backend string, cp *c12cp, threads [][]c12call) (*conc.Instance, error) {
	dup := false
	seenChunk := map[int]bool{}
	for _, calls := range threads {
		for _, c := range calls {
			if !c.Corrupt && !c.BadProof {
				if seenChunk[c.Chunk] {
					dup = true
				}
				seenChunk[c.Chunk] = true
			}
		}
	}
	ndb, err := kv.OpenDB(backend, "")
	if err != nil {
		return nil, err
	}
	rs, _ := checkpoint.NewRestorer(ndb)
	root := cp.meta.Root
	meta := cp.meta
	forgedData := map[int][]byte{}
	hasForged := false
	for _, calls := range threads {
		for _, c := range calls {
			if c.BadProof {
				fd, fm := c12Forge(cp, meta, c.Chunk)
				if fd == nil {
					ndb.Close()
					return nil, fmt.Errorf("no single-bit change of chunk %d passes the digest check and fails the proof", c.Chunk)
				}
				forgedData[c.Chunk], meta = fd, fm
				hasForged = true
			}
		}
	}
	if err := ndb.StartMultipartInsert(root.Version); err != nil {
		ndb.Close()
		return nil, err
	}
	if err := rs.StartRestore(kv.Ctx, meta); err != nil {
		ndb.Close()
		return nil, err
	}
	var results []c12concResult
	var during []string
	var mu sync.Mutex // the same bodies also run free under the race detector
	finalized := false
	inst := &conc.Instance{Close: func() { ndb.Close() }}
	for ti, calls := range threads {
		ti, calls := ti, calls
		inst.Bodies = append(inst.Bodies, func() {
			for _, c := range calls {
				data := cp.chunks[c.Chunk]
				if c.Corrupt {
					data = append([]byte{}, data...)
					data[len(data)/2] ^= 0x10
				}
				if c.BadProof {
					data = forgedData[c.Chunk]
				}
				done, err := rs.RestoreChunk(kv.Ctx, uint64(c.Chunk), bytes.NewReader(data))
				mu.Lock()
				results = append(results, c12concResult{ti, c, done, err})
				mu.Unlock()
				if done && dup {
					if ferr := ndb.Finalize([]node.Root{root}); ferr != nil {
						mu.Lock()
						during = append(during, "Finalize by the caller that was told the restore is complete failed: "+ferr.Error())
						mu.Unlock()
					}
					finalized = true
				}
				if !done && !dup { // with duplicates in flight the other caller may legitimately have finalized already
					if w := visibleDuringRestore(ndb, root); w != "" {
						mu.Lock()
						during = append(during, w)
						mu.Unlock()
					}
				}
			}
		})
	}
	inst.Outcome = func() string {
		var sb strings.Builder
		for _, x := range results {
			fmt.Fprintf(&sb, "t%d:%d", x.thread, x.call.Chunk)
			if x.call.Corrupt {
				sb.WriteString("!")
			}
			if x.done {
				sb.WriteString("*")
			}
			sb.WriteString(" ")
		}
		return sb.String()
	}
	inst.Final = func(_ *sched.Result) string {
		if len(during) > 0 {
			return "during the restore: " + during[0]
		}
		if hasForged {
			// The forged chunk must be refused with a proof failure and the restore aborted: nobody
			// may be told that the restore is complete, and nothing may become visible.
			sawProofFailure := false
			for _, x := range results {
				if x.done {
					return fmt.Sprintf("completion was signalled to thread %d (chunk %d) although the restore was aborted after a chunk failed proof verification", x.thread, x.call.Chunk)
				}
				if x.call.BadProof {
					if !errors.Is(x.err, checkpoint.ErrChunkProofVerificationFailed) {
						return fmt.Sprintf("forged chunk %d: expected a proof verification failure, got %v", x.call.Chunk, x.err)
					}
					sawProofFailure = true
				}
			}
			if !sawProofFailure {
				return "harness: forged chunk was not sent"
			}
			if rs.GetCurrentCheckpoint() != nil {
				return "restorer still reports a checkpoint in progress after a proof failure"
			}
			if w := visibleDuringRestore(ndb, root); w != "" {
				return "after the aborted restore: " + w
			}
			return ""
		}
		dones := 0
		for _, x := range results {
			switch {
			case dup && x.err != nil && (errors.Is(x.err, checkpoint.ErrChunkAlreadyRestored) || errors.Is(x.err, checkpoint.ErrNoRestoreInProgress) || errors.Is(x.err, dbapi.ErrAlreadyFinalized) || errors.Is(x.err, dbapi.ErrMultipartInProgress) || errors.Is(x.err, dbapi.ErrInvalidMultipartVersion)):
				// a duplicate that lost the race
			case x.call.Corrupt:
				if x.err == nil {
					return fmt.Sprintf("corrupted chunk %d was accepted", x.call.Chunk)
				}
				if x.done {
					return "completion signalled together with an error"
				}
				if !errors.Is(x.err, checkpoint.ErrChunkCorrupted) {
					return fmt.Sprintf("corrupted chunk %d: unexpected error %v", x.call.Chunk, x.err)
				}
			case x.err != nil:
				return fmt.Sprintf("genuine chunk %d sent by thread %d was rejected: %v", x.call.Chunk, x.thread, x.err)
			case x.done:
				dones++
			}
		}
		if dones != 1 {
			return fmt.Sprintf("completion was signalled %d times for one restore of %d chunks", dones, len(cp.chunks))
		}
		if !dup && !conc.FreeRunning && results[len(results)-1].done == false {
			// (under the cooperative scheduler the order of the reports is the order in which the calls returned;
			// free-running goroutines can report in another order than they returned)
			// the caller that finishes last must be the one that is told the restore is complete,
			// otherwise the driver finalizes while a chunk import is still running
			return "completion was signalled to a caller that did not finish last"
		}
		if rs.GetCurrentCheckpoint() != nil {
			return "restorer still reports a checkpoint in progress after completion"
		}
		if !finalized {
			if err := ndb.Finalize([]node.Root{root}); err != nil {
				return "Finalize after restore failed: " + err.Error()
			}
		}
		if w := readBack(ndb, root, tr.Contents); w != "" {
			return w
		}
		return c12After(ndb, root, tr.Contents)
	}
	return inst, nil
}

// c12After: the restored database must stay usable: a later multipart session that is started
// and aborted must not touch the restored version, and a new version can be built on top of it.
func c12After(ndb dbapi.NodeDB, root node.Root, c kv.Contents) string {
	if err := ndb.StartMultipartInsert(root.Version + 1); err != nil { // same version as the one built below: its tombstones would be visible there
		return "starting a later multipart insert failed: " + err.Error()
	}
	if err := ndb.AbortMultipartInsert(); err != nil {
		return "aborting a later multipart insert failed: " + err.Error()
	}
	if w := readBack(ndb, root, c); w != "" {
		return "after a later multipart session was started and aborted: " + w
	}
	t := mkvs.NewWithRoot(nil, ndb, root)
	defer t.Close()
	c2 := c.Clone()
	if err := t.Insert(kv.Ctx, []byte{0x42}, []byte("next")); err != nil {
		return "insert on top of the restored root failed: " + err.Error()
	}
	c2["\x42"] = []byte("next")
	for _, k := range c.SortedKeys() {
		if err := t.Remove(kv.Ctx, []byte(k)); err != nil {
			return "remove on top of the restored root failed: " + err.Error()
		}
		delete(c2, k)
		break
	}
	_, h, err := t.Commit(kv.Ctx, kv.Namespace, root.Version+1)
	if err != nil {
		return "commit of the next version on top of the restored root failed: " + err.Error()
	}
	next := kv.RootFor(root.Version+1, node.RootTypeState, h)
	if err := ndb.Finalize([]node.Root{next}); err != nil {
		return "finalize of the next version failed: " + err.Error()
	}
	if w := readBack(ndb, next, c2); w != "" {
		return "the version built on top of the restored root: " + w
	}
	if w := readBack(ndb, root, c); w != "" {
		return "the restored root after the next version was finalized: " + w
	}
	return ""
}

func runC12Conc(r *ev.Run) {
	dir, err := os.MkdirTemp("", "verif-c12c-")
	if err != nil {
		r.HarnessError("tempdir: %v", err)
		r.Finish()
	}
	defer os.RemoveAll(dir)
	if r.Replay != "" {
		v, err := ev.LoadReplay(r.Replay)
		if err != nil {
			fmt.Println("cannot load replay:", err)
			os.Exit(2)
		}
		what, err := conc.Replay(c12concScenarios(r, dir), v.Artefact)
		os.RemoveAll(dir)
		if err != nil {
			fmt.Println("replay:", err)
			os.Exit(2)
		}
		if what != "" {
			fmt.Printf("VIOLATION property=C12 replay=%s\n  what: %s\n", r.Replay, what)
			os.Exit(1)
		}
		fmt.Println("replay: property held")
		os.Exit(0)
	}
	if os.Getenv("VERIF_PHASE") == "race" {
		conc.RaceRun(r, c12concScenarios(r, dir), c12raceIters(r))
		os.RemoveAll(dir)
		r.Set("race_rule", "free-running race-detector pass over the concurrency scenarios of the conc phase (same thread bodies as ordinary goroutines in a -race build); complements the cooperative exploration, which cannot see unsynchronised accesses between scheduling points")
		r.Finish()
	}
	r.Fork(ev.Workers())
	scs := c12concScenarios(r, dir)
	conc.Explore(r, "kvmc-conc", scs)
	if r.Thorough() {
		// beyond the claimed bound: one more preemption for as long as the time budget lasts
		conc.ExploreExtra(r, "kvmc-conc", scs, r.Start.Add(12*time.Minute))
	}
	os.RemoveAll(dir)
	r.Set("conc_rule", "concurrent restore: 2-3 controlled threads call RestoreChunk of the real restorer for disjoint chunk lists of a 2/3/4-chunk checkpoint (with a corrupted copy first in the retry scenarios) into a fresh badger and pathbadger database; every schedule with at most conc_preemption_bound preemptions at the scheduling points (restorer and node-database locks, every database read and durable write) is executed; oracle: genuine chunks accepted, corrupted rejected, completion signalled exactly once and to the caller that finishes last, unfinished restore never visible, restored root finalizes and reads back exactly the source contents")
	b := 2
	if r.Thorough() {
		b = 3
	}
	r.Set("conc_preemption_bound", b)
	r.Assume("concurrency phase: threads are preempted only at lock acquisitions of the restorer / node database and at badger reads and durable writes (a free-running -race pass covers unsynchronised accesses); one chunk is never sent by two callers at the same time (the production dispatcher hands a chunk to one fetcher at a time)")
	r.Finish()
}

func c12raceIters(r *ev.Run) int {
	if r.Thorough() {
		return 40
	}
	return 10
}

// c12Forge finds a single-bit change of chunk ci that the restorer refuses with a
// proof verification failure when the manifest carries the changed chunk's digest.
func c12Forge(cp *c12cp, meta *checkpoint.Metadata, ci int) ([]byte, *checkpoint.Metadata) {
	for bit := len(cp.chunks[ci])*8 - 1; bit >= 0; bit-- {
		m := append([]byte{}, cp.chunks[ci]...)
		m[bit/8] ^= 1 << uint(bit%8)
		mm := *meta
		mm.Chunks = append([]hash.Hash{}, meta.Chunks...)
		mm.Chunks[ci] = hash.NewFromBytes(m)
		ndb, err := kv.OpenDB("badger", "")
		if err != nil {
			return nil, nil
		}
		rs, _ := checkpoint.NewRestorer(ndb)
		_ = ndb.StartMultipartInsert(mm.Root.Version)
		_ = rs.StartRestore(kv.Ctx, &mm)
		_, err = rs.RestoreChunk(kv.Ctx, uint64(ci), bytes.NewReader(m))
		ndb.Close()
		if errors.Is(err, checkpoint.ErrChunkProofVerificationFailed) {
			return m, &mm
		}
	}
	return nil, nil
}
