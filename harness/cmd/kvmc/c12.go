package main

import (
	"sort"
	"bytes"
	"encoding/json"
	"errors"
	"fmt"
	"io"
	"os"
	"path/filepath"
	"runtime/debug"
	"strings"
	"sync"
	"time"

	"github.com/golang/snappy"

	"github.com/oasisprotocol/oasis-core/go/common/cbor"
	"github.com/oasisprotocol/oasis-core/go/common/crypto/hash"
	"github.com/oasisprotocol/oasis-core/go/storage/mkvs"
	"github.com/oasisprotocol/oasis-core/go/storage/mkvs/checkpoint"
	dbapi "github.com/oasisprotocol/oasis-core/go/storage/mkvs/db/api"
	"github.com/oasisprotocol/oasis-core/go/storage/mkvs/node"

	"verif/harness/internal/ev"
	"verif/harness/internal/kv"
)

// C12: checkpoints restore to exactly the checkpointed state.

type c12tree struct {
	Name     string      `json:"name"`
	Contents kv.Contents `json:"contents"`
}

type c12cp struct {
	meta   *checkpoint.Metadata
	chunks [][]byte
}

type c12Artefact struct {
	Tree      c12tree `json:"tree"`
	ChunkSize uint64  `json:"chunk_size"`
	Threads   uint16  `json:"threads"`
	Backend   string  `json:"backend"`
	Scenario  string  `json:"scenario"`
	Order     []int   `json:"order,omitempty"`
	Chunk     int     `json:"chunk,omitempty"`
	Bit       int     `json:"bit,omitempty"`
	FixDigest bool    `json:"fix_digest,omitempty"`
}

// c12Source commits a tree as version 1 into a memory-only source database.
type c12Source struct {
	ndb  dbapi.NodeDB
	root node.Root
	dir  string
}

func c12MakeSource(c kv.Contents, dir string) (*c12Source, error) {
	return c12MakeSourceTyped(c, dir, node.RootTypeState)
}

func c12MakeSourceTyped(c kv.Contents, dir string, rootType node.RootType) (*c12Source, error) {
	ndb, err := kv.OpenDB("badger", "")
	if err != nil {
		return nil, err
	}
	t := mkvs.New(nil, ndb, rootType)
	for _, k := range c.SortedKeys() {
		if err := t.Insert(kv.Ctx, []byte(k), c[k]); err != nil {
			return nil, err
		}
	}
	_, h, err := t.Commit(kv.Ctx, kv.Namespace, 1)
	t.Close()
	if err != nil {
		return nil, err
	}
	root := kv.RootFor(1, rootType, h)
	if err := ndb.Finalize([]node.Root{root}); err != nil {
		return nil, err
	}
	return &c12Source{ndb: ndb, root: root, dir: dir}, nil
}

var c12seq struct {
	sync.Mutex
	n int
}

func (s *c12Source) create(chunkSize uint64, threads uint16) (*c12cp, error) {
	c12seq.Lock()
	c12seq.n++
	d := filepath.Join(s.dir, fmt.Sprintf("cp%d", c12seq.n))
	c12seq.Unlock()
	defer os.RemoveAll(d)
	fc, err := checkpoint.NewFileCreator(d, s.ndb)
	if err != nil {
		return nil, err
	}
	meta, err := fc.CreateCheckpoint(kv.Ctx, s.root, chunkSize, threads)
	if err != nil {
		return nil, err
	}
	cp := &c12cp{meta: meta}
	for i := range meta.Chunks {
		cm, err := meta.GetChunkMetadata(uint64(i))
		if err != nil {
			return nil, err
		}
		var buf bytes.Buffer
		if err := fc.GetCheckpointChunk(kv.Ctx, cm, &buf); err != nil {
			return nil, err
		}
		cp.chunks = append(cp.chunks, buf.Bytes())
	}
	return cp, nil
}

func metaKey(m *checkpoint.Metadata) string {
	var sb strings.Builder
	for _, c := range m.Chunks {
		sb.WriteString(c.String()[:16])
		sb.WriteString(",")
	}
	return sb.String()
}

// readBack verifies that root is present, finalized and reads back exactly c.
func readBack(ndb dbapi.NodeDB, root node.Root, c kv.Contents) string {
	if !ndb.HasRoot(root) {
		return "restored root is absent"
	}
	roots, err := ndb.GetRootsForVersion(root.Version)
	if err != nil {
		return "GetRootsForVersion failed: " + err.Error()
	}
	found := false
	for _, r := range roots {
		if r.Equal(&root) {
			found = true
		} else if !r.Hash.IsEmpty() {
			return fmt.Sprintf("unexpected root %s listed for the version", r.Hash)
		}
	}
	if !found && !root.Hash.IsEmpty() {
		return "restored root is not listed for its version"
	}
	t := mkvs.NewWithRoot(nil, ndb, root, mkvs.Capacity(3, 0))
	defer t.Close()
	got, _, err := kv.TreeContents(t)
	if err != nil {
		return "reading the restored root failed: " + err.Error()
	}
	if !got.Equal(c) {
		return fmt.Sprintf("restored contents %s differ from the source %s", abbreviate(got.String()), abbreviate(c.String()))
	}
	for _, k := range c.SortedKeys() {
		v, err := t.Get(kv.Ctx, []byte(k))
		if err != nil || !bytes.Equal(v, c[k]) {
			return fmt.Sprintf("Get(%x) on the restored root = %q err=%v", k, v, err)
		}
	}
	if hr := kv.CanonicalRoot(c); hr != root.Hash {
		return "source root does not match the contents-only hash"
	}
	return ""
}

func abbreviate(s string) string {
	if len(s) > 300 {
		return s[:300] + "..."
	}
	return s
}

// visibleDuringRestore: an unfinished restore must not be visible as a finalized root.
func visibleDuringRestore(ndb dbapi.NodeDB, root node.Root) string {
	if v, ok := ndb.GetLatestVersion(); ok && v >= root.Version {
		return fmt.Sprintf("latest version is %d while the restore of version %d is unfinished", v, root.Version)
	}
	return ""
}

type restoreStep struct {
	idx     int
	data    []byte
	wantErr bool // step is expected to be rejected
	dupOK   bool
}

// restore runs a restore scenario into a fresh database of the backend.
// order: chunk indices to feed; mutate: optional replacement of one chunk's
// bytes (index, data) fed BEFORE the genuine chunk; abortAfter: abort and
// restart after that many chunks (-1 never); dup: re-feed each chunk once.
func c12Restore(backend string, cp *c12cp, meta *checkpoint.Metadata, c kv.Contents, order []int, bad map[int][]byte, abortAfter int, dup bool) (what string) {
	defer func() {
		if p := recover(); p != nil {
			what = fmt.Sprintf("panic during restore: %v", p)
			if os.Getenv("VERIF_STACK") != "" {
				what += "\n" + string(debug.Stack())
			}
		}
	}()
	ndb, err := kv.OpenDB(backend, "")
	if err != nil {
		return ""
	}
	defer ndb.Close()
	rs, _ := checkpoint.NewRestorer(ndb)
	root := meta.Root
	start := func() string {
		if err := ndb.StartMultipartInsert(root.Version); err != nil {
			return "StartMultipartInsert failed: " + err.Error()
		}
		if err := rs.StartRestore(kv.Ctx, meta); err != nil {
			return "StartRestore failed: " + err.Error()
		}
		return ""
	}
	if w := start(); w != "" {
		return w
	}
	done := false
	fed := 0
	for pos := 0; pos < len(order); pos++ {
		i := order[pos]
		if b, ok := bad[i]; ok {
			d, err := rs.RestoreChunk(kv.Ctx, uint64(i), bytes.NewReader(b))
			delete(bad, i)
			if err == nil {
				// Accepted: legitimate only if semantically identical; the final read-back decides.
				if d {
					done = true
				}
				fed++
				if w := checkDone(done, fed, len(order), ndb, root); w != "" {
					return w
				}
				continue
			}
			if d {
				return "RestoreChunk reported completion together with an error"
			}
			if w := visibleDuringRestore(ndb, root); w != "" {
				return "after a rejected chunk: " + w
			}
			if errors.Is(err, checkpoint.ErrChunkProofVerificationFailed) {
				// The restorer aborted the whole restore: restart from scratch.
				if err := ndb.AbortMultipartInsert(); err != nil {
					return "AbortMultipartInsert failed: " + err.Error()
				}
				if w := start(); w != "" {
					return w
				}
				fed = 0
				pos = -1
				continue
			}
		}
		d, err := rs.RestoreChunk(kv.Ctx, uint64(i), bytes.NewReader(cp.chunks[i]))
		if err != nil {
			return fmt.Sprintf("genuine chunk %d rejected: %v", i, err)
		}
		fed++
		done = d
		if w := checkDone(done, fed, len(order), ndb, root); w != "" {
			return w
		}
		if dup && !done {
			if _, err := rs.RestoreChunk(kv.Ctx, uint64(i), bytes.NewReader(cp.chunks[i])); !errors.Is(err, checkpoint.ErrChunkAlreadyRestored) {
				return fmt.Sprintf("re-sending chunk %d: expected 'already restored', got %v", i, err)
			}
		}
		if abortAfter >= 0 && fed == abortAfter && !done {
			if err := rs.AbortRestore(kv.Ctx); err != nil {
				return "AbortRestore failed: " + err.Error()
			}
			if err := ndb.AbortMultipartInsert(); err != nil {
				return "AbortMultipartInsert failed: " + err.Error()
			}
			if w := visibleDuringRestore(ndb, root); w != "" {
				return "after an aborted restore: " + w
			}
			abortAfter = -1
			if w := start(); w != "" {
				return w
			}
			fed = 0
			pos = -1
		}
	}
	if !done {
		return "all chunks restored but completion was never signalled"
	}
	if err := ndb.Finalize([]node.Root{root}); err != nil {
		return "Finalize after restore failed: " + err.Error()
	}
	if w := readBack(ndb, root, c); w != "" {
		return w
	}
	if len(c) <= 13 {
		// the restored database stays usable (a later aborted multipart session, a next version)
		return c12After(ndb, root, c)
	}
	return ""
}

func checkDone(done bool, fed, total int, ndb dbapi.NodeDB, root node.Root) string {
	if done != (fed == total) {
		return fmt.Sprintf("completion signalled=%v after %d of %d chunks", done, fed, total)
	}
	if !done {
		return visibleDuringRestore(ndb, root)
	}
	return ""
}

func permutations(n int) [][]int {
	var out [][]int
	var rec func(cur []int, used []bool)
	rec = func(cur []int, used []bool) {
		if len(cur) == n {
			out = append(out, append([]int{}, cur...))
			return
		}
		for i := 0; i < n; i++ {
			if !used[i] {
				used[i] = true
				rec(append(cur, i), used)
				used[i] = false
			}
		}
	}
	rec(nil, make([]bool, n))
	return out
}

func c12Orders(n int) [][]int {
	if n <= 4 {
		return permutations(n)
	}
	var out [][]int
	fwd := make([]int, n)
	rev := make([]int, n)
	for i := 0; i < n; i++ {
		fwd[i], rev[i] = i, n-1-i
	}
	out = append(out, fwd, rev)
	for r := 1; r < n && r <= 4; r++ {
		rot := make([]int, n)
		for i := 0; i < n; i++ {
			rot[i] = (i + r*n/5 + 1) % n
		}
		out = append(out, rot)
	}
	return out
}

func c12Trees(thorough bool) []c12tree {
	var ts []c12tree
	vals := [][]byte{nil, []byte("a")}
	n := kv.Pow(2, len(kv.Keys6))
	for i := 0; i < n; i++ {
		ts = append(ts, c12tree{Name: fmt.Sprintf("k6-%d", i), Contents: kv.ContentsFromIndex(i, kv.Keys6, vals)})
	}
	// deep prefix chain: every prefix of a 12-byte key is a key.
	chain := kv.Contents{}
	long := []byte{0x55, 0xaa, 0x00, 0xff, 0x01, 0x80, 0x7f, 0x10, 0x20, 0x40, 0x08, 0x04}
	for i := 0; i <= len(long); i++ {
		chain[string(long[:i])] = []byte(fmt.Sprintf("v%d", i))
	}
	ts = append(ts, c12tree{Name: "prefix-chain-13", Contents: chain})
	// the same beyond 128 levels: every prefix of a 139-byte key (a proof of such a tree is deeper than the
	// verifier's depth limit)
	{
		c := kv.Contents{}
		k := make([]byte, 139)
		for i := range k {
			k[i] = byte(0x31 + i%7)
		}
		for i := 0; i <= len(k); i++ {
			c[string(k[:i])] = []byte("v")
		}
		ts = append(ts, c12tree{Name: "prefix-chain-140", Contents: c})
	}
	many := kv.Contents{}
	cnt := 300
	if thorough {
		cnt = 2000
	}
	for i := 0; i < cnt; i++ {
		many[fmt.Sprintf("key/%03d/%d", i%17, i)] = bytes.Repeat([]byte{byte(i)}, i%23)
	}
	ts = append(ts, c12tree{Name: fmt.Sprintf("shared-prefix-%d", cnt), Contents: many})
	// deep and bushy: a spine of d internal nodes (one leaf hanging off at every level) above a full subtree of
	// 256 keys (several chunks), so that the parallel chunker splits tasks two ways at path lengths beyond 32
	for _, d := range []int{33, 34, 38, 48} {
		deep := kv.Contents{}
		setBit := func(k []byte, i int) { k[i/8] |= 0x80 >> uint(i%8) }
		for i := 0; i < d; i++ {
			k := make([]byte, 8)
			setBit(k, i)
			deep[string(k)] = []byte(fmt.Sprintf("s%d", i))
		}
		for p := 0; p < 256; p++ {
			k := make([]byte, 8)
			for b := 0; b < 8; b++ {
				if p&(128>>uint(b)) != 0 {
					setBit(k, d+b)
				}
			}
			deep[string(k)] = []byte(fmt.Sprintf("bushy value %03d ........", p))
		}
		ts = append(ts, c12tree{Name: fmt.Sprintf("deep-bushy-%d", d), Contents: deep})
	}
	// the same with an irregular subtree: 300 pseudo-random 10-byte keys below a spine of 48 (fixed generator)
	{
		deep := kv.Contents{}
		for i := 0; i < 48; i++ {
			k := make([]byte, 10)
			k[i/8] = 0x80 >> uint(i%8)
			deep[string(k)] = []byte(fmt.Sprintf("s%d", i))
		}
		x := uint64(0x9E3779B97F4A7C15)
		for i := 0; i < 300; i++ {
			k := make([]byte, 10)
			for j := 6; j < 10; j++ {
				x ^= x << 13
				x ^= x >> 7
				x ^= x << 17
				k[j] = byte(x)
			}
			deep[string(k)] = []byte(fmt.Sprintf("value %d", i))
		}
		ts = append(ts, c12tree{Name: "deep-irregular-48", Contents: deep})
	}
	if thorough {
		vals3 := [][]byte{nil, []byte("a"), {}}
		n3 := kv.Pow(3, len(kv.Keys5))
		for i := 0; i < n3; i++ {
			ts = append(ts, c12tree{Name: fmt.Sprintf("k5v3-%d", i), Contents: kv.ContentsFromIndex(i, kv.Keys5, vals3)})
		}
	}
	return ts
}

func c12Tree(r *ev.Run, tr c12tree, dir string, otherCp *c12cp) *c12cp {
	src, err := c12MakeSource(tr.Contents, dir)
	if err != nil {
		r.HarnessError("source %s: %v", tr.Name, err)
		return nil
	}
	defer src.ndb.Close()
	violate := func(a c12Artefact, what string) {
		a.Tree = tr
		if len(tr.Contents) > 20 {
			a.Tree = c12tree{Name: tr.Name}
		}
		tag := ""
		if strings.Contains(what, "genuine chunk") && strings.Contains(what, "max proof depth exceeded") {
			tag = " genuine-chunk-beyond-proof-depth-limit"
		}
		r.Violate(ev.Violation{Engine: "kvmc", Key: fmt.Sprintf("c12 %s cs=%d th=%d %s %s order=%v chunk=%d bit=%d%s", tr.Name, a.ChunkSize, a.Threads, a.Backend, a.Scenario, a.Order, a.Chunk, a.Bit, tag),
			What: fmt.Sprintf("tree %s (%d keys), chunk size %d, %d chunker threads, %s, %s (order %v, chunk %d, bit %d, digest fixed %v): %s", tr.Name, len(tr.Contents), a.ChunkSize, a.Threads, a.Backend, a.Scenario, a.Order, a.Chunk, a.Bit, a.FixDigest, what), Artefact: a})
	}
	// Size of the one-chunk checkpoint bounds the interesting chunk sizes.
	one, err := src.create(1<<30, 0)
	if err != nil {
		violate(c12Artefact{ChunkSize: 1 << 30, Scenario: "create"}, "CreateCheckpoint failed: "+err.Error())
		return nil
	}
	small := len(tr.Contents) <= 13
	var sizes []uint64
	if small {
		// every chunk size from 1 byte up to beyond the whole proof
		max := uint64(0)
		for _, k := range tr.Contents.SortedKeys() {
			max += uint64(len(k)+len(tr.Contents[k])) + 80
		}
		for cs := uint64(1); cs <= max+1; cs++ {
			sizes = append(sizes, cs)
		}
	} else {
		sizes = []uint64{1, 2, 100, 511, 512, 513, 4096, 16 * 1024, 1 << 20}
	}
	threadsList := []uint16{0, 1, 2, 3, 4, 8, 16, 32}
	if strings.HasPrefix(tr.Name, "deep-") {
		sizes = []uint64{1, 100, 300, 511, 1500, 4096}
		threadsList = []uint16{0, 2, 4, 12, 32}
	}
	distinct := map[string]*c12cp{}
	allSizes := sizes
	distinctParams := map[string][2]uint64{}
	var creations, restores, corruptions, structural int64
	for _, th := range threadsList {
		seenTh := map[string]bool{}
		sizes := allSizes
		if !r.Thorough() && small && (th == 3 || th >= 8) && len(allSizes) > 6 {
			// quick tier: boundary subset of chunk sizes for the less common thread counts
			n := len(allSizes)
			sizes = []uint64{allSizes[0], allSizes[1], allSizes[n/4], allSizes[n/2], allSizes[n-2], allSizes[n-1]}
		}
		if r.Expired() {
			r.Cap("deadline")
			break
		}
		for _, cs := range sizes {
			cp, err := src.create(cs, th)
			creations++
			if err != nil {
				violate(c12Artefact{ChunkSize: cs, Threads: th, Scenario: "create"}, "CreateCheckpoint failed: "+err.Error())
				continue
			}
			if len(cp.meta.Chunks) == 0 || !cp.meta.Root.Equal(&src.root) {
				violate(c12Artefact{ChunkSize: cs, Threads: th, Scenario: "create"}, "metadata has no chunks or a wrong root")
				continue
			}
			k := metaKey(cp.meta)
			if seenTh[k] {
				continue
			}
			seenTh[k] = true
			// determinism: same root and parameters -> same metadata
			cp2, err := src.create(cs, th)
			creations++
			if err != nil || metaKey(cp2.meta) != k {
				violate(c12Artefact{ChunkSize: cs, Threads: th, Scenario: "determinism"}, fmt.Sprintf("second CreateCheckpoint with equal parameters gives different metadata (err=%v)", err))
			}
			for i, ch := range cp.chunks {
				if d := hash.NewFromBytes(ch); d != cp.meta.Chunks[i] {
					violate(c12Artefact{ChunkSize: cs, Threads: th, Scenario: "digest", Chunk: i}, "chunk bytes do not hash to the digest in the metadata")
				}
			}
			if _, ok := distinct[k]; !ok {
				distinct[k] = cp
				distinctParams[k] = [2]uint64{cs, uint64(th)}
			}
		}
	}
	// Restore every distinct chunking, every order, both backends.
	first := true
	firstStruct := true
	for k, cp := range distinct {
		p := distinctParams[k]
		n := len(cp.chunks)
		deepTree := strings.HasPrefix(tr.Name, "deep-")
		if !small && n > 40 && !(deepTree && n <= 400) {
			continue // restoring thousands of one-node chunks of the large tree adds nothing
		}
		orders := c12Orders(n)
		if deepTree && n > 40 {
			orders = orders[:1] // many chunks of a deep tree: what matters is that the chunks cover the tree
		}
		for _, be := range kv.Backends {
			for oi, ord := range orders {
				a := c12Artefact{ChunkSize: p[0], Threads: uint16(p[1]), Backend: be, Scenario: "restore", Order: ord}
				restores++
				if w := c12Restore(be, cp, cp.meta, tr.Contents, ord, map[int][]byte{}, -1, oi == 0); w != "" {
					violate(a, w)
				}
			}
			// aborted + restarted restores after each prefix
			for ab := 1; ab < n && ab <= 3; ab++ {
				a := c12Artefact{ChunkSize: p[0], Threads: uint16(p[1]), Backend: be, Scenario: fmt.Sprintf("abort-after-%d", ab), Order: orders[0]}
				restores++
				if w := c12Restore(be, cp, cp.meta, tr.Contents, orders[0], map[int][]byte{}, ab, false); w != "" {
					violate(a, w)
				}
			}
		}
		// corruption: for small trees, every bit of every chunk (first distinct chunkings only)
		corruptOK := len(tr.Contents) <= 4 && (first || n <= 3)
		if !r.Thorough() {
			// quick tier: bit-level corruption on the trees with at most 2 keys, first chunking only
			corruptOK = len(tr.Contents) >= 1 && len(tr.Contents) <= 2 && first
		}
		if small && corruptOK {
			first = false
			be := kv.Backends[(len(tr.Contents)+n)%2]
			for ci, ch := range cp.chunks {
				for bit := 0; bit < len(ch)*8; bit++ {
					for _, fix := range []bool{false, true} {
						m := append([]byte{}, ch...)
						m[bit/8] ^= 1 << uint(bit%8)
						meta := cp.meta
						if fix {
							mm := *cp.meta
							mm.Chunks = append([]hash.Hash{}, cp.meta.Chunks...)
							mm.Chunks[ci] = hash.NewFromBytes(m)
							meta = &mm
						}
						ord := c12Orders(n)[0]
						corruptions++
						w := c12Restore(be, cp, meta, tr.Contents, ord, map[int][]byte{ci: m}, -1, false)
						if fix && w != "" && strings.HasPrefix(w, "genuine chunk") {
							// with a forged digest the genuine chunk no longer matches the metadata: expected.
							continue
						}
						if w != "" {
							violate(c12Artefact{ChunkSize: p[0], Threads: uint16(p[1]), Backend: be, Scenario: "corrupt-bit", Order: ord, Chunk: ci, Bit: bit, FixDigest: fix}, w)
						}
					}
				}
			}
			// a chunk of another checkpoint, digest forged to match
			if otherCp != nil && !otherCp.meta.Root.Hash.Equal(&cp.meta.Root.Hash) {
				for ci := range cp.chunks {
					m := otherCp.chunks[ci%len(otherCp.chunks)]
					mm := *cp.meta
					mm.Chunks = append([]hash.Hash{}, cp.meta.Chunks...)
					mm.Chunks[ci] = hash.NewFromBytes(m)
					corruptions++
					w := c12Restore(be, cp, &mm, tr.Contents, c12Orders(n)[0], map[int][]byte{ci: m}, -1, false)
					if w != "" && !strings.HasPrefix(w, "genuine chunk") {
						violate(c12Artefact{ChunkSize: p[0], Threads: uint16(p[1]), Backend: be, Scenario: "foreign-chunk", Chunk: ci, FixDigest: true}, w)
					}
				}
			}
		}
		// (for every small tree: its first distinct chunking and every chunking of at most 3 chunks)
		if small && (firstStruct || n <= 3) {
			firstStruct = false
			be := kv.Backends[(len(tr.Contents)+n+1)%2]
			// structural forgeries of every chunk (digest forged to match): the empty-tree proof, no
			// entries at all, every proper prefix of the entries, an extra trailing nil, every entry
			// replaced by nil, every adjacent pair swapped, every entry doubled
			for ci, ch := range cp.chunks {
				fs, err := c12Forgeries(ch)
				if err != nil {
					violate(c12Artefact{ChunkSize: p[0], Threads: uint16(p[1]), Backend: be, Scenario: "decode", Chunk: ci}, "genuine chunk does not decode: "+err.Error())
					continue
				}
				for _, f := range fs {
					m := c12Encode(f.ents)
					if bytes.Equal(m, ch) {
						continue
					}
					mm := *cp.meta
					mm.Chunks = append([]hash.Hash{}, cp.meta.Chunks...)
					mm.Chunks[ci] = hash.NewFromBytes(m)
					corruptions++
					structural++
					w := c12Restore(be, cp, &mm, tr.Contents, c12Orders(n)[0], map[int][]byte{ci: m}, -1, false)
					if w != "" && !strings.HasPrefix(w, "genuine chunk") {
						violate(c12Artefact{ChunkSize: p[0], Threads: uint16(p[1]), Backend: be, Scenario: "forged-proof:" + f.name, Chunk: ci, FixDigest: true}, "chunk "+fmt.Sprint(ci)+" replaced by the forged proof "+f.name+" (manifest digest matching): "+w)
					}
				}
			}
		}
	}
	// File creator under interrupted creation / deletion: the checkpoint directory of a root holds what a
	// process that died inside CreateCheckpoint (chunk files 0..k-1 written, no metadata yet) or inside
	// DeleteCheckpoint (metadata removed, chunk files k.. still there) left behind under other parameters;
	// creating the checkpoint again must give exactly the metadata and chunk bytes of a clean creation.
	var fileCases int64
	if small {
		var keys []string
		for k := range distinct {
			keys = append(keys, k)
		}
		sort.Strings(keys)
		if len(keys) > 4 {
			keys = append(keys[:2], keys[len(keys)-2:]...)
		}
		for _, k1 := range keys {
			for _, k2 := range keys {
				if k1 == k2 {
					continue
				}
				fileCases += c12FileCases(src, tr, distinctParams[k1], distinctParams[k2], distinct[k1], distinct[k2], violate)
			}
		}
	}
	r.Add("file_creator_recreations_after_interruption", fileCases)
	r.Add("states", int64(len(distinct)))
	r.Add("transitions", creations+restores+corruptions+fileCases)
	r.Add("checkpoint_creations", creations)
	r.Add("restores", restores)
	r.Add("corrupted_restores", corruptions)
	r.Add("structurally_forged_chunks", structural)
	r.Sample(map[string]any{"tree": tr.Name, "keys": len(tr.Contents), "distinct_chunkings": len(distinct), "one_chunk_bytes": len(one.chunks[0])}, 6)
	return one
}

// c12FileCases: see the comment at the call site.  p = {chunk size, chunker threads}.
func c12FileCases(src *c12Source, tr c12tree, p1, p2 [2]uint64, cp1, cp2 *c12cp, violate func(a c12Artefact, what string)) (cases int64) {
	n1 := len(cp1.chunks)
	for _, mode := range []string{"creation interrupted after", "deletion interrupted before"} {
		for k := 0; k <= n1; k++ {
			cases++
			what := func() string {
				c12seq.Lock()
				c12seq.n++
				d := filepath.Join(src.dir, fmt.Sprintf("fc%d", c12seq.n))
				c12seq.Unlock()
				defer os.RemoveAll(d)
				fc, err := checkpoint.NewFileCreator(d, src.ndb)
				if err != nil {
					return "harness: " + err.Error()
				}
				if _, err = fc.CreateCheckpoint(kv.Ctx, src.root, p1[0], uint16(p1[1])); err != nil {
					return "first CreateCheckpoint failed: " + err.Error()
				}
				cpDir := filepath.Join(d, fmt.Sprint(src.root.Version), src.root.Hash.String())
				if err = os.Remove(filepath.Join(cpDir, "meta")); err != nil {
					return "harness: " + err.Error()
				}
				for i := 0; i < n1; i++ {
					gone := i >= k // creation: files k.. were never written
					if mode != "creation interrupted after" {
						gone = i < k // deletion: files 0..k-1 are already removed
					}
					if gone {
						if err = os.Remove(filepath.Join(cpDir, "chunks", fmt.Sprint(i))); err != nil {
							return "harness: " + err.Error()
						}
					}
				}
				meta, err := fc.CreateCheckpoint(kv.Ctx, src.root, p2[0], uint16(p2[1]))
				if err != nil {
					return "CreateCheckpoint over the leftovers failed: " + err.Error()
				}
				if metaKey(meta) != metaKey(cp2.meta) || !meta.Root.Equal(&cp2.meta.Root) {
					return "metadata differs from that of a clean creation with the same root and parameters"
				}
				got, err := fc.GetCheckpoint(kv.Ctx, 1, src.root)
				if err != nil || metaKey(got) != metaKey(meta) {
					return fmt.Sprintf("GetCheckpoint does not return the created metadata (err=%v)", err)
				}
				for i := range meta.Chunks {
					cm, err := meta.GetChunkMetadata(uint64(i))
					if err != nil {
						return err.Error()
					}
					var buf bytes.Buffer
					if err := fc.GetCheckpointChunk(kv.Ctx, cm, &buf); err != nil {
						return fmt.Sprintf("chunk %d cannot be read: %v", i, err)
					}
					if hash.NewFromBytes(buf.Bytes()) != meta.Chunks[i] {
						return fmt.Sprintf("served chunk %d (%d bytes) does not hash to its digest in the metadata (clean chunk: %d bytes)", i, buf.Len(), len(cp2.chunks[i]))
					}
					if !bytes.Equal(buf.Bytes(), cp2.chunks[i]) {
						return fmt.Sprintf("served chunk %d differs from the chunk of a clean creation", i)
					}
				}
				return ""
			}()
			if what != "" {
				violate(c12Artefact{ChunkSize: p2[0], Threads: uint16(p2[1]), Scenario: fmt.Sprintf("file creator: %s %d of %d chunk files of a checkpoint with chunk size %d / %d threads", mode, k, n1, p1[0], p1[1])}, what)
			}
		}
	}
	return cases
}

func runC12(r *ev.Run) {
	if r.Replay != "" {
		c12Replay(r)
		return
	}
	r.Fork(ev.Workers())
	base := ""
	if st, err := os.Stat("/dev/shm"); err == nil && st.IsDir() {
		base = "/dev/shm"
	}
	dir, err := os.MkdirTemp(base, "verif-c12-")
	if err != nil {
		r.HarnessError("tempdir: %v", err)
		r.Finish()
	}
	defer os.RemoveAll(dir)
	trees := c12Trees(r.Thorough())
	// a fixed foreign checkpoint for splicing
	fsrc, _ := c12MakeSource(kv.Contents{"\x00": []byte("zz"), "\x80": []byte("y")}, dir)
	foreign, _ := fsrc.create(1, 1)
	if sel := os.Getenv("VERIF_C12_TREES"); sel != "" {
		var keep []c12tree
		for _, t := range trees {
			if strings.Contains(t.Name, sel) {
				keep = append(keep, t)
			}
		}
		trees = keep
	}
	ev.ParallelRange(len(trees), r.Seed, func(i int) {
		if r.Expired() {
			r.Cap("deadline")
			return
		}
		t0 := time.Now()
		c12Tree(r, trees[i], dir, foreign)
		if os.Getenv("VERIF_C12_TIMING") != "" {
			fmt.Printf("tree %s took %v\n", trees[i].Name, time.Since(t0))
		}
	})
	fsrc.ndb.Close()
	os.RemoveAll(dir)
	r.Set("trees", len(trees))
	r.Alias("traces_validated_against_impl", "transitions")
	r.Set("rule", "for every tree (all 64 subsets of the 6-key alphabet, a 13-key prefix chain, a 300/2000-key shared-prefix tree; thorough adds 243 trees with empty values): CreateCheckpoint for every chunk size 1..proof size+1 (boundary set for the large tree) x chunker threads {0,1,2,3,4,8,16,32}, twice (metadata determinism, digests); every distinct chunking restored into an empty badger and pathbadger database in every order (all permutations up to 4 chunks, forward/reverse/rotations beyond), with every chunk re-sent once, with abort+restart after each prefix; for trees <= 4 keys every single-bit corruption of every chunk with the manifest digest untouched and with the digest forged, and a foreign chunk with forged digest; oracle: restored root finalizes and reads back exactly the source contents, unfinished restores are never visible as the latest version")
	r.Assume("concurrent RestoreChunk callers are not explored (sequential restores only)", "source database is badger memory-only; chunk files are written under a temporary directory")
	r.Finish()
}

func c12Replay(r *ev.Run) {
	v, err := ev.LoadReplay(r.Replay)
	if err != nil {
		fmt.Println("cannot load replay:", err)
		os.Exit(2)
	}
	b, _ := json.Marshal(v.Artefact)
	var a c12Artefact
	_ = json.Unmarshal(b, &a)
	tr := a.Tree
	if tr.Contents == nil {
		for _, t := range c12Trees(true) {
			if t.Name == tr.Name {
				tr = t
			}
		}
	}
	dir, _ := os.MkdirTemp("", "verif-c12-")
	defer os.RemoveAll(dir)
	src, err := c12MakeSource(tr.Contents, dir)
	if err != nil {
		fmt.Println("source:", err)
		os.Exit(2)
	}
	what := ""
	cp, err := src.create(a.ChunkSize, a.Threads)
	switch {
	case err != nil:
		what = "CreateCheckpoint failed: " + err.Error()
	case a.Scenario == "determinism":
		cp2, err := src.create(a.ChunkSize, a.Threads)
		if err != nil || metaKey(cp2.meta) != metaKey(cp.meta) {
			what = "metadata differs between two creations"
		}
	case strings.HasPrefix(a.Scenario, "forged-proof:"):
		fs, _ := c12Forgeries(cp.chunks[a.Chunk])
		for _, f := range fs {
			if "forged-proof:"+f.name == a.Scenario {
				m := c12Encode(f.ents)
				mm := *cp.meta
				mm.Chunks = append([]hash.Hash{}, cp.meta.Chunks...)
				mm.Chunks[a.Chunk] = hash.NewFromBytes(m)
				what = c12Restore(a.Backend, cp, &mm, tr.Contents, c12Orders(len(cp.chunks))[0], map[int][]byte{a.Chunk: m}, -1, false)
				if strings.HasPrefix(what, "genuine chunk") {
					what = ""
				}
			}
		}
	case a.Scenario == "corrupt-bit":
		m := append([]byte{}, cp.chunks[a.Chunk]...)
		m[a.Bit/8] ^= 1 << uint(a.Bit%8)
		meta := cp.meta
		if a.FixDigest {
			mm := *cp.meta
			mm.Chunks = append([]hash.Hash{}, cp.meta.Chunks...)
			mm.Chunks[a.Chunk] = hash.NewFromBytes(m)
			meta = &mm
		}
		what = c12Restore(a.Backend, cp, meta, tr.Contents, a.Order, map[int][]byte{a.Chunk: m}, -1, false)
		if a.FixDigest && strings.HasPrefix(what, "genuine chunk") {
			what = ""
		}
	default:
		ab := -1
		if strings.HasPrefix(a.Scenario, "abort-after-") {
			fmt.Sscanf(a.Scenario, "abort-after-%d", &ab)
		}
		ord := a.Order
		if ord == nil {
			ord = c12Orders(len(cp.chunks))[0]
		}
		what = c12Restore(a.Backend, cp, cp.meta, tr.Contents, ord, map[int][]byte{}, ab, false)
	}
	if what != "" {
		fmt.Printf("VIOLATION property=C12 replay=%s\n  what: %s\n", r.Replay, what)
		os.Exit(1)
	}
	fmt.Println("replay: property held")
	os.Exit(0)
}

type c12forg struct {
	name string
	ents [][]byte
}

// c12Entries decodes the proof entries of a chunk.
func c12Entries(ch []byte) ([][]byte, error) {
	dec := cbor.NewDecoder(snappy.NewReader(bytes.NewReader(ch)))
	var ents [][]byte
	for {
		var e []byte
		if err := dec.Decode(&e); err != nil {
			if errors.Is(err, io.EOF) {
				return ents, nil
			}
			return nil, err
		}
		ents = append(ents, e)
	}
}

// c12Encode writes proof entries in the chunk format.
func c12Encode(ents [][]byte) []byte {
	var buf bytes.Buffer
	sw := snappy.NewBufferedWriter(&buf)
	enc := cbor.NewEncoder(sw)
	for _, e := range ents {
		_ = enc.Encode(e)
	}
	_ = sw.Close()
	return buf.Bytes()
}

// c12Forgeries: well-formed chunks that are not the genuine proof.
func c12Forgeries(ch []byte) ([]c12forg, error) {
	ents, err := c12Entries(ch)
	if err != nil {
		return nil, err
	}
	cl := func() [][]byte { return append([][]byte{}, ents...) }
	fs := []c12forg{{"empty-tree", [][]byte{nil}}, {"no-entries", nil}, {"trailing-nil", append(cl(), nil)}}
	for k := 1; k < len(ents); k++ {
		fs = append(fs, c12forg{fmt.Sprintf("prefix-%d", k), cl()[:k]})
	}
	for k := range ents {
		if ents[k] != nil {
			e := cl()
			e[k] = nil
			fs = append(fs, c12forg{fmt.Sprintf("nil-at-%d", k), e})
		}
		fs = append(fs, c12forg{fmt.Sprintf("double-%d", k), append(cl()[:k+1], ents[k:]...)})
		if k+1 < len(ents) {
			e := cl()
			e[k], e[k+1] = e[k+1], e[k]
			fs = append(fs, c12forg{fmt.Sprintf("swap-%d", k), e})
		}
	}
	return fs, nil
}
