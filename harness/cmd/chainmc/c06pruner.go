package main

// C06, consensus state pruner (go/consensus/cometbft/abci/prune.go): the
// keep-last-N strategy on the real application state.  Every schedule of prune
// runs over a short chain (prune after any subset of the commits, as the prune
// worker's ticker may fire after any block), for every N and for chains whose
// database starts at a later version than 1 is executed; after every prune run
// every version the strategy must keep is read back and compared with what
// the same replica held at that height.

import (
	"bytes"
	"encoding/json"
	"fmt"
	"os"
	"strings"

	"github.com/oasisprotocol/oasis-core/go/common/crypto/hash"
	abci "github.com/oasisprotocol/oasis-core/go/consensus/cometbft/abci"
	"github.com/oasisprotocol/oasis-core/go/storage/mkvs"
	"github.com/oasisprotocol/oasis-core/go/storage/mkvs/node"

	"verif/harness/internal/chain"
	"verif/harness/internal/ev"
)

type c06pArtefact struct {
	Backend string `json:"backend"`
	Keep    uint64 `json:"keep"`
	Blocks  int    `json:"blocks"`
	Prunes  uint   `json:"prune_after_block_mask"`
}

func c06pRun(w *world, alpha []letter, a c06pArtefact) string {
	base := ""
	if st, err := os.Stat("/dev/shm"); err == nil && st.IsDir() {
		base = "/dev/shm"
	}
	dir, err := os.MkdirTemp(base, "verif-c06p-")
	if err != nil {
		return "harness: " + err.Error()
	}
	defer os.RemoveAll(dir)
	chain.PruneKeep = a.Keep
	n, err := chain.NewNode(w.doc, w.keys.Nodes[0], a.Backend, dir, false)
	chain.PruneKeep = 0
	if err != nil {
		return "harness: " + err.Error()
	}
	defer n.Close()
	if err := n.InitChain(); err != nil {
		return "harness: " + err.Error()
	}
	b := &bundle{w: w, reps: []*replica{{spec: rspec{Name: "P", Path: chain.PathPropose, Backend: a.Backend}, n: n}}}
	type snap struct {
		root node.Root
		vals map[string][]byte
	}
	snaps := map[int64]snap{}
	keys := [][]byte{{0x50}, {0x51}, {0x52}, {0x53}, {0x40}, {0x41}, {0x10}, {0x11}}
	letters := []string{"transfer(a0->a1,10,fee2)", "burn(a1,7,fee1)", "escrow(a0->e0,50)", "empty-block", "reclaim(a0<-e0,100sh)", "transfer(a0->a1,10,fee2)", "empty-block", "burn(a1,7,fee1)"}
	for i := 0; i < a.Blocks; i++ {
		l := w.letterByName(alpha, letters[i%len(letters)])
		if l == nil {
			return "harness: unknown letter"
		}
		out, err := b.exec(l)
		if err != nil || out.results[0].Panic != "" {
			return fmt.Sprintf("harness: block %d failed: %v %s", i+1, err, out.results[0].Panic)
		}
		// remember what this height holds
		var h hash.Hash
		copy(h[:], n.AppHash)
		root := node.Root{Version: uint64(n.Height), Type: node.RootTypeState, Hash: h}
		t := mkvs.NewWithRoot(nil, n.Srv.State().Storage().NodeDB(), root, mkvs.WithoutWriteLog())
		vals := map[string][]byte{}
		it := t.NewIterator(chain.Ctx)
		for _, k := range keys {
			it.Seek(k)
			for c := 0; it.Valid() && c < 3; c++ {
				vals[string(it.Key())] = append([]byte{}, it.Value()...)
				it.Next()
			}
		}
		it.Close()
		t.Close()
		snaps[n.Height] = snap{root, vals}
		if a.Prunes&(1<<uint(i)) == 0 {
			continue
		}
		if err := abci.VerifPrune(n.Srv, uint64(n.Height)); err != nil {
			return fmt.Sprintf("prune run after block %d failed: %v", n.Height, err)
		}
		// keep-last-N: the latest version and the N versions before it stay readable
		for v := n.Height; v >= 1 && v >= n.Height-int64(a.Keep); v-- {
			s, ok := snaps[v]
			if !ok {
				continue
			}
			t := mkvs.NewWithRoot(nil, n.Srv.State().Storage().NodeDB(), s.root, mkvs.WithoutWriteLog())
			for k, want := range s.vals {
				got, err := t.Get(chain.Ctx, []byte(k))
				if err != nil {
					t.Close()
					return fmt.Sprintf("after the prune run at height %d (keep %d) version %d, which must be kept, cannot be read: %v", n.Height, a.Keep, v, err)
				}
				if !bytes.Equal(got, want) {
					t.Close()
					return fmt.Sprintf("after the prune run at height %d (keep %d) version %d reads a different value for key %x", n.Height, a.Keep, v, k)
				}
			}
			t.Close()
		}
		if lr := abci.VerifLastRetained(n.Srv); lr > uint64(n.Height) || (uint64(n.Height) > a.Keep && lr > uint64(n.Height)-a.Keep) {
			return fmt.Sprintf("after the prune run at height %d (keep %d) the last retained version is reported as %d", n.Height, a.Keep, lr)
		}
	}
	return ""
}

func runC06Pruner(r *ev.Run) {
	w, err := newWorld(chain.GenesisOptions{EpochInterval: 3})
	if err != nil {
		r.HarnessError("world: %v", err)
		r.Finish()
	}
	alpha := w.alphabet("c01")
	if r.Replay != "" {
		var a c06pArtefact
		v, err := ev.LoadReplay(r.Replay)
		if err != nil {
			fmt.Println("cannot load replay:", err)
			os.Exit(2)
		}
		bb, _ := json.Marshal(v.Artefact)
		_ = json.Unmarshal(bb, &a)
		if what := c06pRun(w, alpha, a); what != "" {
			fmt.Printf("VIOLATION property=C06 replay=%s\n  what: %s\n", r.Replay, what)
			os.Exit(1)
		}
		fmt.Println("replay: property held")
		os.Exit(0)
	}
	blocks := 6
	if r.Thorough() {
		blocks = 8
	}
	var jobs []c06pArtefact
	for _, be := range []string{"badger", "pathbadger"} {
		for keep := uint64(1); keep <= 3; keep++ {
			for mask := uint(1); mask < 1<<uint(blocks); mask++ {
				jobs = append(jobs, c06pArtefact{Backend: be, Keep: keep, Blocks: blocks, Prunes: mask})
			}
		}
	}
	ev.ParallelRange(len(jobs), r.Seed, func(i int) {
		if r.Expired() {
			r.Cap("deadline")
			return
		}
		a := jobs[i]
		what := c06pRun(w, alpha, a)
		r.Add("pruner_schedules", 1)
		r.Add("transitions", int64(a.Blocks))
		if what == "" {
			return
		}
		if strings.HasPrefix(what, "harness:") {
			r.HarnessError("%s %+v", what, a)
			return
		}
		r.Violate(ev.Violation{Engine: "chainmc-pruner", Key: fmt.Sprintf("c06 pruner %s keep=%d blocks=%d prunes=%b", a.Backend, a.Keep, a.Blocks, a.Prunes),
			What: fmt.Sprintf("consensus state pruner, %s, keep-last-%d, %d blocks, prune runs after the blocks of mask %b: %s", a.Backend, a.Keep, a.Blocks, a.Prunes, what), Artefact: a})
	})
	r.Set("pruner_rule", "consensus state pruner (keep-last-N strategy of the real application state, on disk): for N in 1..3, both backends and every non-empty subset of the commits of a 6 (quick) / 8 (thorough) block chain after which a prune run happens (the prune worker's ticker may fire after any block): after every prune run the latest version and the N versions before it are read back (keys under eight state prefixes) and must equal what the same replica held at that height, and the reported last retained version must not exceed latest - N")
	r.Alias("traces_validated_against_impl", "transitions")
	r.Finish()
}
