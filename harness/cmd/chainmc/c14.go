package main

import (
	beacon "github.com/oasisprotocol/oasis-core/go/beacon/api"
	"encoding/json"
	"fmt"
	"math/big"
	"os"
	"sort"
	"strings"
	"sync"

	"github.com/oasisprotocol/oasis-core/go/common/crypto/signature"
	"github.com/oasisprotocol/oasis-core/go/common/node"
	beaconState "github.com/oasisprotocol/oasis-core/go/consensus/cometbft/apps/beacon/state"
	registryState "github.com/oasisprotocol/oasis-core/go/consensus/cometbft/apps/registry/state"
	schedulerState "github.com/oasisprotocol/oasis-core/go/consensus/cometbft/apps/scheduler/state"
	stakingState "github.com/oasisprotocol/oasis-core/go/consensus/cometbft/apps/staking/state"
	registry "github.com/oasisprotocol/oasis-core/go/registry/api"
	scheduler "github.com/oasisprotocol/oasis-core/go/scheduler/api"
	staking "github.com/oasisprotocol/oasis-core/go/staking/api"

	"verif/harness/internal/chain"
	"verif/harness/internal/ev"
)

// C14: elections are deterministic and elect only eligible nodes.

func epochOf(n *chain.Node) uint64 {
	t := n.Tree()
	defer t.Close()
	e, _, err := beaconState.NewImmutableState(t).GetEpoch(chain.Ctx)
	if err != nil {
		return 0
	}
	return uint64(e)
}

// validatorPreconditionFails mirrors the scheduler's validator election on the committed state of n
// for the epoch that the next block starts (if it starts one): true if fewer than MinValidators
// validators could be elected, i.e. the documented precondition of C10 ("enough stake-eligible
// validators remain to elect a validator set") does not hold for the next block.
func validatorPreconditionFails(n *chain.Node) bool {
	if n.Height == 0 {
		return false
	}
	t := n.Tree()
	defer t.Close()
	bs := beaconState.NewImmutableState(t)
	f, err := bs.GetFutureEpoch(chain.Ctx)
	if err != nil || f == nil || f.Height != n.Height+1 {
		return false // the next block does not elect
	}
	epoch := f.Epoch
	rs := registryState.NewImmutableState(t)
	ss := stakingState.NewImmutableState(t)
	params, err := schedulerState.NewImmutableState(t).ConsensusParameters(chain.Ctx)
	if err != nil {
		return false
	}
	thresholds, _ := ss.Thresholds(chain.Ctx)
	nodes, _ := rs.Nodes(chain.Ctx)
	perEntity := map[signature.PublicKey]int{}
	elected := 0
	for _, nd := range nodes {
		if nd.IsExpired(epoch) || !nd.HasRoles(node.RoleValidator) {
			continue
		}
		if status, err := rs.NodeStatus(chain.Ctx, nd.ID); err == nil && status.IsFrozen() {
			continue
		}
		if !params.DebugBypassStake {
			acct, err := ss.Account(chain.Ctx, staking.NewAddress(nd.EntityID))
			if err != nil || acct.Escrow.CheckStakeClaims(thresholds) != nil {
				continue
			}
		}
		if perEntity[nd.EntityID] >= params.MaxValidatorsPerEntity {
			continue
		}
		perEntity[nd.EntityID]++
		elected++
	}
	if elected > params.MaxValidators {
		elected = params.MaxValidators
	}
	return elected == 0 || elected < params.MinValidators
}

// electionInvariants recomputes eligibility, limits and ordering from registry
// and staking state and compares with the validator set the scheduler recorded
// and with the set handed to the consensus engine.
func electionInvariants(n *chain.Node) string {
	t := n.Tree()
	defer t.Close()
	rs := registryState.NewImmutableState(t)
	ss := stakingState.NewImmutableState(t)
	sch := schedulerState.NewImmutableState(t)
	epoch, _, err := beaconState.NewImmutableState(t).GetEpoch(chain.Ctx)
	if err != nil {
		return "cannot read epoch: " + err.Error()
	}
	params, err := sch.ConsensusParameters(chain.Ctx)
	if err != nil {
		return "cannot read scheduler parameters: " + err.Error()
	}
	vals, err := sch.CurrentValidators(chain.Ctx)
	if err != nil {
		return "cannot read validators: " + err.Error()
	}
	thresholds, _ := ss.Thresholds(chain.Ctx)
	nodes, _ := rs.Nodes(chain.Ctx)
	byConsensus := map[signature.PublicKey]*node.Node{}
	for _, nd := range nodes {
		byConsensus[nd.Consensus.ID] = nd
	}
	stakeOf := func(ent signature.PublicKey) *big.Int {
		acct, err := ss.Account(chain.Ctx, staking.NewAddress(ent))
		if err != nil {
			return new(big.Int)
		}
		return acct.Escrow.Active.Balance.ToBigInt()
	}
	eligible := func(nd *node.Node) string {
		if nd.IsExpired(epoch) {
			return "expired"
		}
		if !nd.HasRoles(node.RoleValidator) {
			return "lacks the validator role"
		}
		status, err := rs.NodeStatus(chain.Ctx, nd.ID)
		if err == nil && status.IsFrozen() {
			return "frozen"
		}
		acct, err := ss.Account(chain.Ctx, staking.NewAddress(nd.EntityID))
		if err != nil {
			return "entity account unreadable"
		}
		if err := acct.Escrow.CheckStakeClaims(thresholds); err != nil {
			return "entity escrow does not cover its stake claims"
		}
		return ""
	}
	if len(vals) > params.MaxValidators {
		return fmt.Sprintf("%d validators elected, limit %d", len(vals), params.MaxValidators)
	}
	perEntity := map[signature.PublicKey]int{}
	elected := map[signature.PublicKey]bool{} // entities
	minElectedStake := (*big.Int)(nil)
	type vp struct {
		stake *big.Int
		power int64
	}
	var vps []vp
	for pk, v := range vals {
		nd := byConsensus[pk]
		if nd == nil {
			return fmt.Sprintf("validator with consensus key %s is not a registered node", pk)
		}
		if !nd.ID.Equal(v.ID) || !nd.EntityID.Equal(v.EntityID) {
			return fmt.Sprintf("validator record %s/%s does not match the registered node %s/%s", v.ID, v.EntityID, nd.ID, nd.EntityID)
		}
		if why := eligible(nd); why != "" {
			return fmt.Sprintf("elected validator %s (entity %s) is %s at epoch %d", nd.ID, nd.EntityID, why, epoch)
		}
		perEntity[nd.EntityID]++
		if perEntity[nd.EntityID] > params.MaxValidatorsPerEntity {
			return fmt.Sprintf("entity %s has %d validators, limit %d", nd.EntityID, perEntity[nd.EntityID], params.MaxValidatorsPerEntity)
		}
		elected[nd.EntityID] = true
		s := stakeOf(nd.EntityID)
		if minElectedStake == nil || s.Cmp(minElectedStake) < 0 {
			minElectedStake = s
		}
		vps = append(vps, vp{s, v.VotingPower})
	}
	// VRF beacon: when at least MinValidators eligible validator nodes submitted a proof in the previous
	// epoch, validator candidates are the nodes with such a proof (they are ordered by their hashed betas);
	// otherwise the election falls back to all eligible nodes.
	vrfFilter := false
	var prevPi map[signature.PublicKey]*signature.Proof
	if bp, err := beaconState.NewImmutableState(t).ConsensusParameters(chain.Ctx); err == nil && bp.Backend == beacon.BackendVRF {
		if vs, err := beaconState.NewImmutableState(t).VRFState(chain.Ctx); err == nil && vs != nil && vs.PrevState != nil {
			prevPi = vs.PrevState.Pi
			withPi := 0
			for _, nd := range nodes {
				if eligible(nd) == "" && prevPi[nd.ID] != nil {
					withPi++
				}
			}
			vrfFilter = withPi >= params.MinValidators
		}
	}
	// ordering: no unelected eligible entity has strictly more stake than an elected one when the
	// limit was reached; below the limit every eligible entity is represented.
	for _, nd := range nodes {
		if elected[nd.EntityID] || eligible(nd) != "" {
			continue
		}
		if vrfFilter && prevPi[nd.ID] == nil {
			continue
		}
		if len(vals) < params.MaxValidators {
			return fmt.Sprintf("only %d of %d validator slots are filled although node %s of entity %s is eligible", len(vals), params.MaxValidators, nd.ID, nd.EntityID)
		}
		if minElectedStake != nil && stakeOf(nd.EntityID).Cmp(minElectedStake) > 0 {
			return fmt.Sprintf("eligible entity %s with stake %s was not elected while an elected entity has only %s", nd.EntityID, stakeOf(nd.EntityID), minElectedStake)
		}
	}
	sort.Slice(vps, func(i, j int) bool { return vps[i].stake.Cmp(vps[j].stake) < 0 })
	for i := 1; i < len(vps); i++ {
		if vps[i].power < vps[i-1].power {
			return fmt.Sprintf("voting power decreases with stake: stake %s has power %d, stake %s has power %d", vps[i-1].stake, vps[i-1].power, vps[i].stake, vps[i].power)
		}
	}
	// the set handed to the consensus engine (initial set + all validator updates) equals the recorded one
	var a, b []string
	for pk, v := range vals {
		a = append(a, fmt.Sprintf("%x=%d", pk[:], v.VotingPower))
	}
	for _, v := range n.Vals {
		b = append(b, fmt.Sprintf("%x=%d", v.PubKey, v.Power))
	}
	sort.Strings(a)
	sort.Strings(b)
	if wv := committeeInvariants(n); wv != "" {
		return wv
	}
	if strings.Join(a, ",") != strings.Join(b, ",") {
		return fmt.Sprintf("validator updates turned the consensus engine's set into {%s} but the elected set is {%s}", strings.Join(b, ","), strings.Join(a, ","))
	}
	return ""
}

// committeeInvariants: every runtime's executor committee is exactly sized, valid for the
// current epoch and consists of eligible nodes only; a runtime without a committee could not
// have had one.
func committeeInvariants(n *chain.Node) string {
	t := n.Tree()
	defer t.Close()
	rs := registryState.NewImmutableState(t)
	ss := stakingState.NewImmutableState(t)
	sch := schedulerState.NewImmutableState(t)
	epoch, _, err := beaconState.NewImmutableState(t).GetEpoch(chain.Ctx)
	if err != nil {
		return "cannot read epoch: " + err.Error()
	}
	params, err := sch.ConsensusParameters(chain.Ctx)
	if err != nil {
		return "cannot read scheduler parameters: " + err.Error()
	}
	thresholds, _ := ss.Thresholds(chain.Ctx)
	runtimes, _ := rs.Runtimes(chain.Ctx)
	nodes, _ := rs.Nodes(chain.Ctx)
	// VRF beacon: a committee is elected only when the previous epoch's alpha was of high quality, and
	// only from nodes that submitted a proof in the previous epoch and have been registered for a whole epoch
	var prevVRF *beacon.PrevVRFState
	useVRF := false
	if bp, err := beaconState.NewImmutableState(t).ConsensusParameters(chain.Ctx); err == nil && bp.Backend == beacon.BackendVRF {
		useVRF = true
		if vs, err := beaconState.NewImmutableState(t).VRFState(chain.Ctx); err == nil && vs != nil {
			prevVRF = vs.PrevState
		}
	}
	for _, rt := range runtimes {
		if rt.Kind != registry.KindCompute {
			continue
		}
		ad := rt.ActiveDeployment(epoch)
		eligible := map[signature.PublicKey]string{} // node -> reason it is NOT eligible ("" = eligible)
		var pool []*node.Node
		for _, nd := range nodes {
			why := ""
			status, err := rs.NodeStatus(chain.Ctx, nd.ID)
			switch {
			case nd.IsExpired(epoch):
				why = "expired"
			case err == nil && status.IsFrozen():
				why = "frozen"
			case !nd.HasRoles(node.RoleComputeWorker):
				why = "without the compute worker role"
			case ad == nil:
				why = "serving a runtime without active deployment"
			default:
				found := false
				for _, nrt := range nd.Runtimes {
					if nrt.ID.Equal(&rt.ID) && nrt.Version.ToU64() == ad.Version.ToU64() {
						found = true
					}
				}
				if !found {
					why = "not registered for the runtime's active version"
				} else if err == nil && status.IsSuspended(rt.ID, epoch) {
					why = "suspended for the runtime"
				}
			}
			if why == "" && useVRF {
				switch {
				case err != nil || status.ElectionEligibleAfter == beacon.EpochInvalid || epoch <= status.ElectionEligibleAfter:
					why = "not yet eligible for elections (registered less than a full epoch ago)"
				case prevVRF == nil || prevVRF.Pi[nd.ID] == nil:
					why = "without a VRF proof in the previous epoch"
				}
			}
			if why == "" && !params.DebugBypassStake {
				acct, err := ss.Account(chain.Ctx, staking.NewAddress(nd.EntityID))
				if err != nil || acct.Escrow.CheckStakeClaims(thresholds) != nil {
					why = "owned by an entity whose escrow does not cover its stake claims"
				}
			}
			eligible[nd.ID] = why
			if why == "" {
				pool = append(pool, nd)
			}
		}
		sizes := map[scheduler.Role]int{scheduler.RoleWorker: int(rt.Executor.GroupSize), scheduler.RoleBackupWorker: int(rt.Executor.GroupBackupSize)}
		cs := rt.Constraints[scheduler.KindComputeExecutor]
		// per role: the number of pool nodes that survive the per-entity limit, and the minimum pool size
		possible := true
		why := ""
		if useVRF && (prevVRF == nil || !prevVRF.CanElectCommittees) {
			possible = false
			why = "the previous epoch's VRF alpha was not of high quality"
		}
		for role, want := range sizes {
			if want == 0 {
				continue
			}
			avail := len(pool)
			if mn := cs[role].MaxNodes; mn != nil && mn.Limit > 0 {
				per := map[signature.PublicKey]int{}
				avail = 0
				for _, nd := range pool {
					if per[nd.EntityID] < int(mn.Limit) {
						per[nd.EntityID]++
						avail++
					}
				}
			}
			if mn := cs[role].MaxNodes; mn != nil && mn.Limit == 0 {
				avail = 0 // a limit of no nodes per entity: nobody may sit in the committee
			}
			minPool := 0
			if cs[role].MinPoolSize != nil {
				minPool = int(cs[role].MinPoolSize.Limit)
			}
			if avail < minPool || avail < want {
				possible = false
				why = fmt.Sprintf("%d eligible nodes for role %s, %d wanted, minimum pool %d", avail, role, want, minPool)
			}
		}
		c, err := sch.Committee(chain.Ctx, scheduler.KindComputeExecutor, rt.ID)
		if err != nil {
			return fmt.Sprintf("cannot read the committee of runtime %s: %v", rt.ID, err)
		}
		if c == nil {
			if possible && sizes[scheduler.RoleWorker] > 0 {
				return fmt.Sprintf("runtime %s has no executor committee at epoch %d although %d eligible nodes satisfy sizes %v and constraints", rt.ID, epoch, len(pool), sizes)
			}
			continue
		}
		if !possible {
			return fmt.Sprintf("runtime %s has an executor committee at epoch %d although no valid committee exists (%s)", rt.ID, epoch, why)
		}
		if c.ValidFor != epoch {
			return fmt.Sprintf("runtime %s: committee is valid for epoch %d at epoch %d", rt.ID, c.ValidFor, epoch)
		}
		if !c.RuntimeID.Equal(&rt.ID) || c.Kind != scheduler.KindComputeExecutor {
			return fmt.Sprintf("runtime %s: committee record is for runtime %s kind %s", rt.ID, c.RuntimeID, c.Kind)
		}
		got := map[scheduler.Role]int{}
		seen := map[string]bool{}
		perEnt := map[scheduler.Role]map[signature.PublicKey]int{scheduler.RoleWorker: {}, scheduler.RoleBackupWorker: {}}
		byID := map[signature.PublicKey]*node.Node{}
		for _, nd := range nodes {
			byID[nd.ID] = nd
		}
		backupSeen := false
		for _, m := range c.Members {
			got[m.Role]++
			k := fmt.Sprintf("%s/%s", m.Role, m.PublicKey)
			if seen[k] {
				return fmt.Sprintf("runtime %s: node %s appears twice as %s", rt.ID, m.PublicKey, m.Role)
			}
			seen[k] = true
			why, known := eligible[m.PublicKey]
			if !known {
				return fmt.Sprintf("runtime %s: committee member %s is not a registered node", rt.ID, m.PublicKey)
			}
			if why != "" {
				return fmt.Sprintf("runtime %s: committee member %s (%s) is %s at epoch %d", rt.ID, m.PublicKey, m.Role, why, epoch)
			}
			if m.Role == scheduler.RoleBackupWorker {
				backupSeen = true
			} else if backupSeen {
				return fmt.Sprintf("runtime %s: a worker is listed after a backup worker", rt.ID)
			}
			if pe := perEnt[m.Role]; pe != nil {
				pe[byID[m.PublicKey].EntityID]++
				if mn := cs[m.Role].MaxNodes; mn != nil && mn.Limit > 0 && pe[byID[m.PublicKey].EntityID] > int(mn.Limit) {
					return fmt.Sprintf("runtime %s: entity %s has %d committee nodes in role %s, limit %d", rt.ID, byID[m.PublicKey].EntityID, pe[byID[m.PublicKey].EntityID], m.Role, mn.Limit)
				}
			}
		}
		for role, want := range sizes {
			if got[role] != want {
				return fmt.Sprintf("runtime %s: committee has %d members in role %s, the runtime wants exactly %d", rt.ID, got[role], role, want)
			}
		}
	}
	// no committee for anything that is not a registered runtime (a suspended runtime may keep the
	// record of the last committee elected while it was active)
	all, _ := sch.AllCommittees(chain.Ctx)
	allRts, _ := rs.AllRuntimes(chain.Ctx)
	for _, c := range all {
		found := false
		for _, rt := range allRts {
			found = found || rt.ID.Equal(&c.RuntimeID)
		}
		if !found {
			return fmt.Sprintf("a committee exists for %s which is not a registered runtime", c.RuntimeID)
		}
	}
	return ""
}

type c14Artefact struct {
	Genesis chain.GenesisOptions `json:"genesis"`
	History []string             `json:"history"`
}

func runC14(r *ev.Run) {
	variants := []chain.GenesisOptions{}
	for _, mv := range []int{1, 2, 3} {
		variants = append(variants,
			chain.GenesisOptions{EpochInterval: 2, MaxValidators: mv, NoRewards: true, NodeExpiration: 12, Escrow: []uint64{1500, 2000, 3000}},
			chain.GenesisOptions{EpochInterval: 2, MaxValidators: mv, NoRewards: true, NodeExpiration: 12, Escrow: []uint64{1500, 2000, 2000}, ExtraNodes: true, MaxPerEntity: 1}, // tie + two nodes of one entity
		)
	}
	variants = append(variants,
		chain.GenesisOptions{EpochInterval: 2, MaxValidators: 3, NoRewards: true, NodeExpiration: 12, Escrow: []uint64{1500, 2000, 3000}, ExtraNodes: true, MaxPerEntity: 2},
		chain.GenesisOptions{EpochInterval: 2, MaxValidators: 2, NoRewards: true, NodeExpiration: 12, Escrow: []uint64{1500, 350, 3000}}, // entity 1 just above its claims (100 + 200)
		chain.GenesisOptions{EpochInterval: 2, MaxValidators: 3, NoRewards: true, NodeExpiration: 12, Escrow: []uint64{1500, 299, 3000}}, // entity 1 below its claims at genesis
	)
	// tiny stakes around the voting-power unit (16 base units per vote), thresholds zero
	// (entity 0 additionally holds a 500-unit delegation of account 0, so the tiny stakes go to entities 1 and 2)
	tiny := chain.GenesisOptions{EpochInterval: 2, MaxValidators: 3, NoRewards: true, NodeExpiration: 12, ZeroThresholds: true, Escrow: []uint64{1000, 7, 40}}
	tiny2 := chain.GenesisOptions{EpochInterval: 2, MaxValidators: 3, NoRewards: true, NodeExpiration: 12, ZeroThresholds: true, Escrow: []uint64{1000, 15, 16}}
	variants = append(variants, tiny, tiny2)
	// a compute runtime served by all nodes: committee sizes, backup workers, per-entity limits,
	// minimum pool sizes, a second compute node of entity 1, nodes expiring mid-search
	rt1 := chain.GenesisOptions{EpochInterval: 2, MaxValidators: 3, NoRewards: true, NodeExpiration: 14, Runtime: true, RtGroupSize: 2, RtBackupSize: 1}
	rt2 := chain.GenesisOptions{EpochInterval: 2, MaxValidators: 3, NoRewards: true, NodeExpiration: 14, Runtime: true, RtGroupSize: 3, RtMinPool: 3, NodeExpirations: []uint64{14, 5, 14}}
	rt3 := chain.GenesisOptions{EpochInterval: 2, MaxValidators: 3, NoRewards: true, NodeExpiration: 14, Runtime: true, RtGroupSize: 2, RtBackupSize: 2, RtMaxNodesPerEnt: 1, ExtraNodes: true, MaxPerEntity: 2}
	rt4 := chain.GenesisOptions{EpochInterval: 2, MaxValidators: 2, NoRewards: true, NodeExpiration: 14, Runtime: true, RtGroupSize: 1, RtMinPool: 3, Escrow: []uint64{1500, 650, 3000}} // entity 1 just above its claims (100+200+300)
	// four compute nodes of three entities, one node per entity allowed: the raw pool (4) meets the
	// minimum pool size, the pool after the per-entity limit (3) does not
	rt6 := chain.GenesisOptions{EpochInterval: 2, MaxValidators: 3, NoRewards: true, NodeExpiration: 14, Runtime: true, RtGroupSize: 2, RtMinPool: 4, RtMaxNodesPerEnt: 1, ExtraNodes: true, MaxPerEntity: 2}
	// a second deployment becomes active at epoch 3; node 1 serves the superseded version only:
	// group size 2 -> committee of nodes 0 and 2; (rt8) group size 3 -> no committee
	rt7 := chain.GenesisOptions{EpochInterval: 2, MaxValidators: 3, NoRewards: true, NodeExpiration: 14, Runtime: true, RtGroupSize: 2, RtTwoVersions: true}
	rt8 := chain.GenesisOptions{EpochInterval: 2, MaxValidators: 3, NoRewards: true, NodeExpiration: 14, Runtime: true, RtGroupSize: 3, RtMinPool: 3, RtTwoVersions: true}
	// VRF beacon (the production backend): committees only from nodes with a proof in the previous epoch and
	// only after a high-quality alpha; validators of tied entities ordered by hashed betas
	vrf1 := chain.GenesisOptions{EpochInterval: 3, MaxValidators: 3, NoRewards: true, NodeExpiration: 24, Runtime: true, RtGroupSize: 2, RtBackupSize: 1, VRF: true}
	vrf2 := chain.GenesisOptions{EpochInterval: 3, MaxValidators: 2, NoRewards: true, NodeExpiration: 24, Escrow: []uint64{2000, 2000, 2000}, VRF: true}
	vrf3 := chain.GenesisOptions{EpochInterval: 4, MaxValidators: 3, NoRewards: true, NodeExpiration: 24, Runtime: true, RtGroupSize: 1, RtMinPool: 2, VRF: true, VRFThreshold: 3, VRFDelay: 2}
	rt5 := chain.GenesisOptions{EpochInterval: 2, MaxValidators: 3, NoRewards: true, NodeExpiration: 14, Runtime: true, RtGroupSize: 3, RtMinPool: 1, NodeExpirations: []uint64{14, 3, 14}} // pool falls below the group size
	variants = append(variants, rt1, rt2, rt3, rt4, rt5, rt6, rt7, rt8, vrf1, vrf2, vrf3)
	if !r.Thorough() {
		variants = []chain.GenesisOptions{variants[2], variants[3], variants[5], variants[6], variants[7], tiny, tiny2, rt1, rt2, rt3, rt4, rt5, rt6, rt7, rt8, vrf1, vrf2, vrf3}
	}
	if os.Getenv("VERIF_C14_ONLY_VRF") != "" {
		variants = []chain.GenesisOptions{vrf1, vrf2, vrf3}
	}
	depth := 2
	if r.Thorough() {
		depth = 3
	}
	specs := []rspec{{Name: "P/badger", Path: chain.PathPropose, Backend: "badger"}, {Name: "P1/pathbadger", Path: chain.PathPropose, Backend: "pathbadger", Ident: 1}, {Name: "D/pathbadger+restart", Path: chain.PathReplay, Backend: "pathbadger", Disk: true, Restart: true}}
	if !r.Thorough() {
		specs = specs[:2] // the restarted on-disk replica only in the thorough tier (C01 has it in both)
	}
	mkAlpha := func(w *world) []letter {
		k := w.keys
		E := func(i int) staking.Address { return staking.NewAddress(k.Entities[i].Public()) }
		mk := func(name string, t txT) letter { t.Name = name; return letter{Name: name, Txs: []txT{t}} }
		ls := []letter{{Name: "empty-block"}}
		esc := func(i int) uint64 {
			if i < len(w.opts.Escrow) {
				return w.opts.Escrow[i]
			}
			return uint64(1000 * (i + 1))
		}
		// stake moving across thresholds and across each other
		ls = append(ls,
			mk("reclaim(e1<-e1,all-50sh)", txT{Signer: k.Entities[1], Method: staking.MethodReclaimEscrow, Body: staking.ReclaimEscrow{Account: E(1), Shares: qq(esc(1) - 50)}}),
			mk("reclaim(e2<-e2,half)", txT{Signer: k.Entities[2], Method: staking.MethodReclaimEscrow, Body: staking.ReclaimEscrow{Account: E(2), Shares: qq(esc(2) / 2)}}),
			mk("reclaim(e0<-e0,900sh)", txT{Signer: k.Entities[0], Method: staking.MethodReclaimEscrow, Body: staking.ReclaimEscrow{Account: E(0), Shares: qq(900)}}),
			mk("escrow(e0->e0,2000)", txT{Signer: k.Entities[0], Method: staking.MethodAddEscrow, Body: staking.Escrow{Account: E(0), Amount: qq(2000)}}),
			mk("escrow(a1->e1,1)", txT{Signer: k.Accounts[1], Method: staking.MethodAddEscrow, Body: staking.Escrow{Account: E(1), Amount: qq(10)}}),
			mk("escrow(a1->e1,1000)", txT{Signer: k.Accounts[1], Method: staking.MethodAddEscrow, Body: staking.Escrow{Account: E(1), Amount: qq(1000)}}),
		)
		for _, t := range w.registryTxs() {
			switch t.Name {
			case "node2 roles=validator->observer", "node0-renew(exp6)", "entity1-update nodes=[1,3]", "node3-new for e1", "node1 expired descriptor(exp1)":
				ls = append(ls, letter{Name: t.Name, Txs: []txT{t}})
			}
		}
		ls = append(ls, letter{Name: "evidence=dupvote:0", Evidence: "dupvote:0"}, letter{Name: "evidence=dupvote:2", Evidence: "dupvote:2"}, letter{Name: "votes=none", Votes: "none"})
		if w.opts.VRF {
			ls = append(ls, vrfPolicyLetters()...)
			ls = append(ls, vrfLetters()[2:]...)
		}
		if w.opts.Runtime {
			for _, t := range w.runtimeTxs() {
				switch t.Name {
				case "runtime-update(e0,max-in-msgs+1)", "runtime-update(e0,group size 0)", "runtime-new(e1)", "runtime-update(e0,owner->e1)",
					"runtime-update(e0,max nodes per entity 0)", "runtime-update(e0,min pool 200)",
					"node0-renew+compute(exp13)", "node3-new validator+compute for e1", "node3-new compute for e1", "node3-new observer+runtime for e1":
					ls = append(ls, letter{Name: t.Name, Txs: []txT{t}})
				}
			}
			for _, rs := range []roundSpec{{Who: "all"}, {Who: "scheduler"}, {Who: "failure"}, {Who: "all", Msgs: "update-runtime"}} {
				rs := rs
				ls = append(ls, letter{Name: rs.String(), Round: &rs})
			}
		}
		return ls
	}
	run := func(w *world, alpha []letter, h []int) (key, what string) {
		b, err := w.newBundle(specs)
		if err != nil {
			if strings.Contains(err.Error(), "InitChain") {
				return "", "" // genesis that cannot elect a validator set: documented precondition
			}
			return "", "harness: " + err.Error()
		}
		defer b.close()
		fill := &alpha[0]
		var vm *vrfModel
		if w.opts.VRF {
			fill = &letter{Name: "vrf-auto", VRF: &vrfSpec{Kind: "auto"}}
			vm = newVRFModel(w)
		}
		step := func(l *letter) (string, bool) {
			if l == &alpha[0] {
				l = fill
			}
			out, err := b.exec(l)
			if err != nil {
				return "harness: " + err.Error(), false
			}
			if vm != nil && out.results[0].Panic == "" {
				if wv := vm.observe(b, l, out); wv != "" {
					return "VRF beacon bookkeeping: " + wv, false
				}
			}
			if out.results[0].Panic != "" {
				if os.Getenv("VERIF_DEBUG") != "" {
					fmt.Fprintln(os.Stderr, "PRUNE:", l.Name, out.results[0].Panic)
				}
				return "", false // C10's business (incl. the min-validators precondition)
			}
			if wv := b.compareReplicas(out); wv != "" {
				return "replicas disagree on the election: " + wv, false
			}
			return "", true
		}
		// runtime genesis: warm up until the first executor committee exists
		if w.opts.Runtime {
			nWarm := 2*w.opts.EpochInterval - 1
			if w.opts.VRF {
				nWarm = 2 * w.opts.EpochInterval // the first committee is elected at the start of epoch 3 (see runHistory)
			}
			for i := int64(0); i < nWarm; i++ {
				if wv, ok := step(&alpha[0]); wv != "" || !ok {
					return "", wv
				}
			}
		}
		// one empty block first so that evidence can refer to a block
		for i, li := range append([]int{0}, h...) {
			before := epochOf(b.ref())
			wv, ok := step(&alpha[li])
			if wv != "" || !ok {
				return "", wv
			}
			// if this block did not cross an epoch boundary, add an empty one that does
			if epochOf(b.ref()) == before {
				wv, ok = step(&alpha[0])
				if wv != "" || !ok {
					return "", wv
				}
			}
			if epochOf(b.ref()) != before && len(alpha[li].Txs) == 0 || epochOf(b.ref()) != before {
				// evaluate only when the transition block itself carried no transactions
			}
			_ = i
			// advance to the next transition with empty blocks and evaluate there
			for guard := 0; guard < 3 || guard < int(w.opts.EpochInterval); guard++ {
				e0 := epochOf(b.ref())
				wv, ok = step(&alpha[0])
				if wv != "" || !ok {
					return "", wv
				}
				if epochOf(b.ref()) != e0 {
					if wv := electionInvariants(b.ref()); wv != "" {
						return "", fmt.Sprintf("after [%s] and the next epoch transition (height %d, epoch %d): %s", alpha[li].Name, b.ref().Height, epochOf(b.ref()), wv)
					}
					break
				}
			}
		}
		key = fmt.Sprintf("%d/%x%s", b.ref().Height, b.ref().AppHash, b.vrfPolicyKey())
		if w.opts.VRF {
			// the effect of a change in VRF participation reaches the elections one and two epochs
			// later: follow the history with two more epochs of well-behaved (policy-abiding) blocks
			for n, e0 := 0, epochOf(b.ref()); n < 2*int(w.opts.EpochInterval); n++ {
				wv, ok := step(fill)
				if wv != "" || !ok {
					return "", wv
				}
				if e := epochOf(b.ref()); e != e0 {
					e0 = e
					if wv := electionInvariants(b.ref()); wv != "" {
						return "", fmt.Sprintf("%d epoch transition(s) after the history (height %d, epoch %d): %s", n/int(w.opts.EpochInterval)+1, b.ref().Height, e, wv)
					}
				}
			}
		}
		return key, ""
	}
	if r.Replay != "" {
		v, err := ev.LoadReplay(r.Replay)
		if err != nil {
			fmt.Println("cannot load replay:", err)
			os.Exit(2)
		}
		bb, _ := json.Marshal(v.Artefact)
		var a c14Artefact
		_ = json.Unmarshal(bb, &a)
		w, err := newWorld(a.Genesis)
		if err != nil {
			fmt.Println("world:", err)
			os.Exit(2)
		}
		alpha := mkAlpha(w)
		var h []int
		for _, nm := range a.History {
			for i, l := range alpha {
				if l.Name == nm {
					h = append(h, i)
				}
			}
		}
		_, what := run(w, alpha, h)
		if what != "" {
			fmt.Printf("VIOLATION property=C14 replay=%s\n  what: %s\n", r.Replay, what)
			os.Exit(1)
		}
		fmt.Println("replay: property held")
		os.Exit(0)
	}
	// thorough tier (time budget): every configuration at the quick depth first, then the deeper level
	passDepths := []int{depth}
	if depth > 2 {
		passDepths = []int{2, depth}
	}
	for pi, pdepth := range passDepths {
	for vi, opts := range variants {
		w, err := newWorld(opts)
		if err != nil {
			// a genesis whose validators cannot be elected is outside the property (precondition)
			if pi == 0 {
				r.Add("genesis_rejected_by_sanity_check", 1)
			}
			continue
		}
		alpha := mkAlpha(w)
		frontier := [][]int{{}}
		seen := map[string]bool{}
		statesBefore := 0
		var mu sync.Mutex
		for level := 1; level <= pdepth && len(frontier) > 0; level++ {
			var jobs [][]int
			for _, h := range frontier {
				for li := range alpha {
					jobs = append(jobs, append(append([]int{}, h...), li))
				}
			}
			var next [][]int
			ev.ParallelRange(len(jobs), r.Seed, func(ji int) {
				if r.Expired() {
					r.Cap("deadline")
					return
				}
				h := jobs[ji]
				key, what := run(w, alpha, h)
				r.Add("transitions", 1)
				var hn []string
				for _, i := range h {
					hn = append(hn, alpha[i].Name)
				}
				if what != "" {
					if strings.HasPrefix(what, "harness:") {
						r.HarnessError("%s %v", what, hn)
						return
					}
					r.Violate(ev.Violation{Engine: "chainmc", Key: fmt.Sprintf("c14 genesis#%d [%s]", vi, strings.Join(hn, " | ")), What: fmt.Sprintf("genesis variant %d (max validators %d, per entity %d, escrow %v, second node for entity 1: %v), history [%s]: %s", vi, opts.MaxValidators, opts.MaxPerEntity, opts.Escrow, opts.ExtraNodes, strings.Join(hn, " | "), what), Artefact: c14Artefact{Genesis: opts, History: hn}})
					return
				}
				if key == "" {
					r.Add("pruned_by_precondition", 1)
					return
				}
				r.Outcome(key)
				mu.Lock()
				if !seen[key] {
					seen[key] = true
					next = append(next, h)
				}
				mu.Unlock()
				if ji%97 == 0 {
					r.Sample(map[string]any{"genesis_variant": vi, "history": hn}, 6)
				}
			})
			frontier = next
			if pi > 0 && level == passDepths[pi-1] {
				statesBefore = len(seen)
			}
		}
		r.Add("states", int64(len(seen)-statesBefore))
	}
	}
	r.Set("genesis_variants", len(variants))
	r.Set("depth", depth)
	r.Alias("traces_validated_against_impl", "transitions")
	r.Set("rule", "for each genesis configuration (validator limit 1..3, per-entity limit 1..2, stake distributions with a tie, an entity with two validator nodes, escrow just above / below the entity's claims) breadth-first search over histories of letters that move stake across thresholds and across other entities, change roles, add / renew / expire nodes, slash and freeze validators; after every letter the chain is advanced with empty blocks over the next epoch transition (rewards disabled so that the post-block stake is the election-time stake) and the recorded validator set is compared with a recomputation from registry and staking state: registered, unexpired, unfrozen, validator role, entity escrow covers all claims, count and per-entity limits, no unelected eligible entity with strictly more stake when the limit is reached, all slots filled otherwise, voting power non-decreasing in stake, and initial set + all validator updates = elected set; three replicas (two backends, one restarted before every block) must agree")
	r.Assume("runtime committees are not generated by this check (no runtime is registered)", "entropy is whatever the insecure beacon derives")
	r.Finish()
}
