package main

// VRF beacon at chain level: a "vrf" letter makes nodes submit VRF proofs over
// the current alpha (read from the beacon state in consensus state, as the
// node's beacon worker does), valid and invalid in one respect.

import (
	"fmt"
	"sort"

	"github.com/oasisprotocol/oasis-core/go/common/cbor"
	"github.com/oasisprotocol/oasis-core/go/consensus/api/transaction"

	beacon "github.com/oasisprotocol/oasis-core/go/beacon/api"
	"github.com/oasisprotocol/oasis-core/go/common/crypto/signature"
	beaconState "github.com/oasisprotocol/oasis-core/go/consensus/cometbft/apps/beacon/state"

	"verif/harness/internal/chain"
)

type vrfSpec struct {
	Who  []int  // node indices submitting
	Kind string // "" valid | wrong-epoch | stale-alpha | other-key | by-entity | flipped | twice
}

func (s vrfSpec) String() string {
	k := s.Kind
	if k == "" {
		k = "valid"
	}
	return fmt.Sprintf("vrf-prove(nodes=%v,%s)", s.Who, k)
}

func vrfState(n *chain.Node) *beacon.VRFState {
	if n.Height == 0 {
		return nil
	}
	t := n.Tree()
	defer t.Close()
	st, err := beaconState.NewImmutableState(t).VRFState(chain.Ctx)
	if err != nil {
		return nil
	}
	return st
}

// vrfTxs builds the VRFProve transactions of a letter on top of the reference state.
func (b *bundle) vrfTxs(s *vrfSpec) []txT {
	st := vrfState(b.ref())
	if s.Kind == "policy" {
		// from now on only these nodes submit proofs (sticky: later "auto" blocks honour it)
		b.vrfWho = append([]int{}, s.Who...)
		b.vrfPolicySet = true
		return b.vrfTxs(&vrfSpec{Kind: "auto"})
	}
	if s.Kind == "auto" {
		// what well-behaved nodes do: every registered genesis node that has not yet submitted a proof
		// for this epoch does so as soon as proofs are accepted; otherwise (with a live runtime) the
		// committee finalizes a round
		if st != nil && b.ref().Height+1 > st.SubmitAfter {
			var who []int
			policy := []int{0, 1, 2}
			if b.vrfPolicySet {
				policy = b.vrfWho
			}
			for _, i := range policy {
				if st.Pi[b.w.keys.Nodes[i].NodeSigner.Public()] == nil {
					who = append(who, i)
				}
			}
			if len(who) > 0 {
				return b.vrfTxs(&vrfSpec{Who: who})
			}
		}
		if b.w.opts.Runtime {
			return b.roundTxs(&roundSpec{Who: "all"})
		}
		return nil
	}
	var alpha []byte
	var epoch beacon.EpochTime
	if st != nil {
		alpha, epoch = st.Alpha, st.Epoch
	}
	var out []txT
	for _, i := range s.Who {
		id := b.w.keys.Nodes[i]
		prover := id.VRFSigner
		txSigner := signature.Signer(id.NodeSigner)
		a, e := alpha, epoch
		switch s.Kind {
		case "wrong-epoch":
			e++
		case "stale-alpha":
			a = append([]byte("stale"), alpha...)
		case "other-key":
			prover = b.w.keys.Nodes[(i+1)%3].VRFSigner
		case "by-entity":
			txSigner = b.w.keys.Entities[i%len(b.w.keys.Entities)]
		}
		if rs, ok := prover.(interface{ UnsafeSetRole(signature.SignerRole) }); ok {
			rs.UnsafeSetRole(signature.SignerVRF) // only Prove looks at the role
		}
		pi, err := signature.Prove(prover, a)
		if err != nil {
			panic(err)
		}
		raw := append([]byte{}, pi.Proof[:]...)
		if s.Kind == "flipped" {
			raw[len(raw)-1] ^= 1
		}
		t := txT{Name: fmt.Sprintf("vrf-prove(n%d)", i), Signer: txSigner, Method: beacon.MethodVRFProve, Body: beacon.VRFProve{Epoch: e, Pi: raw}}
		out = append(out, t)
		if s.Kind == "twice" {
			out = append(out, t)
		}
	}
	return out
}

// vrfLetters is the VRF part of an alphabet.
func vrfLetters() []letter {
	var ls []letter
	for _, s := range []vrfSpec{
		{Kind: "auto"}, {Who: []int{0, 1, 2}}, {Who: []int{0, 1}}, {Who: []int{2}}, {Who: []int{0}, Kind: "twice"},
		{Who: []int{0}, Kind: "wrong-epoch"}, {Who: []int{1}, Kind: "stale-alpha"}, {Who: []int{0}, Kind: "other-key"},
		{Who: []int{1}, Kind: "by-entity"}, {Who: []int{2}, Kind: "flipped"},
	} {
		s := s
		ls = append(ls, letter{Name: s.String(), VRF: &s})
	}
	return ls
}

// vrfPolicyLetters: which nodes take part in the VRF from now on.
func vrfPolicyLetters() []letter {
	var ls []letter
	for _, who := range [][]int{{0, 1, 2}, {0, 1}, {1, 2}, {2}, {}} {
		s := vrfSpec{Kind: "policy", Who: who}
		ls = append(ls, letter{Name: fmt.Sprintf("vrf-policy(nodes=%v)", who), VRF: &s})
	}
	return ls
}

func (b *bundle) vrfPolicyKey() string {
	if !b.vrfPolicySet {
		return ""
	}
	return fmt.Sprintf("/vrf%v", b.vrfWho)
}

// vrfModel is a reference model of the VRF beacon's bookkeeping, fed with the
// blocks the harness builds: which node's proof must be accepted when, which
// proofs an epoch collected, and whether committees may be elected.
type vrfModel struct {
	thr        uint64
	delay      int64
	proofs     map[uint64]map[int]bool // epoch -> nodes with an accepted proof
	epoch      uint64
	transition int64 // height at which the current epoch started
}

func newVRFModel(w *world) *vrfModel {
	return &vrfModel{thr: w.doc.Beacon.Parameters.VRFParameters.AlphaHighQualityThreshold, delay: w.doc.Beacon.Parameters.VRFParameters.ProofSubmissionDelay,
		proofs: map[uint64]map[int]bool{}, epoch: uint64(w.doc.Beacon.Base), transition: w.doc.Height}
}

func setString(m map[int]bool) string {
	var l []int
	for i := range m {
		l = append(l, i)
	}
	sort.Ints(l)
	return fmt.Sprint(l)
}

// observe is called after every block; l is the letter that was executed.
func (m *vrfModel) observe(b *bundle, l *letter, out *blockOutcome) string {
	ref := b.ref()
	e := epochOf(ref)
	if e != m.epoch {
		if e != m.epoch+1 {
			return fmt.Sprintf("epoch jumped from %d to %d", m.epoch, e)
		}
		m.epoch, m.transition = e, ref.Height
	}
	if m.proofs[e] == nil {
		m.proofs[e] = map[int]bool{}
	}
	res := out.results[0]
	full := out.blk.FullTxs()
	for ti, raw := range full {
		if ti >= len(res.TxResults) {
			break
		}
		var sig signature.Signed
		var tx transaction.Transaction
		if cbor.Unmarshal(raw, &sig) != nil || cbor.Unmarshal(sig.Blob, &tx) != nil || tx.Method != beacon.MethodVRFProve {
			continue
		}
		node := -1
		for i, id := range b.w.keys.Nodes {
			if id.NodeSigner.Public().Equal(sig.Signature.PublicKey) {
				node = i
			}
		}
		ok := res.TxResults[ti].Code == 0
		valid := l.VRF != nil && (l.VRF.Kind == "" || l.VRF.Kind == "auto" || l.VRF.Kind == "policy" || l.VRF.Kind == "twice")
		timely := ref.Height > m.transition+m.delay
		switch {
		case ok && (node < 0 || !valid || !timely):
			return fmt.Sprintf("VRF proof transaction %d (%s) succeeded although it is %s", ti, l.Name, map[bool]string{true: "premature", false: "not a valid proof by a registered node for this epoch's alpha"}[valid && node >= 0])
		case !ok && node >= 0 && node < 3 && valid && timely:
			return fmt.Sprintf("valid, timely VRF proof of node %d was rejected: %s", node, res.TxResults[ti].Log)
		case ok:
			m.proofs[e][node] = true
		}
	}
	st := vrfState(ref)
	if st == nil {
		return "no VRF state after a block"
	}
	if uint64(st.Epoch) != e {
		return fmt.Sprintf("VRF state is for epoch %d at epoch %d", st.Epoch, e)
	}
	if st.SubmitAfter != m.transition+m.delay {
		return fmt.Sprintf("VRF state accepts proofs after height %d, the epoch started at %d and the delay is %d", st.SubmitAfter, m.transition, m.delay)
	}
	got := func(pi map[signature.PublicKey]*signature.Proof) map[int]bool {
		o := map[int]bool{}
		for pk := range pi {
			idx := -1
			for i, id := range b.w.keys.Nodes {
				if id.NodeSigner.Public().Equal(pk) {
					idx = i
				}
			}
			o[idx] = true
		}
		return o
	}
	if a, c := setString(got(st.Pi)), setString(m.proofs[e]); a != c {
		return fmt.Sprintf("VRF state holds proofs of nodes %s for epoch %d, accepted proof transactions came from %s", a, e, c)
	}
	if e > uint64(b.w.doc.Beacon.Base) {
		if st.PrevState == nil {
			return fmt.Sprintf("no previous VRF state at epoch %d", e)
		}
		if a, c := setString(got(st.PrevState.Pi)), setString(m.proofs[e-1]); a != c {
			return fmt.Sprintf("previous-epoch proofs at epoch %d are of nodes %s, accepted proof transactions of epoch %d came from %s", e, a, e-1, c)
		}
		can := e >= 2 && uint64(len(m.proofs[e-2])) >= m.thr
		if st.PrevState.CanElectCommittees != can {
			return fmt.Sprintf("committee elections allowed = %v at epoch %d although epoch %d collected %d proofs (threshold %d)", st.PrevState.CanElectCommittees, e, e-2, len(m.proofs[e-2]), m.thr)
		}
		if hq := uint64(len(m.proofs[e-1])) >= m.thr; st.AlphaIsHighQuality != hq {
			return fmt.Sprintf("alpha of epoch %d is marked high quality = %v although epoch %d collected %d proofs (threshold %d)", e, st.AlphaIsHighQuality, e-1, len(m.proofs[e-1]), m.thr)
		}
	}
	return ""
}
