package main

// Key manager at chain level: a "km" letter makes key manager nodes re-register
// with an enclave init response, publish master / ephemeral secrets, or makes
// the runtime owner update the policy.  Everything is built from the key
// manager status in consensus state, as the nodes' key manager workers do,
// valid or invalid in one respect.

import (
	"crypto/sha3"
	"fmt"

	"github.com/oasisprotocol/curve25519-voi/primitives/x25519"

	beacon "github.com/oasisprotocol/oasis-core/go/beacon/api"
	"github.com/oasisprotocol/oasis-core/go/common/cbor"
	"github.com/oasisprotocol/oasis-core/go/common/crypto/signature"
	memorySigner "github.com/oasisprotocol/oasis-core/go/common/crypto/signature/signers/memory"
	"github.com/oasisprotocol/oasis-core/go/common/node"
	beaconState "github.com/oasisprotocol/oasis-core/go/consensus/cometbft/apps/beacon/state"
	secretsState "github.com/oasisprotocol/oasis-core/go/consensus/cometbft/apps/keymanager/secrets/state"
	registryState "github.com/oasisprotocol/oasis-core/go/consensus/cometbft/apps/registry/state"
	"github.com/oasisprotocol/oasis-core/go/common/crypto/hash"
	churpState "github.com/oasisprotocol/oasis-core/go/consensus/cometbft/apps/keymanager/churp/state"
	keymanager "github.com/oasisprotocol/oasis-core/go/keymanager/api"
	"github.com/oasisprotocol/oasis-core/go/keymanager/churp"
	"github.com/oasisprotocol/oasis-core/go/keymanager/secrets"
	registry "github.com/oasisprotocol/oasis-core/go/registry/api"

	"verif/harness/internal/chain"
)

type kmSpec struct {
	Kind string // reg | master | ephemeral | policy
	Who  []int  // nodes (reg: all of them; master / ephemeral: the first one publishes)
	Var  string // "" = what a well-behaved node / owner does; otherwise one deviation
	Then *kmSpec // further transactions in the same block (built on the same pre-block state)
}

func (s kmSpec) String() string {
	v := s.Var
	if v == "" {
		v = "honest"
	}
	out := fmt.Sprintf("km-%s(nodes=%v,%s)", s.Kind, s.Who, v)
	if s.Then != nil {
		out += " + " + s.Then.String()
	}
	return out
}

type kmView struct {
	churp  *churp.Status // CHURP instance 1, if it exists
	status *secrets.Status
	master *secrets.SignedEncryptedMasterSecret
	epoch  beacon.EpochTime // epoch of the block being built
}

func kmRead(n *chain.Node) *kmView {
	v := &kmView{status: &secrets.Status{ID: chain.KMRuntimeID()}}
	if n.Height == 0 {
		v.epoch = n.Doc.Beacon.Base
		return v
	}
	t := n.Tree()
	defer t.Close()
	ss := secretsState.NewImmutableState(t)
	if st, err := ss.Status(chain.Ctx, chain.KMRuntimeID()); err == nil && st != nil {
		v.status = st
	}
	if ms, err := ss.MasterSecret(chain.Ctx, chain.KMRuntimeID()); err == nil {
		v.master = ms
	}
	if cs, err := churpState.NewImmutableState(t).Status(chain.Ctx, chain.KMRuntimeID(), 1); err == nil {
		v.churp = cs
	}
	bs := beaconState.NewImmutableState(t)
	v.epoch, _, _ = bs.GetEpoch(chain.Ctx)
	if f, err := bs.GetFutureEpoch(chain.Ctx); err == nil && f != nil && f.Height == n.Height+1 {
		v.epoch = f.Epoch
	}
	return v
}

func kmRSK(gen uint64) *signature.PublicKey {
	pk := memorySigner.NewTestSigner(fmt.Sprintf("verif km rsk generation %d", gen)).Public()
	return &pk
}

func kmChecksum(what string, gen uint64, epoch beacon.EpochTime) []byte {
	h := sha3.Sum256([]byte(fmt.Sprintf("verif km %s %d %d", what, gen, epoch)))
	return h[:]
}

// kmTxs builds the transactions of a km letter on top of the reference state.
func (b *bundle) kmTxs(s *kmSpec) []txT {
	if s.Then != nil {
		first := *s
		first.Then = nil
		return append(b.kmTxs(&first), b.kmTxs(s.Then)...)
	}
	k := b.w.keys
	v := kmRead(b.ref())
	st := v.status
	rak := keymanager.TestSigners[0]
	var out []txT
	switch s.Kind {
	case "reg":
		for _, i := range s.Who {
			rsp := &secrets.InitResponse{IsSecure: st.IsSecure, Checksum: st.Checksum, RSK: st.RSK}
			pol := st.Policy
			if st.NextPolicy != nil {
				pol = st.NextPolicy
			}
			if pol != nil {
				h := sha3.Sum256(cbor.Marshal(pol))
				rsp.PolicyChecksum = h[:]
			}
			if v.master != nil && v.master.Secret.Generation == st.NextGeneration() && v.master.Secret.Epoch == v.epoch+1 {
				// a proposal for the next master secret is pending: the enclave replicated it
				rsp.NextChecksum = v.master.Secret.Secret.Checksum
				rsp.NextRSK = kmRSK(st.NextGeneration())
			}
			signer := signature.Signer(rak)
			switch s.Var {
			case "pristine":
				rsp = &secrets.InitResponse{}
			case "next-other":
				rsp.NextChecksum, rsp.NextRSK = kmChecksum("other proposal", 99, v.epoch), kmRSK(st.NextGeneration())
			case "next-rsk-other":
				rsp.NextRSK = kmRSK(1000 + uint64(i))
			case "stale-next":
				rsp.NextChecksum, rsp.NextRSK = kmChecksum("master", st.NextGeneration(), v.epoch), kmRSK(st.NextGeneration())
			case "next-without-rsk":
				rsp.NextRSK = nil
				if rsp.NextChecksum == nil {
					rsp.NextChecksum = kmChecksum("master", st.NextGeneration(), v.epoch+1)
				}
			case "secure":
				rsp.IsSecure = !rsp.IsSecure
			case "policy-5":
				rsp.PolicyChecksum = []byte{1, 2, 3, 4, 5}
			case "policy-wrong":
				h := sha3.Sum256([]byte("verif another policy"))
				rsp.PolicyChecksum = h[:]
			case "checksum-other":
				rsp.Checksum = kmChecksum("other secret", 7, 7)
			case "rsk-other":
				rsp.RSK = kmRSK(2000 + uint64(i))
			case "no-extra":
				rsp = nil
			case "bad-sig":
				signer = keymanager.TestSigners[1]
			}
			// the node's current descriptor with the key manager entry replaced
			var d *node.Node
			if b.ref().Height > 0 {
				t := b.ref().Tree()
				if cur, err := registryState.NewImmutableState(t).Node(chain.Ctx, k.Nodes[i].NodeSigner.Public()); err == nil && cur != nil {
					c := *cur
					d = &c
				}
				t.Close()
			}
			if d == nil {
				exp := b.w.opts.NodeExpiration
				if exp == 0 {
					exp = 4
				}
				d = k.NodeDescriptor(i, i%len(k.Entities), beacon.EpochTime(exp), node.RoleValidator|node.RoleKeyManager)
			}
			var rts []*node.Runtime
			for _, r := range d.Runtimes {
				if !r.ID.Equal(&chain.KMRuntimeIDValue) {
					rts = append(rts, r)
				}
			}
			d.Runtimes = append(rts, chain.KMNodeRuntime(rsp, signer))
			d.Roles |= node.RoleKeyManager
			out = append(out, nodeTx(fmt.Sprintf("km-register(n%d)", i), d, k.NodeSigners(i), k.Nodes[i].NodeSigner))
		}
	case "master", "ephemeral":
		i := s.Who[0]
		gen, ep := st.NextGeneration(), v.epoch+1
		enc := secrets.EncryptedSecret{Checksum: kmChecksum(s.Kind, gen, ep), PubKey: keymanager.InsecureREK, Ciphertexts: map[x25519.PublicKey][]byte{keymanager.InsecureREK: {1, 2, 3}}}
		txSigner := signature.Signer(k.Nodes[i].NodeSigner)
		sigSigner := signature.Signer(rak)
		switch s.Var {
		case "wrong-gen":
			gen++
		case "this-epoch":
			ep = v.epoch
		case "far-epoch":
			ep = v.epoch + 2
		case "bad-sig":
			sigSigner = keymanager.TestSigners[2]
		case "by-entity":
			txSigner = k.Entities[0]
		case "no-ciphertext":
			enc.Ciphertexts = map[x25519.PublicKey][]byte{}
		case "foreign-rek":
			var other x25519.PublicKey
			other[0] = 9
			enc.Ciphertexts = map[x25519.PublicKey][]byte{other: {1}}
		case "other-runtime":
		}
		id := chain.KMRuntimeID()
		if s.Var == "other-runtime" {
			id = chain.RuntimeID()
		}
		if s.Kind == "master" {
			sec := secrets.EncryptedMasterSecret{ID: id, Generation: gen, Epoch: ep, Secret: enc}
			sig, err := signature.Sign(sigSigner, secrets.EncryptedMasterSecretSignatureContext, cbor.Marshal(sec))
			if err != nil {
				panic(err)
			}
			out = append(out, txT{Name: "km-master-secret", Signer: txSigner, Method: secrets.MethodPublishMasterSecret, Body: secrets.SignedEncryptedMasterSecret{Secret: sec, Signature: sig.Signature}})
		} else {
			sec := secrets.EncryptedEphemeralSecret{ID: id, Epoch: ep, Secret: enc}
			sig, err := signature.Sign(sigSigner, secrets.EncryptedEphemeralSecretSignatureContext, cbor.Marshal(sec))
			if err != nil {
				panic(err)
			}
			out = append(out, txT{Name: "km-ephemeral-secret", Signer: txSigner, Method: secrets.MethodPublishEphemeralSecret, Body: secrets.SignedEncryptedEphemeralSecret{Secret: sec, Signature: sig.Signature}})
		}
	case "churp-create", "churp-update":
		ident := churp.Identity{ID: 1, RuntimeID: chain.KMRuntimeID()}
		txSigner := signature.Signer(k.Entities[0])
		pol := churp.SignedPolicySGX{Policy: churp.PolicySGX{Identity: ident}}
		if v.churp != nil {
			pol.Policy.Serial = v.churp.Policy.Policy.Serial + 1
		}
		switch s.Var {
		case "by-e1":
			txSigner = k.Entities[1]
		case "policy-other-id":
			pol.Policy.ID = 2
		case "policy-serial-7":
			pol.Policy.Serial = 7
		}
		_ = pol.Sign(keymanager.TestSigners[1:])
		if s.Var == "policy-bad-sig" {
			pol.Policy.MayJoin = nil
			pol.Signatures[0].Signature[0] ^= 1
		}
		if s.Kind == "churp-create" {
			req := churp.CreateRequest{Identity: ident, Threshold: 1, ExtraShares: 0, HandoffInterval: 1, Policy: pol}
			switch s.Var {
			case "suite-1":
				req.SuiteID = 1
			case "threshold-200":
				req.Threshold = 200
			case "no-handoffs":
				req.HandoffInterval = 0
			case "other-runtime":
				req.RuntimeID = chain.RuntimeID()
			case "threshold-3":
				req.Threshold = 3 // more applicants needed than there are nodes
			}
			out = append(out, txT{Name: "churp-create", Signer: txSigner, Method: churp.MethodCreate, Body: req})
		} else {
			req := churp.UpdateRequest{Identity: ident}
			one, zero, two := uint8(1), beacon.EpochTime(0), beacon.EpochTime(2)
			switch s.Var {
			case "", "by-e1":
				req.HandoffInterval = &two
			case "disable":
				req.HandoffInterval = &zero
			case "extra-shares":
				req.ExtraShares = &one
			case "empty":
			case "unknown-id":
				req.ID = 9
				req.ExtraShares = &one
			default: // policy variants
				req.Policy = &pol
			}
			out = append(out, txT{Name: "churp-update", Signer: txSigner, Method: churp.MethodUpdate, Body: req})
		}
	case "churp-apply", "churp-confirm":
		ident := churp.Identity{ID: 1, RuntimeID: chain.KMRuntimeID()}
		for _, i := range s.Who {
			txSigner := signature.Signer(k.Nodes[i].NodeSigner)
			sigSigner := signature.Signer(rak)
			ep := v.epoch + 1
			if s.Kind == "churp-confirm" {
				ep = v.epoch
			}
			if v.churp != nil && s.Var != "wrong-epoch" {
				ep = v.churp.NextHandoff
			}
			cs := hash.NewFromBytes([]byte(fmt.Sprintf("verif churp matrix %d", ep)))
			switch s.Var {
			case "wrong-epoch":
				ep += 3
			case "bad-sig":
				sigSigner = keymanager.TestSigners[3]
			case "by-entity":
				txSigner = k.Entities[i%3]
			case "other-checksum":
				cs = hash.NewFromBytes([]byte(fmt.Sprintf("verif other matrix %d", i)))
			case "unknown-id":
				ident.ID = 9
			}
			if s.Kind == "churp-apply" {
				ar := churp.ApplicationRequest{Identity: ident, Epoch: ep, Checksum: cs}
				sig, err := signature.Sign(sigSigner, churp.ApplicationRequestSignatureContext, cbor.Marshal(ar))
				if err != nil {
					panic(err)
				}
				out = append(out, txT{Name: fmt.Sprintf("churp-apply(n%d)", i), Signer: txSigner, Method: churp.MethodApply, Body: churp.SignedApplicationRequest{Application: ar, Signature: sig.Signature}})
			} else {
				cr := churp.ConfirmationRequest{Identity: ident, Epoch: ep, Checksum: cs}
				sig, err := signature.Sign(sigSigner, churp.ConfirmationRequestSignatureContext, cbor.Marshal(cr))
				if err != nil {
					panic(err)
				}
				out = append(out, txT{Name: fmt.Sprintf("churp-confirm(n%d)", i), Signer: txSigner, Method: churp.MethodConfirm, Body: churp.SignedConfirmationRequest{Confirmation: cr, Signature: sig.Signature}})
			}
		}
	case "policy":
		serial := uint32(1)
		cur := st.Policy
		if st.NextPolicy != nil {
			cur = st.NextPolicy
		}
		if cur != nil {
			serial = cur.Policy.Serial + 1
		}
		pol := secrets.PolicySGX{Serial: serial, ID: chain.KMRuntimeID(), MasterSecretRotationInterval: 1, MaxEphemeralSecretAge: 2}
		txSigner := signature.Signer(k.Entities[0])
		signers := keymanager.TestSigners[1:]
		switch s.Var {
		case "same-serial":
			pol.Serial--
		case "by-e1":
			txSigner = k.Entities[1]
		case "other-id":
			pol.ID = chain.RuntimeID()
		case "no-rotation":
			pol.MasterSecretRotationInterval = 0
		}
		sp := secrets.SignedPolicySGX{Policy: pol}
		raw := cbor.Marshal(pol)
		if s.Var == "bad-sig" {
			raw = append(raw, 0)
		}
		for _, sg := range signers {
			sig, err := signature.Sign(sg, secrets.PolicySGXSignatureContext, raw)
			if err != nil {
				panic(err)
			}
			sp.Signatures = append(sp.Signatures, *sig)
		}
		out = append(out, txT{Name: "km-update-policy", Signer: txSigner, Method: secrets.MethodUpdatePolicy, Body: sp})
	}
	return out
}

var _ = registry.ModuleName

// kmLetters is the key manager part of an alphabet.
func kmLetters() []letter {
	all := []int{0, 1, 2}
	specs := []kmSpec{
		{Kind: "reg", Who: all}, {Kind: "reg", Who: []int{0}}, {Kind: "reg", Who: []int{0, 1}},
		{Kind: "master", Who: []int{0}}, {Kind: "ephemeral", Who: []int{1}}, {Kind: "policy"},
	}
	for _, v := range []string{"pristine", "next-other", "next-rsk-other", "stale-next", "next-without-rsk", "secure", "policy-5", "policy-wrong", "checksum-other", "rsk-other", "no-extra", "bad-sig"} {
		specs = append(specs, kmSpec{Kind: "reg", Who: []int{0}, Var: v})
	}
	specs = append(specs, kmSpec{Kind: "reg", Who: all, Var: "stale-next"}, kmSpec{Kind: "reg", Who: []int{1, 2}, Var: "next-rsk-other"})
	for _, v := range []string{"wrong-gen", "this-epoch", "far-epoch", "bad-sig", "by-entity", "no-ciphertext", "foreign-rek", "other-runtime"} {
		specs = append(specs, kmSpec{Kind: "master", Who: []int{0}, Var: v})
	}
	for _, v := range []string{"this-epoch", "bad-sig", "by-entity"} {
		specs = append(specs, kmSpec{Kind: "ephemeral", Who: []int{1}, Var: v})
	}
	for _, v := range []string{"same-serial", "by-e1", "other-id", "no-rotation", "bad-sig"} {
		specs = append(specs, kmSpec{Kind: "policy", Var: v})
	}
	// two things in one block (hence in one epoch): a master secret proposal and a policy update, in both orders;
	// a proposal and every node re-registering in a way that keeps it out of the next committee
	specs = append(specs,
		kmSpec{Kind: "master", Who: []int{0}, Then: &kmSpec{Kind: "policy"}},
		kmSpec{Kind: "policy", Then: &kmSpec{Kind: "master", Who: []int{0}}},
		kmSpec{Kind: "master", Who: []int{0}, Then: &kmSpec{Kind: "reg", Who: all, Var: "policy-wrong"}},
		kmSpec{Kind: "master", Who: []int{0}, Then: &kmSpec{Kind: "reg", Who: all, Var: "bad-sig"}},
		kmSpec{Kind: "ephemeral", Who: []int{1}, Then: &kmSpec{Kind: "master", Who: []int{0}}},
	)
	// CHURP (key manager secret sharing): scheme 1 created / updated by the owner, handoff applications and
	// confirmations by the nodes
	specs = append(specs, kmSpec{Kind: "churp-create"}, kmSpec{Kind: "churp-update"}, kmSpec{Kind: "churp-apply", Who: all}, kmSpec{Kind: "churp-apply", Who: []int{0}},
		kmSpec{Kind: "churp-confirm", Who: all}, kmSpec{Kind: "churp-confirm", Who: []int{0}}, kmSpec{Kind: "churp-confirm", Who: []int{1, 2}})
	for _, v := range []string{"by-e1", "policy-other-id", "policy-serial-7", "policy-bad-sig", "suite-1", "threshold-200", "threshold-3", "no-handoffs", "other-runtime"} {
		specs = append(specs, kmSpec{Kind: "churp-create", Var: v})
	}
	for _, v := range []string{"by-e1", "disable", "extra-shares", "empty", "unknown-id", "policy", "policy-serial-7", "policy-bad-sig"} {
		specs = append(specs, kmSpec{Kind: "churp-update", Var: v})
	}
	for _, v := range []string{"wrong-epoch", "bad-sig", "by-entity", "unknown-id"} {
		specs = append(specs, kmSpec{Kind: "churp-apply", Who: []int{1}, Var: v})
	}
	for _, v := range []string{"wrong-epoch", "bad-sig", "by-entity", "other-checksum"} {
		specs = append(specs, kmSpec{Kind: "churp-confirm", Who: []int{1}, Var: v})
	}
	var ls []letter
	for _, s := range specs {
		s := s
		ls = append(ls, letter{Name: s.String(), KM: &s})
	}
	return ls
}

// kmMenu: the single-transaction key manager letters as transaction templates (built from the state
// at block time), for the pre-state x transaction products of C08.
func (w *world) kmMenu() []txT {
	var ts []txT
	for _, l := range kmLetters() {
		s := *l.KM
		if s.Then != nil {
			continue
		}
		if (s.Kind == "reg" || s.Kind == "churp-apply" || s.Kind == "churp-confirm") && len(s.Who) != 1 {
			continue
		}
		var signer signature.Signer
		switch {
		case (s.Kind == "churp-create" || s.Kind == "churp-update") && s.Var == "by-e1":
			signer = w.keys.Entities[1]
		case s.Kind == "churp-create" || s.Kind == "churp-update":
			signer = w.keys.Entities[0]
		case (s.Kind == "churp-apply" || s.Kind == "churp-confirm") && s.Var == "by-entity":
			signer = w.keys.Entities[s.Who[0]%3]
		case s.Kind == "policy" && s.Var == "by-e1":
			signer = w.keys.Entities[1]
		case s.Kind == "policy":
			signer = w.keys.Entities[0]
		case s.Var == "by-entity":
			signer = w.keys.Entities[0]
		default:
			signer = w.keys.Nodes[s.Who[0]].NodeSigner
		}
		ts = append(ts, txT{Name: s.String(), Signer: signer, Dyn: func(b *bundle) txT { return b.kmTxs(&s)[0] }})
	}
	return ts
}
