package main

// Runtime rounds at chain level: a "round" letter makes the members of the
// current executor committee of the universe's runtime commit to the next
// runtime block with correctly signed ExecutorCommit transactions, built from
// the runtime state stored in consensus state (last block, committee,
// incoming message queue) exactly as compute nodes do.

import (
	"fmt"

	"github.com/oasisprotocol/oasis-core/go/common/crypto/hash"
	"github.com/oasisprotocol/oasis-core/go/common/crypto/signature"
	roothashState "github.com/oasisprotocol/oasis-core/go/consensus/cometbft/apps/roothash/state"
	registry "github.com/oasisprotocol/oasis-core/go/registry/api"
	roothash "github.com/oasisprotocol/oasis-core/go/roothash/api"
	"github.com/oasisprotocol/oasis-core/go/roothash/api/block"
	"github.com/oasisprotocol/oasis-core/go/roothash/api/commitment"
	"github.com/oasisprotocol/oasis-core/go/roothash/api/message"
	scheduler "github.com/oasisprotocol/oasis-core/go/scheduler/api"
	staking "github.com/oasisprotocol/oasis-core/go/staking/api"

	"verif/harness/internal/chain"
)

type roundSpec struct {
	Who    string // all | scheduler | dissent | failure | backup (backup workers vote after a discrepancy)
	Msgs   string // "" | transfer | transfer-all | withdraw | addescrow | reclaim | update-runtime | bad
	InMsgs string // "" (none processed) | all | wronghash
}

func (s roundSpec) String() string {
	return fmt.Sprintf("round(who=%s,msgs=%s,inmsgs=%s)", s.Who, orDash(s.Msgs), orDash(s.InMsgs))
}

func orDash(s string) string {
	if s == "" {
		return "-"
	}
	return s
}

func runtimeState(n *chain.Node) (*roothash.RuntimeState, []*message.IncomingMessage) {
	if n.Height == 0 {
		return nil, nil
	}
	t := n.Tree()
	defer t.Close()
	st := roothashState.NewImmutableState(t)
	rs, err := st.RuntimeState(chain.Ctx, chain.RuntimeID())
	if err != nil {
		return nil, nil
	}
	q, _ := st.IncomingMessageQueue(chain.Ctx, chain.RuntimeID(), 0, 0)
	return rs, q
}

func (w *world) nodeSignerByKey(pk signature.PublicKey) signature.Signer {
	for _, id := range w.keys.Nodes {
		if id.NodeSigner.Public().Equal(pk) {
			return id.NodeSigner
		}
	}
	return nil
}

func (w *world) roundMessages(kind string, rs *roothash.RuntimeState) []message.Message {
	k := w.keys
	a0 := chain.Addr(k.Accounts[0])
	switch kind {
	case "transfer":
		return []message.Message{{Staking: &message.StakingMessage{Transfer: &staking.Transfer{To: a0, Amount: qq(2)}}}}
	case "transfer-all":
		return []message.Message{
			{Staking: &message.StakingMessage{Transfer: &staking.Transfer{To: a0, Amount: qq(1)}}},
			{Staking: &message.StakingMessage{Transfer: &staking.Transfer{To: a0, Amount: qq(100000)}}},
		}
	case "withdraw":
		return []message.Message{{Staking: &message.StakingMessage{Withdraw: &staking.Withdraw{From: a0, Amount: qq(3)}}}}
	case "addescrow":
		return []message.Message{{Staking: &message.StakingMessage{AddEscrow: &staking.Escrow{Account: chain.Addr(k.Entities[1]), Amount: qq(10)}}}}
	case "reclaim":
		return []message.Message{{Staking: &message.StakingMessage{ReclaimEscrow: &staking.ReclaimEscrow{Account: chain.Addr(k.Entities[1]), Shares: qq(5)}}}}
	case "update-runtime":
		rt := *rs.Runtime
		rt.TxnScheduler.MaxInMessages++
		return []message.Message{{Registry: &message.RegistryMessage{UpdateRuntime: &rt}}}
	case "update-runtime-kind":
		rt := *rs.Runtime
		rt.Kind = registry.KindKeyManager
		return []message.Message{{Registry: &message.RegistryMessage{UpdateRuntime: &rt}}}
	case "bad":
		return []message.Message{{}}
	}
	return nil
}

// roundTxs builds the ExecutorCommit transactions of a round letter on top of
// the reference replica's state.  No committee / suspended runtime: no txs.
func (b *bundle) roundTxs(spec *roundSpec) []txT {
	w := b.w
	rs, queue := runtimeState(b.ref())
	if rs == nil || rs.Suspended || rs.Committee == nil || rs.CommitmentPool == nil {
		return nil
	}
	rid := chain.RuntimeID()
	round := rs.LastBlock.Header.Round + 1
	sched, ok := rs.Committee.Scheduler(round, 0)
	if !ok {
		return nil
	}
	next := block.NewEmptyBlock(rs.LastBlock, 1, block.Normal)
	msgs := w.roundMessages(spec.Msgs, rs)
	var processed []*message.IncomingMessage
	if spec.InMsgs == "all" || spec.InMsgs == "wronghash" {
		processed = queue
	}
	mk := func(nodeID signature.PublicKey, variant string) *commitment.ExecutorCommitment {
		ec := &commitment.ExecutorCommitment{
			NodeID: nodeID,
			Header: commitment.ExecutorCommitmentHeader{
				SchedulerID: sched.PublicKey,
				Header:      commitment.ComputeResultsHeader{Round: next.Header.Round, PreviousHash: next.Header.PreviousHash},
			},
		}
		if variant == "failure" {
			ec.Header.Failure = commitment.FailureUnknown
			return ec
		}
		io := next.Header.IORoot
		st := hash.NewFromBytes([]byte(fmt.Sprintf("verif runtime state after round %d", round)))
		if variant == "dissent" {
			st = hash.NewFromBytes([]byte(fmt.Sprintf("verif dissenting state after round %d", round)))
		}
		mh := message.MessagesHash(msgs)
		ih := message.InMessagesHash(processed)
		if spec.InMsgs == "wronghash" {
			ih = hash.NewFromBytes([]byte("not the hash of the processed messages"))
		}
		ec.Header.Header.IORoot = &io
		ec.Header.Header.StateRoot = &st
		ec.Header.Header.MessagesHash = &mh
		ec.Header.Header.InMessagesHash = &ih
		ec.Header.Header.InMessagesCount = uint32(len(processed))
		if nodeID.Equal(sched.PublicKey) {
			ec.Messages = msgs
		}
		return ec
	}
	var commits []commitment.ExecutorCommitment
	add := func(m *scheduler.CommitteeNode, variant string) {
		s := w.nodeSignerByKey(m.PublicKey)
		if s == nil {
			return
		}
		ec := mk(m.PublicKey, variant)
		if err := ec.Sign(s, rid); err != nil {
			panic(err)
		}
		commits = append(commits, *ec)
	}
	nonSchedSeen := false
	for _, m := range rs.Committee.Members {
		isSched := m.PublicKey.Equal(sched.PublicKey)
		switch {
		case m.Role == scheduler.RoleWorker && spec.Who == "backup":
			// primary workers disagree first
			if isSched || nonSchedSeen {
				add(m, "ok")
			} else {
				add(m, "dissent")
				nonSchedSeen = true
			}
		case m.Role == scheduler.RoleBackupWorker && spec.Who == "backup":
			add(m, "ok")
		case m.Role != scheduler.RoleWorker:
			continue
		case spec.Who == "all":
			add(m, "ok")
		case spec.Who == "scheduler":
			if isSched {
				add(m, "ok")
			}
		case spec.Who == "dissent":
			if isSched || nonSchedSeen {
				add(m, "ok")
			} else {
				add(m, "dissent")
				nonSchedSeen = true
			}
		case spec.Who == "failure":
			if isSched {
				add(m, "ok")
			} else {
				add(m, "failure")
			}
		}
	}
	if len(commits) == 0 {
		return nil
	}
	ss := w.nodeSignerByKey(sched.PublicKey)
	if ss == nil {
		return nil
	}
	// the scheduler's commitment first (a pool only accepts workers' commitments for a known proposal)
	for i := range commits {
		if commits[i].NodeID.Equal(sched.PublicKey) {
			commits[0], commits[i] = commits[i], commits[0]
		}
	}
	return []txT{{Name: spec.String(), Signer: ss, Method: roothash.MethodExecutorCommit, Body: roothash.ExecutorCommit{ID: rid, Commits: commits}}}
}
