package main

import (
	beaconState "github.com/oasisprotocol/oasis-core/go/consensus/cometbft/apps/beacon/state"
	"github.com/oasisprotocol/oasis-core/go/common/version"
	consensusState "github.com/oasisprotocol/oasis-core/go/consensus/cometbft/apps/consensus/state"
	"encoding/json"
	"fmt"
	"os"
	"sort"
	"strings"
	"sync"

	"github.com/oasisprotocol/oasis-core/go/common/crypto/signature"
	"github.com/oasisprotocol/oasis-core/go/common/node"
	registryState "github.com/oasisprotocol/oasis-core/go/consensus/cometbft/apps/registry/state"
	stakingState "github.com/oasisprotocol/oasis-core/go/consensus/cometbft/apps/staking/state"
	tmcrypto "github.com/oasisprotocol/oasis-core/go/consensus/cometbft/crypto"
	registry "github.com/oasisprotocol/oasis-core/go/registry/api"
	staking "github.com/oasisprotocol/oasis-core/go/staking/api"

	"verif/harness/internal/chain"
	"verif/harness/internal/ev"
)

// C17: registry records change only with authority; keys stay unique; stake
// claims are exactly those implied by the registered entities, nodes, runtimes.

func nodeKeys(n *node.Node) map[string]signature.PublicKey {
	return map[string]signature.PublicKey{"node": n.ID, "consensus": n.Consensus.ID, "p2p": n.P2P.ID, "tls": n.TLS.PubKey, "vrf": n.VRF.ID}
}

func thresholdsKey(ts []staking.StakeThreshold) string {
	var ss []string
	for _, t := range ts {
		ss = append(ss, t.String())
	}
	sort.Strings(ss)
	return strings.Join(ss, ",")
}

// registryInvariants recomputes every index from the primary records.
func registryInvariants(n *chain.Node) string {
	t := n.Tree()
	defer t.Close()
	rs := registryState.NewImmutableState(t)
	ss := stakingState.NewImmutableState(t)
	nodes, err := rs.Nodes(chain.Ctx)
	if err != nil {
		return "cannot list nodes: " + err.Error()
	}
	entities, err := rs.Entities(chain.Ctx)
	if err != nil {
		return "cannot list entities: " + err.Error()
	}
	runtimes, _ := rs.AllRuntimes(chain.Ctx)
	owner := map[signature.PublicKey]string{} // key -> node id using it
	for _, nd := range nodes {
		for role, k := range nodeKeys(nd) {
			if prev, dup := owner[k]; dup && prev != nd.ID.String() {
				return fmt.Sprintf("public key %s is used by two registered nodes (%s and %s as %s key)", k, prev, nd.ID, role)
			}
			owner[k] = nd.ID.String()
		}
	}
	entityByID := map[signature.PublicKey]bool{}
	for _, e := range entities {
		entityByID[e.ID] = true
	}
	byEntity := map[signature.PublicKey][]string{}
	for _, nd := range nodes {
		for role, k := range nodeKeys(nd) {
			if role == "node" {
				continue
			}
			got, err := rs.NodeBySubKey(chain.Ctx, k)
			if err != nil || got == nil || !got.ID.Equal(nd.ID) {
				return fmt.Sprintf("registered node %s is not found under its current %s key %s (lookup: %v, err=%v)", nd.ID, role, k, gotID(got), err)
			}
		}
		addr := []byte(tmcrypto.PublicKeyToCometBFT(&nd.Consensus.ID).Address())
		got, err := rs.NodeByConsensusAddress(chain.Ctx, addr)
		if err != nil || got == nil || !got.ID.Equal(nd.ID) {
			return fmt.Sprintf("registered node %s is not found under its consensus address (lookup: %v, err=%v)", nd.ID, gotID(got), err)
		}
		if !entityByID[nd.EntityID] {
			return fmt.Sprintf("node %s is registered but its entity %s is not", nd.ID, nd.EntityID)
		}
		byEntity[nd.EntityID] = append(byEntity[nd.EntityID], nd.ID.String())
	}
	for _, e := range entities {
		listed, err := rs.GetEntityNodes(chain.Ctx, e.ID)
		if err != nil {
			return fmt.Sprintf("GetEntityNodes(%s): %v", e.ID, err)
		}
		var got []string
		for _, nd := range listed {
			got = append(got, nd.ID.String())
		}
		sort.Strings(got)
		want := append([]string{}, byEntity[e.ID]...)
		sort.Strings(want)
		if strings.Join(got, ",") != strings.Join(want, ",") {
			return fmt.Sprintf("nodes-by-entity index of %s lists [%s], the node records imply [%s]", e.ID, strings.Join(got, ","), strings.Join(want, ","))
		}
	}
	// admission policies (runtime descriptors of the explored universes never change their policy): every
	// live node serving a runtime with an entity whitelist belongs to a whitelisted entity, holds only roles
	// the whitelist names, and no entity has more live nodes in a role than the whitelist allows
	if ep, _, err := beaconState.NewImmutableState(t).GetEpoch(chain.Ctx); err == nil {
		for _, rt := range runtimes {
			type cnt map[node.RolesMask]int
			per := map[signature.PublicKey]cnt{}
			for _, nd := range nodes {
				if nd.IsExpired(ep) || !nd.HasRuntime(rt.ID) {
					continue
				}
				if per[nd.EntityID] == nil {
					per[nd.EntityID] = cnt{}
				}
				for _, role := range node.Roles() {
					if nd.HasRoles(role) {
						per[nd.EntityID][role]++
					}
				}
			}
			for ent, c := range per {
				if wl := rt.AdmissionPolicy.EntityWhitelist; wl != nil {
					cfg, ok := wl.Entities[ent]
					if !ok {
						return fmt.Sprintf("entity %s has live nodes for runtime %s although it is not on the runtime's entity whitelist", ent, rt.ID)
					}
					if len(cfg.MaxNodes) > 0 {
						for role, n := range c {
							if n > int(cfg.MaxNodes[role]) {
								return fmt.Sprintf("entity %s has %d live %s nodes for runtime %s, its whitelist entry allows %d", ent, n, role, rt.ID, cfg.MaxNodes[role])
							}
						}
					}
				}
				for role, pr := range rt.AdmissionPolicy.PerRole {
					if pr.EntityWhitelist == nil || c[role] == 0 {
						continue
					}
					cfg, ok := pr.EntityWhitelist.Entities[ent]
					if !ok {
						return fmt.Sprintf("entity %s has a live %s node for runtime %s although it is not on the per-role whitelist", ent, role, rt.ID)
					}
					if cfg.MaxNodes > 0 && c[role] > int(cfg.MaxNodes) {
						return fmt.Sprintf("entity %s has %d live %s nodes for runtime %s, the per-role whitelist allows %d", ent, c[role], role, rt.ID, cfg.MaxNodes)
					}
				}
			}
		}
	}
	// runtime-by-entity index (kept exact from consensus feature version 26.1 on; before that an
	// ownership transfer left the previous owner's entry behind)
	if cp, err := consensusState.NewImmutableState(t).ConsensusParameters(chain.Ctx); err == nil && cp.FeatureVersion != nil && cp.FeatureVersion.ToU64() >= version.MustFromString("26.1").ToU64() {
		owns := map[signature.PublicKey]bool{}
		for _, rt := range runtimes {
			owns[rt.EntityID] = true
		}
		cands := map[signature.PublicKey]bool{}
		for _, e := range entities {
			cands[e.ID] = true
		}
		for id := range owns {
			cands[id] = true
		}
		for id := range cands {
			has, err := rs.HasEntityRuntimes(chain.Ctx, id)
			if err != nil {
				return fmt.Sprintf("HasEntityRuntimes(%s): %v", id, err)
			}
			if has != owns[id] {
				return fmt.Sprintf("runtime-by-entity index says entity %s owns runtimes = %v, the runtime records imply %v", id, has, owns[id])
			}
		}
	}
	// stake claims
	params, err := ss.ConsensusParameters(chain.Ctx)
	if err != nil || params.DebugBypassStake {
		return ""
	}
	expected := map[staking.Address]map[staking.StakeClaim]string{}
	add := func(a staking.Address, c staking.StakeClaim, ts []staking.StakeThreshold) {
		if expected[a] == nil {
			expected[a] = map[staking.StakeClaim]string{}
		}
		expected[a][c] = thresholdsKey(ts)
	}
	for _, e := range entities {
		add(staking.NewAddress(e.ID), registry.StakeClaimRegisterEntity, staking.GlobalStakeThresholds(staking.KindEntity))
	}
	for _, nd := range nodes {
		var rts []*registry.Runtime
		for _, nr := range nd.Runtimes {
			for _, rt := range runtimes {
				if rt.ID.Equal(&nr.ID) {
					rts = append(rts, rt)
				}
			}
		}
		add(staking.NewAddress(nd.EntityID), registry.StakeClaimForNode(nd.ID), registry.StakeThresholdsForNode(nd, rts))
	}
	for _, rt := range runtimes {
		if a, ok := rt.StakingAddress(); ok {
			add(*a, registry.StakeClaimForRuntime(rt.ID), registry.StakeThresholdsForRuntime(rt))
		}
	}
	addrs, _ := ss.Addresses(chain.Ctx)
	seen := map[staking.Address]bool{}
	for _, a := range addrs {
		seen[a] = true
		acct, err := ss.Account(chain.Ctx, a)
		if err != nil {
			continue
		}
		got := map[staking.StakeClaim]string{}
		for c, ts := range acct.Escrow.StakeAccumulator.Claims {
			got[c] = thresholdsKey(ts)
		}
		want := expected[a]
		for c, ts := range want {
			if g, ok := got[c]; !ok {
				return fmt.Sprintf("account %s lacks the stake claim %s implied by the registry", a, c)
			} else if g != ts {
				return fmt.Sprintf("account %s: stake claim %s has thresholds [%s], the registry implies [%s]", a, c, g, ts)
			}
		}
		for c := range got {
			if _, ok := want[c]; !ok {
				return fmt.Sprintf("account %s holds stake claim %s which no registered entity, node or runtime implies", a, c)
			}
		}
	}
	for a, cl := range expected {
		if !seen[a] && len(cl) > 0 {
			return fmt.Sprintf("account %s has no record although the registry implies %d stake claims for it", a, len(cl))
		}
	}
	return ""
}

func gotID(n *node.Node) string {
	if n == nil {
		return "<none>"
	}
	return n.ID.String()
}

type c17Artefact struct {
	Universe int     `json:"universe,omitempty"`
	Prefix  int      `json:"empty_blocks_before"`
	History []string `json:"history"`
}

type c17Universe struct {
	w           *world
	alpha       []letter
	byName      map[string]int
	wrongSigner map[string]bool
}

func c17Universes(r *ev.Run) []*c17Universe {
	var us []*c17Universe
	// Every block is an epoch, so that expiry, removal and re-registration are within reach.
	for ui, o := range []chain.GenesisOptions{
		{EpochInterval: 1, NodeExpirations: []uint64{12, 3, 12}},
		{EpochInterval: 1, NodeExpirations: []uint64{12, 3, 12}, Runtime: true, RtFunded: true},
		{EpochInterval: 1, NodeExpirations: []uint64{12, 3, 12}, Runtime: true, RtFunded: true, Feature261: true},
		{EpochInterval: 1, NodeExpirations: []uint64{12, 3, 12}, Runtime: true, RtFunded: true, RtWhitelist: true},
	} {
		w, err := newWorld(o)
		if err != nil {
			r.HarnessError("world: %v", err)
			r.Finish()
		}
		u := &c17Universe{w: w, byName: map[string]int{}, wrongSigner: map[string]bool{}}
		txs := w.registryTxs()
		st := w.stakingTxs()
		u.alpha = append(u.alpha, letter{Name: "empty-block"})
		if ui == 0 {
			for _, t := range txs {
				u.alpha = append(u.alpha, letter{Name: t.Name, Txs: []txT{t}})
			}
		} else {
			for _, t := range w.runtimeTxs() {
				if t.Method == registry.MethodRegisterRuntime {
					u.alpha = append(u.alpha, letter{Name: t.Name, Txs: []txT{t}})
				}
			}
			for _, t := range txs {
				switch t.Name {
				case "node0-renew(exp6)", "node1 expired descriptor(exp1)", "entity0-deregister (has node)", "entity1-update nodes=[1,3]", "node3-new for e1", "node2 roles=validator->observer":
					u.alpha = append(u.alpha, letter{Name: t.Name, Txs: []txT{t}})
				}
			}
			if o.RtWhitelist {
				// admission: a second compute node, observers of entities on / not on the per-role whitelist,
				// a live node adding a role
				for _, t := range w.runtimeTxs() {
					switch t.Name {
					case "node3-new validator+runtime for e1", "node1-renew adding the observer role", "node0-renew adding the observer role",
						"node3-new compute for e1", "node3-new observer+runtime for e1", "node3-new validator+compute for e1":
						u.alpha = append(u.alpha, letter{Name: t.Name, Txs: []txT{t}})
					}
				}
			}
		}
		for _, t := range st {
			if t.Name == "reclaim(e1<-e1,1000sh)" || t.Name == "escrow(a0->e0,50)" || t.Name == "reclaim(a0<-e0,500sh=all)" {
				u.alpha = append(u.alpha, letter{Name: t.Name, Txs: []txT{t}})
			}
		}
		u.alpha = append(u.alpha, letter{Name: "evidence=dupvote:0", Evidence: "dupvote:0"})
		for i, l := range u.alpha {
			u.byName[l.Name] = i
		}
		for _, nm := range []string{"node0-renew tx-signed-by-entity", "node0-renew tx-signed-by-node1", "entity0-update signed-by-e1", "entity0-update tx-by-e1 desc-by-e0", "unfreeze node1 by e0 (wrong entity)", "runtime-new(a0 no entity)"} {
			u.wrongSigner[nm] = true
		}
		for _, nm := range []string{"node", "p2p", "consensus", "vrf", "tls"} {
			u.wrongSigner["node0-renew missing-sig-"+nm] = true
		}
		us = append(us, u)
	}
	return us
}

// runtimeAuthority: a RegisterRuntime transaction may only succeed for a new runtime whose
// entity is the signer, or for an existing entity-governed runtime owned by the signer.
func runtimeAuthority(n *chain.Node, t *txT) string {
	rt, ok := t.Body.(*registry.Runtime)
	if !ok || n.Height == 0 {
		return "" // before the first commit the genesis state cannot be read back
	}
	tr := n.Tree()
	defer tr.Close()
	old, err := registryState.NewImmutableState(tr).AnyRuntime(chain.Ctx, rt.ID)
	signer := t.Signer.Public()
	if err != nil || old == nil {
		if !rt.EntityID.Equal(signer) {
			return fmt.Sprintf("a new runtime of entity %s may not be registered by %s", rt.EntityID, signer)
		}
		return ""
	}
	if old.GovernanceModel != registry.GovernanceEntity {
		return fmt.Sprintf("runtime %s is under %s governance and may not be updated by a transaction", rt.ID, old.GovernanceModel)
	}
	if !old.EntityID.Equal(signer) {
		return fmt.Sprintf("runtime %s is owned by entity %s and may not be updated by %s", rt.ID, old.EntityID, signer)
	}
	return ""
}

func runC17(r *ev.Run) {
	unis := c17Universes(r)
	depth := 2
	prefixes := []int{0, 2, 3, 4}
	if r.Thorough() {
		depth = 3
		prefixes = []int{0, 1, 2, 3, 4, 5, 6}
	}
	if r.Thorough() && r.Replay == "" {
		// time budget: every universe at the quick depth first, then the deeper level
		for ui, u := range unis {
			runC17Universe(r, ui, u, 2, prefixes, 0)
		}
	}
	for ui, u := range unis {
		above := 0
		if r.Thorough() && r.Replay == "" {
			above = 2 // states up to depth 2 were counted by the first pass
		}
		runC17Universe(r, ui, u, depth, prefixes, above)
	}
	r.Set("depth", depth)
	r.Set("prefixes_epochs", prefixes)
	r.Set("universes", len(unis))
	r.Alias("traces_validated_against_impl", "transitions")
	r.Set("rule", "breadth-first search over registry histories (epoch = 1 block, stake not bypassed) from 0..8 elapsed epochs: entity register / update / deregister; node re-registration, every pairwise swap and the rotation of the node's own P2P/TLS/VRF keys, keys of another node, fresh keys, a changed consensus key, descriptors missing each signature in turn, transactions signed by entity / other node / other entity, expired and too-far expirations, role change, new nodes listed and not listed by their entity, unfreeze by right and wrong entity, stake moving across thresholds, a slash; second universe with a compute runtime served by all nodes: runtime updates by owner / non-owner, ownership transfer, entity -> runtime governance, kind change, new runtimes under entity and runtime governance, by a non-entity; after every block: every registered node is found under each of its current keys and its consensus address, no key belongs to two nodes, nodes-by-entity equals the recomputed index, every node's entity exists, every account's stake claims (entity accounts and runtime accounts) equal exactly those implied by entities, nodes and runtimes; transactions lacking authority have a non-zero result; a successful RegisterRuntime was signed by the owner of an entity-governed runtime or by the entity of a new runtime")
	r.Assume("TEE nodes and key manager runtimes are not generated", "3 entities, 5 node identities, at most 2 runtimes")
	r.Finish()
}

func runC17Universe(r *ev.Run, ui int, u *c17Universe, depth int, prefixes []int, countAbove int) {
	w, alpha, byName, wrongSigner := u.w, u.alpha, u.byName, u.wrongSigner
	specs := []rspec{{Name: "P/badger", Path: chain.PathPropose, Backend: "badger"}, {Name: "P1/pathbadger", Path: chain.PathPropose, Backend: "pathbadger", Ident: 1}}
	run := func(prefix int, h []int) (key, what string) {
		b, err := w.newBundle(specs)
		if err != nil {
			return "", "harness: " + err.Error()
		}
		defer b.close()
		for i := 0; i < prefix; i++ {
			out, err := b.exec(&letter{Name: "empty-block"})
			if err != nil {
				return "", "harness: " + err.Error()
			}
			if out.results[0].Panic != "" {
				return "", "" // not this property's business
			}
		}
		if prefix > 0 && len(h) == 0 {
			if wv := registryInvariants(b.ref()); wv != "" {
				return "", fmt.Sprintf("after %d empty blocks: %s", prefix, wv)
			}
		}
		for i, li := range h {
			l := &alpha[li]
			authWhy := ""
			if len(l.Txs) == 1 && l.Txs[0].Method == registry.MethodRegisterRuntime {
				authWhy = runtimeAuthority(b.ref(), &l.Txs[0])
			}
			out, err := b.exec(l)
			if err != nil {
				return "", "harness: " + err.Error()
			}
			res := out.results[0]
			if res.Panic != "" {
				return "", ""
			}
			if wv := b.compareReplicas(out); wv != "" {
				return "", ""
			}
			if len(l.Txs) == 1 && wrongSigner[l.Name] && res.TxResults[0].Code == 0 {
				return "", fmt.Sprintf("block %d: %s succeeded although it lacks the required authority", i+1, l.Name)
			}
			if authWhy != "" && res.Panic == "" && len(res.TxResults) > 0 && res.TxResults[0].Code == 0 {
				return "", fmt.Sprintf("block %d: %s succeeded although %s", i+1, l.Name, authWhy)
			}
			if wv := registryInvariants(b.ref()); wv != "" {
				return "", fmt.Sprintf("after block %d (%s): %s", i+1, l.Name, wv)
			}
		}
		return fmt.Sprintf("%d/%x", b.ref().Height, b.ref().AppHash), ""
	}
	if r.Replay != "" {
		v, err := ev.LoadReplay(r.Replay)
		if err != nil {
			fmt.Println("cannot load replay:", err)
			os.Exit(2)
		}
		bb, _ := json.Marshal(v.Artefact)
		var a c17Artefact
		_ = json.Unmarshal(bb, &a)
		if a.Universe != ui {
			return
		}
		var h []int
		for _, nm := range a.History {
			h = append(h, byName[nm])
		}
		_, what := run(a.Prefix, h)
		if what != "" {
			fmt.Printf("VIOLATION property=C17 replay=%s\n  what: %s\n", r.Replay, what)
			os.Exit(1)
		}
		fmt.Println("replay: property held")
		os.Exit(0)
	}
	var names []string
	for _, l := range alpha {
		names = append(names, l.Name)
	}
	r.Set(fmt.Sprintf("alphabet_universe_%d", ui), names)
	for _, prefix := range prefixes {
		frontier := [][]int{{}}
		seen := map[string]bool{}
		statesBefore := 0
		var mu sync.Mutex
		for level := 1; level <= depth && len(frontier) > 0; level++ {
			var jobs [][]int
			for _, h := range frontier {
				for li := range alpha {
					jobs = append(jobs, append(append([]int{}, h...), li))
				}
			}
			var next [][]int
			ev.ParallelRange(len(jobs), r.Seed, func(ji int) {
				if r.Expired() {
					r.Cap("deadline")
					return
				}
				h := jobs[ji]
				key, what := run(prefix, h)
				r.Add("transitions", 1)
				if what != "" {
					var hn []string
					for _, i := range h {
						hn = append(hn, alpha[i].Name)
					}
					if strings.HasPrefix(what, "harness:") {
						r.HarnessError("%s %v", what, hn)
						return
					}
					r.Violate(ev.Violation{Engine: "chainmc", Key: fmt.Sprintf("c17 %safter %d epochs [%s]", map[int]string{0: "", 1: "runtime universe "}[ui], prefix, strings.Join(hn, " | ")), What: fmt.Sprintf("%d empty blocks (= epochs), then [%s]: %s", prefix, strings.Join(hn, " | "), what), Artefact: c17Artefact{Universe: ui, Prefix: prefix, History: hn}})
					return
				}
				if key == "" {
					return
				}
				r.Outcome(key)
				mu.Lock()
				if !seen[key] {
					seen[key] = true
					next = append(next, h)
				}
				mu.Unlock()
				if ji%199 == 0 {
					r.Sample(map[string]any{"epochs_before": prefix, "history": lettersString(alpha, h)}, 6)
				}
			})
			frontier = next
			if level == countAbove {
				statesBefore = len(seen)
			}
		}
		r.Add("states", int64(len(seen)-statesBefore))
	}
}
