package main

import (
	"fmt"
	"math/big"

	"github.com/cometbft/cometbft/abci/types"

	stakingState "github.com/oasisprotocol/oasis-core/go/consensus/cometbft/apps/staking/state"
	tmstaking "github.com/oasisprotocol/oasis-core/go/consensus/cometbft/staking"

	"verif/harness/internal/chain"
)

func bi(q interface{ ToBigInt() *big.Int }) *big.Int { return q.ToBigInt() }

// supplyReport reads the committed staking state and evaluates the C05 state invariants.
// It returns the total supply and a violation text (or "").
func supplyInvariants(n *chain.Node) (*big.Int, string) {
	t := n.Tree()
	defer t.Close()
	st := stakingState.NewImmutableState(t)
	total, err := st.TotalSupply(chain.Ctx)
	if err != nil {
		return nil, "cannot read total supply: " + err.Error()
	}
	cp, _ := st.CommonPool(chain.Ctx)
	lbf, _ := st.LastBlockFees(chain.Ctx)
	gd, _ := st.GovernanceDeposits(chain.Ctx)
	addrs, err := st.Addresses(chain.Ctx)
	if err != nil {
		return nil, "cannot list accounts: " + err.Error()
	}
	sum := new(big.Int)
	sum.Add(sum, bi(cp))
	sum.Add(sum, bi(lbf))
	sum.Add(sum, bi(gd))
	dels, err := st.Delegations(chain.Ctx)
	if err != nil {
		return nil, "cannot read delegations: " + err.Error()
	}
	debs, err := st.DebondingDelegations(chain.Ctx)
	if err != nil {
		return nil, "cannot read debonding delegations: " + err.Error()
	}
	general, active, debonding := new(big.Int), new(big.Int), new(big.Int)
	for _, a := range addrs {
		acct, err := st.Account(chain.Ctx, a)
		if err != nil {
			return nil, fmt.Sprintf("cannot read account %s: %v", a, err)
		}
		general.Add(general, bi(&acct.General.Balance))
		active.Add(active, bi(&acct.Escrow.Active.Balance))
		debonding.Add(debonding, bi(&acct.Escrow.Debonding.Balance))
		// share bookkeeping
		ds := new(big.Int)
		for _, d := range dels[a] {
			ds.Add(ds, bi(&d.Shares))
		}
		if ds.Cmp(bi(&acct.Escrow.Active.TotalShares)) != 0 {
			return bi(total), fmt.Sprintf("escrow account %s: active total shares %s but delegations into it sum to %s", a, &acct.Escrow.Active.TotalShares, ds)
		}
		dbs := new(big.Int)
		for _, lst := range debs[a] {
			for _, d := range lst {
				dbs.Add(dbs, bi(&d.Shares))
			}
		}
		if dbs.Cmp(bi(&acct.Escrow.Debonding.TotalShares)) != 0 {
			return bi(total), fmt.Sprintf("escrow account %s: debonding total shares %s but debonding delegations sum to %s", a, &acct.Escrow.Debonding.TotalShares, dbs)
		}
	}
	// every delegation must point into an existing account entry
	for esc := range dels {
		found := false
		for _, a := range addrs {
			found = found || a == esc
		}
		if !found {
			return bi(total), fmt.Sprintf("delegations exist into %s which has no account", esc)
		}
	}
	sum.Add(sum, general)
	sum.Add(sum, active)
	sum.Add(sum, debonding)
	if sum.Cmp(bi(total)) != 0 {
		return bi(total), fmt.Sprintf("total supply %s != general %s + escrow.active %s + escrow.debonding %s + common pool %s + governance deposits %s + last block fees %s (= %s)", total, general, active, debonding, cp, gd, lbf, sum)
	}
	return bi(total), ""
}

// burned sums the amounts of the burn events of a block's transaction results.
func burned(res *chain.Result) (*big.Int, error) {
	sum := new(big.Int)
	lists := [][]types.Event{res.BlockEvents}
	for _, r := range res.TxResults {
		lists = append(lists, r.Events)
	}
	for _, l := range lists {
		evs, err := tmstaking.EventsFromCometBFT(nil, 0, l)
		if err != nil {
			continue
		}
		for _, e := range evs {
			if e.Burn != nil {
				sum.Add(sum, bi(&e.Burn.Amount))
			}
		}
	}
	return sum, nil
}
