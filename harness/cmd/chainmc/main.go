// chainmc decides C01, C05, C08, C09, C10, C14, C17: explicit-state search over
// block histories executed on the real ABCI multiplexer with all real
// consensus applications, on bundles of replicas.
package main

import (
	"time"
	"encoding/json"
	"fmt"
	"math/big"
	"os"
	"strings"
	"sync"

	"verif/harness/internal/chain"
	"verif/harness/internal/ev"
)

func main() {
	if len(os.Args) < 2 {
		fmt.Println("usage: chainmc <C01|C05|C08|C09|C10|C14|C15|C16|C17> [--tier t] [--replay f]")
		os.Exit(2)
	}
	if os.Args[1] == "c01-crash-child" {
		c01crashChild()
	}
	r := ev.Parse("model_checking")
	if r.Thorough() && r.Deadline.IsZero() {
		// the thorough tier deepens the searches by one letter; the deeper levels of the bigger worlds are
		// explored for as long as this budget lasts (reported as a cap, exhaustive=false for what was cut)
		r.Deadline = r.Start.Add(20 * time.Minute)
	}
	switch os.Args[1] {
	case "C06":
		runC06Pruner(r)
	case "C01", "C05", "C10", "C15":
		if ph := os.Getenv("VERIF_PHASE"); os.Args[1] == "C01" && (ph == "conc" || ph == "race") {
			runC01Conc(r)
		}
		if os.Args[1] == "C01" && os.Getenv("VERIF_PHASE") == "crash" {
			runC01Crash(r)
		}
		runHistories(r)
	case "C08":
		runC08(r)
	case "C09":
		runC09(r)
	case "C17":
		runC17(r)
	case "C14":
		runC14(r)
	case "C16":
		runC16(r)
	default:
		fmt.Println("chainmc: unknown property", os.Args[1])
		os.Exit(2)
	}
}

type histArtefact struct {
	Property string              `json:"property"`
	Profile  string              `json:"profile"`
	Genesis  chain.GenesisOptions `json:"genesis"`
	History  []int               `json:"history"`
	Letters  []string            `json:"letters"`
	MapOrder bool                `json:"map_order,omitempty"`
}

// standard replica bundles
func bundleSpecs(prop string, thorough bool) []rspec {
	switch prop {
	case "C01":
		s := []rspec{
			{Name: "P/badger", Path: chain.PathPropose, Backend: "badger"},
			{Name: "P1/pathbadger", Path: chain.PathPropose, Backend: "pathbadger", Ident: 1},
			{Name: "R/badger", Path: chain.PathReplay, Backend: "badger"},
			{Name: "V2/badger", Path: chain.PathProcess2, Backend: "badger"},
			{Name: "Q/pathbadger+foreign", Path: chain.PathProcess, Backend: "pathbadger", Foreign: true},
			{Name: "D/pathbadger+restart", Path: chain.PathReplay, Backend: "pathbadger", Disk: true, Restart: true},
			// mempool checks also between a first (discarded) proposal and the decided one
			{Name: "VQ/badger+foreign+other-proposal", Path: chain.PathProcess2, Backend: "badger", Foreign: true},
		}
		if thorough {
			s = append(s, rspec{Name: "D2/badger+restart+process", Path: chain.PathProcess, Backend: "badger", Disk: true, Restart: true},
				rspec{Name: "Q2/badger+foreign+replay", Path: chain.PathReplay, Backend: "badger", Foreign: true})
		}
		return s
	default:
		return []rspec{
			{Name: "P/badger", Path: chain.PathPropose, Backend: "badger"},
			{Name: "P1/pathbadger", Path: chain.PathPropose, Backend: "pathbadger", Ident: 1},
		}
	}
}

type checker struct {
	prop     string
	w        *world
	alpha    []letter
	specs    []rspec
	mapOrder bool
	noWarmup bool
}

// runHistory executes a history on a fresh bundle, evaluating the property's
// oracles after every block (all = on every block, else only the last).
func (c *checker) runHistory(h []int, all bool) (key string, what string, pruned bool) {
	b, err := c.w.newBundle(c.specs)
	if err != nil {
		return "", "harness: " + err.Error(), false
	}
	defer b.close()
	b.mapOrder = c.mapOrder
	prevSupply := c.w.doc.Staking.TotalSupply.ToBigInt()
	// Runtime genesis: empty blocks until the first executor committee exists (start of epoch 2),
	// so that the explored letters meet a live runtime. Part of the initial state, not of the history.
	if c.w.opts.Runtime && !c.noWarmup {
		iv := c.w.opts.EpochInterval
		if iv == 0 {
			iv = 3
		}
		warm, nWarm := &c.alpha[0], 2*iv
		if c.w.opts.VRF {
			// VRF beacon: the first committee is elected at the start of epoch 3, from the proofs that the
			// nodes submitted in epoch 2 over a high-quality alpha (which needs the proofs of epoch 1)
			warm, nWarm = &letter{Name: "vrf-auto", VRF: &vrfSpec{Kind: "auto"}}, 2*iv+1
		}
		for i := int64(0); i < nWarm; i++ {
			out, err := b.exec(warm)
			if err != nil {
				return "", "harness: " + err.Error(), false
			}
			if out.results[0].Panic != "" {
				return "", "harness: warm-up block failed: " + out.results[0].Panic, false
			}
		}
		if c.prop == "C05" || c.prop == "C15" {
			if s, w := supplyInvariants(b.ref()); w == "" {
				prevSupply = s
			}
		}
	}
	// Key manager genesis: empty blocks until the key manager status exists (first epoch transition).
	if c.w.opts.KeyManager && !c.noWarmup {
		for i := 0; i < 8 && !kmRead(b.ref()).status.IsInitialized; i++ {
			out, err := b.exec(&c.alpha[0])
			if err != nil {
				return "", "harness: " + err.Error(), false
			}
			if out.results[0].Panic != "" {
				return "", "harness: warm-up block failed: " + out.results[0].Panic, false
			}
		}
	}
	// Scripted prefix (GenesisOptions.Prefix): part of the initial state, not of the history.
	for _, nm := range c.w.opts.Prefix {
		var pl *letter
		for _, t := range append(c.w.stakingTxs(), c.w.chainedTxs()...) {
			if t.Name == nm {
				pl = &letter{Name: nm, Txs: []txT{t}}
			}
		}
		if nm == "empty-block" {
			pl = &letter{Name: nm}
		}
		if c.w.opts.KeyManager {
			for _, l := range kmLetters() {
				if l.Name == nm {
					l := l
					pl = &l
				}
			}
		}
		if pl == nil {
			return "", "harness: unknown prefix letter " + nm, false
		}
		out, err := b.exec(pl)
		if err != nil {
			return "", "harness: " + err.Error(), false
		}
		if out.results[0].Panic != "" {
			return "", "harness: prefix block failed: " + out.results[0].Panic, false
		}
		if len(out.results[0].TxResults) > 0 && out.results[0].TxResults[0].Code != 0 {
			return "", fmt.Sprintf("harness: prefix transaction %s failed with code %d", nm, out.results[0].TxResults[0].Code), false
		}
		if c.prop == "C05" || c.prop == "C15" {
			if s, w := supplyInvariants(b.ref()); w == "" {
				prevSupply = s
			}
		}
	}
	var prevView *stakeView
	if c.prop == "C15" {
		// (before the first block there is no committed state to read: the oracle starts at block 2)
		if v, w := readStakeView(b.ref()); w == "" {
			prevView = v
		}
	}
	for i, li := range h {
		l := &c.alpha[li]
		// Documented precondition: the election at the start of the next block can produce a validator set
		// (evaluated on the committed state before the block, mirroring the scheduler's rules).
		noValidators := validatorPreconditionFails(b.ref())
		out, err := b.exec(l)
		if err != nil {
			return "", "harness: " + err.Error(), false
		}
		last := i == len(h)-1
		ref := out.results[0]
		if ref.Panic != "" && noValidators {
			return "", "", true
		}
		// Documented precondition of C10 (and of everything else): the scheduler can elect a validator set.
		if ref.Panic != "" && strings.Contains(ref.Panic, "validators") && strings.Contains(ref.Panic, "insufficient") {
			return "", "", true
		}
		switch c.prop {
		case "C01":
			if all || last {
				if w := b.compareReplicas(out); w != "" {
					return "", fmt.Sprintf("block %d (%s): %s", i+1, l.Name, w), false
				}
			}
			if ref.Panic != "" {
				return "", "", true // C10's business; nothing more to compare on this branch
			}
		case "C10":
			for ri, res := range out.results {
				if res.Panic != "" {
					return "", fmt.Sprintf("block %d (%s): replica %s: block execution failed: %s", i+1, l.Name, b.reps[ri].spec.Name, res.Panic), false
				}
				if !res.Accepted {
					return "", fmt.Sprintf("block %d (%s): replica %s rejected the honest proposal", i+1, l.Name, b.reps[ri].spec.Name), false
				}
			}
		case "C05", "C15":
			if ref.Panic != "" {
				return "", "", true
			}
			if c.prop == "C15" {
				v, w := readStakeView(b.ref())
				if w != "" {
					return "", "harness: " + w, false
				}
				if prevView != nil && len(l.Txs) == 0 && l.Round == nil && l.VRF == nil && l.Evidence == "" {
					if w := debondOracle(prevView, v, ref); w != "" {
						return "", fmt.Sprintf("block %d (%s, epoch %d -> %d): %s", i+1, l.Name, prevView.Epoch, v.Epoch, w), false
					}
				}
				prevView = v
			}
			s, w := supplyInvariants(b.ref())
			if w != "" {
				return "", fmt.Sprintf("after block %d (%s): %s", i+1, l.Name, w), false
			}
			burn, _ := burned(ref)
			diff := new(big.Int).Sub(prevSupply, s)
			if diff.Sign() < 0 {
				return "", fmt.Sprintf("block %d (%s): total supply increased from %s to %s", i+1, l.Name, prevSupply, s), false
			}
			if diff.Cmp(burn) != 0 {
				return "", fmt.Sprintf("block %d (%s): total supply fell by %s but the block's burn events sum to %s", i+1, l.Name, diff, burn), false
			}
			prevSupply = s
		}
		if ref.Panic != "" {
			return "", "", true
		}
	}
	ref := b.ref()
	return fmt.Sprintf("%d/%x", ref.Height, ref.AppHash), "", false
}

// mapOrderPhase (C01): every history of depth 2 on the default and on the tie genesis,
// executed in single-goroutine child processes in which Go's map iteration offset is
// fixed per replica and block, so that every pair of replicas iterates every small
// map in different rotations. An order-sensitive iteration makes replicas disagree
// deterministically.
func mapOrderPhase(r *ev.Run, variants []chain.GenesisOptions) {
	if !chain.MapOrderControlled {
		r.Set("map_iteration_order", "not controlled (runtime overlay unavailable)")
		return
	}
	for vi, opts := range variants {
		w, err := newWorld(opts)
		if err != nil {
			r.HarnessError("genesis variant %d: %v", vi, err)
			continue
		}
		c := &checker{prop: "C01", w: w, alpha: w.alphabet("c01"), specs: bundleSpecs("C01", true), mapOrder: true}
		n := len(c.alpha)
		total := n * n
		single := (opts.Runtime || opts.Focus != "") && !r.Thorough()
		if single {
			total = n
		}
		ev.ParallelRange(total, r.Seed, func(i int) {
			if r.Expired() {
				r.Cap("deadline")
				return
			}
			// two letters, then two empty blocks (elections of later epochs see the effects)
			h := []int{i / n, i % n, 0, 0}
			if single {
				// quick tier, runtime genesis: one letter, then empty blocks until committees were elected twice
				h = []int{0, i, 0, 0, 0, 0}
			}
			_, what, pruned := c.runHistory(h, true)
			r.Add("transitions", int64(len(h)))
			r.Add("map_order_executions", 1)
			if pruned || what == "" {
				return
			}
			if strings.HasPrefix(what, "harness:") {
				r.HarnessError("%s [%s]", what, lettersString(c.alpha, h))
				return
			}
			var ln []string
			for _, x := range h {
				ln = append(ln, c.alpha[x].Name)
			}
			r.Violate(ev.Violation{Engine: "chainmc", Key: fmt.Sprintf("c01 maporder genesis#%d [%s]", vi, lettersString(c.alpha, h)),
				What:     fmt.Sprintf("genesis variant %d, history [%s], replicas iterating maps in different rotations: %s", vi, lettersString(c.alpha, h), what),
				Artefact: histArtefact{Property: "C01", Profile: "c01", Genesis: opts, History: h, Letters: ln, MapOrder: true}})
		})
	}
	r.Set("map_iteration_order", "every replica and block runs under a fixed iterator offset (replica+3*block mod 8); all rotations of single-group maps are produced")
}

// timelinePhase: long histories.  N blocks of which one (at every chosen
// position) carries a letter of the alphabet and all others are empty: epoch
// timing (node expiry and removal, debonding completion, proposal closing,
// committee elections, reward payouts) interacts with each letter at every
// offset.  The property's per-block oracle is evaluated on every block.
func timelinePhase(r *ev.Run, c *checker, vi int, profile string, opts chain.GenesisOptions) {
	n := 8
	positions := []int{0, 2, 4}
	if r.Thorough() {
		n = 14
		positions = []int{0, 1, 2, 3, 4, 5, 6, 8, 10}
	}
	if c.prop == "C01" && !r.Thorough() {
		positions = []int{1, 3}
	}
	type job struct{ pos, li, filler int }
	var jobs []job
	fillers := []int{0}
	if opts.VRF {
		// well-behaved nodes: proofs as soon as they are accepted (and, with a runtime, rounds otherwise)
		for i, l := range c.alpha {
			if l.VRF != nil && l.VRF.Kind == "auto" {
				fillers = append(fillers, i)
			}
		}
	}
	if opts.Runtime && !opts.VRF {
		// a live runtime: every other block finalizes a runtime round
		for i, l := range c.alpha {
			if l.Round != nil && l.Round.Who == "all" && l.Round.Msgs == "" && l.Round.InMsgs == "" {
				fillers = append(fillers, i)
			}
		}
	}
	for _, f := range fillers {
		for _, p := range positions {
			for li := range c.alpha {
				if li == f && p != positions[0] {
					continue // the uniform timeline once
				}
				jobs = append(jobs, job{p, li, f})
			}
		}
	}
	ev.ParallelRange(len(jobs), r.Seed, func(ji int) {
		if r.Expired() {
			r.Cap("deadline")
			return
		}
		j := jobs[ji]
		h := make([]int, n)
		for i := range h {
			h[i] = j.filler
		}
		h[j.pos] = j.li
		_, what, pruned := c.runHistory(h, true)
		if pruned {
			r.Add("timelines_pruned_by_precondition", 1)
		}
		r.Add("timeline_histories", 1)
		r.Add("transitions", int64(n))
		r.Add("blocks_executed", int64(n*len(c.specs)))
		if pruned || what == "" {
			return
		}
		if strings.HasPrefix(what, "harness:") {
			r.HarnessError("%s [timeline pos %d %s]", what, j.pos, c.alpha[j.li].Name)
			return
		}
		var ln []string
		for _, i := range h {
			ln = append(ln, c.alpha[i].Name)
		}
		r.Violate(ev.Violation{Engine: "chainmc", Key: fmt.Sprintf("%s genesis#%d timeline[%d blocks of %s, %s at %d]", strings.ToLower(c.prop), vi, n, c.alpha[j.filler].Name, c.alpha[j.li].Name, j.pos),
			What:     fmt.Sprintf("genesis variant %d, timeline of %d blocks with [%s] at position %d and [%s] elsewhere: %s", vi, n, c.alpha[j.li].Name, j.pos, c.alpha[j.filler].Name, what),
			Artefact: histArtefact{Property: c.prop, Profile: profile, Genesis: opts, History: h, Letters: ln}})
	})
	r.Set("timeline_blocks", n)
	r.Set("timeline_positions", positions)
}

func runHistories(r *ev.Run) {
	prop := r.ID
	profiles := map[string][]string{"C01": {"c01"}, "C05": {"staking"}, "C10": {"halt"}, "C15": {"staking"}}[prop]
	depth := 2
	if r.Thorough() {
		depth = 3
	}
	if d := os.Getenv("VERIF_CHAIN_DEPTH"); d != "" {
		fmt.Sscan(d, &depth)
	}
	variants := []chain.GenesisOptions{{}}
	if prop == "C10" {
		variants = append(variants, chain.GenesisOptions{MinTransactBalance: 10, LastBlockFees: 7, CommonPool: 1, EpochInterval: 2}, chain.GenesisOptions{MaxValidators: 1, EpochInterval: 2, MaxBlockGas: 5})
		// common pool straddling the size of a proposer / signing reward (75..150) and of its commission
		for _, cp := range []uint64{60, 70, 90, 110, 140, 160} {
			variants = append(variants, chain.GenesisOptions{CommonPool: cp, EpochInterval: 2})
		}
	}
	if prop == "C10" {
		// a compute runtime served by all nodes, one node expiring while it sits in the committee;
		// debonding interval 1 and 2 (expired nodes are removed after the debonding interval)
		variants = append(variants,
			chain.GenesisOptions{Runtime: true, RtGroupSize: 3, EpochInterval: 2, NodeExpirations: []uint64{40, 3, 40}},
			chain.GenesisOptions{Runtime: true, RtGroupSize: 2, RtBackupSize: 1, EpochInterval: 3, NodeExpirations: []uint64{40, 40, 2}, DebondingInterval: 2},
			chain.GenesisOptions{Runtime: true, RtGroupSize: 2, EpochInterval: 2, NodeExpirations: []uint64{3, 40, 40}, RtMaxInMessages: 2},
			// all three nodes stay: a committee of two can still be elected when the owner's node drops out for lack of stake
			chain.GenesisOptions{Runtime: true, RtGroupSize: 2, EpochInterval: 2, NodeExpiration: 40})
	}
	if prop == "C10" || (prop == "C01" && r.Thorough()) {
		// long epochs and a short round timeout: rounds time out, go through discrepancy resolution
		// and fail inside one epoch (with short epochs the epoch transition always comes first)
		variants = append(variants, chain.GenesisOptions{Runtime: true, RtGroupSize: 2, RtBackupSize: 1, EpochInterval: 10, RtRoundTimeout: 2, NodeExpiration: 40})
	}
	if prop == "C05" || prop == "C01" {
		variants = append(variants, chain.GenesisOptions{Runtime: true, RtGroupSize: 2, RtBackupSize: 1, EpochInterval: 3, NodeExpirations: []uint64{40, 3, 40}})
	}
	if prop == "C01" {
		// a minimum gas price: most transactions of the alphabet are under-priced and must be refused by
		// every replica alike, whatever simulations and mempool checks a replica served in between
		variants = append(variants, chain.GenesisOptions{MinGasPrice: 1, EpochInterval: 3})
	}
	if prop == "C01" {
		// every replica has a node-local upgrade backend (the real upgrade manager over its own store) and an
		// upgrade proposal with enough yes votes is about to close: what the governance application learns from
		// that node-local store (a descriptor already pending because the closing block, or another proposal for
		// that height, was executed before) must not reach consensus state
		variants = append(variants, chain.GenesisOptions{Upgrader: true, EpochInterval: 2, NodeExpiration: 14, Focus: "upgrade",
			Prefix: []string{"gov-submit-upgrade(e0)", "gov-vote(e2,#1,yes)", "gov-vote(e1,#1,yes)"}})
	}
	if prop == "C01" {
		// all entities tied and the validator limit cutting into the tie: any order-dependent
		// step of the election makes replicas disagree
		variants = append(variants, chain.GenesisOptions{Escrow: []uint64{1500, 2000, 2500}, MaxValidators: 2, EpochInterval: 1, NodeExpiration: 12})
	}
	if prop == "C10" || prop == "C05" {
		// governance as configured on current networks: proposals carry metadata, votes do not need a registered entity
		variants = append(variants, chain.GenesisOptions{GovMetadata: true, EpochInterval: 2, NodeExpiration: 14})
	}
	if prop == "C05" || prop == "C10" {
		// governance: a proposal raising the minimum proposal deposit has been submitted and carries
		// enough yes votes to pass when it closes; a second proposal, submitted an epoch later under the
		// old deposit and also carrying enough yes votes, closes after the first one was executed
		variants = append(variants, chain.GenesisOptions{EpochInterval: 2, NodeExpiration: 14, Prefix: []string{"gov-submit-mindeposit(e1,500)", "gov-vote(e2,#1,yes)", "gov-vote(e1,#1,yes)", "gov-submit-upgrade(e0)", "gov-vote(e2,#2,yes)", "gov-vote(e1,#2,yes)"}})
	}
	if prop == "C10" || (prop == "C01" && r.Thorough()) {
		// a key manager runtime (no TEE hardware) served by all nodes: node re-registrations with every kind of
		// enclave init response, master / ephemeral secret publication, policy updates; before and at 26.1
		variants = append(variants, chain.GenesisOptions{KeyManager: true, EpochInterval: 2, NodeExpiration: 30, Escrow: []uint64{3000, 3000, 3000}})
		if r.Thorough() {
			variants = append(variants, chain.GenesisOptions{KeyManager: true, EpochInterval: 3, NodeExpiration: 30, Escrow: []uint64{3000, 3000, 3000}, Feature261: true})
		}
		if prop == "C10" || r.Thorough() {
			// a CHURP scheme exists and all nodes applied for the next handoff
			variants = append(variants, chain.GenesisOptions{KeyManager: true, EpochInterval: 3, NodeExpiration: 30, Escrow: []uint64{3000, 3000, 3000}, Feature261: true,
				Prefix: []string{"km-churp-create(nodes=[],honest)", "km-churp-apply(nodes=[0 1 2],honest)"}})
		}
	}
	if prop == "C10" || prop == "C01" {
		// CHURP after a completed handoff: scheme created, all nodes applied and confirmed (handoff 1 done), all
		// nodes applied again; the explored letters (CHURP only) meet the second handoff of an unchanged committee
		variants = append(variants, chain.GenesisOptions{KeyManager: true, EpochInterval: 3, NodeExpiration: 30, Escrow: []uint64{3000, 3000, 3000}, Feature261: true, Focus: "churp",
			Prefix: []string{"km-churp-create(nodes=[],honest)", "km-churp-apply(nodes=[0 1 2],honest)", "km-churp-confirm(nodes=[0 1 2],honest)", "km-churp-apply(nodes=[0 1 2],honest)", "empty-block"}})
	}
	if prop == "C05" || prop == "C10" || (prop == "C01" && r.Thorough()) {
		// a vault at genesis: funds held by a module account with a withdraw hook, actions that execute inner messages
		variants = append(variants, chain.GenesisOptions{Vault: true, EpochInterval: 3})
	}
	if prop == "C15" {
		// debonding in flight (two pools, two epochs to go): slashing, further reclaims and deposits happen
		// while delegations wait, completion at the then current price
		variants = append(variants, chain.GenesisOptions{EpochInterval: 3, DebondingInterval: 2, NodeExpiration: 14, Prefix: []string{"reclaim(a0<-e0,100sh)", "reclaim(e1<-e1,333sh)"}})
	}
	if prop == "C05" || prop == "C15" {
		// debonding in flight and an equivocation penalty that takes everything: the debonding delegations are
		// worth nothing when their period ends
		variants = append(variants, chain.GenesisOptions{EpochInterval: 3, DebondingInterval: 2, NodeExpiration: 14, SlashAmount: 1000000, Prefix: []string{"reclaim(a0<-e0,100sh)", "reclaim(e1<-e1,333sh)"}})
	}
	if prop == "C05" || prop == "C15" {
		// entities delegating to each other: an escrow account that is itself a delegator elsewhere,
		// with reclaims of all parties ending at the same epoch
		variants = append(variants, chain.GenesisOptions{EpochInterval: 3, NodeExpiration: 14, Prefix: []string{"escrow(e1->e0,400)", "escrow(e0->e1,200)", "escrow(e2->e1,300)", "escrow(a0->e1,100)", "escrow(a1->e1,333)chain"}})
	}
	if prop == "C05" {
		// a compute runtime and a minimum transact balance: payments into the (empty) runtime account can
		// fail on the destination side after the source was debited
		variants = append(variants, chain.GenesisOptions{Runtime: true, RtGroupSize: 2, EpochInterval: 3, MinTransactBalance: 10, NodeExpiration: 12})
	}
	if prop == "C05" {
		// a nearly depleted common pool: of the rewards of one epoch transition some fit and later ones do not
		for _, cp := range []uint64{110, 160} {
			variants = append(variants, chain.GenesisOptions{CommonPool: cp, EpochInterval: 2})
		}
	}
	if prop == "C05" && r.Thorough() {
		variants = append(variants, chain.GenesisOptions{MinTransactBalance: 10, LastBlockFees: 7, EpochInterval: 2})
	}
	if sel := os.Getenv("VERIF_ONLY_VARIANTS"); sel != "" {
		// developer switch: km | vrf | gov
		var keep []chain.GenesisOptions
		for _, v := range variants {
			if (sel == "km" && v.KeyManager) || (sel == "vrf" && v.VRF) || (sel == "gov" && v.GovMetadata) || (sel == "upg" && v.Upgrader) {
				keep = append(keep, v)
			}
		}
		variants = keep
	}
	if r.Replay != "" {
		v, err := ev.LoadReplay(r.Replay)
		if err != nil {
			fmt.Println("cannot load replay:", err)
			os.Exit(2)
		}
		b, _ := json.Marshal(v.Artefact)
		var a histArtefact
		_ = json.Unmarshal(b, &a)
		w, err := newWorld(a.Genesis)
		if err != nil {
			fmt.Println("world:", err)
			os.Exit(2)
		}
		c := &checker{prop: prop, w: w, alpha: w.alphabet(a.Profile), specs: bundleSpecs(prop, true), mapOrder: a.MapOrder}
		if len(a.History) == 0 && len(a.Letters) > 0 {
			// hand-written artefact: letters by name
			for _, nm := range a.Letters {
				found := false
				for i, l := range c.alpha {
					if l.Name == nm {
						a.History = append(a.History, i)
						found = true
					}
				}
				if !found {
					fmt.Println("replay: unknown letter", nm)
					os.Exit(2)
				}
			}
		}
		_, what, _ := c.runHistory(a.History, true)
		if what != "" {
			fmt.Printf("VIOLATION property=%s replay=%s\n  what: %s\n", prop, r.Replay, what)
			os.Exit(1)
		}
		fmt.Println("replay: property held")
		os.Exit(0)
	}
	if os.Getenv("VERIF_SHARD") != "" {
		// child process of the map-order phase (see below)
		r.Fork(1 << 30)
		mapOrderPhase(r, variants)
		r.Finish()
	}
	variantSeconds := map[string]float64{}
	defer func() {}()
	// The thorough tier runs under a time budget: a first pass gives every world the quick tier's depth and the
	// long timelines, a second pass adds the deeper level world by world for as long as the budget lasts.
	type passT struct {
		depth     int
		timelines bool
	}
	passes := []passT{{depth, true}}
	if r.Thorough() && depth > 2 {
		passes = []passT{{2, true}, {depth, false}}
	}
	for pi, pass := range passes {
	for vi, opts := range variants {
		for _, profile := range profiles {
			vStart := time.Now()
			defer func(vi int) {}(vi)
			w, err := newWorld(opts)
			if err != nil {
				r.HarnessError("genesis variant %d: %v", vi, err)
				continue
			}
			c := &checker{prop: prop, w: w, alpha: w.alphabet(profile), specs: bundleSpecs(prop, r.Thorough())}
			var names []string
			for _, l := range c.alpha {
				names = append(names, l.Name)
			}
			r.Set(fmt.Sprintf("alphabet_%s", profile), names)
			// BFS by levels with deduplication by (height, AppHash).
			frontier := [][]int{{}}
			seen := map[string]bool{}
			var mu sync.Mutex
			vdepth := pass.depth
			statesBefore := 0
			if (prop == "C05" || prop == "C15") && !r.Thorough() && (opts.CommonPool > 0 && opts.CommonPool < 1000 || opts.GovMetadata) {
				// quick tier: these worlds exist for one mechanism each (rewards meeting a depleted pool, proposals
				// with metadata), which single letters and the timelines reach
				vdepth = 1
			}
			if prop == "C01" && !r.Thorough() && opts.Focus != "" {
				vdepth = 1
			}
			if prop == "C10" && !r.Thorough() && opts.Runtime && opts.EpochInterval >= 10 {
				// quick tier: the world with long epochs and a short round timeout (20 warm-up blocks per history) to
				// depth 1 plus its timelines with empty-block and finalized-round fillers
				vdepth = 1
			}
			for level := 1; level <= vdepth && len(frontier) > 0; level++ {
				type item struct {
					h []int
				}
				var jobs [][]int
				for _, h := range frontier {
					for li := range c.alpha {
						jobs = append(jobs, append(append([]int{}, h...), li))
					}
				}
				var next [][]int
				ev.ParallelRange(len(jobs), r.Seed, func(ji int) {
					if r.Expired() {
						r.Cap("deadline")
						return
					}
					h := jobs[ji]
					key, what, pruned := c.runHistory(h, false)
					r.Add("transitions", 1)
					r.Add("blocks_executed", int64(len(h)*len(c.specs)))
					if pruned {
						r.Add("pruned_by_precondition", 1)
						return
					}
					if what != "" {
						if strings.HasPrefix(what, "harness:") {
							r.HarnessError("%s [%s]", what, lettersString(c.alpha, h))
							return
						}
						var ln []string
						for _, i := range h {
							ln = append(ln, c.alpha[i].Name)
						}
						r.Violate(ev.Violation{Engine: "chainmc", Key: fmt.Sprintf("%s genesis#%d [%s]", strings.ToLower(prop), vi, lettersString(c.alpha, h)),
							What:     fmt.Sprintf("genesis variant %d, history [%s]: %s", vi, lettersString(c.alpha, h), what),
							Artefact: histArtefact{Property: prop, Profile: profile, Genesis: opts, History: h, Letters: ln}})
						return
					}
					r.Outcome(key)
					mu.Lock()
					if !seen[key] {
						seen[key] = true
						next = append(next, h)
					}
					mu.Unlock()
					if ji%211 == 0 {
						r.Sample(map[string]any{"genesis_variant": vi, "history": lettersString(c.alpha, h), "state": key}, 6)
					}
				})
				frontier = next
				if pi > 0 && level == passes[pi-1].depth {
					statesBefore = len(seen)
				}
			}
			r.Add("states", int64(len(seen)-statesBefore))
			tBFS := time.Since(vStart).Seconds()
			if !pass.timelines {
				variantSeconds[fmt.Sprintf("variant_%02d_deep", vi)] = float64(int(tBFS*10)) / 10
				continue
			}
			if r.Thorough() && opts.NodeExpiration == 0 && len(opts.NodeExpirations) == 0 && !opts.VRF {
				// the genesis nodes of this world expire at epoch 4, before a 14-block timeline ends, after which no
				// validator set can be elected (the documented precondition): the long timelines run on the same
				// world with nodes that live through them
				o2 := opts
				o2.NodeExpiration = 12
				if w2, err := newWorld(o2); err == nil {
					c2 := &checker{prop: prop, w: w2, alpha: w2.alphabet(profile), specs: c.specs}
					timelinePhase(r, c2, vi, profile, o2)
				} else {
					r.HarnessError("genesis variant %d with long-lived nodes: %v", vi, err)
				}
			} else {
				timelinePhase(r, c, vi, profile, opts)
			}
			variantSeconds[fmt.Sprintf("variant_%02d", vi)] = float64(int(time.Since(vStart).Seconds()*10)) / 10
			variantSeconds[fmt.Sprintf("variant_%02d_bfs", vi)] = float64(int(tBFS*10)) / 10
		}
	}
	}
	r.Set("seconds_per_genesis_variant", variantSeconds)
	if prop == "C15" {
		r.Add("debonding_reference_evaluations", c15Evals.Load())
		r.Add("debonding_payouts_compared", c15Payouts.Load())
		r.Add("not_due_delegations_compared", c15NotDue.Load())
	}
	r.Set("depth", depth)
	r.Set("genesis_variants", len(variants))
	r.Alias("traces_validated_against_impl", "transitions")
	switch prop {
	case "C01":
		r.Set("rule", "breadth-first search over block histories (one letter = one block: a transaction list, a vote pattern, a proposer, evidence); every history is executed from genesis on a bundle of replicas of the real ABCI multiplexer + all real applications: proposer (PrepareProposal + cached results), validator (ProcessProposal executes), plain replay, validator that first processed a different proposal, validator with CheckTx/queries injected between all ABCI calls, on-disk replica closed and reopened before every block; badger and pathbadger; oracle: identical state root, per-transaction code/data/gas/events, block events, validator updates as a set, and acceptance of the honest proposal Genesis variants with a compute runtime served by all nodes add: warm-up to the first executor committee, runtime rounds (correctly signed executor commitments of all workers / the scheduler only / with a dissenting worker / with failure votes / with backup votes; emitting staking transfer, withdraw, add-escrow, reclaim, update-runtime and malformed runtime messages; processing the incoming message queue with right and wrong hash), SubmitMsg, RegisterRuntime updates, runtime node registrations. Timeline phase: N-block histories with one letter at every chosen offset and empty blocks (or, with a runtime, finalized rounds) elsewhere, oracle evaluated on every block.")
	case "C05":
		r.Set("rule", "breadth-first search over block histories of staking / governance transactions (valid and invalid, zero/huge amounts, reserved and equal addresses, fees), vote patterns, proposers and evidence, crossing epoch boundaries (interval 3); after every block: total supply = general + escrow.active + escrow.debonding + common pool + governance deposits + last block fees; per escrow account total shares = sum of (debonding) delegations; supply never increases and decreases exactly by the block's burn events Genesis variants with a compute runtime served by all nodes add: warm-up to the first executor committee, runtime rounds (correctly signed executor commitments of all workers / the scheduler only / with a dissenting worker / with failure votes / with backup votes; emitting staking transfer, withdraw, add-escrow, reclaim, update-runtime and malformed runtime messages; processing the incoming message queue with right and wrong hash), SubmitMsg, RegisterRuntime updates, runtime node registrations. Timeline phase: N-block histories with one letter at every chosen offset and empty blocks (or, with a runtime, finalized rounds) elsewhere, oracle evaluated on every block.")
	case "C15":
		r.Set("rule", "chain part of C15 (debonding completion): breadth-first search over block histories of the staking alphabet (escrow, reclaim, transfers, evidence / slashing, vote patterns) on the default genesis and on a genesis whose prefix makes entities delegate to each other (an escrow account that is itself a delegator elsewhere, reclaims of all parties ending at the same epoch), crossing epoch boundaries (interval 3), plus the timeline phase; oracle: after every block the C05 supply and share-sum invariants, and for every block without transactions and evidence a reference model of debonding completion applied to the committed state before the block (due entries in queue order, paid shares * pool balance / pool shares, exactly when the epoch changed and the end epoch is reached): general balances, debonding pools, the set of pending debonding delegations and the reclaim events after the block must equal the reference")
	case "C10":
		r.Set("rule", "breadth-first search over block histories with extreme amounts, every vote pattern (none, proposer only, duplicates, unknown validators, empty), unknown proposer, evidence against known / unknown validators and of unknown type, proposals and debonding ending on epoch boundaries, on three genesis variants (default; min-transact-balance + genesis fees + depleted common pool; single validator + tiny block gas); oracle: PrepareProposal yields a proposal, every replica accepts it, Begin/Deliver/End/Commit return without panic Genesis variants with a compute runtime served by all nodes add: warm-up to the first executor committee, runtime rounds (correctly signed executor commitments of all workers / the scheduler only / with a dissenting worker / with failure votes / with backup votes; emitting staking transfer, withdraw, add-escrow, reclaim, update-runtime and malformed runtime messages; processing the incoming message queue with right and wrong hash), SubmitMsg, RegisterRuntime updates, runtime node registrations. Timeline phase: N-block histories with one letter at every chosen offset and empty blocks (or, with a runtime, finalized rounds) elsewhere, oracle evaluated on every block.")
	}
	r.Assume("histories are bounded by depth; deduplicated by (height, state root) on the reference replica", "the consensus engine itself (CometBFT) is replaced by the harness; inputs CometBFT would reject before ABCI are not generated")
	if prop != "C01" {
		r.Assume("Go map iteration order is not controlled by this check (C01 controls it)")
	}
	if prop == "C01" {
		r.Assume("BFS / timeline / map-order phases: replicas of one bundle run sequentially in one goroutine with foreign calls injected between ABCI calls; lock-level interleavings are explored by the concurrency phase (conc_* keys)")
	} else {
		r.Assume("replicas of one bundle run sequentially in one goroutine; interleavings of concurrent queries / mempool checks with block execution at the lock level are not explored (they are injected between ABCI calls only)")
	}
	if prop == "C01" && chain.MapOrderControlled {
		// The children run the map-order phase; their results are merged into this run
		// (Fork does not return in the parent: it merges and finishes).
		r.Fork(ev.Workers())
	}
	r.Finish()
}
