package main

import (
	"bytes"
	"fmt"
	"os"
	"strings"
	"time"

	"github.com/cometbft/cometbft/abci/types"

	"github.com/oasisprotocol/oasis-core/go/common/cbor"
	"github.com/oasisprotocol/oasis-core/go/consensus/api/transaction"
	"github.com/oasisprotocol/oasis-core/go/consensus/cometbft/abci"
	"github.com/oasisprotocol/oasis-core/go/storage/mkvs"
	"github.com/oasisprotocol/oasis-core/go/storage/mkvs/node"
	"github.com/oasisprotocol/oasis-core/go/verifshim/sched"
	vsync "github.com/oasisprotocol/oasis-core/go/verifshim/sync"

	"verif/harness/internal/chain"
	"verif/harness/internal/conc"
	"verif/harness/internal/ev"
)

// C01, concurrency phase: "... regardless of mempool checks, gas estimation,
// state queries or pruning running concurrently".  After a sequential warm-up
// one replica executes the next block while, as separate controlled threads,
// the state pruner prunes (what the prune worker does after the previous
// commit), a mempool check runs (excluded from Commit by the mempool lock as
// under CometBFT), gas is estimated and a historical query reads a retained
// height.  Every schedule with at most `bound` preemptions at the
// multiplexer's and the node database's locks and at every database read and
// durable write is executed; the block's results must equal those of a
// reference replica that ran alone, the query must return the reference
// values, and a further block must agree as well.

type c01concPlan struct {
	Name    string
	Backend string
	Warm    []string // letter names executed sequentially on both replicas
	Block   string   // the letter executed concurrently with the other threads
	Path    chain.Path
	Pruner  bool
	Foreign bool
	Keep    uint64
	// Propose: the replica under test is the block's proposer (PrepareProposal and the cached
	// results run under concurrent activity); the reference replica validates the block afterwards.
	Propose bool
}

func c01concPlans(thorough bool) []c01concPlan {
	warm := []string{"transfer(a0->a1,10,fee2)", "escrow(a0->e0,50)", "empty-block"}
	plans := []c01concPlan{
		{Name: "block(escrow) | pruner", Backend: "badger", Warm: warm, Block: "escrow(a0->e0,50)", Path: chain.PathProcess, Pruner: true, Keep: 1},
		{Name: "block(transfer) | pruner", Backend: "pathbadger", Warm: warm, Block: "transfer(a0->a1,10,fee2)", Path: chain.PathProcess, Pruner: true, Keep: 1},
		{Name: "block(transfer) | checktx+estimate+query", Backend: "badger", Warm: warm[:2], Block: "transfer(a0->a1,10,fee2)", Path: chain.PathProcess, Foreign: true, Keep: 2},
		{Name: "block(reclaim) | checktx+estimate+query", Backend: "pathbadger", Warm: warm[:2], Block: "reclaim(a0<-e0,100sh)", Path: chain.PathReplay, Foreign: true, Keep: 2},
	}
	plans = append(plans,
		c01concPlan{Name: "proposer: block(transfer) | checktx+estimate+query", Backend: "badger", Warm: warm[:2], Block: "proposer=#1+transfer(a0->a1,10,fee2)", Path: chain.PathPropose, Foreign: true, Keep: 2, Propose: true},
	)
	if thorough {
		plans = append(plans,
			c01concPlan{Name: "proposer: block(transfer) | pruner", Backend: "pathbadger", Warm: warm, Block: "proposer=#1+transfer(a0->a1,10,fee2)", Path: chain.PathPropose, Pruner: true, Keep: 1, Propose: true},
			c01concPlan{Name: "block(burn) | pruner | checktx+estimate+query", Backend: "badger", Warm: warm, Block: "burn(a1,7,fee1)", Path: chain.PathProcess, Pruner: true, Foreign: true, Keep: 1},
			c01concPlan{Name: "block(escrow) | pruner | checktx+estimate+query", Backend: "pathbadger", Warm: warm, Block: "escrow(a0->e0,50)", Path: chain.PathReplay, Pruner: true, Foreign: true, Keep: 1},
		)
	}
	return plans
}

func (w *world) letterByName(alpha []letter, name string) *letter {
	for i := range alpha {
		if alpha[i].Name == name {
			return &alpha[i]
		}
	}
	return nil
}

func resultKey(r *chain.Result) string {
	var sb strings.Builder
	fmt.Fprintf(&sb, "accepted=%v panic=%q apphash=%x vals={%s}", r.Accepted, r.Panic, r.AppHash, valUpdatesKey(r.ValidatorUpdates))
	for _, t := range r.TxResults {
		sb.WriteString(" [" + txResKey(t) + "]")
	}
	return sb.String()
}

func c01concInstance(w *world, alpha []letter, pl c01concPlan) (*conc.Instance, error) {
	// replica 0: reference (proposer, no pruning, runs alone); replica 1: the replica under test
	chain.PruneKeep = 0
	specs := []rspec{{Name: "R/reference", Path: chain.PathPropose, Backend: pl.Backend}}
	b, err := w.newBundle(specs)
	if err != nil {
		return nil, err
	}
	chain.PruneKeep = pl.Keep
	dir := ""
	if pl.Pruner {
		// the pruner syncs the database's write-ahead log, which a memory-only database does not have
		base := ""
		if st, err := os.Stat("/dev/shm"); err == nil && st.IsDir() {
			base = "/dev/shm"
		}
		dir, err = os.MkdirTemp(base, "verif-c01c-")
		if err != nil {
			b.close()
			return nil, err
		}
		b.tmp = dir
	}
	n1, err := chain.NewNode(w.doc, w.keys.Nodes[1], pl.Backend, dir, false)
	chain.PruneKeep = 0
	if err != nil {
		b.close()
		return nil, err
	}
	if err := n1.InitChain(); err != nil {
		n1.Close()
		b.close()
		return nil, err
	}
	b.reps = append(b.reps, &replica{spec: rspec{Name: "T/under-test", Path: pl.Path, Backend: pl.Backend, Ident: 1}, n: n1})
	fail := func(format string, a ...any) (*conc.Instance, error) {
		b.close()
		return nil, fmt.Errorf(format, a...)
	}
	for _, nm := range pl.Warm {
		l := w.letterByName(alpha, nm)
		if l == nil {
			return fail("unknown letter %s", nm)
		}
		out, err := b.exec(l)
		if err != nil {
			return fail("warm-up: %v", err)
		}
		if wv := b.compareReplicas(out); wv != "" || out.results[0].Panic != "" {
			return fail("warm-up block %s: %s %s", nm, wv, out.results[0].Panic)
		}
	}
	ref, n := b.reps[0].n, b.reps[1].n
	k := n.Height
	rootK := node.Root{Version: uint64(k), Type: node.RootTypeState}
	copy(rootK.Hash[:], n.AppHash)
	// reference values of the historical query: three keys of the state at height k
	refDump, err := ref.Dump()
	if err != nil {
		return fail("reference dump: %v", err)
	}
	// deterministic choice: smallest key of three distinct module prefixes
	queryKeys := pickQueryKeys(refDump)
	// the block, prepared and executed by the reference replica alone
	l := w.letterByName(alpha, pl.Block)
	if l == nil {
		return fail("unknown letter %s", pl.Block)
	}
	blk := b.buildBlock(l)
	var refRes *chain.Result
	if !pl.Propose {
		refRes = ref.Exec(blk, chain.PathPropose, nil)
		if refRes.Panic != "" || !refRes.Accepted {
			return fail("reference replica failed on the block: %s", refRes.Panic)
		}
	}
	// foreign transaction: a valid transfer by a1 (not part of the block)
	ftx := transaction.NewTransaction(ref.Nonce(chain.Addr(w.keys.Accounts[1])), chain.Fee(1, 10000), "staking.Transfer", w.stakingTxs()[0].Body)
	fraw := chain.SignTx(w.keys.Accounts[1], ftx.Nonce, ftx.Fee, ftx.Method, w.stakingTxs()[0].Body)
	_ = cbor.Marshal

	var mp vsync.Mutex
	n.CommitLock = &mp
	var problems, outcome conc.Notes
	var got *chain.Result
	inst := &conc.Instance{Close: func() { b.close() }}
	inst.Bodies = append(inst.Bodies, func() {
		got = n.Exec(blk, pl.Path, nil)
		outcome.Add("%s", "block")
	})
	if pl.Pruner {
		inst.Bodies = append(inst.Bodies, func() {
			if err := abci.VerifPrune(n.Srv, uint64(k)); err != nil {
				problems.Add("state pruner failed while the next block executes: %v", err)
			}
			outcome.Add("pruned(retained=%d)", abci.VerifLastRetained(n.Srv))
		})
	}
	if pl.Foreign {
		inst.Bodies = append(inst.Bodies, func() {
			mp.Lock()
			r, pan := n.CheckTx(fraw)
			mp.Unlock()
			if pan != "" {
				problems.Add("%s", "CheckTx panicked: "+pan)
				return
			}
			outcome.Add("checktx=%d", r.Code)
			func() {
				defer func() {
					if p := recover(); p != nil {
						problems.Add("EstimateGas panicked: %v", p)
					}
				}()
				g, err := n.Srv.EstimateGas(w.keys.Accounts[1].Public(), ftx)
				outcome.Add("gas=%d/%v", g, err != nil)
			}()
			// historical query at the retained height k
			t := mkvs.NewWithRoot(nil, n.Srv.State().Storage().NodeDB(), rootK, mkvs.WithoutWriteLog())
			defer t.Close()
			for _, key := range queryKeys {
				v, err := t.Get(chain.Ctx, key)
				if err != nil {
					problems.Add("query at retained height %d failed while the next block executes: %v", k, err)
					return
				}
				if !bytes.Equal(v, refDump[string(key)]) {
					problems.Add("query at retained height %d returned a value that differs from the reference replica's for key %x", k, key)
					return
				}
			}
			outcome.Add("%s", "query")
		})
	}
	inst.Outcome = func() string { return strings.Join(outcome.List(), " ") }
	inst.Final = func(_ *sched.Result) string {
		if problems.Len() > 0 {
			return strings.Join(problems.List(), "; ")
		}
		if got == nil {
			return "block executor did not finish"
		}
		if pl.Propose {
			if got.Panic != "" || !got.Accepted {
				return "proposer with concurrent activity failed to prepare / execute its block: " + got.Panic
			}
			refRes = ref.Exec(blk, chain.PathProcess, nil)
			got.PreparedTxs = nil
		}
		if a, c := resultKey(got), resultKey(refRes); a != c {
			return fmt.Sprintf("replica with concurrent activity computed {%s}, the reference replica running alone {%s}", a, c)
		}
		// one more block, sequentially, on both
		n.CommitLock = nil
		out, err := b.exec(w.letterByName(alpha, "transfer(a0->a1,10,fee2)"))
		if err != nil {
			return "harness: " + err.Error()
		}
		if wv := b.compareReplicas(out); wv != "" {
			return "the block after the concurrent one: " + wv
		}
		if out.results[1].Panic != "" {
			return "the block after the concurrent one failed: " + out.results[1].Panic
		}
		return ""
	}
	return inst, nil
}

func pickQueryKeys(dump map[string][]byte) [][]byte {
	best := map[byte]string{}
	for k := range dump {
		if k == "" {
			continue
		}
		if cur, ok := best[k[0]]; !ok || k < cur {
			best[k[0]] = k
		}
	}
	var prefixes []int
	for p := range best {
		prefixes = append(prefixes, int(p))
	}
	// ascending module prefixes, at most three
	for i := 0; i < len(prefixes); i++ {
		for j := i + 1; j < len(prefixes); j++ {
			if prefixes[j] < prefixes[i] {
				prefixes[i], prefixes[j] = prefixes[j], prefixes[i]
			}
		}
	}
	var out [][]byte
	for _, p := range prefixes {
		if len(out) == 3 {
			break
		}
		out = append(out, []byte(best[byte(p)]))
	}
	return out
}

func c01concScenarios(r *ev.Run) []conc.Scenario {
	w, err := newWorld(chain.GenesisOptions{})
	if err != nil {
		r.HarnessError("genesis: %v", err)
		return nil
	}
	alpha := w.alphabet("c01")
	var scs []conc.Scenario
	for _, pl := range c01concPlans(r.Thorough()) {
		pl := pl
		bound := 1 // thorough: one more preemption is explored under a time budget (conc_extra_*)
		scs = append(scs, conc.Scenario{
			Name:  fmt.Sprintf("c01 %s [%s] then %s", pl.Backend, strings.Join(pl.Warm, " | "), pl.Name),
			Key:   "c01 " + pl.Backend + " " + pl.Name,
			Bound: bound,
			New:   func() (*conc.Instance, error) { return c01concInstance(w, alpha, pl) },
		})
	}
	return scs
}

func runC01Conc(r *ev.Run) {
	if r.Replay != "" {
		v, err := ev.LoadReplay(r.Replay)
		if err != nil {
			fmt.Println("cannot load replay:", err)
			os.Exit(2)
		}
		what, err := conc.Replay(c01concScenarios(r), v.Artefact)
		if err != nil {
			fmt.Println("replay:", err)
			os.Exit(2)
		}
		if what != "" {
			fmt.Printf("VIOLATION property=C01 replay=%s\n  what: %s\n", r.Replay, what)
			os.Exit(1)
		}
		fmt.Println("replay: property held")
		os.Exit(0)
	}
	if os.Getenv("VERIF_PHASE") == "race" {
		it := 5
		if r.Thorough() {
			it = 20
		}
		conc.RaceRun(r, c01concScenarios(r), it)
		r.Set("race_rule", "free-running race-detector pass over the concurrency scenarios of the conc phase (block executor, pruner, CheckTx / EstimateGas / historical query as ordinary goroutines in a -race build)")
		r.Finish()
	}
	r.Fork(ev.Workers())
	scs := c01concScenarios(r)
	conc.Explore(r, "chainmc-conc", scs)
	if r.Thorough() {
		// beyond the claimed bound: two preemptions for as long as the time budget lasts
		conc.ExploreExtra(r, "chainmc-conc", scs, r.Start.Add(12*time.Minute))
	}
	r.Set("conc_preemption_bound", 1)
	r.Set("conc_rule", "concurrent activity during block execution: after a sequential warm-up (3 blocks) a replica of the real multiplexer with the keep-last-N state pruner executes the next block (ProcessProposal path or plain replay) as one controlled thread while further controlled threads run the state pruner's Prune (as the prune worker does after the previous commit) and / or a mempool CheckTx (under the mempool lock that excludes Commit), EstimateGas and a historical query at a retained height; every schedule with at most conc_preemption_bound preemptions (thorough: more scenarios, and schedules with two preemptions for the rest of a 12-minute budget, reported as conc_extra_*) at the multiplexer's, pruner's and node database's locks and at every database read and durable write is executed; oracle: block results (state root, transaction results, validator updates) equal those of a reference replica that ran alone, the query returns the reference values, the pruner does not fail, and the following block agrees as well")
	r.Assume("concurrency phase: threads are preempted only at lock acquisitions of the abci package / node database and at badger reads and durable writes; unsynchronised accesses are the business of a free-running race-detector pass, not of this exploration")
	r.Finish()
	_ = types.CodeTypeOK
}
