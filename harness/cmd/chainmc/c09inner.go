package main

import (
	"crypto/ed25519"
	"fmt"
	"sort"
	"strings"

	"github.com/oasisprotocol/oasis-core/go/common/cbor"
	"github.com/oasisprotocol/oasis-core/go/common/crypto/hash"
	"github.com/oasisprotocol/oasis-core/go/common/crypto/signature"
	"github.com/oasisprotocol/oasis-core/go/common/entity"
	"github.com/oasisprotocol/oasis-core/go/common/node"
	keymanager "github.com/oasisprotocol/oasis-core/go/keymanager/api"
	"github.com/oasisprotocol/oasis-core/go/keymanager/churp"
	"github.com/oasisprotocol/oasis-core/go/keymanager/secrets"
	roothash "github.com/oasisprotocol/oasis-core/go/roothash/api"
	"github.com/oasisprotocol/oasis-core/go/roothash/api/commitment"
	staking "github.com/oasisprotocol/oasis-core/go/staking/api"

	"verif/harness/internal/chain"
	"verif/harness/internal/ev"
)

// C09 part C: signed payloads carried inside transactions (entity and node descriptors,
// executor commitments, equivocation evidence).  A correctly enveloped transaction must not
// take effect when one of its inner signatures was made with the right key under any other
// signature context (other message domain, other chain, other runtime), or is altered.

// innerSlot is one inner signature of a carrier transaction.
type innerSlot struct {
	Name string
	Sig  *signature.RawSignature // points into the carrier's body
	Msg  []byte                  // the signed message
	Key  signature.Signer
}

type innerCarrier struct {
	Name  string
	Opts  chain.GenesisOptions
	Warm  bool // warm up to the first executor committee
	KM    bool // key manager world: empty blocks until the key manager status exists, then the Pre letters
	Pre   []kmSpec
	Build func(b *bundle) (txT, []innerSlot, string)
}

func (w *world) innerCarriers() []innerCarrier {
	rtOpts := chain.GenesisOptions{EpochInterval: 3, NodeExpiration: 14, Runtime: true, RtSlashEquivocation: 50}
	kmOpts := chain.GenesisOptions{KeyManager: true, EpochInterval: 2, NodeExpiration: 30, Escrow: []uint64{3000, 3000, 3000}}
	churpOpts := chain.GenesisOptions{KeyManager: true, EpochInterval: 3, NodeExpiration: 30, Escrow: []uint64{3000, 3000, 3000}, Feature261: true}
	mkCommit := func(k *chain.Keys, round uint64, tag string, failure bool) commitment.ExecutorCommitment {
		n0 := k.Nodes[0].NodeSigner
		ec := commitment.ExecutorCommitment{
			NodeID: n0.Public(),
			Header: commitment.ExecutorCommitmentHeader{
				SchedulerID: n0.Public(),
				Header:      commitment.ComputeResultsHeader{Round: round, PreviousHash: hash.NewFromBytes([]byte("verif previous"))},
			},
		}
		if failure {
			ec.Header.Failure = commitment.FailureUnknown
		} else {
			io := hash.NewFromBytes([]byte("io " + tag))
			st := hash.NewFromBytes([]byte("state " + tag))
			mh := hash.NewFromBytes([]byte("msgs " + tag))
			ih := hash.NewFromBytes([]byte("inmsgs " + tag))
			ec.Header.Header.IORoot, ec.Header.Header.StateRoot, ec.Header.Header.MessagesHash, ec.Header.Header.InMessagesHash = &io, &st, &mh, &ih
		}
		if err := ec.Sign(n0, chain.RuntimeID()); err != nil {
			panic(err)
		}
		return ec
	}
	return []innerCarrier{
		{Name: "registry.RegisterEntity", Build: func(b *bundle) (txT, []innerSlot, string) {
			k := b.w.keys
			t := entityTx("entity0-update nodes=[0,1]", k.EntityDescriptor(0, []int{0, 1}), k.Entities[0], k.Entities[0])
			se := t.Body.(*entity.SignedEntity)
			return t, []innerSlot{{Name: "descriptor", Sig: &se.Signature.Signature, Msg: se.Blob, Key: k.Entities[0]}}, ""
		}},
		{Name: "registry.RegisterNode", Opts: chain.GenesisOptions{EpochInterval: 3, NodeExpiration: 12}, Build: func(b *bundle) (txT, []innerSlot, string) {
			k := b.w.keys
			t := nodeTx("node0-renew(exp13)", k.NodeDescriptor(0, 0, 13, node.RoleValidator), k.NodeSigners(0), k.Nodes[0].NodeSigner)
			sn := t.Body.(*node.MultiSignedNode)
			var slots []innerSlot
			for i, nm := range []string{"node", "p2p", "consensus", "vrf", "tls"} {
				slots = append(slots, innerSlot{Name: nm, Sig: &sn.Signatures[i].Signature, Msg: sn.Blob, Key: k.NodeSigners(0)[i]})
			}
			return t, slots, ""
		}},
		{Name: "roothash.ExecutorCommit", Opts: rtOpts, Warm: true, Build: func(b *bundle) (txT, []innerSlot, string) {
			ts := b.roundTxs(&roundSpec{Who: "scheduler"})
			if len(ts) != 1 {
				return txT{}, nil, "harness: no executor committee after the warm-up"
			}
			body := ts[0].Body.(roothash.ExecutorCommit)
			c := &body.Commits[0]
			s := b.w.nodeSignerByKey(c.NodeID)
			return ts[0], []innerSlot{{Name: "commitment", Sig: &c.Signature, Msg: cbor.Marshal(c.Header), Key: s}}, ""
		}},
		{Name: "roothash.Evidence/executor", Opts: rtOpts, Warm: true, Build: func(b *bundle) (txT, []innerSlot, string) {
			k := b.w.keys
			e := &roothash.Evidence{ID: chain.RuntimeID(), EquivocationExecutor: &roothash.EquivocationExecutorEvidence{
				CommitA: mkCommit(k, 1, "a", false), CommitB: mkCommit(k, 1, "b", false),
			}}
			t := txT{Name: "roothash-evidence(a0,executor equivocation of n0)", Signer: k.Accounts[0], Method: roothash.MethodEvidence, Body: e}
			x := e.EquivocationExecutor
			n0 := k.Nodes[0].NodeSigner
			return t, []innerSlot{
				{Name: "commit_a", Sig: &x.CommitA.Signature, Msg: cbor.Marshal(x.CommitA.Header), Key: n0},
				{Name: "commit_b", Sig: &x.CommitB.Signature, Msg: cbor.Marshal(x.CommitB.Header), Key: n0},
			}, ""
		}},
		{Name: "roothash.Evidence/executor-failure", Opts: rtOpts, Warm: true, Build: func(b *bundle) (txT, []innerSlot, string) {
			k := b.w.keys
			e := &roothash.Evidence{ID: chain.RuntimeID(), EquivocationExecutor: &roothash.EquivocationExecutorEvidence{
				CommitA: mkCommit(k, 1, "a", true), CommitB: mkCommit(k, 1, "b", false),
			}}
			t := txT{Name: "roothash-evidence(a0,failure+result of n0)", Signer: k.Accounts[0], Method: roothash.MethodEvidence, Body: e}
			x := e.EquivocationExecutor
			n0 := k.Nodes[0].NodeSigner
			return t, []innerSlot{
				{Name: "commit_a", Sig: &x.CommitA.Signature, Msg: cbor.Marshal(x.CommitA.Header), Key: n0},
				{Name: "commit_b", Sig: &x.CommitB.Signature, Msg: cbor.Marshal(x.CommitB.Header), Key: n0},
			}, ""
		}},
		{Name: "roothash.Evidence/proposal", Opts: rtOpts, Warm: true, Build: func(b *bundle) (txT, []innerSlot, string) {
			k := b.w.keys
			n0 := k.Nodes[0].NodeSigner
			mk := func(tag string) commitment.Proposal {
				p := commitment.Proposal{NodeID: n0.Public(), Header: commitment.ProposalHeader{Round: 1, PreviousHash: hash.NewFromBytes([]byte("verif previous")), BatchHash: hash.NewFromBytes([]byte("batch " + tag))}}
				if err := p.Sign(n0, chain.RuntimeID()); err != nil {
					panic(err)
				}
				return p
			}
			e := &roothash.Evidence{ID: chain.RuntimeID(), EquivocationProposal: &roothash.EquivocationProposalEvidence{ProposalA: mk("a"), ProposalB: mk("b")}}
			t := txT{Name: "roothash-evidence(a0,proposal equivocation of n0)", Signer: k.Accounts[0], Method: roothash.MethodEvidence, Body: e}
			x := e.EquivocationProposal
			return t, []innerSlot{
				{Name: "prop_a", Sig: &x.ProposalA.Signature, Msg: cbor.Marshal(x.ProposalA.Header), Key: n0},
				{Name: "prop_b", Sig: &x.ProposalB.Signature, Msg: cbor.Marshal(x.ProposalB.Header), Key: n0},
			}, ""
		}},
		{Name: "keymanager.PublishMasterSecret", Opts: kmOpts, KM: true, Build: func(b *bundle) (txT, []innerSlot, string) {
			ts := b.kmTxs(&kmSpec{Kind: "master", Who: []int{0}})
			if len(ts) != 1 {
				return txT{}, nil, "harness: no master secret transaction"
			}
			body := ts[0].Body.(secrets.SignedEncryptedMasterSecret)
			ts[0].Body = &body
			return ts[0], []innerSlot{{Name: "secret", Sig: &body.Signature, Msg: cbor.Marshal(body.Secret), Key: keymanager.TestSigners[0]}}, ""
		}},
		{Name: "keymanager.PublishEphemeralSecret", Opts: kmOpts, KM: true, Build: func(b *bundle) (txT, []innerSlot, string) {
			ts := b.kmTxs(&kmSpec{Kind: "ephemeral", Who: []int{1}})
			if len(ts) != 1 {
				return txT{}, nil, "harness: no ephemeral secret transaction"
			}
			body := ts[0].Body.(secrets.SignedEncryptedEphemeralSecret)
			ts[0].Body = &body
			return ts[0], []innerSlot{{Name: "secret", Sig: &body.Signature, Msg: cbor.Marshal(body.Secret), Key: keymanager.TestSigners[0]}}, ""
		}},
		{Name: "keymanager.UpdatePolicy", Opts: kmOpts, KM: true, Build: func(b *bundle) (txT, []innerSlot, string) {
			ts := b.kmTxs(&kmSpec{Kind: "policy"})
			if len(ts) != 1 {
				return txT{}, nil, "harness: no policy transaction"
			}
			body := ts[0].Body.(secrets.SignedPolicySGX)
			ts[0].Body = &body
			var slots []innerSlot
			for i := range body.Signatures {
				slots = append(slots, innerSlot{Name: fmt.Sprintf("policy_sig_%d", i), Sig: &body.Signatures[i].Signature, Msg: cbor.Marshal(body.Policy), Key: keymanager.TestSigners[1+i]})
			}
			return ts[0], slots, ""
		}},
		{Name: "churp.Create", Opts: churpOpts, KM: true, Build: func(b *bundle) (txT, []innerSlot, string) {
			ts := b.kmTxs(&kmSpec{Kind: "churp-create"})
			if len(ts) != 1 {
				return txT{}, nil, "harness: no churp create transaction"
			}
			body := ts[0].Body.(churp.CreateRequest)
			ts[0].Body = &body
			var slots []innerSlot
			for i := range body.Policy.Signatures {
				slots = append(slots, innerSlot{Name: fmt.Sprintf("policy_sig_%d", i), Sig: &body.Policy.Signatures[i].Signature, Msg: cbor.Marshal(body.Policy.Policy), Key: keymanager.TestSigners[1+i]})
			}
			return ts[0], slots, ""
		}},
		{Name: "churp.Apply", Opts: churpOpts, KM: true, Pre: []kmSpec{{Kind: "churp-create"}}, Build: func(b *bundle) (txT, []innerSlot, string) {
			ts := b.kmTxs(&kmSpec{Kind: "churp-apply", Who: []int{0}})
			if len(ts) != 1 {
				return txT{}, nil, "harness: no churp apply transaction"
			}
			body := ts[0].Body.(churp.SignedApplicationRequest)
			ts[0].Body = &body
			return ts[0], []innerSlot{{Name: "application", Sig: &body.Signature, Msg: cbor.Marshal(body.Application), Key: keymanager.TestSigners[0]}}, ""
		}},
		{Name: "churp.Confirm", Opts: churpOpts, KM: true, Pre: []kmSpec{{Kind: "churp-create"}, {Kind: "churp-apply", Who: []int{0, 1, 2}}}, Build: func(b *bundle) (txT, []innerSlot, string) {
			ts := b.kmTxs(&kmSpec{Kind: "churp-confirm", Who: []int{0}})
			if len(ts) != 1 {
				return txT{}, nil, "harness: no churp confirm transaction"
			}
			body := ts[0].Body.(churp.SignedConfirmationRequest)
			ts[0].Body = &body
			return ts[0], []innerSlot{{Name: "confirmation", Sig: &body.Signature, Msg: cbor.Marshal(body.Confirmation), Key: keymanager.TestSigners[0]}}, ""
		}},
	}
}

// innerContexts: raw signing contexts (the bytes hashed in front of the message).
func innerContexts(chainCtx string, full bool) []string {
	ctxs := signature.VerifRegisteredContexts()
	var names []string
	for c := range ctxs {
		names = append(names, c)
	}
	sort.Strings(names)
	rid := chain.RuntimeID().String()
	other := strings.Repeat("0", len(rid)-1) + "1"
	otherChain := strings.Repeat("0", len(chainCtx))
	seen := map[string]bool{}
	var out []string
	add := func(s string) {
		if !seen[s] {
			seen[s] = true
			out = append(out, s)
		}
	}
	for _, c := range names {
		add(c)
		add(c + " for chain " + chainCtx)
		add(c + " for runtime " + rid + " for chain " + chainCtx)
		add(c + " for chain " + chainCtx + " for runtime " + rid)
		add(c + " for runtime " + other + " for chain " + chainCtx)
		add(c + " for chain " + chainCtx + " for runtime " + other)
		add(c + " for runtime " + rid + " for chain " + otherChain)
		add(c + " for chain " + otherChain + " for runtime " + rid)
		if full {
			add(c + " for runtime " + rid)
			add(c + " for chain " + otherChain)
			add(c + " for chain " + chainCtx[:len(chainCtx)-1])
			add(c + " for chain " + chainCtx + "0")
			add(c + " for chain ")
			add(c + " for runtime " + rid + " for chain " + chainCtx[:len(chainCtx)-1])
			add(c + " for chain " + chainCtx[:len(chainCtx)-1] + " for runtime " + rid)
		}
	}
	return out
}

type innerResult struct {
	code  uint32
	dump  map[string][]byte
	nonce uint64
}

// innerRun executes the carrier (after forge has modified it) alone in a block of a fresh world.
func innerRun(w *world, c *innerCarrier, forge func(t *txT, slots []innerSlot) string, twin bool) (*innerResult, string) {
	b, err := w.newBundle([]rspec{{Name: "P/badger", Path: chain.PathPropose, Backend: "badger"}})
	if err != nil {
		return nil, "harness: " + err.Error()
	}
	defer b.close()
	step := func(l *letter) (*blockOutcome, string) {
		out, err := b.exec(l)
		if err != nil {
			return nil, "harness: " + err.Error()
		}
		if out.results[0].Panic != "" {
			return nil, "block execution failed: " + out.results[0].Panic
		}
		return out, ""
	}
	if c.Warm {
		for i := int64(0); i < 2*w.opts.EpochInterval; i++ {
			if _, what := step(&letter{Name: "empty"}); what != "" {
				return nil, "harness: warm-up: " + what
			}
		}
	}
	if c.KM {
		for i := 0; i < 8 && !kmRead(b.ref()).status.IsInitialized; i++ {
			if _, what := step(&letter{Name: "empty"}); what != "" {
				return nil, "harness: warm-up: " + what
			}
		}
		for i := range c.Pre {
			out, what := step(&letter{Name: c.Pre[i].String(), KM: &c.Pre[i]})
			if what != "" {
				return nil, "harness: prefix: " + what
			}
			for _, tr := range out.results[0].TxResults {
				if tr.Code != 0 {
					return nil, fmt.Sprintf("harness: prefix transaction of %s failed with code %d", c.Pre[i].String(), tr.Code)
				}
			}
		}
	}
	t, slots, what := c.Build(b)
	if what != "" {
		return nil, what
	}
	if forge != nil {
		if what := forge(&t, slots); what != "" {
			return nil, what
		}
	}
	if twin {
		t = txT{Name: "atomic-failing-twin", Signer: t.Signer, Method: staking.MethodTransfer, Body: cbor.RawMessage([]byte{0x61, 0x78}), FeeAmt: t.FeeAmt, NoFee: t.NoFee}
	}
	out, what := step(&letter{Name: t.Name, Txs: []txT{t}})
	if what != "" {
		return nil, what
	}
	d, err := b.ref().Dump()
	if err != nil {
		return nil, "harness: " + err.Error()
	}
	return &innerResult{code: out.results[0].TxResults[0].Code, dump: d, nonce: b.ref().Nonce(chain.Addr(t.Signer))}, ""
}

type innerForgery struct {
	Carrier int
	Slot    int
	Name    string
	Ctx     string // raw context to sign under ("" = see Kind)
	Kind    string // "context" | "bitflip:<n>" | "other-key" | "zero"
}

func c09Inner(r *ev.Run, replay *c09Artefact) string {
	base, err := newWorld(chain.GenesisOptions{})
	if err != nil {
		r.HarnessError("world: %v", err)
		return ""
	}
	chain.Init(base.doc)
	chainCtx := base.doc.ChainContext() // the process-wide chain context (set once, from the default genesis)
	carriers := base.innerCarriers()
	worlds := make([]*world, len(carriers))
	genuineCtx := map[string]string{}
	twins := make([]*innerResult, len(carriers))
	var forgeries []innerForgery
	for ci := range carriers {
		c := &carriers[ci]
		w, err := newWorld(c.Opts)
		if err != nil {
			r.HarnessError("world %s: %v", c.Name, err)
			return ""
		}
		worlds[ci] = w
		// control: the genuine carrier takes effect
		var nslots int
		var slotNames []string
		g, what := innerRun(w, c, func(t *txT, slots []innerSlot) string {
			nslots = len(slots)
			for si, s := range slots {
				slotNames = append(slotNames, s.Name)
				us, ok := s.Key.(signature.UnsafeSigner)
				if !ok {
					return fmt.Sprintf("harness: slot %s has no extractable key", s.Name)
				}
				priv := ed25519.PrivateKey(us.UnsafeBytes())
				found := ""
				for _, cx := range innerContexts(chainCtx, true) {
					if string(rawSign(priv, cx, s.Msg)) == string(s.Sig[:]) {
						found = cx
						break
					}
				}
				if found == "" {
					return fmt.Sprintf("harness: the genuine signature of slot %s is not reproduced under any enumerated raw context", s.Name)
				}
				genuineCtx[fmt.Sprintf("%d/%d", ci, si)] = found
			}
			return ""
		}, false)
		if what != "" {
			r.HarnessError("carrier %s: %s", c.Name, what)
			return ""
		}
		if g.code != 0 {
			r.HarnessError("carrier %s: the genuine transaction failed with code %d", c.Name, g.code)
			return ""
		}
		z, what := innerRun(w, c, nil, true)
		if what != "" || z.code == 0 {
			r.HarnessError("carrier %s: twin: %s code=%d", c.Name, what, z.code)
			return ""
		}
		if dumpDiff(g.dump, z.dump) == "" {
			r.HarnessError("carrier %s: the genuine transaction has no effect beyond fee and nonce (vacuous)", c.Name)
			return ""
		}
		twins[ci] = z
		r.Add("inner_carriers", 1)
		r.Add("inner_slots", int64(nslots))
		for si := 0; si < nslots; si++ {
			gen := genuineCtx[fmt.Sprintf("%d/%d", ci, si)]
			for _, cx := range innerContexts(chainCtx, r.Thorough() || si == nslots-1) {
				if cx != gen {
					forgeries = append(forgeries, innerForgery{Carrier: ci, Slot: si, Kind: "context", Ctx: cx, Name: fmt.Sprintf("%s slot %s signed under %q", c.Name, slotNames[si], cx)})
				}
			}
			for _, bit := range []int{0, 255, 511} {
				forgeries = append(forgeries, innerForgery{Carrier: ci, Slot: si, Kind: fmt.Sprintf("bitflip:%d", bit), Name: fmt.Sprintf("%s slot %s signature bit %d flipped", c.Name, slotNames[si], bit)})
			}
			forgeries = append(forgeries, innerForgery{Carrier: ci, Slot: si, Kind: "other-key", Name: fmt.Sprintf("%s slot %s signed by another key under the genuine context", c.Name, slotNames[si])})
			forgeries = append(forgeries, innerForgery{Carrier: ci, Slot: si, Kind: "zero", Name: fmt.Sprintf("%s slot %s all-zero signature", c.Name, slotNames[si])})
			// control: re-signing under the genuine raw context must be accepted
			forgeries = append(forgeries, innerForgery{Carrier: ci, Slot: si, Kind: "control", Ctx: gen, Name: fmt.Sprintf("%s slot %s control", c.Name, slotNames[si])})
		}
	}
	one := func(f innerForgery) string {
		c := &carriers[f.Carrier]
		w := worlds[f.Carrier]
		x, what := innerRun(w, c, func(t *txT, slots []innerSlot) string {
			s := slots[f.Slot]
			switch {
			case f.Kind == "context" || f.Kind == "control":
				priv := ed25519.PrivateKey(s.Key.(signature.UnsafeSigner).UnsafeBytes())
				copy(s.Sig[:], rawSign(priv, f.Ctx, s.Msg))
			case strings.HasPrefix(f.Kind, "bitflip:"):
				var bit int
				fmt.Sscanf(f.Kind, "bitflip:%d", &bit)
				s.Sig[bit/8] ^= 1 << uint(bit%8)
			case f.Kind == "other-key":
				priv := ed25519.PrivateKey(w.keys.Accounts[1].(signature.UnsafeSigner).UnsafeBytes())
				copy(s.Sig[:], rawSign(priv, genuineCtx[fmt.Sprintf("%d/%d", f.Carrier, f.Slot)], s.Msg))
			case f.Kind == "zero":
				*s.Sig = signature.RawSignature{}
			}
			return ""
		}, false)
		if what != "" {
			return what
		}
		if f.Kind == "control" {
			if x.code != 0 {
				return "harness: the control (genuine raw context) was rejected"
			}
			return ""
		}
		if x.code == 0 {
			return "the transaction executed successfully"
		}
		if d := dumpDiff(x.dump, twins[f.Carrier].dump); d != "" {
			return "the transaction was rejected but left more than fee and nonce behind:" + d
		}
		return ""
	}
	if replay != nil {
		for _, f := range forgeries {
			if f.Name == replay.Forgery {
				if what := one(f); what != "" {
					return f.Name + ": " + what
				}
			}
		}
		return ""
	}
	ev.ParallelRange(len(forgeries), r.Seed, func(i int) {
		if r.Expired() {
			r.Cap("deadline")
			return
		}
		f := forgeries[i]
		what := one(f)
		r.Add("transitions", 1)
		r.Add("inner_signature_forgeries", 1)
		if what != "" {
			if strings.HasPrefix(what, "harness:") {
				r.HarnessError("%s %s", what, f.Name)
				return
			}
			r.Violate(ev.Violation{Engine: "chainmc", Key: "c09 inner " + f.Name, What: f.Name + ": " + what, Artefact: c09Artefact{Mode: "inner", Forgery: f.Name}})
		}
	})
	return ""
}
