package main

import (
	"bytes"
	"fmt"
	"math/big"
	"sort"
	"sync/atomic"

	stakingState "github.com/oasisprotocol/oasis-core/go/consensus/cometbft/apps/staking/state"
	tmstaking "github.com/oasisprotocol/oasis-core/go/consensus/cometbft/staking"
	staking "github.com/oasisprotocol/oasis-core/go/staking/api"

	"verif/harness/internal/chain"
)

// C15 (chain part): a reclaimed delegation is paid out exactly once, at the first epoch
// transition at or after its debonding end epoch and not before, at the debonding pool's
// price.  Oracle: a reference model of debonding completion applied to the committed state
// before every block that carries no transactions and no evidence; the committed state after
// the block must agree on every general balance, every debonding pool, the set of pending
// debonding delegations and the payout events.

type debEntry struct {
	Delegator, Escrow staking.Address
	End               uint64
	Shares            *big.Int
}

type stakeView struct {
	Epoch    uint64
	General  map[staking.Address]*big.Int
	DebBal   map[staking.Address]*big.Int
	DebSh    map[staking.Address]*big.Int
	ActBal   map[staking.Address]*big.Int
	ActSh    map[staking.Address]*big.Int
	Pending  []debEntry // sorted in queue order (end epoch, delegator, escrow)
	GovDep   *big.Int
	LastFees *big.Int
}

func readStakeView(n *chain.Node) (*stakeView, string) {
	t := n.Tree()
	defer t.Close()
	st := stakingState.NewImmutableState(t)
	v := &stakeView{Epoch: epochOf(n), General: map[staking.Address]*big.Int{}, DebBal: map[staking.Address]*big.Int{}, DebSh: map[staking.Address]*big.Int{}, ActBal: map[staking.Address]*big.Int{}, ActSh: map[staking.Address]*big.Int{}}
	addrs, err := st.Addresses(chain.Ctx)
	if err != nil {
		return nil, "cannot list accounts: " + err.Error()
	}
	for _, a := range addrs {
		acct, err := st.Account(chain.Ctx, a)
		if err != nil {
			return nil, "cannot read account: " + err.Error()
		}
		v.General[a] = bi(&acct.General.Balance)
		v.DebBal[a] = bi(&acct.Escrow.Debonding.Balance)
		v.DebSh[a] = bi(&acct.Escrow.Debonding.TotalShares)
		v.ActBal[a] = bi(&acct.Escrow.Active.Balance)
		v.ActSh[a] = bi(&acct.Escrow.Active.TotalShares)
	}
	debs, err := st.DebondingDelegations(chain.Ctx)
	if err != nil {
		return nil, "cannot read debonding delegations: " + err.Error()
	}
	for esc, byDel := range debs {
		for del, lst := range byDel {
			for _, d := range lst {
				v.Pending = append(v.Pending, debEntry{Delegator: del, Escrow: esc, End: uint64(d.DebondEndTime), Shares: bi(&d.Shares)})
			}
		}
	}
	sort.Slice(v.Pending, func(i, j int) bool {
		a, b := v.Pending[i], v.Pending[j]
		if a.End != b.End {
			return a.End < b.End
		}
		if c := bytes.Compare(a.Delegator[:], b.Delegator[:]); c != 0 {
			return c < 0
		}
		return bytes.Compare(a.Escrow[:], b.Escrow[:]) < 0
	})
	gd, _ := st.GovernanceDeposits(chain.Ctx)
	lbf, _ := st.LastBlockFees(chain.Ctx)
	v.GovDep, v.LastFees = bi(gd), bi(lbf)
	return v, ""
}

var c15Evals, c15Payouts, c15NotDue atomic.Int64

func z(m map[staking.Address]*big.Int, a staking.Address) *big.Int {
	if x, ok := m[a]; ok {
		return x
	}
	return new(big.Int)
}

// debondOracle compares the state after a block without transactions and evidence with the
// reference model applied to the state before it.
func debondOracle(prev, next *stakeView, res *chain.Result) string {
	// reference model
	gen := map[staking.Address]*big.Int{}
	debBal := map[staking.Address]*big.Int{}
	debSh := map[staking.Address]*big.Int{}
	for a, x := range prev.General {
		gen[a] = new(big.Int).Set(x)
	}
	for a, x := range prev.DebBal {
		debBal[a] = new(big.Int).Set(x)
		debSh[a] = new(big.Int).Set(prev.DebSh[a])
	}
	var remaining []debEntry
	type pay struct {
		e   debEntry
		amt *big.Int
	}
	var pays []pay
	for _, e := range prev.Pending {
		if next.Epoch == prev.Epoch || e.End > next.Epoch {
			remaining = append(remaining, e)
			continue
		}
		bal, sh := z(debBal, e.Escrow), z(debSh, e.Escrow)
		if sh.Sign() == 0 || e.Shares.Cmp(sh) > 0 {
			return fmt.Sprintf("before the block: debonding delegation %s<-%s of %s shares exceeds the pool's %s shares", e.Delegator, e.Escrow, e.Shares, sh)
		}
		amt := new(big.Int).Mul(e.Shares, bal)
		amt.Quo(amt, sh)
		bal.Sub(bal, amt)
		sh.Sub(sh, e.Shares)
		debBal[e.Escrow], debSh[e.Escrow] = bal, sh
		if _, ok := gen[e.Delegator]; !ok {
			gen[e.Delegator] = new(big.Int)
		}
		gen[e.Delegator].Add(gen[e.Delegator], amt)
		pays = append(pays, pay{e, amt})
	}
	c15Evals.Add(1)
	c15Payouts.Add(int64(len(pays)))
	c15NotDue.Add(int64(len(remaining)))
	// pending set
	key := func(e debEntry) string { return fmt.Sprintf("%s<-%s end=%d shares=%s", e.Delegator, e.Escrow, e.End, e.Shares) }
	want, got := map[string]bool{}, map[string]bool{}
	for _, e := range remaining {
		want[key(e)] = true
	}
	for _, e := range next.Pending {
		got[key(e)] = true
	}
	for k := range want {
		if !got[k] {
			return fmt.Sprintf("debonding delegation %s (not due at epoch %d) is gone or changed after a block without transactions", k, next.Epoch)
		}
	}
	for k := range got {
		if !want[k] {
			return fmt.Sprintf("debonding delegation %s is still pending after the transition to epoch %d (or appeared without a transaction)", k, next.Epoch)
		}
	}
	// debonding pools
	for a := range next.DebBal {
		if z(debBal, a).Cmp(next.DebBal[a]) != 0 || z(debSh, a).Cmp(next.DebSh[a]) != 0 {
			return fmt.Sprintf("escrow account %s: debonding pool is %s units / %s shares after the block, the reference (pool before the block minus the due delegations at the pool's price) has %s / %s", a, next.DebBal[a], next.DebSh[a], z(debBal, a), z(debSh, a))
		}
	}
	// general balances: only debonding payouts move them in such a block, unless fees were
	// pending or governance deposits moved
	if prev.LastFees.Sign() == 0 && next.LastFees.Sign() == 0 && prev.GovDep.Cmp(next.GovDep) == 0 {
		for a := range next.General {
			if z(gen, a).Cmp(next.General[a]) != 0 {
				return fmt.Sprintf("account %s: general balance %s after the block, the reference (balance before plus the payouts of its due debonding delegations) has %s (before: %s)", a, next.General[a], z(gen, a), z(prev.General, a))
			}
		}
	}
	// payout events: one per due delegation, with the reference amount
	evs, err := tmstaking.EventsFromCometBFT(nil, 0, res.BlockEvents)
	if err == nil {
		var gotEv []string
		for _, e := range evs {
			if e.Escrow != nil && e.Escrow.Reclaim != nil {
				gotEv = append(gotEv, fmt.Sprintf("%s<-%s %s units %s shares", e.Escrow.Reclaim.Owner, e.Escrow.Reclaim.Escrow, &e.Escrow.Reclaim.Amount, &e.Escrow.Reclaim.Shares))
			}
		}
		var wantEv []string
		for _, p := range pays {
			wantEv = append(wantEv, fmt.Sprintf("%s<-%s %s units %s shares", p.e.Delegator, p.e.Escrow, p.amt, p.e.Shares))
		}
		sort.Strings(gotEv)
		sort.Strings(wantEv)
		if fmt.Sprint(gotEv) != fmt.Sprint(wantEv) {
			return fmt.Sprintf("reclaim events of the block %v differ from the reference payouts %v", gotEv, wantEv)
		}
	}
	return ""
}
