package main

// C16, multiplexer part: consensus transaction bytes at mempool check and at
// delivery.  (The decoders behind all other untrusted boundaries are decided
// by decmc; this phase puts transaction bytes through the REAL abciMux with
// all applications: CheckTx, PrepareProposal, ProcessProposal, DeliverTx.)
//
// For every genesis variant (minimum gas price 0 / 1, per-byte gas 0 / 1),
// every transaction of the menus (all staking, governance, registry, beacon,
// roothash, vault methods) and every field-level mutant of its envelope (fee
// omitted, zero / huge gas, zero / huge amounts, nonce off by one / maximal,
// empty / unknown / foreign method, missing / empty / null / wrong-type /
// truncated / extended body, truncated envelope, untagged blob) and - for a
// subset of seeds - every single-bit flip of the signed transaction body,
// correctly re-signed:
//
//   * CheckTx of the bytes must not panic;
//   * a block [mutant, control transfer] proposed by an honest proposer must be
//     prepared, accepted and executed by all replicas without a panic and with
//     identical results;
//   * the control transfer after the mutant must succeed (subsequent processing
//     is not corrupted).

import (
	"encoding/hex"
	"encoding/json"
	"fmt"
	"math"
	"os"
	"strings"
	"sync"

	"github.com/oasisprotocol/oasis-core/go/common/cbor"
	"github.com/oasisprotocol/oasis-core/go/common/crypto/signature"
	"github.com/oasisprotocol/oasis-core/go/common/quantity"
	"github.com/oasisprotocol/oasis-core/go/consensus/api/transaction"
	staking "github.com/oasisprotocol/oasis-core/go/staking/api"

	"verif/harness/internal/chain"
	"verif/harness/internal/ev"
)

type c16Mutant struct {
	Name  string
	Build func(nonce uint64) []byte
}

type c16Artefact struct {
	Genesis chain.GenesisOptions `json:"genesis"`
	Seed    string               `json:"seed"`
	Mutant  string               `json:"mutant"`
	// Blocks: hex transaction lists of all blocks of this chain up to and including the failing one.
	Blocks [][]string `json:"blocks"`
}

func signRaw(s signature.Signer, blob []byte) []byte {
	sig, err := signature.Sign(s, transaction.SignatureContext, blob)
	if err != nil {
		panic(err)
	}
	return cbor.Marshal(transaction.SignedTransaction{Signed: signature.Signed{Blob: blob, Signature: *sig}})
}

func c16Fee(o chain.GenesisOptions, amt uint64) *transaction.Fee {
	// enough for the minimum gas price in every variant (operations cost at most 5 gas, a
	// transaction has < 1500 bytes)
	gas := uint64(10)
	if o.TxByteGas > 0 {
		gas = 2000
	}
	if amt < gas*o.MinGasPrice {
		amt = gas * o.MinGasPrice
	}
	return chain.Fee(amt, gas)
}

// c16Mutants: the field-level neighbourhood of one transaction template.
func c16Mutants(o chain.GenesisOptions, t txT, other txT, bitflips bool) []c16Mutant {
	body := cbor.Marshal(t.Body)
	base := func(nonce uint64) *transaction.Transaction {
		return &transaction.Transaction{Nonce: nonce, Fee: c16Fee(o, t.FeeAmt), Method: t.Method, Body: body}
	}
	var ms []c16Mutant
	add := func(name string, f func(tx *transaction.Transaction)) {
		ms = append(ms, c16Mutant{Name: name, Build: func(nonce uint64) []byte {
			tx := base(nonce)
			f(tx)
			return signRaw(t.Signer, cbor.Marshal(tx))
		}})
	}
	big255 := qBig(255)
	add("unchanged", func(tx *transaction.Transaction) {})
	add("fee omitted", func(tx *transaction.Transaction) { tx.Fee = nil })
	add("fee amount 0", func(tx *transaction.Transaction) { tx.Fee.Amount = quantity.Quantity{} })
	add("fee gas 0", func(tx *transaction.Transaction) { tx.Fee.Gas = 0 })
	add("fee amount 0 gas 0", func(tx *transaction.Transaction) { tx.Fee = &transaction.Fee{} })
	add("fee gas 2^64-1", func(tx *transaction.Transaction) { tx.Fee.Gas = math.MaxUint64 })
	add("fee amount 2^255 gas 1", func(tx *transaction.Transaction) { tx.Fee = &transaction.Fee{Amount: big255, Gas: 1} })
	add("fee amount 2^64-1 gas 2^64-1", func(tx *transaction.Transaction) {
		tx.Fee = &transaction.Fee{Amount: qq(math.MaxUint64), Gas: math.MaxUint64}
	})
	add("fee one below the minimum price", func(tx *transaction.Transaction) {
		g := uint64(tx.Fee.Gas)
		if g*o.MinGasPrice > 0 {
			tx.Fee.Amount = qq(g*o.MinGasPrice - 1)
		} else {
			tx.Fee.Amount = qq(1)
		}
	})
	add("fee gas 1 (too little)", func(tx *transaction.Transaction) { tx.Fee.Gas = 1 })
	add("nonce+1", func(tx *transaction.Transaction) { tx.Nonce++ })
	add("nonce-1", func(tx *transaction.Transaction) { tx.Nonce-- })
	add("nonce 2^64-1", func(tx *transaction.Transaction) { tx.Nonce = math.MaxUint64 })
	add("method empty", func(tx *transaction.Transaction) { tx.Method = "" })
	add("method unknown", func(tx *transaction.Transaction) { tx.Method = "staking.Nope" })
	add("method without module", func(tx *transaction.Transaction) { tx.Method = "x" })
	add("method of another transaction ("+string(other.Method)+")", func(tx *transaction.Transaction) { tx.Method = other.Method })
	add("body of another transaction ("+string(other.Method)+")", func(tx *transaction.Transaction) { tx.Body = cbor.Marshal(other.Body) })
	add("body omitted", func(tx *transaction.Transaction) { tx.Body = nil })
	add("body null", func(tx *transaction.Transaction) { tx.Body = []byte{0xf6} })
	add("body empty map", func(tx *transaction.Transaction) { tx.Body = []byte{0xa0} })
	add("body empty array", func(tx *transaction.Transaction) { tx.Body = []byte{0x80} })
	add("body integer", func(tx *transaction.Transaction) { tx.Body = []byte{0x18, 0x2a} })
	add("body empty byte string", func(tx *transaction.Transaction) { tx.Body = []byte{0x40} })
	add("body 2^32-element array header", func(tx *transaction.Transaction) { tx.Body = []byte{0x9a, 0xff, 0xff, 0xff, 0xff} })
	// raw-level mutants of the signed blob
	rawAdd := func(name string, f func(blob []byte) []byte) {
		ms = append(ms, c16Mutant{Name: name, Build: func(nonce uint64) []byte {
			return signRaw(t.Signer, f(cbor.Marshal(base(nonce))))
		}})
	}
	rawAdd("blob truncated by 1", func(b []byte) []byte { return b[:len(b)-1] })
	rawAdd("blob with a trailing byte", func(b []byte) []byte { return append(b, 0x00) })
	rawAdd("blob empty", func(b []byte) []byte { return []byte{} })
	rawAdd("blob is a cbor array", func(b []byte) []byte { return []byte{0x82, 0x01, 0x02} })
	rawAdd("blob nested 64 arrays deep", func(b []byte) []byte {
		out := make([]byte, 0, 65)
		for i := 0; i < 64; i++ {
			out = append(out, 0x81)
		}
		return append(out, 0x00)
	})
	rawAdd("blob with a duplicate nonce key", func(b []byte) []byte {
		// map header +1, append "nonce": 0
		if len(b) == 0 || b[0]&0xe0 != 0xa0 || b[0]&0x1f >= 23 {
			return b
		}
		out := append([]byte{b[0] + 1}, b[1:]...)
		return append(out, 0x65, 'n', 'o', 'n', 'c', 'e', 0x00)
	})
	// envelope-level mutants (signature no longer matches or structure broken)
	envAdd := func(name string, f func(env []byte) []byte) {
		ms = append(ms, c16Mutant{Name: name, Build: func(nonce uint64) []byte {
			return f(signRaw(t.Signer, cbor.Marshal(base(nonce))))
		}})
	}
	envAdd("envelope truncated by 1", func(e []byte) []byte { return e[:len(e)-1] })
	envAdd("envelope truncated to half", func(e []byte) []byte { return e[:len(e)/2] })
	envAdd("envelope with a trailing byte", func(e []byte) []byte { return append(e, 0x00) })
	envAdd("envelope empty", func(e []byte) []byte { return []byte{} })
	envAdd("envelope last byte flipped", func(e []byte) []byte { e[len(e)-1] ^= 1; return e })
	if bitflips {
		n := len(cbor.Marshal(base(1)))
		for pos := 0; pos < n; pos++ {
			for bit := 0; bit < 8; bit++ {
				pos, bit := pos, bit
				rawAdd(fmt.Sprintf("blob bit flip pos=%d bit=%d", pos, bit), func(b []byte) []byte {
					if pos < len(b) {
						b[pos] ^= 1 << bit
					}
					return b
				})
			}
		}
	}
	return ms
}

func runC16(r *ev.Run) {
	variants := []chain.GenesisOptions{
		{NoRewards: true, NodeExpiration: 200},
		{NoRewards: true, NodeExpiration: 200, MinGasPrice: 1},
		{NoRewards: true, NodeExpiration: 200, TxByteGas: 1},
	}
	specs := []rspec{
		{Name: "P/badger+foreign", Path: chain.PathPropose, Backend: "badger", Foreign: true},
		{Name: "V/pathbadger", Path: chain.PathProcess, Backend: "pathbadger"},
		{Name: "R/badger", Path: chain.PathReplay, Backend: "badger"},
	}
	const chunk = 32
	type job struct {
		vi, si int
		lo, hi int
	}
	type prepared struct {
		w    *world
		menu []txT
		muts [][]c16Mutant
	}
	var preps []*prepared
	var jobs []job
	for vi, o := range variants {
		w, err := newWorld(o)
		if err != nil {
			r.HarnessError("world %d: %v", vi, err)
			r.Finish()
		}
		menu := append(append(w.stakingTxs(), w.registryTxs()...), w.miscTxs()...)
		p := &prepared{w: w, menu: menu}
		for si, t := range menu {
			flips := r.Thorough() || vi == 1 && si%10 == 0
			ms := c16Mutants(o, t, menu[(si+7)%len(menu)], flips)
			p.muts = append(p.muts, ms)
			for lo := 0; lo < len(ms); lo += chunk {
				hi := lo + chunk
				if hi > len(ms) {
					hi = len(ms)
				}
				jobs = append(jobs, job{vi, si, lo, hi})
			}
		}
		preps = append(preps, p)
	}
	chain.Init(preps[0].w.doc)

	runJob := func(j job, replayBlocks [][]string) (v *ev.Violation, nMut int, outcomes map[string]bool) {
		p := preps[j.vi]
		w, t := p.w, p.menu[j.si]
		outcomes = map[string]bool{}
		b, err := w.newBundle(specs)
		if err != nil {
			return &ev.Violation{Engine: "chainmc", Key: "c16 harness", What: "harness: " + err.Error()}, 0, outcomes
		}
		defer b.close()
		k := w.keys
		var blocks [][]string
		fail := func(m string, what string) *ev.Violation {
			return &ev.Violation{Engine: "chainmc", Key: fmt.Sprintf("c16 mux %s | %s", t.Method, m),
				What:     fmt.Sprintf("genesis {min gas price %d, gas per tx byte %d}, transaction %q, mutant %q: %s", w.opts.MinGasPrice, w.opts.TxByteGas, t.Name, m, what),
				Artefact: c16Artefact{Genesis: w.opts, Seed: t.Name, Mutant: m, Blocks: blocks}}
		}
		if _, err := b.exec(&letter{Name: "empty-block"}); err != nil {
			return fail("-", "harness: "+err.Error()), 0, outcomes
		}
		seedAddr := chain.Addr(t.Signer)
		for mi := j.lo; mi < j.hi; mi++ {
			m := p.muts[j.si][mi]
			raw := m.Build(b.ref().Nonce(seedAddr))
			from, to := k.Accounts[0], k.Accounts[1]
			if seedAddr == chain.Addr(from) || mi%2 == 1 && seedAddr != chain.Addr(to) {
				from, to = to, from
			}
			ctl := txT{Name: "control", Signer: from, Method: staking.MethodTransfer, Body: staking.Transfer{To: chain.Addr(to), Amount: qq(5)}}
			ctlRaw := chain.SignTx(from, b.ref().Nonce(chain.Addr(from)), c16Fee(w.opts, 0), ctl.Method, ctl.Body)
			blocks = append(blocks, []string{hex.EncodeToString(raw), hex.EncodeToString(ctlRaw)})
			resp, pan := b.ref().CheckTx(raw)
			if pan != "" {
				return fail(m.Name, "CheckTx panicked: "+pan), mi - j.lo, outcomes
			}
			out, err := b.exec(&letter{Name: m.Name, Txs: []txT{{Raw: raw}, {Raw: ctlRaw}}})
			if err != nil {
				return fail(m.Name, "harness: "+err.Error()), mi - j.lo, outcomes
			}
			for i, res := range out.results {
				if res.Panic != "" {
					return fail(m.Name, fmt.Sprintf("replica %s failed while handling the block: %s", b.reps[i].spec.Name, res.Panic)), mi - j.lo, outcomes
				}
			}
			if wv := b.compareReplicas(out); wv != "" {
				return fail(m.Name, "replicas disagree: "+wv), mi - j.lo, outcomes
			}
			// find the control transaction in the executed list
			full := out.blk.FullTxs()
			found := false
			for i, tx := range full {
				if string(tx) == string(ctlRaw) {
					found = true
					if c := out.results[0].TxResults[i]; c.Code != 0 {
						return fail(m.Name, fmt.Sprintf("the control transfer after the mutant failed: code %d (%s)", c.Code, c.Log)), mi - j.lo, outcomes
					}
				}
			}
			if !found {
				return fail(m.Name, "the honest proposer dropped the valid control transfer that followed the mutant"), mi - j.lo, outcomes
			}
			inBlock := false
			for _, tx := range full {
				inBlock = inBlock || string(tx) == string(raw)
			}
			outcomes[fmt.Sprintf("check=%d/%s inblock=%v", resp.Code, resp.Codespace, inBlock)] = true
		}
		return nil, j.hi - j.lo, outcomes
	}

	if r.Replay != "" {
		v, err := ev.LoadReplay(r.Replay)
		if err != nil {
			fmt.Println("cannot load replay:", err)
			os.Exit(2)
		}
		bb, _ := json.Marshal(v.Artefact)
		var a c16Artefact
		_ = json.Unmarshal(bb, &a)
		// locate the job by genesis, seed and mutant name and re-run its chunk
		for ji, j := range jobs {
			p := preps[j.vi]
			if fmt.Sprint(p.w.opts) != fmt.Sprint(a.Genesis) {
				continue
			}
			if p.menu[j.si].Name != a.Seed {
				continue
			}
			hit := false
			for mi := j.lo; mi < j.hi; mi++ {
				hit = hit || p.muts[j.si][mi].Name == a.Mutant
			}
			if !hit {
				continue
			}
			_ = ji
			if vv, _, _ := runJob(j, nil); vv != nil {
				fmt.Printf("VIOLATION property=C16 replay=%s\n  what: %s\n", r.Replay, vv.What)
				os.Exit(1)
			}
			fmt.Println("replay: property held")
			os.Exit(0)
		}
		fmt.Println("replay: no such genesis/seed/mutant in the current menus")
		os.Exit(2)
	}

	var mu sync.Mutex
	var viols []ev.Violation
	ev.ParallelRange(len(jobs), r.Seed, func(ji int) {
		if r.Expired() {
			r.Cap("deadline")
			return
		}
		v, n, outs := runJob(jobs[ji], nil)
		r.Add("mux_mutants", int64(n))
		r.Add("mux_blocks", int64(n))
		mu.Lock()
		for o := range outs {
			r.Outcome(o)
		}
		if v != nil {
			viols = append(viols, *v)
		}
		mu.Unlock()
	})
	for _, v := range viols {
		if strings.HasPrefix(v.What, "harness:") {
			r.HarnessError("%s", v.What)
			continue
		}
		r.Violate(v)
	}
	r.Set("mux_genesis_variants", len(variants))
	r.Set("mux_seed_transactions", len(preps[0].menu))
	r.Set("mux_chains", len(jobs))
	r.Alias("states", "mux_mutants")
	r.Alias("transitions", "mux_blocks")
	r.Alias("traces_validated_against_impl", "mux_blocks")
	r.Set("mux_rule", "for every genesis variant (min gas price 0/1, gas per tx byte 0/1), every transaction of the staking/governance/registry/beacon/roothash/vault menus and every field-level mutant of its envelope (fee, gas, nonce, method, body, blob, envelope; correctly re-signed where the signature covers the change) and every single-bit flip of the signed blob for a subset of seeds: CheckTx must not panic; the block [mutant, control transfer] prepared by an honest proposer must be executed by proposer, validator and replaying replica (two storage backends) without panic and with identical results; the control transfer must succeed")
	r.Assume("multiplexer part: chains are restarted from genesis every 32 mutants; mutants that the honest proposer drops in PrepareProposal are executed there and in CheckTx but are not delivered (a proposal containing them would be rejected by ProcessProposal, which runs the same execution path)")
	r.Finish()
}
