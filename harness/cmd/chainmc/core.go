package main

import (
	"github.com/oasisprotocol/oasis-core/go/common/cbor"
	"bytes"
	"crypto/sha256"
	"encoding/hex"
	"fmt"
	"os"
	"path/filepath"
	"sort"
	"strings"
	"time"

	"github.com/cometbft/cometbft/abci/types"

	"github.com/oasisprotocol/oasis-core/go/common/crypto/signature"
	"github.com/oasisprotocol/oasis-core/go/consensus/api/transaction"
	genesis "github.com/oasisprotocol/oasis-core/go/genesis/api"
	staking "github.com/oasisprotocol/oasis-core/go/staking/api"

	"verif/harness/internal/chain"
)

// txT is a transaction template; the nonce is filled in from the state when
// the block is built.
type txT struct {
	Name       string
	Signer     signature.Signer
	Method     transaction.MethodName
	Body       any
	FeeAmt     uint64
	Gas        uint64 // 0 = plenty (unless ExactGas)
	ExactGas   bool
	NoFee      bool
	NonceDelta int    // 0 current, +k future, -1 stale
	Raw        []byte // pre-built bytes (replays, forgeries); overrides everything else
	Mutate     func(tx []byte) []byte
	// Dyn builds method and body from the state the block is built on (Signer must be the same as the
	// static one; gas, fee and nonce settings of the static template win).
	Dyn func(b *bundle) txT
}

// letter is one block.
type letter struct {
	Name     string
	Txs      []txT
	Votes    string // all | none | proposer | allbutone | empty | dup | unknown
	Proposer int    // index into the validator set; -1 = unknown address
	Evidence string // "" | dupvote:<i> | unknown | lca:<i> | double:<i>
	Round    *roundSpec // runtime round: ExecutorCommit transactions built from the current runtime state
	VRF      *vrfSpec   // VRF proofs over the current alpha
	KM       *kmSpec    // key manager: node re-registrations with an init response, secrets, policy updates
	Fits     int        // > 0: the proposer's size limit admits exactly the first Fits transactions of the mempool batch
}

type world struct {
	keys *chain.Keys
	doc  *genesis.Document
	opts chain.GenesisOptions
}

func newWorld(o chain.GenesisOptions) (*world, error) {
	k := chain.NewKeys(3, 2, 3)
	doc, err := chain.Genesis(k, o)
	if err != nil {
		return nil, err
	}
	if err := doc.SanityCheck(); err != nil {
		return nil, fmt.Errorf("genesis sanity check: %w", err)
	}
	if o.Upgrader {
		chain.EnableUpgrader(doc)
	}
	return &world{keys: k, doc: doc, opts: o}, nil
}

// replica configuration
type rspec struct {
	Name    string
	Path    chain.Path
	Backend string
	Disk    bool
	Sanity  bool
	Foreign bool // CheckTx / queries between ABCI calls
	Restart bool // closed and reopened before every block (Disk only)
	Ident   int  // node identity (index into Keys.Nodes); a replica can only propose blocks of its own validator
}

type replica struct {
	spec rspec
	n    *chain.Node
	dir  string
}

type bundle struct {
	w    *world
	reps []*replica
	tmp  string
	// mapOrder: fix Go's map iteration start offset per replica and block (only
	// meaningful in a single-goroutine process built with the runtime overlay).
	mapOrder bool
	blockNo  int
	// VRF worlds: the nodes that submit proofs in "auto" blocks (set by a vrf-policy letter)
	vrfWho       []int
	vrfPolicySet bool
}

func (w *world) newBundle(specs []rspec) (*bundle, error) {
	b := &bundle{w: w}
	for i, s := range specs {
		r := &replica{spec: s}
		if s.Disk {
			if b.tmp == "" {
				base := ""
				if st, err := os.Stat("/dev/shm"); err == nil && st.IsDir() {
					base = "/dev/shm"
				}
				d, err := os.MkdirTemp(base, "verif-chain-")
				if err != nil {
					return nil, err
				}
				b.tmp = d
			}
			r.dir = filepath.Join(b.tmp, fmt.Sprintf("r%d", i))
			_ = os.MkdirAll(r.dir, 0o755)
		}
		n, err := chain.NewNode(w.doc, w.keys.Nodes[s.Ident], s.Backend, r.dir, s.Sanity)
		if err != nil {
			b.close()
			return nil, fmt.Errorf("replica %s: %w", s.Name, err)
		}
		r.n = n
		if err := n.InitChain(); err != nil {
			b.reps = append(b.reps, r)
			b.close()
			return nil, fmt.Errorf("replica %s: %w", s.Name, err)
		}
		b.reps = append(b.reps, r)
	}
	return b, nil
}

func (b *bundle) close() {
	for _, r := range b.reps {
		if r.n != nil {
			r.n.Close()
		}
	}
	if b.tmp != "" {
		_ = os.RemoveAll(b.tmp)
	}
}

func (b *bundle) ref() *chain.Node { return b.reps[0].n }

// restart closes and reopens an on-disk replica.
func (b *bundle) restart(r *replica) error {
	h, ah, vals := r.n.Height, r.n.AppHash, r.n.Vals
	r.n.Close()
	n, err := chain.NewNode(b.w.doc, b.w.keys.Nodes[r.spec.Ident], r.spec.Backend, r.dir, r.spec.Sanity)
	if err != nil {
		return err
	}
	r.n = n
	if h == 0 {
		// Nothing was committed yet: the consensus engine replays InitChain after a restart.
		return n.InitChain()
	}
	n.Resume(h, ah, append([]chain.Val{}, vals...))
	return nil
}

// buildBlock turns a letter into a concrete block on top of the reference state.
func (b *bundle) buildBlock(l *letter) *chain.Block {
	ref := b.ref()
	vals := ref.Vals
	blk := &chain.Block{Time: chain.GenesisTime.Add(time.Duration(ref.Height+1) * time.Second)}
	// The proposer is validator node l.Proposer (the replica with that identity prepares the block).
	pk := b.w.keys.Nodes[l.Proposer].ConsensusSigner.Public()
	blk.Proposer = chain.Val{PubKey: pk[:]}.Address()
	vote := func(v chain.Val, signed bool) types.VoteInfo {
		return types.VoteInfo{Validator: types.Validator{Address: v.Address(), Power: v.Power}, SignedLastBlock: signed}
	}
	// The consensus engine reports one entry per validator of the previous block's set; at the
	// initial height there is no previous commit.
	if ref.Height >= ref.Doc.Height {
		switch l.Votes {
		case "", "all":
			for _, v := range vals {
				blk.Votes = append(blk.Votes, vote(v, true))
			}
		case "none":
			for _, v := range vals {
				blk.Votes = append(blk.Votes, vote(v, false))
			}
		case "proposer":
			for _, v := range vals {
				blk.Votes = append(blk.Votes, vote(v, bytes.Equal(v.Address(), blk.Proposer)))
			}
		case "allbutone":
			for i, v := range vals {
				blk.Votes = append(blk.Votes, vote(v, i != 0))
			}
		case "onlyone":
			for i, v := range vals {
				blk.Votes = append(blk.Votes, vote(v, i == 0))
			}
		}
	}
	mis := func(t types.MisbehaviorType, addr []byte, power int64) types.Misbehavior {
		return types.Misbehavior{Type: t, Validator: types.Validator{Address: addr, Power: power}, Height: ref.Height, Time: blk.Time.Add(-time.Second), TotalVotingPower: 100}
	}
	if l.Evidence != "" && ref.Height >= 1 { // evidence can only refer to an existing block
		parts := strings.SplitN(l.Evidence, ":", 2)
		idx := 0
		if len(parts) == 2 {
			fmt.Sscan(parts[1], &idx)
		}
		var v chain.Val
		if len(vals) > 0 {
			v = vals[idx%len(vals)]
		}
		switch parts[0] {
		case "dupvote":
			blk.Misbehavior = []types.Misbehavior{mis(types.MisbehaviorType_DUPLICATE_VOTE, v.Address(), v.Power)}
		case "lca":
			blk.Misbehavior = []types.Misbehavior{mis(types.MisbehaviorType_LIGHT_CLIENT_ATTACK, v.Address(), v.Power)}
		case "unknown":
			blk.Misbehavior = []types.Misbehavior{mis(types.MisbehaviorType_DUPLICATE_VOTE, bytes.Repeat([]byte{0xCC}, 20), 5)}
		case "double":
			blk.Misbehavior = []types.Misbehavior{mis(types.MisbehaviorType_DUPLICATE_VOTE, v.Address(), v.Power), mis(types.MisbehaviorType_DUPLICATE_VOTE, v.Address(), v.Power), mis(types.MisbehaviorType(7), v.Address(), v.Power)}
		}
	}
	// transactions: nonces from the reference state, counting earlier txs of the same signer in this block
	used := map[staking.Address]uint64{}
	txs := l.Txs
	if l.Round != nil {
		txs = append(append([]txT{}, txs...), b.roundTxs(l.Round)...)
	}
	if l.VRF != nil {
		txs = append(append([]txT{}, txs...), b.vrfTxs(l.VRF)...)
	}
	if l.KM != nil {
		txs = append(append([]txT{}, txs...), b.kmTxs(l.KM)...)
	}
	for _, t := range txs {
		if t.Raw != nil {
			blk.Txs = append(blk.Txs, t.Raw)
			continue
		}
		if t.Dyn != nil {
			d := t.Dyn(b)
			d.Gas, d.ExactGas, d.NonceDelta, d.Mutate, d.NoFee = t.Gas, t.ExactGas, t.NonceDelta, t.Mutate, t.NoFee
			if t.FeeAmt != 0 {
				d.FeeAmt = t.FeeAmt
			}
			t = d
		}
		addr := chain.Addr(t.Signer)
		nonce := ref.Nonce(addr) + used[addr]
		switch {
		case t.NonceDelta > 0:
			nonce += uint64(t.NonceDelta)
		case t.NonceDelta < 0 && nonce > 0:
			nonce--
		case t.NonceDelta < 0:
			nonce = 1 << 40
		default:
			used[addr]++
		}
		var fee *transaction.Fee
		if !t.NoFee {
			gas := t.Gas
			if gas == 0 && !t.ExactGas {
				gas = 10000
			}
			fee = chain.Fee(t.FeeAmt, gas)
		}
		raw := chain.SignTx(t.Signer, nonce, fee, t.Method, t.Body)
		if t.Mutate != nil {
			raw = t.Mutate(raw)
		}
		blk.Txs = append(blk.Txs, raw)
	}
	if l.Fits > 0 {
		blk.MaxTxBytes = 16384 // consensus.BlockMetadataMaxSize is reserved for the block metadata
		for i := 0; i < l.Fits && i < len(blk.Txs); i++ {
			blk.MaxTxBytes += int64(len(blk.Txs[i]))
		}
	}
	return blk
}

// foreignHook injects mempool checks, gas estimation and a historical query
// between consecutive ABCI calls.
func (b *bundle) foreignHook(blk *chain.Block) chain.Hook {
	return func(n *chain.Node, step int) {
		for _, tx := range blk.Txs {
			_, _ = n.CheckTx(tx)
			// gas estimation (a simulated execution) of the same transaction, as a client would ask for
			func() {
				defer func() { _ = recover() }()
				var sig signature.Signed
				var t transaction.Transaction
				if cbor.Unmarshal(tx, &sig) == nil && cbor.Unmarshal(sig.Blob, &t) == nil {
					_, _ = n.Srv.EstimateGas(sig.Signature.PublicKey, &t)
				}
			}()
		}
		if n.Height > 0 {
			func() {
				defer func() { _ = recover() }()
				t := n.Tree()
				defer t.Close()
				_, _ = t.Get(chain.Ctx, []byte{0x50})
			}()
		}
	}
}

type blockOutcome struct {
	blk     *chain.Block
	results []*chain.Result
}

// exec runs one letter on every replica of the bundle.
func (b *bundle) exec(l *letter) (*blockOutcome, error) {
	blk := b.buildBlock(l)
	out := &blockOutcome{blk: blk}
	// the proposer path must run first to fix the full tx list
	order := make([]int, 0, len(b.reps))
	paths := make([]chain.Path, len(b.reps))
	for i, r := range b.reps {
		paths[i] = r.spec.Path
		if r.spec.Path == chain.PathPropose {
			if r.spec.Ident == l.Proposer && len(order) == 0 {
				order = append(order, i)
			} else {
				paths[i] = chain.PathProcess // not this block's proposer: validate instead
			}
		}
	}
	if len(order) == 0 {
		return nil, fmt.Errorf("bundle has no replica able to propose for validator %d", l.Proposer)
	}
	for i := range b.reps {
		if i != order[0] {
			order = append(order, i)
		}
	}
	out.results = make([]*chain.Result, len(b.reps))
	for _, i := range order {
		r := b.reps[i]
		if r.spec.Restart && r.spec.Disk {
			if err := b.restart(r); err != nil {
				return nil, fmt.Errorf("restart of %s failed: %w", r.spec.Name, err)
			}
		}
		var hook chain.Hook
		if r.spec.Foreign {
			hook = b.foreignHook(blk)
		}
		if blk.FullTxs() == nil && paths[i] != chain.PathPropose {
			// proposer failed to prepare: nothing to execute elsewhere
			out.results[i] = &chain.Result{Path: paths[i], Panic: "no proposal"}
			continue
		}
		if b.mapOrder {
			chain.SetMapIterOffset((i + 3*b.blockNo) % 8)
		}
		out.results[i] = r.n.Exec(blk, paths[i], hook)
		if b.mapOrder {
			chain.SetMapIterOffset(-1)
		}
	}
	b.blockNo++
	if os.Getenv("VERIF_DEBUG") != "" {
		var codes []string
		for _, tr := range out.results[0].TxResults {
			codes = append(codes, fmt.Sprintf("%d(%s)", tr.Code, tr.Log))
		}
		rtInfo := ""
		if rs, q := runtimeState(b.ref()); rs != nil {
			rtInfo = fmt.Sprintf(" rt{round=%d type=%d suspended=%v committee=%v queue=%d}", rs.LastBlock.Header.Round, rs.LastBlock.Header.HeaderType, rs.Suspended, rs.Committee != nil, len(q))
		}
		fmt.Fprintf(os.Stderr, "DEBUG height=%d epoch=%d letter=%q codes=%v panic=%q%s\n", b.ref().Height, epochOf(b.ref()), l.Name, codes, out.results[0].Panic, rtInfo)
	}
	return out, nil
}

func valUpdatesKey(ups []types.ValidatorUpdate) string {
	var ss []string
	for _, u := range ups {
		ss = append(ss, fmt.Sprintf("%x=%d", u.PubKey.GetEd25519(), u.Power))
	}
	sort.Strings(ss)
	return strings.Join(ss, ",")
}

func txResKey(r types.ResponseDeliverTx) string {
	return fmt.Sprintf("code=%d cs=%s data=%x gw=%d gu=%d ev=%s", r.Code, r.Codespace, r.Data, r.GasWanted, r.GasUsed, eventsKey(r.Events))
}

// eventsKey is a digest of an event list in order (type, attribute keys and values).
func eventsKey(evs []types.Event) string {
	h := sha256.New()
	for _, e := range evs {
		h.Write([]byte(e.Type))
		h.Write([]byte{0})
		for _, a := range e.Attributes {
			h.Write([]byte(a.Key))
			h.Write([]byte{1})
			h.Write([]byte(a.Value))
			h.Write([]byte{2})
		}
	}
	return hex.EncodeToString(h.Sum(nil)[:6]) + fmt.Sprintf("/%d", len(evs))
}

// compareReplicas is the C01 oracle for one block.
func (b *bundle) compareReplicas(out *blockOutcome) string {
	ref := out.results[0]
	for i, r := range out.results[1:] {
		name := b.reps[i+1].spec.Name
		if r.Panic != "" || ref.Panic != "" {
			if (r.Panic != "") != (ref.Panic != "") {
				return fmt.Sprintf("replica %s: panic/failure %q while %s: %q", name, r.Panic, b.reps[0].spec.Name, ref.Panic)
			}
			continue
		}
		if !r.Accepted {
			return fmt.Sprintf("replica %s rejected the honest proposal", name)
		}
		if !bytes.Equal(r.AppHash, ref.AppHash) {
			return fmt.Sprintf("replica %s (%s, %s) computed state root %s, %s computed %s", name, b.reps[i+1].spec.Path, b.reps[i+1].spec.Backend, hex.EncodeToString(r.AppHash), b.reps[0].spec.Name, hex.EncodeToString(ref.AppHash))
		}
		if len(r.TxResults) != len(ref.TxResults) {
			return fmt.Sprintf("replica %s returned %d tx results, %s %d", name, len(r.TxResults), b.reps[0].spec.Name, len(ref.TxResults))
		}
		for j := range r.TxResults {
			if a, c := txResKey(r.TxResults[j]), txResKey(ref.TxResults[j]); a != c {
				return fmt.Sprintf("replica %s: result of tx %d is {%s}, %s has {%s}", name, j, a, b.reps[0].spec.Name, c)
			}
		}
		if a, c := eventsKey(r.BlockEvents), eventsKey(ref.BlockEvents); a != c {
			return fmt.Sprintf("replica %s: block events (BeginBlock + EndBlock) digest %s, %s has %s", name, a, b.reps[0].spec.Name, c)
		}
		if a, c := valUpdatesKey(r.ValidatorUpdates), valUpdatesKey(ref.ValidatorUpdates); a != c {
			return fmt.Sprintf("replica %s: validator updates {%s}, %s has {%s}", name, a, b.reps[0].spec.Name, c)
		}
	}
	return ""
}

func lettersString(alpha []letter, h []int) string {
	var ss []string
	for _, i := range h {
		ss = append(ss, alpha[i].Name)
	}
	return strings.Join(ss, " | ")
}
