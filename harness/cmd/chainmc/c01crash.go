package main

import (
	"bytes"
	"encoding/json"
	"fmt"
	"os"
	"os/exec"
	"path/filepath"
	"strings"
	"sync/atomic"

	"github.com/cometbft/cometbft/abci/types"
	"github.com/dgraph-io/badger/v4/verifhook"

	"verif/harness/internal/chain"
	"verif/harness/internal/ev"
)

// C01, crash phase: "... or was restarted and reloaded state from disk in
// between".  A clean restart is part of the BFS bundle; here the replica's
// process dies abruptly right after each durable write of its node database
// while it executes a block (all of BeginBlock .. Commit).  After reopening,
// the application must report either the previous height or the new one (as
// CometBFT's handshake requires), with the matching state root; the block is
// replayed if necessary; the rest of the history and one more block must give
// exactly the reference replica's results.

type c01crashSpec struct {
	Backend string   `json:"backend"`
	Dir     string   `json:"dir"`
	History []string `json:"history"` // letter names
	Pos     int      `json:"pos"`     // block (0-based) during which the process dies
	K       int      `json:"k"`       // right after its K-th durable write (0 = count only)
	Path    int      `json:"path"`
}

func c01crashHistories(thorough bool) [][]string {
	hs := [][]string{
		{"transfer(a0->a1,10,fee2)", "escrow(a0->e0,50)", "reclaim(a0<-e0,100sh)", "empty-block"},
		{"burn(a1,7,fee1)", "allow(a0->a1,+30)", "withdraw(a1<-a0,20)", "evidence=dupvote:0"},
	}
	if thorough {
		hs = append(hs,
			[]string{"gov-submit-upgrade(e0)", "gov-vote(e2,#1,yes)", "empty-block", "empty-block"},
			[]string{"2tx: transfer+burn", "votes=none", "reclaim(e1<-e1,1000sh)", "amend-commission(e0)"},
		)
	}
	return hs
}

// c01crashBundle: reference replica (memory, proposer) + the disk replica.
func c01crashBundle(w *world, sp c01crashSpec, reopen bool) (*bundle, error) {
	b, err := w.newBundle([]rspec{{Name: "R/reference", Path: chain.PathPropose, Backend: sp.Backend}})
	if err != nil {
		return nil, err
	}
	n, err := chain.NewNode(w.doc, w.keys.Nodes[1], sp.Backend, sp.Dir, false)
	if err != nil {
		b.close()
		return nil, err
	}
	if !reopen {
		if err := n.InitChain(); err != nil {
			n.Close()
			b.close()
			return nil, err
		}
	}
	b.reps = append(b.reps, &replica{spec: rspec{Name: "D/crashing", Path: chain.Path(sp.Path), Backend: sp.Backend, Disk: true, Ident: 1}, n: n, dir: sp.Dir})
	return b, nil
}

// c01crashChild: `chainmc c01-crash-child <spec.json>`.
func c01crashChild() {
	raw, err := os.ReadFile(os.Args[2])
	if err != nil {
		fmt.Println("child:", err)
		os.Exit(3)
	}
	var sp c01crashSpec
	if err := json.Unmarshal(raw, &sp); err != nil {
		fmt.Println("child:", err)
		os.Exit(3)
	}
	w, err := newWorld(chain.GenesisOptions{})
	if err != nil {
		fmt.Println("child:", err)
		os.Exit(3)
	}
	alpha := w.alphabet("c01")
	b, err := c01crashBundle(w, sp, false)
	if err != nil {
		fmt.Println("child: bundle:", err)
		os.Exit(3)
	}
	for i := 0; i < sp.Pos; i++ {
		out, err := b.exec(w.letterByName(alpha, sp.History[i]))
		if err != nil || out.results[0].Panic != "" || b.compareReplicas(out) != "" {
			fmt.Println("child: prefix failed")
			os.Exit(3)
		}
	}
	ref, d := b.reps[0].n, b.reps[1].n
	blk := b.buildBlock(w.letterByName(alpha, sp.History[sp.Pos]))
	rr := ref.Exec(blk, chain.PathPropose, nil)
	if rr.Panic != "" {
		fmt.Println("child: reference failed:", rr.Panic)
		os.Exit(3)
	}
	var count atomic.Int64
	hook := func(string) {
		if n := count.Add(1); sp.K > 0 && int(n) == sp.K {
			os.Exit(77)
		}
	}
	verifhook.Durable.Store(&hook)
	res := d.Exec(blk, chain.Path(sp.Path), nil)
	verifhook.Durable.Store(nil)
	if res.Panic != "" {
		fmt.Println("child: block failed:", res.Panic)
		os.Exit(4)
	}
	fmt.Printf("N=%d\n", count.Load())
	os.Exit(0)
}

func c01crashRunChild(sp c01crashSpec, scratch string) (exit, n int, out string) {
	b, _ := json.Marshal(sp)
	f := filepath.Join(scratch, "spec.json")
	_ = os.WriteFile(f, b, 0o644)
	cmd := exec.Command(os.Args[0], "c01-crash-child", f)
	cmd.Env = append(os.Environ(), "GOMAXPROCS=2")
	o, err := cmd.CombinedOutput()
	out = string(o)
	if err != nil {
		if ee, ok := err.(*exec.ExitError); ok {
			exit = ee.ExitCode()
		} else {
			exit = -1
		}
	}
	if i := strings.LastIndex(out, "N="); i >= 0 {
		fmt.Sscanf(out[i:], "N=%d", &n)
	}
	return
}

// c01crashRecover: reopen the crashed replica and continue.
func c01crashRecover(w *world, alpha []letter, sp c01crashSpec) (what string) {
	defer func() {
		if p := recover(); p != nil {
			what = fmt.Sprintf("panic during recovery: %v", p)
		}
	}()
	b, err := c01crashBundle(w, sp, true)
	if err != nil {
		return "reopening the replica after the crash failed: " + err.Error()
	}
	defer b.close()
	ref, d := b.reps[0].n, b.reps[1].n
	// the reference replays the prefix alone
	type hv struct {
		hash []byte
		vals []chain.Val
	}
	refAt := map[int64]hv{ref.Height: {ref.AppHash, append([]chain.Val{}, ref.Vals...)}}
	var blocks []*chain.Block
	var refRes []*chain.Result
	for i := 0; i <= sp.Pos; i++ {
		blk := b.buildBlock(w.letterByName(alpha, sp.History[i]))
		rr := ref.Exec(blk, chain.PathPropose, nil)
		if rr.Panic != "" {
			return "harness: reference failed: " + rr.Panic
		}
		blocks, refRes = append(blocks, blk), append(refRes, rr)
		refAt[ref.Height] = hv{ref.AppHash, append([]chain.Val{}, ref.Vals...)}
	}
	info := d.Mux.Info(types.RequestInfo{})
	hNew := ref.Height
	hOld := hNew - 1
	switch info.LastBlockHeight {
	case hNew:
		if !bytes.Equal(info.LastBlockAppHash, refAt[hNew].hash) {
			return fmt.Sprintf("after the crash the replica reports height %d with state root %x, the reference has %x", hNew, info.LastBlockAppHash, refAt[hNew].hash)
		}
		d.Resume(hNew, info.LastBlockAppHash, refAt[hNew].vals)
	case hOld:
		if hOld >= w.doc.Height && !bytes.Equal(info.LastBlockAppHash, refAt[hOld].hash) {
			return fmt.Sprintf("after the crash the replica reports height %d with state root %x, the reference has %x", hOld, info.LastBlockAppHash, refAt[hOld].hash)
		}
		if hOld < w.doc.Height {
			// nothing was committed yet: the consensus engine replays InitChain
			if err := d.InitChain(); err != nil {
				return "InitChain after a crash in the first block failed: " + err.Error()
			}
		} else {
			d.Resume(hOld, info.LastBlockAppHash, refAt[hOld].vals)
		}
		// the consensus engine replays the interrupted block
		res := d.Exec(blocks[sp.Pos], chain.PathReplay, nil)
		if a, c := resultKey(res), resultKey(refRes[sp.Pos]); a != c {
			return fmt.Sprintf("replaying the interrupted block after the crash gives {%s}, the reference {%s}", a, c)
		}
	default:
		return fmt.Sprintf("after the crash the replica reports height %d, expected %d or %d", info.LastBlockHeight, hOld, hNew)
	}
	// the rest of the history and one more block
	rest := append(append([]string{}, sp.History[sp.Pos+1:]...), "transfer(a0->a1,10,fee2)")
	for _, nm := range rest {
		out, err := b.exec(w.letterByName(alpha, nm))
		if err != nil {
			return "harness: " + err.Error()
		}
		if wv := b.compareReplicas(out); wv != "" {
			return fmt.Sprintf("continuing after the crash, block %s: %s", nm, wv)
		}
		if out.results[1].Panic != "" {
			return fmt.Sprintf("continuing after the crash, block %s failed: %s", nm, out.results[1].Panic)
		}
	}
	return ""
}

type c01crashArtefact struct {
	Spec c01crashSpec `json:"spec"`
}

func c01crashCase(w *world, alpha []letter, sp c01crashSpec, base string, id int) (died bool, n int, what string) {
	dir := filepath.Join(base, fmt.Sprintf("case%d", id))
	_ = os.RemoveAll(dir)
	_ = os.MkdirAll(dir, 0o755)
	defer os.RemoveAll(dir)
	sp.Dir = filepath.Join(dir, "db")
	_ = os.MkdirAll(sp.Dir, 0o755)
	ex, n, out := c01crashRunChild(sp, dir)
	switch ex {
	case 0:
		return false, n, ""
	case 77:
		return true, 0, c01crashRecover(w, alpha, sp)
	}
	return false, 0, fmt.Sprintf("harness: child failed (exit %d): %s", ex, tailStr(out, 600))
}

func tailStr(s string, n int) string {
	if len(s) > n {
		return s[len(s)-n:]
	}
	return s
}

func runC01Crash(r *ev.Run) {
	w, err := newWorld(chain.GenesisOptions{})
	if err != nil {
		r.HarnessError("genesis: %v", err)
		r.Finish()
	}
	alpha := w.alphabet("c01")
	base, err := os.MkdirTemp(shmDir(), "verif-c01crash-")
	if err != nil {
		r.HarnessError("tempdir: %v", err)
		r.Finish()
	}
	defer os.RemoveAll(base)
	if r.Replay != "" {
		v, err := ev.LoadReplay(r.Replay)
		if err != nil {
			fmt.Println("cannot load replay:", err)
			os.Exit(2)
		}
		raw, _ := json.Marshal(v.Artefact)
		var a c01crashArtefact
		_ = json.Unmarshal(raw, &a)
		_, _, what := c01crashCase(w, alpha, a.Spec, base, 0)
		os.RemoveAll(base)
		if what != "" {
			fmt.Printf("VIOLATION property=C01 replay=%s\n  what: %s\n", r.Replay, what)
			os.Exit(1)
		}
		fmt.Println("replay: property held")
		os.Exit(0)
	}
	type job struct {
		sp c01crashSpec
	}
	// dry runs: number of durable writes per (backend, history, block)
	var dry []c01crashSpec
	for _, be := range []string{"badger", "pathbadger"} {
		for hi, h := range c01crashHistories(r.Thorough()) {
			for pos := range h {
				path := chain.PathProcess
				if (hi+pos)%2 == 1 {
					path = chain.PathReplay
				}
				dry = append(dry, c01crashSpec{Backend: be, History: h, Pos: pos, Path: int(path)})
			}
		}
	}
	counts := make([]int, len(dry))
	ev.ParallelRange(len(dry), r.Seed, func(i int) {
		_, n, what := c01crashCase(w, alpha, dry[i], base, 100000+i)
		if what != "" {
			r.HarnessError("dry run: %s", what)
		}
		counts[i] = n
	})
	var jobs []job
	for i, sp := range dry {
		for k := 1; k <= counts[i]; k++ {
			sp.K = k
			jobs = append(jobs, job{sp})
		}
	}
	var died atomic.Int64
	ev.ParallelRange(len(jobs), r.Seed, func(ji int) {
		if r.Expired() {
			r.Cap("deadline")
			return
		}
		sp := jobs[ji].sp
		d, _, what := c01crashCase(w, alpha, sp, base, ji)
		r.Add("transitions", 1)
		r.Add("states", 1)
		r.Add("crash_cases", 1)
		if d {
			died.Add(1)
		}
		if strings.Contains(what, "Create a new file") {
			// the dependency's empty-WAL reopen failure (known finding of C07), not this property's business
			r.Add("crash_cases_hit_by_the_badger_wal_finding", 1)
			return
		}
		if what == "" {
			return
		}
		if strings.HasPrefix(what, "harness:") {
			r.HarnessError("%s [%v pos %d k %d]", what, sp.History, sp.Pos, sp.K)
			return
		}
		r.Violate(ev.Violation{Engine: "chainmc-crash", Key: fmt.Sprintf("c01 crash %s [%s] block %d after durable write %d", sp.Backend, strings.Join(sp.History, " | "), sp.Pos+1, sp.K),
			What:     fmt.Sprintf("%s, history [%s], process killed while executing block %d (%s) right after durable write #%d of its node database: %s", sp.Backend, strings.Join(sp.History, " | "), sp.Pos+1, sp.History[sp.Pos], sp.K, what),
			Artefact: c01crashArtefact{Spec: sp}})
	})
	os.RemoveAll(base)
	r.Set("crash_cases_died", int(died.Load()))
	r.Set("crash_blocks_interrupted", len(dry))
	r.Alias("traces_validated_against_impl", "transitions")
	r.Set("crash_rule", "crash-restart: for each history (4 blocks of staking / governance / evidence letters crossing an epoch transition), each block and each durable write k of the replica's node database during that block (all of BeginBlock .. Commit, counted by a dry run), a child process executes the prefix on an on-disk replica of the real multiplexer and exits abruptly right after write k; the parent reopens the replica, requires Info() to report the previous or the new height with the reference state root, replays the interrupted block if necessary (as CometBFT's handshake does) and executes the rest of the history plus one block; all results must equal the reference replica's")
	r.Assume("crash phase: process death, not power loss; crash points are the durable-write boundaries of the node database as seen by badger; the consensus engine's own handshake logic is modelled by the harness (replay the block iff the application reports the previous height)")
	r.Finish()
}

func shmDir() string {
	if st, err := os.Stat("/dev/shm"); err == nil && st.IsDir() {
		return "/dev/shm"
	}
	return ""
}
