package main

import (
	"strings"
	"math"

	"github.com/oasisprotocol/oasis-core/go/common/crypto/signature"

	beacon "github.com/oasisprotocol/oasis-core/go/beacon/api"
	"github.com/oasisprotocol/oasis-core/go/common/cbor"
	"github.com/oasisprotocol/oasis-core/go/common/quantity"
	"github.com/oasisprotocol/oasis-core/go/common/version"
	governance "github.com/oasisprotocol/oasis-core/go/governance/api"
	staking "github.com/oasisprotocol/oasis-core/go/staking/api"
	upgrade "github.com/oasisprotocol/oasis-core/go/upgrade/api"
)

func qq(n uint64) quantity.Quantity { return *quantity.NewFromUint64(n) }

func qBig(bits uint) quantity.Quantity {
	var q quantity.Quantity
	b := make([]byte, bits/8+1)
	b[0] = 1 << (bits % 8)
	_ = q.UnmarshalBinary(b)
	return q
}

// stakingTxs: the menu of staking / governance transactions (valid and invalid).
func (w *world) stakingTxs() []txT {
	k := w.keys
	e0, e1, e2 := k.Entities[0], k.Entities[1], k.Entities[2]
	a0, a1, a2 := k.Accounts[0], k.Accounts[1], k.Accounts[2]
	A := func(i int) staking.Address {
		switch i {
		case 0:
			return staking.NewAddress(a0.Public())
		case 1:
			return staking.NewAddress(a1.Public())
		default:
			return staking.NewAddress(a2.Public())
		}
	}
	E := func(i int) staking.Address { return staking.NewAddress(k.Entities[i].Public()) }
	_ = e2
	up := governance.ProposalContent{Upgrade: &governance.UpgradeProposal{Descriptor: upgrade.Descriptor{
		Versioned: cbor.NewVersioned(upgrade.LatestDescriptorVersion),
		Handler:   "verif-handler",
		Target:    version.Versions,
		Epoch:     beacon.EpochTime(40),
	}}}
	minDel := uint64(20)
	chg := governance.ProposalContent{ChangeParameters: &governance.ChangeParametersProposal{
		Module:  staking.ModuleName,
		Changes: cbor.Marshal(staking.ConsensusParameterChanges{MinDelegationAmount: &quantity.Quantity{}}),
	}}
	_ = minDel
	return []txT{
		{Name: "transfer(a0->a1,10,fee2)", Signer: a0, Method: staking.MethodTransfer, Body: staking.Transfer{To: A(1), Amount: qq(10)}, FeeAmt: 2},
		{Name: "transfer(a0->a0,10)", Signer: a0, Method: staking.MethodTransfer, Body: staking.Transfer{To: A(0), Amount: qq(10)}, FeeAmt: 1},
		{Name: "transfer(a0->commonpool,10)", Signer: a0, Method: staking.MethodTransfer, Body: staking.Transfer{To: staking.CommonPoolAddress, Amount: qq(10)}},
		{Name: "transfer(a0->burnaddr,9)", Signer: a0, Method: staking.MethodTransfer, Body: staking.Transfer{To: staking.BurnAddress, Amount: qq(9)}},
		{Name: "transfer(a1->a2,2000=all)", Signer: a1, Method: staking.MethodTransfer, Body: staking.Transfer{To: A(2), Amount: qq(2000)}},
		{Name: "transfer(a0->a1,balance+1)", Signer: a0, Method: staking.MethodTransfer, Body: staking.Transfer{To: A(1), Amount: qq(1001)}, FeeAmt: 3},
		{Name: "transfer(a0->a1,2^64-1)", Signer: a0, Method: staking.MethodTransfer, Body: staking.Transfer{To: A(1), Amount: qq(math.MaxUint64)}},
		{Name: "transfer(a0->a1,2^255)", Signer: a0, Method: staking.MethodTransfer, Body: staking.Transfer{To: A(1), Amount: qBig(255)}},
		{Name: "transfer(a0->a1,0)", Signer: a0, Method: staking.MethodTransfer, Body: staking.Transfer{To: A(1), Amount: qq(0)}},
		{Name: "transfer(a0->a2 empty,7)", Signer: a0, Method: staking.MethodTransfer, Body: staking.Transfer{To: A(2), Amount: qq(7)}, FeeAmt: 1},
		{Name: "transfer(a2 empty->a0,5,fee1)", Signer: a2, Method: staking.MethodTransfer, Body: staking.Transfer{To: A(0), Amount: qq(5)}, FeeAmt: 1},
		{Name: "burn(a1,7,fee1)", Signer: a1, Method: staking.MethodBurn, Body: staking.Burn{Amount: qq(7)}, FeeAmt: 1},
		{Name: "burn(a1,all)", Signer: a1, Method: staking.MethodBurn, Body: staking.Burn{Amount: qq(2000)}},
		{Name: "escrow(a0->e0,50)", Signer: a0, Method: staking.MethodAddEscrow, Body: staking.Escrow{Account: E(0), Amount: qq(50)}, FeeAmt: 1},
		{Name: "escrow(a1->e1,333)", Signer: a1, Method: staking.MethodAddEscrow, Body: staking.Escrow{Account: E(1), Amount: qq(333)}},
		{Name: "escrow(e2->e2,100)", Signer: e2, Method: staking.MethodAddEscrow, Body: staking.Escrow{Account: E(2), Amount: qq(100)}},
		{Name: "escrow(a0->e0,5<min)", Signer: a0, Method: staking.MethodAddEscrow, Body: staking.Escrow{Account: E(0), Amount: qq(5)}},
		{Name: "escrow(a0->commonpool,50)", Signer: a0, Method: staking.MethodAddEscrow, Body: staking.Escrow{Account: staking.CommonPoolAddress, Amount: qq(50)}},
		{Name: "reclaim(a0<-e0,100sh)", Signer: a0, Method: staking.MethodReclaimEscrow, Body: staking.ReclaimEscrow{Account: E(0), Shares: qq(100)}, FeeAmt: 1},
		{Name: "reclaim(a0<-e0,500sh=all)", Signer: a0, Method: staking.MethodReclaimEscrow, Body: staking.ReclaimEscrow{Account: E(0), Shares: qq(500)}},
		{Name: "reclaim(e1<-e1,1000sh)", Signer: e1, Method: staking.MethodReclaimEscrow, Body: staking.ReclaimEscrow{Account: E(1), Shares: qq(1000)}},
		{Name: "reclaim(e1<-e1,333sh)", Signer: e1, Method: staking.MethodReclaimEscrow, Body: staking.ReclaimEscrow{Account: E(1), Shares: qq(333)}},
		{Name: "reclaim(e2<-e2,2900sh)", Signer: e2, Method: staking.MethodReclaimEscrow, Body: staking.ReclaimEscrow{Account: E(2), Shares: qq(2900)}},
		{Name: "reclaim(a1<-e0,1sh none)", Signer: a1, Method: staking.MethodReclaimEscrow, Body: staking.ReclaimEscrow{Account: E(0), Shares: qq(1)}},
		{Name: "allow(a0->a1,+30)", Signer: a0, Method: staking.MethodAllow, Body: staking.Allow{Beneficiary: A(1), AmountChange: qq(30)}},
		{Name: "allow(a0->a1,-50)", Signer: a0, Method: staking.MethodAllow, Body: staking.Allow{Beneficiary: A(1), Negative: true, AmountChange: qq(50)}},
		{Name: "withdraw(a1<-a0,20)", Signer: a1, Method: staking.MethodWithdraw, Body: staking.Withdraw{From: A(0), Amount: qq(20)}, FeeAmt: 1},
		{Name: "withdraw(a1<-a0,31)", Signer: a1, Method: staking.MethodWithdraw, Body: staking.Withdraw{From: A(0), Amount: qq(31)}},
		{Name: "amend-commission(e0)", Signer: e0, Method: staking.MethodAmendCommissionSchedule, Body: staking.AmendCommissionSchedule{Amendment: staking.CommissionSchedule{
			Rates:  []staking.CommissionRateStep{{Start: 6, Rate: qq(20000)}},
			Bounds: []staking.CommissionRateBoundStep{{Start: 6, RateMin: qq(0), RateMax: qq(90000)}},
		}}},
		{Name: "gov-submit-upgrade(e0)", Signer: e0, Method: governance.MethodSubmitProposal, Body: up, FeeAmt: 1},
		{Name: "gov-submit-change(e1)", Signer: e1, Method: governance.MethodSubmitProposal, Body: chg},
		{Name: "gov-submit(a2 no funds)", Signer: a2, Method: governance.MethodSubmitProposal, Body: up},
		{Name: "gov-vote(e2,#1,yes)", Signer: e2, Method: governance.MethodCastVote, Body: governance.ProposalVote{ID: 1, Vote: governance.VoteYes}},
		{Name: "gov-vote(e1,#1,no)", Signer: e1, Method: governance.MethodCastVote, Body: governance.ProposalVote{ID: 1, Vote: governance.VoteNo}},
		{Name: "gov-submit-mindeposit(e1,500)", Signer: e1, Method: governance.MethodSubmitProposal, Body: governance.ProposalContent{ChangeParameters: &governance.ChangeParametersProposal{
			Module:  governance.ModuleName,
			Changes: cbor.Marshal(governance.ConsensusParameterChanges{MinProposalDeposit: func() *quantity.Quantity { v := qq(500); return &v }()}),
		}}},
		{Name: "gov-vote(e1,#1,yes)", Signer: e1, Method: governance.MethodCastVote, Body: governance.ProposalVote{ID: 1, Vote: governance.VoteYes}},
		{Name: "gov-vote(e0,#1,yes)", Signer: e0, Method: governance.MethodCastVote, Body: governance.ProposalVote{ID: 1, Vote: governance.VoteYes}},
		{Name: "gov-vote(e2,#2,yes)", Signer: e2, Method: governance.MethodCastVote, Body: governance.ProposalVote{ID: 2, Vote: governance.VoteYes}},
		{Name: "gov-vote(e1,#2,yes)", Signer: e1, Method: governance.MethodCastVote, Body: governance.ProposalVote{ID: 2, Vote: governance.VoteYes}},
		{Name: "gov-vote(a0 not validator,#1)", Signer: a0, Method: governance.MethodCastVote, Body: governance.ProposalVote{ID: 1, Vote: governance.VoteYes}},
	}
}

// chainedTxs: entities delegating to each other (an escrow account that is itself a delegator
// elsewhere) and the matching reclaims; used by a scripted prefix and one multi-transaction letter.
func (w *world) chainedTxs() []txT {
	k := w.keys
	E := func(i int) staking.Address { return staking.NewAddress(k.Entities[i].Public()) }
	esc := func(name string, s signature.Signer, to staking.Address, amt uint64) txT {
		return txT{Name: name, Signer: s, Method: staking.MethodAddEscrow, Body: staking.Escrow{Account: to, Amount: qq(amt)}}
	}
	rec := func(name string, s signature.Signer, from staking.Address, sh uint64) txT {
		return txT{Name: name, Signer: s, Method: staking.MethodReclaimEscrow, Body: staking.ReclaimEscrow{Account: from, Shares: qq(sh)}}
	}
	return []txT{
		esc("escrow(e1->e0,400)", k.Entities[1], E(0), 400),
		esc("escrow(e0->e1,200)", k.Entities[0], E(1), 200),
		esc("escrow(e2->e1,300)", k.Entities[2], E(1), 300),
		esc("escrow(a0->e1,100)", k.Accounts[0], E(1), 100),
		esc("escrow(a1->e1,333)chain", k.Accounts[1], E(1), 333),
		rec("reclaim(e1<-e0,400sh)", k.Entities[1], E(0), 400),
		rec("reclaim(e0<-e1,200sh)", k.Entities[0], E(1), 200),
		rec("reclaim(e2<-e1,300sh)", k.Entities[2], E(1), 300),
		rec("reclaim(a0<-e1,100sh)", k.Accounts[0], E(1), 100),
		rec("reclaim(a1<-e1,333sh)", k.Accounts[1], E(1), 333),
	}
}

// envLetters: every non-default value of each environment dimension, with an
// empty tx list and with one representative tx.
func envLetters(rep txT) []letter {
	var ls []letter
	for _, v := range []string{"none", "proposer", "allbutone", "onlyone"} {
		ls = append(ls, letter{Name: "votes=" + v, Votes: v})
	}
	ls = append(ls, letter{Name: "proposer=#1", Proposer: 1})
	for _, e := range []string{"dupvote:0", "dupvote:2", "unknown", "lca:1", "double:1"} {
		ls = append(ls, letter{Name: "evidence=" + e, Evidence: e})
	}
	ls = append(ls,
		letter{Name: "votes=none+" + rep.Name, Votes: "none", Txs: []txT{rep}},
		letter{Name: "proposer=#1+" + rep.Name, Proposer: 1, Txs: []txT{rep}},
		letter{Name: "evidence=dupvote:1+" + rep.Name, Evidence: "dupvote:1", Txs: []txT{rep}},
	)
	return ls
}

// alphabet builds the ordered letter list of a profile.
func (w *world) alphabet(profile string) []letter {
	txs := w.stakingTxs()
	ls := []letter{{Name: "empty-block"}}
	pick := func(names ...string) {
		for _, n := range names {
			for _, t := range txs {
				if t.Name == n {
					ls = append(ls, letter{Name: t.Name, Txs: []txT{t}})
				}
			}
		}
	}
	switch profile {
	case "staking":
		for _, t := range txs {
			ls = append(ls, letter{Name: t.Name, Txs: []txT{t}})
		}
		ls = append(ls, letter{Name: "2tx: transfer+burn", Txs: []txT{txs[0], txs[10]}})
		ls = append(ls, letter{Name: "2tx same signer: transfer,transfer", Txs: []txT{txs[0], txs[1]}})
		ls = append(ls, envLetters(txs[0])[:7]...)
		ls = append(ls, letter{Name: "evidence=dupvote:1", Evidence: "dupvote:1"}, letter{Name: "evidence=dupvote:2", Evidence: "dupvote:2"}, letter{Name: "evidence=lca:0", Evidence: "lca:0"})
	case "halt":
		pick("transfer(a0->a1,10,fee2)", "transfer(a1->a2,2000=all)", "transfer(a0->a1,2^255)", "burn(a1,all)", "reclaim(a0<-e0,500sh=all)", "reclaim(e1<-e1,1000sh)", "gov-submit-upgrade(e0)", "gov-vote(e2,#1,yes)", "gov-vote(e1,#1,no)", "escrow(a1->e1,333)")
		ls = append(ls, letter{Name: "3tx in the mempool, block fits 2", Txs: []txT{txs[0], txs[11], txs[1]}, Fits: 2})
		ls = append(ls, envLetters(txs[0])...)
	case "c01":
		pick("transfer(a0->a1,10,fee2)", "burn(a1,7,fee1)", "escrow(a0->e0,50)", "reclaim(a0<-e0,100sh)", "reclaim(e1<-e1,1000sh)", "allow(a0->a1,+30)", "withdraw(a1<-a0,20)", "amend-commission(e0)", "gov-submit-upgrade(e0)", "gov-vote(e2,#1,yes)", "transfer(a0->a1,balance+1)")
		ls = append(ls, letter{Name: "2tx: transfer+burn", Txs: []txT{txs[0], txs[10]}})
		// a mempool batch that does not fit into the block: the proposer must execute exactly what it proposes
		ls = append(ls, letter{Name: "3tx in the mempool, block fits 2", Txs: []txT{txs[0], txs[11], txs[1]}, Fits: 2}, letter{Name: "2tx in the mempool, block fits 1", Txs: []txT{txs[11], txs[0]}, Fits: 1})
		ls = append(ls, envLetters(txs[0])...)
	}
	if len(w.opts.Prefix) > 0 && w.opts.Prefix[0] == "escrow(e1->e0,400)" {
		// the chained-escrow universe: all five reclaims in one block (same debonding end epoch), and singly
		ct := w.chainedTxs()
		ls = append(ls, letter{Name: "5tx: chained reclaims", Txs: ct[5:]})
		for _, t := range ct[5:] {
			ls = append(ls, letter{Name: t.Name, Txs: []txT{t}})
		}
	}
	if w.opts.Vault {
		// a vault exists at genesis (see chain.GenesisOptions.Vault): withdrawals through the vault's
		// hook, actions by right and wrong authorities, inner messages that succeed and fail
		for _, t := range w.vaultTxs() {
			switch t.Name {
			case "withdraw(a1<-V,30)", "withdraw(a1<-V,35 second in interval)", "withdraw(a1<-V,61 above policy)", "withdraw(a2<-V,1 no policy)",
				"V.authorize(a0,#0,policy a1 60/10)", "V.authorize(a1,#0,suspend)", "V.authorize(a0,#1,resume)",
				"V.authorize(a0,#0,exec transfer from empty vault)", "V.authorize(a0,#1,exec transfer V->a2 1000>balance)", "V.authorize(a0,#1,exec escrow V->e0 30)", "V.authorize(a0,#1,exec burn 50>balance)",
				"V.authorize(a2 no authority,#0,policy)", "transfer(a0->V,10) deposit", "escrow(a0->V,50) vault as escrow account", "vault.Create(a1,thr2)":
				ls = append(ls, letter{Name: t.Name, Txs: []txT{t}})
			}
		}
	}
	if w.opts.GovMetadata {
		// proposals with metadata (valid, title too short, description only) next to the ones without
		k := w.keys
		mk := func(name string, md *governance.ProposalMetadata) letter {
			c := governance.ProposalContent{Metadata: md, CancelUpgrade: &governance.CancelUpgradeProposal{ProposalID: 1}}
			return letter{Name: name, Txs: []txT{{Name: name, Signer: k.Entities[0], Method: governance.MethodSubmitProposal, Body: c}}}
		}
		ls = append(ls, mk("gov-submit-cancel(e0,with title)", &governance.ProposalMetadata{Title: "a proposal title", Description: "d"}),
			mk("gov-submit-cancel(e0,empty title)", &governance.ProposalMetadata{}), mk("gov-submit-cancel(e0,no metadata)", nil),
			letter{Name: "gov-vote(a0 no entity,#1)", Txs: []txT{{Name: "gov-vote(a0,#1)", Signer: k.Accounts[0], Method: governance.MethodCastVote, Body: governance.ProposalVote{ID: 1, Vote: governance.VoteYes}}}})
		up := governance.ProposalContent{Metadata: &governance.ProposalMetadata{Title: "upgrade with a title"}, Upgrade: &governance.UpgradeProposal{Descriptor: upgrade.Descriptor{
			Versioned: cbor.NewVersioned(upgrade.LatestDescriptorVersion), Handler: "verif-handler", Target: version.Versions, Epoch: beacon.EpochTime(40)}}}
		ls = append(ls, letter{Name: "gov-submit-upgrade(e0,with title)", Txs: []txT{{Name: "gov-submit-upgrade(e0,with title)", Signer: k.Entities[0], Method: governance.MethodSubmitProposal, Body: up, FeeAmt: 1}}})
	}
	if w.opts.VRF {
		ls = append(ls, vrfLetters()...)
	}
	if w.opts.KeyManager {
		// the key manager worlds explore the key manager: a reduced base alphabet plus all key manager letters
		base := ls
		ls = nil
		for _, l := range base {
			switch l.Name {
			case "empty-block", "transfer(a0->a1,10,fee2)", "votes=none", "evidence=dupvote:0", "evidence=dupvote:2", "reclaim(a0<-e0,500sh=all)":
				ls = append(ls, l)
			}
		}
		for _, l := range kmLetters() {
			if w.opts.Focus == "churp" && !strings.Contains(l.Name, "churp") {
				continue
			}
			ls = append(ls, l)
		}
		if w.opts.Focus == "churp" {
			ls = ls[:0:0]
			ls = append(ls, letter{Name: "empty-block"})
			for _, l := range kmLetters() {
				if strings.Contains(l.Name, "churp") {
					ls = append(ls, l)
				}
			}
		}
	}
	if w.opts.Runtime && profile == "halt" {
		// the runtime's owner falls below its stake claims: the runtime must be suspended at the next epoch, not halt the chain
		e0 := staking.NewAddress(w.keys.Entities[0].Public())
		ls = append(ls, letter{Name: "reclaim(e0<-e0,900sh) owner understaked", Txs: []txT{{Name: "reclaim(e0<-e0,900sh)", Signer: w.keys.Entities[0], Method: staking.MethodReclaimEscrow, Body: staking.ReclaimEscrow{Account: e0, Shares: qq(900)}}}})
	}
	if w.opts.Runtime {
		for _, rs := range []roundSpec{
			{Who: "all"}, {Who: "all", Msgs: "transfer", InMsgs: "all"}, {Who: "scheduler"}, {Who: "dissent"}, {Who: "failure"}, {Who: "backup"},
			{Who: "all", Msgs: "withdraw"}, {Who: "all", Msgs: "addescrow", InMsgs: "all"}, {Who: "all", Msgs: "reclaim"}, {Who: "all", Msgs: "update-runtime"},
			{Who: "all", Msgs: "update-runtime-kind"}, {Who: "all", Msgs: "bad"}, {Who: "all", Msgs: "transfer-all"}, {Who: "all", InMsgs: "wronghash"},
		} {
			rs := rs
			ls = append(ls, letter{Name: rs.String(), Round: &rs})
		}
		for _, t := range w.runtimeTxs() {
			switch t.Name {
			case "submitmsg(a0,fee1,tokens2)", "submitmsg(a1,fee3,tokens0)", "runtime-update(e0,max-in-msgs+1)", "runtime-update(e0,owner->e1)", "runtime-new(e1)", "executor-commit(n0,empty)", "roothash-evidence(a0,empty)",
				"runtime-update(e0,max nodes per entity 0)", "runtime-update(e0,min pool 200)", "runtime-update(e0,validator-set constraint,max nodes 1)":
				ls = append(ls, letter{Name: t.Name, Txs: []txT{t}})
			}
		}
		for _, t := range w.registryTxs() {
			switch t.Name {
			case "node0-renew(exp6)", "node2 roles=validator->observer", "node1 expired descriptor(exp1)":
				ls = append(ls, letter{Name: t.Name, Txs: []txT{t}})
			}
		}
	}
	return ls
}
