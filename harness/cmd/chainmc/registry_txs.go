package main

import (
	scheduler "github.com/oasisprotocol/oasis-core/go/scheduler/api"
	"github.com/oasisprotocol/oasis-core/go/common"
	"github.com/oasisprotocol/oasis-core/go/common/cbor"
	beacon "github.com/oasisprotocol/oasis-core/go/beacon/api"
	"github.com/oasisprotocol/oasis-core/go/common/crypto/signature"
	"github.com/oasisprotocol/oasis-core/go/consensus/api/transaction"
	"github.com/oasisprotocol/oasis-core/go/common/entity"
	"github.com/oasisprotocol/oasis-core/go/common/node"
	registry "github.com/oasisprotocol/oasis-core/go/registry/api"
	roothash "github.com/oasisprotocol/oasis-core/go/roothash/api"
	staking "github.com/oasisprotocol/oasis-core/go/staking/api"
	vault "github.com/oasisprotocol/oasis-core/go/vault/api"

	"verif/harness/internal/chain"
)

// nodeTx builds a RegisterNode transaction: descriptor desc signed by signers
// (registration context), transaction signed by txSigner.
func nodeTx(name string, desc *node.Node, signers []signature.Signer, txSigner signature.Signer) txT {
	sn, err := node.MultiSignNode(signers, registry.RegisterNodeSignatureContext, desc)
	if err != nil {
		panic(err)
	}
	return txT{Name: name, Signer: txSigner, Method: registry.MethodRegisterNode, Body: sn}
}

func entityTx(name string, desc *entity.Entity, descSigner, txSigner signature.Signer) txT {
	se, err := entity.SignEntity(descSigner, registry.RegisterEntitySignatureContext, desc)
	if err != nil {
		panic(err)
	}
	return txT{Name: name, Signer: txSigner, Method: registry.MethodRegisterEntity, Body: se, FeeAmt: 0}
}

// registryTxs: entity / node registrations and updates by right and wrong
// signers, key swaps and rotations, missing signatures.
func (w *world) registryTxs() []txT {
	k := w.keys
	var ts []txT
	n0 := k.Nodes[0]
	// re-registration of node 0 with a later expiration (valid)
	ts = append(ts, nodeTx("node0-renew(exp6)", k.NodeDescriptor(0, 0, 13, node.RoleValidator), k.NodeSigners(0), n0.NodeSigner))
	// signed by the entity key instead of the node key
	ts = append(ts, nodeTx("node0-renew tx-signed-by-entity", k.NodeDescriptor(0, 0, 13, node.RoleValidator), k.NodeSigners(0), k.Entities[0]))
	// signed by another node
	ts = append(ts, nodeTx("node0-renew tx-signed-by-node1", k.NodeDescriptor(0, 0, 13, node.RoleValidator), k.NodeSigners(0), k.Nodes[1].NodeSigner))
	// descriptor missing each one signature in turn
	for i, nm := range []string{"node", "p2p", "consensus", "vrf", "tls"} {
		all := k.NodeSigners(0)
		sg := append(append([]signature.Signer{}, all[:i]...), all[i+1:]...)
		ts = append(ts, nodeTx("node0-renew missing-sig-"+nm, k.NodeDescriptor(0, 0, 13, node.RoleValidator), sg, n0.NodeSigner))
	}
	// key exchanges among the node's own keys
	swap := func(name string, f func(d *node.Node)) {
		d := k.NodeDescriptor(0, 0, 13, node.RoleValidator)
		f(d)
		ts = append(ts, nodeTx(name, d, k.NodeSigners(0), n0.NodeSigner))
	}
	swap("node0 swap p2p<->tls", func(d *node.Node) { d.P2P.ID, d.TLS.PubKey = d.TLS.PubKey, d.P2P.ID })
	swap("node0 swap p2p<->vrf", func(d *node.Node) { d.P2P.ID, d.VRF.ID = d.VRF.ID, d.P2P.ID })
	swap("node0 swap tls<->vrf", func(d *node.Node) { d.TLS.PubKey, d.VRF.ID = d.VRF.ID, d.TLS.PubKey })
	swap("node0 rotate p2p->tls->vrf->p2p", func(d *node.Node) { d.P2P.ID, d.TLS.PubKey, d.VRF.ID = d.VRF.ID, d.P2P.ID, d.TLS.PubKey })
	swap("node0 p2p=node1.p2p (unsigned by it)", func(d *node.Node) { d.P2P.ID = k.Nodes[1].P2PSigner.Public() })
	// keys of another registered node, with that key's signature (one operator controls both nodes)
	{
		d := k.NodeDescriptor(0, 0, 13, node.RoleValidator)
		d.P2P.ID = k.Nodes[1].P2PSigner.Public()
		ts = append(ts, nodeTx("node0 p2p=node1.p2p", d, []signature.Signer{n0.NodeSigner, k.Nodes[1].P2PSigner, n0.ConsensusSigner, n0.VRFSigner, n0.TLSSigner}, n0.NodeSigner))
		d2 := k.NodeDescriptor(0, 0, 13, node.RoleValidator)
		d2.VRF.ID = k.Nodes[1].VRFSigner.Public()
		ts = append(ts, nodeTx("node0 vrf=node1.vrf", d2, []signature.Signer{n0.NodeSigner, n0.P2PSigner, n0.ConsensusSigner, k.Nodes[1].VRFSigner, n0.TLSSigner}, n0.NodeSigner))
		d3 := k.NodeDescriptor(0, 0, 13, node.RoleValidator)
		d3.TLS.PubKey = k.Nodes[2].TLSSigner.Public()
		ts = append(ts, nodeTx("node0 tls=node2.tls", d3, []signature.Signer{n0.NodeSigner, n0.P2PSigner, n0.ConsensusSigner, n0.VRFSigner, k.Nodes[2].TLSSigner}, n0.NodeSigner))
	}
	swap("node0 p2p=own tls (duplicate)", func(d *node.Node) { d.P2P.ID = d.TLS.PubKey })
	// fresh keys for one role (spare identity 4 provides unused keys)
	{
		d := k.NodeDescriptor(0, 0, 13, node.RoleValidator)
		d.P2P.ID = k.Nodes[4].P2PSigner.Public()
		sg := []signature.Signer{n0.NodeSigner, k.Nodes[4].P2PSigner, n0.ConsensusSigner, n0.VRFSigner, n0.TLSSigner}
		ts = append(ts, nodeTx("node0 fresh p2p key", d, sg, n0.NodeSigner))
		d2 := k.NodeDescriptor(0, 0, 13, node.RoleValidator)
		d2.Consensus.ID = k.Nodes[4].ConsensusSigner.Public()
		sg2 := []signature.Signer{n0.NodeSigner, n0.P2PSigner, k.Nodes[4].ConsensusSigner, n0.VRFSigner, n0.TLSSigner}
		ts = append(ts, nodeTx("node0 new consensus key (forbidden)", d2, sg2, n0.NodeSigner))
	}
	// a new node (spare 3) for entity 0 (not in its node list) and for entity 1 after an entity update
	ts = append(ts, nodeTx("node3-new for e0 (not listed)", k.NodeDescriptor(3, 0, 6, node.RoleValidator), k.NodeSigners(3), k.Nodes[3].NodeSigner))
	ts = append(ts, entityTx("entity1-update nodes=[1,3]", k.EntityDescriptor(1, []int{1, 3}), k.Entities[1], k.Entities[1]))
	ts = append(ts, nodeTx("node3-new for e1", k.NodeDescriptor(3, 1, 6, node.RoleValidator), k.NodeSigners(3), k.Nodes[3].NodeSigner))
	ts = append(ts, nodeTx("node3-new for e1 observer", k.NodeDescriptor(3, 1, 6, node.RoleObserver), k.NodeSigners(3), k.Nodes[3].NodeSigner))
	// a node changing its entity: entity 0 lists node 1, node 1 (entity 1; the node that expires early in
	// the registry universes) re-registers naming entity 0 (refused while the old record exists, live or
	// expired; a fresh registration once it was removed)
	ts = append(ts, entityTx("entity0-update nodes=[0,1]", k.EntityDescriptor(0, []int{0, 1}), k.Entities[0], k.Entities[0]))
	ts = append(ts, nodeTx("node1-reregister under e0", k.NodeDescriptor(1, 0, 13, node.RoleValidator), k.NodeSigners(1), k.Nodes[1].NodeSigner))
	ts = append(ts, nodeTx("node1 expired descriptor(exp1)", k.NodeDescriptor(1, 1, 1, node.RoleValidator), k.NodeSigners(1), k.Nodes[1].NodeSigner))
	ts = append(ts, nodeTx("node1 expiration too far(exp99)", k.NodeDescriptor(1, 1, 99, node.RoleValidator), k.NodeSigners(1), k.Nodes[1].NodeSigner))
	ts = append(ts, nodeTx("node2 roles=validator->observer", k.NodeDescriptor(2, 2, 6, node.RoleObserver), k.NodeSigners(2), k.Nodes[2].NodeSigner))
	// entities
	ts = append(ts, entityTx("entity0-update nodes=[]", k.EntityDescriptor(0, nil), k.Entities[0], k.Entities[0]))
	ts = append(ts, entityTx("entity0-update signed-by-e1", k.EntityDescriptor(0, []int{0}), k.Entities[1], k.Entities[1]))
	ts = append(ts, entityTx("entity0-update tx-by-e1 desc-by-e0", k.EntityDescriptor(0, []int{0}), k.Entities[0], k.Entities[1]))
	ts = append(ts, entityTx("entity(a0)-register new", &entity.Entity{Versioned: k.EntityDescriptor(0, nil).Versioned, ID: k.Accounts[0].Public()}, k.Accounts[0], k.Accounts[0]))
	ts = append(ts, entityTx("entity(a2 no stake)-register", &entity.Entity{Versioned: k.EntityDescriptor(0, nil).Versioned, ID: k.Accounts[2].Public()}, k.Accounts[2], k.Accounts[2]))
	ts = append(ts, txT{Name: "entity0-deregister (has node)", Signer: k.Entities[0], Method: registry.MethodDeregisterEntity, Body: registry.DeregisterEntity{}})
	ts = append(ts, txT{Name: "entity(a0)-deregister", Signer: k.Accounts[0], Method: registry.MethodDeregisterEntity, Body: registry.DeregisterEntity{}})
	ts = append(ts, txT{Name: "entity(a1)-deregister (none)", Signer: k.Accounts[1], Method: registry.MethodDeregisterEntity, Body: registry.DeregisterEntity{}})
	ts = append(ts, txT{Name: "unfreeze node0 by e0 (not frozen)", Signer: k.Entities[0], Method: registry.MethodUnfreezeNode, Body: registry.UnfreezeNode{NodeID: n0.NodeSigner.Public()}})
	ts = append(ts, txT{Name: "unfreeze node1 by e0 (wrong entity)", Signer: k.Entities[0], Method: registry.MethodUnfreezeNode, Body: registry.UnfreezeNode{NodeID: k.Nodes[1].NodeSigner.Public()}})
	return ts
}

// miscTxs: transactions of the remaining applications (mostly invalid in one
// respect, which is what the atomicity check needs).
func (w *world) miscTxs() []txT {
	k := w.keys
	a0 := staking.NewAddress(k.Accounts[0].Public())
	a1 := staking.NewAddress(k.Accounts[1].Public())
	return []txT{
		{Name: "beacon.SetEpoch(5) (not mock)", Signer: k.Accounts[0], Method: beacon.MethodSetEpoch, Body: beacon.EpochTime(5), FeeAmt: 1},
		{Name: "roothash.SubmitMsg unknown runtime", Signer: k.Accounts[0], Method: roothash.MethodSubmitMsg, Body: roothash.SubmitMsg{Fee: qq(1), Tokens: qq(2), Data: []byte("x")}, FeeAmt: 1},
		{Name: "roothash.ExecutorCommit unknown runtime", Signer: k.Nodes[0].NodeSigner, Method: roothash.MethodExecutorCommit, Body: roothash.ExecutorCommit{}},
		{Name: "vault.Create(a0)", Signer: k.Accounts[0], Method: vault.MethodCreate, Body: vault.Create{AdminAuthority: vault.Authority{Addresses: []staking.Address{a0, a1}, Threshold: 1}, SuspendAuthority: vault.Authority{Addresses: []staking.Address{a1}, Threshold: 1}}, FeeAmt: 1},
		{Name: "vault.Create(a0) bad threshold", Signer: k.Accounts[0], Method: vault.MethodCreate, Body: vault.Create{AdminAuthority: vault.Authority{Addresses: []staking.Address{a0}, Threshold: 3}, SuspendAuthority: vault.Authority{Addresses: []staking.Address{a1}, Threshold: 1}}, FeeAmt: 1},
		{Name: "registry.ProveFreshness(n0)", Signer: k.Nodes[0].NodeSigner, Method: registry.MethodProveFreshness, Body: [32]byte{1, 2, 3}},
		{Name: "registry.ProveFreshness(a0 not a node)", Signer: k.Accounts[0], Method: registry.MethodProveFreshness, Body: [32]byte{1, 2, 3}, FeeAmt: 1},
	}
}

// runtimeTxs: transactions that involve the universe's compute runtime (only
// meaningful with GenesisOptions.Runtime).
func (w *world) runtimeTxs() []txT {
	k := w.keys
	rid := chain.RuntimeID()
	rt := func(f func(r *registry.Runtime)) *registry.Runtime {
		r := k.RuntimeDescriptor(0, w.opts)
		f(r)
		return r
	}
	other := common.NewTestNamespaceFromSeed([]byte("verif runtime 1"), common.NamespaceTest)
	rtNode := func(d *node.Node) *node.Node {
		d.Runtimes = []*node.Runtime{{ID: rid}}
		return d
	}
	ts := []txT{
		{Name: "submitmsg(a0,fee1,tokens2)", Signer: k.Accounts[0], Method: roothash.MethodSubmitMsg, Body: roothash.SubmitMsg{ID: rid, Tag: 7, Fee: qq(1), Tokens: qq(2), Data: []byte("m")}, FeeAmt: 1},
		{Name: "submitmsg(a1,fee3,tokens0)", Signer: k.Accounts[1], Method: roothash.MethodSubmitMsg, Body: roothash.SubmitMsg{ID: rid, Fee: qq(3)}},
		{Name: "submitmsg(a0,fee0<min)", Signer: k.Accounts[0], Method: roothash.MethodSubmitMsg, Body: roothash.SubmitMsg{ID: rid, Tokens: qq(2)}},
		{Name: "submitmsg(a0,tokens>balance)", Signer: k.Accounts[0], Method: roothash.MethodSubmitMsg, Body: roothash.SubmitMsg{ID: rid, Fee: qq(1), Tokens: qq(5000)}},
		{Name: "submitmsg(a2 empty)", Signer: k.Accounts[2], Method: roothash.MethodSubmitMsg, Body: roothash.SubmitMsg{ID: rid, Fee: qq(1)}},
		{Name: "submitmsg(a0,other runtime)", Signer: k.Accounts[0], Method: roothash.MethodSubmitMsg, Body: roothash.SubmitMsg{ID: other, Fee: qq(1)}},
		{Name: "runtime-update(e0,max-in-msgs+1)", Signer: k.Entities[0], Method: registry.MethodRegisterRuntime, Body: rt(func(r *registry.Runtime) { r.TxnScheduler.MaxInMessages++ })},
		{Name: "runtime-update(e1 not owner)", Signer: k.Entities[1], Method: registry.MethodRegisterRuntime, Body: rt(func(r *registry.Runtime) { r.TxnScheduler.MaxInMessages++ })},
		{Name: "runtime-update(e0,owner->e1)", Signer: k.Entities[0], Method: registry.MethodRegisterRuntime, Body: rt(func(r *registry.Runtime) { r.EntityID = k.Entities[1].Public() })},
		{Name: "runtime-update(e0,->runtime governance)", Signer: k.Entities[0], Method: registry.MethodRegisterRuntime, Body: rt(func(r *registry.Runtime) { r.GovernanceModel = registry.GovernanceRuntime })},
		{Name: "runtime-update(e0,kind->keymanager)", Signer: k.Entities[0], Method: registry.MethodRegisterRuntime, Body: rt(func(r *registry.Runtime) { r.Kind = registry.KindKeyManager })},
		{Name: "runtime-update(e0,group size 0)", Signer: k.Entities[0], Method: registry.MethodRegisterRuntime, Body: rt(func(r *registry.Runtime) { r.Executor.GroupSize = 0 })},
		{Name: "runtime-update(e0,max nodes per entity 0)", Signer: k.Entities[0], Method: registry.MethodRegisterRuntime, Body: rt(func(r *registry.Runtime) {
			setConstraint(r, func(c *registry.SchedulingConstraints) { c.MaxNodes = &registry.MaxNodesConstraint{Limit: 0} })
		})},
		{Name: "runtime-update(e0,min pool 200)", Signer: k.Entities[0], Method: registry.MethodRegisterRuntime, Body: rt(func(r *registry.Runtime) {
			setConstraint(r, func(c *registry.SchedulingConstraints) { c.MinPoolSize = &registry.MinPoolSizeConstraint{Limit: 200} })
		})},
		{Name: "runtime-update(e0,validator-set constraint,max nodes 1)", Signer: k.Entities[0], Method: registry.MethodRegisterRuntime, Body: rt(func(r *registry.Runtime) {
			setConstraint(r, func(c *registry.SchedulingConstraints) {
				c.ValidatorSet = &registry.ValidatorSetConstraint{}
				c.MaxNodes = &registry.MaxNodesConstraint{Limit: 1}
			})
		})},
		{Name: "runtime-new(e1)", Signer: k.Entities[1], Method: registry.MethodRegisterRuntime, Body: rt(func(r *registry.Runtime) { r.ID = other; r.EntityID = k.Entities[1].Public() })},
		{Name: "runtime-new(e2,runtime governance)", Signer: k.Entities[2], Method: registry.MethodRegisterRuntime, Body: rt(func(r *registry.Runtime) {
			r.ID = other
			r.EntityID = k.Entities[2].Public()
			r.GovernanceModel = registry.GovernanceRuntime
		})},
		// pass every registry check, vetoed by the roothash application when it is notified (runtime messages / incoming messages above the roothash limits of 32)
		{Name: "runtime-new(e1,max-messages 33 vetoed by roothash)", Signer: k.Entities[1], Method: registry.MethodRegisterRuntime, Body: rt(func(r *registry.Runtime) {
			r.ID = other
			r.EntityID = k.Entities[1].Public()
			r.Executor.MaxMessages = 33
		})},
		{Name: "runtime-update(e0,owner->e1,max-in-msgs 33 vetoed by roothash)", Signer: k.Entities[0], Method: registry.MethodRegisterRuntime, Body: rt(func(r *registry.Runtime) {
			r.EntityID = k.Entities[1].Public()
			r.TxnScheduler.MaxInMessages = 33
		})},
		{Name: "runtime-update(e0,max-messages 33 vetoed by roothash)", Signer: k.Entities[0], Method: registry.MethodRegisterRuntime, Body: rt(func(r *registry.Runtime) { r.Executor.MaxMessages = 33 })},
		{Name: "runtime-new(a0 no entity)", Signer: k.Accounts[0], Method: registry.MethodRegisterRuntime, Body: rt(func(r *registry.Runtime) { r.ID = other; r.EntityID = k.Accounts[0].Public() })},
		nodeTx("node0-renew+compute(exp13)", rtNode(k.NodeDescriptor(0, 0, 13, node.RoleValidator|node.RoleComputeWorker)), k.NodeSigners(0), k.Nodes[0].NodeSigner),
		nodeTx("node3-new validator+compute for e1", rtNode(k.NodeDescriptor(3, 1, 13, node.RoleValidator|node.RoleComputeWorker)), k.NodeSigners(3), k.Nodes[3].NodeSigner),
		nodeTx("node3-new compute for e1", rtNode(k.NodeDescriptor(3, 1, 13, node.RoleComputeWorker)), k.NodeSigners(3), k.Nodes[3].NodeSigner),
		nodeTx("node3-new observer+runtime for e1", rtNode(k.NodeDescriptor(3, 1, 13, node.RoleObserver)), k.NodeSigners(3), k.Nodes[3].NodeSigner),
		// a live node of e1 that already serves the runtime (as a validator only) adds a role: the admission
		// policy (when the runtime has one) must be checked again
		nodeTx("node3-new validator+runtime for e1", rtNode(k.NodeDescriptor(3, 1, 13, node.RoleValidator)), k.NodeSigners(3), k.Nodes[3].NodeSigner),
		nodeTx("node1-renew adding the observer role", rtNode(k.NodeDescriptor(1, 1, 13, node.RoleValidator|node.RoleComputeWorker|node.RoleObserver)), k.NodeSigners(1), k.Nodes[1].NodeSigner),
		nodeTx("node0-renew adding the observer role", rtNode(k.NodeDescriptor(0, 0, 13, node.RoleValidator|node.RoleComputeWorker|node.RoleObserver)), k.NodeSigners(0), k.Nodes[0].NodeSigner),
		nodeTx("node3-new compute for e0 (not listed)", rtNode(k.NodeDescriptor(3, 0, 13, node.RoleComputeWorker)), k.NodeSigners(3), k.Nodes[3].NodeSigner),
		nodeTx("node2-renew compute without runtimes", k.NodeDescriptor(2, 2, 13, node.RoleValidator|node.RoleComputeWorker), k.NodeSigners(2), k.Nodes[2].NodeSigner),
		{Name: "executor-commit(n0,empty)", Signer: k.Nodes[0].NodeSigner, Method: roothash.MethodExecutorCommit, Body: roothash.ExecutorCommit{ID: rid}},
		{Name: "roothash-evidence(a0,empty)", Signer: k.Accounts[0], Method: roothash.MethodEvidence, Body: roothash.Evidence{ID: rid}},
	}
	return ts
}

// vaultTxs: the vault universe of C08.  Vault V is created by a0 (admin
// authority {a0, a1} threshold 1, suspend authority {a1}); vault W by a1 with
// admin threshold 2 (actions stay pending until the second authorisation).
func (w *world) vaultTxs() []txT {
	k := w.keys
	a0 := staking.NewAddress(k.Accounts[0].Public())
	a1 := staking.NewAddress(k.Accounts[1].Public())
	a2 := staking.NewAddress(k.Accounts[2].Public())
	V := vault.NewVaultAddress(a0, 1) // the id is the creator's nonce after the creating transaction (its first)
	W := vault.NewVaultAddress(a1, 1)
	auth := func(name string, signer signature.Signer, v staking.Address, nonce uint64, act vault.Action) txT {
		return txT{Name: name, Signer: signer, Method: vault.MethodAuthorizeAction, Body: vault.AuthorizeAction{Vault: v, Nonce: nonce, Action: act}, FeeAmt: 1}
	}
	policy := func(addr staking.Address, limit, interval uint64) vault.Action {
		return vault.Action{UpdateWithdrawPolicy: &vault.ActionUpdateWithdrawPolicy{Address: addr, Policy: vault.WithdrawPolicy{LimitAmount: qq(limit), LimitInterval: interval}}}
	}
	exec := func(method transaction.MethodName, body any) vault.Action {
		return vault.Action{ExecuteMessage: &vault.ActionExecuteMessage{Method: method, Body: cbor.Marshal(body)}}
	}
	ts := []txT{
		{Name: "vault.Create(a0)", Signer: k.Accounts[0], Method: vault.MethodCreate, Body: vault.Create{AdminAuthority: vault.Authority{Addresses: []staking.Address{a0, a1}, Threshold: 1}, SuspendAuthority: vault.Authority{Addresses: []staking.Address{a1}, Threshold: 1}}, FeeAmt: 1},
		{Name: "vault.Create(a1,thr2)", Signer: k.Accounts[1], Method: vault.MethodCreate, Body: vault.Create{AdminAuthority: vault.Authority{Addresses: []staking.Address{a0, a1}, Threshold: 2}, SuspendAuthority: vault.Authority{Addresses: []staking.Address{a0}, Threshold: 1}}},
		{Name: "transfer(a0->V,40)", Signer: k.Accounts[0], Method: staking.MethodTransfer, Body: staking.Transfer{To: V, Amount: qq(40)}, FeeAmt: 1},
		{Name: "transfer(a0->W,40)", Signer: k.Accounts[0], Method: staking.MethodTransfer, Body: staking.Transfer{To: W, Amount: qq(40)}},
		auth("V.authorize(a0,#0,policy a1 60/10)", k.Accounts[0], V, 0, policy(a1, 60, 10)),
		auth("V.authorize(a0,#1,policy a1 60/10)", k.Accounts[0], V, 1, policy(a1, 60, 10)),
		auth("V.authorize(a0,#1,policy a1 disabled)", k.Accounts[0], V, 1, policy(a1, 0, 0)),
		auth("V.authorize(a2 no authority,#0,policy)", k.Accounts[2], V, 0, policy(a2, 60, 10)),
		auth("V.authorize(a0,#7 wrong nonce,policy)", k.Accounts[0], V, 7, policy(a1, 60, 10)),
		auth("V.authorize(a1,#0,suspend)", k.Accounts[1], V, 0, vault.Action{Suspend: &vault.ActionSuspend{}}),
		auth("V.authorize(a1,#1,suspend)", k.Accounts[1], V, 1, vault.Action{Suspend: &vault.ActionSuspend{}}),
		auth("V.authorize(a0,#1,resume)", k.Accounts[0], V, 1, vault.Action{Resume: &vault.ActionResume{}}),
		auth("V.authorize(a0,#2,resume)", k.Accounts[0], V, 2, vault.Action{Resume: &vault.ActionResume{}}),
		auth("V.authorize(a0,#1,exec transfer V->a2 30)", k.Accounts[0], V, 1, exec(staking.MethodTransfer, staking.Transfer{To: a2, Amount: qq(30)})),
		auth("V.authorize(a0,#1,exec transfer V->a2 1000>balance)", k.Accounts[0], V, 1, exec(staking.MethodTransfer, staking.Transfer{To: a2, Amount: qq(1000)})),
		auth("V.authorize(a0,#0,exec transfer from empty vault)", k.Accounts[0], V, 0, exec(staking.MethodTransfer, staking.Transfer{To: a2, Amount: qq(1)})),
		auth("V.authorize(a0,#1,exec escrow V->e0 30)", k.Accounts[0], V, 1, exec(staking.MethodAddEscrow, staking.Escrow{Account: staking.NewAddress(k.Entities[0].Public()), Amount: qq(30)})),
		auth("V.authorize(a0,#1,exec allow a2 +10)", k.Accounts[0], V, 1, exec(staking.MethodAllow, staking.Allow{Beneficiary: a2, AmountChange: qq(10)})),
		auth("V.authorize(a0,#1,exec burn 50>balance)", k.Accounts[0], V, 1, exec(staking.MethodBurn, staking.Burn{Amount: qq(50)})),
		auth("V.authorize(a0,#1,authority thr 3 of 2)", k.Accounts[0], V, 1, vault.Action{UpdateAuthority: &vault.ActionUpdateAuthority{AdminAuthority: &vault.Authority{Addresses: []staking.Address{a0, a1}, Threshold: 3}}}),
		auth("V.authorize(a0,#1,authority admin={a2})", k.Accounts[0], V, 1, vault.Action{UpdateAuthority: &vault.ActionUpdateAuthority{AdminAuthority: &vault.Authority{Addresses: []staking.Address{a2}, Threshold: 1}}}),
		auth("V.authorize(a0,#0,two actions set)", k.Accounts[0], V, 0, vault.Action{Suspend: &vault.ActionSuspend{}, Resume: &vault.ActionResume{}}),
		{Name: "V.cancel(a0,#0)", Signer: k.Accounts[0], Method: vault.MethodCancelAction, Body: vault.CancelAction{Vault: V, Nonce: 0}, FeeAmt: 1},
		{Name: "unknown-vault.authorize(a0)", Signer: k.Accounts[0], Method: vault.MethodAuthorizeAction, Body: vault.AuthorizeAction{Vault: a2, Nonce: 0, Action: vault.Action{Suspend: &vault.ActionSuspend{}}}},
		auth("W.authorize(a0,#0,policy a2 25/5) first of two", k.Accounts[0], W, 0, policy(a2, 25, 5)),
		auth("W.authorize(a1,#0,policy a2 25/5) second of two", k.Accounts[1], W, 0, policy(a2, 25, 5)),
		auth("W.authorize(a1,#0,different action)", k.Accounts[1], W, 0, policy(a2, 26, 5)),
		auth("W.authorize(a0,#0,exec transfer W->a2 100>balance)", k.Accounts[0], W, 0, exec(staking.MethodTransfer, staking.Transfer{To: a2, Amount: qq(100)})),
		auth("W.authorize(a1,#0,exec transfer W->a2 100>balance) second", k.Accounts[1], W, 0, exec(staking.MethodTransfer, staking.Transfer{To: a2, Amount: qq(100)})),
		{Name: "W.cancel(a0,#0)", Signer: k.Accounts[0], Method: vault.MethodCancelAction, Body: vault.CancelAction{Vault: W, Nonce: 0}},
		{Name: "W.cancel(a2 no authority,#0)", Signer: k.Accounts[2], Method: vault.MethodCancelAction, Body: vault.CancelAction{Vault: W, Nonce: 0}},
		{Name: "withdraw(a1<-V,30)", Signer: k.Accounts[1], Method: staking.MethodWithdraw, Body: staking.Withdraw{From: V, Amount: qq(30)}, FeeAmt: 1},
		{Name: "withdraw(a1<-V,50 within policy, above balance)", Signer: k.Accounts[1], Method: staking.MethodWithdraw, Body: staking.Withdraw{From: V, Amount: qq(50)}, FeeAmt: 1},
		{Name: "withdraw(a1<-V,61 above policy)", Signer: k.Accounts[1], Method: staking.MethodWithdraw, Body: staking.Withdraw{From: V, Amount: qq(61)}},
		{Name: "withdraw(a1<-V,35 second in interval)", Signer: k.Accounts[1], Method: staking.MethodWithdraw, Body: staking.Withdraw{From: V, Amount: qq(35)}},
		{Name: "withdraw(a2<-V,1 no policy)", Signer: k.Accounts[2], Method: staking.MethodWithdraw, Body: staking.Withdraw{From: V, Amount: qq(1)}},
		{Name: "withdraw(a0<-V,0)", Signer: k.Accounts[0], Method: staking.MethodWithdraw, Body: staking.Withdraw{From: V, Amount: qq(0)}},
		{Name: "transfer(a0->V,10) deposit", Signer: k.Accounts[0], Method: staking.MethodTransfer, Body: staking.Transfer{To: V, Amount: qq(10)}},
		{Name: "escrow(a0->V,50) vault as escrow account", Signer: k.Accounts[0], Method: staking.MethodAddEscrow, Body: staking.Escrow{Account: V, Amount: qq(50)}},
	}
	return ts
}

// setConstraint edits the scheduling constraints of every executor role of a runtime descriptor.
func setConstraint(r *registry.Runtime, f func(c *registry.SchedulingConstraints)) {
	if r.Constraints == nil {
		r.Constraints = map[scheduler.CommitteeKind]map[scheduler.Role]registry.SchedulingConstraints{}
	}
	if r.Constraints[scheduler.KindComputeExecutor] == nil {
		r.Constraints[scheduler.KindComputeExecutor] = map[scheduler.Role]registry.SchedulingConstraints{}
	}
	for _, role := range []scheduler.Role{scheduler.RoleWorker, scheduler.RoleBackupWorker} {
		c := r.Constraints[scheduler.KindComputeExecutor][role]
		f(&c)
		r.Constraints[scheduler.KindComputeExecutor][role] = c
	}
}
