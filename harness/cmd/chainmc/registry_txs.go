package main

import (
	"github.com/oasisprotocol/oasis-core/go/common"
	beacon "github.com/oasisprotocol/oasis-core/go/beacon/api"
	"github.com/oasisprotocol/oasis-core/go/common/crypto/signature"
	"github.com/oasisprotocol/oasis-core/go/common/entity"
	"github.com/oasisprotocol/oasis-core/go/common/node"
	registry "github.com/oasisprotocol/oasis-core/go/registry/api"
	roothash "github.com/oasisprotocol/oasis-core/go/roothash/api"
	staking "github.com/oasisprotocol/oasis-core/go/staking/api"
	vault "github.com/oasisprotocol/oasis-core/go/vault/api"

	"verif/harness/internal/chain"
)

// nodeTx builds a RegisterNode transaction: descriptor desc signed by signers
// (registration context), transaction signed by txSigner.
func nodeTx(name string, desc *node.Node, signers []signature.Signer, txSigner signature.Signer) txT {
	sn, err := node.MultiSignNode(signers, registry.RegisterNodeSignatureContext, desc)
	if err != nil {
		panic(err)
	}
	return txT{Name: name, Signer: txSigner, Method: registry.MethodRegisterNode, Body: sn}
}

func entityTx(name string, desc *entity.Entity, descSigner, txSigner signature.Signer) txT {
	se, err := entity.SignEntity(descSigner, registry.RegisterEntitySignatureContext, desc)
	if err != nil {
		panic(err)
	}
	return txT{Name: name, Signer: txSigner, Method: registry.MethodRegisterEntity, Body: se, FeeAmt: 0}
}

// registryTxs: entity / node registrations and updates by right and wrong
// signers, key swaps and rotations, missing signatures.
func (w *world) registryTxs() []txT {
	k := w.keys
	var ts []txT
	n0 := k.Nodes[0]
	// re-registration of node 0 with a later expiration (valid)
	ts = append(ts, nodeTx("node0-renew(exp6)", k.NodeDescriptor(0, 0, 13, node.RoleValidator), k.NodeSigners(0), n0.NodeSigner))
	// signed by the entity key instead of the node key
	ts = append(ts, nodeTx("node0-renew tx-signed-by-entity", k.NodeDescriptor(0, 0, 13, node.RoleValidator), k.NodeSigners(0), k.Entities[0]))
	// signed by another node
	ts = append(ts, nodeTx("node0-renew tx-signed-by-node1", k.NodeDescriptor(0, 0, 13, node.RoleValidator), k.NodeSigners(0), k.Nodes[1].NodeSigner))
	// descriptor missing each one signature in turn
	for i, nm := range []string{"node", "p2p", "consensus", "vrf", "tls"} {
		all := k.NodeSigners(0)
		sg := append(append([]signature.Signer{}, all[:i]...), all[i+1:]...)
		ts = append(ts, nodeTx("node0-renew missing-sig-"+nm, k.NodeDescriptor(0, 0, 13, node.RoleValidator), sg, n0.NodeSigner))
	}
	// key exchanges among the node's own keys
	swap := func(name string, f func(d *node.Node)) {
		d := k.NodeDescriptor(0, 0, 13, node.RoleValidator)
		f(d)
		ts = append(ts, nodeTx(name, d, k.NodeSigners(0), n0.NodeSigner))
	}
	swap("node0 swap p2p<->tls", func(d *node.Node) { d.P2P.ID, d.TLS.PubKey = d.TLS.PubKey, d.P2P.ID })
	swap("node0 swap p2p<->vrf", func(d *node.Node) { d.P2P.ID, d.VRF.ID = d.VRF.ID, d.P2P.ID })
	swap("node0 swap tls<->vrf", func(d *node.Node) { d.TLS.PubKey, d.VRF.ID = d.VRF.ID, d.TLS.PubKey })
	swap("node0 rotate p2p->tls->vrf->p2p", func(d *node.Node) { d.P2P.ID, d.TLS.PubKey, d.VRF.ID = d.VRF.ID, d.P2P.ID, d.TLS.PubKey })
	swap("node0 p2p=node1.p2p (unsigned by it)", func(d *node.Node) { d.P2P.ID = k.Nodes[1].P2PSigner.Public() })
	// keys of another registered node, with that key's signature (one operator controls both nodes)
	{
		d := k.NodeDescriptor(0, 0, 13, node.RoleValidator)
		d.P2P.ID = k.Nodes[1].P2PSigner.Public()
		ts = append(ts, nodeTx("node0 p2p=node1.p2p", d, []signature.Signer{n0.NodeSigner, k.Nodes[1].P2PSigner, n0.ConsensusSigner, n0.VRFSigner, n0.TLSSigner}, n0.NodeSigner))
		d2 := k.NodeDescriptor(0, 0, 13, node.RoleValidator)
		d2.VRF.ID = k.Nodes[1].VRFSigner.Public()
		ts = append(ts, nodeTx("node0 vrf=node1.vrf", d2, []signature.Signer{n0.NodeSigner, n0.P2PSigner, n0.ConsensusSigner, k.Nodes[1].VRFSigner, n0.TLSSigner}, n0.NodeSigner))
		d3 := k.NodeDescriptor(0, 0, 13, node.RoleValidator)
		d3.TLS.PubKey = k.Nodes[2].TLSSigner.Public()
		ts = append(ts, nodeTx("node0 tls=node2.tls", d3, []signature.Signer{n0.NodeSigner, n0.P2PSigner, n0.ConsensusSigner, n0.VRFSigner, k.Nodes[2].TLSSigner}, n0.NodeSigner))
	}
	swap("node0 p2p=own tls (duplicate)", func(d *node.Node) { d.P2P.ID = d.TLS.PubKey })
	// fresh keys for one role (spare identity 4 provides unused keys)
	{
		d := k.NodeDescriptor(0, 0, 13, node.RoleValidator)
		d.P2P.ID = k.Nodes[4].P2PSigner.Public()
		sg := []signature.Signer{n0.NodeSigner, k.Nodes[4].P2PSigner, n0.ConsensusSigner, n0.VRFSigner, n0.TLSSigner}
		ts = append(ts, nodeTx("node0 fresh p2p key", d, sg, n0.NodeSigner))
		d2 := k.NodeDescriptor(0, 0, 13, node.RoleValidator)
		d2.Consensus.ID = k.Nodes[4].ConsensusSigner.Public()
		sg2 := []signature.Signer{n0.NodeSigner, n0.P2PSigner, k.Nodes[4].ConsensusSigner, n0.VRFSigner, n0.TLSSigner}
		ts = append(ts, nodeTx("node0 new consensus key (forbidden)", d2, sg2, n0.NodeSigner))
	}
	// a new node (spare 3) for entity 0 (not in its node list) and for entity 1 after an entity update
	ts = append(ts, nodeTx("node3-new for e0 (not listed)", k.NodeDescriptor(3, 0, 6, node.RoleValidator), k.NodeSigners(3), k.Nodes[3].NodeSigner))
	ts = append(ts, entityTx("entity1-update nodes=[1,3]", k.EntityDescriptor(1, []int{1, 3}), k.Entities[1], k.Entities[1]))
	ts = append(ts, nodeTx("node3-new for e1", k.NodeDescriptor(3, 1, 6, node.RoleValidator), k.NodeSigners(3), k.Nodes[3].NodeSigner))
	ts = append(ts, nodeTx("node3-new for e1 observer", k.NodeDescriptor(3, 1, 6, node.RoleObserver), k.NodeSigners(3), k.Nodes[3].NodeSigner))
	ts = append(ts, nodeTx("node1 expired descriptor(exp1)", k.NodeDescriptor(1, 1, 1, node.RoleValidator), k.NodeSigners(1), k.Nodes[1].NodeSigner))
	ts = append(ts, nodeTx("node1 expiration too far(exp99)", k.NodeDescriptor(1, 1, 99, node.RoleValidator), k.NodeSigners(1), k.Nodes[1].NodeSigner))
	ts = append(ts, nodeTx("node2 roles=validator->observer", k.NodeDescriptor(2, 2, 6, node.RoleObserver), k.NodeSigners(2), k.Nodes[2].NodeSigner))
	// entities
	ts = append(ts, entityTx("entity0-update nodes=[]", k.EntityDescriptor(0, nil), k.Entities[0], k.Entities[0]))
	ts = append(ts, entityTx("entity0-update signed-by-e1", k.EntityDescriptor(0, []int{0}), k.Entities[1], k.Entities[1]))
	ts = append(ts, entityTx("entity0-update tx-by-e1 desc-by-e0", k.EntityDescriptor(0, []int{0}), k.Entities[0], k.Entities[1]))
	ts = append(ts, entityTx("entity(a0)-register new", &entity.Entity{Versioned: k.EntityDescriptor(0, nil).Versioned, ID: k.Accounts[0].Public()}, k.Accounts[0], k.Accounts[0]))
	ts = append(ts, entityTx("entity(a2 no stake)-register", &entity.Entity{Versioned: k.EntityDescriptor(0, nil).Versioned, ID: k.Accounts[2].Public()}, k.Accounts[2], k.Accounts[2]))
	ts = append(ts, txT{Name: "entity0-deregister (has node)", Signer: k.Entities[0], Method: registry.MethodDeregisterEntity, Body: registry.DeregisterEntity{}})
	ts = append(ts, txT{Name: "entity(a0)-deregister", Signer: k.Accounts[0], Method: registry.MethodDeregisterEntity, Body: registry.DeregisterEntity{}})
	ts = append(ts, txT{Name: "entity(a1)-deregister (none)", Signer: k.Accounts[1], Method: registry.MethodDeregisterEntity, Body: registry.DeregisterEntity{}})
	ts = append(ts, txT{Name: "unfreeze node0 by e0 (not frozen)", Signer: k.Entities[0], Method: registry.MethodUnfreezeNode, Body: registry.UnfreezeNode{NodeID: n0.NodeSigner.Public()}})
	ts = append(ts, txT{Name: "unfreeze node1 by e0 (wrong entity)", Signer: k.Entities[0], Method: registry.MethodUnfreezeNode, Body: registry.UnfreezeNode{NodeID: k.Nodes[1].NodeSigner.Public()}})
	return ts
}

// miscTxs: transactions of the remaining applications (mostly invalid in one
// respect, which is what the atomicity check needs).
func (w *world) miscTxs() []txT {
	k := w.keys
	a0 := staking.NewAddress(k.Accounts[0].Public())
	a1 := staking.NewAddress(k.Accounts[1].Public())
	return []txT{
		{Name: "beacon.SetEpoch(5) (not mock)", Signer: k.Accounts[0], Method: beacon.MethodSetEpoch, Body: beacon.EpochTime(5), FeeAmt: 1},
		{Name: "roothash.SubmitMsg unknown runtime", Signer: k.Accounts[0], Method: roothash.MethodSubmitMsg, Body: roothash.SubmitMsg{Fee: qq(1), Tokens: qq(2), Data: []byte("x")}, FeeAmt: 1},
		{Name: "roothash.ExecutorCommit unknown runtime", Signer: k.Nodes[0].NodeSigner, Method: roothash.MethodExecutorCommit, Body: roothash.ExecutorCommit{}},
		{Name: "vault.Create(a0)", Signer: k.Accounts[0], Method: vault.MethodCreate, Body: vault.Create{AdminAuthority: vault.Authority{Addresses: []staking.Address{a0, a1}, Threshold: 1}, SuspendAuthority: vault.Authority{Addresses: []staking.Address{a1}, Threshold: 1}}, FeeAmt: 1},
		{Name: "vault.Create(a0) bad threshold", Signer: k.Accounts[0], Method: vault.MethodCreate, Body: vault.Create{AdminAuthority: vault.Authority{Addresses: []staking.Address{a0}, Threshold: 3}, SuspendAuthority: vault.Authority{Addresses: []staking.Address{a1}, Threshold: 1}}, FeeAmt: 1},
		{Name: "registry.ProveFreshness(n0)", Signer: k.Nodes[0].NodeSigner, Method: registry.MethodProveFreshness, Body: [32]byte{1, 2, 3}},
		{Name: "registry.ProveFreshness(a0 not a node)", Signer: k.Accounts[0], Method: registry.MethodProveFreshness, Body: [32]byte{1, 2, 3}, FeeAmt: 1},
	}
}

// runtimeTxs: transactions that involve the universe's compute runtime (only
// meaningful with GenesisOptions.Runtime).
func (w *world) runtimeTxs() []txT {
	k := w.keys
	rid := chain.RuntimeID()
	rt := func(f func(r *registry.Runtime)) *registry.Runtime {
		r := k.RuntimeDescriptor(0, w.opts)
		f(r)
		return r
	}
	other := common.NewTestNamespaceFromSeed([]byte("verif runtime 1"), common.NamespaceTest)
	rtNode := func(d *node.Node) *node.Node {
		d.Runtimes = []*node.Runtime{{ID: rid}}
		return d
	}
	ts := []txT{
		{Name: "submitmsg(a0,fee1,tokens2)", Signer: k.Accounts[0], Method: roothash.MethodSubmitMsg, Body: roothash.SubmitMsg{ID: rid, Tag: 7, Fee: qq(1), Tokens: qq(2), Data: []byte("m")}, FeeAmt: 1},
		{Name: "submitmsg(a1,fee3,tokens0)", Signer: k.Accounts[1], Method: roothash.MethodSubmitMsg, Body: roothash.SubmitMsg{ID: rid, Fee: qq(3)}},
		{Name: "submitmsg(a0,fee0<min)", Signer: k.Accounts[0], Method: roothash.MethodSubmitMsg, Body: roothash.SubmitMsg{ID: rid, Tokens: qq(2)}},
		{Name: "submitmsg(a0,tokens>balance)", Signer: k.Accounts[0], Method: roothash.MethodSubmitMsg, Body: roothash.SubmitMsg{ID: rid, Fee: qq(1), Tokens: qq(5000)}},
		{Name: "submitmsg(a2 empty)", Signer: k.Accounts[2], Method: roothash.MethodSubmitMsg, Body: roothash.SubmitMsg{ID: rid, Fee: qq(1)}},
		{Name: "submitmsg(a0,other runtime)", Signer: k.Accounts[0], Method: roothash.MethodSubmitMsg, Body: roothash.SubmitMsg{ID: other, Fee: qq(1)}},
		{Name: "runtime-update(e0,max-in-msgs+1)", Signer: k.Entities[0], Method: registry.MethodRegisterRuntime, Body: rt(func(r *registry.Runtime) { r.TxnScheduler.MaxInMessages++ })},
		{Name: "runtime-update(e1 not owner)", Signer: k.Entities[1], Method: registry.MethodRegisterRuntime, Body: rt(func(r *registry.Runtime) { r.TxnScheduler.MaxInMessages++ })},
		{Name: "runtime-update(e0,owner->e1)", Signer: k.Entities[0], Method: registry.MethodRegisterRuntime, Body: rt(func(r *registry.Runtime) { r.EntityID = k.Entities[1].Public() })},
		{Name: "runtime-update(e0,->runtime governance)", Signer: k.Entities[0], Method: registry.MethodRegisterRuntime, Body: rt(func(r *registry.Runtime) { r.GovernanceModel = registry.GovernanceRuntime })},
		{Name: "runtime-update(e0,kind->keymanager)", Signer: k.Entities[0], Method: registry.MethodRegisterRuntime, Body: rt(func(r *registry.Runtime) { r.Kind = registry.KindKeyManager })},
		{Name: "runtime-update(e0,group size 0)", Signer: k.Entities[0], Method: registry.MethodRegisterRuntime, Body: rt(func(r *registry.Runtime) { r.Executor.GroupSize = 0 })},
		{Name: "runtime-new(e1)", Signer: k.Entities[1], Method: registry.MethodRegisterRuntime, Body: rt(func(r *registry.Runtime) { r.ID = other; r.EntityID = k.Entities[1].Public() })},
		{Name: "runtime-new(e2,runtime governance)", Signer: k.Entities[2], Method: registry.MethodRegisterRuntime, Body: rt(func(r *registry.Runtime) {
			r.ID = other
			r.EntityID = k.Entities[2].Public()
			r.GovernanceModel = registry.GovernanceRuntime
		})},
		{Name: "runtime-new(a0 no entity)", Signer: k.Accounts[0], Method: registry.MethodRegisterRuntime, Body: rt(func(r *registry.Runtime) { r.ID = other; r.EntityID = k.Accounts[0].Public() })},
		nodeTx("node0-renew+compute(exp13)", rtNode(k.NodeDescriptor(0, 0, 13, node.RoleValidator|node.RoleComputeWorker)), k.NodeSigners(0), k.Nodes[0].NodeSigner),
		nodeTx("node3-new validator+compute for e1", rtNode(k.NodeDescriptor(3, 1, 13, node.RoleValidator|node.RoleComputeWorker)), k.NodeSigners(3), k.Nodes[3].NodeSigner),
		nodeTx("node3-new compute for e1", rtNode(k.NodeDescriptor(3, 1, 13, node.RoleComputeWorker)), k.NodeSigners(3), k.Nodes[3].NodeSigner),
		nodeTx("node3-new observer+runtime for e1", rtNode(k.NodeDescriptor(3, 1, 13, node.RoleObserver)), k.NodeSigners(3), k.Nodes[3].NodeSigner),
		nodeTx("node3-new compute for e0 (not listed)", rtNode(k.NodeDescriptor(3, 0, 13, node.RoleComputeWorker)), k.NodeSigners(3), k.Nodes[3].NodeSigner),
		nodeTx("node2-renew compute without runtimes", k.NodeDescriptor(2, 2, 13, node.RoleValidator|node.RoleComputeWorker), k.NodeSigners(2), k.Nodes[2].NodeSigner),
		{Name: "executor-commit(n0,empty)", Signer: k.Nodes[0].NodeSigner, Method: roothash.MethodExecutorCommit, Body: roothash.ExecutorCommit{ID: rid}},
		{Name: "roothash-evidence(a0,empty)", Signer: k.Accounts[0], Method: roothash.MethodEvidence, Body: roothash.Evidence{ID: rid}},
	}
	return ts
}
