package main

import (
	"crypto/ed25519"
	"crypto/sha512"
	"encoding/hex"
	"encoding/json"
	"fmt"
	"math/big"
	"os"
	"sort"
	"strings"

	"github.com/oasisprotocol/oasis-core/go/common/cbor"
	"github.com/oasisprotocol/oasis-core/go/common/crypto/signature"
	"github.com/oasisprotocol/oasis-core/go/consensus/api/transaction"
	stakingState "github.com/oasisprotocol/oasis-core/go/consensus/cometbft/apps/staking/state"
	staking "github.com/oasisprotocol/oasis-core/go/staking/api"

	"verif/harness/internal/chain"
	"verif/harness/internal/ev"
)

// C09: only authentic, correctly sequenced transactions execute, once.

type c09tx struct {
	Name   string
	Raw    []byte
	Signer int    // 0 = a0, 1 = a1
	Nonce  uint64 // nonce inside the envelope
	Honest bool   // signed by the stated signer under this chain's tx context over exactly these bytes
}

type c09Artefact struct {
	Mode    string   `json:"mode"`
	History []string `json:"history,omitempty"`
	Forgery string   `json:"forgery,omitempty"`
}

func (w *world) c09Pool() []c09tx {
	k := w.keys
	a := []signature.Signer{k.Accounts[0], k.Accounts[1]}
	to := []staking.Address{chain.Addr(k.Accounts[1]), chain.Addr(k.Accounts[0])}
	var pool []c09tx
	for s := 0; s < 2; s++ {
		max := uint64(3)
		if s == 1 {
			max = 2
		}
		for n := uint64(0); n < max; n++ {
			raw := chain.SignTx(a[s], n, chain.Fee(1, 1000), staking.MethodTransfer, staking.Transfer{To: to[s], Amount: qq(10 + n)})
			pool = append(pool, c09tx{Name: fmt.Sprintf("a%d.n%d", s, n), Raw: raw, Signer: s, Nonce: n, Honest: true})
		}
	}
	return pool
}

// accountView reads nonce and general balance of the two accounts.
func accountView(n *chain.Node, w *world) (nonces [2]uint64, bals [2]string) {
	t := n.Tree()
	defer t.Close()
	st := stakingState.NewImmutableState(t)
	for i := 0; i < 2; i++ {
		acct, err := st.Account(chain.Ctx, chain.Addr(w.keys.Accounts[i]))
		if err == nil {
			nonces[i] = acct.General.Nonce
			bals[i] = acct.General.Balance.String()
		}
	}
	return
}

func runC09(r *ev.Run) {
	w, err := newWorld(chain.GenesisOptions{})
	if err != nil {
		r.HarnessError("world: %v", err)
		r.Finish()
	}
	chain.Init(w.doc)
	pool := w.c09Pool()
	byName := map[string]c09tx{}
	for _, t := range pool {
		byName[t.Name] = t
	}
	// letters: blocks of 0..2 raw transactions
	var alpha [][]string
	alpha = append(alpha, []string{})
	for _, t := range pool {
		alpha = append(alpha, []string{t.Name})
	}
	alpha = append(alpha, []string{"a0.n0", "a0.n0"}, []string{"a0.n0", "a0.n1"}, []string{"a0.n1", "a0.n0"}, []string{"a0.n0", "a1.n0"}, []string{"a1.n1", "a1.n0"}, []string{"a0.n2", "a0.n1"})
	specs := []rspec{
		{Name: "P/badger", Path: chain.PathPropose, Backend: "badger"},
		{Name: "D/pathbadger+restart", Path: chain.PathReplay, Backend: "pathbadger", Disk: true, Restart: true},
	}
	depth := 3
	if r.Thorough() {
		depth = 4
	}
	var poorReplay func(h [][]string) string
	_ = poorReplay
	var pendingPoor [][]string
	poorMode := false
	runHist := func(h [][]string) string {
		b, err := w.newBundle(specs)
		if err != nil {
			return "harness: " + err.Error()
		}
		defer b.close()
		var ref [2]uint64
		refBal := [2]int64{1000, 2000}
		executed := map[string]bool{}
		for bi, names := range h {
			l := letter{Name: strings.Join(names, "+")}
			for _, nm := range names {
				l.Txs = append(l.Txs, txT{Name: nm, Raw: byName[nm].Raw})
			}
			out, err := b.exec(&l)
			if err != nil {
				return "harness: " + err.Error()
			}
			if w := b.compareReplicas(out); w != "" {
				return fmt.Sprintf("block %d: restarted replica disagrees: %s", bi+1, w)
			}
			res := out.results[0]
			if res.Panic != "" {
				return fmt.Sprintf("block %d: %s", bi+1, res.Panic)
			}
			for ti, nm := range names {
				t := byName[nm]
				code := res.TxResults[ti].Code
				should := t.Nonce == ref[t.Signer]
				switch {
				case should && code != 0:
					return fmt.Sprintf("block %d: %s (nonce %d = account nonce) was rejected with code %d", bi+1, nm, t.Nonce, code)
				case !should && code == 0:
					if executed[nm] {
						return fmt.Sprintf("block %d: the signed bytes %s took effect a second time", bi+1, nm)
					}
					return fmt.Sprintf("block %d: %s executed although its nonce %d differs from the account nonce %d", bi+1, nm, t.Nonce, ref[t.Signer])
				}
				if should {
					executed[nm] = true
					ref[t.Signer]++
					amt := int64(10 + t.Nonce)
					refBal[t.Signer] -= amt + 1
					refBal[1-t.Signer] += amt
				}
			}
			nonces, bals := accountView(b.ref(), w)
			for s := 0; s < 2; s++ {
				if nonces[s] != ref[s] {
					return fmt.Sprintf("block %d: account a%d has nonce %d, reference %d", bi+1, s, nonces[s], ref[s])
				}
				if bals[s] != fmt.Sprint(refBal[s]) {
					return fmt.Sprintf("block %d: account a%d has balance %s, reference %d (a rejected transaction had an effect, or an executed one the wrong effect)", bi+1, s, bals[s], refBal[s])
				}
			}
		}
		return ""
	}
	if r.Replay != "" {
		v, err := ev.LoadReplay(r.Replay)
		if err != nil {
			fmt.Println("cannot load replay:", err)
			os.Exit(2)
		}
		bb, _ := json.Marshal(v.Artefact)
		var a c09Artefact
		_ = json.Unmarshal(bb, &a)
		what := ""
		if a.Mode == "poor" {
			for _, s := range a.History {
				if s == "" {
					pendingPoor = append(pendingPoor, nil)
				} else {
					pendingPoor = append(pendingPoor, strings.Split(s, "+"))
				}
			}
			poorMode = true
		} else if a.Mode == "history" {
			var h [][]string
			for _, s := range a.History {
				if s == "" {
					h = append(h, nil)
				} else {
					h = append(h, strings.Split(s, "+"))
				}
			}
			what = runHist(h)
		} else if a.Mode == "inner" {
			what = c09Inner(r, &a)
		} else {
			for _, f := range w.c09Forgeries(byName) {
				if f.Name == a.Forgery {
					if what = w.c09Forge(f, byName); what == "same-signed-transaction" {
						what = ""
					}
				}
			}
		}
		if !poorMode {
			if what != "" {
				fmt.Printf("VIOLATION property=C09 replay=%s\n  what: %s\n", r.Replay, what)
				os.Exit(1)
			}
			fmt.Println("replay: property held")
			os.Exit(0)
		}
	}
	// Part A: all histories of `depth` blocks.
	n := len(alpha)
	total := 1
	for i := 0; i < depth; i++ {
		total *= n
	}
	if poorMode {
		total = 0 // replay of a poor-signer history: skip part A
	}
	ev.ParallelRange(total, r.Seed, func(i int) {
		if r.Expired() {
			r.Cap("deadline")
			return
		}
		var h [][]string
		var hs []string
		x := i
		for d := 0; d < depth; d++ {
			h = append(h, alpha[x%n])
			hs = append(hs, strings.Join(alpha[x%n], "+"))
			x /= n
		}
		what := runHist(h)
		r.Add("transitions", int64(depth))
		r.Add("states", 1)
		if what != "" {
			if strings.HasPrefix(what, "harness:") {
				r.HarnessError("%s %v", what, hs)
				return
			}
			r.Violate(ev.Violation{Engine: "chainmc", Key: "c09 history " + strings.Join(hs, " | "), What: fmt.Sprintf("submission history [%s] (a<i>.n<k> = transfer signed by account i with nonce k): %s", strings.Join(hs, " | "), what), Artefact: c09Artefact{Mode: "history", History: hs}})
		}
		if i%997 == 0 {
			r.Sample(map[string]any{"history": hs}, 5)
		}
	})
	// Part A2: a signer that cannot always pay: account a2 is empty at genesis.  Letters: a2's
	// pre-signed transfers (nonces 0, 1; fee 1; amount 5 to a0), a1's pre-signed funding transfers to
	// a2 (nonces 0, 1; amounts 5 and 7; no fee), pairs in one block.  Reference: a transaction passes
	// authentication iff its nonce equals the signer's nonce and the signer can pay the fee; only then
	// the nonce advances and the fee is charged (whether or not the transfer itself succeeds); a
	// transaction rejected at authentication changes nothing and its bytes stay valid for later.
	{
		k := w.keys
		a0, a1, a2 := chain.Addr(k.Accounts[0]), chain.Addr(k.Accounts[1]), chain.Addr(k.Accounts[2])
		_ = a1
		type ptx struct {
			name   string
			raw    []byte
			signer int // 1 or 2
			nonce  uint64
			fee    int64
			amt    int64
		}
		pool := map[string]ptx{}
		var names []string
		add := func(t ptx) { pool[t.name] = t; names = append(names, t.name) }
		for n := uint64(0); n < 2; n++ {
			add(ptx{fmt.Sprintf("a2.n%d(fee1,pay5)", n), chain.SignTx(k.Accounts[2], n, chain.Fee(1, 1000), staking.MethodTransfer, staking.Transfer{To: a0, Amount: qq(5)}), 2, n, 1, 5})
		}
		add(ptx{"fund.n0(a1->a2,5)", chain.SignTx(k.Accounts[1], 0, chain.Fee(0, 1000), staking.MethodTransfer, staking.Transfer{To: a2, Amount: qq(5)}), 1, 0, 0, 5})
		add(ptx{"fund.n1(a1->a2,7)", chain.SignTx(k.Accounts[1], 1, chain.Fee(0, 1000), staking.MethodTransfer, staking.Transfer{To: a2, Amount: qq(7)}), 1, 1, 0, 7})
		alpha2 := [][]string{{}}
		for _, nm := range names {
			alpha2 = append(alpha2, []string{nm})
		}
		alpha2 = append(alpha2, []string{"fund.n0(a1->a2,5)", "a2.n0(fee1,pay5)"}, []string{"a2.n0(fee1,pay5)", "fund.n0(a1->a2,5)"}, []string{"a2.n0(fee1,pay5)", "a2.n1(fee1,pay5)"}, []string{"fund.n0(a1->a2,5)", "fund.n1(a1->a2,7)"})
		view := func(n *chain.Node) (nonce [3]uint64, bal [3]int64) {
			t := n.Tree()
			defer t.Close()
			st := stakingState.NewImmutableState(t)
			for i := 0; i < 3; i++ {
				if acct, err := st.Account(chain.Ctx, chain.Addr(k.Accounts[i])); err == nil {
					nonce[i] = acct.General.Nonce
					bal[i] = acct.General.Balance.ToBigInt().Int64()
				}
			}
			return
		}
		runPoor := func(h [][]string) string {
			b, err := w.newBundle(specs[:1])
			if err != nil {
				return "harness: " + err.Error()
			}
			defer b.close()
			var refN [3]uint64
			refB := [3]int64{1000, 2000, 0}
			for bi, blockNames := range h {
				l := letter{Name: strings.Join(blockNames, "+")}
				for _, nm := range blockNames {
					l.Txs = append(l.Txs, txT{Name: nm, Raw: pool[nm].raw})
				}
				out, err := b.exec(&l)
				if err != nil {
					return "harness: " + err.Error()
				}
				res := out.results[0]
				if res.Panic != "" {
					return fmt.Sprintf("block %d: %s", bi+1, res.Panic)
				}
				for ti, nm := range blockNames {
					t := pool[nm]
					code := res.TxResults[ti].Code
					auth := t.nonce == refN[t.signer] && refB[t.signer] >= t.fee
					if auth {
						refN[t.signer]++
						refB[t.signer] -= t.fee
						refB[1] += 0 // fees go to the fee accumulator, not to an account of the view
						dst := 0
						if t.signer == 1 {
							dst = 2
						}
						if refB[t.signer] >= t.amt {
							refB[t.signer] -= t.amt
							refB[dst] += t.amt
							if code != 0 {
								return fmt.Sprintf("block %d: %s passes authentication and can pay but was rejected with code %d", bi+1, nm, code)
							}
						} else if code == 0 {
							return fmt.Sprintf("block %d: %s succeeded although the signer cannot pay the amount", bi+1, nm)
						}
					} else if code == 0 {
						return fmt.Sprintf("block %d: %s executed although it does not pass authentication (nonce %d vs account nonce %d, balance %d vs fee %d)", bi+1, nm, t.nonce, refN[t.signer], refB[t.signer], t.fee)
					}
				}
				nonce, bal := view(b.ref())
				for i := 1; i < 3; i++ {
					if nonce[i] != refN[i] {
						return fmt.Sprintf("block %d: account a%d has nonce %d, reference %d (a transaction rejected at authentication must not consume the nonce; an authenticated one consumes exactly one)", bi+1, i, nonce[i], refN[i])
					}
				}
				if bal[2] != refB[2] {
					return fmt.Sprintf("block %d: account a2 has balance %d, reference %d", bi+1, bal[2], refB[2])
				}
			}
			return ""
		}
		if poorMode {
			what := runPoor(pendingPoor)
			if what != "" {
				fmt.Printf("VIOLATION property=C09 replay=%s\n  what: %s\n", r.Replay, what)
				os.Exit(1)
			}
			fmt.Println("replay: property held")
			os.Exit(0)
		}
		n2 := len(alpha2)
		d2 := 3
		if r.Thorough() {
			d2 = 4
		}
		total2 := 1
		for i := 0; i < d2; i++ {
			total2 *= n2
		}
		ev.ParallelRange(total2, r.Seed, func(i int) {
			if r.Expired() {
				r.Cap("deadline")
				return
			}
			var h [][]string
			var hs []string
			x := i
			for d := 0; d < d2; d++ {
				h = append(h, alpha2[x%n2])
				hs = append(hs, strings.Join(alpha2[x%n2], "+"))
				x /= n2
			}
			what := runPoor(h)
			r.Add("transitions", int64(d2))
			r.Add("states", 1)
			r.Add("poor_signer_histories", 1)
			if what != "" {
				if strings.HasPrefix(what, "harness:") {
					r.HarnessError("%s %v", what, hs)
					return
				}
				r.Violate(ev.Violation{Engine: "chainmc", Key: "c09 poor-signer history " + strings.Join(hs, " | "), What: fmt.Sprintf("submission history [%s] with the empty account a2 as a signer: %s", strings.Join(hs, " | "), what), Artefact: c09Artefact{Mode: "poor", History: hs}})
			}
		})
		poorReplay = runPoor
	}
	// Part B: forgeries of the next valid transaction after [a0.n0].
	forgeries := w.c09Forgeries(byName)
	kinds := map[string]int{}
	ev.ParallelRange(len(forgeries), r.Seed, func(i int) {
		if r.Expired() {
			r.Cap("deadline")
			return
		}
		f := forgeries[i]
		what := w.c09Forge(f, byName)
		r.Add("transitions", 2)
		r.Add("forgeries", 1)
		if what == "same-signed-transaction" {
			r.Add("envelope_reencodings_of_the_same_signed_tx", 1)
			what = ""
		}
		if what != "" {
			if strings.HasPrefix(what, "harness:") {
				r.HarnessError("%s %s", what, f.Name)
				return
			}
			r.Violate(ev.Violation{Engine: "chainmc", Key: "c09 forgery " + f.Name, What: fmt.Sprintf("forgery %s: %s", f.Name, what), Artefact: c09Artefact{Mode: "forgery", Forgery: f.Name}})
		}
	})
	for _, f := range forgeries {
		kinds[strings.SplitN(f.Name, ":", 2)[0]]++
	}
	// Part C: inner signed payloads.
	c09Inner(r, nil)
	r.Set("forgery_kinds", kinds)
	r.Set("histories", total)
	r.Set("depth", depth)
	r.Alias("traces_validated_against_impl", "transitions")
	r.Set("rule", "part A: every history of `depth` blocks over 12 letters (pre-signed transfers of two accounts with nonces 0..2, the same bytes twice in a block, out-of-order pairs, the empty block), executed on a proposer replica and on an on-disk replica restarted before every block: a transaction executes iff its nonce equals the reference nonce of its signer, nonces and balances of both accounts equal the reference after every block (so the same bytes never take effect twice). part B: in the state after a0's first transaction, every single-bit flip of the next valid signed transaction, signer and signature substitution, and the same body signed with the account key under every registered signature context (with and without chain separation, raw ed25519 over the prepared message), under this context for another chain, with truncated and extended chain suffix: each delivered alone in a block must fail and leave the state equal to the twin that executed the empty block. part C (signed payloads inside correctly enveloped transactions: entity descriptor, each of the five signatures of a node descriptor, an executor commitment of the scheduler, both commitments of executor-equivocation evidence (two results; failure + result), both proposals of proposal-equivocation evidence): the genuine transaction must take effect; with one inner signature replaced by a signature of the right key under every other registered context (with / without chain separation, with the runtime suffix in either position, for another runtime, for another chain; thorough: also truncated / extended / empty chain suffixes for every slot), a signature by another key, an all-zero signature, or a flipped signature bit, the transaction must fail and leave exactly fee and nonce behind (state dump equal to a twin that executed an undecodable transaction of the same signer and fee)")
	r.Assume("two signers, nonces 0..2", "multi-bit forgeries are not enumerated (would require breaking Ed25519)", "part C: one forged inner signature at a time; the key-manager and SGX-attestation payloads (not reachable in this world: no TEE hardware) are not carriers")
	r.Finish()
}

type forgery struct {
	Name string
	Raw  []byte
}

func rawSign(priv ed25519.PrivateKey, rawContext string, msg []byte) []byte {
	h := sha512.New512_256()
	h.Write([]byte(rawContext))
	h.Write(msg)
	return ed25519.Sign(priv, h.Sum(nil))
}

func (w *world) c09Forgeries(byName map[string]c09tx) []forgery {
	var fs []forgery
	base := byName["a0.n1"].Raw
	for b := 0; b < len(base)*8; b++ {
		m := append([]byte{}, base...)
		m[b/8] ^= 1 << uint(b%8)
		fs = append(fs, forgery{Name: fmt.Sprintf("bitflip:%d", b), Raw: m})
	}
	var st transaction.SignedTransaction
	_ = cbor.Unmarshal(base, &st)
	var other transaction.SignedTransaction
	_ = cbor.Unmarshal(byName["a1.n0"].Raw, &other)
	// signer key substitution, signature substitution
	s1 := st
	s1.Signature.PublicKey = other.Signature.PublicKey
	fs = append(fs, forgery{Name: "substitute:signer-key", Raw: cbor.Marshal(s1)})
	s2 := st
	s2.Signature.Signature = other.Signature.Signature
	fs = append(fs, forgery{Name: "substitute:signature", Raw: cbor.Marshal(s2)})
	s3 := other
	s3.Blob = st.Blob
	fs = append(fs, forgery{Name: "substitute:body-under-other-envelope", Raw: cbor.Marshal(s3)})
	// small-order signer keys with signatures R = small-order point, S = 0 (valid for any message
	// under a verifier that accepts small-order keys)
	smallOrder := []string{
		"0100000000000000000000000000000000000000000000000000000000000000",
		"ecffffffffffffffffffffffffffffffffffffffffffffffffffffffffffffff7f",
		"0000000000000000000000000000000000000000000000000000000000000000",
		"0000000000000000000000000000000000000000000000000000000000000080",
		"c7176a703d4dd84fba3c0b760d10670f2a2053fa2c39ccc64ec7fd7792ac037a",
		"c7176a703d4dd84fba3c0b760d10670f2a2053fa2c39ccc64ec7fd7792ac03fa",
		"26e8958fc2b227b045c3f489f2ef98f0d5dfac05d3c63339b13802886d53fc05",
		"26e8958fc2b227b045c3f489f2ef98f0d5dfac05d3c63339b13802886d53fc85",
	}
	zeroNonceTx := transaction.NewTransaction(0, nil, staking.MethodTransfer, staking.Transfer{To: chain.Addr(w.keys.Accounts[1]), Amount: qq(0)})
	// and with R = [S]B for a non-trivial S (R is then not of small order)
	{
		seed := sha512.Sum512([]byte("verif small order forgery"))
		priv := ed25519.NewKeyFromSeed(seed[:32])
		h := sha512.Sum512(seed[:32])
		a := h[:32]
		a[0] &= 248
		a[31] &= 127
		a[31] |= 64
		be := make([]byte, 32)
		for i := range a {
			be[31-i] = a[i]
		}
		L, _ := new(big.Int).SetString("7237005577332262213973186563042994240857116359379907606001950938285454250989", 10)
		sInt := new(big.Int).Mod(new(big.Int).SetBytes(be), L)
		sBE := sInt.FillBytes(make([]byte, 32))
		for ai, ah := range smallOrder {
			var s transaction.SignedTransaction
			s.Blob = cbor.Marshal(zeroNonceTx)
			ab, _ := hex.DecodeString(ah)
			copy(s.Signature.PublicKey[:], ab)
			copy(s.Signature.Signature[:32], priv.Public().(ed25519.PublicKey))
			for i := 0; i < 32; i++ {
				s.Signature.Signature[32+i] = sBE[31-i]
			}
			fs = append(fs, forgery{Name: fmt.Sprintf("small-order:A%d,R=[S]B", ai), Raw: cbor.Marshal(s)})
		}
	}
	for ai, ah := range smallOrder {
		for ri, rh := range smallOrder {
			var s transaction.SignedTransaction
			s.Blob = cbor.Marshal(zeroNonceTx)
			ab, _ := hex.DecodeString(ah)
			rb, _ := hex.DecodeString(rh)
			copy(s.Signature.PublicKey[:], ab)
			copy(s.Signature.Signature[:32], rb)
			fs = append(fs, forgery{Name: fmt.Sprintf("small-order:A%d,R%d", ai, ri), Raw: cbor.Marshal(s)})
		}
	}
	// cross-context signatures with the genuine key
	us, ok := w.keys.Accounts[0].(signature.UnsafeSigner)
	if !ok {
		return fs
	}
	priv := ed25519.PrivateKey(us.UnsafeBytes())
	chainCtx := w.doc.ChainContext()
	ctxs := signature.VerifRegisteredContexts()
	var names []string
	for c := range ctxs {
		names = append(names, c)
	}
	sort.Strings(names)
	mk := func(name, rawCtx string) {
		s := st
		copy(s.Signature.Signature[:], rawSign(priv, rawCtx, st.Blob))
		fs = append(fs, forgery{Name: name, Raw: cbor.Marshal(s)})
	}
	txCtx := string(transaction.SignatureContext)
	for _, c := range names {
		if c != txCtx {
			mk("context:"+c+"+chain", c+" for chain "+chainCtx)
		}
		mk("context:"+c+"+nochain", c)
	}
	mk("chain:other", txCtx+" for chain "+strings.Repeat("0", len(chainCtx)))
	mk("chain:truncated", txCtx+" for chain "+chainCtx[:len(chainCtx)-1])
	mk("chain:extended", txCtx+" for chain "+chainCtx+"0")
	mk("chain:empty", txCtx+" for chain ")
	// control: the genuine context must reproduce the genuine signature
	mk("control:genuine", txCtx+" for chain "+chainCtx)
	return fs
}

// c09Forge delivers the forgery alone in a block after [a0.n0] and compares with the twin.
func (w *world) c09Forge(f forgery, byName map[string]c09tx) string {
	specs := []rspec{{Name: "P/badger", Path: chain.PathPropose, Backend: "badger"}}
	run := func(raw []byte) (map[string][]byte, uint32, string) {
		b, err := w.newBundle(specs)
		if err != nil {
			return nil, 0, "harness: " + err.Error()
		}
		defer b.close()
		if out, err := b.exec(&letter{Txs: []txT{{Raw: byName["a0.n0"].Raw}}}); err != nil || out.results[0].Panic != "" || out.results[0].TxResults[0].Code != 0 {
			return nil, 0, "harness: prefix failed"
		}
		l := letter{}
		if raw != nil {
			l.Txs = []txT{{Raw: raw}}
		}
		out, err := b.exec(&l)
		if err != nil {
			return nil, 0, "harness: " + err.Error()
		}
		if out.results[0].Panic != "" {
			return nil, 0, "block execution failed: " + out.results[0].Panic
		}
		code := uint32(0)
		if raw != nil {
			code = out.results[0].TxResults[0].Code
		}
		d, err := b.ref().Dump()
		if err != nil {
			return nil, 0, "harness: " + err.Error()
		}
		return d, code, ""
	}
	x, code, what := run(f.Raw)
	if what != "" {
		return what
	}
	if f.Name == "control:genuine" {
		if code != 0 {
			return "harness: the control forgery (genuine context, raw ed25519) was rejected: raw signing does not reproduce the real scheme"
		}
		return ""
	}
	if code == 0 {
		// An envelope whose decoded signer, signature and signed bytes are exactly those of
		// the genuine transaction is the same signed transaction in a different (unsigned)
		// outer encoding; it is the genuine transaction that took effect.
		var g, m transaction.SignedTransaction
		if cbor.Unmarshal(byName["a0.n1"].Raw, &g) == nil && cbor.Unmarshal(f.Raw, &m) == nil &&
			m.Signature.PublicKey.Equal(g.Signature.PublicKey) && m.Signature.Signature == g.Signature.Signature && string(m.Blob) == string(g.Blob) {
			return "same-signed-transaction"
		}
		return "the forged transaction executed successfully"
	}
	y, _, what := run(nil)
	if what != "" {
		return what
	}
	if d := dumpDiff(x, y); d != "" {
		return "the forged transaction was rejected but changed state:" + d
	}
	return ""
}
