package main

import (
	"bytes"
	"encoding/json"
	"fmt"
	"os"
	"sort"
	"strings"

	"github.com/oasisprotocol/oasis-core/go/common/cbor"
	"github.com/oasisprotocol/oasis-core/go/consensus/api/transaction"
	staking "github.com/oasisprotocol/oasis-core/go/staking/api"

	"verif/harness/internal/chain"
	"verif/harness/internal/ev"
)

// C08: a failed transaction changes nothing but fee and nonce.

type c08Artefact struct {
	Variant int      `json:"genesis_variant"`
	Prefix []string `json:"prefix"`
	Tx     string   `json:"tx"`
	Gas    uint64   `json:"gas"`
	Mode   string   `json:"mode"`
}

func dumpDiff(a, b map[string][]byte) string {
	var ks []string
	for k := range a {
		if !bytes.Equal(a[k], b[k]) {
			ks = append(ks, k)
		}
	}
	for k := range b {
		if _, ok := a[k]; !ok {
			ks = append(ks, k)
		}
	}
	sort.Strings(ks)
	var sb strings.Builder
	for i, k := range ks {
		if i >= 4 {
			fmt.Fprintf(&sb, " ... (%d keys differ)", len(ks))
			break
		}
		fmt.Fprintf(&sb, " key %x: %x vs %x;", k, a[k], b[k])
	}
	return sb.String()
}

type c08ctx struct {
	w      *world
	prefix []letter
	specs  []rspec
	// the empty-block twin of this pre-state is the same for every transaction and gas limit (one job = one goroutine)
	yDump  map[string][]byte
	yNonce map[staking.Address]uint64
}

// emptyTwin returns the state dump after [prefix, empty block] and the signer's nonce there.
func (c *c08ctx) emptyTwin(signer *txT) (map[string][]byte, uint64, string) {
	if c.yDump == nil {
		d, _, _, _, what := c.after(letter{Name: "empty"}, nil, nil)
		if what != "" {
			return nil, 0, what
		}
		c.yDump, c.yNonce = d, map[staking.Address]uint64{}
	}
	if signer == nil {
		return c.yDump, 0, ""
	}
	a := chain.Addr(signer.Signer)
	n, ok := c.yNonce[a]
	if !ok {
		_, _, _, nn, what := c.after(letter{Name: "empty"}, signer, nil)
		if what != "" {
			return nil, 0, what
		}
		n = nn
		c.yNonce[a] = n
	}
	return c.yDump, n, ""
}

// after runs the prefix and then one block on a fresh single replica and
// returns the dump, the tx result code, gas used and the signer's nonce.
func (c *c08ctx) after(blk letter, signer *txT, burst []txT) (dump map[string][]byte, code uint32, gasUsed int64, nonce uint64, what string) {
	b, err := c.w.newBundle(c.specs)
	if err != nil {
		return nil, 0, 0, 0, "harness: " + err.Error()
	}
	defer b.close()
	for i := range c.prefix {
		out, err := b.exec(&c.prefix[i])
		if err != nil || out.results[0].Panic != "" {
			return nil, 0, 0, 0, "prefix-failed"
		}
	}
	if burst != nil {
		// mempool checks and gas estimation of every menu transaction must not change committed state
		bl := b.buildBlock(&letter{Txs: burst})
		for i, raw := range bl.Txs {
			_, _ = b.ref().CheckTx(raw)
			func() {
				defer func() { _ = recover() }()
				t := burst[i]
				tx := transaction.NewTransaction(0, nil, t.Method, t.Body)
				_, _ = b.ref().Srv.EstimateGas(t.Signer.Public(), tx)
			}()
		}
	}
	out, err := b.exec(&blk)
	if err != nil {
		return nil, 0, 0, 0, "harness: " + err.Error()
	}
	res := out.results[0]
	if res.Panic != "" {
		return nil, 0, 0, 0, "block execution failed: " + res.Panic
	}
	if len(blk.Txs) > 0 && len(res.TxResults) > 0 {
		code = res.TxResults[0].Code
		gasUsed = res.TxResults[0].GasUsed
	}
	if signer != nil {
		nonce = b.ref().Nonce(chain.Addr(signer.Signer))
	}
	d, err := b.ref().Dump()
	if err != nil {
		return nil, 0, 0, 0, "harness: dump: " + err.Error()
	}
	return d, code, gasUsed, nonce, ""
}

type c08world struct {
	w        *world
	menu     []txT
	byName   map[string]txT
	prefixes [][]letter
}

func (cw *c08world) L(names ...string) []letter {
	var ls []letter
	for _, n := range names {
		if n == "empty" {
			ls = append(ls, letter{Name: "empty"})
			continue
		}
		if strings.HasPrefix(n, "evidence=") {
			ls = append(ls, letter{Name: n, Evidence: strings.TrimPrefix(n, "evidence=")})
			continue
		}
		t, ok := cw.byName[n]
		if !ok {
			panic("unknown tx " + n)
		}
		ls = append(ls, letter{Name: n, Txs: []txT{t}})
	}
	return ls
}

func newC08World(r *ev.Run, o chain.GenesisOptions) *c08world {
	w, err := newWorld(o)
	if err != nil {
		r.HarnessError("world: %v", err)
		r.Finish()
	}
	cw := &c08world{w: w, byName: map[string]txT{}}
	cw.menu = append(append(w.stakingTxs(), w.registryTxs()...), w.miscTxs()...)
	if o.Runtime {
		cw.menu = append(cw.menu, w.runtimeTxs()...)
	}
	for _, t := range cw.menu {
		cw.byName[t.Name] = t
	}
	return cw
}

func runC08(r *ev.Run) {
	cw0 := newC08World(r, chain.GenesisOptions{})
	// second genesis variant: a minimum transact balance, so that "balance too low" failures exist
	cw1 := newC08World(r, chain.GenesisOptions{MinTransactBalance: 10})
	// third: a compute runtime with an incoming message queue of capacity 1, committees elected every block
	cw2 := newC08World(r, chain.GenesisOptions{Runtime: true, EpochInterval: 1, NodeExpiration: 12})
	// fourth: the vault universe (own menu: vault creation, actions of every kind by right and wrong
	// authorities and nonces, pending actions under a 2-of-2 authority, withdrawals through the
	// vault's withdraw hook within / above policy and balance)
	cw3 := newC08World(r, chain.GenesisOptions{})
	cw3.menu = cw3.w.vaultTxs()
	cw3.byName = map[string]txT{}
	for _, t := range cw3.menu {
		cw3.byName[t.Name] = t
	}
	cw3.prefixes = [][]letter{
		cw3.L("vault.Create(a0)"),
		cw3.L("vault.Create(a0)", "transfer(a0->V,40)", "V.authorize(a0,#0,policy a1 60/10)"),
		cw3.L("vault.Create(a0)", "transfer(a0->V,40)", "V.authorize(a0,#0,policy a1 60/10)", "withdraw(a1<-V,30)"),
		cw3.L("vault.Create(a0)", "transfer(a0->V,40)", "V.authorize(a1,#0,suspend)"),
		cw3.L("vault.Create(a1,thr2)", "transfer(a0->W,40)", "W.authorize(a0,#0,policy a2 25/5) first of two"),
		cw3.L("vault.Create(a1,thr2)", "transfer(a0->W,40)", "W.authorize(a0,#0,exec transfer W->a2 100>balance)"),
	}
	// fifth: equivocation wipes the whole escrow account (active and debonding balance zero with
	// shares outstanding): escrow operations against a fully slashed pool fail late
	cw4 := newC08World(r, chain.GenesisOptions{SlashAmount: 1000000, EpochInterval: 4, NodeExpiration: 12})
	cw4.menu = nil
	for _, t := range cw4.w.stakingTxs() {
		if t.Method == staking.MethodAddEscrow || t.Method == staking.MethodReclaimEscrow || t.Method == staking.MethodTransfer && t.Name == "transfer(a0->a1,10,fee2)" {
			cw4.menu = append(cw4.menu, t)
		}
	}
	for _, ev := range []string{"evidence=dupvote:0", "evidence=dupvote:1", "evidence=dupvote:2"} {
		// whichever validator the index denotes: one of the three hits the account that is debonding
		cw4.prefixes = append(cw4.prefixes, cw4.L("reclaim(a0<-e0,100sh)", ev), cw4.L("reclaim(e1<-e1,333sh)", ev))
	}
	// sixth: the runtime world at consensus feature version 26.1 (runtime owner index, 26.1 admission rules);
	// menu: everything that touches the registry or the runtime
	cw5 := newC08World(r, chain.GenesisOptions{Runtime: true, EpochInterval: 1, NodeExpiration: 12, Feature261: true})
	cw5.menu = append(append([]txT{}, cw5.w.registryTxs()...), cw5.w.runtimeTxs()...)
	cw5.prefixes = [][]letter{
		{},
		cw5.L("empty", "empty", "empty"), // committee elected
		cw5.L("runtime-update(e0,->runtime governance)"),
		cw5.L("runtime-new(e1)"),
		cw5.L("runtime-update(e0,owner->e1)"),
	}
	// seventh / eighth: key manager worlds (before and at feature version 26.1, where a policy update is
	// scheduled instead of applied at once): node re-registrations with every kind of init response,
	// master / ephemeral secrets, policy updates, valid and invalid in one respect
	kmWorld := func(f261 bool) *c08world {
		cw := newC08World(r, chain.GenesisOptions{KeyManager: true, EpochInterval: 2, NodeExpiration: 30, Escrow: []uint64{3000, 3000, 3000}, Feature261: f261})
		cw.menu = cw.w.kmMenu()
		if f261 && !r.Thorough() {
			// quick tier: at 26.1 only what differs there (policy updates are scheduled, not applied) and the registrations
			var m []txT
			for _, t := range cw.menu {
				if strings.HasPrefix(t.Name, "km-policy") || strings.HasPrefix(t.Name, "km-reg") {
					m = append(m, t)
				}
			}
			cw.menu = m
		}
		cw.byName = map[string]txT{}
		for _, t := range cw.w.kmMenu() {
			cw.byName[t.Name] = t
		}
		cw.prefixes = [][]letter{
			cw.L("empty", "empty", "empty"), // committee formed
			cw.L("empty", "empty", "empty", "km-policy(nodes=[],honest)"),
		}
		if !f261 {
			cw.prefixes = append(cw.prefixes, cw.L("empty", "empty", "empty", "km-master(nodes=[0],honest)"))
		}
		if r.Thorough() {
			cw.prefixes = append(cw.prefixes, nil, cw.L("empty", "empty", "empty", "km-ephemeral(nodes=[1],honest)"), cw.L("empty", "empty", "empty", "km-master(nodes=[0],honest)", "km-reg(nodes=[0],honest)"))
		}
		return cw
	}
	cw6, cw7 := kmWorld(false), kmWorld(true)
	worlds := []*c08world{cw0, cw1, cw2, cw3, cw4, cw5, cw6, cw7}
	L := cw0.L
	cw0.prefixes = [][]letter{
		{},
		L("escrow(a1->e1,333)"),
		L("reclaim(a0<-e0,100sh)"),
		L("allow(a0->a1,+30)"),
		L("gov-submit-upgrade(e0)"),
		L("entity1-update nodes=[1,3]"),
		L("entity(a0)-register new"),
		L("transfer(a1->a2,2000=all)"),
		L("evidence=dupvote:1"),
	}
	if r.Thorough() {
		cw0.prefixes = append(cw0.prefixes,
			L("entity1-update nodes=[1,3]", "node3-new for e1"),
			L("gov-submit-upgrade(e0)", "gov-vote(e2,#1,yes)"),
			L("reclaim(a0<-e0,500sh=all)", "escrow(a0->e0,50)"),
			L("allow(a0->a1,+30)", "withdraw(a1<-a0,20)"),
			L("empty", "empty", "reclaim(e1<-e1,1000sh)"),
		)
	}
	cw1.prefixes = [][]letter{{}, cw1.L("escrow(a1->e1,333)"), cw1.L("transfer(a1->a2,2000=all)")}
	cw2.prefixes = [][]letter{
		{},
		cw2.L("submitmsg(a0,fee1,tokens2)"), // queue full
		cw2.L("empty", "empty", "empty"), // committee elected
		cw2.L("empty", "empty", "empty", "submitmsg(a1,fee3,tokens0)"),
		cw2.L("runtime-update(e0,->runtime governance)"),
		cw2.L("runtime-update(e0,max-in-msgs+1)", "submitmsg(a0,fee1,tokens2)"),
	}
	if r.Thorough() {
		cw2.prefixes = append(cw2.prefixes,
			cw2.L("runtime-new(e1)"),
			cw2.L("runtime-update(e0,owner->e1)"),
			cw2.L("runtime-new(e2,runtime governance)", "empty"),
		)
	}
	specs := []rspec{{Name: "P/badger", Path: chain.PathPropose, Backend: "badger"}}
	if r.Replay != "" {
		v, err := ev.LoadReplay(r.Replay)
		if err != nil {
			fmt.Println("cannot load replay:", err)
			os.Exit(2)
		}
		bb, _ := json.Marshal(v.Artefact)
		var a c08Artefact
		_ = json.Unmarshal(bb, &a)
		cw := worlds[a.Variant]
		c := &c08ctx{w: cw.w, prefix: cw.L(a.Prefix...), specs: specs}
		what := c08One(c, cw.byName[a.Tx], a.Gas, cw.menu, a.Mode)
		if what != "" {
			fmt.Printf("VIOLATION property=C08 replay=%s\n  what: %s\n", r.Replay, what)
			os.Exit(1)
		}
		fmt.Println("replay: property held")
		os.Exit(0)
	}
	type job struct {
		wi int
		pi int
		ti int // -1 = burst check
	}
	var jobs []job
	nPrefixes := 0
	for wi, cw := range worlds {
		nPrefixes += len(cw.prefixes)
		for pi := range cw.prefixes {
			if wi != 1 {
				jobs = append(jobs, job{wi, pi, -1})
			}
			for ti := range cw.menu {
				jobs = append(jobs, job{wi, pi, ti})
			}
		}
	}
	ev.ParallelRange(len(jobs), r.Seed, func(ji int) {
		if r.Expired() {
			r.Cap("deadline")
			return
		}
		j := jobs[ji]
		cw := worlds[j.wi]
		menu := cw.menu
		c := &c08ctx{w: cw.w, prefix: cw.prefixes[j.pi], specs: specs}
		var pn []string
		for _, l := range c.prefix {
			pn = append(pn, l.Name)
		}
		report := func(t string, gas uint64, mode, what string) {
			if what == "" || what == "prefix-failed" {
				return
			}
			if strings.HasPrefix(what, "harness:") {
				r.HarnessError("%s [prefix %v tx %s]", what, pn, t)
				return
			}
			r.Violate(ev.Violation{Engine: "chainmc", Key: fmt.Sprintf("c08 %s genesis#%d prefix=%v tx=%s gas=%d", mode, j.wi, pn, t, gas), What: fmt.Sprintf("genesis variant %d, pre-state [%s], transaction %s with gas limit %d: %s", j.wi, strings.Join(pn, " | "), t, gas, what), Artefact: c08Artefact{Variant: j.wi, Prefix: pn, Tx: t, Gas: gas, Mode: mode}})
		}
		if j.ti < 0 {
			report("<burst>", 0, "burst", c08One(c, txT{}, 0, menu, "burst"))
			r.Add("transitions", 2)
			return
		}
		t := menu[j.ti]
		// plenty of gas first: learn the gas the transaction needs
		tt := t
		tt.Gas = 10000
		_, code, gasUsed, _, what := c.after(letter{Name: t.Name, Txs: []txT{tt}}, &tt, nil)
		r.Add("transitions", 1)
		if what != "" {
			report(t.Name, 10000, "atomic", what)
			return
		}
		r.Outcome(fmt.Sprintf("%s code=%d gas=%d", t.Name, code, gasUsed))
		gases := []uint64{10000}
		if gasUsed > 0 && gasUsed <= 12 {
			for g := uint64(0); g < uint64(gasUsed); g++ {
				gases = append(gases, g)
			}
		} else {
			gases = append(gases, 0, 1)
		}
		for _, g := range gases {
			report(t.Name, g, "atomic", c08One(c, t, g, menu, "atomic"))
			r.Add("transitions", 3)
			r.Add("tx_executions", 1)
		}
		if gasUsed > 12 {
			// large gas costs: walk down the exhaustion points. A limit one below what was used makes the
			// last charge fail; the gas reported then is the sum of the earlier charges, and so on.
			for g, steps := gasUsed-1, 0; g > 1 && steps < 16; steps++ {
				what, used := c08OneG(c, t, uint64(g), menu, "atomic")
				report(t.Name, uint64(g), "atomic", what)
				r.Add("transitions", 3)
				r.Add("tx_executions", 1)
				r.Add("gas_exhaustion_points_walked", 1)
				gases = append(gases, uint64(g))
				if used <= 0 || used > g {
					break
				}
				if used == g {
					g-- // the limit was reached exactly: step below it
				} else {
					g = used - 1
				}
			}
		}
		if ji%37 == 0 {
			r.Sample(map[string]any{"pre_state": pn, "tx": t.Name, "gas_limits": gases, "code_with_plenty_gas": code}, 6)
		}
	})
	r.Add("states", int64(nPrefixes))
	r.Set("transactions_in_menu", len(cw0.menu))
	r.Set("transactions_in_runtime_menu", len(cw2.menu))
	r.Set("transactions_in_vault_menu", len(cw3.menu))
	r.Set("pre_states", nPrefixes)
	r.Alias("traces_validated_against_impl", "transitions")
	r.Set("rule", "for every pre-state (genesis and scripted prefixes: delegation, debonding in flight, allowance, open proposal, updated entity, new entity, drained account, slashed validator) and every transaction of the menu (all staking methods, governance, registry entity/node incl. key swaps and wrong signers, beacon, roothash, vault; with the runtime genesis also roothash.SubmitMsg into a full / non-full queue, with fee below the minimum, without funds, registry.RegisterRuntime updates by owner and non-owner, governance-model transitions, new runtimes, executor commits and evidence; in the vault universe vault creation, actions of every kind (withdraw policy, suspend / resume, authority update, execute-message with succeeding and failing inner staking transactions) by right and wrong authorities and nonces, pending actions under a 2-of-2 authority, cancellation, and staking withdrawals through the vault's withdraw hook within / above policy and balance; valid and invalid in one respect) and every gas limit 0..needed: replica X executes [t], twin Y the empty block, twin Z a trivially atomic failing transaction of the same signer with the same fee, gas and nonce (undecodable body); if t fails: the signer's nonce did not advance => dump(X) = dump(Y), else dump(X) = dump(Z) (full key/value dump of the consensus state). Independently a burst of CheckTx + EstimateGas of the whole menu before an empty block leaves the dump equal to the twin without the burst")
	r.Assume("MaxBlockGas = 0 so that a failed transaction's gas cannot legitimately affect the rest of the block", "transactions the harness cannot construct validly (TEE-attested nodes, valid executor commitments, key manager and CHURP methods) are not in the menu")
	r.Finish()
}

// c08One evaluates one (pre-state, tx, gas) case.
func c08One(c *c08ctx, t txT, gas uint64, menu []txT, mode string) string {
	w, _ := c08OneG(c, t, gas, menu, mode)
	return w
}

// c08OneG also returns the gas that the transaction under test reported as used.
func c08OneG(c *c08ctx, t txT, gas uint64, menu []txT, mode string) (string, int64) {
	yDump, _, what := c.emptyTwin(nil)
	if what != "" {
		return what, 0
	}
	if mode == "burst" {
		bDump, _, _, _, what := c.after(letter{Name: "empty"}, nil, menu)
		if what != "" {
			return what, 0
		}
		if d := dumpDiff(bDump, yDump); d != "" {
			return "a burst of CheckTx and EstimateGas calls changed committed state:" + d, 0
		}
		return "", 0
	}
	// signer's nonce before
	t.Gas = gas
	if gas == 0 {
		t.Gas = 0
	}
	tx := t
	if gas == 0 {
		// gas limit 0 must be expressible: buildBlock treats 0 as "plenty", so use an explicit fee
		tx.Gas = 0
	}
	xDump, code, gasX, nonceX, what := c.after(letter{Name: t.Name, Txs: []txT{withGas(tx, gas)}}, &tx, nil)
	if what != "" {
		return what, gasX
	}
	if code == 0 {
		return "", gasX
	}
	_, nonceY, _ := c.emptyTwin(&tx)
	if nonceX == nonceY {
		if d := dumpDiff(xDump, yDump); d != "" {
			return fmt.Sprintf("failed (code %d) without advancing the nonce, yet the state differs from the state without it:%s", code, d), gasX
		}
		return "", gasX
	}
	if nonceX != nonceY+1 {
		return fmt.Sprintf("failed (code %d) and the signer's nonce went from %d to %d", code, nonceY, nonceX), gasX
	}
	t0 := txT{Name: "atomic-failing-twin", Signer: t.Signer, Method: staking.MethodTransfer, Body: cbor.RawMessage([]byte{0x61, 0x78}), FeeAmt: t.FeeAmt, NoFee: t.NoFee}
	zDump, zcode, _, _, what := c.after(letter{Name: "twin", Txs: []txT{withGas(t0, gas)}}, &t0, nil)
	if what != "" {
		return what, gasX
	}
	if zcode == 0 {
		return "harness: the atomic failing twin succeeded", gasX
	}
	if d := dumpDiff(xDump, zDump); d != "" {
		return fmt.Sprintf("failed (code %d) but left more than fee and nonce behind; difference to a twin that only paid the fee and advanced the nonce:%s", code, d), gasX
	}
	return "", gasX
}

// withGas sets an exact gas limit (buildBlock interprets Gas==0 as "plenty").
func withGas(t txT, gas uint64) txT {
	t.Gas = gas
	if gas == 0 {
		t.Gas = 0
		t.ExactGas = true
	}
	return t
}
