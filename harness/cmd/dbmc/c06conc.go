package main

import (
	"encoding/json"
	"fmt"
	"os"
	"strings"
	"time"

	"github.com/oasisprotocol/oasis-core/go/storage/mkvs"
	dbapi "github.com/oasisprotocol/oasis-core/go/storage/mkvs/db/api"
	"github.com/oasisprotocol/oasis-core/go/storage/mkvs/node"
	"github.com/oasisprotocol/oasis-core/go/verifshim/sched"

	"verif/harness/internal/conc"
	"verif/harness/internal/ev"
	"verif/harness/internal/kv"
)

// C06, concurrency phase: "reads at a retained version are unaffected by
// commits, finalization and pruning running concurrently".  A prefix history
// is executed sequentially on a fresh database; then controlled threads run
// concurrently: writers (committer/finalizer, pruner) executing letters of
// the history alphabet and readers reading finalized roots that stay retained
// during the whole scenario.  Every schedule with at most `bound` preemptions
// at the node database's locks, reads and durable writes is executed.

type c06concPlan struct {
	Name    string
	Prefix  []L
	Writers [][]L
	// Read lists the versions whose finalized state root each reader reads
	// (they must stay retained); one reader thread per entry.
	Read [][]uint64
	// ReadCandidate: one more reader reads the first candidate the writer commits to the next
	// version (batch name), which the finalize then discards: absent, an error, or exactly its
	// own contents - never other contents.
	ReadCandidate string
}

func c06concPlans(thorough bool) []c06concPlan {
	c := func(v uint64, b string) L { return L{Op: "commit", V: v, Batch: b} }
	f := func(v uint64, ch int) L { return L{Op: "finalize", V: v, Choice: ch} }
	p := func(v uint64) L { return L{Op: "prune", V: v} }
	three := []L{c(1, "add"), f(1, 0), c(2, "add"), f(2, 0), c(3, "mod"), f(3, 0)}
	plans := []c06concPlan{
		{Name: "prune(v1) | read v2", Prefix: three, Writers: [][]L{{p(1)}}, Read: [][]uint64{{2}}},
		{Name: "prune(v1) prune(v2) | read v3", Prefix: three, Writers: [][]L{{p(1), p(2)}}, Read: [][]uint64{{3}}},
		{Name: "commit(v3,del) commit(v3,mod) finalize(v3,#1) | read v2", Prefix: three[:4], Writers: [][]L{{c(3, "del"), c(3, "mod"), f(3, 1)}}, Read: [][]uint64{{2}}},
		{Name: "commit(v3,del) commit(v3,mod) finalize(v3,#1) | read discarded candidate", Prefix: three[:4], Writers: [][]L{{c(3, "del"), c(3, "mod"), f(3, 1)}}, ReadCandidate: "del"},
		// larger candidates (internal nodes on both sides), the finalized one committed second
		{Name: "commit(v3,mod) commit(v3,del) finalize(v3,#1) | read discarded candidate (3-key trees)", Prefix: []L{c(1, "add2"), f(1, 0), c(2, "mod"), f(2, 0)}, Writers: [][]L{{c(3, "mod"), c(3, "del"), f(3, 1)}}, ReadCandidate: "mod"},
		// two candidates of the same shape that differ only in their leaf values
		{Name: "commit(v3,mod) commit(v3,modall) finalize(v3,#1) | read discarded candidate (same shape)", Prefix: []L{c(1, "add2"), f(1, 0), c(2, "mod"), f(2, 0)}, Writers: [][]L{{c(3, "mod"), c(3, "modall"), f(3, 1)}}, ReadCandidate: "mod"},
		{Name: "commit(v3,modall2) commit(v3,modall) finalize(v3,#1) | read discarded candidate (same shape, every node rewritten)", Prefix: []L{c(1, "add2"), f(1, 0), c(2, "mod"), f(2, 0)}, Writers: [][]L{{c(3, "modall2"), c(3, "modall"), f(3, 1)}}, ReadCandidate: "modall2"},
		{Name: "commit(v3,modall) commit(v3,mod) finalize(v3,#1) | read v2 | read discarded candidate (same shape)", Prefix: []L{c(1, "add2"), f(1, 0), c(2, "mod"), f(2, 0)}, Writers: [][]L{{c(3, "modall"), c(3, "mod"), f(3, 1)}}, Read: [][]uint64{{2}}, ReadCandidate: "modall"},
		{Name: "commit(v3,readd) finalize(v3) | read v2", Prefix: three[:4], Writers: [][]L{{c(3, "readd"), f(3, 0)}}, Read: [][]uint64{{2}}},
		{Name: "del/readd history: prune(v1) | read v3", Prefix: []L{c(1, "add2"), f(1, 0), c(2, "del"), f(2, 0), c(3, "add"), f(3, 0)}, Writers: [][]L{{p(1)}}, Read: [][]uint64{{3}}},
		{Name: "commit(v4,add) finalize(v4) | prune(v1) | read v2", Prefix: three, Writers: [][]L{{c(4, "add"), f(4, 0)}, {p(1)}}, Read: [][]uint64{{2}}},
	}
	cio := func(v uint64, b string) L { return L{Op: "commit", V: v, Batch: b, Type: "io"} }
	fio := func(v uint64, ch int) L { return L{Op: "finalize", V: v, Choice: ch, IO: 1} }
	plans = append(plans,
		// IO root next to the state root, finalized together, while the previous version is read
		c06concPlan{Name: "commit(v3,mod) commit(v3,add,io) finalize(v3,#0,io#0) | read v2", Prefix: three[:4], Writers: [][]L{{c(3, "mod"), cio(3, "add"), fio(3, 0)}}, Read: [][]uint64{{2}}},
	)
	if thorough {
		mp := []L{{Op: "mpstart", V: 5}}
		if st, err := makeCheckpoint(5); err == nil {
			for i := range st.chunks {
				mp = append(mp, L{Op: "mpchunk", V: 5, Chunk: i})
			}
		}
		mp = append(mp, L{Op: "mpfinalize", V: 5})
		plans = append(plans,
			// a checkpoint restore jumping forward while an old retained version is read
			c06concPlan{Name: "restore(v5) | read v2", Prefix: three[:4], Writers: [][]L{mp}, Read: [][]uint64{{2}}},
			c06concPlan{Name: "commit(v3,add) commit(v3,add2,io) finalize(v3,#0) (io discarded) | read v2", Prefix: three[:4], Writers: [][]L{{c(3, "add"), cio(3, "add2"), f(3, 0)}}, Read: [][]uint64{{2}}},
		)
	}
	if thorough {
		plans = append(plans,
			c06concPlan{Name: "commit(v4,clear) finalize(v4) | prune(v1) prune(v2) | read v3", Prefix: three, Writers: [][]L{{c(4, "clear"), f(4, 0)}, {p(1), p(2)}}, Read: [][]uint64{{3}}},
			c06concPlan{Name: "prune(v1) | read v2 | read v3", Prefix: three, Writers: [][]L{{p(1)}}, Read: [][]uint64{{2}, {3}}},
			c06concPlan{Name: "commit(v3,add) commit(v3,del) finalize(v3,#0) | read v1 v2", Prefix: three[:4], Writers: [][]L{{c(3, "add"), c(3, "del"), f(3, 0)}}, Read: [][]uint64{{1, 2}}},
		)
	}
	return plans
}

// c06racePlan: two committers build competing candidates of the same version
// concurrently; the second one finalizes its own candidate.  The loser's
// commit may be refused (version already finalized) or accepted and discarded.
type c06racePlan struct {
	Name   string
	Prefix []L
	A, B   string // batch names
	Read   []uint64
}

func c06racePlans(thorough bool) []c06racePlan {
	c := func(v uint64, b string) L { return L{Op: "commit", V: v, Batch: b} }
	f := func(v uint64, ch int) L { return L{Op: "finalize", V: v, Choice: ch} }
	two := []L{c(1, "add"), f(1, 0), c(2, "add"), f(2, 0)}
	plans := []c06racePlan{
		{Name: "race commit(v3,add) | commit(v3,del)+finalize(own)", Prefix: two, A: "add", B: "del"},
		{Name: "race commit(v3,mod) | commit(v3,add)+finalize(own) | read v2", Prefix: two, A: "mod", B: "add", Read: []uint64{2}},
	}
	if thorough {
		plans = append(plans,
			c06racePlan{Name: "race commit(v3,clear) | commit(v3,mod)+finalize(own)", Prefix: two, A: "clear", B: "mod"},
			c06racePlan{Name: "race commit(v3,readd) | commit(v3,del)+finalize(own)", Prefix: two, A: "readd", B: "del"},
			c06racePlan{Name: "race commit(v2,add) | commit(v2,mod)+finalize(own)", Prefix: two[:2], A: "add", B: "mod"},
		)
	}
	return plans
}

// commitCandidate builds a candidate of version v from the finalized parent and commits it.
func commitCandidate(e *env, parent node.Root, base kv.Contents, v uint64, batch string) (node.Root, kv.Contents, error) {
	var t mkvs.Tree
	if parent.Hash.IsEmpty() {
		t = mkvs.New(nil, e.ndb, node.RootTypeState)
	} else {
		t = mkvs.NewWithRoot(nil, e.ndb, parent)
	}
	defer t.Close()
	c := base.Clone()
	for _, o := range batchOps(batch, base) {
		if o[1] == nil {
			if err := t.Remove(kv.Ctx, o[0]); err != nil {
				return node.Root{}, nil, err
			}
			delete(c, string(o[0]))
		} else {
			if err := t.Insert(kv.Ctx, o[0], o[1]); err != nil {
				return node.Root{}, nil, err
			}
			c[string(o[0])] = o[1]
		}
	}
	_, h, err := t.Commit(kv.Ctx, kv.Namespace, v)
	if err != nil {
		return node.Root{}, c, err
	}
	return kv.RootFor(v, node.RootTypeState, h), c, nil
}

func c06raceInstance(backend string, pl c06racePlan) (*conc.Instance, error) {
	e, err := openEnv(backend, "")
	if err != nil {
		return nil, err
	}
	for _, l := range pl.Prefix {
		if w := e.apply(l); w != "" {
			e.ndb.Close()
			return nil, fmt.Errorf("prefix: %s", w)
		}
	}
	v := e.ref.last + 1
	parent, base := e.ref.stateParent(v)
	inst := &conc.Instance{Close: func() { e.ndb.Close() }}
	var problems, outcome conc.Notes
	var rootA, rootB node.Root
	var contA, contB kv.Contents
	var errA error
	inst.Bodies = append(inst.Bodies, func() {
		rootA, contA, errA = commitCandidate(e, parent, base, v, pl.A)
		if errA != nil {
			outcome.Add("%s", "A refused")
		} else {
			outcome.Add("%s", "A committed")
		}
	})
	inst.Bodies = append(inst.Bodies, func() {
		var err error
		rootB, contB, err = commitCandidate(e, parent, base, v, pl.B)
		if err != nil {
			problems.Add("commit of the candidate that is going to be finalized failed: %v", err)
			return
		}
		if err := e.ndb.Finalize([]node.Root{rootB}); err != nil {
			problems.Add("finalize of the own candidate failed: %v", err)
			return
		}
		outcome.Add("%s", "B finalized")
	})
	type target struct {
		root     node.Root
		contents kv.Contents
	}
	var targets []target
	for _, rv := range pl.Read {
		for _, fr := range e.ref.finalized[rv] {
			targets = append(targets, target{fr.root, fr.contents})
		}
	}
	if len(targets) > 0 {
		inst.Bodies = append(inst.Bodies, func() {
			for _, t := range targets {
				got, err := readTree(e.ndb, t.root)
				if err != nil {
					problems.Add("retained finalized root of version %d is not fully readable while candidates race: %v", t.root.Version, err)
					return
				}
				if !got.Equal(t.contents) {
					problems.Add("retained finalized root of version %d reads back %s instead of %s while candidates race", t.root.Version, got, t.contents)
					return
				}
			}
		})
	}
	inst.Outcome = func() string { return strings.Join(outcome.List(), " ") }
	inst.Final = func(_ *sched.Result) string {
		if problems.Len() > 0 {
			return strings.Join(problems.List(), "; ")
		}
		// reference: B is the finalized root of v; A (if its commit was accepted and it differs) is a discarded candidate.
		rb := &refRoot{root: rootB, contents: contB}
		e.ref.cands[v] = []*refRoot{rb}
		chosen := []*refRoot{rb}
		if errA == nil && !rootA.Equal(&rootB) {
			e.ref.cands[v] = append(e.ref.cands[v], &refRoot{root: rootA, contents: contA})
		}
		e.ref.noteFinalized(v, chosen)
		if w := e.readBack(); w != "" {
			return "after both committers finished: " + w
		}
		// the database must stay usable: one more version on top
		for _, l := range []L{{Op: "commit", V: v + 1, Batch: "mod"}, {Op: "finalize", V: v + 1}} {
			if w := e.apply(l); w != "" {
				return "continuing after the race: " + w
			}
		}
		if w := e.readBack(); w != "" {
			return "after one more version: " + w
		}
		return ""
	}
	return inst, nil
}

func c06concScenarios(r *ev.Run) []conc.Scenario {
	bound := 2
	if r.Thorough() {
		bound = 3
	}
	var scs []conc.Scenario
	for _, pl := range c06racePlans(r.Thorough()) {
		for _, be := range kv.Backends {
			pl, be := pl, be
			b := bound
			if len(pl.Read) > 0 && b > 2 {
				b = 2 // three threads
			}
			scs = append(scs, conc.Scenario{
				Name:  fmt.Sprintf("c06 %s [%s] then %s", be, historyString(pl.Prefix), pl.Name),
				Key:   fmt.Sprintf("c06 %s %s", be, pl.Name),
				Bound: b,
				New:   func() (*conc.Instance, error) { return c06raceInstance(be, pl) },
			})
		}
	}
	for _, pl := range c06concPlans(r.Thorough()) {
		for _, be := range kv.Backends {
			pl, be := pl, be
			b := bound
			scs = append(scs, conc.Scenario{
				Name:       fmt.Sprintf("c06 %s [%s] then %s", be, historyString(pl.Prefix), pl.Name),
				Key:        fmt.Sprintf("c06 %s %s", be, pl.Name),
				Bound:      b,
				New:        func() (*conc.Instance, error) { return c06concInstance(be, pl) },
				RaceUnsafe: len(pl.Writers) > 1,
			})
		}
	}
	return scs
}

func c06concInstance(backend string, pl c06concPlan) (*conc.Instance, error) {
	e, err := openEnv(backend, "")
	if err != nil {
		return nil, err
	}
	for _, l := range pl.Prefix {
		if !e.applicable(l) {
			e.ndb.Close()
			return nil, fmt.Errorf("prefix letter %s not applicable", l)
		}
		if w := e.apply(l); w != "" {
			e.ndb.Close()
			return nil, fmt.Errorf("prefix: %s", w)
		}
	}
	inst := &conc.Instance{Close: func() { e.ndb.Close() }}
	var problems, outcome conc.Notes
	nW := len(pl.Writers)
	for wi, letters := range pl.Writers {
		letters := letters
		// A single writer's reads commute with the readers' reads; with two writers they do not.
		conc.QuietReads(wi, nW == 1)
		inst.Bodies = append(inst.Bodies, func() {
			for _, l := range letters {
				if !e.applicable(l) {
					problems.Add("harness: letter %s not applicable", l)
					return
				}
				if w := e.apply(l); w != "" {
					problems.Add("%s", w)
					return
				}
				outcome.Add("%s", l.String())
			}
		})
	}
	for _, versions := range pl.Read {
		type target struct {
			root     node.Root
			contents kv.Contents
		}
		var targets []target
		for _, v := range versions {
			for _, fr := range e.ref.finalized[v] {
				targets = append(targets, target{fr.root, fr.contents})
			}
		}
		inst.Bodies = append(inst.Bodies, func() {
			for _, t := range targets {
				if !e.ndb.HasRoot(t.root) {
					problems.Add("retained finalized root of version %d is reported absent while other threads write", t.root.Version)
					return
				}
				got, err := readTree(e.ndb, t.root)
				if err != nil {
					problems.Add("retained finalized root %s of version %d (%s) is not fully readable while other threads write: %v", t.root.Hash, t.root.Version, t.contents, err)
					return
				}
				if !got.Equal(t.contents) {
					problems.Add("retained finalized root of version %d reads back %s instead of %s while other threads write", t.root.Version, got, t.contents)
					return
				}
				outcome.Add("read(v%d)", t.root.Version)
			}
		})
	}
	if pl.ReadCandidate != "" {
		v := e.ref.last + 1
		_, base := e.ref.stateParent(v)
		cc := base.Clone()
		for _, o := range batchOps(pl.ReadCandidate, base) {
			if o[1] == nil {
				delete(cc, string(o[0]))
			} else {
				cc[string(o[0])] = o[1]
			}
		}
		croot := kv.RootFor(v, node.RootTypeState, kv.CanonicalRoot(cc))
		inst.Bodies = append(inst.Bodies, func() {
			for i := 0; i < 2; i++ {
				if !e.ndb.HasRoot(croot) {
					outcome.Add("candidate absent")
					continue
				}
				// plain reads (iteration, then every key) as a local reader does them: no proof
				// verification that would turn foreign contents into an error
				got, err := readPlain(e.ndb, croot)
				switch {
				case err != nil:
					outcome.Add("candidate unreadable")
				case !got.Equal(cc):
					// classify: a torn read that lost some of the candidate's own entries, or foreign contents
					class := "torn-read-of-discarded-candidate"
					for k, val := range got {
						if own, ok := cc[k]; !ok || string(own) != string(val) {
							class = "foreign-contents-under-discarded-candidate"
						}
					}
					problems.Add("[[%s]] candidate root %s of version %d, which the database reports present, reads back %s while it is being discarded; its own contents are %s", class, croot.Hash, v, got, cc)
					return
				default:
					outcome.Add("candidate read")
				}
			}
		})
	}
	inst.Outcome = func() string { return strings.Join(outcome.List(), " ") }
	inst.Final = func(_ *sched.Result) string {
		if problems.Len() > 0 {
			return strings.Join(problems.List(), "; ")
		}
		if w := e.readBack(); w != "" {
			return "after all threads finished: " + w
		}
		return ""
	}
	return inst, nil
}

func runC06Conc(r *ev.Run) {
	thoroughTier = r.Thorough()
	if r.Replay != "" {
		v, err := ev.LoadReplay(r.Replay)
		if err != nil {
			fmt.Println("cannot load replay:", err)
			os.Exit(2)
		}
		if strings.Contains(v.Key, "held-reader") {
			// the sequential held-reader histories are few: run them all again
			r.NoWrite = true
			c06HeldReaders(r)
			if r.NumViolations() > 0 {
				fmt.Printf("VIOLATION property=C06 replay=%s\n  what: held-reader histories fail again (see the check's output)\n", r.Replay)
				os.Exit(1)
			}
			fmt.Println("replay: property held")
			os.Exit(0)
		}
		what, err := conc.Replay(c06concScenarios(r), v.Artefact)
		if err != nil {
			fmt.Println("replay:", err)
			os.Exit(2)
		}
		if what != "" {
			fmt.Printf("VIOLATION property=C06 replay=%s\n  what: %s\n", r.Replay, what)
			os.Exit(1)
		}
		fmt.Println("replay: property held")
		os.Exit(0)
	}
	if os.Getenv("VERIF_PHASE") == "race" {
		it := 10
		if r.Thorough() {
			it = 40
		}
		conc.RaceRun(r, c06concScenarios(r), it)
		r.Set("race_rule", "free-running race-detector pass over the concurrency scenarios of the conc phase (same thread bodies as ordinary goroutines in a -race build); scenarios with two writer threads are skipped (the harness's reference model is shared between them)")
		r.Finish()
	}
	r.Fork(ev.Workers())
	c06HeldReaders(r)
	scs := c06concScenarios(r)
	conc.Explore(r, "dbmc-conc", scs)
	if r.Thorough() {
		// beyond the claimed bound: one more preemption for as long as the time budget lasts
		conc.ExploreExtra(r, "dbmc-conc", scs, r.Start.Add(12*time.Minute))
	}
	b := 2
	if r.Thorough() {
		b = 3
	}
	r.Set("conc_preemption_bound", b)
	r.Set("conc_rule", "concurrent readers against committer / finalizer / pruner: after a sequential prefix history, 2-3 controlled threads run on the real node database (badger and pathbadger): writer threads execute letters (commit of competing candidates, finalize discarding one, prune of one or two versions; committer and pruner as separate threads), reader threads read finalized roots that stay retained (HasRoot, full iteration, gets, verified proofs) and must see exactly the reference contents; every schedule with at most conc_preemption_bound preemptions (thorough: 3 for two threads, 2 for three threads; one more preemption each is explored for the rest of a 12-minute budget, reported as conc_extra_*) at the database's locks, reads and durable writes is executed; afterwards the sequential read-back oracle is applied to the final state")
	r.Assume("concurrency phase: threads are preempted only at lock acquisitions of the node database and at badger reads / durable writes; a single writer's own reads are not scheduling points (they commute with the readers' reads); badger's internal goroutines run freely (they do not change logical contents)")
	r.Finish()
	_ = json.Marshal
}

// readPlain reads a root through one tree object: full iteration, then a get per key.
func readPlain(ndb dbapi.NodeDB, root node.Root) (c kv.Contents, err error) {
	defer func() {
		if p := recover(); p != nil {
			err = fmt.Errorf("panic: %v", p)
		}
	}()
	t := mkvs.NewWithRoot(nil, ndb, root, mkvs.Capacity(3, 0))
	defer t.Close()
	c, _, err = kv.TreeContents(t)
	if err != nil {
		return nil, err
	}
	for _, k := range dbKeys {
		v, gerr := t.Get(kv.Ctx, k)
		if gerr != nil {
			return nil, gerr
		}
		if v != nil {
			c[string(k)] = v
		} else {
			delete(c, string(k))
		}
	}
	return c, nil
}

// c06HeldReaders: sequential histories with a long-lived tree handle.  A reader opens a tree at a
// candidate root and reads one key; then the other candidate is finalized (or an old version is
// pruned); then the reader continues with the same handle.  Every later answer must be an error
// or the handle's own value - never another root's.
func c06HeldReaders(r *ev.Run) {
	c := func(v uint64, b string) L { return L{Op: "commit", V: v, Batch: b} }
	f := func(v uint64, ch int) L { return L{Op: "finalize", V: v, Choice: ch} }
	type plan struct {
		name   string
		prefix []L
		a, b   string // candidate batches of the next version; the handle is on a, b is finalized
	}
	plans := []plan{
		{"held handle on the discarded candidate (same shape)", []L{c(1, "add2"), f(1, 0), c(2, "mod"), f(2, 0)}, "modall2", "modall"},
		{"held handle on the discarded candidate (different shape)", []L{c(1, "add2"), f(1, 0), c(2, "mod"), f(2, 0)}, "mod", "del"},
		{"held handle on the discarded candidate (b committed first)", []L{c(1, "add2"), f(1, 0)}, "modall", "modall2"},
	}
	items := 0
	for _, be := range kv.Backends {
		for pi, pl := range plans {
			for first := 0; first < len(dbKeys); first++ {
				items++
				if (items-1)%16 != shardIndex() {
					continue
				}
				what := func() (what string) {
					defer func() {
						if p := recover(); p != nil {
							what = fmt.Sprintf("panic: %v", p)
						}
					}()
					e, err := openEnv(be, "")
					if err != nil {
						return "harness: " + err.Error()
					}
					defer e.ndb.Close()
					for _, l := range pl.prefix {
						if w := e.apply(l); w != "" {
							return "harness: prefix: " + w
						}
					}
					v := e.ref.last + 1
					parent, base := e.ref.stateParent(v)
					order := []string{pl.a, pl.b}
					if pi == 2 {
						order = []string{pl.b, pl.a}
					}
					roots := map[string]node.Root{}
					conts := map[string]kv.Contents{}
					for _, bn := range order {
						rt, cc, err := commitCandidate(e, parent, base, v, bn)
						if err != nil {
							return "harness: commit: " + err.Error()
						}
						roots[bn], conts[bn] = rt, cc
					}
					t := mkvs.NewWithRoot(nil, e.ndb, roots[pl.a], mkvs.Capacity(0, 0))
					defer t.Close()
					own := conts[pl.a]
					check := func(k []byte, when string) string {
						val, err := t.Get(kv.Ctx, k)
						if err != nil {
							return ""
						}
						want, ok := own[string(k)]
						if (val == nil) != !ok || (ok && string(val) != string(want)) {
							return fmt.Sprintf("%s: Get(%x) through a handle on candidate %s returned %q, the candidate holds %q (present=%v)", when, k, pl.a, val, want, ok)
						}
						return ""
					}
					if w := check(dbKeys[first], "before the other candidate is finalized"); w != "" {
						return w
					}
					if err := e.ndb.Finalize([]node.Root{roots[pl.b]}); err != nil {
						return "harness: finalize: " + err.Error()
					}
					for _, k := range dbKeys {
						if w := check(k, "after the other candidate was finalized"); w != "" {
							return w
						}
					}
					return ""
				}()
				r.Add("transitions", 1)
				r.Add("held_reader_histories", 1)
				if what == "" {
					continue
				}
				if strings.HasPrefix(what, "harness:") {
					r.HarnessError("%s [%s %s]", what, be, pl.name)
					continue
				}
				r.Violate(ev.Violation{Engine: "dbmc-conc", Key: fmt.Sprintf("c06 held-reader %s %s first=%x", be, pl.name, dbKeys[first]), What: fmt.Sprintf("%s, %s, first key %x: %s", be, pl.name, dbKeys[first], what), Artefact: conc.Artefact{Scenario: "held-reader"}})
			}
		}
	}
}

// shardIndex is this process's shard (0 when not forked).
func shardIndex() int {
	var k, n int
	if _, err := fmt.Sscanf(os.Getenv("VERIF_SHARD"), "%d/%d", &k, &n); err == nil && n > 0 {
		return k % 16
	}
	return 0
}
