package main

import (
	"encoding/json"
	"fmt"
	"os"
	"os/exec"
	"path/filepath"
	"sort"
	"strings"
	"sync"
	"sync/atomic"

	"github.com/dgraph-io/badger/v4/verifhook"

	"github.com/oasisprotocol/oasis-core/go/storage/mkvs/node"

	"verif/harness/internal/ev"
)

// C07: crash at every durable-write boundary of every storage operation.

type crashSpec struct {
	Backend string `json:"backend"`
	Dir     string `json:"dir"`
	History []L    `json:"history"`
	Pos     int    `json:"pos"`    // letter to interrupt
	K       int    `json:"k"`      // exit right after the K-th durable write of that letter (0 = never, count only)
	Crash2  int    `json:"crash2"` // thorough: second crash at the K2-th durable write of the retry (0 = none)
}

// crashChild: `dbmc crash-child <spec.json>`; replays History[:Pos] on the
// on-disk database, then runs letter Pos and dies (exit 77) right after its
// K-th durable write. Prints "N=<n>" and exits 0 when the letter completes.
func crashChild() {
	b, err := os.ReadFile(os.Args[2])
	if err != nil {
		fmt.Println("child: ", err)
		os.Exit(3)
	}
	var sp crashSpec
	if err := json.Unmarshal(b, &sp); err != nil {
		fmt.Println("child: ", err)
		os.Exit(3)
	}
	e, err := openEnv(sp.Backend, sp.Dir)
	if err != nil {
		fmt.Println("child: open: ", err)
		os.Exit(3)
	}
	for i := 0; i < sp.Pos; i++ {
		if !e.applicable(sp.History[i]) {
			fmt.Printf("child: letter %s not applicable\n", sp.History[i])
			os.Exit(3)
		}
		if w := e.apply(sp.History[i]); w != "" {
			fmt.Println("child: prefix failed: ", w)
			os.Exit(3)
		}
	}
	var count atomic.Int64
	hook := func(kind string) {
		n := count.Add(1)
		if sp.K > 0 && int(n) == sp.K {
			os.Exit(77)
		}
	}
	verifhook.Durable.Store(&hook)
	if w := e.apply(sp.History[sp.Pos]); w != "" {
		fmt.Println("child: letter failed: ", w)
		os.Exit(4)
	}
	verifhook.Durable.Store(nil)
	fmt.Printf("N=%d\n", count.Load())
	e.ndb.Close()
	os.Exit(0)
}

func runChild(sp crashSpec, scratch string) (exit int, n int, out string) {
	b, _ := json.Marshal(sp)
	f := filepath.Join(scratch, "spec.json")
	_ = os.WriteFile(f, b, 0o644)
	cmd := exec.Command(os.Args[0], "crash-child", f)
	cmd.Env = append(os.Environ(), "GOMAXPROCS=2")
	o, err := cmd.CombinedOutput()
	out = string(o)
	if err != nil {
		if ee, ok := err.(*exec.ExitError); ok {
			exit = ee.ExitCode()
		} else {
			exit = -1
		}
	}
	if i := strings.LastIndex(out, "N="); i >= 0 {
		fmt.Sscanf(out[i:], "N=%d", &n)
	}
	return
}

// recover runs the recovery side of one crash case in this process: reopen,
// check, retry, compare with the uninterrupted reference, continue.
func recoverAndCheck(sp crashSpec) (what string) { return recoverAndCheckUpTo(sp, false) }

// recoverChild: `dbmc recover-child <spec.json>`; second crash of a case.  The
// database in Dir was left by a first crash; this process reopens it and
// retries the interrupted operation exactly as the parent would, and dies
// (exit 77) right after the Crash2-th durable write of reopen + retry.  Exit 0
// when recovery and retry complete first (no such boundary).
func recoverChild() {
	b, err := os.ReadFile(os.Args[2])
	if err != nil {
		fmt.Println("child: ", err)
		os.Exit(3)
	}
	var sp crashSpec
	if err := json.Unmarshal(b, &sp); err != nil {
		fmt.Println("child: ", err)
		os.Exit(3)
	}
	var count atomic.Int64
	hook := func(kind string) {
		if sp.Crash2 > 0 && int(count.Add(1)) == sp.Crash2 {
			os.Exit(77)
		}
	}
	armCrash2 = func() { verifhook.Durable.Store(&hook) }
	_ = recoverAndCheckUpTo(sp, true) // a violation here is a single-crash violation, reported by the single-crash phase
	verifhook.Durable.Store(nil)
	os.Exit(0)
}

// armCrash2, if set, is called right before the on-disk database is reopened.
var armCrash2 func()

func recoverAndCheckUpTo(sp crashSpec, stopAfterRetry bool) (what string) {
	defer func() {
		if p := recover(); p != nil {
			what = fmt.Sprintf("panic during recovery: %v", p)
		}
	}()
	// Reference before the interrupted letter: replay the prefix on a scratch memory database.
	refEnv, w := runHistory(sp.Backend, sp.History[:sp.Pos], false)
	if refEnv == nil || w != "" {
		return "harness: reference replay failed: " + w
	}
	refEnv.ndb.Close()
	if armCrash2 != nil {
		armCrash2()
	}
	e, err := openEnv(sp.Backend, sp.Dir)
	if err != nil {
		return "reopening the database after the crash failed: " + err.Error()
	}
	defer e.ndb.Close()
	e.ref = refEnv.ref
	l := sp.History[sp.Pos]
	// (3) nothing of an unfinished multipart restore is visible as finalized.
	// (1) every previously finalized version is intact.  The version targeted by an
	// interrupted prune is exempt; an interrupted finalize may or may not have taken effect.
	m := e.ref
	lv, ok := e.ndb.GetLatestVersion()
	switch {
	case l.Op == "finalize" || l.Op == "mpfinalize":
		if ok && lv != m.last && lv != l.V {
			return fmt.Sprintf("after the crash the latest version is %d, expected %d or %d", lv, m.last, l.V)
		}
		if ok && lv == l.V {
			// took full effect: advance the reference
			if w := advanceRef(e, l); w != "" {
				return w
			}
		}
	default:
		if m.last > 0 && (!ok || lv != m.last) {
			return fmt.Sprintf("after the crash the latest version is %d (exists=%v), expected %d", lv, ok, m.last)
		}
		if m.last == 0 && len(m.finalized) == 0 && ok {
			return fmt.Sprintf("after the crash version %d is reported finalized although nothing was finalized", lv)
		}
	}
	pruneTarget := uint64(0)
	if l.Op == "prune" {
		pruneTarget = l.V
		if ev := e.ndb.GetEarliestVersion(); ev == l.V+1 {
			m.earliest = l.V + 1
			delete(m.finalized, l.V)
			pruneTarget = 0
		}
	}
	saved := m.finalized[pruneTarget]
	if pruneTarget != 0 {
		delete(m.finalized, pruneTarget)
		m.earliest = pruneTarget + 1
	}
	// multipart state is process-local: after a restart no restore is in progress.
	hadMP := m.mp
	m.mp = nil
	if l.Op == "mpstart" || l.Op == "mpchunk" || l.Op == "mpabort" || (l.Op == "mpfinalize" && !(ok && lv == l.V)) {
		// nothing finalized by the interrupted restore
	}
	if w := e.readBackLoose(pruneTarget != 0); w != "" {
		return "after crash and reopen: " + w
	}
	if pruneTarget != 0 {
		m.finalized[pruneTarget] = saved
		m.earliest = pruneTarget
	}
	// (2) retry the interrupted operation.
	switch {
	case strings.HasPrefix(l.Op, "mp"):
		if !(l.Op == "mpfinalize" && ok && lv == l.V) && !(l.Op == "mpabort") {
			// restart the whole restore from the beginning up to and including the letter
			start := sp.Pos
			for start > 0 && sp.History[start].Op != "mpstart" {
				start--
			}
			_ = hadMP
			for i := start; i <= sp.Pos; i++ {
				if !e.applicable(sp.History[i]) {
					return fmt.Sprintf("harness: %s not applicable when restarting the restore", sp.History[i])
				}
				if w := e.apply(sp.History[i]); w != "" {
					return "restarting the interrupted restore: " + w
				}
			}
		}
	case l.Op == "finalize" && ok && lv == l.V:
		// already effective; repeating reports already-finalized, which is fine.
	case l.Op == "prune" && pruneTarget == 0:
		// already effective
	default:
		if !e.applicable(l) {
			return fmt.Sprintf("harness: %s not applicable for retry", l)
		}
		if w := e.apply(l); w != "" {
			return "retrying the interrupted operation: " + w
		}
	}
	if w := e.readBack(); w != "" {
		return "after retrying the interrupted operation: " + w
	}
	if stopAfterRetry {
		return ""
	}
	// (4) the rest of the history.
	for i := sp.Pos + 1; i < len(sp.History); i++ {
		if !e.applicable(sp.History[i]) {
			return fmt.Sprintf("harness: %s not applicable after recovery", sp.History[i])
		}
		if w := e.apply(sp.History[i]); w != "" {
			return "continuing after recovery: " + w
		}
		if w := e.readBack(); w != "" {
			return fmt.Sprintf("continuing after recovery, after %s: %s", sp.History[i], w)
		}
	}
	return ""
}

// advanceRef updates only the reference model for a letter that took full effect.
func advanceRef(e *env, l L) string {
	m := e.ref
	switch l.Op {
	case "finalize":
		sc := m.candsOf(l.V, node.RootTypeState)
		ic := m.candsOf(l.V, node.RootTypeIO)
		if l.Choice >= len(sc) || l.IO > len(ic) {
			return "harness: cannot advance reference"
		}
		chosen := []*refRoot{sc[l.Choice]}
		if l.IO > 0 {
			chosen = append(chosen, ic[l.IO-1])
		}
		m.noteFinalized(l.V, chosen)
	case "mpfinalize":
		if m.mp == nil {
			return "harness: no multipart state"
		}
		rr := &refRoot{root: m.mp.root, contents: m.mp.contents}
		m.cands[l.V] = []*refRoot{rr}
		if m.last == 0 && len(m.finalized) == 0 {
			m.earliest = l.V
		}
		m.finalized[l.V] = []*refRoot{rr}
		m.last = l.V
	}
	return ""
}

// readBackLoose is readBack with the earliest-version check relaxed (an
// interrupted prune may leave either value).
func (e *env) readBackLoose(skipEarliest bool) string {
	if !skipEarliest {
		return e.readBack()
	}
	w := e.readBack()
	if strings.HasPrefix(w, "earliest version is") {
		return ""
	}
	return w
}

// c07Histories: curated base histories covering every operation kind in
// interesting positions (competing roots, non-zero sequence number finalized,
// io roots, unchanged roots, prune, restores).
func c07Histories(thorough bool) [][]L {
	c := func(v uint64, b string) L { return L{Op: "commit", V: v, Batch: b} }
	cio := func(v uint64, b string) L { return L{Op: "commit", V: v, Batch: b, Type: "io"} }
	f := func(v uint64, ch int) L { return L{Op: "finalize", V: v, Choice: ch} }
	fio := func(v uint64, ch int) L { return L{Op: "finalize", V: v, Choice: ch, IO: 1} }
	p := func(v uint64) L { return L{Op: "prune", V: v} }
	mps := func(v uint64) L { return L{Op: "mpstart", V: v} }
	mpc := func(v uint64, i int) L { return L{Op: "mpchunk", V: v, Chunk: i} }
	mpa := func(v uint64) L { return L{Op: "mpabort", V: v} }
	mpf := func(v uint64) L { return L{Op: "mpfinalize", V: v} }
	nch := 1
	if st, err := makeCheckpoint(1); err == nil {
		nch = len(st.chunks)
	}
	// chunk orders: forward, reverse, rotated
	order := func(v uint64, kind int) []L {
		var ls []L
		for i := 0; i < nch; i++ {
			j := i
			switch kind {
			case 1:
				j = nch - 1 - i
			case 2:
				j = (i + 1) % nch
			}
			ls = append(ls, mpc(v, j))
		}
		return ls
	}
	cat := func(parts ...[]L) []L {
		var out []L
		for _, p := range parts {
			out = append(out, p...)
		}
		return out
	}
	hs := [][]L{
		{c(1, "add"), f(1, 0), c(2, "add"), f(2, 0), p(1), c(3, "del"), f(3, 0)},
		{c(1, "add"), c(1, "mod"), f(1, 1), c(2, "add"), c(2, "del"), f(2, 0), p(1), c(3, "add"), f(3, 0)},
		{c(1, "add"), c(1, "mod"), f(1, 0), c(2, "del"), c(2, "add"), f(2, 1), c(3, "noop"), f(3, 0), p(1), p(2)},
		{c(1, "add"), cio(1, "add2"), fio(1, 0), c(2, "readd"), cio(2, "add"), fio(2, 0), p(1), c(3, "clear"), f(3, 0)},
		{c(1, "mod"), f(1, 0), c(2, "clear"), c(2, "add"), f(2, 0), c(3, "add"), f(3, 0), p(1), p(2)},
		cat([]L{mps(1)}, order(1, 0), []L{mpf(1), c(2, "del"), f(2, 0), c(3, "add"), f(3, 0), p(1)}),
		cat([]L{mps(1), mpc(1, nch-1), mpa(1), mps(1)}, order(1, 1), []L{mpf(1), c(2, "mod"), f(2, 0)}),
		cat([]L{c(1, "add"), f(1, 0), c(2, "add"), f(2, 0), mps(5)}, order(5, 2), []L{mpf(5), c(6, "del"), f(6, 0)}),
		// a completed restore followed by an aborted restore at a higher version (whatever the first
		// restore's cleanup left behind must not be acted upon by the second one's), then normal versions
		// (the aborted restore targets the very next version, so that the versions committed afterwards read at or above it)
		cat([]L{mps(1)}, order(1, 0), []L{mpf(1), mps(2), mpc(2, 0), mpa(2), c(2, "add"), f(2, 0), c(3, "mod"), f(3, 0)}),
		cat([]L{c(1, "add"), f(1, 0), mps(3)}, order(3, 1), []L{mpf(3), mps(4), mpc(4, nch-1), mpc(4, 0), mpa(4), c(4, "mod"), f(4, 0), p(1)}),
	}
	if thorough {
		hs = append(hs,
			[]L{c(1, "add"), c(1, "add"), f(1, 0), c(2, "readd"), c(2, "noop"), f(2, 0), p(1), c(3, "mod"), c(3, "del"), f(3, 1)},
			[]L{c(1, "mod"), cio(1, "add"), f(1, 0), c(2, "add"), cio(2, "add2"), fio(2, 0), c(3, "del"), f(3, 0), p(1), p(2)},
			[]L{c(1, "add"), f(1, 0), c(2, "del"), f(2, 0), c(3, "add"), f(3, 0), p(1), p(2), c(4, "add"), f(4, 0)},
		)
	}
	return hs
}

type c07Artefact struct {
	Spec crashSpec `json:"spec"`
	// WALRetire: the deterministic reproduction of the crash inside badger's memtable-WAL deletion
	WALRetire bool `json:"wal_retire,omitempty"`
}

// c07Class classifies a violation for known-findings matching.
func c07Class(what string) string {
	if strings.Contains(what, "Create a new file") {
		// badger cannot reopen a directory that holds a zero-length memtable WAL file
		return " badger-empty-wal-after-interrupted-delete"
	}
	return ""
}

// c07WALRetire reproduces deterministically what a process death inside badger's retirement of
// a flushed memtable's write-ahead log leaves behind (ristretto's MmapFile.Delete truncates the
// file to zero length and only then removes it): a short history is written by a child that
// exits abruptly, the parent truncates the oldest *.mem file to zero length and reopens.
func c07WALRetire(backend, base string) string {
	dir := filepath.Join(base, "walretire-"+backend)
	_ = os.RemoveAll(dir)
	_ = os.MkdirAll(dir, 0o755)
	defer os.RemoveAll(dir)
	sp := crashSpec{Backend: backend, Dir: filepath.Join(dir, "db"), History: []L{{Op: "commit", V: 1, Batch: "add"}, {Op: "finalize", V: 1}, {Op: "commit", V: 2, Batch: "add"}}, Pos: 2, K: 1}
	if ex, _, out := runChild(sp, dir); ex != 77 {
		return fmt.Sprintf("harness: child did not die as requested (exit %d): %s", ex, out)
	}
	mems, _ := filepath.Glob(filepath.Join(sp.Dir, "*.mem"))
	if len(mems) == 0 {
		return "harness: no memtable WAL file found in " + sp.Dir
	}
	sort.Strings(mems)
	if err := os.Truncate(mems[0], 0); err != nil {
		return "harness: " + err.Error()
	}
	e, err := openEnv(backend, sp.Dir)
	if err != nil {
		return "process killed inside badger's deletion of a flushed memtable's write-ahead log (file already truncated to zero length, not yet removed): reopening the database failed: " + err.Error()
	}
	e.ndb.Close()
	return ""
}

func c07Case(sp crashSpec, base string, id int) (exit int, what string) {
	dir := filepath.Join(base, fmt.Sprintf("case%d", id))
	_ = os.RemoveAll(dir)
	_ = os.MkdirAll(dir, 0o755)
	defer os.RemoveAll(dir)
	sp.Dir = filepath.Join(dir, "db")
	ex, _, out := runChild(sp, dir)
	switch ex {
	case 77:
	case 0:
		return 0, "" // fewer boundaries than K: nothing to do
	default:
		return ex, fmt.Sprintf("harness: child failed (exit %d): %s", ex, out)
	}
	return 77, recoverAndCheck(sp)
}

// c07Case2: first crash at boundary K of letter Pos, then a second crash at
// boundary Crash2 of reopen + retry; the parent then recovers as usual.
// more=false when reopen + retry have fewer than Crash2 durable writes.
func c07Case2(sp crashSpec, base string, id int) (more bool, what string) {
	dir := filepath.Join(base, fmt.Sprintf("case2-%d", id))
	_ = os.RemoveAll(dir)
	_ = os.MkdirAll(dir, 0o755)
	defer os.RemoveAll(dir)
	sp.Dir = filepath.Join(dir, "db")
	first := sp
	first.Crash2 = 0
	ex, _, out := runChild(first, dir)
	if ex != 77 {
		if ex == 0 {
			return false, ""
		}
		return false, fmt.Sprintf("harness: child failed (exit %d): %s", ex, out)
	}
	b, _ := json.Marshal(sp)
	f := filepath.Join(dir, "spec2.json")
	_ = os.WriteFile(f, b, 0o644)
	cmd := exec.Command(os.Args[0], "recover-child", f)
	cmd.Env = append(os.Environ(), "GOMAXPROCS=2")
	o, err := cmd.CombinedOutput()
	ex2 := 0
	if err != nil {
		if ee, ok := err.(*exec.ExitError); ok {
			ex2 = ee.ExitCode()
		} else {
			ex2 = -1
		}
	}
	switch ex2 {
	case 0:
		return false, ""
	case 77:
		return true, recoverAndCheck(first)
	}
	return false, fmt.Sprintf("harness: recover-child failed (exit %d): %s", ex2, string(o))
}

// c07Epilogue: what a node would go on to do after the letter: finalize the version being built (or
// commit a candidate first), then build and finalize one more version.
func c07Epilogue(backend string, h []L) []L {
	var out []L
	for step := 0; step < 4; step++ {
		e, w := runHistory(backend, append(append([]L{}, h...), out...), false)
		if e == nil || w != "" {
			if e != nil {
				e.ndb.Close()
			}
			return out
		}
		ls := nextLetters(e, 2, e.ref.last+2)
		e.ndb.Close()
		var pick *L
		for i := range ls {
			if ls[i].Op == "finalize" {
				pick = &ls[i]
				break
			}
		}
		if pick == nil {
			for i := range ls {
				if ls[i].Op == "commit" && ls[i].Type == "" && ls[i].Batch == "add" {
					pick = &ls[i]
					break
				}
			}
		}
		if pick == nil {
			return out
		}
		out = append(out, *pick)
	}
	return out
}

func c07StateSpace(r *ev.Run, base string) {
	depth := 4
	maxVersion := uint64(2)
	if r.Thorough() {
		depth = 6
	}
	if s := os.Getenv("VERIF_C07_DEPTH"); s != "" {
		fmt.Sscan(s, &depth)
	}
	var pairs, cases, died atomic.Int64
	for _, backend := range []string{"badger", "pathbadger"} {
		frontier := [][]L{{}}
		seen := map[string]bool{}
		var mu sync.Mutex
		for level := 0; level < depth && len(frontier) > 0; level++ {
			var next [][]L
			ev.ParallelRange(len(frontier), r.Seed, func(fi int) {
				if r.Expired() {
					r.Cap("deadline")
					return
				}
				h := frontier[fi]
				e, what := runHistory(backend, h, false)
				if e == nil || what != "" {
					r.HarnessError("state-space phase: replay failed: %s [%s]", what, historyString(h))
					return
				}
				letters := nextLetters(e, 2, maxVersion)
				e.ndb.Close()
				for li, l := range letters {
					nh := append(append([]L{}, h...), l)
					e2, what := runHistory(backend, nh, false)
					if e2 == nil || what != "" {
						if e2 != nil {
							e2.ndb.Close()
						}
						continue // C06's business
					}
					k := stateKey(e2)
					e2.ndb.Close()
					mu.Lock()
					fresh := !seen[k]
					if fresh {
						seen[k] = true
						next = append(next, nh)
					}
					mu.Unlock()
					if !fresh {
						continue // the same state was reached by this letter from an equivalent history: crash cases are the same
					}
					pairs.Add(1)
					full := append(append([]L{}, nh...), c07Epilogue(backend, nh)...)
					for kk := 1; kk <= 64; kk++ {
						sp := crashSpec{Backend: backend, History: full, Pos: len(h), K: kk}
						ex, what := c07Case(sp, base, 1000000+fi*1000+li*70+kk)
						if ex == 0 && what == "" {
							break // the letter has fewer than kk durable writes
						}
						cases.Add(1)
						r.Add("evaluations", 1)
						if ex == 77 {
							died.Add(1)
						}
						if what != "" {
							if strings.HasPrefix(what, "harness:") {
								r.HarnessError("%s [%s pos %d k %d]", what, historyString(full), sp.Pos, kk)
								break
							}
							r.Violate(ev.Violation{Engine: "dbmc", Key: fmt.Sprintf("c07 %s [%s] crash in %s after durable write %d", backend, historyString(full), l, kk) + c07Class(what),
								What:     fmt.Sprintf("%s, history [%s], process killed inside %s right after its durable write #%d: %s", backend, historyString(full), l, kk, what),
								Artefact: c07Artefact{Spec: sp}})
						}
					}
				}
			})
			frontier = next
		}
		r.Set("state_space_states_"+backend, len(seen))
	}
	r.Set("state_space_letter_depth", depth)
	r.Set("state_space_state_letter_pairs", int(pairs.Load()))
	r.Set("state_space_crash_cases", int(cases.Load()))
	r.Set("state_space_rule", "state-space phase: breadth-first search over database histories (at most two competing candidates per version, IO roots, commit one version ahead, finalize of any candidate with or without the IO root, prune) to the stated letter depth, deduplicated by the complete physical dump; for every transition into a new state the letter is interrupted right after each of its durable writes in a child process on an on-disk database, and the parent recovers, retries, and continues with finalizing the version and building one more (read-back after every letter)")
}

func runC07(r *ev.Run) {
	if r.Replay != "" {
		v, err := ev.LoadReplay(r.Replay)
		if err != nil {
			fmt.Println("cannot load replay:", err)
			os.Exit(2)
		}
		b, _ := json.Marshal(v.Artefact)
		var a c07Artefact
		_ = json.Unmarshal(b, &a)
		base, _ := os.MkdirTemp(shmBase(), "verif-c07-")
		defer os.RemoveAll(base)
		var what string
		if a.WALRetire {
			what = c07WALRetire(a.Spec.Backend, base)
		} else if a.Spec.Crash2 > 0 {
			_, what = c07Case2(a.Spec, base, 0)
		} else {
			_, what = c07Case(a.Spec, base, 0)
		}
		if what != "" {
			fmt.Printf("VIOLATION property=C07 replay=%s\n  what: %s\n", r.Replay, what)
			os.Exit(1)
		}
		fmt.Println("replay: property held")
		os.Exit(0)
	}
	base, err := os.MkdirTemp(shmBase(), "verif-c07-")
	if err != nil {
		r.HarnessError("tempdir: %v", err)
		r.Finish()
	}
	defer os.RemoveAll(base)
	hs := c07Histories(r.Thorough())
	// 1. count the durable-write boundaries of every letter with dry runs.
	type job struct {
		sp crashSpec
	}
	var counts []struct {
		backend string
		h, pos  int
		n       int
	}
	type hp struct {
		backend string
		h, pos  int
	}
	var hps []hp
	for _, be := range []string{"badger", "pathbadger"} {
		for hi, h := range hs {
			for pos := range h {
				hps = append(hps, hp{be, hi, pos})
			}
		}
	}
	ns := make([]int, len(hps))
	ev.ParallelRange(len(hps), r.Seed, func(i int) {
		x := hps[i]
		dir := filepath.Join(base, fmt.Sprintf("dry%d", i))
		_ = os.MkdirAll(dir, 0o755)
		defer os.RemoveAll(dir)
		ex, n, out := runChild(crashSpec{Backend: x.backend, Dir: filepath.Join(dir, "db"), History: hs[x.h], Pos: x.pos, K: 0}, dir)
		if ex != 0 {
			r.HarnessError("dry run of %s [%s] pos %d failed (exit %d): %s", x.backend, historyString(hs[x.h]), x.pos, ex, out)
			return
		}
		ns[i] = n
	})
	_ = counts
	var jobs []job
	letterKinds := map[string]int{}
	for i, x := range hps {
		for k := 1; k <= ns[i]; k++ {
			jobs = append(jobs, job{crashSpec{Backend: x.backend, History: hs[x.h], Pos: x.pos, K: k}})
		}
		letterKinds[x.backend+"/"+hs[x.h][x.pos].Op] += ns[i]
	}
	r.Set("crash_points_per_operation_kind", letterKinds)
	var nontrivial atomic.Int64
	outcomes := map[string]bool{}
	ev.ParallelRange(len(jobs), r.Seed, func(ji int) {
		if r.Expired() {
			r.Cap("deadline")
			return
		}
		sp := jobs[ji].sp
		ex, what := c07Case(sp, base, ji)
		r.Add("evaluations", 1)
		if ex == 77 {
			nontrivial.Add(1)
		}
		if what != "" {
			if strings.HasPrefix(what, "harness:") {
				r.HarnessError("%s [%s pos %d k %d]", what, historyString(sp.History), sp.Pos, sp.K)
				return
			}
			r.Violate(ev.Violation{Engine: "dbmc", Key: fmt.Sprintf("c07 %s [%s] crash in %s after durable write %d", sp.Backend, historyString(sp.History), sp.History[sp.Pos], sp.K) + c07Class(what),
				What:     fmt.Sprintf("%s, history [%s], process killed inside %s right after its durable write #%d: %s", sp.Backend, historyString(sp.History), sp.History[sp.Pos], sp.K, what),
				Artefact: c07Artefact{Spec: sp}})
		}
		if ji%53 == 0 {
			r.Sample(map[string]any{"backend": sp.Backend, "history": historyString(sp.History), "interrupted": sp.History[sp.Pos].String(), "after_durable_write": sp.K}, 6)
		}
	})
	_ = outcomes
	// 3. two crashes: the second one at every durable-write boundary of reopen + retry.
	jobs2 := jobs
	var double atomic.Int64
	ev.ParallelRange(len(jobs2), r.Seed, func(ji int) {
		for k2 := 1; k2 <= 40; k2++ {
			if r.Expired() {
				r.Cap("deadline")
				return
			}
			sp := jobs2[ji].sp
			sp.Crash2 = k2
			more, what := c07Case2(sp, base, ji)
			if what != "" {
				if strings.HasPrefix(what, "harness:") {
					r.HarnessError("%s [%s pos %d k %d k2 %d]", what, historyString(sp.History), sp.Pos, sp.K, k2)
					return
				}
				r.Violate(ev.Violation{Engine: "dbmc", Key: fmt.Sprintf("c07 %s [%s] crash in %s after durable write %d, second crash after write %d of reopen+retry", sp.Backend, historyString(sp.History), sp.History[sp.Pos], sp.K, k2) + c07Class(what),
					What:     fmt.Sprintf("%s, history [%s], process killed inside %s right after its durable write #%d, then killed again right after durable write #%d of reopening and retrying: %s", sp.Backend, historyString(sp.History), sp.History[sp.Pos], sp.K, k2, what),
					Artefact: c07Artefact{Spec: sp}})
				return
			}
			if !more {
				return
			}
			r.Add("evaluations", 1)
			double.Add(1)
			nontrivial.Add(1)
		}
	})
	// 3b. state-space phase: instead of curated histories, every distinct database state reachable within a
	// letter depth (the C06 search: competing commits, IO roots, commit-ahead, finalize of any candidate,
	// prune), every applicable next letter, every durable-write boundary of that letter.
	c07StateSpace(r, base)
	// 4. the crash inside badger's memtable-WAL retirement, reproduced deterministically
	for _, be := range []string{"badger", "pathbadger"} {
		what := c07WALRetire(be, base)
		r.Add("evaluations", 1)
		if strings.HasPrefix(what, "harness:") {
			r.HarnessError("%s", what)
		} else if what != "" {
			r.Violate(ev.Violation{Engine: "dbmc", Key: "c07 " + be + " wal-retire" + c07Class(what), What: be + ": " + what, Artefact: c07Artefact{Spec: crashSpec{Backend: be}, WALRetire: true}})
		}
	}
	r.Set("double_crash_cases", int(double.Load()))
	r.Set("distinct_nontrivial", int(nontrivial.Load()))
	r.Set("histories", len(hs))
	r.Set("operations_interrupted", len(hps))
	r.Set("rule", "for each curated history (competing roots, finalize of a non-first candidate, IO roots, unchanged roots, prune with lag, checkpoint restores with abort/restart and forward jump, a completed restore followed by an aborted one at a higher version), each letter and each durable-write boundary k of that letter (counted by a dry run through hooks in a patched badger copy: after every WriteBatch.Flush and Txn.Commit): a child process replays the prefix on an on-disk database, runs the letter and exits abruptly right after durable write k; the parent reopens the database, checks every previously finalized version (full read-back), that no unfinished restore is visible, retries the letter, compares with the uninterrupted reference and runs the rest of the history with read-back after each letter; double-crash phase: for every such case and every durable-write boundary k2 of reopening + retrying, a second child is killed there and the parent recovers again with the same oracle. distinct_nontrivial = cases in which the child actually died at the selected boundary")
	r.Assume("process death, not power loss: everything written before the exit is kept (NoFsync, page cache)", "crash points are durable-write boundaries as seen by badger (WriteBatch.Flush, Txn.Commit); a batch is assumed to be atomic", "at most two crashes per case: the second one inside reopening + retrying the interrupted operation")
	r.Finish()
}

func shmBase() string {
	if st, err := os.Stat("/dev/shm"); err == nil && st.IsDir() {
		return "/dev/shm"
	}
	return ""
}
