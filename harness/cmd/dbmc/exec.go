package main

import (
	"bytes"
	"fmt"
	"os"
	"sort"
	"strings"
	"sync"

	"github.com/oasisprotocol/oasis-core/go/common/crypto/hash"
	"github.com/oasisprotocol/oasis-core/go/storage/mkvs"
	"github.com/oasisprotocol/oasis-core/go/storage/mkvs/checkpoint"
	dbapi "github.com/oasisprotocol/oasis-core/go/storage/mkvs/db/api"
	badgerdb "github.com/oasisprotocol/oasis-core/go/storage/mkvs/db/badger"
	pathbadger "github.com/oasisprotocol/oasis-core/go/storage/mkvs/db/pathbadger"
	"github.com/oasisprotocol/oasis-core/go/storage/mkvs/node"
	"github.com/oasisprotocol/oasis-core/go/storage/mkvs/syncer"

	"verif/harness/internal/kv"
)

// One letter of a node-database history.
type L struct {
	Op     string `json:"op"`               // commit | finalize | prune | mpstart | mpchunk | mpabort
	V      uint64 `json:"v"`                // version
	Batch  string `json:"batch,omitempty"`  // commit: batch name
	Type   string `json:"type,omitempty"`   // commit: "" = state, "io"
	Choice int    `json:"choice,omitempty"` // finalize: index of the state candidate of V
	IO     int    `json:"io,omitempty"`     // finalize: 1+index of the io candidate, 0 = none
	Chunk  int    `json:"chunk,omitempty"`  // mpchunk: chunk index
	From   int    `json:"from,omitempty"`   // io commit: 1+index of the io candidate of V it is derived from, 0 = empty root
}

func (l L) String() string {
	switch l.Op {
	case "commit":
		t := ""
		if l.Type == "io" {
			t = ",io"
			if l.From > 0 {
				t = fmt.Sprintf(",io<-io#%d", l.From-1)
			}
		}
		return fmt.Sprintf("commit(v%d,%s%s)", l.V, l.Batch, t)
	case "finalize":
		if l.IO > 0 {
			return fmt.Sprintf("finalize(v%d,#%d,io#%d)", l.V, l.Choice, l.IO-1)
		}
		return fmt.Sprintf("finalize(v%d,#%d)", l.V, l.Choice)
	case "mpchunk":
		return fmt.Sprintf("mpchunk(v%d,%d)", l.V, l.Chunk)
	}
	return fmt.Sprintf("%s(v%d)", l.Op, l.V)
}

var dbKeys = [][]byte{{0x00}, {0x00, 0x00}, {0x80}}

var batchNames = []string{"add", "del", "readd", "mod", "noop", "clear"}

// batchOps turns a batch name into concrete operations on the parent contents.
func batchOps(name string, parent kv.Contents) [][2][]byte {
	var present, absent [][]byte
	for _, k := range dbKeys {
		if _, ok := parent[string(k)]; ok {
			present = append(present, k)
		} else {
			absent = append(absent, k)
		}
	}
	toggle := func(v []byte) []byte {
		if string(v) == "a" {
			return []byte("b")
		}
		return []byte("a")
	}
	switch name {
	case "add":
		if len(absent) > 0 {
			return [][2][]byte{{absent[0], []byte("a")}}
		}
		return [][2][]byte{{dbKeys[0], toggle(parent[string(dbKeys[0])])}}
	case "add2":
		var ops [][2][]byte
		for _, k := range absent {
			ops = append(ops, [2][]byte{k, []byte("a")})
		}
		return ops
	case "del":
		if len(present) > 0 {
			return [][2][]byte{{present[0], nil}}
		}
		return nil
	case "readd":
		if len(present) > 0 {
			k := present[0]
			return [][2][]byte{{k, nil}, {k, parent[string(k)]}}
		}
		return [][2][]byte{{dbKeys[0], []byte("a")}, {dbKeys[0], nil}}
	case "mod":
		if len(present) > 0 {
			k := present[len(present)-1]
			return [][2][]byte{{k, toggle(parent[string(k)])}}
		}
		return [][2][]byte{{dbKeys[2], []byte("b")}}
	case "modall":
		// same keys, every value changed: the same tree shape as the parent with different leaves
		var ops [][2][]byte
		for _, k := range present {
			ops = append(ops, [2][]byte{k, []byte("c")})
		}
		return ops
	case "modall2":
		var ops [][2][]byte
		for _, k := range present {
			ops = append(ops, [2][]byte{k, []byte("d")})
		}
		return ops
	case "clear":
		var ops [][2][]byte
		for _, k := range present {
			ops = append(ops, [2][]byte{k, nil})
		}
		return ops
	}
	return nil
}

type refRoot struct {
	root     node.Root
	contents kv.Contents
}

// refModel is the reference version store.
type refModel struct {
	cands     map[uint64][]*refRoot // committed candidates per version, in commit order (deduplicated by typed hash)
	finalized map[uint64][]*refRoot // finalized roots per version
	discarded []*refRoot            // committed, version finalized, not chosen
	ncommits  map[uint64]int        // number of state commit letters per version (incl. repeated roots)
	earliest  uint64
	last      uint64 // last finalized version (0 = none)
	mp        *mpState
}

type mpState struct {
	version  uint64
	contents kv.Contents
	root     node.Root
	meta     *checkpoint.Metadata
	chunks   [][]byte
	restored map[int]bool
	rs       checkpoint.Restorer
}

func newRef() *refModel {
	return &refModel{cands: map[uint64][]*refRoot{}, finalized: map[uint64][]*refRoot{}, earliest: 0, ncommits: map[uint64]int{}}
}

func (m *refModel) stateParent(v uint64) (node.Root, kv.Contents) {
	if v > 0 {
		for _, r := range m.finalized[v-1] {
			if r.root.Type == node.RootTypeState {
				return r.root, r.contents
			}
		}
		// committing ahead of finalization: the parent is the only candidate of v-1
		if sc := m.candsOf(v-1, node.RootTypeState); len(sc) == 1 && v-1 > m.last {
			return sc[0].root, sc[0].contents
		}
	}
	var e node.Root
	e.Empty()
	e.Namespace, e.Version, e.Type = kv.Namespace, v, node.RootTypeState
	return e, kv.Contents{}
}

func (m *refModel) candsOf(v uint64, t node.RootType) []*refRoot {
	var out []*refRoot
	for _, c := range m.cands[v] {
		if c.root.Type == t {
			out = append(out, c)
		}
	}
	return out
}

type env struct {
	backend string
	dir     string // "" = memory only
	ndb     dbapi.NodeDB
	ref     *refModel
}

func openEnv(backend, dir string) (*env, error) {
	ndb, err := kv.OpenDB(backend, dir)
	if err != nil {
		return nil, err
	}
	return &env{backend: backend, dir: dir, ndb: ndb, ref: newRef()}, nil
}

func (e *env) dump() string {
	if e.backend == "badger" {
		return badgerdb.VerifDump(e.ndb)
	}
	return pathbadger.VerifDump(e.ndb)
}

// applicable says whether the letter is a legal next step of a history (the
// harness only generates legal histories; the databases' argument checking is
// not under test here).
func (e *env) applicable(l L) bool {
	m := e.ref
	switch l.Op {
	case "commit":
		if m.mp != nil {
			return false
		}
		next := m.last + 1
		if m.last == 0 && len(m.finalized) == 0 {
			next = 1
		}
		if l.V == next {
			// no further candidates once a child of the only candidate has been committed ahead
			return len(m.cands[next+1]) == 0
		}
		// one version ahead of finalization, as a child of the single candidate of the next version
		return l.V == next+1 && l.Type != "io" && len(m.candsOf(next, node.RootTypeState)) == 1 && m.ncommits[next] == 1
	case "finalize":
		if m.mp != nil {
			return false
		}
		sc := m.candsOf(l.V, node.RootTypeState)
		ic := m.candsOf(l.V, node.RootTypeIO)
		return (l.V == m.last+1 || (m.last == 0 && len(m.finalized) == 0 && l.V == 1)) && l.Choice < len(sc) && l.IO <= len(ic) && len(sc) > 0
	case "prune":
		return m.mp == nil && l.V == m.earliest && m.last > l.V && l.V > 0
	case "mpstart":
		return m.mp == nil && l.V > m.last && len(m.cands[l.V]) == 0
	case "mpchunk":
		return m.mp != nil && m.mp.version == l.V && l.Chunk < len(m.mp.chunks) && !m.mp.restored[l.Chunk]
	case "mpabort":
		return m.mp != nil && m.mp.version == l.V
	case "mpfinalize":
		return m.mp != nil && m.mp.version == l.V && len(m.mp.restored) == len(m.mp.chunks)
	}
	return false
}

// mpContents is the state restored by the multipart letters.
var mpContents = kv.Contents{"\x00": []byte("a"), "\x00\x00": []byte("b"), "\x80": []byte("a"), "\x80\x01": []byte("mp")}

// makeCheckpoint builds the checkpoint of mpContents at version v (3+ chunks).
func makeCheckpoint(v uint64) (*mpState, error) {
	// The checkpoint of a version is a pure function of the version: built once per process
	// (checkpoint creation spawns chunker goroutines, which must not run inside a controlled
	// execution of the concurrency phase).
	mpCacheMu.Lock()
	defer mpCacheMu.Unlock()
	if c, ok := mpCache[v]; ok {
		return &mpState{version: c.version, contents: c.contents, root: c.root, meta: c.meta, chunks: c.chunks, restored: map[int]bool{}}, nil
	}
	st, err := makeCheckpointUncached(v)
	if err != nil {
		return nil, err
	}
	mpCache[v] = st
	return &mpState{version: st.version, contents: st.contents, root: st.root, meta: st.meta, chunks: st.chunks, restored: map[int]bool{}}, nil
}

var (
	mpCacheMu sync.Mutex
	mpCache   = map[uint64]*mpState{}
)

func makeCheckpointUncached(v uint64) (*mpState, error) {
	src, err := kv.OpenDB("badger", "")
	if err != nil {
		return nil, err
	}
	defer src.Close()
	t := mkvs.New(nil, src, node.RootTypeState)
	for _, k := range mpContents.SortedKeys() {
		_ = t.Insert(kv.Ctx, []byte(k), mpContents[k])
	}
	_, h, err := t.Commit(kv.Ctx, kv.Namespace, v)
	t.Close()
	if err != nil {
		return nil, err
	}
	root := kv.RootFor(v, node.RootTypeState, h)
	if err := src.Finalize([]node.Root{root}); err != nil {
		return nil, err
	}
	dir, err := os.MkdirTemp("", "verif-cp-")
	if err != nil {
		return nil, err
	}
	defer os.RemoveAll(dir)
	fc, err := checkpoint.NewFileCreator(dir, src)
	if err != nil {
		return nil, err
	}
	meta, err := fc.CreateCheckpoint(kv.Ctx, root, 60, 1)
	if err != nil {
		return nil, err
	}
	st := &mpState{version: v, contents: mpContents, root: root, meta: meta, restored: map[int]bool{}}
	for i := range meta.Chunks {
		cm, _ := meta.GetChunkMetadata(uint64(i))
		var buf bytes.Buffer
		if err := fc.GetCheckpointChunk(kv.Ctx, cm, &buf); err != nil {
			return nil, err
		}
		st.chunks = append(st.chunks, buf.Bytes())
	}
	return st, nil
}

// apply executes a legal letter on the database and the reference model.
// errText != "" means the database refused or failed an operation it must accept.
func (e *env) apply(l L) (errText string) {
	m := e.ref
	switch l.Op {
	case "commit":
		var t mkvs.Tree
		var base kv.Contents
		typ := node.RootTypeState
		if l.Type == "io" && l.From > 0 {
			// an io root built in several hops inside the version (inputs first, then outputs)
			typ = node.RootTypeIO
			ic := m.candsOf(l.V, node.RootTypeIO)
			if l.From > len(ic) {
				return fmt.Sprintf("harness: %s: no such io candidate", l)
			}
			t = mkvs.NewWithRoot(nil, e.ndb, ic[l.From-1].root)
			base = ic[l.From-1].contents
		} else if l.Type == "io" {
			typ = node.RootTypeIO
			t = mkvs.New(nil, e.ndb, node.RootTypeIO)
			base = kv.Contents{}
		} else {
			parent, pc := m.stateParent(l.V)
			base = pc
			if parent.Hash.IsEmpty() {
				t = mkvs.New(nil, e.ndb, node.RootTypeState)
			} else {
				t = mkvs.NewWithRoot(nil, e.ndb, parent)
			}
		}
		defer t.Close()
		c := base.Clone()
		ops := batchOps(l.Batch, base)
		if l.Type == "io" {
			// IO trees hold different data than state trees; "addshared" deliberately creates a
			// leaf identical to one of the state tree (cross-type node sharing by hash).
			if l.Batch == "addshared" {
				ops = [][2][]byte{{dbKeys[0], []byte("a")}}
			} else {
				for i := range ops {
					if ops[i][1] != nil {
						ops[i][1] = []byte("io")
					}
				}
			}
		}
		for _, o := range ops {
			if o[1] == nil {
				if err := t.Remove(kv.Ctx, o[0]); err != nil {
					return fmt.Sprintf("%s: remove failed: %v", l, err)
				}
				delete(c, string(o[0]))
			} else {
				if err := t.Insert(kv.Ctx, o[0], o[1]); err != nil {
					return fmt.Sprintf("%s: insert failed: %v", l, err)
				}
				c[string(o[0])] = o[1]
			}
		}
		_, h, err := t.Commit(kv.Ctx, kv.Namespace, l.V)
		if err != nil {
			return fmt.Sprintf("%s: commit failed: %v", l, err)
		}
		if hr := kv.CanonicalRoot(c); hr != h {
			return fmt.Sprintf("%s: committed root %s differs from the contents-only hash %s of %s", l, h, hr, c)
		}
		root := kv.RootFor(l.V, typ, h)
		if typ == node.RootTypeState {
			m.ncommits[l.V]++
		}
		for _, ex := range m.cands[l.V] {
			if ex.root.Equal(&root) {
				return ""
			}
		}
		m.cands[l.V] = append(m.cands[l.V], &refRoot{root: root, contents: c})
	case "finalize":
		sc := m.candsOf(l.V, node.RootTypeState)
		ic := m.candsOf(l.V, node.RootTypeIO)
		chosen := []*refRoot{sc[l.Choice]}
		if l.IO > 0 {
			chosen = append(chosen, ic[l.IO-1])
		}
		var roots []node.Root
		for _, c := range chosen {
			roots = append(roots, c.root)
		}
		if err := e.ndb.Finalize(roots); err != nil {
			return fmt.Sprintf("%s: finalize failed: %v", l, err)
		}
		e.ref.noteFinalized(l.V, chosen)
	case "prune":
		if err := e.ndb.Prune(l.V); err != nil {
			return fmt.Sprintf("%s: prune failed: %v", l, err)
		}
		m.earliest = l.V + 1
		delete(m.finalized, l.V)
	case "mpstart":
		st, err := makeCheckpoint(l.V)
		if err != nil {
			return "harness: checkpoint creation failed: " + err.Error()
		}
		if err := e.ndb.StartMultipartInsert(l.V); err != nil {
			return fmt.Sprintf("%s: StartMultipartInsert failed: %v", l, err)
		}
		st.rs, _ = checkpoint.NewRestorer(e.ndb)
		if err := st.rs.StartRestore(kv.Ctx, st.meta); err != nil {
			return fmt.Sprintf("%s: StartRestore failed: %v", l, err)
		}
		m.mp = st
	case "mpchunk":
		done, err := m.mp.rs.RestoreChunk(kv.Ctx, uint64(l.Chunk), bytes.NewReader(m.mp.chunks[l.Chunk]))
		if err != nil {
			return fmt.Sprintf("%s: RestoreChunk failed: %v", l, err)
		}
		m.mp.restored[l.Chunk] = true
		if done != (len(m.mp.restored) == len(m.mp.chunks)) {
			return fmt.Sprintf("%s: completion signalled=%v after %d of %d chunks", l, done, len(m.mp.restored), len(m.mp.chunks))
		}
	case "mpabort":
		_ = m.mp.rs.AbortRestore(kv.Ctx)
		if err := e.ndb.AbortMultipartInsert(); err != nil {
			return fmt.Sprintf("%s: AbortMultipartInsert failed: %v", l, err)
		}
		m.mp = nil
	case "mpfinalize":
		if err := e.ndb.Finalize([]node.Root{m.mp.root}); err != nil {
			return fmt.Sprintf("%s: finalize of the restored root failed: %v", l, err)
		}
		rr := &refRoot{root: m.mp.root, contents: m.mp.contents}
		m.cands[l.V] = []*refRoot{rr}
		// a restore may jump forward: earlier retained versions stay as they are.
		if m.last == 0 && len(m.finalized) == 0 {
			m.earliest = l.V
		}
		m.finalized[l.V] = []*refRoot{rr}
		m.last = l.V
		m.mp = nil
	}
	return ""
}

func (m *refModel) noteFinalized(v uint64, chosen []*refRoot) {
	m.finalized[v] = chosen
	for _, c := range m.cands[v] {
		keep := false
		for _, ch := range chosen {
			keep = keep || ch == c
		}
		if !keep {
			m.discarded = append(m.discarded, c)
		}
	}
	if m.last == 0 && m.earliest == 0 {
		m.earliest = v
	}
	m.last = v
}

// readTree reads everything under a root through a small-cache tree: full
// iteration, per-key gets and a verified proof per key.
func readTree(ndb dbapi.NodeDB, root node.Root) (c kv.Contents, err error) {
	defer func() {
		if p := recover(); p != nil {
			err = fmt.Errorf("panic: %v", p)
		}
	}()
	t := mkvs.NewWithRoot(nil, ndb, root, mkvs.Capacity(3, 0))
	defer t.Close()
	c, _, err = kv.TreeContents(t)
	if err != nil {
		return nil, err
	}
	var pv syncer.ProofVerifier
	for _, k := range dbKeys {
		v, gerr := t.Get(kv.Ctx, k)
		if gerr != nil {
			return nil, gerr
		}
		want, ok := c[string(k)]
		if (v == nil) == ok || (ok && !bytes.Equal(v, want)) {
			return nil, fmt.Errorf("get(%x)=%q disagrees with iteration %q", k, v, want)
		}
		if root.Hash.IsEmpty() {
			continue
		}
		rsp, perr := t.SyncGet(kv.Ctx, &syncer.GetRequest{Tree: syncer.TreeID{Root: root, Position: root.Hash}, Key: k, ProofVersion: 1})
		if perr != nil {
			return nil, fmt.Errorf("SyncGet(%x): %w", k, perr)
		}
		if _, perr = pv.VerifyProof(kv.Ctx, root.Hash, &rsp.Proof); perr != nil {
			return nil, fmt.Errorf("proof for %x does not verify against the root: %w", k, perr)
		}
	}
	return c, nil
}

// readBack checks the whole database against the reference model.
func (e *env) readBack() string {
	m := e.ref
	if lv, ok := e.ndb.GetLatestVersion(); m.last > 0 && (!ok || lv != m.last) {
		return fmt.Sprintf("latest version is %d (exists=%v), reference %d", lv, ok, m.last)
	} else if m.last == 0 && ok && len(m.finalized) == 0 {
		return fmt.Sprintf("latest version %d reported although nothing was finalized", lv)
	}
	if m.last > 0 {
		if ev := e.ndb.GetEarliestVersion(); ev != m.earliest {
			return fmt.Sprintf("earliest version is %d, reference %d", ev, m.earliest)
		}
	}
	var versions []uint64
	for v := range m.finalized {
		versions = append(versions, v)
	}
	sort.Slice(versions, func(i, j int) bool { return versions[i] < versions[j] })
	for _, v := range versions {
		listed, err := e.ndb.GetRootsForVersion(v)
		if err != nil {
			return fmt.Sprintf("GetRootsForVersion(%d) failed: %v", v, err)
		}
		known := map[string]bool{}
		for _, c := range m.cands[v] {
			known[c.root.Type.String()+c.root.Hash.String()] = true
		}
		for _, lr := range listed {
			if !lr.Hash.IsEmpty() && !known[lr.Type.String()+lr.Hash.String()] {
				return fmt.Sprintf("version %d lists root %s which was never committed", v, lr.Hash)
			}
		}
		for _, fr := range m.finalized[v] {
			if !e.ndb.HasRoot(fr.root) {
				return fmt.Sprintf("finalized %s root %s of version %d is reported absent", fr.root.Type, fr.root.Hash, v)
			}
			if !fr.root.Hash.IsEmpty() {
				found := false
				for _, lr := range listed {
					found = found || lr.Equal(&fr.root)
				}
				if !found {
					return fmt.Sprintf("finalized root %s of version %d is not listed by GetRootsForVersion", fr.root.Hash, v)
				}
			}
			got, err := readTree(e.ndb, fr.root)
			if err != nil {
				return fmt.Sprintf("finalized %s root %s of version %d (%s) is not fully readable: %v", fr.root.Type, fr.root.Hash, v, fr.contents, err)
			}
			if !got.Equal(fr.contents) {
				return fmt.Sprintf("finalized root %s of version %d reads back %s, expected %s", fr.root.Hash, v, got, fr.contents)
			}
		}
	}
	// Discarded roots of retained versions: absent, unreadable, or exactly their own contents.
	for _, d := range m.discarded {
		if d.root.Version < m.earliest {
			continue
		}
		isFinal := false
		for _, fr := range m.finalized[d.root.Version] {
			isFinal = isFinal || fr.root.Equal(&d.root)
		}
		if isFinal || !e.ndb.HasRoot(d.root) {
			continue
		}
		got, err := readTree(e.ndb, d.root)
		if err == nil && !got.Equal(d.contents) {
			return fmt.Sprintf("discarded root %s of version %d reads back %s, its own contents are %s", d.root.Hash, d.root.Version, got, d.contents)
		}
	}
	return ""
}

func historyString(h []L) string {
	var ss []string
	for _, l := range h {
		ss = append(ss, l.String())
	}
	return strings.Join(ss, " ")
}

var _ = hash.Hash{}
