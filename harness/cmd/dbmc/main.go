// dbmc decides C06 (finalized versions stay readable) and C07 (crash at any
// durable-write boundary) on the real badger and pathbadger node databases.
package main

import (
	"encoding/json"
	"fmt"
	"os"
	"strings"
	"sync"
	"sync/atomic"

	"github.com/oasisprotocol/oasis-core/go/common/crypto/hash"
	"github.com/oasisprotocol/oasis-core/go/storage/mkvs/node"

	"verif/harness/internal/ev"
	"verif/harness/internal/maporder"
)

func main() {
	if len(os.Args) < 2 {
		fmt.Println("usage: dbmc <C06|C07> [--tier t] [--replay f]")
		os.Exit(2)
	}
	switch os.Args[1] {
	case "C06":
		if ph := os.Getenv("VERIF_PHASE"); ph == "conc" || ph == "race" {
			runC06Conc(ev.Parse("model_checking"))
		}
		runC06(ev.Parse("model_checking"))
	case "C07":
		runC07(ev.Parse("fault_enumeration"))
	case "hist":
		// development aid: dbmc hist <backend> '<json list of letters>' runs one history without crashes
		var h []L
		if err := json.Unmarshal([]byte(os.Args[3]), &h); err != nil {
			fmt.Println(err)
			os.Exit(2)
		}
		_, what := runHistoryLoose(os.Args[2], h)
		fmt.Println("result:", what)
	case "crash-child":
		crashChild()
	case "recover-child":
		recoverChild()
	default:
		fmt.Println("dbmc: unknown property", os.Args[1])
		os.Exit(2)
	}
}

type c06Artefact struct {
	Backend  string `json:"backend"`
	History  []L    `json:"history"`
	MapOrder int    `json:"map_order,omitempty"` // start offset of Go map iterations during the run
}

// runHistory replays a history on a fresh memory-only database; the read-back
// is evaluated after the last letter only (prefixes were checked before).
func runHistory(backend string, h []L, checkAll bool) (e *env, what string) {
	e, err := openEnv(backend, "")
	if err != nil {
		return nil, "open: " + err.Error()
	}
	defer func() {
		if p := recover(); p != nil {
			what = fmt.Sprintf("panic: %v", p)
		}
	}()
	for i, l := range h {
		if !e.applicable(l) {
			return e, fmt.Sprintf("harness: letter %s not applicable at position %d", l, i)
		}
		if w := e.apply(l); w != "" {
			return e, w
		}
		if checkAll || i == len(h)-1 {
			if w := e.readBack(); w != "" {
				return e, fmt.Sprintf("after %s: %s", l, w)
			}
		}
	}
	return e, ""
}

// runHistoryLoose replays a history on a fresh database with a read-back after every letter;
// letters are applied without the BFS phase's legality filter (more than two candidates).
func runHistoryLoose(backend string, h []L) (e *env, what string) {
	e, err := openEnv(backend, "")
	if err != nil {
		return nil, "harness: open: " + err.Error()
	}
	defer func() {
		if p := recover(); p != nil {
			what = fmt.Sprintf("panic: %v", p)
		}
	}()
	for _, l := range h {
		if w := e.apply(l); w != "" {
			return e, w
		}
		if w := e.readBack(); w != "" {
			return e, fmt.Sprintf("after %s: %s", l, w)
		}
	}
	return e, ""
}

// nextLetters enumerates the legal next letters of a history.
func nextLetters(e *env, maxCands int, maxVersion uint64) []L {
	m := e.ref
	v := m.last + 1
	if m.last == 0 && len(m.finalized) == 0 {
		v = 1
	}
	var out []L
	if v <= maxVersion {
		sc := m.candsOf(v, node.RootTypeState)
		ic := m.candsOf(v, node.RootTypeIO)
		// commits (a repeated root is a legal commit but adds nothing new to enumerate twice)
		if m.ncommits[v] < maxCands && len(m.cands[v+1]) == 0 {
			for _, b := range batchNames {
				out = append(out, L{Op: "commit", V: v, Batch: b})
			}
		}
		if len(ic) == 0 && len(sc) > 0 && len(m.cands[v+1]) == 0 {
			out = append(out, L{Op: "commit", V: v, Batch: "add", Type: "io"}, L{Op: "commit", V: v, Batch: "addshared", Type: "io"})
			if thoroughTier {
				out = append(out, L{Op: "commit", V: v, Batch: "add2", Type: "io"})
			}
		}
		// commit one version ahead of finalization (child of the single candidate)
		if len(sc) == 1 && m.ncommits[v] == 1 && v+1 <= maxVersion && m.ncommits[v+1] < maxCands {
			for _, b := range []string{"add2", "mod"} {
				out = append(out, L{Op: "commit", V: v + 1, Batch: b})
			}
		}
		for i := range sc {
			out = append(out, L{Op: "finalize", V: v, Choice: i})
			for j := range ic {
				out = append(out, L{Op: "finalize", V: v, Choice: i, IO: j + 1})
			}
		}
	}
	if m.last > m.earliest && m.earliest > 0 && len(m.cands[m.last+1]) == 0 && len(m.cands[m.last+2]) == 0 {
		out = append(out, L{Op: "prune", V: m.earliest})
	}
	return out
}

func stateKey(e *env) string {
	h := hash.NewFromBytes([]byte(stateKeyLong(e)))
	return string(h[:])
}

func stateKeyLong(e *env) string {
	var sb strings.Builder
	sb.WriteString(e.dump())
	m := e.ref
	fmt.Fprintf(&sb, "|e=%d l=%d|", m.earliest, m.last)
	for _, c := range m.cands[m.last+1] {
		fmt.Fprintf(&sb, "c%d:%s,", c.root.Type, c.root.Hash.String()[:12])
	}
	for v := m.earliest; v <= m.last; v++ {
		for _, f := range m.finalized[v] {
			fmt.Fprintf(&sb, "f%d:%d:%s,", v, f.root.Type, f.root.Hash.String()[:12])
		}
	}
	return sb.String()
}

var thoroughTier bool

func runC06(r *ev.Run) {
	thoroughTier = r.Thorough()
	if r.Replay != "" {
		v, err := ev.LoadReplay(r.Replay)
		if err != nil {
			fmt.Println("cannot load replay:", err)
			os.Exit(2)
		}
		b, _ := json.Marshal(v.Artefact)
		var a c06Artefact
		_ = json.Unmarshal(b, &a)
		maporder.Set(a.MapOrder)
		e, what := runHistoryLoose(a.Backend, a.History)
		if e != nil {
			e.ndb.Close()
		}
		if what != "" {
			fmt.Printf("VIOLATION property=C06 replay=%s\n  what: %s\n", r.Replay, what)
			os.Exit(1)
		}
		fmt.Println("replay: property held")
		os.Exit(0)
	}
	// Go's map iteration order is owned by this binary (badger's and pathbadger's Finalize iterate
	// maps): fixed per phase, so that the search and every replay are deterministic.
	maporder.Set(0)
	maxCands := 2
	maxVersion := uint64(2)
	maxStates := 60000
	if r.Thorough() {
		maxVersion = 3
		maxStates = 1500000
	}
	if s := os.Getenv("VERIF_DB_VERSIONS"); s != "" {
		fmt.Sscan(s, &maxVersion)
	}
	for _, backend := range []string{"badger", "pathbadger"} {
		frontier := [][]L{{}}
		seen := map[string]bool{}
		var mu sync.Mutex
		level := 0
		capped := false
		for len(frontier) > 0 && !capped {
			var next [][]L
			ev.ParallelRange(len(frontier), r.Seed, func(fi int) {
				if r.Expired() {
					r.Cap("deadline")
					return
				}
				h := frontier[fi]
				base, what := runHistory(backend, h, false)
				if base == nil || what != "" {
					r.HarnessError("replay of explored history failed: %s [%s]", what, historyString(h))
					return
				}
				letters := nextLetters(base, maxCands, maxVersion)
				base.ndb.Close()
				for _, l := range letters {
					nh := append(append([]L{}, h...), l)
					e, what := runHistory(backend, nh, false)
					r.Add("transitions", 1)
					if what != "" {
						if strings.HasPrefix(what, "harness:") {
							r.HarnessError("%s", what)
						} else {
							tag := ""
							if strings.Contains(historyString(nh), "addshared,io") {
								tag = " cross-type-leaf-sharing"
							}
							r.Violate(ev.Violation{Engine: "dbmc", Key: fmt.Sprintf("c06 %s%s [%s]", backend, tag, historyString(nh)), What: fmt.Sprintf("%s, history [%s]: %s", backend, historyString(nh), what), Artefact: c06Artefact{Backend: backend, History: nh}})
						}
						if e != nil {
							e.ndb.Close()
						}
						continue
					}
					k := stateKey(e)
					e.ndb.Close()
					mu.Lock()
					if !seen[k] {
						seen[k] = true
						next = append(next, nh)
						if len(seen)%5003 == 0 {
							r.Sample(map[string]any{"backend": backend, "history": historyString(nh)}, 6)
						}
					}
					mu.Unlock()
				}
			})
			level++
			frontier = next
			if os.Getenv("VERIF_PROGRESS") != "" {
				fmt.Fprintf(os.Stderr, "%s level %d: frontier %d, states %d, transitions %d\n", backend, level, len(frontier), len(seen), r.Get("transitions"))
			}
			if len(seen) > maxStates {
				capped = true
				r.Cap(fmt.Sprintf("%s: state cap %d reached at letter depth %d", backend, maxStates, level))
			}
		}
		r.Add("states", int64(len(seen)))
		r.Set("states_"+backend, len(seen))
		r.Set("letter_depth_"+backend, level)
	}
	// Restore histories: after [commit(v1,add2) finalize(v1)] every applicable sequence of up to D letters
	// over {start a restore into the next or the next-but-one version, import any not yet imported chunk,
	// abort, finalize the restored root, commit / finalize a normal candidate of the next version, prune the
	// earliest version};
	// full read-back after every letter.  An aborted restore must leave nothing behind that a later
	// restore or a later normal version trips over.
	maporder.Set(3)
	{
		D := 7
		if thoroughTier {
			D = 9
		}
		prefix := []L{{Op: "commit", V: 1, Batch: "add2"}, {Op: "finalize", V: 1}}
		menu := func(e *env) []L {
			m := e.ref
			var ls []L
			if m.mp != nil {
				for i := range m.mp.chunks {
					ls = append(ls, L{Op: "mpchunk", V: m.mp.version, Chunk: i})
				}
				ls = append(ls, L{Op: "mpabort", V: m.mp.version}, L{Op: "mpfinalize", V: m.mp.version})
			} else {
				ls = append(ls, L{Op: "mpstart", V: m.last + 1}, L{Op: "mpstart", V: m.last + 2},
					L{Op: "commit", V: m.last + 1, Batch: "add"}, L{Op: "commit", V: m.last + 1, Batch: "mod"}, L{Op: "finalize", V: m.last + 1},
					L{Op: "prune", V: m.earliest})
			}
			var out []L
			for _, l := range ls {
				if e.applicable(l) {
					out = append(out, l)
				}
			}
			return out
		}
		var nHist, nTrans atomic.Int64
		var explore func(be string, h []L, depth int)
		explore = func(be string, h []L, depth int) {
			e, what := runHistoryLoose(be, h)
			nHist.Add(1)
			nTrans.Add(int64(len(h)))
			var next []L
			if e != nil && what == "" && depth < D {
				next = menu(e)
			}
			if e != nil {
				e.ndb.Close()
			}
			if what != "" {
				if strings.HasPrefix(what, "harness:") {
					r.HarnessError("%s [%s]", what, historyString(h))
				} else {
					r.Violate(ev.Violation{Engine: "dbmc", Key: fmt.Sprintf("c06 %s [%s]", be, historyString(h)), What: fmt.Sprintf("%s, history [%s]: %s", be, historyString(h), what), Artefact: c06Artefact{Backend: be, History: h, MapOrder: 3}})
				}
				return
			}
			for _, l := range next {
				explore(be, append(append([]L{}, h...), l), depth+1)
			}
		}
		// work items: the applicable histories of 2 letters per backend
		type item struct {
			be string
			h  []L
		}
		var items []item
		for _, be := range []string{"badger", "pathbadger"} {
			e0, w0 := runHistoryLoose(be, prefix)
			if w0 != "" || e0 == nil {
				r.HarnessError("restore histories: prefix failed on %s: %s", be, w0)
				continue
			}
			l1 := menu(e0)
			e0.ndb.Close()
			for _, a := range l1 {
				h1 := append(append([]L{}, prefix...), a)
				e1, w1 := runHistoryLoose(be, h1)
				if e1 == nil || w1 != "" {
					items = append(items, item{be, h1}) // reported by explore
					continue
				}
				l2 := menu(e1)
				e1.ndb.Close()
				if len(l2) == 0 {
					items = append(items, item{be, h1})
				}
				for _, b := range l2 {
					items = append(items, item{be, append(append([]L{}, h1...), b)})
				}
			}
		}
		ev.ParallelRange(len(items), r.Seed, func(i int) {
			explore(items[i].be, items[i].h, len(items[i].h)-len(prefix))
		})
		r.Add("transitions", nTrans.Load())
		r.Add("restore_histories", nHist.Load())
		r.Set("restore_history_depth", D)
	}
	// Three competing candidates: after [commit(v1,add2) finalize(v1)] every ordered triple of distinct
	// batches is committed as three candidates of version 2, any of them is finalized, one more version is
	// built on top and version 1 is pruned; full read-back after every letter.
	{
		names := []string{"add", "del", "readd", "mod", "clear", "modall"}
		type tri struct {
			be      string
			a, b, c int
			ch      int
		}
		var tris []tri
		for _, be := range []string{"badger", "pathbadger"} {
			for a := range names {
				for b := range names {
					for c := range names {
						if a == b || b == c || a == c {
							continue
						}
						for ch := 0; ch < 3; ch++ {
							tris = append(tris, tri{be, a, b, c, ch})
						}
					}
				}
			}
		}
		ev.ParallelRange(len(tris), r.Seed, func(i int) {
			t := tris[i]
			h := []L{{Op: "commit", V: 1, Batch: "add2"}, {Op: "finalize", V: 1},
				{Op: "commit", V: 2, Batch: names[t.a]}, {Op: "commit", V: 2, Batch: names[t.b]}, {Op: "commit", V: 2, Batch: names[t.c]}}
			e, what := runHistoryLoose(t.be, h)
			if e != nil && what == "" {
				// the finalize choice refers to the distinct candidates actually stored
				n := len(e.ref.candsOf(2, node.RootTypeState))
				ch := t.ch
				if ch >= n {
					ch = n - 1
				}
				rest := []L{{Op: "finalize", V: 2, Choice: ch}, {Op: "commit", V: 3, Batch: "mod"}, {Op: "finalize", V: 3}, {Op: "prune", V: 1}}
				for _, l := range rest {
					h = append(h, l)
					if !e.applicable(l) {
						what = fmt.Sprintf("harness: letter %s not applicable", l)
						break
					}
					if what = e.apply(l); what != "" {
						break
					}
					if w := e.readBack(); w != "" {
						what = fmt.Sprintf("after %s: %s", l, w)
						break
					}
				}
			}
			if e != nil {
				e.ndb.Close()
			}
			r.Add("transitions", int64(len(h)))
			r.Add("three_candidate_histories", 1)
			if what == "" {
				return
			}
			if strings.HasPrefix(what, "harness:") {
				r.HarnessError("%s [%s]", what, historyString(h))
				return
			}
			r.Violate(ev.Violation{Engine: "dbmc", Key: fmt.Sprintf("c06 %s [%s]", t.be, historyString(h)), What: fmt.Sprintf("%s, history [%s]: %s", t.be, historyString(h), what), Artefact: c06Artefact{Backend: t.be, History: h, MapOrder: 3}})
		})
	}
	// Chained io roots (badger; pathbadger has one root per type and version chain): in version 2 an io root I
	// is committed from the empty root, two competing io roots A and B are derived from I and a third one, C,
	// from A; any of I, A, B, C is finalized next to the state root, one more version follows and version 1 is
	// pruned; full read-back after every letter.
	{
		names := []string{"add", "del", "readd", "mod", "clear", "modall"}
		type ch struct {
			i, a, b, c int
			fin        int
		}
		var chs []ch
		for i := range names {
			for a := range names {
				for b := range names {
					if a == b {
						continue
					}
					for _, c := range []int{0, 3} {
						for fin := 0; fin < 4; fin++ {
							chs = append(chs, ch{i, a, b, c, fin})
						}
					}
				}
			}
		}
		ev.ParallelRange(len(chs), r.Seed, func(k int) {
			t := chs[k]
			h := []L{{Op: "commit", V: 1, Batch: "add2"}, {Op: "finalize", V: 1}, {Op: "commit", V: 2, Batch: "mod"},
				{Op: "commit", V: 2, Type: "io", Batch: names[t.i]}}
			e, what := runHistoryLoose("badger", h)
			idx := func(root node.Root) int {
				for j, c := range e.ref.candsOf(2, node.RootTypeIO) {
					if c.root.Equal(&root) {
						return j
					}
				}
				return -1
			}
			step := func(l L) int {
				h = append(h, l)
				before := map[string]bool{}
				for _, c := range e.ref.candsOf(2, node.RootTypeIO) {
					before[c.root.Hash.String()] = true
				}
				if what = e.apply(l); what != "" {
					return -1
				}
				if w := e.readBack(); w != "" {
					what = fmt.Sprintf("after %s: %s", l, w)
					return -1
				}
				for j, c := range e.ref.candsOf(2, node.RootTypeIO) {
					if !before[c.root.Hash.String()] {
						return j
					}
				}
				return -2 // the batch produced a root that exists already
			}
			_ = idx
			if e != nil && what == "" && len(e.ref.candsOf(2, node.RootTypeIO)) == 1 {
				cands := []int{0}
				ia := step(L{Op: "commit", V: 2, Type: "io", Batch: names[t.a], From: 1})
				if ia >= 0 {
					cands = append(cands, ia)
				}
				if what == "" {
					if ib := step(L{Op: "commit", V: 2, Type: "io", Batch: names[t.b], From: 1}); ib >= 0 {
						cands = append(cands, ib)
					}
				}
				if what == "" && ia >= 0 {
					if ic := step(L{Op: "commit", V: 2, Type: "io", Batch: names[t.c], From: ia + 1}); ic >= 0 {
						cands = append(cands, ic)
					}
				}
				if what == "" {
					fin := cands[t.fin%len(cands)]
					for _, l := range []L{{Op: "finalize", V: 2, Choice: 0, IO: fin + 1}, {Op: "commit", V: 3, Batch: "mod"}, {Op: "commit", V: 3, Type: "io", Batch: "add"}, {Op: "finalize", V: 3, IO: 1}, {Op: "prune", V: 1}} {
						h = append(h, l)
						if !e.applicable(l) {
							what = fmt.Sprintf("harness: letter %s not applicable", l)
							break
						}
						if what = e.apply(l); what != "" {
							break
						}
						if w := e.readBack(); w != "" {
							what = fmt.Sprintf("after %s: %s", l, w)
							break
						}
					}
				}
			}
			if e != nil {
				e.ndb.Close()
			}
			r.Add("transitions", int64(len(h)))
			r.Add("chained_io_histories", 1)
			if what == "" {
				return
			}
			if strings.HasPrefix(what, "harness:") {
				r.HarnessError("%s [%s]", what, historyString(h))
				return
			}
			r.Violate(ev.Violation{Engine: "dbmc", Key: fmt.Sprintf("c06 badger [%s]", historyString(h)), What: fmt.Sprintf("badger, history [%s]: %s", historyString(h), what), Artefact: c06Artefact{Backend: "badger", History: h, MapOrder: 3}})
		})
	}
	r.Set("max_versions", int(maxVersion))
	r.Set("max_candidates_per_version", maxCands)
	r.Alias("traces_validated_against_impl", "transitions")
	r.Set("rule", "breadth-first search over node-database histories: per version up to max_candidates state commits from the previous finalized root (batches add / del / remove+re-insert / modify / no-op / clear over 3 keys), an optional IO-root commit, finalize of any candidate (with or without the IO root), prune of the earliest version with any lag; successor = replay on a fresh database + 1 letter; deduplicated by the complete physical key/version dump of the store; after every letter every retained finalized root must be listed, present and fully readable (iteration, gets, verified proofs) with exactly the reference contents, and a discarded root is absent, unreadable or reads exactly its own contents")
	r.Assume("this phase explores sequential histories; concurrent readers are explored by the concurrency phase (conc_* keys)", "Go map iteration order is fixed per phase (start offset 0 in the breadth-first search, 3 in the three-candidate and restore histories) so that replays are reproducible; on badger the number of physically distinct states still varies by a few dozen between runs (background compaction decides when superseded entries disappear from the dump): deduplication by the physical dump is finer than the logical state, so this only adds work", "keys limited to 3, values a/b", "state candidates derived from other state candidates of the same version are not generated (io roots are: chained io phase)")
	r.Finish()
}
