package main

import (
	"fmt"
	"os"
	"sync"
	"time"

	"verif/harness/internal/kv"
)

func main() {
	n := 200
	for _, par := range []int{1, 4, 16} {
		for _, be := range kv.Backends {
			t0 := time.Now()
			var wg sync.WaitGroup
			for w := 0; w < par; w++ {
				wg.Add(1)
				go func() {
					defer wg.Done()
					for i := 0; i < n/par; i++ {
						db, err := kv.OpenDB(be, "")
						if err != nil {
							fmt.Println(err)
							os.Exit(1)
						}
						db.Close()
					}
				}()
			}
			wg.Wait()
			fmt.Printf("%s par=%d: %v per open+close (wall %v)\n", be, par, time.Since(t0)/time.Duration(n), time.Since(t0))
		}
	}
}
