package main

import (
	"context"
	"fmt"
	"sort"
	"strings"

	"github.com/oasisprotocol/oasis-core/go/common"
	"github.com/oasisprotocol/oasis-core/go/common/cbor"
	"github.com/oasisprotocol/oasis-core/go/common/crypto/hash"
	"github.com/oasisprotocol/oasis-core/go/common/crypto/signature"
	memorySigner "github.com/oasisprotocol/oasis-core/go/common/crypto/signature/signers/memory"
	"github.com/oasisprotocol/oasis-core/go/common/node"
	registry "github.com/oasisprotocol/oasis-core/go/registry/api"
	"github.com/oasisprotocol/oasis-core/go/roothash/api/block"
	"github.com/oasisprotocol/oasis-core/go/roothash/api/commitment"
	"github.com/oasisprotocol/oasis-core/go/roothash/api/message"
	scheduler "github.com/oasisprotocol/oasis-core/go/scheduler/api"
)

// Values carried by a commitment.
const (
	valNone uint8 = 0
	valA    uint8 = 1
	valB    uint8 = 2
	valF    uint8 = 3 // failure-indicating
)

var valName = [...]string{"-", "A", "B", "F"}

const (
	maxRanks = 3
	maxNodes = 7 // 3 primary + 3 backup + outsider
)

// shape is one committee shape plus the part of the scheduler alphabet used.
type shape struct {
	N     int    `json:"primary"`       // primary workers
	M     int    `json:"backup"`        // backup workers
	Ov    int    `json:"overlap"`       // index of the primary worker that is also the first backup worker, -1 none
	Round uint64 `json:"round"`         // round the commitments are for (rotates scheduler ranks)
	Ranks []int  `json:"ranks_offered"` // scheduler ranks that occur as the scheduler of a commitment
}

func (s shape) String() string {
	ov := "none"
	if s.Ov >= 0 {
		ov = fmt.Sprintf("P%d", s.Ov)
	}
	return fmt.Sprintf("n=%d m=%d both-roles=%s round=%d ranks=%v", s.N, s.M, ov, s.Round, s.Ranks)
}

// letter is one input to the pool.
type letter struct {
	Op      string `json:"op"` // "add" | "process"
	Node    int    `json:"node,omitempty"`
	Sched   int    `json:"sched,omitempty"` // node index named as the scheduler
	Val     string `json:"val,omitempty"`   // A | B | F
	Strag   int    `json:"stragglers,omitempty"`
	Timeout bool   `json:"timeout,omitempty"`

	val    uint8
	commit int // index into world.commits
}

// world is everything that is fixed for one shape: the real committee, runtime
// descriptor, last block, signed commitments and the alphabet.
type world struct {
	sh         shape
	nNodes     int // distinct committee members; index nNodes is the outsider
	committee  *scheduler.Committee
	rt         *registry.Runtime
	blk        *block.Block
	keys       []signature.PublicKey
	keyIdx     map[signature.PublicKey]int
	isPrimary  [maxNodes]bool
	isBackup   [maxNodes]bool
	rankOf     [maxNodes]int // -1: no rank
	schedNode  [maxRanks]int // rank -> node index
	hashVal    map[hash.Hash]uint8
	valHash    [4]hash.Hash
	commits    []*commitment.ExecutorCommitment
	commitCBOR []string
	commitIdx  map[*commitment.ExecutorCommitment]int
	commitOf   map[[3]int]int // (node, sched, val) -> commit index
	letters    []letter
	excluded   []string // letters the real VerifyExecutorCommitment rejects
	// verifyLayer: commitments that do not belong to this round (another round, another parent block, signed for
	// another runtime, by another key) which the real VerifyExecutorCommitment nevertheless accepted
	verifyLayer      []string
	verifyLayerCases int
	names      []string
}

func (w *world) letterString(l letter) string {
	if l.Op == "add" {
		return fmt.Sprintf("add(node=%s,sched=%s,%s)", w.names[l.Node], w.names[l.Sched], l.Val)
	}
	return fmt.Sprintf("process(stragglers=%d,timeout=%v)", l.Strag, l.Timeout)
}

var runtimeID = func() common.Namespace {
	var id common.Namespace
	if err := id.UnmarshalHex("c000000000000000ffffffffffffffffffffffffffffffffffffffffffffffff"); err != nil {
		panic(err)
	}
	return id
}()

const chainContext = "poolmc: fixed chain context for C11"

func newWorld(sh shape) (*world, error) {
	if sh.N < 1 || sh.N > 3 || sh.M < 1 || sh.M > 3 || sh.Ov >= sh.N {
		return nil, fmt.Errorf("shape out of range: %+v", sh)
	}
	w := &world{sh: sh, keyIdx: map[signature.PublicKey]int{}, hashVal: map[hash.Hash]uint8{},
		commitIdx: map[*commitment.ExecutorCommitment]int{}, commitOf: map[[3]int]int{}}
	w.nNodes = sh.N + sh.M
	if sh.Ov >= 0 {
		w.nNodes--
	}
	var signers []signature.Signer
	for i := 0; i <= w.nNodes; i++ {
		s := memorySigner.NewTestSigner(fmt.Sprintf("poolmc node %d", i))
		signers = append(signers, s)
		w.keys = append(w.keys, s.Public())
		w.keyIdx[s.Public()] = i
	}
	c := &scheduler.Committee{Kind: scheduler.KindComputeExecutor, RuntimeID: runtimeID, ValidFor: 1}
	for i := 0; i < sh.N; i++ {
		c.Members = append(c.Members, &scheduler.CommitteeNode{Role: scheduler.RoleWorker, PublicKey: w.keys[i]})
		w.isPrimary[i] = true
		w.names = append(w.names, fmt.Sprintf("P%d", i))
	}
	next := sh.N
	for j := 0; j < sh.M; j++ {
		idx := next
		if j == 0 && sh.Ov >= 0 {
			idx = sh.Ov
			w.names[idx] += "+B"
		} else {
			next++
			w.names = append(w.names, fmt.Sprintf("B%d", idx-sh.N))
		}
		c.Members = append(c.Members, &scheduler.CommitteeNode{Role: scheduler.RoleBackupWorker, PublicKey: w.keys[idx]})
		w.isBackup[idx] = true
	}
	w.names = append(w.names, "X")
	w.committee = c

	// Scheduler ranks.  The harness' own formula (priority rotates with the
	// round) is cross-checked against both directions of the real API.
	for i := range w.rankOf {
		w.rankOf[i] = -1
	}
	for i := 0; i < sh.N; i++ {
		rk := int((sh.Round + uint64(i)) % uint64(sh.N))
		w.rankOf[i] = rk
		w.schedNode[rk] = i
		w.names[i] += fmt.Sprintf("(rank%d)", rk)
	}
	for i := 0; i <= w.nNodes; i++ {
		rk, ok := c.SchedulerRank(sh.Round, w.keys[i])
		if ok != (w.rankOf[i] >= 0) || (ok && int(rk) != w.rankOf[i]) {
			return nil, fmt.Errorf("SchedulerRank(%d,%s)=(%d,%v) disagrees with harness rank %d", sh.Round, w.names[i], rk, ok, w.rankOf[i])
		}
	}
	for rk := 0; rk < sh.N; rk++ {
		n, ok := c.Scheduler(sh.Round, uint64(rk))
		if !ok || n.PublicKey != w.keys[w.schedNode[rk]] {
			return nil, fmt.Errorf("Scheduler(%d,%d) disagrees with harness", sh.Round, rk)
		}
	}

	w.rt = &registry.Runtime{
		Versioned:       cbor.NewVersioned(registry.LatestRuntimeDescriptorVersion),
		ID:              runtimeID,
		Kind:            registry.KindCompute,
		TEEHardware:     node.TEEHardwareInvalid,
		Executor:        registry.ExecutorParameters{MaxMessages: 32},
		GovernanceModel: registry.GovernanceEntity,
	}
	w.blk = block.NewGenesisBlock(runtimeID, 0)
	w.blk.Header.Round = sh.Round - 1

	// Scheduler alphabet: the workers holding an offered rank, one backup-only
	// node (no rank) if there is one, and the outsider.
	var scheds []int
	for _, rk := range sh.Ranks {
		if rk < 0 || rk >= sh.N {
			return nil, fmt.Errorf("rank %d not available with %d workers", rk, sh.N)
		}
		scheds = append(scheds, w.schedNode[rk])
	}
	sort.Ints(scheds)
	for i := sh.N; i < w.nNodes; i++ {
		scheds = append(scheds, i)
		break
	}
	scheds = append(scheds, w.nNodes)

	ctx := context.Background()
	for nd := 0; nd <= w.nNodes; nd++ {
		for _, sc := range scheds {
			for _, v := range []uint8{valA, valB, valF} {
				ec := w.makeCommitment(nd, sc, v)
				if err := ec.Sign(signers[nd], runtimeID); err != nil {
					return nil, fmt.Errorf("sign: %w", err)
				}
				l := letter{Op: "add", Node: nd, Sched: sc, Val: valName[v], val: v}
				// The consensus layer runs VerifyExecutorCommitment before the pool sees
				// a commitment; only letters passing the real verification are used.
				if err := commitment.VerifyExecutorCommitment(ctx, w.blk, w.rt, c.ValidFor, ec, nil, nil); err != nil {
					if nd == sc && v == valF {
						w.excluded = append(w.excluded, fmt.Sprintf("add(node=S,sched=S,F) for a node S naming itself as scheduler: %v", err))
					} else {
						w.excluded = append(w.excluded, fmt.Sprintf("%s: %v", w.letterString(l), err))
					}
					continue
				}
				// Header variants of this (accepted) commitment that do not belong to the round being voted on
				// must be refused by the same verification: the pool computes ranks and counts votes under the
				// assumption that every commitment it is given is for exactly the block after the last one.
				for _, vr := range []string{"round+1", "round+2", "round-1", "round=0", "other-parent", "other-runtime", "signed-by-other-node"} {
					bad := w.makeCommitment(nd, sc, v)
					signer, rid := signers[nd], runtimeID
					switch vr {
					case "round+1":
						bad.Header.Header.Round++
					case "round+2":
						bad.Header.Header.Round += 2
					case "round-1":
						bad.Header.Header.Round--
					case "round=0":
						bad.Header.Header.Round = 0
					case "other-parent":
						bad.Header.Header.PreviousHash = hash.NewFromBytes([]byte("poolmc another parent"))
					case "other-runtime":
						rid = common.NewTestNamespaceFromSeed([]byte("poolmc another runtime"), 0)
					case "signed-by-other-node":
						signer = signers[(nd+1)%len(signers)]
						bad.NodeID = signer.Public()
					}
					if err := bad.Sign(signer, rid); err != nil {
						return nil, fmt.Errorf("sign: %w", err)
					}
					if vr == "signed-by-other-node" {
						bad.NodeID = w.keys[nd]
					}
					w.verifyLayerCases++
					if err := commitment.VerifyExecutorCommitment(ctx, w.blk, w.rt, c.ValidFor, bad, nil, nil); err == nil {
						w.verifyLayer = append(w.verifyLayer, fmt.Sprintf("%s with %s is accepted by VerifyExecutorCommitment (last block round %d)", w.letterString(l), vr, w.blk.Header.Round))
					}
				}
				l.commit = len(w.commits)
				w.commitIdx[ec] = l.commit
				w.commitOf[[3]int{nd, sc, int(v)}] = l.commit
				w.commits = append(w.commits, ec)
				w.commitCBOR = append(w.commitCBOR, string(cbor.Marshal(ec)))
				w.letters = append(w.letters, l)
				if v != valF {
					h := ec.ToVote()
					if old, ok := w.hashVal[h]; ok && old != v {
						return nil, fmt.Errorf("vote hashes of A and B collide")
					}
					w.hashVal[h] = v
					w.valHash[v] = h
				}
			}
		}
	}
	if len(w.hashVal) != 2 {
		return nil, fmt.Errorf("expected two distinct vote hashes, got %d", len(w.hashVal))
	}
	for s := 0; s <= 2; s++ {
		for _, to := range []bool{false, true} {
			w.letters = append(w.letters, letter{Op: "process", Strag: s, Timeout: to})
		}
	}
	return w, nil
}

// makeCommitment builds the commitment as a compute node would (compare
// generateCommitment / generateFailure in pool_test.go).
func (w *world) makeCommitment(nd, sc int, v uint8) *commitment.ExecutorCommitment {
	blk := block.NewEmptyBlock(w.blk, 1, block.Normal)
	ec := &commitment.ExecutorCommitment{
		NodeID: w.keys[nd],
		Header: commitment.ExecutorCommitmentHeader{
			SchedulerID: w.keys[sc],
			Header: commitment.ComputeResultsHeader{
				Round:        blk.Header.Round,
				PreviousHash: blk.Header.PreviousHash,
			},
		},
	}
	if v == valF {
		ec.Header.Failure = commitment.FailureUnknown
		return ec
	}
	msgsHash := message.MessagesHash(nil)
	inMsgsHash := message.InMessagesHash(nil)
	io := blk.Header.IORoot
	st := blk.Header.StateRoot
	if v == valB {
		st = hash.NewFromBytes([]byte("poolmc state root B"))
	} else {
		st = hash.NewFromBytes([]byte("poolmc state root A"))
	}
	ec.Header.Header.IORoot = &io
	ec.Header.Header.StateRoot = &st
	ec.Header.Header.MessagesHash = &msgsHash
	ec.Header.Header.InMessagesHash = &inMsgsHash
	return ec
}

// findLetter maps a letter read from an artefact back to the alphabet.
func (w *world) findLetter(l letter) (letter, bool) {
	for _, k := range w.letters {
		if k.Op == l.Op && k.Node == l.Node && k.Sched == l.Sched && k.Val == l.Val && k.Strag == l.Strag && k.Timeout == l.Timeout {
			return k, true
		}
	}
	return letter{}, false
}

func (w *world) describe() string {
	var mem []string
	for _, m := range w.committee.Members {
		mem = append(mem, fmt.Sprintf("%s:%s", w.names[w.keyIdx[m.PublicKey]], m.Role))
	}
	return strings.Join(mem, " ")
}
