package main

// The reference model.  Written from the text of property C11 only: it works
// on small integers (node index, scheduler rank, value letter), never looks at
// the pool and shares no code with it.
//
//   - A commitment counts iff its node is a committee member whose role is
//     allowed in the current phase (any member before a discrepancy, backup
//     workers only during discrepancy resolution), it names a ranked scheduler,
//     that scheduler is not ranked worse than the best scheduler that has
//     committed its own proposal (during resolution: it is exactly the chosen
//     one), and the node has not voted for that scheduler in this round.
//   - The chosen proposal is that of the best-ranked scheduler that committed.
//     Once a better-ranked scheduler commits, votes for worse-ranked ones are
//     void; once resolution starts only votes for the chosen proposal remain.
//   - Processing finalises iff (before discrepancy) no primary vote for the
//     chosen proposal dissents, failures <= stragglers and agreeing primary
//     votes >= primary size - stragglers, or (during resolution) strictly more
//     than half of the backup workers voted for exactly the proposal.
//     Otherwise it waits, starts resolution (only before a discrepancy) or
//     fails; never waits on timeout.

type refState struct {
	resolve bool
	votes   [maxRanks][maxNodes]uint8
}

// Verdicts of a processing call.
const (
	vFinal   = 1 << iota // new state root accepted
	vWait                // keep waiting
	vResolve             // start discrepancy resolution
	vFail                // round fails (empty block)
	vOther               // anything else (not allowed by the property)
)

func verdictName(v int) string {
	switch v {
	case vFinal:
		return "finalise"
	case vWait:
		return "wait"
	case vResolve:
		return "start-resolution"
	case vFail:
		return "fail"
	}
	return "other-error"
}

func verdictSet(m int) string {
	s := ""
	for _, v := range []int{vFinal, vWait, vResolve, vFail} {
		if m&v != 0 {
			if s != "" {
				s += "|"
			}
			s += verdictName(v)
		}
	}
	return "{" + s + "}"
}

// best returns the best (lowest) rank whose scheduler has committed its own
// proposal, or -1.
func (w *world) refBest(s *refState) int {
	for rk := 0; rk < w.sh.N; rk++ {
		if v := s.votes[rk][w.schedNode[rk]]; v == valA || v == valB {
			return rk
		}
	}
	return -1
}

// Reasons given by refAdd.
const (
	rsNonMember = iota
	rsNotBackup
	rsNoRank
	rsSchedFailure
	rsWorseRank
	rsOtherProposal
	rsSecondVote
	rsProposal
	rsVote
)

var reasonName = [...]string{"non-member", "not-backup-during-resolution", "scheduler-without-rank", "scheduler-indicates-failure",
	"worse-ranked-than-committed-scheduler", "not-the-proposal-under-resolution", "second-vote", "proposal", "vote"}

// Reasons given by refVerdict.
const (
	whyNoProposal = iota
	whyUnanimous
	whyNotUnanimous
	whyMajority
	whyNoMajority
)

var whyName = [...]string{"no proposal", "unanimous", "not unanimous", "backup majority", "no backup majority"}

// refAdd decides whether the commitment counts and records it if so.
func (w *world) refAdd(s *refState, nd, sched int, v uint8) (bool, int) {
	member := nd < w.nNodes && (w.isPrimary[nd] || w.isBackup[nd])
	if !member {
		return false, rsNonMember
	}
	if s.resolve && !w.isBackup[nd] {
		return false, rsNotBackup
	}
	rk := -1
	if sched < w.nNodes {
		rk = w.rankOf[sched]
	}
	if rk < 0 {
		return false, rsNoRank
	}
	if nd == sched && v == valF {
		return false, rsSchedFailure
	}
	best := w.refBest(s)
	if best >= 0 && rk > best {
		return false, rsWorseRank
	}
	if s.resolve && rk != best {
		return false, rsOtherProposal
	}
	if s.votes[rk][nd] != valNone {
		return false, rsSecondVote
	}
	s.votes[rk][nd] = v
	if nd == sched {
		// A better-ranked scheduler committed: worse-ranked proposals are void.
		for r := rk + 1; r < maxRanks; r++ {
			s.votes[r] = [maxNodes]uint8{}
		}
		return true, rsProposal
	}
	return true, rsVote
}

// refVerdict returns the set of verdicts the property allows.
func (w *world) refVerdict(s *refState, stragglers int, timeout bool) (allowed int, why int) {
	nonFinal := vWait | vResolve | vFail
	if s.resolve {
		nonFinal = vWait | vFail
	}
	if timeout {
		nonFinal &^= vWait
	}
	best := w.refBest(s)
	if best < 0 {
		return nonFinal, whyNoProposal
	}
	proposal := s.votes[best][w.schedNode[best]]
	if !s.resolve {
		agree, dissent, failures := 0, 0, 0
		for nd := 0; nd < w.nNodes; nd++ {
			if !w.isPrimary[nd] {
				continue
			}
			switch v := s.votes[best][nd]; {
			case v == valNone:
			case v == valF:
				failures++
			case v == proposal:
				agree++
			default:
				dissent++
			}
		}
		if dissent == 0 && failures <= stragglers && agree >= w.sh.N-stragglers {
			return vFinal, whyUnanimous
		}
		return nonFinal, whyNotUnanimous
	}
	agree := 0
	for nd := 0; nd < w.nNodes; nd++ {
		if w.isBackup[nd] && s.votes[best][nd] == proposal {
			agree++
		}
	}
	if 2*agree > w.sh.M {
		return vFinal, whyMajority
	}
	return nonFinal, whyNoMajority
}

// refStartResolution is applied when the implementation legitimately starts
// discrepancy resolution.
func (w *world) refStartResolution(s *refState) {
	s.resolve = true
	best := w.refBest(s)
	for r := 0; r < maxRanks; r++ {
		if r != best {
			s.votes[r] = [maxNodes]uint8{}
		}
	}
}

func (s *refState) appendKey(b []byte) []byte {
	if s.resolve {
		b = append(b, 1)
	} else {
		b = append(b, 0)
	}
	for r := 0; r < maxRanks; r++ {
		// 7 nodes x 2 bits
		var x uint16
		for n := 0; n < maxNodes; n++ {
			x |= uint16(s.votes[r][n]) << (2 * n)
		}
		b = append(b, byte(x), byte(x>>8))
	}
	return b
}

const refKeyLen = 1 + 2*maxRanks

func refFromKey(b []byte) refState {
	var s refState
	s.resolve = b[0] == 1
	for r := 0; r < maxRanks; r++ {
		x := uint16(b[1+2*r]) | uint16(b[2+2*r])<<8
		for n := 0; n < maxNodes; n++ {
			s.votes[r][n] = uint8(x>>(2*n)) & 3
		}
	}
	return s
}
