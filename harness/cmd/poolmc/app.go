package main

// App layer of C11: the real roothash application (ExecuteTx / EndBlock) on the
// mock application state.  One letter is one consensus block: a block carrying
// one signed ExecutorCommit transaction, an empty block, or "skip empty blocks
// until the armed round timeout".  After every block the runtime state stored
// by the application is compared with the reference model: which commitments
// count, whether the round is still open / in discrepancy resolution, and the
// runtime block the application emitted (Normal with exactly the finalised
// header, or RoundFailed with unchanged state root).

import (
	"bytes"
	"encoding/json"
	"fmt"
	"os"
	"sort"
	"strings"

	"github.com/oasisprotocol/oasis-core/go/common/cbor"
	"github.com/oasisprotocol/oasis-core/go/common/crypto/signature"
	memorySigner "github.com/oasisprotocol/oasis-core/go/common/crypto/signature/signers/memory"
	"github.com/oasisprotocol/oasis-core/go/common/node"
	"github.com/oasisprotocol/oasis-core/go/consensus/api/transaction"
	abciAPI "github.com/oasisprotocol/oasis-core/go/consensus/cometbft/api"
	registryState "github.com/oasisprotocol/oasis-core/go/consensus/cometbft/apps/registry/state"
	roothashapp "github.com/oasisprotocol/oasis-core/go/consensus/cometbft/apps/roothash"
	roothashState "github.com/oasisprotocol/oasis-core/go/consensus/cometbft/apps/roothash/state"
	registry "github.com/oasisprotocol/oasis-core/go/registry/api"
	roothash "github.com/oasisprotocol/oasis-core/go/roothash/api"
	"github.com/oasisprotocol/oasis-core/go/roothash/api/block"
	"github.com/oasisprotocol/oasis-core/go/roothash/api/commitment"

	"verif/harness/internal/ev"
)

// baseHeight is the (normalised) height of the last committed consensus block
// before every explored block; heights in the stored state are shifted back
// after each block so that only the distance to the armed timeout remains.
const baseHeight int64 = 100

type appConfig struct {
	Shape        shape `json:"shape"`
	Stragglers   int   `json:"allowed_stragglers"`
	RoundTimeout int64 `json:"round_timeout_blocks"`
}

func (c appConfig) String() string {
	return fmt.Sprintf("app %s stragglers=%d round_timeout=%d", c.Shape, c.Stragglers, c.RoundTimeout)
}

type appWorld struct {
	*world
	cfg      appConfig
	rt       *registry.Runtime
	nodes    []*node.Node
	sigNodes []*node.MultiSignedNode
	letters  []letter // add letters of the world + block letters
	initial  *roothash.RuntimeState
}

func newAppWorld(cfg appConfig) (*appWorld, error) {
	w, err := newWorld(cfg.Shape)
	if err != nil {
		return nil, err
	}
	a := &appWorld{world: w, cfg: cfg}
	rt := *w.rt
	rt.Executor.RoundTimeout = cfg.RoundTimeout
	rt.Executor.AllowedStragglers = uint16(cfg.Stragglers)
	rt.Executor.GroupSize = uint16(cfg.Shape.N)
	rt.Executor.GroupBackupSize = uint16(cfg.Shape.M)
	a.rt = &rt
	entity := memorySigner.NewTestSigner("poolmc entity")
	for i := 0; i < w.nNodes; i++ {
		s := memorySigner.NewTestSigner(fmt.Sprintf("poolmc node %d", i))
		n := &node.Node{
			Versioned: cbor.NewVersioned(node.LatestNodeDescriptorVersion),
			ID:        s.Public(),
			Consensus: node.ConsensusInfo{ID: s.Public()},
			EntityID:  entity.Public(),
		}
		sn, err := node.MultiSignNode([]signature.Signer{s}, registry.RegisterNodeSignatureContext, n)
		if err != nil {
			return nil, err
		}
		a.nodes = append(a.nodes, n)
		a.sigNodes = append(a.sigNodes, sn)
	}
	for _, l := range w.letters {
		if l.Op == "add" {
			a.letters = append(a.letters, l)
		}
	}
	if cfg.RoundTimeout <= 8 {
		a.letters = append(a.letters, letter{Op: "empty-block"})
	}
	a.letters = append(a.letters, letter{Op: "skip-to-timeout"})
	a.initial = &roothash.RuntimeState{
		Runtime:          a.rt,
		GenesisBlock:     w.blk,
		LastBlock:        w.blk,
		LastBlockHeight:  baseHeight - 10,
		LastNormalRound:  w.blk.Header.Round,
		LastNormalHeight: baseHeight - 10,
		Committee:        w.committee,
		CommitmentPool:   commitment.NewPool(),
		NextTimeout:      roothash.TimeoutNever,
	}
	return a, nil
}

func (a *appWorld) letterString(l letter) string {
	if l.Op == "add" {
		return "block[tx " + a.world.letterString(l) + "]"
	}
	return l.Op
}

func (a *appWorld) findLetter(l letter) (letter, bool) {
	for _, k := range a.letters {
		if k.Op == l.Op && k.Node == l.Node && k.Sched == l.Sched && k.Val == l.Val {
			return k, true
		}
	}
	return letter{}, false
}

// build creates a fresh mock application state holding rt, with the last
// committed height lastHeight.
func (a *appWorld) build(rt *roothash.RuntimeState, lastHeight int64) (abciAPI.MockApplicationState, error) {
	as := abciAPI.NewMockApplicationState(&abciAPI.MockApplicationStateConfig{LastHeight: lastHeight, CurrentEpoch: 1})
	ctx := as.NewContext(abciAPI.ContextInitChain)
	defer ctx.Close()
	rs := roothashState.NewMutableState(ctx.State())
	if err := rs.SetConsensusParameters(ctx, &roothash.ConsensusParameters{MaxRuntimeMessages: 32, MaxEvidenceAge: 50}); err != nil {
		return nil, err
	}
	reg := registryState.NewMutableState(ctx.State())
	for i := range a.nodes {
		if err := reg.SetNode(ctx, nil, a.nodes[i], a.sigNodes[i]); err != nil {
			return nil, err
		}
	}
	if err := rs.SetRuntimeState(ctx, rt); err != nil {
		return nil, err
	}
	if rt.NextTimeout != roothash.TimeoutNever {
		if err := rs.ScheduleRoundTimeout(ctx, rt.Runtime.ID, rt.NextTimeout); err != nil {
			return nil, err
		}
	}
	return as, nil
}

func readRuntimeState(as abciAPI.MockApplicationState) (*roothash.RuntimeState, []int64, error) {
	ctx := as.NewContext(abciAPI.ContextEndBlock)
	defer ctx.Close()
	st := roothashState.NewMutableState(ctx.State())
	rt, err := st.RuntimeState(ctx, runtimeID)
	if err != nil {
		return nil, nil, err
	}
	_, heights, err := st.RuntimesWithRoundTimeoutsAny(ctx)
	return rt, heights, err
}

// end-of-block observations
const (
	blkNone   = 0
	blkNormal = 1
	blkFailed = 2
)

type endObs struct {
	block   int
	started bool // discrepancy resolution started in this block
}

func (o endObs) String() string {
	s := [...]string{"round still open", "Normal block", "RoundFailed block"}[o.block]
	if o.started {
		s += " after starting discrepancy resolution"
	}
	return s
}

// simulate enumerates what the rule allows for a block in which the pool is
// processed once per entry of calls (entry = timeout flag).  A call that starts
// resolution is followed by an immediate retry without timeout (the timer was
// just re-armed) and cancels the remaining calls of the block (the old timer
// is gone).
func (a *appWorld) simulate(ref refState, calls []bool) map[endObs]refState {
	out := map[endObs]refState{}
	var rec func(ref refState, i int, started bool)
	rec = func(ref refState, i int, started bool) {
		if i >= len(calls) {
			out[endObs{blkNone, started}] = ref
			return
		}
		allowed, _ := a.refVerdict(&ref, a.cfg.Stragglers, calls[i])
		if allowed&vFinal != 0 {
			out[endObs{blkNormal, started}] = ref
		}
		if allowed&vFail != 0 {
			out[endObs{blkFailed, started}] = ref
		}
		if allowed&vWait != 0 {
			rec(ref, i+1, started)
		}
		if allowed&vResolve != 0 {
			r2 := ref
			a.refStartResolution(&r2)
			al2, _ := a.refVerdict(&r2, a.cfg.Stragglers, false)
			if al2&vFinal != 0 {
				out[endObs{blkNormal, true}] = r2
			}
			if al2&vFail != 0 {
				out[endObs{blkFailed, true}] = r2
			}
			if al2&vWait != 0 {
				out[endObs{blkNone, true}] = r2
			}
		}
	}
	rec(ref, 0, false)
	return out
}

type appStep struct {
	next     *roothash.RuntimeState // normalised successor, nil when the round is over or nothing changed
	terminal bool
	obs      string
	f        *finding
	herr     error
}

// step executes one block letter from the (normalised) runtime state rt.
func (a *appWorld) step(rt *roothash.RuntimeState, ref *refState, l *letter) (res appStep) {
	defer func() {
		if x := recover(); x != nil {
			res = appStep{f: &finding{"panic", fmt.Sprintf("%s panicked: %v", a.letterString(*l), x)}}
		}
	}()
	lastHeight := baseHeight
	armed := rt.NextTimeout != roothash.TimeoutNever
	switch l.Op {
	case "skip-to-timeout":
		if !armed {
			return appStep{obs: "skip:not-armed"}
		}
		lastHeight = rt.NextTimeout - 1
	case "empty-block", "add":
	}
	height := lastHeight + 1
	as, err := a.build(rt, lastHeight)
	if err != nil {
		return appStep{herr: err}
	}
	app := roothashapp.New(as, &abciAPI.NoopMessageDispatcher{}, nil)

	// BeginBlock.
	{
		ctx := as.NewContext(abciAPI.ContextBeginBlock)
		err := app.BeginBlock(ctx)
		ctx.Close()
		if err != nil {
			return appStep{f: &finding{"app-error", fmt.Sprintf("%s: BeginBlock failed: %v", a.letterString(*l), err)}}
		}
	}

	var calls []bool
	obs := l.Op
	if l.Op == "add" {
		ec := *a.commits[l.commit]
		tx := transaction.NewTransaction(0, nil, roothash.MethodExecutorCommit, &roothash.ExecutorCommit{ID: runtimeID, Commits: []commitment.ExecutorCommitment{ec}})
		ctx := as.NewContext(abciAPI.ContextDeliverTx)
		txCtx := ctx.NewTransaction()
		txErr := app.ExecuteTx(txCtx, tx)
		if txErr == nil {
			txCtx.Commit()
		}
		txCtx.Close()
		ctx.Close()
		accept, reason := a.refAdd(ref, l.Node, l.Sched, l.val)
		obs = fmt.Sprintf("tx:%s:%s", reasonName[reason], errShort(txErr))
		if accept != (txErr == nil) {
			return appStep{obs: obs, f: &finding{"admission", fmt.Sprintf("%s: transaction returned %v but by the rule the commitment %s (%s)", a.letterString(*l), txErr, counts(accept), reasonName[reason])}}
		}
		if !accept {
			// The transaction fails and is not part of a block; nothing may have changed.
			after, _, err := readRuntimeState(as)
			if err != nil {
				return appStep{herr: err}
			}
			if !bytes.Equal(cbor.Marshal(after), cbor.Marshal(rt)) {
				return appStep{obs: obs, f: &finding{"rejected-changed-state", fmt.Sprintf("%s: failed transaction changed the runtime state", a.letterString(*l))}}
			}
			return appStep{obs: obs}
		}
		calls = append(calls, false)
	}
	// Does the armed timer expire in this block?
	mid, midIdx, err := readRuntimeState(as)
	if err != nil {
		return appStep{herr: err}
	}
	if (mid.NextTimeout == roothash.TimeoutNever) != (len(midIdx) == 0) || (len(midIdx) == 1 && midIdx[0] != mid.NextTimeout) || len(midIdx) > 1 {
		return appStep{obs: obs, f: &finding{"timer", fmt.Sprintf("%s: NextTimeout=%d but the timeout queue holds %v", a.letterString(*l), mid.NextTimeout, midIdx)}}
	}
	fires := mid.NextTimeout == height
	if fires {
		calls = append(calls, true)
	}

	// EndBlock.
	ctx := as.NewContext(abciAPI.ContextEndBlock)
	_, err = app.EndBlock(ctx)
	discEvent := ctx.HasEvent(roothashapp.AppName, &roothash.ExecutionDiscrepancyDetectedEvent{})
	finEvent := ctx.HasEvent(roothashapp.AppName, &roothash.FinalizedEvent{})
	ctx.Close()
	if err != nil {
		return appStep{obs: obs, f: &finding{"app-error", fmt.Sprintf("%s: EndBlock failed: %v", a.letterString(*l), err)}}
	}
	after, idx, err := readRuntimeState(as)
	if err != nil {
		return appStep{herr: err}
	}

	// Observation.
	var o endObs
	o.started = discEvent
	prev := rt.LastBlock
	switch {
	case after.LastBlock.Header.Round == prev.Header.Round:
		o.block = blkNone
		if !bytes.Equal(cbor.Marshal(after.LastBlock), cbor.Marshal(prev)) {
			return appStep{obs: obs, f: &finding{"block", fmt.Sprintf("%s: last block changed without a new round", a.letterString(*l))}}
		}
		if finEvent {
			return appStep{obs: obs, f: &finding{"block", fmt.Sprintf("%s: Finalized event without a new block", a.letterString(*l))}}
		}
	case after.LastBlock.Header.Round == prev.Header.Round+1 && after.LastBlock.Header.HeaderType == block.Normal:
		o.block = blkNormal
	case after.LastBlock.Header.Round == prev.Header.Round+1 && after.LastBlock.Header.HeaderType == block.RoundFailed:
		o.block = blkFailed
	default:
		return appStep{obs: obs, f: &finding{"block", fmt.Sprintf("%s: unexpected new block round=%d type=%d", a.letterString(*l), after.LastBlock.Header.Round, after.LastBlock.Header.HeaderType)}}
	}
	obs += fmt.Sprintf(":timer-fires=%v:%s", fires, o)
	expected := a.simulate(*ref, calls)
	nref, ok := expected[o]
	if !ok {
		var ex []string
		for k := range expected {
			ex = append(ex, k.String())
		}
		sort.Strings(ex)
		phase := "before discrepancy"
		if ref.resolve {
			phase = "during discrepancy resolution"
		}
		return appStep{obs: obs, f: &finding{"verdict", fmt.Sprintf("%s (%s, processing calls with timeout=%v): application ended the block with [%s] but the rule allows only [%s]", a.letterString(*l), phase, calls, o, strings.Join(ex, "; "))}}
	}
	switch o.block {
	case blkNormal:
		// The new block carries exactly the finalised proposal.
		best := a.refBest(&nref)
		sn := a.schedNode[best]
		prop := a.commits[a.commitOf[[3]int{sn, sn, int(nref.votes[best][sn])}]].Header.Header
		h := after.LastBlock.Header
		ph := prev.Header.EncodedHash()
		if h.StateRoot != *prop.StateRoot || h.IORoot != *prop.IORoot || h.MessagesHash != *prop.MessagesHash || h.InMessagesHash != *prop.InMessagesHash || !h.PreviousHash.Equal(&ph) || h.Namespace != prev.Header.Namespace {
			return appStep{obs: obs, f: &finding{"block", fmt.Sprintf("%s: Normal block header (state root %s) is not the finalised proposal of %s (state root %s)", a.letterString(*l), h.StateRoot, a.names[sn], prop.StateRoot)}}
		}
	case blkFailed:
		h := after.LastBlock.Header
		ph := prev.Header.EncodedHash()
		var empty = block.NewEmptyBlock(prev, 0, block.RoundFailed).Header
		if h.StateRoot != prev.Header.StateRoot || h.IORoot != empty.IORoot || h.MessagesHash != empty.MessagesHash || h.InMessagesHash != empty.InMessagesHash || !h.PreviousHash.Equal(&ph) {
			return appStep{obs: obs, f: &finding{"block", fmt.Sprintf("%s: RoundFailed block is not empty / changes the state root (%s -> %s)", a.letterString(*l), prev.Header.StateRoot, h.StateRoot)}}
		}
	}
	if o.block != blkNone {
		// Round over: fresh pool, timer disarmed.
		if !finEvent {
			return appStep{obs: obs, f: &finding{"block", fmt.Sprintf("%s: new block without a Finalized event", a.letterString(*l))}}
		}
		p := after.CommitmentPool
		if p == nil || p.Discrepancy || len(p.SchedulerCommitments) != 0 || after.NextTimeout != roothash.TimeoutNever || len(idx) != 0 {
			return appStep{obs: obs, f: &finding{"state", fmt.Sprintf("%s: after the round ended the pool is not fresh or a timeout is still armed (%d, queue %v)", a.letterString(*l), after.NextTimeout, idx)}}
		}
		*ref = refState{}
		return appStep{obs: obs, terminal: true}
	}
	// Round still open: the stored pool must hold exactly what counts.
	*ref = nref
	var av absView
	if _, _, err := a.encodePool(after.CommitmentPool, nil, &av); err != nil {
		return appStep{herr: err}
	}
	if d := a.diffState(&av, ref); d != "" {
		return appStep{obs: obs, f: &finding{"state", fmt.Sprintf("after %s the stored pool and the rule disagree on what counts: %s", a.letterString(*l), d)}}
	}
	// Timer bookkeeping: the queue mirrors NextTimeout, an expired timer never stays.
	if (after.NextTimeout == roothash.TimeoutNever) != (len(idx) == 0) || (len(idx) == 1 && idx[0] != after.NextTimeout) || len(idx) > 1 {
		return appStep{obs: obs, f: &finding{"timer", fmt.Sprintf("%s: NextTimeout=%d but the timeout queue holds %v", a.letterString(*l), after.NextTimeout, idx)}}
	}
	if after.NextTimeout != roothash.TimeoutNever && after.NextTimeout <= height {
		return appStep{obs: obs, f: &finding{"timer", fmt.Sprintf("%s: round still open at height %d with the timer at %d (expired, would wait forever)", a.letterString(*l), height, after.NextTimeout)}}
	}
	// Normalise heights.
	if after.NextTimeout != roothash.TimeoutNever {
		after.NextTimeout -= height - baseHeight
		obs += fmt.Sprintf(":timer-in=%d", after.NextTimeout-baseHeight)
	} else {
		obs += ":timer-off"
	}
	return appStep{obs: obs, next: after}
}

func errShort(err error) string {
	if err == nil {
		return "ok"
	}
	return errName(err)
}

type appArtefact struct {
	Layer   string    `json:"layer"`
	Config  appConfig `json:"config"`
	Members string    `json:"members"`
	Letters []letter  `json:"letters"`
	Text    []string  `json:"text"`
}

func cloneRT(rt *roothash.RuntimeState) (*roothash.RuntimeState, error) {
	var q roothash.RuntimeState
	if err := cbor.Unmarshal(cbor.Marshal(rt), &q); err != nil {
		return nil, err
	}
	return &q, nil
}

func runAppSeq(a *appWorld, seq []letter) (string, []string) {
	rt, err := cloneRT(a.initial)
	if err != nil {
		return "harness: " + err.Error(), nil
	}
	var ref refState
	var trace []string
	for i, l := range seq {
		k, ok := a.findLetter(l)
		if !ok {
			return fmt.Sprintf("harness: step %d: letter not in the alphabet", i), trace
		}
		res := a.step(rt, &ref, &k)
		trace = append(trace, res.obs)
		if res.herr != nil {
			return fmt.Sprintf("harness: step %d: %v", i, res.herr), trace
		}
		if res.f != nil {
			return fmt.Sprintf("step %d [%s]: %s", i, res.f.class, res.f.what), trace
		}
		if res.terminal {
			if i != len(seq)-1 {
				return fmt.Sprintf("harness: step %d ended the round before the end of the sequence", i), trace
			}
			break
		}
		if res.next != nil {
			rt = res.next
		}
	}
	return "", trace
}

type appNode struct {
	rt     []byte // CBOR of the normalised runtime state
	ref    refState
	parent uint32
	via    uint16
}

type appReport struct {
	Config      string `json:"config"`
	Members     string `json:"members"`
	Letters     int    `json:"letters"`
	States      int    `json:"states"`
	Transitions int64  `json:"transitions"`
	RoundsEnded int64  `json:"transitions_ending_the_round"`
	Depth       int    `json:"bfs_levels"`
	Complete    bool   `json:"fixpoint_reached"`
}

// exploreApp is the breadth-first exploration of one app configuration.
func exploreApp(r *ev.Run, a *appWorld) (rep appReport, obs map[string]int64, viols []ev.Violation, herr error) {
	rep = appReport{Config: a.cfg.String(), Members: a.describe(), Letters: len(a.letters)}
	obs = map[string]int64{}
	nodes := []appNode{{rt: cbor.Marshal(a.initial)}}
	index := map[string]uint32{}
	keyOf := func(n *appNode) string { return string(n.ref.appendKey(append([]byte(nil), n.rt...))) }
	index[keyOf(&nodes[0])] = 0
	path := func(id uint32) []letter {
		var rev []letter
		for id != 0 {
			rev = append(rev, a.letters[nodes[id].via])
			id = nodes[id].parent
		}
		for i, j := 0, len(rev)-1; i < j; i, j = i+1, j-1 {
			rev[i], rev[j] = rev[j], rev[i]
		}
		return rev
	}
	type out struct {
		cands []appNode
		obs   map[string]int64
		trans int64
		ended int64
		viols []viol
		herr  error
	}
	lo := 0
	for lo < len(nodes) {
		hi := len(nodes)
		rep.Depth++
		outs := make([]out, hi-lo)
		ev.ParallelRange(hi-lo, 0, func(i int) {
			id := uint32(lo + i)
			o := &outs[i]
			o.obs = map[string]int64{}
			for li := range a.letters {
				var rt roothash.RuntimeState
				if err := cbor.Unmarshal(nodes[id].rt, &rt); err != nil {
					o.herr = err
					return
				}
				ref := nodes[id].ref
				res := a.step(&rt, &ref, &a.letters[li])
				o.trans++
				o.obs[res.obs]++
				if res.herr != nil {
					o.herr = fmt.Errorf("letter %s: %w", a.letterString(a.letters[li]), res.herr)
					return
				}
				if res.f != nil {
					o.viols = append(o.viols, viol{id, uint16(li), res.f})
					continue
				}
				if res.terminal {
					o.ended++
					continue
				}
				if res.next != nil {
					o.cands = append(o.cands, appNode{rt: cbor.Marshal(res.next), ref: ref, parent: id, via: uint16(li)})
				}
			}
		})
		var vs []viol
		for i := range outs {
			o := &outs[i]
			rep.Transitions += o.trans
			rep.RoundsEnded += o.ended
			for k, v := range o.obs {
				obs[k] += v
			}
			if o.herr != nil && herr == nil {
				herr = o.herr
			}
			vs = append(vs, o.viols...)
			for ci := range o.cands {
				k := keyOf(&o.cands[ci])
				if _, ok := index[k]; ok {
					continue
				}
				index[k] = uint32(len(nodes))
				nodes = append(nodes, o.cands[ci])
			}
		}
		lo = hi
		if herr != nil {
			break
		}
		if len(vs) > 0 {
			done := map[string]bool{}
			for _, v := range vs {
				if done[v.f.class] {
					continue
				}
				done[v.f.class] = true
				seq := append(path(v.id), a.letters[v.via])
				var text []string
				for _, l := range seq {
					text = append(text, a.letterString(l))
				}
				res, _ := runAppSeq(a, seq)
				if res == "" || strings.HasPrefix(res, "harness") {
					herr = fmt.Errorf("violation [%s] %s does not reproduce sequentially (%s): %v", v.f.class, v.f.what, res, text)
					continue
				}
				viols = append(viols, ev.Violation{
					Engine:   "poolmc",
					Key:      fmt.Sprintf("poolmc %s :: %s :: %s", a.cfg, v.f.class, strings.Join(text, " ")),
					What:     fmt.Sprintf("%s [%s], blocks [%s]: %s", a.cfg, a.describe(), strings.Join(text, " "), res),
					Artefact: appArtefact{Layer: "app", Config: a.cfg, Members: a.describe(), Letters: seq, Text: text},
				})
			}
			break
		}
		if r.Expired() {
			r.Cap("deadline")
			break
		}
	}
	if lo != len(nodes) {
		r.Cap(a.cfg.String() + " not explored to fixpoint")
	}
	rep.States = len(nodes)
	rep.Complete = lo == len(nodes) && herr == nil && len(viols) == 0
	if len(nodes) > 1 && rep.Complete {
		var text []string
		for _, l := range path(uint32(len(nodes) - 1)) {
			text = append(text, a.letterString(l))
		}
		r.Sample(map[string]any{"layer": "app", "config": a.cfg.String(), "members": a.describe(), "deepest_state_blocks": text}, 2)
	}
	return
}

func appConfigs(thorough bool) []appConfig {
	var out []appConfig
	shapes := []shape{{N: 2, M: 1, Ov: 1, Round: 7, Ranks: []int{0, 1}}}
	if thorough {
		shapes = []shape{
			{N: 2, M: 1, Ov: -1, Round: 7, Ranks: []int{0, 1}},
			{N: 2, M: 2, Ov: 1, Round: 7, Ranks: []int{0, 1}},
		}
	}
	for _, sh := range shapes {
		for s := 0; s <= 1; s++ {
			for _, t := range []int64{3, 1000} {
				out = append(out, appConfig{Shape: sh, Stragglers: s, RoundTimeout: t})
			}
		}
	}
	return out
}

func replayApp(r *ev.Run, raw []byte) {
	var a appArtefact
	if err := json.Unmarshal(raw, &a); err != nil {
		fmt.Println("cannot parse artefact:", err)
		os.Exit(2)
	}
	w, err := newAppWorld(a.Config)
	if err != nil {
		fmt.Println("cannot build configuration:", err)
		os.Exit(2)
	}
	res, tr := runAppSeq(w, a.Letters)
	fmt.Println("config:", w.cfg, "members:", w.describe())
	for i, l := range a.Letters {
		k, _ := w.findLetter(l)
		o := ""
		if i < len(tr) {
			o = tr[i]
		}
		fmt.Printf("  %d. %s -> %s\n", i, w.letterString(k), o)
	}
	if strings.HasPrefix(res, "harness") {
		fmt.Println("HARNESS-ERROR:", res)
		os.Exit(2)
	}
	if res != "" {
		fmt.Printf("VIOLATION property=C11 replay=%s\n  what: %s\n", r.Replay, res)
		os.Exit(1)
	}
	fmt.Println("replay: property held")
	os.Exit(0)
}
