// poolmc decides C11: for every committee shape it explores the full reachable
// state space of the real commitment.Pool (breadth first, to fixpoint, no depth
// bound) and compares every transition with an independent reference written
// from the property text.
package main

import (
	"bytes"
	"encoding/json"
	"fmt"
	"os"
	"reflect"
	"runtime/debug"
	"runtime/pprof"
	"sort"
	"strings"
	"sync"
	"time"

	"github.com/oasisprotocol/oasis-core/go/common/crypto/signature"
	"github.com/oasisprotocol/oasis-core/go/common/logging"
	"github.com/oasisprotocol/oasis-core/go/roothash/api/commitment"

	"verif/harness/internal/ev"
)

// ---- one transition ----------------------------------------------------------

type finding struct {
	class string
	what  string
}

var errTable = []error{nil, commitment.ErrNotInCommittee, commitment.ErrAlreadyCommitted, commitment.ErrBadExecutorCommitment,
	commitment.ErrStillWaiting, commitment.ErrDiscrepancyDetected, commitment.ErrNoSchedulerCommitment,
	commitment.ErrBadSchedulerCommitment, commitment.ErrInsufficientVotes}

var errNames = []string{"nil", "ErrNotInCommittee", "ErrAlreadyCommitted", "ErrBadExecutorCommitment", "ErrStillWaiting",
	"ErrDiscrepancyDetected", "ErrNoSchedulerCommitment", "ErrBadSchedulerCommitment", "ErrInsufficientVotes", "other-error"}

func errIndex(err error) int {
	for i, e := range errTable {
		if err == e {
			return i
		}
	}
	return len(errTable)
}

func errName(err error) string {
	i := errIndex(err)
	if i == len(errTable) {
		return "other(" + err.Error() + ")"
	}
	return errNames[i]
}

// Observation codes (what happened in a transition), kept as integers on the
// hot path and turned into text for the evidence.
const obsCodes = 4096

func obsAdd(reason, err int) int { return reason*16 + err }
func obsProcess(resolve bool, s int, timeout bool, why, err int) int {
	c := 0
	if resolve {
		c = 1
	}
	c = c*3 + s
	c *= 2
	if timeout {
		c++
	}
	return 1024 + (c*8+why)*16 + err
}

func obsString(code int) string {
	if code < 1024 {
		return fmt.Sprintf("add:%s:%s", reasonName[code/16], errNames[code%16])
	}
	c := code - 1024
	err := c % 16
	c /= 16
	why := c % 8
	c /= 8
	to := c%2 == 1
	c /= 2
	s := c % 3
	phase := "detect"
	if c/3 == 1 {
		phase = "resolve"
	}
	return fmt.Sprintf("process:%s:stragglers=%d:timeout=%v:%s:%s", phase, s, to, whyName[why], errNames[err])
}

// classify maps the result of ProcessCommitments to a verdict the way the
// roothash application does (finalization.go: nil finalises, ErrStillWaiting
// returns, ErrDiscrepancyDetected emits the discrepancy event and re-arms the
// timer, the three listed errors fail the round, anything else aborts).
func classify(err error) int {
	switch err {
	case nil:
		return vFinal
	case commitment.ErrStillWaiting:
		return vWait
	case commitment.ErrDiscrepancyDetected:
		return vResolve
	case commitment.ErrNoSchedulerCommitment, commitment.ErrBadSchedulerCommitment, commitment.ErrInsufficientVotes:
		return vFail
	}
	return vOther
}

// apply runs one letter on the real pool p and on the reference state ref and
// compares them.  before is p's encoding; the new encoding is appended to out.
func (w *world) apply(p *commitment.Pool, ref *refState, l *letter, before, out []byte, a *absView) (after []byte, obs int, f *finding, herr error) {
	defer func() {
		if x := recover(); x != nil {
			f = &finding{"panic", fmt.Sprintf("%s panicked: %v", w.letterString(*l), x)}
			herr = nil
		}
	}()
	switch l.Op {
	case "add":
		err := p.AddVerifiedExecutorCommitment(w.committee, w.commits[l.commit])
		accept, reason := w.refAdd(ref, l.Node, l.Sched, l.val)
		obs = obsAdd(reason, errIndex(err))
		if accept != (err == nil) {
			return nil, obs, &finding{"admission", fmt.Sprintf("%s: pool returned %s but by the rule the commitment %s (%s)", w.letterString(*l), errName(err), counts(accept), reasonName[reason])}, nil
		}
		if after, _, herr = w.encodePool(p, out, a); herr != nil {
			return
		}
		if !accept && !bytes.Equal(before, after) {
			return after, obs, &finding{"rejected-changed-pool", fmt.Sprintf("%s: rejected with %s (%s) but the pool changed", w.letterString(*l), errName(err), reasonName[reason])}, nil
		}
	case "process":
		sc, err := p.ProcessCommitments(w.committee, uint16(l.Strag), l.Timeout)
		v := classify(err)
		allowed, why := w.refVerdict(ref, l.Strag, l.Timeout)
		obs = obsProcess(ref.resolve, l.Strag, l.Timeout, why, errIndex(err))
		if v&allowed == 0 {
			phase := "detect"
			if ref.resolve {
				phase = "resolve"
			}
			return nil, obs, &finding{"verdict", fmt.Sprintf("%s in phase %s: pool answered %s (%s) but the rule allows only %s (%s)", w.letterString(*l), phase, verdictName(v), errName(err), verdictSet(allowed), whyName[why])}, nil
		}
		switch v {
		case vFinal:
			// The accepted result must be the chosen scheduler's own proposal.
			best := w.refBest(ref)
			sn := w.schedNode[best]
			want := w.commitOf[[3]int{sn, sn, int(ref.votes[best][sn])}]
			if sc == nil || sc.Commitment == nil {
				return nil, obs, &finding{"final-commitment", fmt.Sprintf("%s: finalised without a scheduler commitment", w.letterString(*l))}, nil
			}
			got, ok := w.commitIdx[sc.Commitment]
			if !ok {
				got, ok = w.findCommit(sc.Commitment)
			}
			if !ok || got != want {
				return nil, obs, &finding{"final-commitment", fmt.Sprintf("%s: finalised %s, expected the proposal %s of the best-ranked committed scheduler", w.letterString(*l), w.commitString(sc.Commitment), w.commitString(w.commits[want]))}, nil
			}
		case vResolve:
			w.refStartResolution(ref)
		}
		if after, _, herr = w.encodePool(p, out, a); herr != nil {
			return
		}
	}
	if d := w.diffState(a, ref); d != "" {
		return after, obs, &finding{"state", fmt.Sprintf("after %s the pool and the rule disagree on what counts: %s", w.letterString(*l), d)}, nil
	}
	return after, obs, nil, nil
}

func counts(b bool) string {
	if b {
		return "counts"
	}
	return "does not count"
}

func (w *world) commitString(ec *commitment.ExecutorCommitment) string {
	i, ok := w.commitIdx[ec]
	if !ok {
		var ok2 bool
		if i, ok2 = w.findCommit(ec); !ok2 {
			return "<unknown commitment>"
		}
	}
	for _, l := range w.letters {
		if l.Op == "add" && l.commit == i {
			return fmt.Sprintf("(node=%s,sched=%s,%s)", w.names[l.Node], w.names[l.Sched], l.Val)
		}
	}
	return "<?>"
}

// diffState compares the pool (abstracted) with the reference state.
func (w *world) diffState(a *absView, ref *refState) string {
	if a.resolve != ref.resolve {
		return fmt.Sprintf("pool.Discrepancy=%v, rule says resolution started=%v", a.resolve, ref.resolve)
	}
	if best := w.refBest(ref); a.highest != best {
		return fmt.Sprintf("pool.HighestRank=%d, best committed rank by the rule=%d (-1 = none)", a.highest, best)
	}
	for r := 0; r < maxRanks; r++ {
		for n := 0; n < maxNodes; n++ {
			if a.votes[r][n] != ref.votes[r][n] {
				return fmt.Sprintf("vote of %s for the scheduler of rank %d: pool has %s, rule has %s", w.names[n], r, valName[a.votes[r][n]], valName[ref.votes[r][n]])
			}
		}
		want := 0
		if r < w.sh.N {
			sn := w.schedNode[r]
			if v := ref.votes[r][sn]; v == valA || v == valB {
				want = w.commitOf[[3]int{sn, sn, int(v)}] + 1
			}
		}
		if a.commit[r] != want {
			return fmt.Sprintf("stored proposal for rank %d: pool has commitment #%d, rule has #%d (0 = none)", r, a.commit[r], want)
		}
	}
	return ""
}

// ---- replayable artefact -----------------------------------------------------

type artefact struct {
	Shape   shape    `json:"shape"`
	Members string   `json:"members"`
	Letters []letter `json:"letters"`
	Text    []string `json:"text"`
}

// runSeq executes a letter sequence on a fresh real pool.  Between letters the
// pool goes through a CBOR round trip, as it does in the consensus state.
func runSeq(w *world, seq []letter) (string, []string) {
	p := commitment.NewPool()
	var ref refState
	var trace []string
	var av absView
	key, _, err := w.encodePool(p, nil, &av)
	if err != nil {
		return "harness: " + err.Error(), nil
	}
	for i, l := range seq {
		k, ok := w.findLetter(l)
		if !ok {
			return fmt.Sprintf("harness: step %d: letter not in the alphabet of this shape", i), trace
		}
		after, obs, f, herr := w.apply(p, &ref, &k, key, nil, &av)
		trace = append(trace, obsString(obs))
		if herr != nil {
			return fmt.Sprintf("step %d: harness: %v", i, herr), trace
		}
		if f != nil {
			return fmt.Sprintf("step %d [%s]: %s", i, f.class, f.what), trace
		}
		q, err := cborRoundTrip(p)
		if err != nil {
			return fmt.Sprintf("step %d [cbor]: pool does not survive a CBOR round trip: %v", i, err), trace
		}
		k2, _, err := w.encodePool(q, nil, &av)
		if err != nil || !bytes.Equal(k2, after) {
			return fmt.Sprintf("step %d [cbor]: pool changes in a CBOR round trip (%v)", i, err), trace
		}
		p, key = q, after
	}
	return "", trace
}

// ---- breadth-first exploration -------------------------------------------------

type cand struct {
	key    string
	parent uint32
	via    uint16
}

type viol struct {
	id  uint32
	via uint16
	f   *finding
}

type explorer struct {
	r      *ev.Run
	w      *world
	keys   []string
	parent []uint32
	via    []uint16
	index  map[string]uint32
	trans  int64
	obs    [obsCodes]int64
	herr   error
	viols  []viol
}

type chunkResult struct {
	aborted bool
	cands   []cand
	trans   int64
	viols   []viol
	herr    error
}

// expand applies every letter to every state in [lo,hi).  It only reads the
// shared index; new states are returned as candidates.
func (e *explorer) expand(lo, hi uint32, obs *[obsCodes]int64) chunkResult {
	w := e.w
	var res chunkResult
	seen := map[string]struct{}{}
	var buf, kbuf []byte
	var av absView
	for id := lo; id < hi; id++ {
		key := e.keys[id]
		implKey := []byte(key[:len(key)-refKeyLen])
		ref0 := refFromKey([]byte(key[len(key)-refKeyLen:]))
		p, used := w.decodePool(implKey)
		// Once per state: the encoding is canonical, and the pool is plain data
		// (a CBOR round trip, which is how the consensus layer stores it between
		// transactions, yields the same state).
		if k2, _, err := w.encodePool(p, nil, &av); used != len(implKey) || err != nil || !bytes.Equal(k2, implKey) {
			res.herr = fmt.Errorf("state %d: encoding is not canonical (%v)", id, err)
			return res
		}
		if c, err := cborRoundTrip(p); err != nil {
			res.viols = append(res.viols, viol{e.parent[id], e.via[id], &finding{"cbor", fmt.Sprintf("the pool does not survive a CBOR round trip: %v", err)}})
			continue
		} else if k3, _, err := w.encodePool(c, nil, &av); err != nil || !bytes.Equal(k3, implKey) {
			res.viols = append(res.viols, viol{e.parent[id], e.via[id], &finding{"cbor", fmt.Sprintf("the pool changes in a CBOR round trip (%v)", err)}})
			continue
		}
		for li := range w.letters {
			l := &w.letters[li]
			ref := ref0
			after, ob, f, herr := w.apply(p, &ref, l, implKey, buf[:0], &av)
			res.trans++
			obs[ob]++
			if herr != nil {
				res.herr = fmt.Errorf("state %d letter %s: %w", id, w.letterString(*l), herr)
				return res
			}
			if f != nil {
				res.viols = append(res.viols, viol{id, uint16(li), f})
				p, _ = w.decodePool(implKey)
				continue
			}
			buf = after
			changed := !bytes.Equal(after, implKey)
			if !changed && ref == ref0 {
				continue
			}
			kbuf = append(kbuf[:0], after...)
			kbuf = ref.appendKey(kbuf)
			if _, ok := e.index[string(kbuf)]; !ok {
				if _, ok := seen[string(kbuf)]; !ok {
					nk := string(kbuf)
					seen[nk] = struct{}{}
					res.cands = append(res.cands, cand{nk, id, uint16(li)})
				}
			}
			if changed {
				p, _ = w.decodePool(implKey)
			}
		}
	}
	return res
}

func (e *explorer) path(id uint32) []letter {
	var rev []letter
	for id != 0 {
		rev = append(rev, e.w.letters[e.via[id]])
		id = e.parent[id]
	}
	for i, j := 0, len(rev)-1; i < j; i, j = i+1, j-1 {
		rev[i], rev[j] = rev[j], rev[i]
	}
	return rev
}

type shapeReport struct {
	Shape       string `json:"shape"`
	Members     string `json:"members"`
	Letters     int    `json:"letters"`
	States      int    `json:"states"`
	Transitions int64  `json:"transitions"`
	Depth       int    `json:"bfs_levels"`
	Complete    bool   `json:"fixpoint_reached"`
}

func explore(r *ev.Run, w *world, maxStates int) (*explorer, shapeReport) {
	e := &explorer{r: r, w: w, index: map[string]uint32{}}
	rep := shapeReport{Shape: w.sh.String(), Members: w.describe(), Letters: len(w.letters)}
	p0 := commitment.NewPool()
	var av absView
	k0, _, err := w.encodePool(p0, nil, &av)
	if err != nil {
		e.herr = err
		return e, rep
	}
	var ref0 refState
	k0 = ref0.appendKey(k0)
	e.keys = append(e.keys, string(k0))
	e.parent = append(e.parent, 0)
	e.via = append(e.via, 0)
	e.index[string(k0)] = 0
	workers := ev.Workers()
	var tExpand, tMerge time.Duration
	defer func() {
		if os.Getenv("VERIF_POOLMC_VERBOSE") != "" {
			fmt.Printf("  expand %.2fs merge %.2fs\n", tExpand.Seconds(), tMerge.Seconds())
		}
	}()
	lo := uint32(0)
	for lo < uint32(len(e.keys)) {
		hi := uint32(len(e.keys))
		rep.Depth++
		t0 := time.Now()
		// Split the level into chunks.
		n := int(hi - lo)
		chunk := 256
		nch := (n + chunk - 1) / chunk
		results := make([]chunkResult, nch)
		if nch == 1 || workers == 1 {
			for c := 0; c < nch; c++ {
				a := lo + uint32(c*chunk)
				b := a + uint32(chunk)
				if b > hi {
					b = hi
				}
				results[c] = e.expand(a, b, &e.obs)
			}
		} else {
			var wg sync.WaitGroup
			var mu sync.Mutex
			next := 0
			wobs := make([][obsCodes]int64, workers)
			for k := 0; k < workers; k++ {
				wg.Add(1)
				go func(k int) {
					defer wg.Done()
					for {
						mu.Lock()
						c := next
						next++
						mu.Unlock()
						if c >= nch {
							return
						}
						if e.r.Expired() {
							results[c].aborted = true
							continue
						}
						a := lo + uint32(c*chunk)
						b := a + uint32(chunk)
						if b > hi {
							b = hi
						}
						results[c] = e.expand(a, b, &wobs[k])
					}
				}(k)
			}
			wg.Wait()
			for k := range wobs {
				for i, v := range wobs[k] {
					e.obs[i] += v
				}
			}
		}
		tExpand += time.Since(t0)
		t0 = time.Now()
		// Deterministic sequential merge.
		aborted := false
		for c := range results {
			res := &results[c]
			if res.aborted {
				aborted = true
			}
			e.trans += res.trans
			if res.herr != nil && e.herr == nil {
				e.herr = res.herr
			}
			e.viols = append(e.viols, res.viols...)
			for _, cd := range res.cands {
				if _, ok := e.index[cd.key]; ok {
					continue
				}
				id := uint32(len(e.keys))
				e.index[cd.key] = id
				e.keys = append(e.keys, cd.key)
				e.parent = append(e.parent, cd.parent)
				e.via = append(e.via, cd.via)
			}
		}
		tMerge += time.Since(t0)
		if aborted {
			r.Cap("deadline")
			break
		}
		lo = hi
		if e.herr != nil || len(e.viols) > 0 {
			break
		}
		if len(e.keys) > maxStates {
			r.Cap(fmt.Sprintf("state cap %d reached for shape %s", maxStates, w.sh))
			break
		}
		if r.Expired() {
			r.Cap("deadline")
			break
		}
	}
	rep.States = len(e.keys)
	rep.Transitions = e.trans
	rep.Complete = lo == uint32(len(e.keys)) && e.herr == nil && len(e.viols) == 0
	return e, rep
}

// ---- shapes ---------------------------------------------------------------------

func subsets(n, k int) [][]int {
	var out [][]int
	var rec func(start int, cur []int)
	rec = func(start int, cur []int) {
		if len(cur) == k {
			out = append(out, append([]int(nil), cur...))
			return
		}
		for i := start; i < n; i++ {
			rec(i+1, append(cur, i))
		}
	}
	rec(0, nil)
	return out
}

func allRanks(n int) []int {
	var r []int
	for i := 0; i < n; i++ {
		r = append(r, i)
	}
	return r
}

// distinct returns the number of distinct committee members of a shape.
func distinct(n, m, ov int) int {
	if ov >= 0 {
		return n + m - 1
	}
	return n + m
}

// shapesFor lists the committee shapes of a tier.
//
// Both tiers: primary n in 1..3, backup m in 1..3, without and with one node in
// both roles.  With one or two workers all ranks are offered as schedulers.
// With three workers the number of ranks offered per exploration depends on
// the number d of distinct members (one exploration per subset of that size):
//
//	d    quick                                thorough
//	3    all 3 ranks                          all 3 ranks
//	4    every pair                           all 3 ranks
//	5    every pair (no double role) /        every pair
//	     every single rank (double role)
//	6    every single rank                    every single rank + the pair {0,1}
//
// Quick places the double role on the worker holding rank 0; thorough on every
// worker in turn, and repeats the shapes with two workers, or three workers and
// three distinct members, for a second round number (a different rotation of
// the ranks).
func shapesFor(thorough bool) []shape {
	var out []shape
	for n := 1; n <= 3; n++ {
		for m := 1; m <= 3; m++ {
			for ov := -1; ov < n; ov++ {
				if !thorough && ov >= 0 && ov != n-1 {
					continue
				}
				// The round rotates the ranks: worker i has rank (round+i) mod n.
				rounds := []uint64{uint64(3*n + 1)}
				d := distinct(n, m, ov)
				if thorough && n > 1 && (n == 2 || d <= 3) {
					rounds = append(rounds, uint64(3*n+2))
				}
				k := n // ranks offered per exploration
				if n == 3 {
					switch {
					case d <= 3:
						k = 3
					case d == 4 && thorough:
						k = 3
					case d == 4:
						k = 2
					case d == 5 && (thorough || ov < 0):
						k = 2
					case d == 5:
						k = 1
					case thorough:
						k = 2
					default:
						k = 1
					}
				}
				for _, round := range rounds {
					if n == 3 && d == 6 && thorough {
						// Largest committee: every single rank, and the pair of the two best ranks.
						for _, rs := range subsets(n, 1) {
							out = append(out, shape{N: n, M: m, Ov: ov, Round: round, Ranks: rs})
						}
						out = append(out, shape{N: n, M: m, Ov: ov, Round: round, Ranks: []int{0, 1}})
						continue
					}
					for _, rs := range subsets(n, k) {
						out = append(out, shape{N: n, M: m, Ov: ov, Round: round, Ranks: rs})
					}
				}
			}
		}
	}
	sort.SliceStable(out, func(i, j int) bool {
		a, b := out[i], out[j]
		ca := distinct(a.N, a.M, a.Ov)*len(a.Ranks)*10 + a.N
		cb := distinct(b.N, b.M, b.Ov)*len(b.Ranks)*10 + b.N
		return ca < cb
	})
	return out
}

// ---- main -------------------------------------------------------------------------

func main() {
	if len(os.Args) < 2 || os.Args[1] != "C11" {
		fmt.Println("usage: poolmc C11 [--tier quick|thorough] [--replay file]")
		os.Exit(2)
	}
	_ = logging.Initialize(nil, logging.FmtLogfmt, logging.LevelError, nil)
	debug.SetGCPercent(400)
	if pf := os.Getenv("VERIF_POOLMC_PROF"); pf != "" {
		f, _ := os.Create(pf)
		_ = pprof.StartCPUProfile(f)
		defer pprof.StopCPUProfile()
	}
	signature.SetChainContext(chainContext)
	r := ev.Parse("model_checking")
	// The canonical state encoding covers exactly these fields.
	if reflect.TypeOf(commitment.Pool{}).NumField() != 3 || reflect.TypeOf(commitment.SchedulerCommitment{}).NumField() != 2 {
		r.HarnessError("commitment.Pool / SchedulerCommitment have a different set of fields than the canonical encoding of poolmc covers; extend codec.go")
		r.Finish()
	}

	if r.Replay != "" {
		v, err := ev.LoadReplay(r.Replay)
		if err != nil {
			fmt.Println("cannot load replay:", err)
			os.Exit(2)
		}
		b, _ := json.Marshal(v.Artefact)
		var probe struct {
			Layer string `json:"layer"`
		}
		_ = json.Unmarshal(b, &probe)
		if probe.Layer == "app" {
			replayApp(r, b)
		}
		var a artefact
		if err := json.Unmarshal(b, &a); err != nil {
			fmt.Println("cannot parse artefact:", err)
			os.Exit(2)
		}
		w, err := newWorld(a.Shape)
		if err != nil {
			fmt.Println("cannot build shape:", err)
			os.Exit(2)
		}
		res, tr := runSeq(w, a.Letters)
		fmt.Println("shape:", w.sh, "members:", w.describe())
		for i, l := range a.Letters {
			k, _ := w.findLetter(l)
			o := ""
			if i < len(tr) {
				o = tr[i]
			}
			fmt.Printf("  %d. %s -> %s\n", i, w.letterString(k), o)
		}
		if strings.HasPrefix(res, "harness") {
			fmt.Println("HARNESS-ERROR:", res)
			os.Exit(2)
		}
		if res != "" {
			fmt.Printf("VIOLATION property=C11 replay=%s\n  what: %s\n", r.Replay, res)
			os.Exit(1)
		}
		fmt.Println("replay: property held")
		os.Exit(0)
	}

	if r.Deadline.IsZero() {
		// Internal soft deadline (reported as a cap, never as a verdict).
		if r.Thorough() {
			r.Deadline = r.Start.Add(13 * time.Minute)
		} else {
			r.Deadline = r.Start.Add(80 * time.Second)
		}
	}
	shapes := shapesFor(r.Thorough())
	maxStates := 30_000_000
	if s := os.Getenv("VERIF_POOLMC_ONLY"); s != "" {
		// development aid: run only shapes whose description contains the string
		var f []shape
		for _, sh := range shapes {
			if strings.Contains(sh.String(), s) {
				f = append(f, sh)
			}
		}
		shapes = f
	}
	failedShapes := 0
	// App layer.
	var appReports []appReport
	appOutcomes := map[string]int64{}
	if os.Getenv("VERIF_POOLMC_ONLY") == "" || os.Getenv("VERIF_POOLMC_APP") != "" {
		for _, cfg := range appConfigs(r.Thorough()) {
			if failedShapes >= 6 {
				break
			}
			a, err := newAppWorld(cfg)
			if err != nil {
				r.HarnessError("%s: %v", cfg, err)
				continue
			}
			rep, obs, viols, herr := exploreApp(r, a)
			appReports = append(appReports, rep)
			r.Add("states", int64(rep.States))
			r.Add("transitions", rep.Transitions)
			r.Add("app_states", int64(rep.States))
			r.Add("app_transitions", rep.Transitions)
			for k, v := range obs {
				r.Outcome("app:" + k)
				appOutcomes[k] += v
			}
			if herr != nil {
				r.HarnessError("%s: %v", cfg, herr)
			}
			if len(viols) > 0 {
				failedShapes++
			}
			for _, v := range viols {
				r.Violate(v)
			}
			if os.Getenv("VERIF_POOLMC_VERBOSE") != "" {
				fmt.Printf("%-90s letters=%3d states=%7d transitions=%9d rounds-ended=%8d levels=%d\n", rep.Config, rep.Letters, rep.States, rep.Transitions, rep.RoundsEnded, rep.Depth)
			}
		}
	}
	var reports []shapeReport
	var obsTotal [obsCodes]int64
	excluded := map[string]bool{}
	for _, sh := range shapes {
		if failedShapes >= 6 {
			r.Cap("stopped after violations in 6 shapes")
			break
		}
		w, err := newWorld(sh)
		if err != nil {
			r.HarnessError("shape %s: %v", sh, err)
			continue
		}
		for _, x := range w.excluded {
			excluded[x] = true
		}
		r.Add("verify_layer_cases", int64(w.verifyLayerCases))
		for i, x := range w.verifyLayer {
			if i >= 3 {
				break
			}
			r.Violate(ev.Violation{Engine: "poolmc", Key: "c11 verify-layer " + sh.String() + " " + x, What: "shape " + sh.String() + ": " + x, Artefact: map[string]any{"kind": "verify-layer", "shape": sh, "case": x}})
		}
		if r.Expired() {
			r.Cap("deadline")
			break
		}
		e, rep := explore(r, w, maxStates)
		reports = append(reports, rep)
		if !rep.Complete {
			r.Cap("shape " + sh.String() + " not explored to fixpoint")
		}
		r.Add("states", int64(rep.States))
		r.Add("transitions", rep.Transitions)
		for k, v := range e.obs {
			if v > 0 {
				r.Outcome(obsString(k))
				obsTotal[k] += v
			}
		}
		if e.herr != nil {
			r.HarnessError("shape %s: %v", sh, e.herr)
			continue
		}
		if len(e.viols) > 0 {
			failedShapes++
			// All violations of the level at which the first one appeared; report the
			// first of each class (smallest state id, then letter).
			sort.Slice(e.viols, func(i, j int) bool {
				if e.viols[i].id != e.viols[j].id {
					return e.viols[i].id < e.viols[j].id
				}
				return e.viols[i].via < e.viols[j].via
			})
			done := map[string]bool{}
			for _, v := range e.viols {
				if done[v.f.class] {
					continue
				}
				done[v.f.class] = true
				seq := append(e.path(v.id), w.letters[v.via])
				var text []string
				for _, l := range seq {
					text = append(text, w.letterString(l))
				}
				// Confirm on a fresh pool, sequentially.
				res, _ := runSeq(w, seq)
				if res == "" {
					r.HarnessError("shape %s: violation [%s] %s found in exploration does not reproduce sequentially: %v", sh, v.f.class, v.f.what, text)
					continue
				}
				r.Violate(ev.Violation{
					Engine:   "poolmc",
					Key:      fmt.Sprintf("poolmc %s :: %s :: %s", sh, v.f.class, strings.Join(text, " ")),
					What:     fmt.Sprintf("shape %s [%s], history [%s]: %s", sh, w.describe(), strings.Join(text, " "), res),
					Artefact: artefact{Shape: sh, Members: w.describe(), Letters: seq, Text: text},
				})
			}
			continue
		}
		// Sample: the path to the last discovered (deepest) state.
		if len(e.keys) >= 800 {
			var text []string
			for _, l := range e.path(uint32(len(e.keys) - 1)) {
				text = append(text, w.letterString(l))
			}
			r.Sample(map[string]any{"shape": sh.String(), "members": w.describe(), "deepest_state_history": text}, 6)
		}
		if os.Getenv("VERIF_POOLMC_VERBOSE") != "" {
			fmt.Printf("%-60s letters=%3d states=%9d transitions=%11d levels=%d\n", rep.Shape, rep.Letters, rep.States, rep.Transitions, rep.Depth)
		}
	}
	r.Set("app_per_config", appReports)
	r.Set("app_block_outcomes", appOutcomes)
	r.Set("traces_validated_against_impl", r.Get("transitions"))
	outcomes := map[string]int64{}
	for k, v := range obsTotal {
		if v > 0 {
			outcomes[obsString(k)] = v
		}
	}
	r.Set("transition_outcomes", outcomes)
	r.Set("shapes", len(reports))
	r.Set("per_shape", reports)
	var ex []string
	for k := range excluded {
		ex = append(ex, k)
	}
	sort.Strings(ex)
	r.Set("letters_rejected_by_VerifyExecutorCommitment", ex)
	r.Set("rule", "per committee shape: breadth-first search to fixpoint over (real pool state, reference state); letters add(node,scheduler,value) for node in members+outsider, scheduler in offered ranked workers+one backup-only node+outsider, value in {A,B,failure} (all properly signed and passed through the real VerifyExecutorCommitment once), and process(stragglers in 0..2, timeout in {false,true}); states deduplicated by a lossless canonical encoding of the pool together with the reference state; every transition is an execution of the real AddVerifiedExecutorCommitment/ProcessCommitments compared with the reference")
	r.Assume(
		"signature / RAK verification is not part of the explored transitions: each letter's commitment is signed with a memory signer and verified once with the real VerifyExecutorCommitment (non-TEE runtime); letters it rejects (a scheduler indicating failure for its own proposal) are excluded",
		"allowed stragglers is a call parameter of ProcessCommitments, so it is explored as part of the process letter: the explored space is a superset of the space for each fixed value 0..2",
		"committees up to 3 primary + 3 backup workers, at most one node in both roles (quick: the worker with rank 0; thorough: each worker in turn); with 3 workers and more than 3 (thorough: 4) distinct members one exploration offers only a subset of the 3 scheduler ranks: all pairs, or all single ranks for the largest quick shapes, or (3+3 without double role, thorough) all single ranks plus the pair of ranks 0 and 1; per_shape lists every exploration with its offered ranks",
		"the pool is handed over between calls by a canonical encoding whose losslessness and agreement with a CBOR round trip is checked on every reachable state",
		"app layer: the real roothash application (BeginBlock/ExecuteTx/EndBlock) on the mock application state with a registry holding the committee nodes; one ExecutorCommit transaction per block; a transaction that fails is treated as not included in a block; consensus heights are normalised after every block so that only the distance to the armed round timeout is kept (the application compares the height only with NextTimeout); with round timeout 1000 the empty blocks before the timeout are skipped in one step, with round timeout 3 every single empty block is explored; exploration of a round stops when the application emits a runtime block",
	)
	pprof.StopCPUProfile()
	r.Finish()
}
