package main

import (
	"fmt"
	"math"
	"reflect"

	"github.com/oasisprotocol/oasis-core/go/common/cbor"
	"github.com/oasisprotocol/oasis-core/go/common/crypto/hash"
	"github.com/oasisprotocol/oasis-core/go/common/crypto/signature"
	"github.com/oasisprotocol/oasis-core/go/roothash/api/commitment"
)

// Canonical, lossless, compact serialisation of a commitment.Pool relative to
// a world (node keys, vote hashes and commitments are replaced by their table
// index).  Anything not in the tables makes encoding fail, which is reported
// as a harness error: every key/hash/commitment the pool can hold comes from
// a letter.  A nil map and an empty map encode the same (as they do in CBOR).
//
//	byte  discrepancy
//	byte  highest rank (0xff = none committed)
//	byte  number of rank entries
//	per entry, ascending rank:
//	  byte rank, byte commitment (0 = nil, 1+index), byte number of votes
//	  per vote, ascending node index: byte node, byte value (3 = nil vote)
//
// absView is the same information in the shape the reference model uses, for
// comparison with it.
type absView struct {
	resolve bool
	highest int // -1 none
	votes   [maxRanks][maxNodes]uint8
	commit  [maxRanks]int // commitment index+1 stored for the rank, 0 none
}

func (w *world) encodePool(p *commitment.Pool, b []byte, a *absView) ([]byte, *absView, error) {
	*a = absView{}
	a.highest = -1
	a.resolve = p.Discrepancy
	if p.Discrepancy {
		b = append(b, 1)
	} else {
		b = append(b, 0)
	}
	switch {
	case p.HighestRank == math.MaxUint64:
		b = append(b, 0xff)
	case p.HighestRank < maxRanks:
		b = append(b, byte(p.HighestRank))
		a.highest = int(p.HighestRank)
	default:
		return nil, nil, fmt.Errorf("pool.HighestRank=%d outside the committee's ranks", p.HighestRank)
	}
	for r := range p.SchedulerCommitments {
		if r >= maxRanks {
			return nil, nil, fmt.Errorf("pool holds scheduler commitments for rank %d", r)
		}
	}
	b = append(b, byte(len(p.SchedulerCommitments)))
	for r := uint64(0); r < maxRanks; r++ {
		sc, ok := p.SchedulerCommitments[r]
		if !ok {
			continue
		}
		if sc == nil {
			return nil, nil, fmt.Errorf("nil SchedulerCommitment stored for rank %d", r)
		}
		ci := 0
		if sc.Commitment != nil {
			idx, ok := w.commitIdx[sc.Commitment]
			if !ok {
				// Not pointer-identical (e.g. after a CBOR round trip): find by content.
				idx, ok = w.findCommit(sc.Commitment)
				if !ok {
					return nil, nil, fmt.Errorf("pool holds a commitment that no letter supplied")
				}
			}
			ci = idx + 1
		}
		a.commit[r] = ci
		b = append(b, byte(r), byte(ci), byte(len(sc.Votes)))
		var present [maxNodes]bool
		for k, v := range sc.Votes {
			i, ok := w.nodeIndex(&k)
			if !ok {
				return nil, nil, fmt.Errorf("pool holds a vote of an unknown key %s", k)
			}
			val := valF
			if v != nil {
				if val, ok = w.hashValue(v); !ok {
					return nil, nil, fmt.Errorf("pool holds an unknown vote hash %s", v)
				}
			}
			present[i] = true
			a.votes[r][i] = val
		}
		for i := 0; i < maxNodes; i++ {
			if present[i] {
				b = append(b, byte(i), a.votes[r][i])
			}
		}
	}
	return b, a, nil
}

func (w *world) findCommit(ec *commitment.ExecutorCommitment) (int, bool) {
	nd, ok1 := w.nodeIndex(&ec.NodeID)
	sc, ok2 := w.nodeIndex(&ec.Header.SchedulerID)
	if !ok1 || !ok2 {
		return 0, false
	}
	// Full content equality (signature included).
	for v := valA; v <= valF; v++ {
		if idx, ok := w.commitOf[[3]int{nd, sc, int(v)}]; ok && reflect.DeepEqual(w.commits[idx], ec) {
			return idx, true
		}
	}
	return 0, false
}

func (w *world) nodeIndex(k *signature.PublicKey) (int, bool) {
	for i := range w.keys {
		if w.keys[i] == *k {
			return i, true
		}
	}
	return 0, false
}

func (w *world) hashValue(h *hash.Hash) (uint8, bool) {
	switch *h {
	case w.valHash[valA]:
		return valA, true
	case w.valHash[valB]:
		return valB, true
	}
	return 0, false
}

// decodePool rebuilds a fresh pool (fresh maps; commitments are shared with
// the letter table, the pool never writes through them) from an encoding and
// returns the number of bytes consumed.
func (w *world) decodePool(b []byte) (*commitment.Pool, int) {
	p := &commitment.Pool{}
	p.Discrepancy = b[0] == 1
	if b[1] == 0xff {
		p.HighestRank = math.MaxUint64
	} else {
		p.HighestRank = uint64(b[1])
	}
	n := int(b[2])
	pos := 3
	if n > 0 {
		p.SchedulerCommitments = make(map[uint64]*commitment.SchedulerCommitment, n)
	}
	for e := 0; e < n; e++ {
		r, ci, nv := b[pos], b[pos+1], int(b[pos+2])
		pos += 3
		sc := &commitment.SchedulerCommitment{}
		if ci != 0 {
			sc.Commitment = w.commits[ci-1]
		}
		if nv > 0 {
			sc.Votes = make(map[signature.PublicKey]*hash.Hash, nv)
		}
		for k := 0; k < nv; k++ {
			nd, val := b[pos], b[pos+1]
			pos += 2
			if val == valF {
				sc.Votes[w.keys[nd]] = nil
			} else {
				h := w.valHash[val]
				sc.Votes[w.keys[nd]] = &h
			}
		}
		p.SchedulerCommitments[uint64(r)] = sc
	}
	return p, pos
}

// cborRoundTrip is how the consensus layer carries the pool between
// transactions (it lives CBOR-serialised in the runtime state).
func cborRoundTrip(p *commitment.Pool) (*commitment.Pool, error) {
	var q commitment.Pool
	if err := cbor.Unmarshal(cbor.Marshal(p), &q); err != nil {
		return nil, err
	}
	return &q, nil
}
