// sharemc decides C15 (escrow shares are fair) by small-scope exhaustive
// enumeration of operation sequences over the REAL share-pool arithmetic of
// oasis-core (staking.SharePool, DebondingDelegation, computeCommission,
// MutableState.SlashEscrow/slashPool) with an exact math/big oracle, plus a
// conformance layer that runs the real transaction handlers (addEscrow,
// reclaimEscrow, onEpochChange, TransferFromCommon, SlashEscrow) on a mock ABCI
// state for every transition of the shallow part of the same tree.
//
// Not covered here (chain level, another engine): that a debonding delegation
// is paid exactly once, in the EndBlock of the first epoch transition with
// epoch >= its end epoch and not earlier.
package main

import (
	"encoding/json"
	"fmt"
	"io"
	"math/big"
	"os"
	"runtime"
	"runtime/debug"
	"runtime/pprof"
	"sort"
	"strings"
	"sync"
	"sync/atomic"
	"time"

	"github.com/oasisprotocol/oasis-core/go/common/logging"

	"verif/harness/internal/ev"
)

// ---- universes -------------------------------------------------------------

// scale is one member of the finite scaling family: every enumerated small
// amount k stands for k*C + E base units (or shares).
type scale struct {
	Name string
	C    *big.Int
	E    int64
}

func scales() []*scale {
	one := big.NewInt(1)
	var out []*scale
	for _, c := range []struct {
		n string
		v *big.Int
	}{{"1", one}, {"2^64", new(big.Int).Lsh(one, 64)}, {"2^128", new(big.Int).Lsh(one, 128)}} {
		for e := int64(0); e <= 1; e++ {
			out = append(out, &scale{Name: c.n, C: c.v, E: e})
		}
	}
	return out
}

func (sc *scale) of(k int64) *big.Int {
	v := new(big.Int).Mul(big.NewInt(k), sc.C)
	return v.Add(v, big.NewInt(sc.E))
}

// alphabet fixes the small numbers of a universe.
type alphabet struct {
	Name      string     `json:"name"`
	Amounts   []int64    `json:"deposit_amounts"`
	Rewards   []int64    `json:"reward_amounts"`
	ComRew    []int64    `json:"reward_amounts_with_50pct_commission"`
	Fracs     [][2]int64 `json:"slash_fractions"`
	OverDraw  bool       `json:"reclaim_more_than_held"`
	OverSlash bool       `json:"slash_more_than_escrowed"`
}

var fullAlphabet = alphabet{
	Name:     "full",
	Amounts:  []int64{0, 1, 2, 3, 4, 5, 6},
	Rewards:  []int64{0, 1, 2, 3, 4, 5, 6},
	ComRew:   []int64{2, 3, 4, 5, 6},
	Fracs:    [][2]int64{{0, 1}, {1, 3}, {1, 2}, {1, 1}},
	OverDraw: true, OverSlash: true,
}

var reducedAlphabet = alphabet{
	Name:    "reduced",
	Amounts: []int64{1, 2, 5},
	Rewards: []int64{1, 3},
	ComRew:  []int64{3},
	Fracs:   [][2]int64{{1, 3}, {1, 2}, {1, 1}},
}

// start prefixes: executed (and checked) like any other letters before the
// enumeration begins.  Amount kinds: "k" = scaled small number, "lit" =
// literal base units, "all-1" = everything escrowed but one base unit.
type startLetter struct {
	op   uint8
	who  int
	kind string
	k    int64
}

type startDef struct {
	Name string
	Seq  []startLetter
}

var starts = []startDef{
	{"empty", nil},
	{"active pool: shares outstanding, balance 0 (after total slash)", []startLetter{{opDeposit, 0, "k", 3}, {opSlash, 0, "all", 0}}},
	{"both pools: shares outstanding, balance 0 (after total slash)", []startLetter{{opDeposit, 0, "k", 3}, {opReclaim, 0, "k", 1}, {opSlash, 0, "all", 0}}},
	{"one base unit, one share", []startLetter{{opDeposit, 0, "lit", 1}}},
	{"one base unit left for many shares", []startLetter{{opDeposit, 0, "k", 6}, {opSlash, 0, "all-1", 0}}},
	{"both pools off par (reclaim, half slash, reward)", []startLetter{{opDeposit, 0, "k", 6}, {opReclaim, 0, "k", 3}, {opSlash, 0, "half", 0}, {opReward, 0, "k", 3}}},
}

type universe struct {
	idx   int
	sc    *scale
	start *startDef
	al    *alphabet
	depth int

	hDepth int   // transitions at depth < hDepth are also run through the real handlers
	trans  int64 // transitions executed in this universe

	startMvs []*mv
	root     *st
	depMvs   []*mv
	rewMvs   []*mv
	comMvs   []*mv
	complete *mv
}

func (u *universe) String() string {
	return fmt.Sprintf("scale k->k*%s+%d, start=%q, alphabet=%s, depth=%d, handler-conformance depth=%d", u.sc.Name, u.sc.E, u.start.Name, u.al.Name, u.depth, u.hDepth)
}

func (u *universe) prepare() {
	for i := 0; i < N; i++ {
		for _, a := range u.al.Amounts {
			u.depMvs = append(u.depMvs, &mv{op: opDeposit, who: i, amt: u.sc.of(a), sym: symb{kind: 0, k: a}})
		}
	}
	for _, r := range u.al.Rewards {
		u.rewMvs = append(u.rewMvs, &mv{op: opReward, amt: u.sc.of(r), sym: symb{kind: 0, k: r}})
	}
	for _, r := range u.al.ComRew {
		u.comMvs = append(u.comMvs, &mv{op: opReward, amt: u.sc.of(r), rate: rateHalf, sym: symb{kind: 0, k: r}})
	}
	u.complete = &mv{op: opComplete}
}

// maxReclaimK bounds the multiples k*C+E offered as reclaim amounts (a pool
// with one base unit left for many shares mints huge share counts).
const maxReclaimK = 32

// letters lists the concrete letters enabled in state s, simplest first.
func (u *universe) letters(s *st, buf []*mv, stt *stats) []*mv {
	out := buf[:0]
	out = append(out, u.depMvs...)
	sn := s.sn
	// reclaim(i, s): s in {0} u {k*C+E <= held} u {held-1, held} (for C = 1, E = 0
	// that is every s in 0..held) and, as an input the real code must reject, held+1.
	for i := 0; i < N; i++ {
		held := sn.sh[i]
		first := len(out)
		add := func(v *big.Int, sy symb) {
			for _, o := range out[first:] {
				if o.amt.Cmp(v) == 0 {
					return
				}
			}
			out = append(out, &mv{op: opReclaim, who: i, amt: v, sym: sy})
		}
		add(new(big.Int), symb{kind: 6})
		for k := int64(0); k <= maxReclaimK; k++ {
			v := u.sc.of(k)
			if v.Cmp(held) > 0 {
				break
			}
			if u.sc.C.IsInt64() && u.sc.C.Int64() == 1 {
				// consecutive integers: no duplicates possible except 0
				if v.Sign() != 0 {
					out = append(out, &mv{op: opReclaim, who: i, amt: v, sym: symb{kind: 0, k: k}})
				}
			} else {
				add(v, symb{kind: 0, k: k})
			}
		}
		if held.Sign() > 0 {
			add(new(big.Int).Sub(held, big.NewInt(1)), symb{kind: 2})
			add(held, symb{kind: 1})
		}
		if u.al.OverDraw {
			add(new(big.Int).Add(held, big.NewInt(1)), symb{kind: 3})
		}
		if n := len(out) - first; n > stt.maxReclaimChoice {
			stt.maxReclaimChoice = n
		}
	}
	out = append(out, u.rewMvs...)
	if sn.T.Sign() > 0 {
		// With no shares outstanding every reward is commission whatever the rate.
		out = append(out, u.comMvs...)
	}
	// slash(p/q): amount = floor(p/q * (active + debonding balance)).
	total := new(big.Int).Add(sn.B, sn.DB)
	first := len(out)
	for _, f := range u.al.Fracs {
		v := new(big.Int).Mul(total, big.NewInt(f[0]))
		v.Quo(v, big.NewInt(f[1]))
		dup := false
		for _, o := range out[first:] {
			if o.amt.Cmp(v) == 0 {
				dup = true
			}
		}
		if !dup {
			out = append(out, &mv{op: opSlash, amt: v, sym: symb{kind: 4, num: f[0], den: f[1]}})
		}
	}
	if u.al.OverSlash {
		// Same resulting state as slashing everything: executed and checked, not descended.
		out = append(out, &mv{op: opSlash, amt: new(big.Int).Add(total, big.NewInt(1)), sym: symb{kind: 5}, twin: true})
	}
	out = append(out, u.complete)
	return out
}

// ---- violations ------------------------------------------------------------

type artefact struct {
	Check   string   `json:"check"`
	ScaleC  string   `json:"scale_c"`
	ScaleE  int64    `json:"scale_e"`
	Start   []Letter `json:"start"`
	Letters []Letter `json:"letters"`
	Layer   string   `json:"layer"` // "arithmetic" | "handlers"
}

type found struct {
	depth int
	uni   int
	key   string
	v     ev.Violation
}

type collector struct {
	mu    sync.Mutex
	best  map[string]*found
	count int64
}

func (c *collector) offer(check string, depth, uni int, mk func() (string, ev.Violation)) {
	atomic.AddInt64(&c.count, 1)
	c.mu.Lock()
	defer c.mu.Unlock()
	// Kept per check: the shortest sequence, then the one that is shortest
	// written out (smallest numbers), then the lexicographically first.
	b := c.best[check]
	if b != nil && depth > b.depth {
		return
	}
	key, v := mk()
	if b != nil && depth == b.depth && (len(key) > len(b.key) || (len(key) == len(b.key) && key >= b.key)) {
		return
	}
	c.best[check] = &found{depth, uni, key, v}
}

func seqString(ls []Letter) string {
	var ss []string
	for _, l := range ls {
		ss = append(ss, l.String())
	}
	return strings.Join(ss, " ")
}

// ---- enumeration -----------------------------------------------------------

type enumerator struct {
	r                     *ev.Run
	col                   *collector
	u                     *universe
	x                     *stepper
	hc                    *handlerChecker // nil: no conformance at this depth
	hDepth                int
	path                  []*mv
	bufs                  [][]*mv
	states, trans, hTrans int64
	layer                 string
	sample                any
	stop                  bool
}

func newEnumerator(r *ev.Run, col *collector) *enumerator {
	e := &enumerator{r: r, col: col, layer: "arithmetic"}
	e.x = &stepper{w: newWorld(), stats: newStats()}
	e.x.fail = e.fail
	e.x.describe = func() string {
		return fmt.Sprintf("scale k->k*%s+%d: %s", e.u.sc.Name, e.u.sc.E, seqString(append(e.lettersOf(e.u.startMvs), e.lettersOf(e.path)...)))
	}
	e.hc = newHandlerChecker(e.x.w, func(check, what string) { e.layer = "handlers"; e.fail(check, what); e.layer = "arithmetic" })
	e.hc.x = e.x
	return e
}

func (e *enumerator) lettersOf(ms []*mv) []Letter {
	var ls []Letter
	for _, m := range ms {
		ls = append(ls, m.letter(e.u.sc))
	}
	return ls
}

func (e *enumerator) fail(check, what string) {
	u := e.u
	layer := e.layer
	e.col.offer(check, len(u.startMvs)+len(e.path), u.idx, func() (string, ev.Violation) {
		a := artefact{Check: check, ScaleC: u.sc.C.String(), ScaleE: u.sc.E, Start: e.lettersOf(u.startMvs), Letters: e.lettersOf(e.path), Layer: layer}
		seq := seqString(append(append([]Letter{}, a.Start...), a.Letters...))
		key := fmt.Sprintf("sharemc %s :: scale=%s+%d :: %s", check, u.sc.Name, u.sc.E, seq)
		return key, ev.Violation{Engine: "sharemc", Key: key, What: fmt.Sprintf("[%s] after [%s] (amounts k -> k*%s+%d): %s", check, seq, u.sc.Name, u.sc.E, what), Artefact: a}
	})
}

// buildRoot executes the start prefix of the universe.
func (e *enumerator) buildRoot(u *universe) bool {
	e.u = u
	e.path = e.path[:0]
	s := newState()
	u.startMvs = nil
	for _, sl := range u.start.Seq {
		m := &mv{op: sl.op, who: sl.who, sym: symb{kind: 6}}
		total := new(big.Int).Add(s.sn.B, s.sn.DB)
		switch sl.kind {
		case "k":
			m.amt, m.sym = u.sc.of(sl.k), symb{kind: 0, k: sl.k}
		case "lit":
			m.amt = big.NewInt(sl.k)
		case "all":
			m.amt, m.sym = total, symb{kind: 4, num: 1, den: 1}
		case "all-1":
			m.amt = new(big.Int).Sub(total, big.NewInt(1))
		case "half":
			m.amt, m.sym = new(big.Int).Rsh(total, 1), symb{kind: 4, num: 1, den: 2}
		}
		e.path = append(e.path, m)
		ns, changed := e.x.step(s, m)
		e.trans++
		if e.x.bad {
			return false
		}
		if !changed {
			e.r.HarnessError("start prefix %q: letter %d changed nothing", u.start.Name, len(e.path))
			return false
		}
		s = ns
	}
	u.startMvs = append([]*mv(nil), e.path...)
	e.path = e.path[:0]
	u.root = s
	return true
}

func (e *enumerator) dfs(s *st, depth int, frontier *[][]*mv, frontierDepth int) {
	if depth >= e.u.depth {
		return
	}
	if frontier != nil && depth == frontierDepth {
		*frontier = append(*frontier, append([]*mv(nil), e.path...))
		return
	}
	for len(e.bufs) <= depth {
		e.bufs = append(e.bufs, nil)
	}
	ls := e.u.letters(s, e.bufs[depth], e.x.stats)
	e.bufs[depth] = ls
	for _, m := range ls {
		e.path = append(e.path, m)
		e.x.depth = len(e.u.startMvs) + len(e.path)
		ns, changed := e.x.step(s, m)
		e.trans++
		if e.trans&0xfff == 0 && e.r.Expired() {
			e.r.Cap("deadline")
			e.stop = true
		}
		if e.stop {
			e.path = e.path[:len(e.path)-1]
			return
		}
		if e.trans == 4000 {
			// One written-out execution per shard (the first few are kept as samples).
			e.sample = map[string]any{"universe": e.u.String(), "sequence": seqString(append(e.lettersOf(e.u.startMvs), e.lettersOf(e.path)...)), "changed_state": changed, "state_after": ns.sn.String()}
		}
		bad := e.x.bad
		if !bad && depth < e.hDepth {
			e.hTrans++
			if !e.hc.check(s, m, ns, changed) {
				bad = true
			}
			if !bad && m.op == opReward && !e.hc.checkRewardPaths(s, m.rate) {
				bad = true
			}
		}
		// A letter that changed nothing has the same subtree as the sequence
		// without it (enumerated one level up); a twin has the same successor
		// as its sibling: neither is descended.
		if changed && !bad && !m.twin {
			e.states++
			e.dfs(ns, depth+1, frontier, frontierDepth)
		}
		e.path = e.path[:len(e.path)-1]
	}
}

// replayPath re-executes a path from the universe root without counting.
func (e *enumerator) replayPath(u *universe, path []*mv) *st {
	s := u.root
	saved := e.x.stats
	e.x.stats = newStats()
	defer func() { e.x.stats = saved }()
	for _, m := range path {
		ns, _ := e.x.step(s, m)
		s = ns
	}
	return s
}

func main() {
	if len(os.Args) < 2 || os.Args[1] != "C15" {
		fmt.Println("usage: sharemc C15 [--tier quick|thorough] [--replay file] [--budget dur]")
		os.Exit(2)
	}
	r := ev.Parse("model_checking")
	// Before it is initialised the logging backend retains every logger ever
	// created (one per mock ABCI context): initialise it, discarding output.
	_ = logging.Initialize(io.Discard, logging.FmtLogfmt, logging.LevelError, nil)
	// The enumeration allocates many short-lived big integers over a tiny live
	// heap: collect by memory limit rather than by heap growth.
	if os.Getenv("GOGC") == "" && os.Getenv("GOMEMLIMIT") == "" {
		debug.SetGCPercent(-1)
		debug.SetMemoryLimit(1 << 30)
	}
	if pf := os.Getenv("VERIF_SHAREMC_PROF"); pf != "" {
		f, _ := os.Create(pf)
		_ = pprof.StartCPUProfile(f)
		stopProf = pprof.StopCPUProfile
	}
	if r.Replay != "" {
		replay(r)
		return
	}
	run(r)
}

type plan struct {
	al           *alphabet
	depth        int
	scaleFilter  func(i int) bool
	startFilter  func(i int) bool
	handlerDepth int
}

func run(r *ev.Run) {
	scs := scales()
	all := func(int) bool { return true }
	only0 := func(i int) bool { return i == 0 }
	not0 := func(i int) bool { return i != 0 }
	in := func(set ...int) func(int) bool {
		return func(i int) bool {
			for _, v := range set {
				if v == i {
					return true
				}
			}
			return false
		}
	}
	// Scale indices: 0 (1,0)  1 (1,1)  2 (2^64,0)  3 (2^64,1)  4 (2^128,0)  5 (2^128,1).
	// Start index 0 is the empty start.
	var plans []plan
	// Small universes first: if the soft deadline is ever hit, what is skipped
	// is the tail of the largest tree.
	if r.Thorough() {
		plans = []plan{
			{&fullAlphabet, 4, all, not0, 3},
			{&fullAlphabet, 4, in(1, 2, 4, 5), only0, 3},
			{&reducedAlphabet, 6, in(0), only0, 4},
			{&fullAlphabet, 5, in(0, 3), only0, 3},
		}
	} else {
		plans = []plan{
			{&fullAlphabet, 3, all, not0, 2},
			{&fullAlphabet, 3, in(2, 4), only0, 2},
			{&reducedAlphabet, 5, in(0, 3), only0, 3},
			{&fullAlphabet, 4, in(0, 1, 3, 5), only0, 2},
		}
	}
	if v := os.Getenv("VERIF_SHAREMC_PLAN"); v != "" {
		// Development aid: "full|reduced,depth,scale index,start index,handler depth".
		var name string
		var d, sc, st, hd int
		if _, err := fmt.Sscanf(strings.ReplaceAll(v, ",", " "), "%s %d %d %d %d", &name, &d, &sc, &st, &hd); err != nil {
			r.HarnessError("bad VERIF_SHAREMC_PLAN: %v", err)
		}
		al := &fullAlphabet
		if name == "reduced" {
			al = &reducedAlphabet
		}
		plans = []plan{{al, d, in(sc), in(st), hd}}
	}
	if v := os.Getenv("VERIF_SHAREMC_DEPTH"); v != "" {
		var d int
		fmt.Sscan(v, &d)
		plans = []plan{{&fullAlphabet, d, all, all, 2}}
	}

	// Soft deadline (overridable with --budget): a run that hits it reports exhaustive=false.
	if r.Deadline.IsZero() {
		if r.Thorough() {
			r.Deadline = r.Start.Add(14 * time.Minute)
		} else {
			r.Deadline = r.Start.Add(85 * time.Second)
		}
	}

	col := &collector{best: map[string]*found{}}
	var unis []*universe
	for _, p := range plans {
		for si, sc := range scs {
			if !p.scaleFilter(si) {
				continue
			}
			for ti := range starts {
				if !p.startFilter(ti) {
					continue
				}
				u := &universe{idx: len(unis), sc: sc, start: &starts[ti], al: p.al, depth: p.depth, hDepth: p.handlerDepth}
				u.prepare()
				unis = append(unis, u)
			}
		}
	}

	// Sequential part: start prefixes and the tree down to the shard depth.
	type shard struct {
		u    *universe
		path []*mv
	}
	const shardDepth = 1
	var shards []shard
	total := newStats()
	var states, trans, hTrans int64
	seq := newEnumerator(r, col)
	var uniDesc []string
	for _, u := range unis {
		t0 := seq.trans
		ok := seq.buildRoot(u)
		if ok {
			states++ // the root
			seq.hDepth = u.hDepth
			var fr [][]*mv
			seq.dfs(u.root, 0, &fr, shardDepth)
			for _, p := range fr {
				shards = append(shards, shard{u, p})
			}
		}
		u.trans = seq.trans - t0
	}
	states += seq.states
	trans += seq.trans
	hTrans += seq.hTrans
	total.merge(seq.x.stats)

	// Parallel part: one shard per non-trivial 2-letter prefix.
	var mu sync.Mutex
	pool := sync.Pool{New: func() any { return newEnumerator(r, col) }}
	var samples []any
	sampled := map[*universe]bool{}
	progress := os.Getenv("VERIF_SHAREMC_PROGRESS") != ""
	var doneShards int64
	ev.ParallelRange(len(shards), r.Seed, func(i int) {
		if r.Expired() {
			r.Cap("deadline")
			return
		}
		sh := shards[i]
		e := pool.Get().(*enumerator)
		e.u = sh.u
		e.hDepth = sh.u.hDepth
		e.states, e.trans, e.hTrans = 0, 0, 0
		e.x.stats = newStats()
		e.path = append(e.path[:0], sh.path...)
		s := e.replayPath(sh.u, sh.path)
		e.dfs(s, len(sh.path), nil, 0)
		mu.Lock()
		states += e.states
		trans += e.trans
		sh.u.trans += e.trans
		hTrans += e.hTrans
		total.merge(e.x.stats)
		if len(samples) < 5 && e.sample != nil && !sampled[sh.u] {
			sampled[sh.u] = true
			samples = append(samples, e.sample)
		}
		e.sample = nil
		doneShards++
		if progress && doneShards%50 == 0 {
			fmt.Fprintf(os.Stderr, "progress: %d/%d shards, %d transitions, %.0fs, in %s\n", doneShards, len(shards), trans, time.Since(r.Start).Seconds(), sh.u.String())
		}
		mu.Unlock()
		pool.Put(e)
	})

	timingPhase(r)

	for _, f := range sortedFound(col) {
		r.Violate(f.v)
	}
	r.Set("states", states)
	r.Set("transitions", trans)
	r.Set("traces_validated_against_impl", trans)
	r.Set("handler_conformance_transitions", hTrans)
	r.Set("universes", len(unis))
	r.Set("shards", len(shards))
	for _, u := range unis {
		uniDesc = append(uniDesc, fmt.Sprintf("%s: %d transitions", u.String(), u.trans))
	}
	r.Set("universe_list", uniDesc)
	r.Set("alphabets", []alphabet{fullAlphabet, reducedAlphabet})
	for i, n := range opNames {
		r.Set("letters_"+n, total.letters[i])
		r.Set("rejected_"+n, total.rejected[i])
		r.Set("unchanged_"+n, total.noop[i])
	}
	r.Set("inexact_mints", total.inexactMint)
	r.Set("inexact_payouts", total.inexactPayout)
	r.Set("inexact_slashes", total.inexactSlash)
	r.Set("zero_share_mints", total.zeroShareMint)
	r.Set("max_reclaim_choices_in_a_state", total.maxReclaimChoice)
	r.Set("paid_out_more_than_in_plus_reward_share_via_others_rounding", total.literalExceeded)
	if total.literalExample != "" {
		r.Set("paid_out_more_example", total.literalExample)
	}
	if total.literalExceeded > 0 {
		// The literal statement ("no sequence returns to an account more than it put in plus its
		// share of rewards") is exceeded through other accounts' rounding remainders (a deposit that
		// mints zero shares is a gift to the existing share holders). Reported under one stable key.
		r.Violate(ev.Violation{Engine: "sharemc", Key: "sharemc literal-bound exceeded via zero-share deposit / rounding remainder of another account",
			What:     fmt.Sprintf("%d sequences pay an account more than it paid in plus its share of rewards, shortest: %s", total.literalExceeded, total.literalExample),
			Artefact: map[string]any{"note": "counted case, see evidence key paid_out_more_example", "example": total.literalExample}})
	}
	r.Set("oracle_violations_observed", atomic.LoadInt64(&col.count))
	r.Set("rule", "for every universe (scaling k->k*C+E with C in {1,2^64,2^128}, E in {0,1}; start state; alphabet; depth): ALL sequences of enabled letters up to the depth, by DFS over the real code; deposit(i,a) i<3, reclaim(i,s) s in {0} u {k*C+E<=held, k<=32} u {held-1,held,held+1}, reward(r) and reward(r, 50% commission), slash(floor(p/q*(active+debonding))) and slash(everything+1), complete (epoch change: every pending debonding entry is paid); a letter that changes nothing or that reaches the same state as a sibling is executed and checked but not descended (its subtree is enumerated elsewhere)")
	for _, s := range samples {
		r.Sample(s, 5)
	}
	for k := range total.outcomes {
		r.Outcome(k)
	}
	r.Assume(
		"amounts are small numbers k in 0..6 mapped to k*C+E with C in {1, 2^64, 2^128}, E in {0,1}; other amounts are not enumerated",
		"3 delegators (delegator 0 owns the escrow account and receives commission); debonding interval 1 epoch, so all entries pending at an epoch change are paid at that change, in delegator order, and reclaims of one delegator within an epoch merge",
		"deposit / reclaim / reward / completion are compositions of the real SharePool, DebondingDelegation.Merge and computeCommission calls that mirror addEscrow, reclaimEscrow, AddRewards/TransferFromCommon and onEpochChange; the mirror is checked against those real handlers on a mock ABCI state for every transition of the first handler-conformance levels of each tree; slash always runs the real SlashEscrow",
		"debonding timing (paid exactly once, at the first transition with epoch >= end epoch, not earlier, at the debonding pool's price) is decided by the separate timing phase with debonding intervals 1..3 and epoch jumps of 1, 2 and 4; see timing_rule",
		"'its share of rewards' includes the account's pro-rata share of rounding remainders left in a pool by other accounts' deposits and redemptions (they raise the share price exactly like a reward); the count of payouts that exceed paid-in + reward share without this term is reported in coverage",
	)
	stopProf()
	if hp := os.Getenv("VERIF_SHAREMC_HEAPPROF"); hp != "" {
		runtime.GC()
		f, _ := os.Create(hp)
		_ = pprof.WriteHeapProfile(f)
		f.Close()
	}
	r.Finish()
}

var stopProf = func() {}

func sortedFound(c *collector) []*found {
	var fs []*found
	for _, f := range c.best {
		fs = append(fs, f)
	}
	sort.Slice(fs, func(i, j int) bool {
		if fs[i].depth != fs[j].depth {
			return fs[i].depth < fs[j].depth
		}
		return fs[i].key < fs[j].key
	})
	return fs
}

func replay(r *ev.Run) {
	v, err := ev.LoadReplay(r.Replay)
	if err != nil {
		fmt.Println("cannot load replay:", err)
		os.Exit(2)
	}
	b, _ := json.Marshal(v.Artefact)
	var ta timingArtefact
	if json.Unmarshal(b, &ta) == nil && ta.Timing {
		replayTiming(r, &ta)
		return
	}
	var a artefact
	if err := json.Unmarshal(b, &a); err != nil {
		fmt.Println("bad artefact:", err)
		os.Exit(2)
	}
	c, ok := new(big.Int).SetString(a.ScaleC, 10)
	if !ok {
		c = big.NewInt(1)
	}
	sc := &scale{Name: a.ScaleC, C: c, E: a.ScaleE}
	col := &collector{best: map[string]*found{}}
	e := newEnumerator(r, col)
	u := &universe{sc: sc, start: &startDef{Name: "replay"}, al: &fullAlphabet, depth: 1 << 30}
	e.u = u
	s := newState()
	all := append(append([]Letter{}, a.Start...), a.Letters...)
	for i, l := range all {
		m, err := parseLetter(l)
		if err != nil {
			fmt.Println("bad letter:", err)
			os.Exit(2)
		}
		e.path = append(e.path, m)
		ns, changed := e.x.step(s, m)
		bad := e.x.bad
		if !bad {
			bad = !e.hc.check(s, m, ns, changed)
			if !bad && m.op == opReward {
				bad = !e.hc.checkRewardPaths(s, m.rate)
			}
		}
		fmt.Printf("step %d %s -> %s%s\n", i+1, l.String(), ns.sn.String(), map[bool]string{true: "", false: " (unchanged)"}[changed])
		if bad {
			break
		}
		s = ns
	}
	for _, f := range sortedFound(col) {
		r.Violate(f.v)
	}
	if r.NumViolations() == 0 {
		fmt.Println("replay: property held")
	}
	r.Finish()
}
