package main

// The executable model: a small staking "world" made of the REAL oasis-core
// types (staking.EscrowAccount with its two staking.SharePool, real
// staking.Delegation / staking.DebondingDelegation, quantity.Quantity general
// balances and common pool).  Every letter is executed by the real arithmetic:
//
//   deposit   SharePool.Deposit                     (as addEscrow does)
//   reclaim   SharePool.Withdraw on the active pool, then SharePool.Deposit of
//             the redeemed stake into the debonding pool and
//             DebondingDelegation.Merge              (as reclaimEscrow does)
//   reward    quantity.Move into Active.Balance (no new shares), commission via
//             the real computeCommission + SharePool.Deposit for the escrow
//             owner                                  (as AddRewards / TransferFromCommon do)
//   slash     the real MutableState.SlashEscrow (slashPool on both pools) on a
//             mock ABCI application state
//   complete  SharePool.Withdraw on the debonding pool for every pending entry,
//             in delegator order                     (as onEpochChange does)
//
// The few glue lines that are composed here (rather than called) are validated
// against the real transaction handlers by the conformance layer (handlers.go).

import (
	"fmt"
	"math/big"

	beacon "github.com/oasisprotocol/oasis-core/go/beacon/api"
	"github.com/oasisprotocol/oasis-core/go/common/crypto/signature"
	"github.com/oasisprotocol/oasis-core/go/common/quantity"
	abciAPI "github.com/oasisprotocol/oasis-core/go/consensus/cometbft/api"
	stakingState "github.com/oasisprotocol/oasis-core/go/consensus/cometbft/apps/staking/state"
	staking "github.com/oasisprotocol/oasis-core/go/staking/api"
)

// N is the number of delegators.  Delegator 0 is the owner of the escrow
// account (its self-delegation receives the commission).
const N = 3

const (
	opDeposit uint8 = iota
	opReclaim
	opReward
	opSlash
	opComplete
)

var opNames = [...]string{"deposit", "reclaim", "reward", "slash", "complete"}

// rateHalf is a 50% commission rate (denominator staking.CommissionRateDenominator = 100000).
const rateHalf = 50000

// mv is one concrete letter.
type mv struct {
	op   uint8
	who  int
	amt  *big.Int // base units (deposit, reward, slash) or shares (reclaim)
	rate uint64   // commission rate numerator for reward
	sym  symb     // how the enumeration derived amt (reporting only)
	twin bool     // resulting state equals that of another letter at this node: not descended
}

type symb struct {
	kind int8 // 0 = k*c+e, 1 = all, 2 = all-1, 3 = all+1 (overdraw), 4 = fraction num/den, 5 = total+1, 6 = literal
	k    int64
	num  int64
	den  int64
}

// Letter is the JSON (replay) form of a letter; amounts are concrete decimals.
type Letter struct {
	Op     string `json:"op"`
	Who    int    `json:"who"`
	Amount string `json:"amount,omitempty"`
	Rate   uint64 `json:"commission_rate,omitempty"`
	Sym    string `json:"sym,omitempty"`
}

func (m *mv) symString(sc *scale) string {
	switch m.sym.kind {
	case 0:
		return fmt.Sprintf("%d*%s+%d", m.sym.k, sc.Name, sc.E)
	case 1:
		return "all"
	case 2:
		return "all-1"
	case 3:
		return "all+1"
	case 4:
		return fmt.Sprintf("floor(%d/%d of both pools)", m.sym.num, m.sym.den)
	case 5:
		return "both pools+1"
	}
	return "literal"
}

func (m *mv) letter(sc *scale) Letter {
	l := Letter{Op: opNames[m.op], Who: m.who, Rate: m.rate}
	if m.amt != nil {
		l.Amount = m.amt.String()
		l.Sym = m.symString(sc)
	}
	return l
}

func (l Letter) String() string {
	switch l.Op {
	case "deposit":
		return fmt.Sprintf("deposit(d%d,%s)", l.Who, l.Amount)
	case "reclaim":
		return fmt.Sprintf("reclaim(d%d,%s shares)", l.Who, l.Amount)
	case "reward":
		if l.Rate != 0 {
			return fmt.Sprintf("reward(%s,commission %d/100000)", l.Amount, l.Rate)
		}
		return fmt.Sprintf("reward(%s)", l.Amount)
	case "slash":
		return fmt.Sprintf("slash(%s)", l.Amount)
	}
	return l.Op
}

func parseLetter(l Letter) (*mv, error) {
	m := &mv{who: l.Who, rate: l.Rate, sym: symb{kind: 6}}
	found := false
	for i, n := range opNames {
		if n == l.Op {
			m.op = uint8(i)
			found = true
		}
	}
	if !found {
		return nil, fmt.Errorf("unknown op %q", l.Op)
	}
	if m.who < 0 || m.who >= N {
		return nil, fmt.Errorf("bad delegator %d", l.Who)
	}
	if m.op != opComplete {
		a, ok := new(big.Int).SetString(l.Amount, 10)
		if !ok || a.Sign() < 0 {
			return nil, fmt.Errorf("bad amount %q", l.Amount)
		}
		m.amt = a
	}
	return m, nil
}

// st is one state of the world plus the oracle's ledger.
type st struct {
	esc    staking.EscrowAccount          // real: Active and Debonding share pools
	del    [N]staking.Delegation          // real: active shares of delegator j
	deb    [N]staking.DebondingDelegation // real: pending debonding entry of delegator j
	has    [N]bool                        // debonding entry exists
	gen    [N]quantity.Quantity           // general balances
	common quantity.Quantity              // common pool
	epoch  beacon.EpochTime

	sn *snap // integer view of the above (cached)

	// Oracle ledger (exact).
	in    [N]*big.Int // base units paid in (deposits; commission credited to the owner)
	out   [N]*big.Int // base units paid out (debonding completions)
	slack [N]*big.Rat // entitlement - worth (see stepper.general); must stay >= 0
	lit   [N]*big.Rat // literal reading of the entitlement: in + share of rewards only
}

// snap is the integer view of a state used by the oracle.
type snap struct {
	B, T, DB, DT *big.Int
	sh, dsh, gen [N]*big.Int
	common       *big.Int
}

func bi(q *quantity.Quantity) *big.Int { return q.ToBigInt() }

func qOf(b *big.Int) *quantity.Quantity {
	q := quantity.NewQuantity()
	if err := q.FromBigInt(b); err != nil {
		panic(err)
	}
	return q
}

func takeSnap(s *st) *snap {
	sn := &snap{
		B: bi(&s.esc.Active.Balance), T: bi(&s.esc.Active.TotalShares),
		DB: bi(&s.esc.Debonding.Balance), DT: bi(&s.esc.Debonding.TotalShares),
		common: bi(&s.common),
	}
	for j := 0; j < N; j++ {
		sn.sh[j] = bi(&s.del[j].Shares)
		sn.dsh[j] = bi(&s.deb[j].Shares)
		sn.gen[j] = bi(&s.gen[j])
	}
	return sn
}

// snapAfter is takeSnap(ns) for the successor ns of s that reuses the integers
// of s's snapshot for every quantity whose value did not change (compared on
// the real quantities, without allocating).
func snapAfter(s, ns *st) *snap {
	pre := s.sn
	pick := func(a, b *quantity.Quantity, old *big.Int) *big.Int {
		if a.Cmp(b) == 0 {
			return old
		}
		return bi(b)
	}
	sn := &snap{
		B:      pick(&s.esc.Active.Balance, &ns.esc.Active.Balance, pre.B),
		T:      pick(&s.esc.Active.TotalShares, &ns.esc.Active.TotalShares, pre.T),
		DB:     pick(&s.esc.Debonding.Balance, &ns.esc.Debonding.Balance, pre.DB),
		DT:     pick(&s.esc.Debonding.TotalShares, &ns.esc.Debonding.TotalShares, pre.DT),
		common: pick(&s.common, &ns.common, pre.common),
	}
	for j := 0; j < N; j++ {
		sn.sh[j] = pick(&s.del[j].Shares, &ns.del[j].Shares, pre.sh[j])
		sn.dsh[j] = pick(&s.deb[j].Shares, &ns.deb[j].Shares, pre.dsh[j])
		sn.gen[j] = pick(&s.gen[j], &ns.gen[j], pre.gen[j])
	}
	return sn
}

func clonePool(p *staking.SharePool) staking.SharePool {
	return staking.SharePool{Balance: *p.Balance.Clone(), TotalShares: *p.TotalShares.Clone()}
}

// clone makes a successor candidate.  Quantities are copied shallowly: they
// share their digits with the parent, which is never modified again.  Every
// quantity that is handed to the real code by pointer (the only way the real
// code can modify it) must be made private with own/ownPool before the call.
func (s *st) clone() *st {
	n := *s
	n.sn = nil
	return &n
}

func own(q *quantity.Quantity) { *q = *q.Clone() }

func ownPool(p *staking.SharePool) {
	own(&p.Balance)
	own(&p.TotalShares)
}

// initialFunds is what every delegator and the common pool start with; large
// enough that no enumerated deposit or reward is ever limited by funds.
var initialFunds = new(big.Int).Lsh(big.NewInt(1), 200)

func newState() *st {
	s := &st{epoch: 10}
	s.common = *qOf(initialFunds)
	for j := 0; j < N; j++ {
		s.gen[j] = *qOf(initialFunds)
		s.in[j], s.out[j] = new(big.Int), new(big.Int)
		s.slack[j], s.lit[j] = new(big.Rat), new(big.Rat)
	}
	s.sn = takeSnap(s)
	return s
}

// world is the per-worker mock ABCI application state used to run the real
// SlashEscrow (and, in the conformance layer, the real transaction handlers).
type world struct {
	app   abciAPI.MockApplicationState
	cfg   *abciAPI.MockApplicationStateConfig
	ctx   *abciAPI.Context
	ms    *stakingState.MutableState
	addrs [N]staking.Address
	pks   [N]signature.PublicKey
	uses  int
}

// Fixed keys; delegator indices are assigned in ascending address order because
// the real debonding queue is processed in (epoch, delegator address) order.
var fixedKeys = []string{
	"a000000000000000000000000000000000000000000000000000000000000001",
	"b000000000000000000000000000000000000000000000000000000000000002",
	"c000000000000000000000000000000000000000000000000000000000000003",
}

// fresh replaces the mock application state (an in-memory MKVS tree that is
// never committed keeps every overwritten node alive, so it is renewed
// regularly).
func (w *world) fresh() {
	if w.ctx != nil {
		w.ctx.Close()
	}
	w.cfg = &abciAPI.MockApplicationStateConfig{CurrentEpoch: 10}
	w.app = abciAPI.NewMockApplicationState(w.cfg)
	w.ctx = w.app.NewContext(abciAPI.ContextEndBlock)
	w.ms = stakingState.NewMutableState(w.ctx.State())
	if err := w.ms.SetConsensusParameters(w.ctx, &staking.ConsensusParameters{DebondingInterval: 1}); err != nil {
		panic(err)
	}
	w.uses = 0
}

func newWorld() *world {
	w := &world{}
	w.fresh()
	type ka struct {
		pk   signature.PublicKey
		addr staking.Address
	}
	var kas []ka
	for _, k := range fixedKeys {
		pk := signature.NewPublicKey(k)
		kas = append(kas, ka{pk, staking.NewAddress(pk)})
	}
	for i := 0; i < len(kas); i++ {
		for j := i + 1; j < len(kas); j++ {
			if string(kas[j].addr[:]) < string(kas[i].addr[:]) {
				kas[i], kas[j] = kas[j], kas[i]
			}
		}
	}
	for j := 0; j < N; j++ {
		w.pks[j], w.addrs[j] = kas[j].pk, kas[j].addr
	}
	return w
}

// slashReal runs the real SlashEscrow on the escrow account of ns and stores
// the resulting pools and common pool back into ns.  Returns the reported
// total slashed amount.
func (w *world) slashReal(ns *st, amount *big.Int) (*big.Int, error) {
	if w.uses++; w.uses > 256 {
		w.fresh()
	}
	acct := &staking.Account{}
	acct.General.Balance = *ns.gen[0].Clone()
	acct.Escrow.Active = clonePool(&ns.esc.Active)
	acct.Escrow.Debonding = clonePool(&ns.esc.Debonding)
	if err := w.ms.SetAccount(w.ctx, w.addrs[0], acct); err != nil {
		return nil, fmt.Errorf("harness: SetAccount: %w", err)
	}
	cp0, err := w.ms.CommonPool(w.ctx)
	if err != nil {
		return nil, fmt.Errorf("harness: CommonPool: %w", err)
	}
	// One context per world: it only accumulates the emitted events until the
	// world is renewed.
	ctx := w.ctx
	slashed, err := w.ms.SlashEscrow(ctx, w.addrs[0], qOf(amount))
	if err != nil {
		return nil, err
	}
	after, err := w.ms.Account(ctx, w.addrs[0])
	if err != nil {
		return nil, fmt.Errorf("harness: Account: %w", err)
	}
	cp, err := w.ms.CommonPool(ctx)
	if err != nil {
		return nil, fmt.Errorf("harness: CommonPool: %w", err)
	}
	ns.esc.Active = after.Escrow.Active
	ns.esc.Debonding = after.Escrow.Debonding
	ns.gen[0] = after.General.Balance
	// The mock state's common pool is not reset between calls: apply its increase.
	if err = cp.Sub(cp0); err != nil {
		return nil, fmt.Errorf("common pool decreased in slash: %w", err)
	}
	own(&ns.common)
	if err = ns.common.Add(cp); err != nil {
		return nil, err
	}
	return bi(slashed), nil
}
