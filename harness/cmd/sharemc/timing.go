package main

// Debonding-timing phase: "a reclaimed delegation is paid out exactly once, at
// the first epoch transition at or after its debonding end epoch and not
// before, at the debonding pool's price".
//
// Every sequence of letters up to the depth is run on a fresh mock ABCI
// application state with the REAL reclaimEscrow, SlashEscrow and onEpochChange
// (which reads the real debonding queue through ExpiredDebondingQueue).  Epoch
// transitions may skip epochs (the handler is invoked once with the new epoch,
// as after a restart with a higher base epoch or a beacon that jumps).
//
// The reference model is a list of pending entries (delegator, escrow, end
// epoch, shares).  What a reclaim adds is read from the real state (pricing of
// reclaims is the business of the main phase) but must be exactly one entry
// ending at epoch + interval; an epoch transition must pay exactly the due
// entries, each floor(shares * balance / totalShares) of its escrow's debonding
// pool in some processing order, and must leave all others untouched.  Every
// sequence ends with a drain (a far epoch jump, then one more transition): all
// entries are paid, the debonding pools are empty, and nothing is paid twice.

import (
	"fmt"
	"math/big"
	"os"
	"sort"
	"strings"
	"sync"
	"sync/atomic"

	beacon "github.com/oasisprotocol/oasis-core/go/beacon/api"
	"github.com/oasisprotocol/oasis-core/go/common/crypto/signature"
	"github.com/oasisprotocol/oasis-core/go/common/quantity"
	abciAPI "github.com/oasisprotocol/oasis-core/go/consensus/cometbft/api"
	stakingApp "github.com/oasisprotocol/oasis-core/go/consensus/cometbft/apps/staking"
	stakingState "github.com/oasisprotocol/oasis-core/go/consensus/cometbft/apps/staking/state"
	staking "github.com/oasisprotocol/oasis-core/go/staking/api"

	"verif/harness/internal/ev"
)

type tLetter struct {
	Op  string `json:"op"` // reclaim | advance | slash
	Who int    `json:"who,omitempty"`
	Esc int    `json:"esc,omitempty"`
	N   uint64 `json:"n"`
}

func (l tLetter) String() string {
	switch l.Op {
	case "reclaim":
		return fmt.Sprintf("reclaim(d%d<-E%d,%dsh)", l.Who, l.Esc, l.N)
	case "advance":
		return fmt.Sprintf("epoch+%d", l.N)
	default:
		return fmt.Sprintf("slash(E%d,%d)", l.Esc, l.N)
	}
}

type timingArtefact struct {
	Timing   bool      `json:"timing"`
	Interval uint64    `json:"debonding_interval"`
	Price    string    `json:"price"`
	Letters  []tLetter `json:"letters"`
}

var timingAlphabet = []tLetter{
	{Op: "advance", N: 1},
	{Op: "reclaim", Who: 0, Esc: 0, N: 10},
	{Op: "reclaim", Who: 1, Esc: 0, N: 10},
	{Op: "reclaim", Who: 1, Esc: 2, N: 7},
	{Op: "advance", N: 2},
	{Op: "advance", N: 4},
	{Op: "slash", Esc: 0, N: 7},
}

type pendKey struct {
	who, esc int
	end      beacon.EpochTime
}

type timingWorld struct {
	cfg   *abciAPI.MockApplicationStateConfig
	app   abciAPI.MockApplicationState
	ctx   *abciAPI.Context
	ms    *stakingState.MutableState
	sapp  *stakingApp.Application
	addrs [N]staking.Address
	pks   [N]signature.PublicKey
}

func (t *timingWorld) idx(a staking.Address) int {
	for i := range t.addrs {
		if t.addrs[i] == a {
			return i
		}
	}
	return -1
}

// pending reads all debonding delegations of the real state.
func (t *timingWorld) pending() (map[pendKey]*big.Int, error) {
	all, err := t.ms.DebondingDelegations(t.ctx)
	if err != nil {
		return nil, err
	}
	out := map[pendKey]*big.Int{}
	for esc, m := range all { // keyed by escrow account, then delegator
		for del, list := range m {
			for _, d := range list {
				k := pendKey{t.idx(del), t.idx(esc), d.DebondEndTime}
				if _, dup := out[k]; dup {
					return nil, fmt.Errorf("two debonding delegations for %v", k)
				}
				out[k] = bi(&d.Shares)
			}
		}
	}
	return out, nil
}

type tSnap struct {
	gen    [N]*big.Int
	db, dt [N]*big.Int
	pend   map[pendKey]*big.Int
}

func (t *timingWorld) snap() (*tSnap, error) {
	s := &tSnap{}
	for j := 0; j < N; j++ {
		a, err := t.ms.Account(t.ctx, t.addrs[j])
		if err != nil {
			return nil, err
		}
		s.gen[j] = bi(&a.General.Balance)
		s.db[j], s.dt[j] = bi(&a.Escrow.Debonding.Balance), bi(&a.Escrow.Debonding.TotalShares)
	}
	var err error
	s.pend, err = t.pending()
	return s, err
}

func pendString(p map[pendKey]*big.Int) string {
	var ss []string
	for k, v := range p {
		ss = append(ss, fmt.Sprintf("d%d<-E%d@%d:%s", k.who, k.esc, k.end, v))
	}
	sort.Strings(ss)
	return "{" + strings.Join(ss, " ") + "}"
}

// runTiming executes one sequence; returns (violation kind, text).
func runTiming(w *world, interval uint64, price string, seq []tLetter) (string, string) {
	t := &timingWorld{addrs: w.addrs, pks: w.pks}
	t.cfg = &abciAPI.MockApplicationStateConfig{CurrentEpoch: 10}
	t.app = abciAPI.NewMockApplicationState(t.cfg)
	t.ctx = t.app.NewContext(abciAPI.ContextEndBlock)
	defer t.ctx.Close()
	t.ms = stakingState.NewMutableState(t.ctx.State())
	t.sapp = stakingApp.New(t.app, nil)
	must := func(err error) {
		if err != nil {
			panic(fmt.Sprintf("harness: %v", err))
		}
	}
	must(t.ms.SetConsensusParameters(t.ctx, &staking.ConsensusParameters{DebondingInterval: beacon.EpochTime(interval)}))
	must(t.ms.SetCommonPool(t.ctx, quantity.NewFromUint64(0)))
	// E0: delegators d0 (self) and d1, 100 shares each; E2: d1 and d2 (self) 50 shares each.
	bal0, bal2 := uint64(200), uint64(100)
	if price == "3/2" {
		bal0, bal2 = 300, 150
	} else if price == "inexact" {
		bal0, bal2 = 233, 101
	}
	for j := 0; j < N; j++ {
		a := &staking.Account{}
		a.General.Balance = *quantity.NewFromUint64(1000)
		switch j {
		case 0:
			a.Escrow.Active = staking.SharePool{Balance: *quantity.NewFromUint64(bal0), TotalShares: *quantity.NewFromUint64(200)}
		case 2:
			a.Escrow.Active = staking.SharePool{Balance: *quantity.NewFromUint64(bal2), TotalShares: *quantity.NewFromUint64(100)}
		}
		must(t.ms.SetAccount(t.ctx, t.addrs[j], a))
	}
	must(t.ms.SetDelegation(t.ctx, t.addrs[0], t.addrs[0], &staking.Delegation{Shares: *quantity.NewFromUint64(100)}))
	must(t.ms.SetDelegation(t.ctx, t.addrs[1], t.addrs[0], &staking.Delegation{Shares: *quantity.NewFromUint64(100)}))
	must(t.ms.SetDelegation(t.ctx, t.addrs[1], t.addrs[2], &staking.Delegation{Shares: *quantity.NewFromUint64(50)}))
	must(t.ms.SetDelegation(t.ctx, t.addrs[2], t.addrs[2], &staking.Delegation{Shares: *quantity.NewFromUint64(50)}))

	epoch := beacon.EpochTime(10)
	model := map[pendKey]*big.Int{}
	describe := func(i int) string {
		var ss []string
		for _, l := range seq[:i+1] {
			ss = append(ss, l.String())
		}
		return fmt.Sprintf("debonding interval %d, price %s: %s", interval, price, strings.Join(ss, " "))
	}
	samePend := func(a, b map[pendKey]*big.Int) bool {
		if len(a) != len(b) {
			return false
		}
		for k, v := range a {
			if b[k] == nil || b[k].Cmp(v) != 0 {
				return false
			}
		}
		return true
	}
	advance := func(i int, k uint64, label string) (string, string) {
		before, err := t.snap()
		must(err)
		epoch += beacon.EpochTime(k)
		t.cfg.CurrentEpoch = epoch
		t.cfg.EpochChanged = true
		c2 := t.app.NewContext(abciAPI.ContextEndBlock)
		herr := stakingApp.VerifOnEpochChange(t.sapp, c2, epoch)
		c2.Close()
		t.cfg.EpochChanged = false
		if herr != nil {
			return "epoch-change-failed", fmt.Sprintf("%s%s: onEpochChange(%d) failed: %v", describe(i), label, epoch, herr)
		}
		after, err := t.snap()
		must(err)
		want := map[pendKey]*big.Int{}
		dueBy := map[int][]pendKey{}
		for k, v := range model {
			if k.end <= epoch {
				dueBy[k.esc] = append(dueBy[k.esc], k)
			} else {
				want[k] = v
			}
		}
		if !samePend(after.pend, want) {
			return "wrong-entries-after-transition", fmt.Sprintf("%s%s: after the transition to epoch %d the pending debonding delegations are %s, expected %s (before: %s)", describe(i), label, epoch, pendString(after.pend), pendString(want), pendString(before.pend))
		}
		// payouts
		paidTotal := map[int]*big.Int{}
		for j := 0; j < N; j++ {
			d := new(big.Int).Sub(after.gen[j], before.gen[j])
			if d.Sign() != 0 {
				paidTotal[j] = d
			}
		}
		if len(dueBy) == 0 && len(paidTotal) != 0 {
			return "paid-before-due", fmt.Sprintf("%s%s: the transition to epoch %d changed general balances although no debonding delegation was due (pending %s)", describe(i), label, epoch, pendString(before.pend))
		}
		// attribute payments: a delegator may be due in both pools; check pool by pool via the pool's balance decrease
		for esc := 0; esc < N; esc++ {
			due := dueBy[esc]
			dBal := new(big.Int).Sub(before.db[esc], after.db[esc])
			dSh := new(big.Int).Sub(before.dt[esc], after.dt[esc])
			wantSh := new(big.Int)
			for _, k := range due {
				wantSh.Add(wantSh, model[k])
			}
			if dSh.Cmp(wantSh) != 0 {
				return "pool-shares-wrong", fmt.Sprintf("%s%s: the transition to epoch %d removed %s shares from E%d's debonding pool, the due entries hold %s", describe(i), label, epoch, dSh, esc, wantSh)
			}
			if len(due) == 0 {
				if dBal.Sign() != 0 {
					return "pool-balance-wrong", fmt.Sprintf("%s%s: E%d's debonding pool balance changed by %s with nothing due", describe(i), label, esc, dBal)
				}
				continue
			}
			// total paid from this pool under some order
			okOrder := false
			// delegators due only in this pool are checked individually, others by the sum over pools
			onlyHere := map[int]*big.Int{}
			for _, k := range due {
				other := false
				for e2, d2 := range dueBy {
					if e2 == esc {
						continue
					}
					for _, k2 := range d2 {
						other = other || k2.who == k.who
					}
				}
				if !other {
					p := paidTotal[k.who]
					if p == nil {
						p = new(big.Int)
					}
					onlyHere[k.who] = p
				}
			}
			okOrder = payoutsMatchPartial(before.db[esc], before.dt[esc], due, model, onlyHere, dBal)
			if !okOrder {
				return "payout-amount-wrong", fmt.Sprintf("%s%s: at the transition to epoch %d the due entries %v of E%d's debonding pool (%s/%s shares) were paid %v in total %s, which is not floor(shares*balance/totalShares) in any order", describe(i), label, epoch, due, esc, before.db[esc], before.dt[esc], paidTotal, dBal)
			}
		}
		// conservation: general balance increases equal pool decreases
		sumPaid, sumPools := new(big.Int), new(big.Int)
		for _, p := range paidTotal {
			sumPaid.Add(sumPaid, p)
		}
		for esc := 0; esc < N; esc++ {
			sumPools.Add(sumPools, new(big.Int).Sub(before.db[esc], after.db[esc]))
		}
		if sumPaid.Cmp(sumPools) != 0 {
			return "payout-not-conserved", fmt.Sprintf("%s%s: general balances rose by %s but debonding pools fell by %s", describe(i), label, sumPaid, sumPools)
		}
		model = want
		return "", ""
	}

	for i, l := range seq {
		switch l.Op {
		case "reclaim":
			before, err := t.snap()
			must(err)
			tx := t.app.NewContext(abciAPI.ContextDeliverTx)
			tx.SetTxSigner(t.pks[l.Who])
			_, herr := stakingApp.VerifReclaimEscrow(t.sapp, tx, t.ms, &staking.ReclaimEscrow{Account: t.addrs[l.Esc], Shares: *quantity.NewFromUint64(l.N)})
			tx.Close()
			after, err := t.snap()
			must(err)
			if herr != nil {
				if !samePend(after.pend, before.pend) {
					return "failed-reclaim-changed-state", fmt.Sprintf("%s: the reclaim failed (%v) but pending entries changed", describe(i), herr)
				}
				continue
			}
			k := pendKey{l.Who, l.Esc, epoch + beacon.EpochTime(interval)}
			want := map[pendKey]*big.Int{}
			for kk, v := range before.pend {
				want[kk] = v
			}
			if after.pend[k] == nil || (before.pend[k] != nil && after.pend[k].Cmp(before.pend[k]) <= 0) {
				return "reclaim-entry-wrong", fmt.Sprintf("%s: after the reclaim at epoch %d there is no new or grown debonding delegation ending at epoch %d: %s", describe(i), epoch, k.end, pendString(after.pend))
			}
			want[k] = after.pend[k]
			if !samePend(after.pend, want) {
				return "reclaim-entry-wrong", fmt.Sprintf("%s: the reclaim changed other debonding delegations: %s -> %s", describe(i), pendString(before.pend), pendString(after.pend))
			}
			for j := 0; j < N; j++ {
				if after.gen[j].Cmp(before.gen[j]) != 0 {
					return "paid-before-due", fmt.Sprintf("%s: the reclaim itself changed d%d's general balance %s -> %s", describe(i), j, before.gen[j], after.gen[j])
				}
			}
			model = want
		case "advance":
			if k, what := advance(i, l.N, ""); k != "" {
				return k, what
			}
		case "slash":
			before, err := t.snap()
			must(err)
			c2 := t.app.NewContext(abciAPI.ContextEndBlock)
			_, _ = t.ms.SlashEscrow(c2, t.addrs[l.Esc], quantity.NewFromUint64(l.N))
			c2.Close()
			after, err := t.snap()
			must(err)
			if !samePend(after.pend, before.pend) {
				return "slash-changed-entries", fmt.Sprintf("%s: the slash changed debonding delegations %s -> %s", describe(i), pendString(before.pend), pendString(after.pend))
			}
		}
	}
	// drain
	if k, what := advance(len(seq)-1, interval+7, " + drain"); k != "" {
		return k, what
	}
	if len(model) != 0 {
		return "drain-incomplete", fmt.Sprintf("%s + drain: model still has %s", describe(len(seq)-1), pendString(model))
	}
	s, err := t.snap()
	must(err)
	for esc := 0; esc < N; esc++ {
		if s.dt[esc].Sign() != 0 || s.db[esc].Sign() != 0 {
			return "drain-incomplete", fmt.Sprintf("%s + drain: E%d's debonding pool still holds %s base units / %s shares although no debonding delegation is pending", describe(len(seq)-1), esc, s.db[esc], s.dt[esc])
		}
	}
	// the queue itself must be empty as well: ExpiredDebondingQueue at a far epoch
	q, err := t.ms.ExpiredDebondingQueue(t.ctx, epoch+1000)
	must(err)
	if len(q) != 0 {
		return "stale-queue-entry", fmt.Sprintf("%s + drain: %d stale debonding queue entries remain", describe(len(seq)-1), len(q))
	}
	if k, what := advance(len(seq)-1, 1, " + drain + 1"); k != "" {
		return k, what
	}
	return "", ""
}

// payoutsMatchPartial: as payoutsMatch but only the delegators in paid are
// compared individually; the pool's total decrease must match too.
func payoutsMatchPartial(db, dt *big.Int, due []pendKey, shares map[pendKey]*big.Int, paid map[int]*big.Int, total *big.Int) bool {
	n := len(due)
	perm := make([]int, n)
	for i := range perm {
		perm[i] = i
	}
	try := func() bool {
		b, t := new(big.Int).Set(db), new(big.Int).Set(dt)
		got := map[int]*big.Int{}
		for _, i := range perm {
			s := shares[due[i]]
			if t.Sign() == 0 || s.Cmp(t) > 0 {
				return false
			}
			amt := new(big.Int).Div(new(big.Int).Mul(s, b), t)
			b.Sub(b, amt)
			t.Sub(t, s)
			if got[due[i].who] == nil {
				got[due[i].who] = new(big.Int)
			}
			got[due[i].who].Add(got[due[i].who], amt)
		}
		if new(big.Int).Sub(db, b).Cmp(total) != 0 {
			return false
		}
		for w, a := range paid {
			g := got[w]
			if g == nil {
				g = new(big.Int)
			}
			if g.Cmp(a) != 0 {
				return false
			}
		}
		return true
	}
	var rec func(k int) bool
	rec = func(k int) bool {
		if k == n {
			return try()
		}
		for i := k; i < n; i++ {
			perm[k], perm[i] = perm[i], perm[k]
			if rec(k + 1) {
				return true
			}
			perm[k], perm[i] = perm[i], perm[k]
		}
		return false
	}
	return rec(0)
}

func timingPhase(r *ev.Run) {
	depth := 5
	if r.Thorough() {
		depth = 7
	}
	intervals := []uint64{1, 2, 3}
	prices := []string{"1", "inexact"}
	if r.Thorough() {
		prices = []string{"1", "3/2", "inexact"}
	}
	type job struct {
		interval uint64
		price    string
		prefix   []int
	}
	var jobs []job
	A := len(timingAlphabet)
	for _, iv := range intervals {
		for _, p := range prices {
			for a := 0; a < A; a++ {
				for b := 0; b < A; b++ {
					jobs = append(jobs, job{iv, p, []int{a, b}})
				}
			}
		}
	}
	var execs, paidEvents int64
	var mu sync.Mutex
	best := map[string]ev.Violation{}
	bestLen := map[string]int{}
	worlds := sync.Pool{New: func() any { return newWorld() }}
	ev.ParallelRange(len(jobs), r.Seed, func(ji int) {
		j := jobs[ji]
		w := worlds.Get().(*world)
		defer worlds.Put(w)
		seq := make([]tLetter, 0, depth)
		var rec func(d int)
		run := func() {
			atomic.AddInt64(&execs, 1)
			var kind, what string
			func() {
				defer func() {
					if p := recover(); p != nil {
						kind, what = "panic", fmt.Sprintf("panic: %v", p)
					}
				}()
				kind, what = runTiming(w, j.interval, j.price, seq)
			}()
			if kind == "" {
				return
			}
			mu.Lock()
			defer mu.Unlock()
			if old, ok := bestLen[kind]; ok && old <= len(seq) {
				return
			}
			bestLen[kind] = len(seq)
			best[kind] = ev.Violation{Engine: "sharemc", Key: "sharemc timing " + kind, What: what,
				Artefact: timingArtefact{Timing: true, Interval: j.interval, Price: j.price, Letters: append([]tLetter{}, seq...)}}
		}
		rec = func(d int) {
			run() // every prefix is itself a sequence (with its drain)
			if d == depth {
				return
			}
			for li := range timingAlphabet {
				seq = append(seq, timingAlphabet[li])
				rec(d + 1)
				seq = seq[:len(seq)-1]
			}
		}
		seq = append(seq, timingAlphabet[j.prefix[0]], timingAlphabet[j.prefix[1]])
		rec(2)
	})
	_ = paidEvents
	var kinds []string
	for k := range best {
		kinds = append(kinds, k)
	}
	sort.Strings(kinds)
	for _, k := range kinds {
		r.Violate(best[k])
	}
	r.Set("timing_sequences", execs)
	r.Set("timing_depth", depth)
	r.Set("timing_rule", fmt.Sprintf("debonding timing: ALL sequences of length 2..%d over %d letters (reclaims by 2 delegators from 2 escrow accounts, epoch transitions that advance by 1, 2 or 4 epochs, slash) for debonding intervals %v and share prices %v on the real reclaimEscrow / SlashEscrow / onEpochChange + ExpiredDebondingQueue; each followed by a drain; oracle: entries due (end <= new epoch) are removed and paid floor(shares*balance/totalShares) of the debonding pool in some order, all others untouched, nothing paid before it is due or twice, pools and queue empty after the drain", depth, len(timingAlphabet), intervals, prices))
}

func replayTiming(r *ev.Run, a *timingArtefact) {
	w := newWorld()
	kind, what := runTiming(w, a.Interval, a.Price, a.Letters)
	if kind != "" {
		r.Violate(ev.Violation{Engine: "sharemc", Key: "sharemc timing " + kind, What: what, Artefact: a})
	} else {
		fmt.Println("replay: property held")
	}
	if os.Getenv("VERIF_DEBUG") != "" {
		fmt.Println(kind, what)
	}
	r.Finish()
}
