package main

// Conformance layer: for a transition (state, letter) of the enumeration, load
// the state into a fresh mock ABCI application state, run the REAL handler
//
//   deposit   (*staking.Application).addEscrow
//   reclaim   (*staking.Application).reclaimEscrow
//   reward    MutableState.TransferFromCommon(escrow = true) with the escrow
//             account's commission schedule
//   slash     MutableState.SlashEscrow
//   complete  (*staking.Application).onEpochChange at epoch + 1
//
// read everything back and require exactly the successor state that the
// arithmetic layer computed (or no change, when that layer saw a rejection).
// This ties the few lines of glue in model.go/step.go to the real transaction
// code: pricing of a reclaim at that moment, merging, order of completion,
// commission handling, slashing of both pools.

import (
	"fmt"
	"math/big"

	beacon "github.com/oasisprotocol/oasis-core/go/beacon/api"
	"github.com/oasisprotocol/oasis-core/go/common/quantity"
	abciAPI "github.com/oasisprotocol/oasis-core/go/consensus/cometbft/api"
	stakingApp "github.com/oasisprotocol/oasis-core/go/consensus/cometbft/apps/staking"
	stakingState "github.com/oasisprotocol/oasis-core/go/consensus/cometbft/apps/staking/state"
	staking "github.com/oasisprotocol/oasis-core/go/staking/api"
)

type handlerChecker struct {
	w    *world // only for the fixed keys/addresses
	fail func(check, what string)
	x    *stepper // the arithmetic layer (used to price the rewards of the other reward paths)
}

func newHandlerChecker(w *world, fail func(check, what string)) *handlerChecker {
	return &handlerChecker{w: w, fail: fail}
}

func (h *handlerChecker) check(s *st, m *mv, ns *st, changed bool) (ok bool) {
	ok = true
	bad := func(format string, a ...any) {
		ok = false
		h.fail("handler_differs_from_arithmetic", fmt.Sprintf(format, a...))
	}
	defer func() {
		if p := recover(); p != nil {
			ok = false
			h.fail("panic", fmt.Sprintf("real handler for %s panicked: %v", opNames[m.op], p))
		}
	}()
	addrs, pks := h.w.addrs, h.w.pks
	cfg := &abciAPI.MockApplicationStateConfig{CurrentEpoch: s.epoch}
	app := abciAPI.NewMockApplicationState(cfg)
	ctx := app.NewContext(abciAPI.ContextEndBlock)
	defer ctx.Close()
	ms := stakingState.NewMutableState(ctx.State())
	must := func(err error) {
		if err != nil {
			panic(fmt.Sprintf("harness: loading state: %v", err))
		}
	}
	must(ms.SetConsensusParameters(ctx, &staking.ConsensusParameters{DebondingInterval: 1}))
	must(ms.SetCommonPool(ctx, s.common.Clone()))
	for j := 0; j < N; j++ {
		acct := &staking.Account{}
		acct.General.Balance = *s.gen[j].Clone()
		if j == 0 {
			acct.Escrow.Active = clonePool(&s.esc.Active)
			acct.Escrow.Debonding = clonePool(&s.esc.Debonding)
			if m.op == opReward && m.rate != 0 {
				acct.Escrow.CommissionSchedule = staking.CommissionSchedule{
					Rates:  []staking.CommissionRateStep{{Start: 0, Rate: *quantity.NewFromUint64(m.rate)}},
					Bounds: []staking.CommissionRateBoundStep{{Start: 0, RateMin: *quantity.NewFromUint64(0), RateMax: *quantity.NewFromUint64(100000)}},
				}
			}
		}
		must(ms.SetAccount(ctx, addrs[j], acct))
		if !s.del[j].Shares.IsZero() {
			must(ms.SetDelegation(ctx, addrs[j], addrs[0], &staking.Delegation{Shares: *s.del[j].Shares.Clone()}))
		}
		if s.has[j] {
			d := staking.DebondingDelegation{Shares: *s.deb[j].Shares.Clone(), DebondEndTime: s.deb[j].DebondEndTime}
			must(ms.SetDebondingDelegation(ctx, addrs[j], addrs[0], d.DebondEndTime, &d))
		}
	}

	sapp := stakingApp.New(app, nil)
	var herr error
	switch m.op {
	case opDeposit:
		tx := app.NewContext(abciAPI.ContextDeliverTx)
		defer tx.Close()
		tx.SetTxSigner(pks[m.who])
		_, herr = stakingApp.VerifAddEscrow(sapp, tx, ms, &staking.Escrow{Account: addrs[0], Amount: *qOf(m.amt)})
	case opReclaim:
		tx := app.NewContext(abciAPI.ContextDeliverTx)
		defer tx.Close()
		tx.SetTxSigner(pks[m.who])
		_, herr = stakingApp.VerifReclaimEscrow(sapp, tx, ms, &staking.ReclaimEscrow{Account: addrs[0], Shares: *qOf(m.amt)})
	case opReward:
		c2 := app.NewContext(abciAPI.ContextEndBlock)
		defer c2.Close()
		_, herr = ms.TransferFromCommon(c2, addrs[0], qOf(m.amt), true)
	case opSlash:
		c2 := app.NewContext(abciAPI.ContextEndBlock)
		defer c2.Close()
		_, herr = ms.SlashEscrow(c2, addrs[0], qOf(m.amt))
	case opComplete:
		cfg.CurrentEpoch = s.epoch + 1
		cfg.EpochChanged = true
		c2 := app.NewContext(abciAPI.ContextEndBlock)
		defer c2.Close()
		herr = stakingApp.VerifOnEpochChange(sapp, c2, s.epoch+1)
	}

	rejected := ns == s && !changed
	want := s
	if changed {
		want = ns
	}
	if herr != nil {
		if changed || !rejected {
			bad("%s: the real handler failed (%v) but the arithmetic layer moved to %s", opNames[m.op], herr, ns.sn)
		}
		return ok
	}

	// Read back.
	got := &snap{}
	var gotHas [N]bool
	for j := 0; j < N; j++ {
		acct, err := ms.Account(ctx, addrs[j])
		must(err)
		got.gen[j] = bi(&acct.General.Balance)
		if j == 0 {
			got.B, got.T = bi(&acct.Escrow.Active.Balance), bi(&acct.Escrow.Active.TotalShares)
			got.DB, got.DT = bi(&acct.Escrow.Debonding.Balance), bi(&acct.Escrow.Debonding.TotalShares)
		} else if !acct.Escrow.Active.Balance.IsZero() || !acct.Escrow.Active.TotalShares.IsZero() || !acct.Escrow.Debonding.Balance.IsZero() || !acct.Escrow.Debonding.TotalShares.IsZero() {
			bad("%s: delegator d%d's own escrow account changed", opNames[m.op], j)
		}
		del, err := ms.Delegation(ctx, addrs[j], addrs[0])
		must(err)
		got.sh[j] = bi(&del.Shares)
		debs, err := ms.DebondingDelegationsFor(ctx, addrs[j])
		must(err)
		got.dsh[j] = new(big.Int)
		n := 0
		for esc, list := range debs {
			for _, d := range list {
				n++
				if esc != addrs[0] || d.DebondEndTime != want.epochEnd() {
					bad("%s: unexpected debonding delegation of d%d (end epoch %d)", opNames[m.op], j, d.DebondEndTime)
				}
				got.dsh[j].Add(got.dsh[j], bi(&d.Shares))
			}
		}
		if n > 1 {
			bad("%s: d%d has %d debonding delegations for one end epoch", opNames[m.op], j, n)
		}
		gotHas[j] = n > 0
	}
	cp, err := ms.CommonPool(ctx)
	must(err)
	got.common = bi(cp)

	if !snapEqual(got, want.sn) || gotHas != want.has {
		bad("%s in %s: real handler gives %s pending=%v common-pool-delta=%s, arithmetic layer gives %s pending=%v common-pool-delta=%s",
			opNames[m.op], s.sn, got, gotHas, new(big.Int).Sub(got.common, s.sn.common), want.sn, want.has, new(big.Int).Sub(want.sn.common, s.sn.common))
	}
	return ok
}

// epochEnd is the end epoch of entries pending in this state.  All pending
// entries of a state were created in its current epoch (an epoch change pays
// all of them), so it is epoch + 1; after a completion nothing is pending.
func (s *st) epochEnd() beacon.EpochTime { return s.epoch + 1 }

// checkRewardPaths runs the two other reward paths of the real code on state s
// - AddRewards (epoch rewards) and AddRewardSingleAttenuated (proposer reward),
// both with the escrow account's commission schedule at the given rate - with
// a reward schedule that makes the reward equal to the active balance (resp.
// half of it), observes the amount Q that left the common pool and requires
// exactly the successor the arithmetic layer computes for reward(Q, rate):
// the non-commission part raises the share price first, then the commission is
// deposited for the owner at the new price.
func (h *handlerChecker) checkRewardPaths(s *st, rate uint64) (ok bool) {
	ok = true
	if h.x == nil {
		return true
	}
	for _, pathName := range []string{"AddRewards", "AddRewardSingleAttenuated"} {
		func() {
			defer func() {
				if p := recover(); p != nil {
					ok = false
					h.fail("panic", fmt.Sprintf("%s panicked: %v", pathName, p))
				}
			}()
			addrs := h.w.addrs
			cfg := &abciAPI.MockApplicationStateConfig{CurrentEpoch: s.epoch}
			app := abciAPI.NewMockApplicationState(cfg)
			ctx := app.NewContext(abciAPI.ContextEndBlock)
			defer ctx.Close()
			ms := stakingState.NewMutableState(ctx.State())
			must := func(err error) {
				if err != nil {
					panic(fmt.Sprintf("harness: loading state: %v", err))
				}
			}
			must(ms.SetConsensusParameters(ctx, &staking.ConsensusParameters{DebondingInterval: 1,
				RewardSchedule: []staking.RewardStep{{Until: s.epoch + 1000, Scale: *staking.RewardAmountDenominator.Clone()}}}))
			must(ms.SetCommonPool(ctx, s.common.Clone()))
			for j := 0; j < N; j++ {
				acct := &staking.Account{}
				acct.General.Balance = *s.gen[j].Clone()
				if j == 0 {
					acct.Escrow.Active = clonePool(&s.esc.Active)
					acct.Escrow.Debonding = clonePool(&s.esc.Debonding)
					if rate != 0 {
						acct.Escrow.CommissionSchedule = staking.CommissionSchedule{
							Rates:  []staking.CommissionRateStep{{Start: 0, Rate: *quantity.NewFromUint64(rate)}},
							Bounds: []staking.CommissionRateBoundStep{{Start: 0, RateMin: *quantity.NewFromUint64(0), RateMax: *quantity.NewFromUint64(100000)}},
						}
					}
				}
				must(ms.SetAccount(ctx, addrs[j], acct))
				if !s.del[j].Shares.IsZero() {
					must(ms.SetDelegation(ctx, addrs[j], addrs[0], &staking.Delegation{Shares: *s.del[j].Shares.Clone()}))
				}
			}
			c2 := app.NewContext(abciAPI.ContextEndBlock)
			defer c2.Close()
			var herr error
			one := quantity.NewFromUint64(1)
			if pathName == "AddRewards" {
				herr = ms.AddRewards(c2, s.epoch, one, []staking.Address{addrs[0]})
			} else {
				herr = ms.AddRewardSingleAttenuated(c2, s.epoch, one, 1, 2, addrs[0])
			}
			if herr != nil {
				ok = false
				h.fail("handler_differs_from_arithmetic", fmt.Sprintf("%s in %s failed: %v", pathName, s.sn, herr))
				return
			}
			cp, err := ms.CommonPool(ctx)
			must(err)
			q := new(big.Int).Sub(s.sn.common, bi(cp))
			if q.Sign() < 0 {
				ok = false
				h.fail("handler_differs_from_arithmetic", fmt.Sprintf("%s in %s increased the common pool", pathName, s.sn))
				return
			}
			want := s
			if q.Sign() > 0 {
				want = h.x.reward(s, &mv{op: opReward, amt: q, rate: rate})
				if want == nil {
					ok = false
					return
				}
			}
			acct, err := ms.Account(ctx, addrs[0])
			must(err)
			gotB, gotT := bi(&acct.Escrow.Active.Balance), bi(&acct.Escrow.Active.TotalShares)
			if gotB.Cmp(want.sn.B) != 0 || gotT.Cmp(want.sn.T) != 0 {
				ok = false
				h.fail("handler_differs_from_arithmetic", fmt.Sprintf("%s with commission rate %d/100000 in %s paid %s: the real code gives active balance=%s shares=%s, a reward that first raises the share price and then deposits the commission gives balance=%s shares=%s", pathName, rate, s.sn, q, gotB, gotT, want.sn.B, want.sn.T))
				return
			}
			for j := 0; j < N; j++ {
				del, err := ms.Delegation(ctx, addrs[j], addrs[0])
				must(err)
				if bi(&del.Shares).Cmp(want.sn.sh[j]) != 0 {
					ok = false
					h.fail("handler_differs_from_arithmetic", fmt.Sprintf("%s with commission rate %d/100000 in %s paid %s: delegator d%d holds %s shares, expected %s", pathName, rate, s.sn, q, j, bi(&del.Shares), want.sn.sh[j]))
					return
				}
			}
		}()
	}
	return ok
}
