package main

// One letter = one execution of the real code on a clone of the state,
// followed by the oracle.  The oracle is written with math/big integers and
// rationals only; it never calls the arithmetic under test except to OBSERVE
// StakeForShares (the "redeemable value" the property talks about).

import (
	"fmt"
	"math/big"

	"github.com/oasisprotocol/oasis-core/go/common/quantity"
	stakingState "github.com/oasisprotocol/oasis-core/go/consensus/cometbft/apps/staking/state"
	staking "github.com/oasisprotocol/oasis-core/go/staking/api"
)

// stepper executes letters and checks them.  Not goroutine-safe.
type stepper struct {
	w        *world
	fail     func(check, what string) // called for every violated check
	bad      bool                     // a check failed during the current step
	stats    *stats
	depth    int           // length of the current sequence (reporting)
	describe func() string // current sequence (reporting)
	litDepth int
	// scratch
	t1, t2         big.Int
	s1, s2, s3, s4 big.Int
}

type stats struct {
	letters          [5]int64 // executed letters by op
	rejected         [5]int64 // real code returned an (expected) error
	noop             [5]int64 // accepted, nothing changed
	inexactMint      int64    // deposits where a*T/B is not an integer (rounding exercised)
	inexactPayout    int64
	inexactSlash     int64
	literalExceeded  int64 // an account was paid more than in + reward share (only via others' rounding remainders)
	literalExample   string
	zeroShareMint    int64 // deposits > 0 that minted 0 shares
	maxReclaimChoice int
	outcomes         map[string]struct{}
}

func newStats() *stats { return &stats{outcomes: map[string]struct{}{}} }

func (a *stats) merge(b *stats) {
	for i := range a.letters {
		a.letters[i] += b.letters[i]
		a.rejected[i] += b.rejected[i]
		a.noop[i] += b.noop[i]
	}
	a.inexactMint += b.inexactMint
	a.inexactPayout += b.inexactPayout
	a.inexactSlash += b.inexactSlash
	a.literalExceeded += b.literalExceeded
	a.zeroShareMint += b.zeroShareMint
	if a.literalExample == "" || (b.literalExample != "" && (len(b.literalExample) < len(a.literalExample) || (len(b.literalExample) == len(a.literalExample) && b.literalExample < a.literalExample))) {
		a.literalExample = b.literalExample
	}
	if b.maxReclaimChoice > a.maxReclaimChoice {
		a.maxReclaimChoice = b.maxReclaimChoice
	}
	for k := range b.outcomes {
		a.outcomes[k] = struct{}{}
	}
}

func (x *stepper) violate(check, format string, a ...any) {
	x.bad = true
	x.fail(check, fmt.Sprintf(format, a...))
}

func (x *stepper) outcome(s string) { x.stats.outcomes[s] = struct{}{} }

func snapEqual(a, b *snap) bool {
	if a.B.Cmp(b.B) != 0 || a.T.Cmp(b.T) != 0 || a.DB.Cmp(b.DB) != 0 || a.DT.Cmp(b.DT) != 0 || a.common.Cmp(b.common) != 0 {
		return false
	}
	for j := 0; j < N; j++ {
		if a.sh[j].Cmp(b.sh[j]) != 0 || a.dsh[j].Cmp(b.dsh[j]) != 0 || a.gen[j].Cmp(b.gen[j]) != 0 {
			return false
		}
	}
	return true
}

func (sn *snap) String() string {
	return fmt.Sprintf("active{balance=%s shares=%s} debonding{balance=%s shares=%s} delegations=%v debonding_delegations=%v",
		sn.B, sn.T, sn.DB, sn.DT, sn.sh, sn.dsh)
}

// expect describes the exact frame of a sub-operation: which integers may
// change and by how much.  Everything else must stay as it was.
type expect struct {
	dB, dT, dDB, dDT *big.Int
	who              int // whose shares/balance change (-1: nobody)
	dSh, dDsh, dGen  *big.Int
	dCommon          *big.Int
}

var zero = new(big.Int)

var (
	delNames = [N]string{"delegation d0", "delegation d1", "delegation d2"}
	debNames = [N]string{"debonding delegation d0", "debonding delegation d1", "debonding delegation d2"}
	genNames = [N]string{"general balance d0", "general balance d1", "general balance d2"}
)

func (x *stepper) frame(name string, pre, post *snap, e expect) {
	chk := func(what string, a, b, d *big.Int) {
		if d == nil {
			if a.Cmp(b) != 0 {
				x.violate("frame", "%s: %s changed from %s to %s, expected no change", name, what, a, b)
			}
			return
		}
		x.t1.Add(a, d)
		if x.t1.Cmp(b) != 0 {
			x.violate("frame", "%s: %s changed from %s to %s, expected %s", name, what, a, b, &x.t1)
		}
	}
	chk("active balance", pre.B, post.B, e.dB)
	chk("active total shares", pre.T, post.T, e.dT)
	chk("debonding balance", pre.DB, post.DB, e.dDB)
	chk("debonding total shares", pre.DT, post.DT, e.dDT)
	chk("common pool", pre.common, post.common, e.dCommon)
	for j := 0; j < N; j++ {
		if j == e.who {
			chk(delNames[j], pre.sh[j], post.sh[j], e.dSh)
			chk(debNames[j], pre.dsh[j], post.dsh[j], e.dDsh)
			chk(genNames[j], pre.gen[j], post.gen[j], e.dGen)
		} else {
			chk(delNames[j], pre.sh[j], post.sh[j], nil)
			chk(debNames[j], pre.dsh[j], post.dsh[j], nil)
			chk(genNames[j], pre.gen[j], post.gen[j], nil)
		}
	}
}

func neg(v *big.Int) *big.Int { return new(big.Int).Neg(v) }

// checkMint: a deposit of a base units into a pool with balance B and T shares
// minted m shares.
//
//   - T = 0: the real code documents "No existing shares, exchange rate is 1:1":
//     m must equal a.
//   - T > 0, B > 0: m <= a*T/B (at most the pro-rata number, property text) and
//     m > a*T/B - 1 (what the depositor loses is rounding only: less than one
//     share; "no value is ... taken by rounding").
//
// (T > 0, B = 0 is handled by the caller: the real code documents that no
// shares can be created and returns an error.)
func (x *stepper) checkMint(pool string, B, T, a, m *big.Int) {
	if T.Sign() == 0 {
		if m.Cmp(a) != 0 {
			x.violate("mint_not_one_to_one_in_empty_pool", "%s pool with no shares: deposit of %s minted %s shares (documented 1:1)", pool, a, m)
		}
		return
	}
	aT := x.t1.Mul(a, T)
	mB := x.t2.Mul(m, B)
	if mB.Cmp(aT) > 0 {
		x.violate("mint_exceeds_pro_rata", "%s pool balance=%s shares=%s: deposit of %s minted %s shares > a*T/B = %s", pool, B, T, a, m, new(big.Rat).SetFrac(new(big.Int).Set(aT), B).FloatString(3))
		return
	}
	if mB.Cmp(aT) != 0 {
		x.stats.inexactMint++
	}
	if m.Sign() == 0 && a.Sign() > 0 {
		x.stats.zeroShareMint++
	}
	mB.Add(mB, B) // (m+1)*B
	if mB.Cmp(aT) <= 0 {
		x.violate("mint_below_rounding", "%s pool balance=%s shares=%s: deposit of %s minted only %s shares, a*T/B = %s (more than rounding taken from the depositor)", pool, B, T, a, m, new(big.Rat).SetFrac(new(big.Int).Set(aT), B).FloatString(3))
	}
}

// checkPayout: redeeming s shares from a pool with balance B and T >= s > 0
// shares paid p base units: p <= s*B/T (property text) and p > s*B/T - 1
// (rounding only).
func (x *stepper) checkPayout(pool string, B, T, s, p *big.Int) {
	sB := x.t1.Mul(s, B)
	pT := x.t2.Mul(p, T)
	if pT.Cmp(sB) > 0 {
		x.violate("payout_exceeds_pro_rata", "%s pool balance=%s shares=%s: redeeming %s shares paid %s > s*B/T = %s", pool, B, T, s, p, ratStr(sB, T))
		return
	}
	if pT.Cmp(sB) != 0 {
		x.stats.inexactPayout++
	}
	pT.Add(pT, T)
	if pT.Cmp(sB) <= 0 {
		x.violate("payout_below_rounding", "%s pool balance=%s shares=%s: redeeming %s shares paid only %s, s*B/T = %s (more than rounding taken from the redeemer)", pool, B, T, s, p, ratStr(sB, T))
	}
}

func ratStr(num, den *big.Int) string {
	if den.Sign() == 0 {
		return num.String() + "/0"
	}
	return new(big.Rat).SetFrac(new(big.Int).Set(num), den).FloatString(3)
}

// general runs the checks that apply to every sub-operation.
//
// prePools/postPools are the REAL pools before and after (index 0 active, 1
// debonding), used only to observe the real StakeForShares.  actor is the
// delegator whose own operation this is (-1 for reward and slash); cashIn /
// cashOut is what the actor paid into escrow / was paid out in this
// sub-operation.
func (x *stepper) general(name string, pre, post *snap, prePools, postPools *[2]staking.SharePool, ns *st, actor int, cashIn, cashOut *big.Int, isSlash bool) {
	// Pool invariant: total shares = sum of the delegations' shares.
	sumA, sumD := x.s1.SetInt64(0), x.s2.SetInt64(0)
	tot0, tot1 := x.s3.SetInt64(0), x.s4.SetInt64(0)
	for j := 0; j < N; j++ {
		sumA.Add(sumA, post.sh[j])
		sumD.Add(sumD, post.dsh[j])
		tot0.Add(tot0, pre.gen[j])
		tot1.Add(tot1, post.gen[j])
	}
	if sumA.Cmp(post.T) != 0 {
		x.violate("pool_invariant", "%s: active total shares %s != sum of delegations %s", name, post.T, sumA)
	}
	if sumD.Cmp(post.DT) != 0 {
		x.violate("pool_invariant", "%s: debonding total shares %s != sum of debonding delegations %s", name, post.DT, sumD)
	}
	tot0.Add(tot0, pre.B).Add(tot0, pre.DB).Add(tot0, pre.common)
	tot1.Add(tot1, post.B).Add(tot1, post.DB).Add(tot1, post.common)
	if tot0.Cmp(tot1) != 0 {
		x.violate("pool_invariant", "%s: base units not conserved: %s before, %s after", name, tot0, tot1)
	}

	// Share price falls only in slash.  Price = balance/shares, compared by
	// cross multiplication; undefined (not compared) while a pool has no shares.
	aChanged := pre.B.Cmp(post.B) != 0 || pre.T.Cmp(post.T) != 0
	dChanged := pre.DB.Cmp(post.DB) != 0 || pre.DT.Cmp(post.DT) != 0
	if !isSlash {
		if aChanged && pre.T.Sign() > 0 && post.T.Sign() > 0 && x.t1.Mul(post.B, pre.T).Cmp(x.t2.Mul(pre.B, post.T)) < 0 {
			x.violate("price_fell_without_slash", "%s: active share price fell from %s/%s to %s/%s", name, pre.B, pre.T, post.B, post.T)
		}
		if dChanged && pre.DT.Sign() > 0 && post.DT.Sign() > 0 && x.t1.Mul(post.DB, pre.DT).Cmp(x.t2.Mul(pre.DB, post.DT)) < 0 {
			x.violate("price_fell_without_slash", "%s: debonding share price fell from %s/%s to %s/%s", name, pre.DB, pre.DT, post.DB, post.DT)
		}
	} else if post.B.Cmp(pre.B) > 0 || post.DB.Cmp(pre.DB) > 0 {
		x.violate("slash_increased_balance", "%s: a pool balance rose in slash", name)
	}

	// No account's redeemable value (the real StakeForShares of its shares)
	// falls because of another account's operation.
	if !isSlash {
		for j := 0; j < N; j++ {
			if j == actor {
				continue
			}
			if aChanged && pre.sh[j].Sign() > 0 {
				x.bystander(name, "active", j, &prePools[0], &postPools[0], pre.sh[j], post.B, post.T)
			}
			if dChanged && pre.dsh[j].Sign() > 0 {
				x.bystander(name, "debonding", j, &prePools[1], &postPools[1], pre.dsh[j], post.DB, post.DT)
			}
		}
	}

	// Ledger.  Define an account's worth as
	//     worth_j = paid out_j + shares_j * P + debonding_shares_j * DP
	// (P, DP the exact rational share prices) and its entitlement as what it
	// paid in, plus its share of rewards, plus its share of the rounding
	// remainders other accounts leave in a pool, minus its share of slashes,
	// where "its share" of anything that moves a price from P to P' while j is
	// not the one operating is shares_j * (P' - P) (for a reward r into T
	// shares: r*shares_j/T).  For an account that is not operating both sides
	// move by exactly the same amount (its shares and payouts are unchanged,
	// which the frame check enforces), so the slack
	//     slack_j = entitlement_j - worth_j
	// only changes for the operating account, by
	//     cash it paid in - cash it was paid - change of the exact value of its shares.
	// slack_j >= 0 at all times is the sequence-level statement: nothing an
	// account is ever paid, plus everything it could still claim, exceeds what
	// it put in plus its share of what others added.
	if actor >= 0 {
		d := new(big.Rat)
		if cashIn != nil {
			d.SetInt(cashIn)
		}
		if cashOut != nil {
			d.Sub(d, new(big.Rat).SetInt(cashOut))
		}
		if aChanged || pre.sh[actor].Cmp(post.sh[actor]) != 0 {
			d.Sub(d, valueDelta(pre.sh[actor], pre.B, pre.T, post.sh[actor], post.B, post.T))
		}
		if dChanged || pre.dsh[actor].Cmp(post.dsh[actor]) != 0 {
			d.Sub(d, valueDelta(pre.dsh[actor], pre.DB, pre.DT, post.dsh[actor], post.DB, post.DT))
		}
		if d.Sign() != 0 {
			ns.slack[actor] = new(big.Rat).Add(ns.slack[actor], d)
			if ns.slack[actor].Sign() < 0 {
				x.violate("worth_exceeds_entitlement", "%s: account d%d (paid in %s, paid out %s) is now worth %s more than it is entitled to (paid in + share of rewards and of others' rounding remainders - share of slashes)",
					name, actor, ns.in[actor], ns.out[actor], new(big.Rat).Neg(ns.slack[actor]).FloatString(4))
			}
		}
	}
}

// valueDelta returns s1*B1/T1 - s0*B0/T0 exactly (a pool without shares has
// value 0), with a single normalisation.
func valueDelta(s0, B0, T0, s1, B1, T1 *big.Int) *big.Rat {
	z0 := T0.Sign() == 0 || s0.Sign() == 0
	z1 := T1.Sign() == 0 || s1.Sign() == 0
	switch {
	case z0 && z1:
		return new(big.Rat)
	case z0:
		return new(big.Rat).SetFrac(new(big.Int).Mul(s1, B1), T1)
	case z1:
		r := new(big.Rat).SetFrac(new(big.Int).Mul(s0, B0), T0)
		return r.Neg(r)
	}
	a := new(big.Int).Mul(s1, B1)
	a.Mul(a, T0)
	b := new(big.Int).Mul(s0, B0)
	b.Mul(b, T1)
	return new(big.Rat).SetFrac(a.Sub(a, b), new(big.Int).Mul(T0, T1))
}

func (x *stepper) bystander(name, pool string, j int, prePool, postPool *staking.SharePool, shares, B1, T1 *big.Int) {
	q := qOf(shares)
	v0, err0 := prePool.StakeForShares(q)
	v1, err1 := postPool.StakeForShares(q)
	if err0 != nil || err1 != nil {
		x.violate("unexpected_error", "%s: StakeForShares(%s) on the %s pool failed: %v %v", name, shares, pool, err0, err1)
		return
	}
	b0, b1 := bi(v0), bi(v1)
	if b1.Cmp(b0) < 0 {
		x.violate("bystander_value_fell", "%s: redeemable value of d%d's %s %s shares fell from %s to %s through another account's operation", name, j, shares, pool, b0, b1)
	}
	// Redeemable value is at most the pro-rata worth.
	if x.t1.Mul(b1, T1).Cmp(x.t2.Mul(shares, B1)) > 0 {
		x.violate("payout_exceeds_pro_rata", "%s: StakeForShares(%s) on %s pool balance=%s shares=%s is %s > pro rata", name, shares, pool, B1, T1, b1)
	}
}

func pools(s *st) *[2]staking.SharePool {
	return &[2]staking.SharePool{s.esc.Active, s.esc.Debonding}
}

func poolsCopy(s *st) *[2]staking.SharePool {
	return &[2]staking.SharePool{clonePool(&s.esc.Active), clonePool(&s.esc.Debonding)}
}

func addInt(a, b *big.Int) *big.Int { return new(big.Int).Add(a, b) }

func addRatInt(a *big.Rat, b *big.Int) *big.Rat {
	return new(big.Rat).Add(a, new(big.Rat).SetInt(b))
}

// step executes one letter on s.  It returns the successor state and whether
// anything changed (a rejected or empty letter returns s itself and false).
func (x *stepper) step(s *st, m *mv) (ns *st, changed bool) {
	x.bad = false
	x.stats.letters[m.op]++
	defer func() {
		if p := recover(); p != nil {
			x.violate("panic", "%s panicked: %v", opNames[m.op], p)
			ns, changed = s, false
		}
	}()
	switch m.op {
	case opDeposit:
		ns = x.deposit(s, m)
	case opReclaim:
		ns = x.reclaim(s, m)
	case opReward:
		ns = x.reward(s, m)
	case opSlash:
		ns = x.slash(s, m)
	case opComplete:
		ns = x.complete(s)
	}
	if ns == nil {
		x.stats.rejected[m.op]++
		return s, false
	}
	if ns.has == s.has && snapEqual(s.sn, ns.sn) {
		x.stats.noop[m.op]++
		return s, false
	}
	return ns, true
}

func (x *stepper) deposit(s *st, m *mv) *st {
	i, a, pre := m.who, m.amt, s.sn
	ns := s.clone()
	ownPool(&ns.esc.Active)
	own(&ns.del[i].Shares)
	own(&ns.gen[i])
	minted, err := ns.esc.Active.Deposit(&ns.del[i].Shares, &ns.gen[i], qOf(a))
	// The real code documents: a pool that lost its whole balance through
	// slashing while shares are outstanding cannot create more shares.  (Any
	// number of shares minted there would hand the deposit to the holders of
	// worthless shares: far more than rounding.)
	worthless := pre.T.Sign() > 0 && pre.B.Sign() == 0
	if err != nil {
		if !worthless {
			x.violate("unexpected_error", "deposit of %s by d%d into active balance=%s shares=%s failed: %v", a, i, pre.B, pre.T, err)
		}
		x.outcome("deposit:rejected(no balance, outstanding shares)")
		return nil
	}
	ns.sn = snapAfter(s, ns)
	if worthless {
		x.violate("deposit_into_worthless_pool_accepted", "deposit of %s by d%d into active pool with balance 0 and %s outstanding shares was accepted and minted %s shares (documented: rejected)", a, i, pre.T, bi(minted))
		return ns
	}
	mi := bi(minted)
	x.checkMint("active", pre.B, pre.T, a, mi)
	x.frame("deposit", pre, ns.sn, expect{dB: a, dT: mi, who: i, dSh: mi, dGen: neg(a)})
	ns.in[i] = addInt(ns.in[i], a)
	ns.lit[i] = addRatInt(ns.lit[i], a)
	x.general("deposit", pre, ns.sn, pools(s), pools(ns), ns, i, a, nil, false)
	if pre.T.Sign() == 0 {
		x.outcome("deposit:first(1:1)")
	} else {
		x.outcome("deposit:pro-rata")
	}
	return ns
}

func (x *stepper) reclaim(s *st, m *mv) *st {
	i, sh, pre := m.who, m.amt, s.sn
	if sh.Sign() == 0 {
		// reclaimEscrow: "No sense if there is nothing to reclaim" (ErrInvalidArgument).
		x.outcome("reclaim:rejected(zero shares)")
		return nil
	}
	ns := s.clone()
	ownPool(&ns.esc.Active)
	ownPool(&ns.esc.Debonding)
	own(&ns.del[i].Shares)
	var base quantity.Quantity
	err := ns.esc.Active.Withdraw(&base, &ns.del[i].Shares, qOf(sh))
	over := sh.Cmp(pre.sh[i]) > 0
	if err != nil {
		if !over {
			x.violate("unexpected_error", "reclaim of %s of d%d's %s shares from active balance=%s shares=%s failed: %v", sh, i, pre.sh[i], pre.B, pre.T, err)
		}
		x.outcome("reclaim:rejected(more than held)")
		return nil
	}
	if over {
		x.violate("overdraw_accepted", "d%d holds %s shares but reclaiming %s was accepted", i, pre.sh[i], sh)
		return nil
	}
	p := bi(&base)
	x.checkPayout("active", pre.B, pre.T, sh, p)

	// The redeemed stake is deposited into the debonding pool at that pool's
	// price at this moment.
	stake := base.Clone()
	d := staking.DebondingDelegation{DebondEndTime: s.epoch + 1}
	dm, err := ns.esc.Debonding.Deposit(&d.Shares, &base, stake)
	worthless := pre.DT.Sign() > 0 && pre.DB.Sign() == 0
	if err != nil {
		if !worthless {
			x.violate("unexpected_error", "reclaim: deposit of %s into debonding balance=%s shares=%s failed: %v", p, pre.DB, pre.DT, err)
		}
		x.outcome("reclaim:rejected(debonding pool has no balance, outstanding shares)")
		return nil
	}
	if worthless {
		x.violate("deposit_into_worthless_pool_accepted", "reclaim: %s base units entered the debonding pool with balance 0 and %s outstanding shares (documented: rejected)", p, pre.DT)
		return nil
	}
	if !base.IsZero() {
		x.violate("unexpected_error", "reclaim: %s base units left over after moving the redeemed stake into debonding", bi(&base))
		return nil
	}
	dmi := bi(dm)
	x.checkMint("debonding", pre.DB, pre.DT, p, dmi)
	if s.has[i] {
		// SetDebondingDelegation merges entries with the same end epoch.
		if err = d.Merge(ns.deb[i]); err != nil {
			x.violate("unexpected_error", "reclaim: merging debonding delegations failed: %v", err)
			return nil
		}
	}
	ns.deb[i] = d
	ns.has[i] = true
	ns.sn = snapAfter(s, ns)
	x.frame("reclaim", pre, ns.sn, expect{dB: neg(p), dT: neg(sh), dDB: p, dDT: dmi, who: i, dSh: neg(sh), dDsh: dmi})
	x.general("reclaim", pre, ns.sn, pools(s), pools(ns), ns, i, nil, nil, false)
	if p.Sign() == 0 {
		x.outcome("reclaim:worth nothing")
	} else if pre.DT.Sign() == 0 {
		x.outcome("reclaim:first debonding(1:1)")
	} else {
		x.outcome("reclaim:pro-rata debonding")
	}
	return ns
}

func (x *stepper) reward(s *st, m *mv) *st {
	r, pre := m.amt, s.sn
	ns := s.clone()
	ownPool(&ns.esc.Active)
	own(&ns.del[0].Shares)
	own(&ns.common)
	var com, rem *big.Int
	switch {
	case pre.T.Sign() == 0:
		// TransferFromCommon: "If nothing has been escrowed before, everything counts as commission."
		com, rem = r, zero
	case m.rate == 0:
		com, rem = zero, r
	default:
		cq, rq, err := stakingState.VerifComputeCommission(quantity.NewFromUint64(m.rate), qOf(r))
		if err != nil {
			x.violate("unexpected_error", "computeCommission(%d, %s) failed: %v", m.rate, r, err)
			return nil
		}
		com, rem = bi(cq), bi(rq)
		// Commission is at most the pro-rata part and the two parts add up.
		if addInt(com, rem).Cmp(r) != 0 || x.t1.Mul(com, big.NewInt(100000)).Cmp(x.t2.Mul(r, new(big.Int).SetUint64(m.rate))) > 0 {
			x.violate("commission_exceeds_rate", "commission of reward %s at rate %d/100000 is %s (+ remainder %s)", r, m.rate, com, rem)
		}
	}
	cur, curPools := pre, pools(s)
	if rem.Sign() > 0 {
		// Balance increase without new shares, as rewards do.
		if err := quantity.Move(&ns.esc.Active.Balance, &ns.common, qOf(rem)); err != nil {
			x.violate("unexpected_error", "harness: moving reward failed: %v", err)
			return nil
		}
		mid := snapAfter(s, ns)
		x.frame("reward", cur, mid, expect{dB: rem, who: -1, dCommon: neg(rem)})
		// Literal ledger: every holder's share of the reward is r*shares/T.
		for j := 0; j < N; j++ {
			if cur.sh[j].Sign() > 0 {
				share := new(big.Rat).SetFrac(new(big.Int).Mul(rem, cur.sh[j]), cur.T)
				ns.lit[j] = new(big.Rat).Add(ns.lit[j], share)
			}
		}
		midPools := poolsCopy(ns)
		x.general("reward", cur, mid, curPools, midPools, ns, -1, nil, nil, false)
		cur, curPools = mid, midPools
		x.outcome("reward:balance only")
	}
	if com.Sign() > 0 {
		// The commission is deposited for the escrow owner (delegator 0): a
		// shorthand for paying it to the owner who immediately escrows it.
		minted, err := ns.esc.Active.Deposit(&ns.del[0].Shares, &ns.common, qOf(com))
		if err != nil {
			x.violate("unexpected_error", "depositing commission %s into active balance=%s shares=%s failed: %v", com, cur.B, cur.T, err)
			return nil
		}
		post := snapAfter(s, ns)
		mi := bi(minted)
		x.checkMint("active", cur.B, cur.T, com, mi)
		x.frame("commission", cur, post, expect{dB: com, dT: mi, who: 0, dSh: mi, dCommon: neg(com)})
		ns.in[0] = addInt(ns.in[0], com)
		ns.lit[0] = addRatInt(ns.lit[0], com)
		x.general("commission", cur, post, curPools, pools(ns), ns, 0, com, nil, false)
		cur = post
		x.outcome("reward:commission deposited")
	}
	ns.sn = cur
	return ns
}

func (x *stepper) slash(s *st, m *mv) *st {
	amount, pre := m.amt, s.sn
	ns := s.clone()
	slashed, err := x.w.slashReal(ns, amount)
	if err != nil {
		x.violate("unexpected_error", "SlashEscrow(%s) on active balance=%s debonding balance=%s failed: %v", amount, pre.B, pre.DB, err)
		return nil
	}
	ns.sn = snapAfter(s, ns)
	post := ns.sn
	lossA := new(big.Int).Sub(pre.B, post.B)
	lossD := new(big.Int).Sub(pre.DB, post.DB)
	x.frame("slash", pre, post, expect{dB: neg(lossA), dDB: neg(lossD), who: -1, dCommon: addInt(lossA, lossD)})
	if addInt(lossA, lossD).Cmp(slashed) != 0 {
		x.violate("frame", "slash: reported %s slashed but pools lost %s + %s", slashed, lossA, lossD)
	}
	// Same fraction from both pools.  The requested fraction of the account's
	// escrow is f = min(amount, total)/total with total = active + debonding
	// balance.  The real code takes floor(amount*X/total) from a pool with
	// balance X (capped at X): a floor loses strictly less than one base unit
	// and never rounds up, so the exact tolerance per pool is
	//     0 <= f*X - loss_X < 1,
	// i.e. loss_X*total <= eff*X < (loss_X+1)*total.  Nothing looser is
	// accepted (neither a two-sided +-1 nor a full base unit).
	total := addInt(pre.B, pre.DB)
	eff := amount
	if eff.Cmp(total) > 0 {
		eff = total
	}
	for k, pl := range [2]struct {
		name    string
		X, loss *big.Int
	}{{"active", pre.B, lossA}, {"debonding", pre.DB, lossD}} {
		_ = k
		if total.Sign() == 0 {
			if pl.loss.Sign() != 0 {
				x.violate("slash_unequal_fraction", "slash(%s) of empty escrow changed the %s balance by %s", amount, pl.name, pl.loss)
			}
			continue
		}
		want := x.t1.Mul(eff, pl.X)     // f*X*total
		got := x.t2.Mul(pl.loss, total) // loss*total
		if got.Cmp(want) > 0 {
			x.violate("slash_unequal_fraction", "slash(%s) with active=%s debonding=%s: %s pool lost %s > its pro-rata part %s", amount, pre.B, pre.DB, pl.name, pl.loss, ratStr(want, total))
			continue
		}
		if got.Cmp(want) != 0 {
			x.stats.inexactSlash++
		}
		got.Add(got, total)
		if got.Cmp(want) <= 0 {
			x.violate("slash_unequal_fraction", "slash(%s) with active=%s debonding=%s: %s pool lost %s, a whole base unit or more below its pro-rata part %s", amount, pre.B, pre.DB, pl.name, pl.loss, ratStr(want, total))
		}
	}
	x.general("slash", pre, post, pools(s), pools(ns), ns, -1, nil, nil, true)
	switch {
	case amount.Cmp(total) > 0:
		x.outcome("slash:more than escrowed")
	case total.Sign() > 0 && amount.Cmp(total) == 0:
		x.outcome("slash:everything")
	case pre.DB.Sign() > 0 && pre.B.Sign() > 0 && amount.Sign() > 0:
		x.outcome("slash:both pools")
	default:
		x.outcome("slash:other")
	}
	return ns
}

func (x *stepper) complete(s *st) *st {
	ns := s.clone()
	ns.epoch++
	ownPool(&ns.esc.Debonding)
	cur, curPools := s.sn, pools(s)
	for k := 0; k < N; k++ {
		if !ns.has[k] {
			continue
		}
		own(&ns.deb[k].Shares)
		own(&ns.gen[k])
		d := ns.deb[k].Shares.Clone()
		var base quantity.Quantity
		if err := ns.esc.Debonding.Withdraw(&base, &ns.deb[k].Shares, d); err != nil {
			x.violate("unexpected_error", "debonding completion of d%d's %s shares from debonding balance=%s shares=%s failed: %v", k, bi(d), cur.DB, cur.DT, err)
			return nil
		}
		p := bi(&base)
		if err := quantity.Move(&ns.gen[k], &base, base.Clone()); err != nil {
			x.violate("unexpected_error", "harness: paying out failed: %v", err)
			return nil
		}
		ns.has[k] = false
		ns.deb[k] = staking.DebondingDelegation{}
		di := bi(d)
		if di.Sign() > 0 {
			x.checkPayout("debonding", cur.DB, cur.DT, di, p)
		} else if p.Sign() != 0 {
			x.violate("payout_exceeds_pro_rata", "debonding completion of 0 shares paid %s", p)
		}
		next := snapAfter(s, ns)
		x.frame("complete", cur, next, expect{dDB: neg(p), dDT: neg(di), who: k, dDsh: neg(di), dGen: p})
		ns.out[k] = addInt(ns.out[k], p)
		nextPools := poolsCopy(ns)
		x.general("complete", cur, next, curPools, nextPools, ns, k, nil, p, false)
		// Literal reading of the property (in + share of rewards, no share of
		// other accounts' rounding remainders): counted, see report.
		if new(big.Rat).SetInt(ns.out[k]).Cmp(ns.lit[k]) > 0 {
			x.stats.literalExceeded++
			if x.describe != nil && (x.stats.literalExample == "" || x.depth < x.litDepth) {
				x.litDepth = x.depth
				x.stats.literalExample = fmt.Sprintf("%s => d%d paid in %s, reward share %s, paid out %s", x.describe(), k, ns.in[k], new(big.Rat).Sub(ns.lit[k], new(big.Rat).SetInt(ns.in[k])).FloatString(3), ns.out[k])
			}
		}
		cur, curPools = next, nextPools
		x.outcome("complete:paid")
	}
	ns.sn = cur
	return ns
}
