package main

// Part 3: the host-side helpers that interpret a runtime's responses
// (runtime/host.RichRuntime: CheckTx, Query, LocalRPC, ConsensusSync).  The
// runtime is untrusted: for every response shape from a small complete
// alphabet the helper must return an error or a value its callers can use
// without further checks (CheckTx: exactly one result per input, which the
// transaction pool indexes by position).

import (
	"context"
	"fmt"

	"github.com/oasisprotocol/oasis-core/go/common/cbor"
	consensus "github.com/oasisprotocol/oasis-core/go/consensus/api"
	"github.com/oasisprotocol/oasis-core/go/roothash/api/block"
	enclaverpc "github.com/oasisprotocol/oasis-core/go/runtime/enclaverpc/api"
	"github.com/oasisprotocol/oasis-core/go/runtime/host"
	"github.com/oasisprotocol/oasis-core/go/runtime/host/protocol"

	"verif/harness/internal/ev"
)

// fakeRuntime answers every Call with a fixed response.
type fakeRuntime struct {
	host.Runtime
	resp *protocol.Body
	err  error
}

func (f *fakeRuntime) Call(context.Context, *protocol.Body) (*protocol.Body, error) {
	return f.resp, f.err
}

type richCase struct {
	name string
	resp *protocol.Body
	err  error
}

func richResponses(n int) []richCase {
	cs := []richCase{
		{"error", nil, fmt.Errorf("runtime failure")},
		{"empty body", &protocol.Body{}, nil},
		{"body of another request (Empty)", &protocol.Body{Empty: &protocol.Empty{}}, nil},
		{"body of another request (query response)", &protocol.Body{RuntimeQueryResponse: &protocol.RuntimeQueryResponse{Data: []byte("x")}}, nil},
		{"error body", &protocol.Body{Error: &protocol.Error{Module: "m", Code: 1, Message: "e"}}, nil},
	}
	for m := 0; m <= n+2; m++ {
		cs = append(cs, richCase{fmt.Sprintf("check-tx response with %d results", m), &protocol.Body{RuntimeCheckTxBatchResponse: &protocol.RuntimeCheckTxBatchResponse{Results: make([]protocol.CheckTxResult, m)}}, nil})
	}
	cs = append(cs, richCase{"check-tx response with nil results", &protocol.Body{RuntimeCheckTxBatchResponse: &protocol.RuntimeCheckTxBatchResponse{}}, nil})
	cs = append(cs, richCase{"consensus sync response", &protocol.Body{RuntimeConsensusSyncResponse: &protocol.Empty{}}, nil})
	okv := cbor.Marshal("payload")
	es := "failed"
	for _, m := range []struct {
		name string
		raw  []byte
	}{
		{"local RPC: success", cbor.Marshal(enclaverpc.Message{Response: &enclaverpc.Response{Body: enclaverpc.Body{Success: okv}}})},
		{"local RPC: error", cbor.Marshal(enclaverpc.Message{Response: &enclaverpc.Response{Body: enclaverpc.Body{Error: &es}}})},
		{"local RPC: neither success nor error", cbor.Marshal(enclaverpc.Message{Response: &enclaverpc.Response{}})},
		{"local RPC: not a response", cbor.Marshal(map[string]any{"request": map[string]any{"method": "x"}})},
		{"local RPC: empty message", cbor.Marshal(enclaverpc.Message{})},
		{"local RPC: success payload of another type", cbor.Marshal(enclaverpc.Message{Response: &enclaverpc.Response{Body: enclaverpc.Body{Success: cbor.Marshal(map[string]int{"a": 1})}}})},
		{"local RPC: undecodable envelope", []byte{0xff, 0x00}},
		{"local RPC: nil envelope", nil},
	} {
		cs = append(cs, richCase{m.name, &protocol.Body{RuntimeLocalRPCCallResponse: &protocol.RuntimeLocalRPCCallResponse{Response: m.raw}}, nil})
	}
	return cs
}

func guardRich(f func() string) (what string) {
	defer func() {
		if p := recover(); p != nil {
			what = fmt.Sprintf("panic: %v", p)
		}
	}()
	return f()
}

// replayRich re-executes one case {helper, batch size, response name}.
func replayRich(seq []string) string {
	if len(seq) != 3 {
		return "harness: malformed replay"
	}
	richOnly = seq
	defer func() { richOnly = nil }()
	richFound = ""
	runRich(nil)
	return richFound
}

var (
	richOnly  []string
	richFound string
)

func runRich(r *ev.Run) {
	ctx := context.Background()
	rb, lb := &block.Block{}, &consensus.LightBlock{}
	var cases int64
	for n := 0; n <= 3; n++ {
		batch := make([][]byte, n)
		for i := range batch {
			batch[i] = []byte{byte(i)}
		}
		for _, c := range richResponses(n) {
			c := c
			rr := host.NewRichRuntime(&fakeRuntime{resp: c.resp, err: c.err})
			checks := map[string]func() string{
				"CheckTx": func() string {
					res, err := rr.CheckTx(ctx, rb, lb, 1, 8, batch)
					if err == nil && len(res) != n {
						return fmt.Sprintf("returned %d results for %d transactions without an error", len(res), n)
					}
					return ""
				},
				"Query": func() string {
					_, _ = rr.Query(ctx, rb, lb, 1, 8, "m", nil)
					return ""
				},
				"LocalRPC": func() string {
					var out string
					err := rr.LocalRPC(ctx, "m", "args", &out)
					if err == nil && out != "payload" {
						return fmt.Sprintf("succeeded with payload %q although the runtime did not answer with the expected string payload", out)
					}
					return ""
				},
				"ConsensusSync": func() string {
					err := rr.ConsensusSync(ctx, 5)
					if err == nil && (c.resp == nil || c.resp.RuntimeConsensusSyncResponse == nil) {
						return "succeeded although the runtime did not answer with a consensus sync response"
					}
					return ""
				},
			}
			for _, name := range []string{"CheckTx", "Query", "LocalRPC", "ConsensusSync"} {
				if n > 0 && name != "CheckTx" {
					continue // the batch size only matters for CheckTx
				}
				if richOnly != nil {
					if richOnly[0] == name && richOnly[1] == fmt.Sprint(n) && richOnly[2] == c.name {
						richFound = guardRich(checks[name])
					}
					continue
				}
				cases++
				if what := guardRich(checks[name]); what != "" {
					r.Violate(ev.Violation{Engine: "rhpmc", Key: fmt.Sprintf("rhp rich %s n=%d %s", name, n, c.name), What: fmt.Sprintf("runtime host helper %s with %d input transactions, runtime answers [%s]: %s", name, n, c.name, what), Artefact: artefact{Part: "rich", Seq: []string{name, fmt.Sprint(n), c.name}}})
				}
			}
		}
	}
	if r == nil {
		return
	}
	r.Add("rich_runtime_helper_cases", cases)
	r.Add("transitions", cases)
	r.Set("rule_rhp_helpers", "part 3: the host-side helpers CheckTx (0..3 input transactions), Query, LocalRPC and ConsensusSync of runtime/host.RichRuntime over a runtime answering with every response of a complete small alphabet (failure, empty body, bodies of other requests, error body, check-tx responses with 0..n+2 and nil results, every kind of local-RPC envelope); oracle: no panic; success implies a value callers can use unchecked (exactly one check result per input, the decoded payload, a sync response)")
}
