// rhpmc decides the connection-level part of property C16 for the runtime host protocol:
// no sequence of well-formed or malformed frames from the (untrusted) peer makes the
// connection's dispatcher hang, deliver a response twice, or corrupt later calls.
//
// Part 1 (explicit-state, deterministic): every sequence up to a depth of the alphabet
// {register a call, dispatch a response for a registered / completed / unknown id, the caller
// receives, the caller gives up, dispatch an incoming request, dispatch a malformed message}
// on a real protocol.connection (InitGuest over an in-memory pipe whose peer side is drained),
// with the registration / cleanup steps of call() exposed as separate operations
// (overlay runtime/host/protocol/verif_export.go) so that they can be placed anywhere
// between dispatches.
//
// Part 2 (conformance of that caller model with the real Call, free-running): a real
// Connection.Call over the pipe, the peer answering with every sequence of frames up to a
// depth (and bursts of duplicates), checked for: Call returns the first response, a later Call
// still works, Close returns.
package main

import (
	"bytes"
	"context"
	"encoding/binary"
	"encoding/json"
	"fmt"
	"io"
	"net"
	"os"
	"strings"
	"sync"
	"time"

	"github.com/oasisprotocol/oasis-core/go/common"
	"github.com/oasisprotocol/oasis-core/go/common/cbor"
	"github.com/oasisprotocol/oasis-core/go/common/logging"
	"github.com/oasisprotocol/oasis-core/go/runtime/host/protocol"

	"verif/harness/internal/ev"
)

// watchdog bounds one dispatch / call / close.  On a tree where the property holds nothing ever
// waits for it (every operation completes after a few goroutine hand-offs).
const watchdog = 20 * time.Second

var maxCallsG = 2

type handler struct{}

func (handler) Handle(_ context.Context, body *protocol.Body) (*protocol.Body, error) {
	if body.RuntimePingRequest != nil {
		return &protocol.Body{Empty: &protocol.Empty{}}, nil
	}
	return nil, fmt.Errorf("unsupported")
}

type artefact struct {
	Part string   `json:"part"`
	Seq  []string `json:"seq"`
}

// ---- part 1 ----

type inst struct {
	conn   protocol.Connection
	peer   net.Conn
	drainW sync.WaitGroup
	ids    []uint64
	chans  []<-chan *protocol.Body
	state  []string // "pending" | "received" | "gaveup"
	first  []string // tag of the first response dispatched while pending ("" = none)
	got    []string // tag the caller received
	ntag   int
	leaked bool
}

func newInst() (*inst, error) {
	c, err := protocol.NewConnection(logging.GetLogger("verif/rhp"), common.Namespace{}, handler{})
	if err != nil {
		return nil, err
	}
	a, b := net.Pipe()
	in := &inst{conn: c, peer: b}
	in.drainW.Add(1)
	go func() {
		defer in.drainW.Done()
		_, _ = io.Copy(io.Discard, b)
	}()
	if err := c.InitGuest(a); err != nil {
		return nil, err
	}
	return in, nil
}

// timed runs f and reports whether it returned within the watchdog.
func timed(f func()) bool {
	done := make(chan struct{})
	go func() { f(); close(done) }()
	select {
	case <-done:
		return true
	case <-time.After(watchdog):
		return false
	}
}

func (in *inst) close() string {
	if in.leaked {
		_ = in.peer.Close()
		return ""
	}
	ok := timed(func() { in.conn.Close() })
	_ = in.peer.Close()
	if !ok {
		return "Close did not return"
	}
	in.drainW.Wait()
	return ""
}

// letters enabled in the current state (names are stable: they are the replay format)
func (in *inst) enabled(maxCalls int) []string {
	var ls []string
	if len(in.ids) < maxCalls {
		ls = append(ls, "register")
	}
	for i := range in.ids {
		ls = append(ls, fmt.Sprintf("response(%d)", i))
		if in.state[i] == "pending" {
			if len(in.chans[i]) > 0 {
				ls = append(ls, fmt.Sprintf("receive(%d)", i))
			}
			ls = append(ls, fmt.Sprintf("giveup(%d)", i))
		}
	}
	ls = append(ls, "response(unknown)", "request", "malformed")
	return ls
}

func (in *inst) apply(l string) string {
	ctx := context.Background()
	dispatch := func(m *protocol.Message) string {
		if !timed(func() { protocol.VerifHandleMessage(ctx, in.conn, m) }) {
			in.leaked = true
			return "the dispatcher blocked on this message (still blocked after " + watchdog.String() + ")"
		}
		return ""
	}
	var k int
	switch {
	case l == "register":
		id, ch := protocol.VerifRegisterPending(in.conn)
		in.ids, in.chans = append(in.ids, id), append(in.chans, ch)
		in.state, in.first, in.got = append(in.state, "pending"), append(in.first, ""), append(in.got, "")
	case l == "response(unknown)":
		return dispatch(&protocol.Message{ID: 1 << 40, MessageType: protocol.MessageResponse, Body: protocol.Body{Empty: &protocol.Empty{}}})
	case l == "request":
		return dispatch(&protocol.Message{ID: 77, MessageType: protocol.MessageRequest, Body: protocol.Body{RuntimePingRequest: &protocol.Empty{}}})
	case l == "malformed":
		return dispatch(&protocol.Message{ID: 78, MessageType: protocol.MessageType(9), Body: protocol.Body{Empty: &protocol.Empty{}}})
	case scan(l, "response(%d)", &k):
		in.ntag++
		tag := fmt.Sprintf("r%d", in.ntag)
		if in.state[k] == "pending" && in.first[k] == "" {
			in.first[k] = tag
		}
		return dispatch(&protocol.Message{ID: in.ids[k], MessageType: protocol.MessageResponse, Body: protocol.Body{Error: &protocol.Error{Module: "verif", Code: 1, Message: tag}}})
	case scan(l, "receive(%d)", &k):
		select {
		case b := <-in.chans[k]:
			if b.Error != nil {
				in.got[k] = b.Error.Message
			}
		default:
			return "harness: receive on an empty channel"
		}
		protocol.VerifUnregisterPending(in.conn, in.ids[k])
		in.state[k] = "received"
		if in.got[k] != in.first[k] {
			return fmt.Sprintf("caller %d received response %q, the first response dispatched for its request was %q", k, in.got[k], in.first[k])
		}
	case scan(l, "giveup(%d)", &k):
		protocol.VerifUnregisterPending(in.conn, in.ids[k])
		in.state[k] = "gaveup"
	default:
		return "harness: unknown letter " + l
	}
	return ""
}

func scan(s, f string, k *int) bool {
	n, err := fmt.Sscanf(s, f, k)
	return err == nil && n == 1
}

// check: state invariants after every letter.
func (in *inst) check() string {
	pending := 0
	for i := range in.ids {
		switch in.state[i] {
		case "pending":
			pending++
			if in.first[i] != "" && len(in.chans[i]) != 1 {
				return fmt.Sprintf("a response was dispatched for pending call %d but its channel holds %d messages", i, len(in.chans[i]))
			}
		default:
			if len(in.chans[i]) > 0 && in.state[i] == "received" {
				return fmt.Sprintf("call %d already received its response and a further response was queued for it", i)
			}
		}
	}
	// entries of pending calls whose response was dispatched have been removed by the dispatcher
	if n := protocol.VerifPendingCount(in.conn); n > pending {
		return fmt.Sprintf("%d pending-request entries registered, only %d calls are in flight", n, pending)
	}
	return ""
}

func runSeq(seq []string) (what string, enabledAfter []string, key string) {
	in, err := newInst()
	if err != nil {
		return "harness: " + err.Error(), nil, ""
	}
	for i, l := range seq {
		if w := in.apply(l); w != "" {
			in.close()
			return fmt.Sprintf("after %v, letter %d (%s): %s", seq[:i], i+1, l, w), nil, ""
		}
		if w := in.check(); w != "" {
			in.close()
			return fmt.Sprintf("after %v: %s", seq[:i+1], w), nil, ""
		}
	}
	en := in.enabled(maxCallsG)
	// canonical state: per call (state, response queued, first tag set); tags themselves are history only
	var sb strings.Builder
	for i := range in.ids {
		fmt.Fprintf(&sb, "%s/%d/%v;", in.state[i], len(in.chans[i]), in.first[i] != "")
	}
	fmt.Fprintf(&sb, "entries=%d", protocol.VerifPendingCount(in.conn))
	if w := in.close(); w != "" {
		return fmt.Sprintf("after %v: %s", seq, w), nil, ""
	}
	return "", en, sb.String()
}

// ---- part 2 ----

func frame(m *protocol.Message) []byte {
	p := cbor.Marshal(m)
	out := make([]byte, 4, 4+len(p))
	binary.BigEndian.PutUint32(out, uint32(len(p)))
	return append(out, p...)
}

func readFrame(c net.Conn) (*protocol.Message, error) {
	var l [4]byte
	if _, err := io.ReadFull(c, l[:]); err != nil {
		return nil, err
	}
	buf := make([]byte, binary.BigEndian.Uint32(l[:]))
	if _, err := io.ReadFull(c, buf); err != nil {
		return nil, err
	}
	var m protocol.Message
	if err := cbor.Unmarshal(buf, &m); err != nil {
		return nil, err
	}
	return &m, nil
}

var e2eAlphabet = []string{"ok", "ok-x32", "error", "unknown-id", "request", "malformed-type", "wrong-body", "garbage"}

// runE2E: one real Call answered with the frame sequence, then a second Call answered
// honestly (unless the sequence closed the connection), then Close.
func runE2E(seq []string) string {
	c, err := protocol.NewConnection(logging.GetLogger("verif/rhp"), common.Namespace{}, handler{})
	if err != nil {
		return "harness: " + err.Error()
	}
	a, b := net.Pipe()
	defer b.Close()
	if err := c.InitGuest(a); err != nil {
		return "harness: " + err.Error()
	}
	type callRes struct {
		body *protocol.Body
		err  error
	}
	call := func(ctx context.Context) chan callRes {
		ch := make(chan callRes, 1)
		go func() {
			body, err := c.Call(ctx, &protocol.Body{RuntimePingRequest: &protocol.Empty{}})
			ch <- callRes{body, err}
		}()
		return ch
	}
	ctx1, cancel1 := context.WithCancel(context.Background())
	defer cancel1()
	res1 := call(ctx1)
	req, err := readFrame(b)
	if err != nil {
		return "harness: the request frame did not arrive: " + err.Error()
	}
	// the peer's frames; responses of the connection to peer requests are drained concurrently
	var out bytes.Buffer
	answers := map[string]bool{} // responses sent for the call's id (each is dispatched by its own goroutine: any may win)
	firstAnswer := ""
	closes := false
	for _, l := range seq {
		switch l {
		case "ok", "ok-x32":
			n := 1
			if l == "ok-x32" {
				n = 32
			}
			for i := 0; i < n; i++ {
				out.Write(frame(&protocol.Message{ID: req.ID, MessageType: protocol.MessageResponse, Body: protocol.Body{Empty: &protocol.Empty{}}}))
			}
			answers["ok"] = true
			if firstAnswer == "" {
				firstAnswer = "ok"
			}
		case "error":
			out.Write(frame(&protocol.Message{ID: req.ID, MessageType: protocol.MessageResponse, Body: protocol.Body{Error: &protocol.Error{Module: "verif", Code: 1, Message: "peer error"}}}))
			answers["error"] = true
			if firstAnswer == "" {
				firstAnswer = "error"
			}
		case "wrong-body":
			out.Write(frame(&protocol.Message{ID: req.ID, MessageType: protocol.MessageResponse, Body: protocol.Body{RuntimeInfoResponse: &protocol.RuntimeInfoResponse{}}}))
			answers["wrong-body"] = true
			if firstAnswer == "" {
				firstAnswer = "wrong-body"
			}
		case "unknown-id":
			out.Write(frame(&protocol.Message{ID: req.ID + 1000, MessageType: protocol.MessageResponse, Body: protocol.Body{Empty: &protocol.Empty{}}}))
		case "request":
			out.Write(frame(&protocol.Message{ID: 5, MessageType: protocol.MessageRequest, Body: protocol.Body{RuntimePingRequest: &protocol.Empty{}}}))
		case "malformed-type":
			out.Write(frame(&protocol.Message{ID: 6, MessageType: protocol.MessageType(9), Body: protocol.Body{Empty: &protocol.Empty{}}}))
		case "garbage":
			out.Write([]byte{0, 0, 0, 3, 0xff, 0xff, 0xff})
			closes = true
		}
		if closes {
			break
		}
	}
	// reader of the peer side: collects frames sent by the connection (responses to "request", the second call)
	frames := make(chan *protocol.Message, 256)
	go func() {
		for {
			m, err := readFrame(b)
			if err != nil {
				close(frames)
				return
			}
			frames <- m
		}
	}()
	wrote := make(chan error, 1)
	go func() { _, err := b.Write(out.Bytes()); wrote <- err }()
	select {
	case err := <-wrote:
		if err != nil && !closes {
			return "the connection stopped reading the peer's frames: " + err.Error()
		}
	case <-time.After(watchdog):
		return "the connection stopped reading the peer's frames (write of the sequence still blocked after " + watchdog.String() + ")"
	}
	// the first call
	if firstAnswer == "" && !closes {
		cancel1()
	}
	select {
	case r1 := <-res1:
		switch {
		case closes:
			// the response and the closing of the connection race inside Call: either outcome is legitimate
		case firstAnswer != "":
			got := "none of them"
			switch {
			case r1.err == nil && r1.body != nil && r1.body.Empty != nil:
				got = "ok"
			case r1.err != nil && strings.Contains(r1.err.Error(), "peer error"):
				got = "error"
			case r1.err == nil && r1.body != nil && r1.body.RuntimeInfoResponse != nil:
				got = "wrong-body"
			}
			if !answers[got] {
				return fmt.Sprintf("Call returned (%v, %v), which is none of the responses sent for its id", r1.body, r1.err)
			}
		case firstAnswer == "" && r1.err == nil:
			return "Call succeeded although no response for its id was sent"
		}
	case <-time.After(watchdog):
		return "Call did not return"
	}
	// a later call on the same connection
	if !closes {
		ctx2, cancel2 := context.WithTimeout(context.Background(), watchdog)
		defer cancel2()
		res2 := call(ctx2)
		answered := false
		deadline := time.After(watchdog)
		for !answered {
			select {
			case m, ok := <-frames:
				if !ok {
					return "the connection closed although no undecodable frame was sent"
				}
				if m.MessageType == protocol.MessageRequest {
					go func() {
						_, _ = b.Write(frame(&protocol.Message{ID: m.ID, MessageType: protocol.MessageResponse, Body: protocol.Body{Empty: &protocol.Empty{}}}))
					}()
					answered = true
				}
			case <-deadline:
				return "a later Call's request frame never arrived at the peer"
			}
		}
		select {
		case r2 := <-res2:
			if r2.err != nil || r2.body == nil || r2.body.Empty == nil {
				return fmt.Sprintf("a later Call on the same connection returned (%v, %v) although it was answered correctly", r2.body, r2.err)
			}
		case <-time.After(watchdog):
			return "a later Call on the same connection did not return"
		}
	} else {
		// after an undecodable frame the connection is closed: a later call fails, it does not hang
		ctx2, cancel2 := context.WithTimeout(context.Background(), watchdog)
		defer cancel2()
		select {
		case r2 := <-call(ctx2):
			if r2.err == nil {
				return "a Call after the connection was closed by an undecodable frame succeeded"
			}
		case <-time.After(watchdog + time.Second):
			return "a Call after the connection was closed by an undecodable frame did not return"
		}
	}
	if !timed(func() { c.Close() }) {
		return "Close did not return (a message handler is still blocked)"
	}
	return ""
}

func main() {
	if len(os.Args) < 2 || os.Args[1] != "C16" {
		fmt.Println("rhpmc decides (part of) C16 only")
		os.Exit(2)
	}
	r := ev.Parse("model_checking")
	if r.Replay != "" {
		v, err := ev.LoadReplay(r.Replay)
		if err != nil {
			fmt.Println("cannot load replay:", err)
			os.Exit(2)
		}
		bb, _ := json.Marshal(v.Artefact)
		var a artefact
		_ = json.Unmarshal(bb, &a)
		what := ""
		if a.Part == "rich" {
			what = replayRich(a.Seq)
		} else if a.Part == "e2e" {
			what = runE2E(a.Seq)
		} else {
			what, _, _ = runSeq(a.Seq)
		}
		if what != "" {
			fmt.Printf("VIOLATION property=C16 replay=%s\n  what: %s\n", r.Replay, what)
			os.Exit(1)
		}
		fmt.Println("replay: property held")
		os.Exit(0)
	}
	depth, e2eDepth, maxCalls := 12, 3, 2
	if r.Thorough() {
		depth, e2eDepth, maxCalls = 16, 4, 3
	}
	// part 1: breadth-first, deduplicated by canonical dispatcher state
	type node struct {
		seq []string
		en  []string
	}
	maxCallsG = maxCalls
	_, en0, key0 := runSeq(nil)
	frontier := []node{{nil, en0}}
	seen := map[string]bool{key0: true}
	viol := 0
	for level := 1; level <= depth && len(frontier) > 0 && viol < 5; level++ {
		var next []node
		var mu sync.Mutex
		type job struct {
			seq []string
		}
		var jobs []job
		for _, n := range frontier {
			for _, l := range n.en {
				jobs = append(jobs, job{append(append([]string{}, n.seq...), l)})
			}
		}
		ev.ParallelRange(len(jobs), 0, func(i int) {
			mu.Lock()
			stop := viol >= 5
			mu.Unlock()
			if stop {
				return
			}
			what, en, key := runSeq(jobs[i].seq)
			r.Add("transitions", 1)
			mu.Lock()
			defer mu.Unlock()
			if what != "" {
				if strings.HasPrefix(what, "harness:") {
					r.HarnessError("%s %v", what, jobs[i].seq)
					return
				}
				viol++
				r.Violate(ev.Violation{Engine: "rhpmc", Key: "rhp dispatch " + strings.Join(jobs[i].seq, " "), What: "runtime host protocol connection, operation sequence " + what, Artefact: artefact{Part: "dispatch", Seq: jobs[i].seq}})
				return
			}
			if !seen[key] {
				seen[key] = true
				next = append(next, node{jobs[i].seq, en})
			}
		})
		frontier = next
	}
	r.Add("states", int64(len(seen)))
	r.Set("dispatch_depth", depth)
	r.Set("dispatch_calls_in_universe", maxCalls)
	r.Set("dispatch_fixpoint_reached", len(frontier) == 0 && viol == 0)
	// part 2
	var seqs [][]string
	var gen func(p []string)
	gen = func(p []string) {
		if len(p) > 0 {
			seqs = append(seqs, append([]string{}, p...))
		}
		if len(p) == e2eDepth || (len(p) > 0 && p[len(p)-1] == "garbage") {
			return
		}
		for _, l := range e2eAlphabet {
			gen(append(p, l))
		}
	}
	gen(nil)
	seqs = append(seqs, nil)
	e2eViol := 0
	var mu sync.Mutex
	ev.ParallelRange(len(seqs), 0, func(i int) {
		mu.Lock()
		stop := e2eViol >= 5
		mu.Unlock()
		if stop {
			return
		}
		what := runE2E(seqs[i])
		r.Add("end_to_end_frame_sequences", 1)
		r.Add("transitions", 1)
		if what != "" {
			if strings.HasPrefix(what, "harness:") {
				r.HarnessError("%s %v", what, seqs[i])
				return
			}
			mu.Lock()
			e2eViol++
			mu.Unlock()
			r.Violate(ev.Violation{Engine: "rhpmc", Key: "rhp e2e " + strings.Join(seqs[i], " "), What: fmt.Sprintf("runtime host protocol connection, real Call answered by the peer with frames %v: %s", seqs[i], what), Artefact: artefact{Part: "e2e", Seq: seqs[i]}})
		}
	})
	r.Set("end_to_end_depth", e2eDepth)
	runRich(r)
	r.Alias("traces_validated_against_impl", "transitions")
	r.Set("rule_rhp_connection", "part 1: breadth-first search to depth "+fmt.Sprint(depth)+" over {register a call (at most "+fmt.Sprint(maxCalls)+"), dispatch response for call i (pending or completed), dispatch response for an unknown id, caller i receives, caller i gives up, dispatch an incoming request, dispatch a message of unknown type} on a real connection (registration and cleanup steps of call() exposed by the verif overlay, dispatcher handleMessage called synchronously), states deduplicated by (per call: state, queued responses, answered) + number of registered entries; oracle: no dispatch blocks, a caller receives exactly the first response dispatched for its request, no response is queued for a completed call, no entry outlives its call, Close returns. part 2: a real Connection.Call over an in-memory pipe, the peer answers with every frame sequence up to depth "+fmt.Sprint(e2eDepth)+" over {ok, ok x32, error, unknown id, request, unknown message type, unexpected body, undecodable frame}; oracle: the peer's frames are all read, Call returns one of the responses sent for its id (each frame is dispatched by its own goroutine) or the caller's cancellation, a later Call answered honestly succeeds (after an undecodable frame: fails, does not hang), Close returns")
	r.Assume("part 1 models the caller by the registration / receive / cleanup steps of call(); part 2 runs the real Call free-running (goroutine timing not controlled) and only asserts outcomes that hold under every timing", "hang detection uses a "+watchdog.String()+" watchdog; on a tree where the property holds no operation waits for it")
	r.Finish()
}
