package main

import (
	"encoding/binary"
	"encoding/json"
	"fmt"
	"os"
	"path/filepath"
	"time"

	"github.com/oasisprotocol/oasis-core/go/common/cbor"
	"github.com/oasisprotocol/oasis-core/go/common/node"
	"github.com/oasisprotocol/oasis-core/go/common/sgx"
	"github.com/oasisprotocol/oasis-core/go/common/sgx/ias"
	"github.com/oasisprotocol/oasis-core/go/common/sgx/pcs"
	"github.com/oasisprotocol/oasis-core/go/common/sgx/quote"
)

func repoRoot() string {
	if r := os.Getenv("VERIF_REPO"); r != "" {
		return r
	}
	return "/repo"
}

func testdata(rel string) []byte {
	b, err := os.ReadFile(filepath.Join(repoRoot(), "go", rel))
	must(err)
	return b
}

// quoteCase is a repository quote vector with the collateral and time its
// own test verifies it with.
type quoteCase struct {
	name   string
	quote  []byte
	tcb    pcs.TCBBundle
	policy *pcs.QuotePolicy
	ts     time.Time
}

func loadTCB(info, certs, qe string) pcs.TCBBundle {
	var b pcs.TCBBundle
	must(json.Unmarshal(testdata("common/sgx/pcs/testdata/"+info), &b.TCBInfo))
	must(json.Unmarshal(testdata("common/sgx/pcs/testdata/"+qe), &b.QEIdentity))
	b.Certificates = testdata("common/sgx/pcs/testdata/" + certs)
	return b
}

func quoteCases() []quoteCase {
	const certs = "tcb_info_v3_fmspc_00606A000000_certs.pem"
	sgxTCB := loadTCB("tcb_info_v3_fmspc_00606A000000.json", certs, "qe_identity_v2.json")
	tdxPolicy := &pcs.QuotePolicy{TCBValidityPeriod: 30, MinTCBEvaluationDataNumber: 12, TDX: &pcs.TdxQuotePolicy{}}
	q := func(f string) []byte { return testdata("common/sgx/pcs/testdata/" + f) }
	return []quoteCase{
		{"v3-sgx-pck-chain", q("quote_v3_ecdsa_p256_pck_chain.bin"), sgxTCB,
			&pcs.QuotePolicy{TCBValidityPeriod: 30, MinTCBEvaluationDataNumber: pcs.DefaultMinTCBEvaluationDataNumber}, time.Unix(1671497404, 0)},
		{"v4-tdx", q("quote_v4_tdx_ecdsa_p256.bin"), loadTCB("tcb_info_v3_tdx_fmspc_C0806F000000.json", certs, "qe_identity_v2_tdx2.json"),
			tdxPolicy, time.Unix(1725263032, 0)},
		{"v3-sgx-eppid", q("quote_v3_ecdsa_p256_eppid.bin"), sgxTCB,
			&pcs.QuotePolicy{TCBValidityPeriod: 30, MinTCBEvaluationDataNumber: pcs.DefaultMinTCBEvaluationDataNumber}, time.Unix(1671497404, 0)},
		{"v4-tdx-out-of-date", q("quote_v4_tdx_ecdsa_p256_out_of_date.bin"), loadTCB("tcb_info_v3_tdx_fmspc_50806F000000.json", certs, "qe_identity_v2_tdx.json"),
			tdxPolicy, time.Unix(1687091776, 0)},
		{"v4-tdx-trailing", q("quote_v4_tdx_ecdsa_p256_trailing.bin"), loadTCB("tcb_info_v3_tdx_fmspc_C0806F000000.json", certs, "qe_identity_v2_tdx2.json"),
			tdxPolicy, time.Unix(1725263032, 0)},
	}
}

// quoteFields locates the length and type fields of a quote.
func quoteFields(q []byte) []mutant {
	var ms []mutant
	f := func(off, w int, name string) { ms = append(ms, leFieldMutants(q, off, w, "quote:"+name+":")...) }
	if len(q) < 436 {
		return nil
	}
	f(0, 2, "version")
	f(2, 2, "att-key-type")
	f(4, 4, "tee-type")
	f(8, 2, "qe-svn")
	f(10, 2, "pce-svn")
	ver := binary.LittleEndian.Uint16(q)
	sigLenOff := 48 + 384
	if ver == 4 && binary.LittleEndian.Uint32(q[4:]) == 0x81 {
		sigLenOff = 48 + 584
	}
	if len(q) < sigLenOff+4 {
		return ms
	}
	f(sigLenOff, 4, "sig-len")
	off := sigLenOff + 4 + 128
	if ver == 4 {
		f(off, 2, "v4-cert-data-type")
		f(off+2, 4, "v4-cert-data-size")
		off += 6
	}
	off += 384 + 64
	if len(q) < off+2 {
		return ms
	}
	f(off, 2, "qe-auth-data-size")
	off += 2 + int(binary.LittleEndian.Uint16(q[off:]))
	if len(q) < off+6 {
		return ms
	}
	f(off, 2, "cert-data-type")
	f(off+2, 4, "cert-data-size")
	return ms
}

func registerSgxEntries() {
	ias.SetAllowDebugEnclaves()
	cases := quoteCases()

	// Raw quotes.
	var qSeeds []seed
	for i, c := range cases {
		qSeeds = append(qSeeds, seed{Name: c.name, Data: c.quote, Source: "common/sgx/pcs/testdata", Thorough: i >= 2})
	}
	register(&entry{Name: "pcs.Quote", Kind: kindQuote, Batch: 32,
		About: "pcs.Quote.UnmarshalBinary followed by Quote.Verify with the TCB bundle, policy and time of the repository test",
		Run: func(in []byte, si int) result {
			c := cases[si]
			var q pcs.Quote
			if err := q.UnmarshalBinary(in); err != nil {
				if _, err2 := q.UnmarshalBinaryWithTrailing(in, true); err2 != nil {
					return rejected(err)
				}
			}
			fp := fmt.Sprintf("%d/%v", q.Header().Version(), q.Header().TeeType())
			vq, err := q.Verify(c.policy, c.ts, &c.tcb)
			if err != nil {
				return decoded(fp, err)
			}
			return accepted(fp + vq.Identity.String())
		},
		Seeds: qSeeds,
		Extra: func(s []byte, _ int) []mutant { return append(quoteFields(s), leConsistentTruncations(s, 0)...) }})

	// SGX attestation as carried in node descriptors (IAS and PCS forms).
	type attCase struct {
		sc  *node.SGXConstraints
		ts  time.Time
		cfg *node.TEEFeatures
	}
	var attSeeds []seed
	var attCases []attCase
	cfg := &node.TEEFeatures{SGX: node.TEEFeaturesSGX{PCS: true, SignedAttestations: true, TDX: true, DefaultMaxAttestationAge: 1200}}
	for i, c := range cases[:3] {
		att := node.SGXAttestation{Versioned: cbor.NewVersioned(node.LatestSGXAttestationVersion),
			Quote: quote.Quote{PCS: &pcs.QuoteBundle{Quote: c.quote, TCB: c.tcb}}, Height: 900}
		attSeeds = append(attSeeds, seed{Name: "pcs-" + c.name, Data: cbor.Marshal(&att), Source: "pcs testdata wrapped in node.SGXAttestation v1", Thorough: i >= 1})
		attCases = append(attCases, attCase{sc: &node.SGXConstraints{Versioned: cbor.NewVersioned(1), Policy: &quote.Policy{PCS: c.policy},
			Enclaves: []sgx.EnclaveIdentity{{}}}, ts: c.ts, cfg: cfg})
	}
	for i, v := range []int{4, 5} {
		bnd := ias.AVRBundle{
			Body:             testdata(fmt.Sprintf("common/sgx/ias/testdata/avr_v%d_body_sw_hardening_needed.json", v)),
			Signature:        testdata(fmt.Sprintf("common/sgx/ias/testdata/avr_v%d_body_sw_hardening_needed.sig", v)),
			CertificateChain: testdata("common/sgx/ias/testdata/avr_certificates_urlencoded.pem"),
		}
		attSeeds = append(attSeeds, seed{Name: fmt.Sprintf("ias-avr-v%d", v), Data: cbor.Marshal(&bnd), Source: "ias testdata as an unversioned (v0) attestation", Thorough: i >= 1})
		attCases = append(attCases, attCase{sc: &node.SGXConstraints{Policy: &quote.Policy{IAS: &ias.QuotePolicy{
			AllowedQuoteStatuses: []ias.ISVEnclaveQuoteStatus{ias.QuoteSwHardeningNeeded}}}, Enclaves: []sgx.EnclaveIdentity{{}}},
			ts: fixedNow, cfg: cfg})
	}
	register(&entry{Name: "node.SGXAttestation", Kind: kindCBOR, Batch: 32,
		About: "cbor.Unmarshal into node.SGXAttestation (v0 = IAS AVR bundle, v1 = PCS quote bundle), ValidateBasic and Verify as done for a node's TEE capability",
		Run: func(in []byte, si int) result {
			c := attCases[si]
			var sa node.SGXAttestation
			if err := cbor.Unmarshal(in, &sa); err != nil {
				return rejected(err)
			}
			fp := fmt.Sprintf("v%d ias=%v pcs=%v", sa.V, sa.Quote.IAS != nil, sa.Quote.PCS != nil)
			if err := sa.ValidateBasic(c.cfg); err != nil {
				return decoded(fp, err)
			}
			sc := *c.sc
			if err := sa.Verify(c.cfg, c.ts, 1000, &sc, sigRAK.Public(), nil, sigNode.Public()); err != nil {
				return decoded(fp, err)
			}
			return accepted(fp)
		},
		Seeds: attSeeds})

	// TCB collateral as JSON.
	var tcbSeeds []seed
	for i, c := range cases[:2] {
		b, err := json.Marshal(&c.tcb)
		must(err)
		tcbSeeds = append(tcbSeeds, seed{Name: "bundle-" + c.name, Data: b, Source: "pcs testdata assembled into a TCBBundle", Thorough: i >= 1})
	}
	register(&entry{Name: "pcs.TCBBundle.json", Kind: kindJSON, Batch: 32,
		About: "json.Unmarshal into pcs.TCBBundle, then QuoteBundle.Verify of the matching valid quote with this collateral (certificate chain, signatures, TCB info and QE identity bodies)",
		Run: func(in []byte, si int) result {
			c := cases[si]
			var b pcs.TCBBundle
			if err := json.Unmarshal(in, &b); err != nil {
				return rejected(err)
			}
			fp := fmt.Sprintf("%d/%d/%d", len(b.TCBInfo.TCBInfo), len(b.QEIdentity.EnclaveIdentity), len(b.Certificates))
			qb := pcs.QuoteBundle{Quote: c.quote, TCB: b}
			if _, err := qb.Verify(c.policy, c.ts); err != nil {
				return decoded(fp, err)
			}
			return accepted(fp)
		},
		Seeds: tcbSeeds})

	// IAS attestation verification report body.
	var avrSeeds []seed
	for _, v := range []int{4, 5} {
		f := fmt.Sprintf("avr_v%d_body_sw_hardening_needed.json", v)
		avrSeeds = append(avrSeeds, seed{Name: f, Data: testdata("common/sgx/ias/testdata/" + f), Source: "common/sgx/ias/testdata"})
	}
	register(&entry{Name: "ias.AVR.json", Kind: kindJSON,
		About: "ias.UnsafeDecodeAVR (JSON decode and validate of the report body, the step after the signature check) and AttestationVerificationReport.Quote",
		Run: func(in []byte, _ int) result {
			avr, err := ias.UnsafeDecodeAVR(in)
			if err != nil {
				return rejected(err)
			}
			fp := fmt.Sprintf("%s/%d/%v", avr.ID, avr.Version, avr.ISVEnclaveQuoteStatus)
			q, err := avr.Quote()
			if err != nil {
				return decoded(fp, err)
			}
			return accepted(fp + q.Report.MRENCLAVE.String())
		}, Seeds: avrSeeds})
	register(&entry{Name: "ias.Quote", Kind: kindBinary,
		About: "ias.Quote.UnmarshalBinary (EPID quote body)",
		Run: func(in []byte, _ int) result {
			var q ias.Quote
			if err := q.UnmarshalBinary(in); err != nil {
				return rejected(err)
			}
			if err := q.Verify(); err != nil {
				return decoded(q.Report.MRENCLAVE.String(), err)
			}
			return accepted(q.Report.MRENCLAVE.String())
		}, Seeds: []seed{{Name: "avr-v4-quote-body", Data: avrQuoteBody(avrSeeds[0].Data), Source: "isvEnclaveQuoteBody of the v4 AVR test vector"}}})
}

func avrQuoteBody(avrJSON []byte) []byte {
	var a struct {
		Body []byte `json:"isvEnclaveQuoteBody"`
	}
	must(json.Unmarshal(avrJSON, &a))
	return a.Body
}
