// decmc decides C16 (bounded): untrusted bytes presented at the decode/verify
// entry points of the node are decoded or rejected, never panic, blow up,
// hang or corrupt subsequent processing.  Complete enumeration of (1) all
// byte strings up to a length and (2) the complete mutation neighbourhoods of
// valid seeds, executed in single-goroutine worker processes.
package main

import (
	"bufio"
	"encoding/base64"
	"encoding/binary"
	"encoding/json"
	"fmt"
	"io"
	"os"
	"os/exec"
	"sort"
	"strings"
	"sync"
	"sync/atomic"
	"time"

	"verif/harness/internal/ev"
)

func initAll() {
	initCommon()
	registerRegistryEntries()
	registerTxEntries()
	registerMkvsEntries()
	registerSgxEntries()
	registerHostEntries()
}

func main() {
	if os.Getenv("DECMC_WORKER") == "1" {
		workerMain()
		return
	}
	defer os.RemoveAll(scratchDir)
	if len(os.Args) > 1 && os.Args[1] == "list" {
		initAll()
		listEntries()
		os.RemoveAll(scratchDir)
		return
	}
	if len(os.Args) < 2 || os.Args[1] != "C16" {
		fmt.Println("decmc decides C16 only")
		os.RemoveAll(scratchDir)
		os.Exit(2)
	}
	r := ev.Parse("exploration")
	code := run(r)
	_ = code
}

func listEntries() {
	for _, e := range entries {
		fmt.Printf("%-44s kind=%-6s seeds=%d\n", e.Name, e.Kind, len(e.Seeds))
		for si, s := range e.Seeds {
			fmt.Printf("    %-36s len=%-6d nbh=%-8d thorough-only=%v\n", s.Name, len(s.Data), e.nbhCount(si), s.Thorough)
		}
	}
}

// ---------------------------------------------------------------------------
// Worker handles.

type workerProc struct {
	cmd    *exec.Cmd
	stdin  io.WriteCloser
	lines  chan string
	stderr *tailBuf
	dead   bool
}

type tailBuf struct {
	mu    sync.Mutex
	first []byte
	b     []byte
}

func (t *tailBuf) Write(p []byte) (int, error) {
	t.mu.Lock()
	if len(t.first) < 1500 {
		k := 1500 - len(t.first)
		if k > len(p) {
			k = len(p)
		}
		t.first = append(t.first, p[:k]...)
	}
	t.b = append(t.b, p...)
	if len(t.b) > 16384 {
		t.b = t.b[len(t.b)-16384:]
	}
	t.mu.Unlock()
	return len(p), nil
}

func (t *tailBuf) head(n int) string {
	t.mu.Lock()
	defer t.mu.Unlock()
	s := string(t.first)
	if len(t.b) > len(t.first) {
		tail := string(t.b)
		if len(tail) > n/2 {
			tail = tail[len(tail)-n/2:]
		}
		s += "\n[...]\n" + tail
	}
	if len(s) > n {
		s = s[:n]
	}
	return s
}

var workerSeq atomic.Int64

func startWorker(digest string) (*workerProc, error) {
	cmd := exec.Command(os.Args[0])
	cmd.Env = append(os.Environ(), "DECMC_WORKER=1", fmt.Sprintf("DECMC_SCRATCH=%s/w%d", scratchDir, workerSeq.Add(1)))
	in, err := cmd.StdinPipe()
	if err != nil {
		return nil, err
	}
	outp, err := cmd.StdoutPipe()
	if err != nil {
		return nil, err
	}
	w := &workerProc{cmd: cmd, stdin: in, lines: make(chan string, 64), stderr: &tailBuf{}}
	cmd.Stderr = w.stderr
	if err := cmd.Start(); err != nil {
		return nil, err
	}
	go func() {
		rd := bufio.NewReaderSize(outp, 1<<20)
		for {
			line, err := rd.ReadString('\n')
			if len(line) > 0 {
				w.lines <- strings.TrimRight(line, "\n")
			}
			if err != nil {
				close(w.lines)
				return
			}
		}
	}()
	select {
	case line, ok := <-w.lines:
		if !ok {
			w.kill()
			return nil, fmt.Errorf("worker died during start: %s", w.stderr.head(2000))
		}
		var rdy struct {
			Ready  bool   `json:"ready"`
			Digest string `json:"digest"`
			Fatal  string `json:"fatal"`
		}
		_ = json.Unmarshal([]byte(line), &rdy)
		if !rdy.Ready {
			w.kill()
			return nil, fmt.Errorf("worker not ready: %s %s", line, rdy.Fatal)
		}
		if digest != "" && rdy.Digest != digest {
			w.kill()
			return nil, fmt.Errorf("worker seeds differ from the parent's (non-deterministic seed construction)")
		}
	case <-time.After(120 * time.Second):
		w.kill()
		return nil, fmt.Errorf("worker start timed out")
	}
	return w, nil
}

func (w *workerProc) kill() {
	if w.dead {
		return
	}
	w.dead = true
	_ = w.stdin.Close()
	_ = w.cmd.Process.Kill()
	_ = w.cmd.Wait()
}

type jobOutcome struct {
	res     *jobResult
	hangIdx int  // >=0: the worker reported a hang at this index
	died    bool // the worker process died (fatal error)
	lastIdx int  // last "@ idx" marker seen (careful mode)
	stderr  string
}

// exec runs one job on the worker and waits for its result.
func (w *workerProc) exec(j *job) jobOutcome {
	o := jobOutcome{hangIdx: -1, lastIdx: -1}
	b, _ := json.Marshal(j)
	if _, err := w.stdin.Write(append(b, '\n')); err != nil {
		o.died = true
		w.kill()
		o.stderr = w.stderr.head(3000)
		return o
	}
	idle := time.NewTimer(10 * time.Minute)
	defer idle.Stop()
	for {
		select {
		case line, ok := <-w.lines:
			if !ok {
				o.died = true
				w.kill()
				o.stderr = w.stderr.head(3000)
				return o
			}
			if strings.HasPrefix(line, "@ ") {
				fmt.Sscanf(line, "@ %d", &o.lastIdx)
				continue
			}
			if strings.HasPrefix(line, "{\"hang\"") {
				var h struct {
					Idx int `json:"idx"`
				}
				_ = json.Unmarshal([]byte(line), &h)
				o.hangIdx = h.Idx
				w.kill()
				return o
			}
			var res jobResult
			if err := json.Unmarshal([]byte(line), &res); err != nil || res.ID != j.ID {
				continue
			}
			o.res = &res
			return o
		case <-idle.C:
			o.died = true
			o.stderr = "worker produced no result for 10 minutes"
			w.kill()
			return o
		}
	}
}

// ---------------------------------------------------------------------------
// Parent.

type epStats struct {
	Seeds           int    `json:"seeds"`
	SeedBytes       int    `json:"seed_bytes"`
	NbhIndices      int64  `json:"neighbourhood_indices"`
	NbhDone         int64  `json:"neighbourhood_indices_completed"`
	ShortDone       int64  `json:"short_strings_completed"`
	ShortMaxLen     int    `json:"short_strings_complete_up_to_len"`
	Calls           int64  `json:"decoder_calls"`
	Rejected        int64  `json:"rejected_with_error"`
	Decoded         int64  `json:"decoded_then_rejected_by_validation"`
	Accepted        int64  `json:"accepted"`
	Dup             int64  `json:"duplicate_indices_skipped"`
	Distinct        int64  `json:"distinct_mutants"`
	SeedRechecks    int64  `json:"seed_rechecks"`
	MaxAlloc        uint64 `json:"max_alloc_bytes_per_call_lower_bound"`
	Strict          int64  `json:"indef_dupkey_tag_mutants_not_rejected"`
	Millis          int64  `json:"worker_ms"`
	BoundarySkipped int    `json:"seeds_without_boundary_byte_family_in_this_tier"`
	hashes          []uint64
	shorts          map[uint32]struct{}
	shortJobs       map[int]bool // completed short jobs by lo
}

type planned struct {
	j    job
	cost int64
}

const (
	shortJobSize     = 1 << 18
	quickBoundaryMax = 4096
)

func run(r *ev.Run) int {
	initAll()
	for _, d := range dropPanickingSeeds() {
		r.Violate(ev.Violation{Engine: "decmc", Key: "c16 valid seed panics " + d, What: "[panic] the valid seed " + d + " (decoding / validating a well-formed input panics)", Artefact: map[string]any{"seed_panics": d}})
	}
	digest := seedDigest()
	thorough := r.Thorough()
	if r.Deadline.IsZero() {
		if thorough {
			r.Deadline = r.Start.Add(13 * time.Minute)
		} else {
			r.Deadline = r.Start.Add(70 * time.Second)
		}
	}

	if r.Replay != "" {
		return replay(r, digest)
	}

	stats := map[string]*epStats{}
	var plan []planned
	id := 0
	// Development aid: DECMC_ONLY=substr,substr restricts the entry points (reported as a cap).
	only := strings.Split(os.Getenv("DECMC_ONLY"), ",")
	selected := func(name string) bool {
		if os.Getenv("DECMC_ONLY") == "" {
			return true
		}
		for _, o := range only {
			if o != "" && strings.Contains(name, o) {
				return true
			}
		}
		return false
	}
	if os.Getenv("DECMC_ONLY") != "" {
		r.Cap("DECMC_ONLY restriction")
	}
	for _, e := range entries {
		st := &epStats{shorts: map[uint32]struct{}{}, shortJobs: map[int]bool{}, ShortMaxLen: -1}
		stats[e.Name] = st
		for si, s := range e.Seeds {
			if s.Thorough && !thorough || !selected(e.Name) {
				continue
			}
			st.Seeds++
			st.SeedBytes += len(s.Data)
			n := e.nbhCount(si)
			// Index ranges to execute.  Quick tier: for seeds above 4 KiB the
			// boundary-byte family is left to the thorough tier.
			g := genericCount(len(s.Data))
			ranges := [][2]int{{0, n}}
			if !thorough && len(s.Data) > quickBoundaryMax {
				ranges = [][2]int{{0, 9*len(s.Data) + 256}, {g, n}}
				st.BoundarySkipped++
			}
			chunk := e.Batch * 8
			for _, rg := range ranges {
				st.NbhIndices += int64(rg[1] - rg[0])
				for lo := rg[0]; lo < rg[1]; lo += chunk {
					hi := lo + chunk
					if hi > rg[1] {
						hi = rg[1]
					}
					id++
					plan = append(plan, planned{j: job{ID: id, EP: e.Name, Fam: "nbh", Seed: si, Lo: lo, Hi: hi},
						cost: int64(hi-lo) * int64(len(s.Data)+64) * int64(4096/e.Batch)})
				}
			}
		}
		if st.Seeds == 0 && selected(e.Name) {
			r.HarnessError("entry point %s has no seed in this tier", e.Name)
		}
	}
	// Expensive jobs first (better packing); then the short-string family,
	// length <= 2 for every entry point before any length 3.
	sort.SliceStable(plan, func(a, b int) bool { return plan[a].cost > plan[b].cost })
	maxLen := 2
	if thorough {
		maxLen = 3
	}
	for l := 2; l <= maxLen; l++ {
		for _, e := range entries {
			if l > e.ShortMax || !selected(e.Name) {
				continue
			}
			lo := 0
			if l == 3 {
				lo = shortCount(2)
			}
			hi := shortCount(l)
			for a := lo; a < hi; a += shortJobSize {
				b := a + shortJobSize
				if b > hi {
					b = hi
				}
				id++
				plan = append(plan, planned{j: job{ID: id, EP: e.Name, Fam: "short", Seed: 0, Lo: a, Hi: b}})
			}
		}
	}

	nw := ev.Workers()
	var mu sync.Mutex
	next := 0
	capped := false
	var totalViol int64
	sampled := map[string]bool{}
	var incidents []string
	take := func() *job {
		mu.Lock()
		defer mu.Unlock()
		if next >= len(plan) {
			return nil
		}
		if r.Expired() {
			capped = true
			return nil
		}
		j := &plan[next].j
		next++
		return j
	}
	absorb := func(j *job, res *jobResult) {
		mu.Lock()
		defer mu.Unlock()
		st := stats[j.EP]
		st.Calls += res.Calls
		st.Rejected += res.Rejected
		st.Decoded += res.Decoded
		st.Accepted += res.Accepted
		st.Dup += res.Dup
		st.SeedRechecks += res.SeedChecks
		st.Strict += res.Strict
		st.Millis += res.Millis
		if res.MaxAlloc > st.MaxAlloc {
			st.MaxAlloc = res.MaxAlloc
		}
		if j.Fam == "short" {
			st.ShortDone += int64(j.Hi - j.Lo)
			st.shortJobs[j.Lo] = true
		} else {
			st.NbhDone += int64(j.Hi - j.Lo)
			if hb, err := base64.StdEncoding.DecodeString(res.Hashes); err == nil {
				for i := 0; i+8 <= len(hb); i += 8 {
					st.hashes = append(st.hashes, binary.LittleEndian.Uint64(hb[i:]))
				}
			}
			for _, s := range res.Shorts {
				st.shorts[s] = struct{}{}
			}
		}
		totalViol += res.NViol
		for _, s := range res.Samples {
			if sampled[s.EP+s.Stage] || len(sampled) >= 16 {
				continue
			}
			sampled[s.EP+s.Stage] = true
			r.Sample(s, 16)
		}
		for _, o := range res.Outcomes {
			r.Outcome(o)
		}
	}
	report := func(v violRec) {
		key := violKey(v)
		r.Violate(ev.Violation{Engine: "decmc", Key: key, What: fmt.Sprintf("[%s] %s, seed %s, mutant %s (%d bytes): %s",
			v.Kind, v.EP, v.SeedName, v.Desc, v.InputLen, firstLines(v.What, 12)), Artefact: v})
	}

	var wg sync.WaitGroup
	for k := 0; k < nw; k++ {
		wg.Add(1)
		go func() {
			defer wg.Done()
			var w *workerProc
			defer func() {
				if w != nil {
					w.kill()
				}
			}()
			for {
				j := take()
				if j == nil {
					return
				}
				if w == nil || w.dead {
					var err error
					if w, err = startWorker(digest); err != nil {
						r.HarnessError("%v", err)
						return
					}
				}
				o := w.exec(j)
				switch {
				case o.res != nil:
					if o.res.Err != "" {
						r.HarnessError("job %s/%s: %s", j.EP, j.Fam, o.res.Err)
					}
					if o.res.Aborted {
						r.Cap("job abandoned after a corruption or 64 violating mutants")
					}
					absorb(j, o.res)
					for _, v := range o.res.Viol {
						if v.Kind == "corrupt" && v.Hi > 0 {
							// State may be poisoned: fresh worker, one mutant at a time.
							w.kill()
							pj := *j
							pj.Lo, pj.Hi = v.Index, v.Hi
							pinpoint(r, digest, &pj, report, nil)
							continue
						}
						report(v)
					}
					if w.dead {
						w = nil
					}
				default:
					// Hang or fatal error: pinpoint with a fresh worker in careful mode.
					r.Cap("a job was only partially executed after a hang or a fatal error")
					mu.Lock()
					incidents = append(incidents, fmt.Sprintf("%s %s seed=%d [%d,%d): hang_idx=%d died=%v last_marker=%d stderr=%q",
						j.EP, j.Fam, j.Seed, j.Lo, j.Hi, o.hangIdx, o.died, o.lastIdx, firstLines(o.stderr, 6)))
					mu.Unlock()
					pinpoint(r, digest, j, report, absorb)
				}
			}
		}()
	}
	wg.Wait()
	if capped {
		r.Cap("time budget: remaining jobs not executed")
	}

	// Totals and distinct counts.
	var evals, distinct, rechecks, nbhDone, nbhAll, shortDone int64
	per := map[string]*epStats{}
	shortLens := map[int]int{}
	for _, e := range entries {
		st := stats[e.Name]
		// Short family completeness.
		l2, l3 := true, thorough && e.ShortMax >= 3
		for a := 0; a < shortCount(2); a += shortJobSize {
			l2 = l2 && st.shortJobs[a]
		}
		for a := shortCount(2); a < shortCount(3) && l3; a += shortJobSize {
			l3 = l3 && st.shortJobs[a]
		}
		switch {
		case l2 && l3:
			st.ShortMaxLen = 3
		case l2:
			st.ShortMaxLen = 2
		}
		shortLens[st.ShortMaxLen]++
		covered := func(s uint32) bool {
			l := int(s >> 24)
			idx := 0
			if l > 0 {
				idx = shortCount(l-1) + int(s&0xffffff)
			}
			var lo int
			if idx < shortCount(2) {
				lo = idx / shortJobSize * shortJobSize
			} else {
				lo = shortCount(2) + (idx-shortCount(2))/shortJobSize*shortJobSize
			}
			return st.shortJobs[lo]
		}
		d := st.ShortDone
		for s := range st.shorts {
			if !covered(s) {
				d++
			}
		}
		sort.Slice(st.hashes, func(a, b int) bool { return st.hashes[a] < st.hashes[b] })
		for i, h := range st.hashes {
			if i == 0 || h != st.hashes[i-1] {
				d++
			}
		}
		st.Distinct = d
		st.hashes = nil
		per[e.Name] = st
		evals += st.Calls
		distinct += d
		rechecks += st.SeedRechecks
		nbhDone += st.NbhDone
		nbhAll += st.NbhIndices
		shortDone += st.ShortDone
	}
	r.Set("evaluations", evals)
	r.Set("distinct_nontrivial", distinct)
	r.Set("seed_rechecks", rechecks)
	r.Set("entry_points", int64(len(entries)))
	r.Set("neighbourhood_indices", nbhAll)
	r.Set("neighbourhood_indices_completed", nbhDone)
	r.Set("short_string_calls", shortDone)
	r.Set("violating_mutants", totalViol)
	r.Set("entry_points_short_complete_len3", int64(shortLens[3]))
	r.Set("entry_points_short_complete_len2_only", int64(shortLens[2]))
	r.Set("jobs", int64(len(plan)))
	r.Set("jobs_executed", int64(next))
	r.Set("per_entry_point", per)
	if len(incidents) > 0 {
		r.Set("worker_incidents", incidents)
	}
	abouts := map[string]string{}
	for _, e := range entries {
		abouts[e.Name] = e.About
	}
	r.Set("entry_point_paths", abouts)
	r.Set("rule", "per entry point: (1) every byte string of length <= 2 (quick) / <= 3 (thorough), (2) for every valid seed every single-bit flip, every truncation, "+
		"every one-byte extension, the boundary bytes {00,01,17,18,19,1a,1b,7f,80,ff} at every position, and the structural mutants of its format "+
		"(CBOR: declared lengths/counts up to 2^64-1 in every width, indefinite-length markers, nesting 16/64/129/1024, duplicate/dropped/swapped entries, "+
		"amplification arrays/maps, item replacement; binary: length fields; JSON: value replacement, nesting, duplicate members; frames: prefix values). "+
		"evaluations = decoder calls on mutants (seed re-checks counted separately); distinct_nontrivial = distinct mutant byte strings per entry point that were "+
		"executed by the real decoder and either rejected with an error or decoded (indices identical to the seed or to another index are skipped; "+
		"remaining coincidences removed by 64-bit content hash; strings of length <= 3 counted once against the short-string family)")
	r.Assume(
		"oracle per call, under recover: no panic; runtime.MemStats.TotalAlloc delta <= 64 MiB + 2048 bytes per input byte (allocation paid for by bytes really present is tolerated, allocation driven by a declared size is not); goroutine stack <= 32 MiB (debug.SetMaxStack, fatal beyond); no fatal runtime error (process death located and confirmed in fresh processes); no call that burns more than 20 s of user CPU time or stays in progress for 5 min (confirmed by re-run in a fresh process); the valid seed decodes to the same value after every batch",
		"allocation is measured per batch of calls (sum >= any single call); a batch above the bound is re-run call by call",
		"workers are single-goroutine processes (plus a sleeping watchdog); badger's background goroutines of the memory-only restore database allocate a negligible amount",
		"not covered here: CheckTx/DeliverTx of a live ABCI multiplexer (chainmc); strings longer than 3 bytes that are not neighbours of a seed; mutants at edit distance >= 2 outside the structural families",
		"signature-protected inner blobs are reached by separate entry points that decode the blob directly or re-sign the mutant with the sender's own keys",
		"checkpoint chunk metadata digest is set to the digest of the presented bytes (the metadata is peer-supplied as well)",
	)
	os.RemoveAll(scratchDir)
	r.Finish()
	return 0
}

// violKey is the stable key of a violation: kind, entry point, panic site
// (so that one root cause can be matched as a known finding), seed, mutant.
func violKey(v violRec) string {
	site := ""
	if v.Site != "" {
		site = "site=" + v.Site + "/"
	}
	return fmt.Sprintf("%s/%s/%sseed=%s/%s", v.Kind, v.EP, site, v.SeedName, v.Desc)
}

func firstLines(s string, n int) string {
	ls := strings.Split(s, "\n")
	if len(ls) > n {
		ls = ls[:n]
	}
	return strings.Join(ls, "\n    ")
}

// pinpoint re-executes a job whose worker hung, died or reported an
// unlocated corruption, in a fresh worker one mutant at a time, and confirms
// the located mutant by running it alone in another fresh worker.
func pinpoint(r *ev.Run, digest string, j *job, report func(violRec), absorb func(*job, *jobResult)) {
	e := entryByID[j.EP]
	lo := j.Lo
	for attempts := 0; lo < j.Hi && attempts < 8; attempts++ {
		w, err := startWorker(digest)
		if err != nil {
			r.HarnessError("%v", err)
			return
		}
		cj := *j
		cj.Lo, cj.Careful = lo, true
		o := w.exec(&cj)
		w.kill()
		if o.res != nil {
			for _, v := range o.res.Viol {
				report(v)
			}
			if absorb != nil {
				absorb(&cj, o.res)
			}
			return
		}
		idx, kind := o.lastIdx, "fatal"
		if o.hangIdx >= 0 {
			idx, kind = o.hangIdx, "hang"
		}
		if idx < 0 {
			r.HarnessError("worker failed on %s/%s [%d,%d) before the first call: %s", j.EP, j.Fam, lo, j.Hi, o.stderr)
			return
		}
		// Confirm by running that mutant alone.
		w2, err := startWorker(digest)
		if err != nil {
			r.HarnessError("%v", err)
			return
		}
		one := job{ID: j.ID, EP: j.EP, Fam: j.Fam, Seed: j.Seed, Lo: idx, Hi: idx + 1, Careful: true}
		o2 := w2.exec(&one)
		w2.kill()
		if o2.res == nil {
			desc, in := "short", []byte(nil)
			if j.Fam == "short" {
				in = shortString(idx, make([]byte, 0, 4))
				desc = fmt.Sprintf("short:%x", in)
			} else {
				desc, in, _ = e.nbhMutant(j.Seed, idx)
			}
			v := violRec{Kind: kind, EP: j.EP, SeedName: e.Seeds[j.Seed].Name, Seed: j.Seed, Fam: j.Fam, Index: idx, Desc: desc, InputLen: len(in)}
			if len(in) <= maxInlineHex {
				v.InputHex = fmt.Sprintf("%x", in)
			}
			if o2.hangIdx >= 0 {
				v.Kind, v.What = "hang", fmt.Sprintf("call did not return within %s of CPU time / %s (twice, in fresh processes)", hangTimeout, hangWallTimeout)
			} else {
				v.Kind, v.What = "fatal", "process died with an unrecoverable runtime error (twice, in fresh processes): "+o2.stderr
			}
			report(v)
		} else {
			for _, v := range o2.res.Viol {
				report(v)
			}
		}
		lo = idx + 1
	}
}

// replay re-executes one violation artefact.
func replay(r *ev.Run, digest string) int {
	v, err := ev.LoadReplay(r.Replay)
	if err != nil {
		r.HarnessError("cannot load replay: %v", err)
		os.RemoveAll(scratchDir)
		r.Finish()
	}
	b, _ := json.Marshal(v.Artefact)
	var a violRec
	if err := json.Unmarshal(b, &a); err != nil || entryByID[a.EP] == nil {
		r.HarnessError("bad artefact")
		os.RemoveAll(scratchDir)
		r.Finish()
	}
	j := job{ID: 1, EP: a.EP, Fam: a.Fam, Seed: a.Seed, Lo: a.Index, Hi: a.Index + 1, Careful: true}
	if a.InputHex != "" {
		j.Fam, j.Hex = "one", a.InputHex
	}
	if a.Hi > 0 {
		j.Hi = a.Hi
	}
	report := func(x violRec) {
		r.Violate(ev.Violation{Engine: "decmc", Key: violKey(x),
			What: fmt.Sprintf("[%s] %s, seed %s, mutant %s (%d bytes): %s", x.Kind, x.EP, x.SeedName, x.Desc, x.InputLen, firstLines(x.What, 12)), Artefact: x})
	}
	w, err := startWorker(digest)
	if err != nil {
		r.HarnessError("%v", err)
		os.RemoveAll(scratchDir)
		r.Finish()
	}
	o := w.exec(&j)
	w.kill()
	if o.res != nil {
		for _, x := range o.res.Viol {
			x.Fam, x.Index, x.Desc, x.Seed, x.SeedName = a.Fam, a.Index, a.Desc, a.Seed, a.SeedName
			report(x)
		}
		r.Set("evaluations", o.res.Calls)
	} else {
		x := a
		if o.hangIdx >= 0 {
			x.Kind, x.What = "hang", fmt.Sprintf("call did not return within %s of CPU time / %s", hangTimeout, hangWallTimeout)
		} else {
			x.Kind, x.What = "fatal", "process died with an unrecoverable runtime error: "+o.stderr
		}
		report(x)
	}
	os.RemoveAll(scratchDir)
	r.Finish()
	return 0
}
