package main

import (
	"context"
	"fmt"
	"net"
	"time"

	beacon "github.com/oasisprotocol/oasis-core/go/beacon/api"
	"github.com/oasisprotocol/oasis-core/go/common"
	"github.com/oasisprotocol/oasis-core/go/common/cbor"
	"github.com/oasisprotocol/oasis-core/go/common/crypto/signature"
	"github.com/oasisprotocol/oasis-core/go/common/entity"
	"github.com/oasisprotocol/oasis-core/go/common/node"
	"github.com/oasisprotocol/oasis-core/go/common/quantity"
	"github.com/oasisprotocol/oasis-core/go/common/version"
	registry "github.com/oasisprotocol/oasis-core/go/registry/api"
	"github.com/oasisprotocol/oasis-core/go/roothash/api/commitment"
	scheduler "github.com/oasisprotocol/oasis-core/go/scheduler/api"
)

// Test vectors copied from the repository's own tests.
var runtimeTestVectors = []string{
	"qmF2AGJpZFggAAAAAAAAAAAAAAAAAAAAAAAAAAAAAAAAAAAAAAAAAABka2luZABnZ2VuZXNpc6Jlcm91bmQAanN0YXRlX3Jvb3RYIAAAAAAAAAAAAAAAAAAAAAAAAAAAAAAAAAAAAAAAAAAAZ3N0b3JhZ2Wjc2NoZWNrcG9pbnRfaW50ZXJ2YWwAc2NoZWNrcG9pbnRfbnVtX2tlcHQAdWNoZWNrcG9pbnRfY2h1bmtfc2l6ZQBoZXhlY3V0b3Klamdyb3VwX3NpemUAbG1heF9tZXNzYWdlcwBtcm91bmRfdGltZW91dABxZ3JvdXBfYmFja3VwX3NpemUAcmFsbG93ZWRfc3RyYWdnbGVycwBpZW50aXR5X2lkWCAAAAAAAAAAAAAAAAAAAAAAAAAAAAAAAAAAAAAAAAAAAGx0ZWVfaGFyZHdhcmUAcGFkbWlzc2lvbl9wb2xpY3mhaGFueV9ub2RloHBnb3Zlcm5hbmNlX21vZGVsAA==",
	"r2F2GCpiaWRYIIAAAAAAAAAAAAAAAAAAAAAAAAAAAAAAAAAAAAAAAAAAZGtpbmQCZ2dlbmVzaXOiZXJvdW5kGCtqc3RhdGVfcm9vdFggseUhAZ+3vd413IH+55BlYQy937jvXCXihJg2aBkqbQ1nc3Rha2luZ6FycmV3YXJkX2JhZF9yZXN1bHRzCmdzdG9yYWdlo3NjaGVja3BvaW50X2ludGVydmFsGCFzY2hlY2twb2ludF9udW1fa2VwdAZ1Y2hlY2twb2ludF9jaHVua19zaXplGGVoZXhlY3V0b3Kpamdyb3VwX3NpemUJbG1heF9tZXNzYWdlcwVtcm91bmRfdGltZW91dAZxZ3JvdXBfYmFja3VwX3NpemUIcmFsbG93ZWRfc3RyYWdnbGVycwdybWF4X2xpdmVuZXNzX2ZhaWxzAXRtaW5fbGl2ZV9yb3VuZHNfZXZhbAJ3bWluX2xpdmVfcm91bmRzX3BlcmNlbnQEeBxtYXhfbWlzc2VkX3Byb3Bvc2Fsc19wZXJjZW50A2llbnRpdHlfaWRYIBI0VniQAAAAAAAAAAAAAAAAAAAAAAAAAAAAAAAAAAAAa2NvbnN0cmFpbnRzoQGhAaNpbWF4X25vZGVzoWVsaW1pdAptbWluX3Bvb2xfc2l6ZaFlbGltaXQFbXZhbGlkYXRvcl9zZXSga2RlcGxveW1lbnRzgaRjdGVlS3ZlcnNpb24gdGVlZ3ZlcnNpb26iZW1ham9yGCxlcGF0Y2gBanZhbGlkX2Zyb20Ab2J1bmRsZV9jaGVja3N1bVggAQEBAQEBAQEBAQEBAQEBAQEBAQEBAQEBAQEBAQEBAQFra2V5X21hbmFnZXJYIIAAAAAAAAAAAAAAAAAAAAAAAAAAAAAAAAAAAAAAAAABbHRlZV9oYXJkd2FyZQFtdHhuX3NjaGVkdWxlcqVubWF4X2JhdGNoX3NpemUZJxBvbWF4X2luX21lc3NhZ2VzGCBzYmF0Y2hfZmx1c2hfdGltZW91dBo7msoAdG1heF9iYXRjaF9zaXplX2J5dGVzGgCYloB1cHJvcG9zZV9iYXRjaF90aW1lb3V0Gnc1lABwYWRtaXNzaW9uX3BvbGljeaFwZW50aXR5X3doaXRlbGlzdKFoZW50aXRpZXOhWCASNFZ4kAAAAAAAAAAAAAAAAAAAAAAAAAAAAAAAAAAAAKFpbWF4X25vZGVzogEDBAFwZ292ZXJuYW5jZV9tb2RlbAM=",
}

var nodeTestVectors = []string{
	"qmF2A2JpZFggAAAAAAAAAAAAAAAAAAAAAAAAAAAAAAAAAAAAAAAAAABjcDJwomJpZFggAAAAAAAAAAAAAAAAAAAAAAAAAAAAAAAAAAAAAAAAAABpYWRkcmVzc2Vz9mN0bHOhZ3B1Yl9rZXlYIAAAAAAAAAAAAAAAAAAAAAAAAAAAAAAAAAAAAAAAAAAAY3ZyZqFiaWRYIAAAAAAAAAAAAAAAAAAAAAAAAAAAAAAAAAAAAAAAAAAAZXJvbGVzAGhydW50aW1lc/ZpY29uc2Vuc3VzomJpZFggAAAAAAAAAAAAAAAAAAAAAAAAAAAAAAAAAAAAAAAAAABpYWRkcmVzc2Vz9mllbnRpdHlfaWRYIAAAAAAAAAAAAAAAAAAAAAAAAAAAAAAAAAAAAAAAAAAAamV4cGlyYXRpb24A",
	"qmF2A2JpZFgg//////////////////////////////////////////BjcDJwomJpZFgg//////////////////////////////////////////VpYWRkcmVzc2Vz9mN0bHOhZ3B1Yl9rZXlYIP/////////////////////////////////////////yY3ZyZqFiaWRYIP/////////////////////////////////////////3ZXJvbGVzAGhydW50aW1lc4KkYmlkWCCAAAAAAAAAAAAAAAAAAAAAAAAAAAAAAAAAAAAAAAAAEGd2ZXJzaW9uoWVwYXRjaBkBQWpleHRyYV9pbmZv9mxjYXBhYmlsaXRpZXOgpGJpZFgggAAAAAAAAAAAAAAAAAAAAAAAAAAAAAAAAAAAAAAAABFndmVyc2lvbqFlcGF0Y2gYe2pleHRyYV9pbmZvRAUDAgFsY2FwYWJpbGl0aWVzoWN0ZWWjY3Jha1gg//////////////////////////////////////////hoaGFyZHdhcmUBa2F0dGVzdGF0aW9uRgABAgMEBWljb25zZW5zdXOiYmlkWCD/////////////////////////////////////////9mlhZGRyZXNzZXOAaWVudGl0eV9pZFgg//////////////////////////////////////////FqZXhwaXJhdGlvbhgg",
	"qWF2A2JpZFggAAAAAAAAAAAAAAAAAAAAAAAAAAAAAAAAAAAAAAAAAABjcDJwomJpZFggAAAAAAAAAAAAAAAAAAAAAAAAAAAAAAAAAAAAAAAAAABpYWRkcmVzc2Vz9mN0bHOhZ3B1Yl9rZXlYIAAAAAAAAAAAAAAAAAAAAAAAAAAAAAAAAAAAAAAAAAAAZXJvbGVzAGhydW50aW1lc4GkYmlkWCCAAAAAAAAAAAAAAAAAAAAAAAAAAAAAAAAAAAAAAAAAEGd2ZXJzaW9uoGpleHRyYV9pbmZv9mxjYXBhYmlsaXRpZXOgaWNvbnNlbnN1c6JiaWRYIAAAAAAAAAAAAAAAAAAAAAAAAAAAAAAAAAAAAAAAAAAAaWFkZHJlc3Nlc/ZpZW50aXR5X2lkWCAAAAAAAAAAAAAAAAAAAAAAAAAAAAAAAAAAAAAAAAAAAGpleHBpcmF0aW9uAA==",
}

func baseNode() *node.Node {
	return &node.Node{
		Versioned:  cbor.NewVersioned(node.LatestNodeDescriptorVersion),
		ID:         sigNode.Public(),
		EntityID:   sigEntity.Public(),
		Expiration: 11,
		TLS:        node.TLSInfo{PubKey: sigTLS.Public()},
		P2P:        node.P2PInfo{ID: sigP2P.Public(), Addresses: []node.Address{{IP: net.IPv4(127, 0, 0, 1), Port: 9002}}},
		Consensus: node.ConsensusInfo{ID: sigConsensus.Public(), Addresses: []node.ConsensusAddress{
			{ID: sigConsensus.Public(), Address: node.Address{IP: net.IPv4(10, 0, 0, 7), Port: 26656}},
		}},
		VRF:             node.VRFInfo{ID: sigVRF.Public()},
		Roles:           node.RoleValidator,
		SoftwareVersion: "25.3",
	}
}

// nodeDescriptors: validator; compute node with a runtime; compute node with
// TEE capability carrying attestation bytes (filled in by the sgx entries).
func nodeDescriptors() []*node.Node {
	n0 := baseNode()
	n1 := baseNode()
	n1.Roles = node.RoleComputeWorker | node.RoleValidator
	n1.Runtimes = []*node.Runtime{
		{ID: runtimeID, Version: version.FromU64(321), ExtraInfo: []byte{5, 3, 2, 1}},
		{ID: runtimeID, Version: version.FromU64(322)},
	}
	n1.P2P.Addresses = append(n1.P2P.Addresses, node.Address{IP: net.ParseIP("2001:db8::1"), Port: 9003, Zone: ""})
	return []*node.Node{n0, n1}
}

func runtimeDescriptors() []*registry.Runtime {
	rt := &registry.Runtime{
		Versioned:   cbor.NewVersioned(registry.LatestRuntimeDescriptorVersion),
		EntityID:    sigEntity.Public(),
		ID:          runtimeID,
		Genesis:     registry.RuntimeGenesis{Round: 43, StateRoot: mkHash("stateroot hash")},
		Kind:        registry.KindCompute,
		TEEHardware: node.TEEHardwareInvalid,
		Deployments: []*registry.VersionInfo{{Version: version.Version{Major: 44, Patch: 1}, ValidFrom: 7}},
		KeyManager:  &runtimeIDKM,
		Executor: registry.ExecutorParameters{GroupSize: 9, GroupBackupSize: 8, AllowedStragglers: 7, RoundTimeout: 6, MaxMessages: 5,
			MinLiveRoundsPercent: 4, MaxMissedProposalsPercent: 3, MinLiveRoundsForEvaluation: 2, MaxLivenessFailures: 1},
		TxnScheduler: registry.TxnSchedulerParameters{BatchFlushTimeout: time.Second, MaxBatchSize: 10_000, MaxBatchSizeBytes: 10_000_000,
			MaxInMessages: 32, ProposerTimeout: 2 * time.Second},
		Storage: registry.StorageParameters{CheckpointInterval: 33, CheckpointNumKept: 6, CheckpointChunkSize: 1_000_000_000},
		AdmissionPolicy: registry.RuntimeAdmissionPolicy{EntityWhitelist: &registry.EntityWhitelistRuntimeAdmissionPolicy{
			Entities: map[signature.PublicKey]registry.EntityWhitelistConfig{
				sigEntity.Public(): {MaxNodes: map[node.RolesMask]uint16{node.RoleComputeWorker: 3, node.RoleKeyManager: 1}},
			}}},
		Constraints: map[scheduler.CommitteeKind]map[scheduler.Role]registry.SchedulingConstraints{
			scheduler.KindComputeExecutor: {scheduler.RoleWorker: {
				MaxNodes: &registry.MaxNodesConstraint{Limit: 10}, MinPoolSize: &registry.MinPoolSizeConstraint{Limit: 5},
				ValidatorSet: &registry.ValidatorSetConstraint{}}},
		},
		GovernanceModel: registry.GovernanceEntity,
		Staking:         registry.RuntimeStakingParameters{RewardSlashBadResultsRuntimePercent: 10, MinInMessageFee: quantity.Quantity{}},
	}
	return []*registry.Runtime{rt}
}

// Lookups for VerifyRegisterNodeArgs.
type rtLookup struct {
	rts map[common.Namespace]*registry.Runtime
}

func (l *rtLookup) get(id common.Namespace) (*registry.Runtime, error) {
	if rt := l.rts[id]; rt != nil {
		return rt, nil
	}
	return nil, registry.ErrNoSuchRuntime
}
func (l *rtLookup) Runtime(_ context.Context, id common.Namespace) (*registry.Runtime, error) {
	return l.get(id)
}
func (l *rtLookup) SuspendedRuntime(context.Context, common.Namespace) (*registry.Runtime, error) {
	return nil, registry.ErrNoSuchRuntime
}
func (l *rtLookup) AnyRuntime(_ context.Context, id common.Namespace) (*registry.Runtime, error) {
	return l.get(id)
}
func (l *rtLookup) AllRuntimes(context.Context) ([]*registry.Runtime, error) { return nil, nil }
func (l *rtLookup) Runtimes(context.Context) ([]*registry.Runtime, error)    { return nil, nil }

type ndLookup struct{}

func (ndLookup) NodeBySubKey(context.Context, signature.PublicKey) (*node.Node, error) {
	return nil, registry.ErrNoSuchNode
}
func (ndLookup) Nodes(context.Context) ([]*node.Node, error) { return nil, nil }
func (ndLookup) GetEntityNodes(context.Context, signature.PublicKey) ([]*node.Node, error) {
	return nil, nil
}

var (
	regRuntimes *rtLookup
	regEntity   *entity.Entity
)

// verifyNode runs the stateless registration checks on a multi-signed node.
func verifyNode(msn *node.MultiSignedNode) error {
	_, _, err := registry.VerifyRegisterNodeArgs(bgCtx, regParams, logger, msn, regEntity, fixedNow, 1000, false, false,
		beacon.EpochTime(5), regRuntimes, ndLookup{}, true)
	return err
}

func registerRegistryEntries() {
	rts := runtimeDescriptors()
	regRuntimes = &rtLookup{rts: map[common.Namespace]*registry.Runtime{rts[0].ID: rts[0]}}
	regEntity = &entity.Entity{Versioned: cbor.NewVersioned(entity.LatestDescriptorVersion), ID: sigEntity.Public(),
		Nodes: []signature.PublicKey{sigNode.Public()}}

	// Node descriptor alone.
	var nodeSeeds []seed
	for i, n := range nodeDescriptors() {
		nodeSeeds = append(nodeSeeds, seed{Name: fmt.Sprintf("node-%d", i), Data: cbor.Marshal(n), Source: "built in harness"})
	}
	for i, v := range nodeTestVectors {
		nodeSeeds = append(nodeSeeds, seed{Name: fmt.Sprintf("repo-vector-%d", i), Data: b64(v),
			Source: "common/node/node_test.go TestNodeForTestSerialization / TestNodeDeserialization", Thorough: i == 0})
	}
	register(&entry{Name: "node.Node", Kind: kindCBOR,
		About: "cbor.Unmarshal into node.Node (versioned UnmarshalCBOR), ValidateBasic(false) and ValidateBasic(true)",
		Run: func(in []byte, _ int) result {
			var n node.Node
			if err := cbor.Unmarshal(in, &n); err != nil {
				return rejected(err)
			}
			fp := marshalFP(&n)
			_ = n.String()
			if err := n.ValidateBasic(false); err != nil {
				return decoded(fp, err)
			}
			if err := n.ValidateBasic(true); err != nil {
				return decoded(fp, err)
			}
			return accepted(fp)
		}, Seeds: nodeSeeds})

	// Node descriptor signed by keys the sender owns: the mutated descriptor
	// is multi-signed here, so it passes the signature check and reaches the
	// registration verification.
	register(&entry{Name: "registry.RegisterNode.resigned", Kind: kindCBOR,
		About: "mutated node descriptor multi-signed with the sender's own keys, then MultiSignedNode CBOR round trip and registry.VerifyRegisterNodeArgs",
		Batch: 64, ShortMax: 2, // five signatures per call
		Run: func(in []byte, _ int) result {
			ms, err := signMulti(nodeSigners, registry.RegisterNodeSignatureContext, in)
			if err != nil {
				return rejected(err)
			}
			raw := cbor.Marshal(&node.MultiSignedNode{MultiSigned: *ms})
			var msn node.MultiSignedNode
			if err := cbor.Unmarshal(raw, &msn); err != nil {
				return rejected(err)
			}
			var n node.Node
			if err := msn.Open(registry.RegisterNodeSignatureContext, &n); err != nil {
				return rejected(err)
			}
			fp := marshalFP(&n)
			if err := verifyNode(&msn); err != nil {
				return decoded(fp, err)
			}
			return accepted(fp)
		}, Seeds: []seed{nodeSeeds[1], {Name: nodeSeeds[0].Name, Data: nodeSeeds[0].Data, Source: nodeSeeds[0].Source, Thorough: true}}})

	// Entity descriptor.
	ents := []*entity.Entity{
		{Versioned: cbor.NewVersioned(entity.LatestDescriptorVersion), ID: sigEntity.Public(), Nodes: []signature.PublicKey{sigNode.Public(), sigOther.Public()}},
		{Versioned: cbor.NewVersioned(entity.LatestDescriptorVersion), ID: sigEntity.Public()},
	}
	var entSeeds []seed
	for i, e := range ents {
		entSeeds = append(entSeeds, seed{Name: fmt.Sprintf("entity-%d", i), Data: cbor.Marshal(e), Source: "built in harness"})
	}
	entSeeds = append(entSeeds, seed{Name: "entity-v1", Source: "built in harness (version 1 layout)", Data: cbor.Marshal(map[string]any{
		"v": uint16(1), "id": sigEntity.Public(), "nodes": []signature.PublicKey{sigNode.Public()}, "allow_entity_signed_nodes": true})})
	register(&entry{Name: "entity.Entity", Kind: kindCBOR,
		About: "cbor.Unmarshal into entity.Entity (versioned UnmarshalCBOR) and ValidateBasic",
		Run: func(in []byte, _ int) result {
			var e entity.Entity
			if err := cbor.Unmarshal(in, &e); err != nil {
				return rejected(err)
			}
			fp := marshalFP(&e)
			_ = e.String()
			if err := e.ValidateBasic(true); err != nil {
				return decoded(fp, e.ValidateBasic(false))
			}
			return accepted(fp)
		}, Seeds: entSeeds})
	register(&entry{Name: "registry.RegisterEntity.resigned", Kind: kindCBOR,
		About: "mutated entity descriptor signed with the sender's own key, SignedEntity CBOR round trip and registry.VerifyRegisterEntityArgs",
		Batch: 64, ShortMax: 2, // one signature per call
		Run: func(in []byte, _ int) result {
			sg, err := signature.Sign(sigEntity, registry.RegisterEntitySignatureContext, in)
			if err != nil {
				return rejected(err)
			}
			raw := cbor.Marshal(&entity.SignedEntity{Signed: signature.Signed{Blob: in, Signature: *sg}})
			var se entity.SignedEntity
			if err := cbor.Unmarshal(raw, &se); err != nil {
				return rejected(err)
			}
			e, err := registry.VerifyRegisterEntityArgs(logger, &se, false, false)
			if err != nil {
				return rejected(err)
			}
			return accepted(marshalFP(e))
		}, Seeds: entSeeds})

	// Roothash commitments and proposals.
	ec, ecFail := executorCommitments()
	register(&entry{Name: "commitment.ExecutorCommitment", Kind: kindCBOR,
		About: "cbor.Unmarshal into commitment.ExecutorCommitment, ValidateBasic, Verify(runtime id), ToVote, VerifyRAK",
		Run: func(in []byte, _ int) result {
			var c commitment.ExecutorCommitment
			if err := cbor.Unmarshal(in, &c); err != nil {
				return rejected(err)
			}
			fp := marshalFP(&c)
			if err := c.ValidateBasic(); err != nil {
				return decoded(fp, err)
			}
			_ = c.ToVote()
			_ = c.IsIndicatingFailure()
			if err := c.Verify(runtimeID); err != nil {
				return decoded(fp, err)
			}
			if !c.IsIndicatingFailure() {
				if err := c.Header.VerifyRAK(sigRAK.Public()); err != nil {
					return decoded(fp, err)
				}
			}
			return accepted(fp)
		},
		Seeds: []seed{
			{Name: "commit-with-messages", Data: cbor.Marshal(ec), Source: "built and signed in harness"},
			{Name: "failure-commit", Data: cbor.Marshal(ecFail), Source: "built and signed in harness"},
		}})
	pa, _ := proposals()
	pBatch := *pa
	pBatch.Batch = append(pBatch.Batch, mkHash("tx1"), mkHash("tx2"), mkHash("tx3"))
	register(&entry{Name: "commitment.Proposal", Kind: kindCBOR,
		About: "cbor.Unmarshal into commitment.Proposal and Verify(runtime id)",
		Run: func(in []byte, _ int) result {
			var p commitment.Proposal
			if err := cbor.Unmarshal(in, &p); err != nil {
				return rejected(err)
			}
			fp := marshalFP(&p)
			if err := p.Verify(runtimeID); err != nil {
				return decoded(fp, err)
			}
			return accepted(fp)
		},
		Seeds: []seed{
			{Name: "proposal", Data: cbor.Marshal(pa), Source: "built and signed in harness"},
			{Name: "proposal-with-batch", Data: cbor.Marshal(&pBatch), Source: "built and signed in harness"},
		}})
}

// signMulti multi-signs a raw blob.
func signMulti(signers []signature.Signer, ctx signature.Context, blob []byte) (*signature.MultiSigned, error) {
	ms := &signature.MultiSigned{Blob: blob}
	for _, s := range signers {
		sg, err := signature.Sign(s, ctx, blob)
		if err != nil {
			return nil, err
		}
		ms.Signatures = append(ms.Signatures, *sg)
	}
	return ms, nil
}
