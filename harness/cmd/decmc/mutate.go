package main

// Mutant generation.  Everything here is a pure, deterministic function of
// the seed bytes: the parent computes only the sizes, workers regenerate the
// same mutants from (entry point, seed, index).

import (
	"bytes"
	"encoding/binary"
	"fmt"
)

// boundaryBytes are the values written at every byte position.
var boundaryBytes = []byte{0x00, 0x01, 0x17, 0x18, 0x19, 0x1a, 0x1b, 0x7f, 0x80, 0xff}

// nestDepths are the nesting depths used by the structural mutants.
var nestDepths = []int{16, 64, 129, 1024}

// mutant is one structural mutant; Gen builds the bytes lazily.
type mutant struct {
	Desc string
	Gen  func() []byte
}

func lit(desc string, b []byte) mutant { return mutant{Desc: desc, Gen: func() []byte { return b }} }

// ---------------------------------------------------------------------------
// Generic neighbourhood (families a, b, c of DESIGN §3.7 on raw bytes).

// genericCount returns the number of indices of the generic families for a
// seed of n bytes: 8n bit flips, n truncations, 256 extensions, 10n boundary
// writes.
func genericCount(n int) int { return 8*n + n + 256 + len(boundaryBytes)*n }

// genericMutant returns mutant i of the generic families.  dup is true when
// the mutant is by construction identical to the seed or to a bit flip
// (boundary value equal to the original byte or one bit away from it); such
// indices are skipped and not counted.
func genericMutant(seed []byte, i int) (desc string, out []byte, dup bool) {
	n := len(seed)
	switch {
	case i < 8*n:
		pos, bit := i/8, uint(i%8)
		out = append([]byte(nil), seed...)
		out[pos] ^= 1 << bit
		return fmt.Sprintf("bitflip:pos=%d,bit=%d", pos, bit), out, false
	case i < 9*n:
		l := i - 8*n
		return fmt.Sprintf("trunc:len=%d", l), append([]byte(nil), seed[:l]...), false
	case i < 9*n+256:
		v := byte(i - 9*n)
		out = append(append(make([]byte, 0, n+1), seed...), v)
		return fmt.Sprintf("ext:byte=%02x", v), out, false
	default:
		j := i - 9*n - 256
		pos, k := j/len(boundaryBytes), j%len(boundaryBytes)
		v := boundaryBytes[k]
		d := v ^ seed[pos]
		if d == 0 || d&(d-1) == 0 {
			return "", nil, true
		}
		out = append([]byte(nil), seed...)
		out[pos] = v
		return fmt.Sprintf("bound:pos=%d,val=%02x", pos, v), out, false
	}
}

// isGenericNeighbour reports whether m is the seed itself or one of its
// generic neighbours (so a structural mutant equal to it is a duplicate).
func isGenericNeighbour(seed, m []byte) bool {
	switch {
	case len(m) == len(seed):
		diff := 0
		for i := range m {
			if m[i] != seed[i] {
				diff++
				if diff > 1 {
					return false
				}
			}
		}
		if diff == 0 {
			return true
		}
		// One byte differs: generic only if a bit flip or a boundary value.
		for i := range m {
			if m[i] != seed[i] {
				d := m[i] ^ seed[i]
				if d&(d-1) == 0 {
					return true
				}
				return bytes.IndexByte(boundaryBytes, m[i]) >= 0
			}
		}
		return true
	case len(m) < len(seed):
		return bytes.Equal(seed[:len(m)], m)
	case len(m) == len(seed)+1:
		return bytes.Equal(m[:len(seed)], seed)
	}
	return false
}

// ---------------------------------------------------------------------------
// CBOR structure.

type cborItem struct {
	off, hdr, end int // head offset, head length, end of the complete item
	major         byte
	arg           uint64
	depth         int
	kids          []int // indices of direct children (for maps: k0,v0,k1,v1,...)
}

// cborWalk parses a sequence of well-formed definite-length items in
// b[from:to] and returns them in pre-order.  ok is false if the bytes are not
// of that form (then no CBOR structural mutants are generated).
func cborWalk(b []byte, from, to int) (items []cborItem, tops []int, ok bool) {
	pos := from
	var walk func(depth int) (int, bool)
	walk = func(depth int) (int, bool) {
		if pos >= to || depth > 64 {
			return 0, false
		}
		ib := b[pos]
		major, ai := ib>>5, ib&0x1f
		var arg uint64
		hdr := 1
		switch {
		case ai < 24:
			arg = uint64(ai)
		case ai == 24:
			hdr = 2
		case ai == 25:
			hdr = 3
		case ai == 26:
			hdr = 5
		case ai == 27:
			hdr = 9
		default:
			return 0, false
		}
		if pos+hdr > to {
			return 0, false
		}
		for k := 1; k < hdr; k++ {
			arg = arg<<8 | uint64(b[pos+k])
		}
		idx := len(items)
		items = append(items, cborItem{off: pos, hdr: hdr, major: major, arg: arg, depth: depth})
		pos += hdr
		switch major {
		case 2, 3:
			if arg > uint64(to-pos) {
				return 0, false
			}
			pos += int(arg)
		case 4, 5:
			n := arg
			if major == 5 {
				n *= 2
			}
			if n > uint64(to-pos) {
				return 0, false
			}
			var kids []int
			for k := uint64(0); k < n; k++ {
				c, ok := walk(depth + 1)
				if !ok {
					return 0, false
				}
				kids = append(kids, c)
			}
			items[idx].kids = kids
		case 6:
			c, ok := walk(depth + 1)
			if !ok {
				return 0, false
			}
			items[idx].kids = []int{c}
		}
		items[idx].end = pos
		return idx, true
	}
	for pos < to {
		t, ok := walk(0)
		if !ok {
			return nil, nil, false
		}
		tops = append(tops, t)
	}
	return items, tops, true
}

// cborHead encodes a head with the argument in the given width (0 = shortest).
func cborHead(major byte, arg uint64, width int) []byte {
	m := major << 5
	if width == 0 {
		switch {
		case arg < 24:
			width = 1
		case arg <= 0xff:
			width = 2
		case arg <= 0xffff:
			width = 3
		case arg <= 0xffffffff:
			width = 5
		default:
			width = 9
		}
	}
	switch width {
	case 1:
		return []byte{m | byte(arg&0x1f)}
	case 2:
		return []byte{m | 24, byte(arg)}
	case 3:
		return []byte{m | 25, byte(arg >> 8), byte(arg)}
	case 5:
		return []byte{m | 26, byte(arg >> 24), byte(arg >> 16), byte(arg >> 8), byte(arg)}
	default:
		o := make([]byte, 9)
		o[0] = m | 27
		binary.BigEndian.PutUint64(o[1:], arg)
		return o
	}
}

type headVal struct {
	arg   uint64
	width int
	name  string
}

// hugeLens: declared lengths / counts far beyond the buffer, in every width.
var hugeLens = []headVal{
	{0x17, 1, "23"}, {0x18, 2, "24"}, {0xff, 2, "255"}, {0x100, 3, "256"}, {0xffff, 3, "2^16-1"},
	{0x10000, 5, "2^16"}, {10_000_000, 5, "1e7"}, {10_000_001, 5, "1e7+1"}, {0x7fffffff, 5, "2^31-1"},
	{0x80000000, 5, "2^31"}, {0xffffffff, 5, "2^32-1"},
	{0x100000000, 9, "2^32"}, {0x7fffffffffffffff, 9, "2^63-1"}, {0x8000000000000000, 9, "2^63"},
	{0xffffffffffffffff, 9, "2^64-1"}, {0, 9, "0(8-byte)"}, {1, 5, "1(4-byte)"},
}

var intVals = []headVal{
	{0, 0, "0"}, {1, 0, "1"}, {23, 0, "23"}, {24, 0, "24"}, {255, 0, "255"}, {256, 0, "256"}, {65535, 0, "2^16-1"},
	{65536, 0, "2^16"}, {0xffffffff, 0, "2^32-1"}, {0x100000000, 0, "2^32"}, {0x7fffffffffffffff, 0, "2^63-1"},
	{0x8000000000000000, 0, "2^63"}, {0xffffffffffffffff, 0, "2^64-1"}, {5, 9, "5(8-byte)"},
}

var replacements = []struct {
	name string
	b    []byte
}{
	{"null", []byte{0xf6}}, {"undefined", []byte{0xf7}}, {"true", []byte{0xf5}}, {"bstr0", []byte{0x40}},
	{"tstr0", []byte{0x60}}, {"array0", []byte{0x80}}, {"map0", []byte{0xa0}}, {"uint0", []byte{0x00}},
	{"nint", []byte{0x20}}, {"float64", []byte{0xfb, 0x7f, 0xf0, 0, 0, 0, 0, 0, 0}}, {"float16nan", []byte{0xf9, 0x7e, 0x00}},
	{"simple", []byte{0xf8, 0xff}}, {"simple-short", []byte{0xf8, 0x10}}, {"break", []byte{0xff}}, {"reserved1c", []byte{0x1c}},
	{"reserved5e", []byte{0x5e}}, {"tag0-tstr0", []byte{0xc0, 0x60}}, {"tag24-bstr0", []byte{0xd8, 0x18, 0x40}},
	{"bignum", []byte{0xc2, 0x49, 1, 0, 0, 0, 0, 0, 0, 0, 0}}, {"invalid-utf8", []byte{0x62, 0xff, 0xfe}},
	{"indef-bstr-empty", []byte{0x5f, 0xff}}, {"indef-array-empty", []byte{0x9f, 0xff}}, {"indef-map-empty", []byte{0xbf, 0xff}},
}

func splice(b []byte, from, to int, mid ...[]byte) []byte {
	n := from + len(b) - to
	for _, m := range mid {
		n += len(m)
	}
	out := make([]byte, 0, n)
	out = append(out, b[:from]...)
	for _, m := range mid {
		out = append(out, m...)
	}
	return append(out, b[to:]...)
}

func rep(b []byte, n int) []byte { return bytes.Repeat(b, n) }

// cborStructural returns the CBOR-specific mutants of a payload occupying
// b[from:to]; finish post-processes every produced buffer (e.g. fixes a
// frame length prefix or re-compresses a chunk).
func cborStructural(b []byte, from, to int, finish func([]byte) []byte, tag string) []mutant {
	items, tops, ok := cborWalk(b, from, to)
	if !ok {
		return nil
	}
	if finish == nil {
		finish = func(x []byte) []byte { return x }
	}
	var ms []mutant
	add := func(desc string, gen func() []byte) {
		ms = append(ms, mutant{Desc: tag + desc, Gen: func() []byte { return finish(gen()) }})
	}
	for ii := range items {
		it := items[ii]
		at := fmt.Sprintf("@%d", it.off-from)
		switch it.major {
		case 2, 3, 4, 5:
			for _, hv := range hugeLens {
				hv := hv
				add(fmt.Sprintf("len%s:major=%d,declared=%s", at, it.major, hv.name), func() []byte {
					return splice(b, it.off, it.off+it.hdr, cborHead(it.major, hv.arg, hv.width))
				})
			}
			for _, d := range []int64{-1, 1} {
				d := d
				if d < 0 && it.arg == 0 {
					continue
				}
				add(fmt.Sprintf("len%s:major=%d,delta=%+d", at, it.major, d), func() []byte {
					return splice(b, it.off, it.off+it.hdr, cborHead(it.major, uint64(int64(it.arg)+d), 0))
				})
			}
			// Indefinite-length markers.
			add(fmt.Sprintf("indef%s:major=%d,nobreak", at, it.major), func() []byte {
				return splice(b, it.off, it.off+it.hdr, []byte{it.major<<5 | 31})
			})
			if it.major == 2 || it.major == 3 {
				add(fmt.Sprintf("indef%s:major=%d,chunked", at, it.major), func() []byte {
					return splice(b, it.off, it.end, []byte{it.major<<5 | 31}, b[it.off:it.end], []byte{0xff})
				})
			} else {
				add(fmt.Sprintf("indef%s:major=%d,break", at, it.major), func() []byte {
					return splice(b, it.off, it.end, []byte{it.major<<5 | 31}, b[it.off+it.hdr:it.end], []byte{0xff})
				})
			}
		case 0, 1:
			for _, hv := range intVals {
				for _, mj := range []byte{0, 1} {
					hv, mj := hv, mj
					add(fmt.Sprintf("int%s:major=%d,val=%s", at, mj, hv.name), func() []byte {
						return splice(b, it.off, it.off+it.hdr, cborHead(mj, hv.arg, hv.width))
					})
				}
			}
		}
		// Replace the whole item.
		for _, r := range replacements {
			r := r
			add(fmt.Sprintf("replace%s:%s", at, r.name), func() []byte { return splice(b, it.off, it.end, r.b) })
		}
		// Wrap the item in nested containers.
		for _, d := range nestDepths {
			d := d
			add(fmt.Sprintf("nest%s:array,depth=%d", at, d), func() []byte {
				return splice(b, it.off, it.end, rep([]byte{0x81}, d), b[it.off:it.end])
			})
			add(fmt.Sprintf("nest%s:map,depth=%d", at, d), func() []byte {
				return splice(b, it.off, it.end, rep([]byte{0xa1, 0x61, 0x61}, d), b[it.off:it.end])
			})
		}
		add(fmt.Sprintf("nest%s:tag,depth=1", at), func() []byte {
			return splice(b, it.off, it.end, []byte{0xc1}, b[it.off:it.end])
		})
		add(fmt.Sprintf("nest%s:tag,depth=64", at), func() []byte {
			return splice(b, it.off, it.end, rep([]byte{0xd8, 0x18}, 64), b[it.off:it.end])
		})
		// Entries of arrays and maps: drop, duplicate, adjacent swap.
		if it.major == 4 || it.major == 5 {
			step := 1
			if it.major == 5 {
				step = 2
			}
			ne := len(it.kids) / step
			span := func(e int) (int, int) {
				return items[it.kids[e*step]].off, items[it.kids[e*step+step-1]].end
			}
			for e := 0; e < ne; e++ {
				e := e
				s, t := span(e)
				add(fmt.Sprintf("entry%s:drop=%d", at, e), func() []byte {
					x := splice(b, s, t)
					return splice(x, it.off, it.off+it.hdr, cborHead(it.major, it.arg-1, 0))
				})
				dupName := "dup"
				if it.major == 5 {
					dupName = "dupkey"
				}
				add(fmt.Sprintf("entry%s:%s=%d", at, dupName, e), func() []byte {
					x := splice(b, t, t, b[s:t])
					return splice(x, it.off, it.off+it.hdr, cborHead(it.major, it.arg+1, 0))
				})
				add(fmt.Sprintf("entry%s:%s-at-end=%d", at, dupName, e), func() []byte {
					x := splice(b, it.end, it.end, b[s:t])
					return splice(x, it.off, it.off+it.hdr, cborHead(it.major, it.arg+1, 0))
				})
				if e+1 < ne {
					s2, t2 := span(e + 1)
					add(fmt.Sprintf("entry%s:swap=%d", at, e), func() []byte {
						return splice(b, s, t2, b[s2:t2], b[s:t])
					})
				}
			}
			// Amplification: as many minimal elements as fit into 64 KiB.
			for _, el := range []struct {
				name string
				b    []byte
			}{{"null", []byte{0xf6}}, {"map0", []byte{0xa0}}, {"array0", []byte{0x80}}, {"bstr0", []byte{0x40}}, {"uint0", []byte{0x00}}} {
				el := el
				if it.major == 4 {
					add(fmt.Sprintf("amplify%s:array,elem=%s,count=60000", at, el.name), func() []byte {
						return splice(b, it.off, it.end, cborHead(4, 60000, 0), rep(el.b, 60000))
					})
				} else {
					add(fmt.Sprintf("amplify%s:map,val=%s,count=15000", at, el.name), func() []byte {
						body := make([]byte, 0, 15000*4)
						for k := 0; k < 15000; k++ {
							body = append(body, cborHead(0, uint64(k), 0)...)
							body = append(body, el.b...)
						}
						return splice(b, it.off, it.end, cborHead(5, 15000, 0), body)
					})
				}
			}
		}
	}
	// Whole-payload mutants.
	pay := b[from:to]
	whole := func(desc string, gen func() []byte) {
		add("whole:"+desc, func() []byte { return splice(b, from, to, gen()) })
	}
	for _, d := range append([]int{}, append(nestDepths, 31, 32, 33, 65536)...) {
		d := d
		whole(fmt.Sprintf("bomb=array,depth=%d", d), func() []byte { return append(rep([]byte{0x81}, d), 0x00) })
		whole(fmt.Sprintf("bomb=array-unterminated,depth=%d", d), func() []byte { return rep([]byte{0x81}, d) })
		whole(fmt.Sprintf("bomb=indef-array,depth=%d", d), func() []byte { return rep([]byte{0x9f}, d) })
		whole(fmt.Sprintf("bomb=indef-array-closed,depth=%d", d), func() []byte {
			return append(rep([]byte{0x9f}, d), rep([]byte{0xff}, d)...)
		})
		whole(fmt.Sprintf("bomb=map,depth=%d", d), func() []byte { return append(rep([]byte{0xa1, 0x00}, d), 0x00) })
		whole(fmt.Sprintf("bomb=indef-map,depth=%d", d), func() []byte { return rep([]byte{0xbf, 0x00}, d) })
		whole(fmt.Sprintf("bomb=tag,depth=%d", d), func() []byte { return append(rep([]byte{0xc1}, d), 0x00) })
		whole(fmt.Sprintf("bomb=indef-bstr,depth=%d", d), func() []byte { return rep([]byte{0x5f}, d) })
		whole(fmt.Sprintf("bomb=array-then-seed,depth=%d", d), func() []byte { return append(rep([]byte{0x81}, d), pay...) })
	}
	for _, mj := range []byte{2, 3, 4, 5} {
		for _, hv := range hugeLens {
			mj, hv := mj, hv
			whole(fmt.Sprintf("bare-head:major=%d,declared=%s", mj, hv.name), func() []byte { return cborHead(mj, hv.arg, hv.width) })
			whole(fmt.Sprintf("head-then-seed:major=%d,declared=%s", mj, hv.name), func() []byte {
				return append(cborHead(mj, hv.arg, hv.width), pay...)
			})
		}
	}
	whole("twice", func() []byte { return append(append([]byte{}, pay...), pay...) })
	whole("seed+break", func() []byte { return append(append([]byte{}, pay...), 0xff) })
	if len(tops) == 1 {
		whole("as-bstr", func() []byte { return append(cborHead(2, uint64(len(pay)), 0), pay...) })
		whole("in-array1", func() []byte { return append([]byte{0x81}, pay...) })
		whole("in-array2", func() []byte { return append(append([]byte{0x82}, pay...), pay...) })
	}
	return ms
}

// ---------------------------------------------------------------------------
// Little-endian length fields (hand-written binary formats).

// leFieldMutants writes boundary values into the little-endian field of width
// w at offset off: fixed values plus values relative to the bytes remaining
// after the field.
func leFieldMutants(b []byte, off, w int, tag string) []mutant {
	if off+w > len(b) {
		return nil
	}
	rem := uint64(len(b) - off - w)
	var vals []uint64
	switch w {
	case 2:
		vals = []uint64{0, 1, 0xff, 0x100, 0x7fff, 0x8000, 0xfffe, 0xffff}
	case 4:
		vals = []uint64{0, 1, 0xffff, 0x10000, 0x7fffffff, 0x80000000, 0xfffffffe, 0xffffffff}
	}
	for _, d := range []int64{-33, -32, -2, -1, 0, 1, 2, 32, 33} {
		v := int64(rem) + d
		if v >= 0 {
			vals = append(vals, uint64(v))
		}
	}
	// Bit-length variants (mkvs label lengths are in bits).
	for _, d := range []int64{-8, -7, -1, 0, 1, 7, 8, 9} {
		v := int64(rem)*8 + d
		if v >= 0 {
			vals = append(vals, uint64(v))
		}
	}
	var ms []mutant
	seen := map[uint64]bool{}
	for _, v := range vals {
		if w == 2 {
			v &= 0xffff
		} else {
			v &= 0xffffffff
		}
		if seen[v] {
			continue
		}
		seen[v] = true
		v := v
		ms = append(ms, mutant{Desc: fmt.Sprintf("%sfield@%d:w=%d,val=%d", tag, off, w, v), Gen: func() []byte {
			out := append([]byte(nil), b...)
			if w == 2 {
				binary.LittleEndian.PutUint16(out[off:], uint16(v))
			} else {
				binary.LittleEndian.PutUint32(out[off:], uint32(v))
			}
			return out
		}})
	}
	return ms
}

// leConsistentTruncations: truncations that keep the enclosing length fields
// consistent.  Every little-endian u16/u32 whose value equals the number of
// bytes from the end of the field to the end of the buffer is taken to be a
// "rest of buffer" length field (format-agnostic detection; a coincidental
// match only adds a harmless mutant).  For every new length L all such fields
// that lie completely before L are rewritten to cover exactly the truncated
// rest, so that the decoder gets past the outer length checks and meets the
// cut inside the innermost structure.
func leConsistentTruncations(b []byte, from int) []mutant {
	type fld struct{ off, w int }
	var flds []fld
	n := len(b)
	for off := 0; off+2 <= n; off++ {
		if off+4 <= n && int(binary.LittleEndian.Uint32(b[off:])) == n-off-4 && n-off-4 > 0 {
			flds = append(flds, fld{off, 4})
		} else if int(binary.LittleEndian.Uint16(b[off:])) == n-off-2 && n-off-2 > 0 {
			flds = append(flds, fld{off, 2})
		}
	}
	if len(flds) == 0 {
		return nil
	}
	if from < flds[0].off+flds[0].w {
		from = flds[0].off + flds[0].w
	}
	var ms []mutant
	for L := from; L < n; L++ {
		L := L
		ms = append(ms, mutant{Desc: fmt.Sprintf("trunc-consistent:len=%d,fields=%d", L, len(flds)), Gen: func() []byte {
			out := append([]byte(nil), b[:L]...)
			for _, f := range flds {
				if f.off+f.w > L {
					continue
				}
				v := L - f.off - f.w
				if f.w == 2 {
					binary.LittleEndian.PutUint16(out[f.off:], uint16(v))
				} else {
					binary.LittleEndian.PutUint32(out[f.off:], uint32(v))
				}
			}
			return out
		}})
	}
	return ms
}

// leEveryOffset applies leFieldMutants at every offset (small seeds only).
func leEveryOffset(b []byte) []mutant {
	var ms []mutant
	for off := 0; off < len(b); off++ {
		ms = append(ms, leFieldMutants(b, off, 2, "")...)
		ms = append(ms, leFieldMutants(b, off, 4, "")...)
	}
	return ms
}

// ---------------------------------------------------------------------------
// JSON structure.

type jsonVal struct {
	from, to int
	kind     byte // 's' string, 'n' number, 'l' literal, 'o' object, 'a' array
	members  [][2]int
}

// jsonWalk is a minimal walker over well-formed JSON returning every value
// span and, for objects and arrays, the member spans.
func jsonWalk(b []byte) (vals []jsonVal, ok bool) {
	pos := 0
	ws := func() {
		for pos < len(b) && (b[pos] == ' ' || b[pos] == '\n' || b[pos] == '\t' || b[pos] == '\r') {
			pos++
		}
	}
	str := func() bool {
		if pos >= len(b) || b[pos] != '"' {
			return false
		}
		pos++
		for pos < len(b) {
			switch b[pos] {
			case '\\':
				pos += 2
			case '"':
				pos++
				return true
			default:
				pos++
			}
		}
		return false
	}
	var val func(depth int) bool
	val = func(depth int) bool {
		ws()
		if pos >= len(b) || depth > 64 {
			return false
		}
		idx := len(vals)
		vals = append(vals, jsonVal{from: pos})
		switch c := b[pos]; {
		case c == '"':
			vals[idx].kind = 's'
			if !str() {
				return false
			}
		case c == '{' || c == '[':
			closer := byte('}')
			vals[idx].kind = 'o'
			if c == '[' {
				closer, vals[idx].kind = ']', 'a'
			}
			pos++
			ws()
			if pos < len(b) && b[pos] == closer {
				pos++
				break
			}
			for {
				ws()
				ms := pos
				if c == '{' {
					if !str() {
						return false
					}
					ws()
					if pos >= len(b) || b[pos] != ':' {
						return false
					}
					pos++
				}
				if !val(depth + 1) {
					return false
				}
				vals[idx].members = append(vals[idx].members, [2]int{ms, pos})
				ws()
				if pos >= len(b) {
					return false
				}
				if b[pos] == ',' {
					pos++
					continue
				}
				if b[pos] == closer {
					pos++
					break
				}
				return false
			}
		case c == '-' || (c >= '0' && c <= '9'):
			vals[idx].kind = 'n'
			for pos < len(b) && bytes.IndexByte([]byte("+-0123456789.eE"), b[pos]) >= 0 {
				pos++
			}
		default:
			vals[idx].kind = 'l'
			for pos < len(b) && b[pos] >= 'a' && b[pos] <= 'z' {
				pos++
			}
			if pos == vals[idx].from {
				return false
			}
		}
		vals[idx].to = pos
		return true
	}
	if !val(0) {
		return nil, false
	}
	ws()
	return vals, pos == len(b)
}

var jsonStrRepl = []struct {
	name string
	gen  func() []byte
}{
	{"empty", func() []byte { return []byte(`""`) }},
	{"64KiB", func() []byte { return append(append([]byte{'"'}, rep([]byte{'A'}, 65536)...), '"') }},
	{"bad-escape", func() []byte { return []byte(`"\u12"`) }},
	{"lone-surrogate", func() []byte { return []byte(`"\ud800"`) }},
	{"control", func() []byte { return []byte{'"', 0x01, '"'} }},
	{"non-utf8", func() []byte { return []byte{'"', 0xff, 0xfe, '"'} }},
	{"unterminated", func() []byte { return []byte(`"abc`) }},
	{"nul-escape", func() []byte { return []byte(`"\u0000"`) }},
	{"odd-hex", func() []byte { return []byte(`"abc"`) }},
	{"non-hex", func() []byte { return []byte(`"zz"`) }},
	{"not-base64", func() []byte { return []byte(`"!!!!"`) }},
	{"short-base64", func() []byte { return []byte(`"AA=="`) }},
}

var jsonNumRepl = []string{"-1", "0", "1", "255", "256", "65535", "65536", "4294967295", "4294967296", "9223372036854775807",
	"9223372036854775808", "18446744073709551615", "18446744073709551616", "-9223372036854775809", "1e400", "-1e400", "1.5", "1e2", "00", "-", "1e", "0x10"}

var jsonAnyRepl = []string{"null", "true", "false", "[]", "{}", `""`, "0", `[[]]`, `{"a":{}}`, `[null]`, "nul", ""}

// jsonStructural returns the JSON-specific mutants.
func jsonStructural(b []byte) []mutant {
	vals, ok := jsonWalk(b)
	if !ok {
		return nil
	}
	var ms []mutant
	add := func(desc string, gen func() []byte) { ms = append(ms, mutant{Desc: "json:" + desc, Gen: gen}) }
	for _, v := range vals {
		v := v
		at := fmt.Sprintf("@%d", v.from)
		switch v.kind {
		case 's':
			for _, r := range jsonStrRepl {
				r := r
				add(fmt.Sprintf("string%s:%s", at, r.name), func() []byte { return splice(b, v.from, v.to, r.gen()) })
			}
		case 'n':
			for _, r := range jsonNumRepl {
				r := r
				add(fmt.Sprintf("number%s:%s", at, r), func() []byte { return splice(b, v.from, v.to, []byte(r)) })
			}
		}
		for _, r := range jsonAnyRepl {
			r := r
			add(fmt.Sprintf("replace%s:%q", at, r), func() []byte { return splice(b, v.from, v.to, []byte(r)) })
		}
		for _, d := range nestDepths {
			d := d
			add(fmt.Sprintf("nest%s:array,depth=%d", at, d), func() []byte {
				return splice(b, v.from, v.to, rep([]byte{'['}, d), b[v.from:v.to], rep([]byte{']'}, d))
			})
			add(fmt.Sprintf("nest%s:object,depth=%d", at, d), func() []byte {
				return splice(b, v.from, v.to, rep([]byte(`{"a":`), d), b[v.from:v.to], rep([]byte{'}'}, d))
			})
		}
		for e, m := range v.members {
			e, m := e, m
			add(fmt.Sprintf("member%s:dup=%d", at, e), func() []byte {
				return splice(b, m[1], m[1], []byte{','}, b[m[0]:m[1]])
			})
			add(fmt.Sprintf("member%s:drop=%d", at, e), func() []byte {
				if e+1 < len(v.members) {
					return splice(b, m[0], v.members[e+1][0])
				}
				if e > 0 {
					return splice(b, v.members[e-1][1], m[1])
				}
				return splice(b, m[0], m[1])
			})
			if e+1 < len(v.members) {
				m2 := v.members[e+1]
				add(fmt.Sprintf("member%s:swap=%d", at, e), func() []byte {
					return splice(b, m[0], m2[1], b[m2[0]:m2[1]], b[m[1]:m2[0]], b[m[0]:m[1]])
				})
			}
		}
		if v.kind == 'a' {
			add(fmt.Sprintf("amplify%s:array,count=30000", at), func() []byte {
				return splice(b, v.from, v.to, []byte{'['}, rep([]byte("0,"), 29999), []byte("0]"))
			})
			add(fmt.Sprintf("amplify%s:array-of-objects,count=20000", at), func() []byte {
				return splice(b, v.from, v.to, []byte{'['}, rep([]byte("{},"), 19999), []byte("{}]"))
			})
		}
	}
	for _, d := range append([]int{}, append(nestDepths, 9999, 10000, 10001, 100000, 1000000)...) {
		d := d
		add(fmt.Sprintf("whole:bomb=array,depth=%d", d), func() []byte { return rep([]byte{'['}, d) })
		add(fmt.Sprintf("whole:bomb=array-closed,depth=%d", d), func() []byte {
			return append(rep([]byte{'['}, d), rep([]byte{']'}, d)...)
		})
		add(fmt.Sprintf("whole:bomb=object,depth=%d", d), func() []byte { return rep([]byte(`{"a":`), d) })
		add(fmt.Sprintf("whole:bomb=object-closed,depth=%d", d), func() []byte {
			return append(append(rep([]byte(`{"a":`), d), '0'), rep([]byte{'}'}, d)...)
		})
	}
	add("whole:twice", func() []byte { return append(append([]byte{}, b...), b...) })
	add("whole:bom", func() []byte { return append([]byte{0xef, 0xbb, 0xbf}, b...) })
	add("whole:pad-64KiB", func() []byte { return append(rep([]byte{' '}, 65536), b...) })
	add("whole:in-array", func() []byte { return append(append([]byte{'['}, b...), ']') })
	return ms
}
