package main

import (
	"context"
	"encoding/base64"
	"fmt"
	"io"
	"reflect"
	"time"

	beacon "github.com/oasisprotocol/oasis-core/go/beacon/api"
	"github.com/oasisprotocol/oasis-core/go/common"
	"github.com/oasisprotocol/oasis-core/go/common/cbor"
	"github.com/oasisprotocol/oasis-core/go/common/crypto/hash"
	"github.com/oasisprotocol/oasis-core/go/common/crypto/signature"
	memorySigner "github.com/oasisprotocol/oasis-core/go/common/crypto/signature/signers/memory"
	"github.com/oasisprotocol/oasis-core/go/common/entity"
	"github.com/oasisprotocol/oasis-core/go/common/logging"
	"github.com/oasisprotocol/oasis-core/go/common/node"
	"github.com/oasisprotocol/oasis-core/go/common/quantity"
	"github.com/oasisprotocol/oasis-core/go/common/version"
	"github.com/oasisprotocol/oasis-core/go/consensus/api/transaction"
	governance "github.com/oasisprotocol/oasis-core/go/governance/api"
	registry "github.com/oasisprotocol/oasis-core/go/registry/api"
	roothash "github.com/oasisprotocol/oasis-core/go/roothash/api"
	"github.com/oasisprotocol/oasis-core/go/roothash/api/commitment"
	"github.com/oasisprotocol/oasis-core/go/roothash/api/message"
	staking "github.com/oasisprotocol/oasis-core/go/staking/api"
	upgrade "github.com/oasisprotocol/oasis-core/go/upgrade/api"

	// Registers the remaining consensus method body types.
	_ "github.com/oasisprotocol/oasis-core/go/keymanager/churp"
	_ "github.com/oasisprotocol/oasis-core/go/keymanager/secrets"
	_ "github.com/oasisprotocol/oasis-core/go/vault/api"
)

const chainContext = "decmc0000000000000000000000000000000000000000000000000000000000"

var (
	bgCtx  = context.Background()
	logger *logging.Logger

	sigEntity    = memorySigner.NewTestSigner("decmc entity")
	sigNode      = memorySigner.NewTestSigner("decmc node")
	sigP2P       = memorySigner.NewTestSigner("decmc node p2p")
	sigTLS       = memorySigner.NewTestSigner("decmc node tls")
	sigVRF       = memorySigner.NewTestSigner("decmc node vrf")
	sigConsensus = memorySigner.NewTestSigner("decmc node consensus")
	sigRAK       = memorySigner.NewTestSigner("decmc rak")
	sigOther     = memorySigner.NewTestSigner("decmc other")
	nodeSigners  = []signature.Signer{sigNode, sigP2P, sigTLS, sigVRF, sigConsensus}

	runtimeID   common.Namespace
	runtimeIDKM common.Namespace
	fixedNow    = time.Unix(1700000000, 0)
)

func must(err error) {
	if err != nil {
		panic(err)
	}
}

func b64(s string) []byte {
	b, err := base64.StdEncoding.DecodeString(s)
	must(err)
	return b
}

func mkHash(s string) hash.Hash { return hash.NewFromBytes([]byte(s)) }

func initCommon() {
	signature.SetChainContext(chainContext)
	must(logging.Initialize(io.Discard, logging.FmtLogfmt, logging.LevelError, nil))
	logger = logging.GetLogger("decmc")
	must(runtimeID.UnmarshalHex("8000000000000000000000000000000000000000000000000000000000000010"))
	must(runtimeIDKM.UnmarshalHex("c000000000000000000000000000000000000000000000000000000000000001"))
}

// marshalFP is the fingerprint of a decoded CBOR value: its re-encoding, as
// the node does when it stores or hashes the value.
func marshalFP(v any) string { return string(cbor.Marshal(v)) }

// ---------------------------------------------------------------------------
// Reflective filler: builds a non-zero value of any body type so that every
// registered method has a populated seed next to the zero-value one.

var (
	tQuantity = reflect.TypeOf(quantity.Quantity{})
	tAddress  = reflect.TypeOf(staking.Address{})
	tPubKey   = reflect.TypeOf(signature.PublicKey{})
	tRaw      = reflect.TypeOf(cbor.RawMessage{})
)

func fill(v reflect.Value, variant, depth int) {
	if !v.CanSet() {
		return
	}
	switch v.Type() {
	case tQuantity:
		v.Set(reflect.ValueOf(*quantity.NewFromUint64(uint64(1000 + variant))))
		return
	case tAddress:
		v.Set(reflect.ValueOf(staking.NewAddress(sigOther.Public())))
		return
	case tPubKey:
		v.Set(reflect.ValueOf(sigEntity.Public()))
		return
	case tRaw:
		v.Set(reflect.ValueOf(cbor.RawMessage(cbor.Marshal(map[string]uint64{"k": uint64(variant)}))))
		return
	}
	switch v.Kind() {
	case reflect.Bool:
		v.SetBool(true)
	case reflect.Int, reflect.Int8, reflect.Int16, reflect.Int32, reflect.Int64:
		v.SetInt(int64(1 + variant))
	case reflect.Uint, reflect.Uint8, reflect.Uint16, reflect.Uint32, reflect.Uint64:
		v.SetUint(uint64(1 + variant))
	case reflect.String:
		v.SetString(fmt.Sprintf("s%d", variant))
	case reflect.Slice:
		if depth > 5 {
			return
		}
		n := 2
		s := reflect.MakeSlice(v.Type(), n, n)
		for i := 0; i < n; i++ {
			fill(s.Index(i), variant+i, depth+1)
		}
		v.Set(s)
	case reflect.Array:
		for i := 0; i < v.Len(); i++ {
			if v.Type().Elem().Kind() == reflect.Uint8 {
				v.Index(i).SetUint(uint64(byte(i + 1 + variant)))
			} else {
				fill(v.Index(i), variant+i, depth+1)
			}
		}
	case reflect.Map:
		if depth > 5 {
			return
		}
		m := reflect.MakeMap(v.Type())
		k := reflect.New(v.Type().Key()).Elem()
		fill(k, variant, depth+1)
		e := reflect.New(v.Type().Elem()).Elem()
		fill(e, variant, depth+1)
		m.SetMapIndex(k, e)
		v.Set(m)
	case reflect.Ptr:
		if depth > 5 {
			return
		}
		p := reflect.New(v.Type().Elem())
		fill(p.Elem(), variant, depth+1)
		v.Set(p)
	case reflect.Struct:
		for i := 0; i < v.NumField(); i++ {
			if v.Type().Field(i).PkgPath != "" && !v.Type().Field(i).Anonymous {
				continue
			}
			fill(v.Field(i), variant, depth+1)
		}
	}
}

// filledSeed marshals a filled value of type t; ok is false if the value does
// not marshal or does not decode again.
func filledSeed(t reflect.Type, variant int) (out []byte, ok bool) {
	defer func() {
		if recover() != nil {
			out, ok = nil, false
		}
	}()
	p := reflect.New(t)
	fill(p.Elem(), variant, 0)
	out = cbor.Marshal(p.Interface())
	q := reflect.New(t)
	if err := cbor.Unmarshal(out, q.Interface()); err != nil {
		return nil, false
	}
	return out, true
}

// ---------------------------------------------------------------------------
// Validation that follows a successful body decode (stateless parts only).

var (
	govParams = &governance.ConsensusParameters{AllowProposalMetadata: true, UpgradeMinEpochDiff: 1}
	regParams = &registry.ConsensusParameters{
		DebugAllowUnroutableAddresses: true,
		MaxNodeExpiration:             10,
		MaxRuntimeDeployments:         5,
		EnableRuntimeGovernanceModels: map[registry.RuntimeGovernanceModel]bool{
			registry.GovernanceConsensus: true, registry.GovernanceEntity: true, registry.GovernanceRuntime: true,
		},
		TEEFeatures: &node.TEEFeatures{SGX: node.TEEFeaturesSGX{PCS: true, SignedAttestations: true, TDX: true, DefaultMaxAttestationAge: 1200}, FreshnessProofs: true},
	}
)

func validateBody(v any) error {
	switch b := v.(type) {
	case *governance.ProposalContent:
		return b.ValidateBasic(govParams)
	case *roothash.Evidence:
		if err := b.ValidateBasic(); err != nil {
			return err
		}
		_, err := b.Hash()
		return err
	case *roothash.ExecutorCommit:
		for i := range b.Commits {
			if err := b.Commits[i].ValidateBasic(); err != nil {
				return err
			}
			if err := b.Commits[i].Verify(b.ID); err != nil {
				return err
			}
		}
		return nil
	case *entity.SignedEntity:
		_, err := registry.VerifyRegisterEntityArgs(logger, b, false, false)
		return err
	case *node.MultiSignedNode:
		return verifyNode(b)
	case *registry.Runtime:
		return registry.VerifyRuntime(regParams, logger, b, beacon.EpochTime(5), registry.VerifyRuntimeOptions{IsFeatureVersion261: true})
	case *staking.AmendCommissionSchedule:
		return nil
	}
	if vb, ok := v.(interface{ ValidateBasic() error }); ok {
		return vb.ValidateBasic()
	}
	if sc, ok := v.(interface{ SanityCheck() error }); ok {
		return sc.SanityCheck()
	}
	return nil
}

func decodeBody(method transaction.MethodName, body []byte) result {
	bt := method.BodyType()
	if bt == nil {
		return rejected(transaction.ErrMethodNotSupported)
	}
	v := reflect.New(reflect.TypeOf(bt)).Interface()
	if err := cbor.Unmarshal(body, v); err != nil {
		return rejected(err)
	}
	fp := marshalFP(v)
	if err := validateBody(v); err != nil {
		return decoded(fp, err)
	}
	return accepted(fp)
}

// runSignedTx mirrors abciMux.decodeTx followed by the body decode that every
// application performs.
func runSignedTx(in []byte, _ int) result {
	if len(in) > 32768 {
		return rejected(fmt.Errorf("oversized"))
	}
	var st transaction.SignedTransaction
	if err := cbor.Unmarshal(in, &st); err != nil {
		return rejected(err)
	}
	fp := marshalFP(&st)
	_ = st.Hash()
	var tx transaction.Transaction
	if err := st.Open(&tx); err != nil {
		return decoded(fp, err)
	}
	if err := tx.SanityCheck(); err != nil {
		return decoded(fp, err)
	}
	if r := decodeBody(tx.Method, tx.Body); r.Stage != stAccepted {
		return decoded(fp, r.Err)
	}
	return accepted(fp)
}

// runTx decodes the inner transaction (what Open does after the signature
// check) and its body.
func runTx(in []byte, _ int) result {
	var tx transaction.Transaction
	if err := cbor.Unmarshal(in, &tx); err != nil {
		return rejected(err)
	}
	fp := marshalFP(&tx)
	if err := tx.SanityCheck(); err != nil {
		return decoded(fp, err)
	}
	if tx.Fee != nil {
		_ = tx.Fee.GasPrice()
	}
	if r := decodeBody(tx.Method, tx.Body); r.Stage != stAccepted {
		return decoded(fp, r.Err)
	}
	return accepted(fp)
}

func signTx(tx *transaction.Transaction) []byte {
	st, err := transaction.Sign(sigEntity, tx)
	must(err)
	return cbor.Marshal(st)
}

// methods lists every registered consensus method (module order).
var methods = []transaction.MethodName{
	"staking.Transfer", "staking.Burn", "staking.AddEscrow", "staking.ReclaimEscrow", "staking.AmendCommissionSchedule",
	"staking.Allow", "staking.Withdraw",
	"registry.RegisterEntity", "registry.DeregisterEntity", "registry.RegisterNode", "registry.UnfreezeNode",
	"registry.RegisterRuntime", "registry.ProveFreshness",
	"governance.SubmitProposal", "governance.CastVote",
	"roothash.ExecutorCommit", "roothash.Evidence", "roothash.SubmitMsg",
	"beacon.SetEpoch", "beacon.VRFProve", "consensus.Meta",
	"vault.Create", "vault.AuthorizeAction", "vault.CancelAction",
	"keymanager.UpdatePolicy", "keymanager.PublishMasterSecret", "keymanager.PublishEphemeralSecret",
	"keymanager/churp.Create", "keymanager/churp.Update", "keymanager/churp.Apply", "keymanager/churp.Confirm",
}

// handSeeds are realistic bodies built here (besides zero and filled values).
func handSeeds() map[transaction.MethodName][]seed {
	addr := staking.NewAddress(sigOther.Public())
	q := func(n uint64) quantity.Quantity { return *quantity.NewFromUint64(n) }
	hs := map[transaction.MethodName][]seed{}
	add := func(m transaction.MethodName, name string, v any) {
		hs[m] = append(hs[m], seed{Name: name, Data: cbor.Marshal(v), Source: "built in harness"})
	}
	add("staking.Transfer", "transfer", &staking.Transfer{To: addr, Amount: q(123456789)})
	add("staking.Burn", "burn", &staking.Burn{Amount: q(1 << 40)})
	add("staking.AddEscrow", "escrow", &staking.Escrow{Account: addr, Amount: q(100)})
	add("staking.ReclaimEscrow", "reclaim", &staking.ReclaimEscrow{Account: addr, Shares: q(7)})
	add("staking.AmendCommissionSchedule", "amend", &staking.AmendCommissionSchedule{Amendment: staking.CommissionSchedule{
		Rates:  []staking.CommissionRateStep{{Start: 10, Rate: q(5000)}, {Start: 20, Rate: q(6000)}},
		Bounds: []staking.CommissionRateBoundStep{{Start: 10, RateMin: q(0), RateMax: q(100000)}},
	}})
	add("staking.Allow", "allow", &staking.Allow{Beneficiary: addr, Negative: true, AmountChange: q(55)})
	add("staking.Withdraw", "withdraw", &staking.Withdraw{From: addr, Amount: q(1)})
	add("registry.DeregisterEntity", "dereg", &registry.DeregisterEntity{})
	add("registry.UnfreezeNode", "unfreeze", &registry.UnfreezeNode{NodeID: sigNode.Public()})
	add("governance.CastVote", "vote", &governance.ProposalVote{ID: 42, Vote: governance.VoteYes})
	add("governance.SubmitProposal", "upgrade", &governance.ProposalContent{
		Metadata: &governance.ProposalMetadata{Title: "a valid proposal title", Description: "description"},
		Upgrade: &governance.UpgradeProposal{Descriptor: upgrade.Descriptor{
			Versioned: cbor.NewVersioned(upgrade.LatestDescriptorVersion), Handler: "handler-name",
			Target: version.Versions, Epoch: 500,
		}},
	})
	add("governance.SubmitProposal", "cancel", &governance.ProposalContent{
		Metadata:      &governance.ProposalMetadata{Title: "cancel the pending upgrade"},
		CancelUpgrade: &governance.CancelUpgradeProposal{ProposalID: 7},
	})
	add("governance.SubmitProposal", "change-params", &governance.ProposalContent{
		Metadata: &governance.ProposalMetadata{Title: "change the parameters"},
		ChangeParameters: &governance.ChangeParametersProposal{Module: "staking",
			Changes: cbor.Marshal(map[string]any{"max_allowances": uint32(16)})},
	})
	add("roothash.SubmitMsg", "submit", &roothash.SubmitMsg{ID: runtimeID, Tag: 9, Fee: q(1), Tokens: q(2), Data: []byte("payload")})

	// Registry bodies.
	ent := &entity.Entity{Versioned: cbor.NewVersioned(entity.LatestDescriptorVersion), ID: sigEntity.Public(),
		Nodes: []signature.PublicKey{sigNode.Public(), sigOther.Public()}}
	se, err := entity.SignEntity(sigEntity, registry.RegisterEntitySignatureContext, ent)
	must(err)
	add("registry.RegisterEntity", "signed-entity", se)
	for i, n := range nodeDescriptors() {
		if i > 1 {
			break
		}
		msn, err := node.MultiSignNode(nodeSigners, registry.RegisterNodeSignatureContext, n)
		must(err)
		add("registry.RegisterNode", fmt.Sprintf("multisigned-node-%d", i), msn)
	}
	for i, rt := range runtimeDescriptors() {
		add("registry.RegisterRuntime", fmt.Sprintf("runtime-%d", i), rt)
	}
	for i, v := range runtimeTestVectors {
		hs["registry.RegisterRuntime"] = append(hs["registry.RegisterRuntime"], seed{Name: fmt.Sprintf("repo-vector-%d", i),
			Data: b64(v), Source: "registry/api/runtime_test.go TestRuntimeSerialization"})
	}

	// Roothash bodies.
	ec, ecFail := executorCommitments()
	add("roothash.ExecutorCommit", "commit", &roothash.ExecutorCommit{ID: runtimeID, Commits: []commitment.ExecutorCommitment{*ec, *ecFail}})
	ec2 := *ec
	h2 := mkHash("other state root")
	ec2.Header.Header.StateRoot = &h2
	ec2.Messages = nil
	ec1 := *ec
	ec1.Messages = nil
	must(ec1.Sign(sigNode, runtimeID))
	must(ec2.Sign(sigNode, runtimeID))
	add("roothash.Evidence", "executor-equivocation", &roothash.Evidence{ID: runtimeID,
		EquivocationExecutor: &roothash.EquivocationExecutorEvidence{CommitA: ec1, CommitB: ec2}})
	pa, pb := proposals()
	add("roothash.Evidence", "proposal-equivocation", &roothash.Evidence{ID: runtimeID,
		EquivocationProposal: &roothash.EquivocationProposalEvidence{ProposalA: *pa, ProposalB: *pb}})
	return hs
}

func executorCommitments() (ok, fail *commitment.ExecutorCommitment) {
	io, st, mh, imh := mkHash("io root"), mkHash("state root"), hash.Hash{}, mkHash("in msgs")
	msgs := []message.Message{
		{Staking: &message.StakingMessage{Transfer: &staking.Transfer{To: staking.NewAddress(sigOther.Public()), Amount: *quantity.NewFromUint64(5)}}},
		{Registry: &message.RegistryMessage{UpdateRuntime: runtimeDescriptors()[0]}},
	}
	mh = message.MessagesHash(msgs)
	ok = &commitment.ExecutorCommitment{
		NodeID: sigNode.Public(),
		Header: commitment.ExecutorCommitmentHeader{
			SchedulerID: sigNode.Public(),
			Header: commitment.ComputeResultsHeader{Round: 12, PreviousHash: mkHash("prev"), IORoot: &io, StateRoot: &st,
				MessagesHash: &mh, InMessagesHash: &imh, InMessagesCount: 3},
		},
		Messages: msgs,
	}
	rak, err := signature.SignRaw(sigRAK, commitment.ComputeResultsHeaderSignatureContext, cbor.Marshal(ok.Header.Header))
	must(err)
	ok.Header.RAKSignature = rak
	must(ok.Sign(sigNode, runtimeID))
	fail = &commitment.ExecutorCommitment{
		NodeID: sigNode.Public(),
		Header: commitment.ExecutorCommitmentHeader{
			SchedulerID: sigNode.Public(),
			Header:      commitment.ComputeResultsHeader{Round: 12, PreviousHash: mkHash("prev")},
		},
	}
	fail.Header.SetFailure(commitment.FailureStateUnavailable)
	must(fail.Sign(sigNode, runtimeID))
	return ok, fail
}

func proposals() (a, b *commitment.Proposal) {
	a = &commitment.Proposal{NodeID: sigNode.Public(),
		Header: commitment.ProposalHeader{Round: 12, PreviousHash: mkHash("prev"), BatchHash: mkHash("batch a")}}
	must(a.Sign(sigNode, runtimeID))
	b = &commitment.Proposal{NodeID: sigNode.Public(),
		Header: commitment.ProposalHeader{Round: 12, PreviousHash: mkHash("prev"), BatchHash: mkHash("batch b")}}
	must(b.Sign(sigNode, runtimeID))
	return a, b
}

func registerTxEntries() {
	hs := handSeeds()

	// Method bodies.
	for _, m := range methods {
		m := m
		bt := m.BodyType()
		if bt == nil {
			panic("method not registered: " + string(m))
		}
		t := reflect.TypeOf(bt)
		e := &entry{
			Name: "body." + string(m), Kind: kindCBOR,
			About: fmt.Sprintf("cbor.Unmarshal into %s (method %s) followed by the stateless validation of that body", t, m),
			Run:   func(in []byte, _ int) result { return decodeBody(m, in) },
		}
		e.Seeds = append(e.Seeds, hs[m]...)
		e.Seeds = append(e.Seeds, seed{Name: "zero", Data: cbor.Marshal(reflect.New(t).Interface()), Source: "zero value", Thorough: len(hs[m]) > 0})
		for variant := 0; variant < 2; variant++ {
			if d, ok := filledSeed(t, variant*7); ok {
				e.Seeds = append(e.Seeds, seed{Name: fmt.Sprintf("filled-%d", variant), Data: d, Source: "reflectively populated value",
					Thorough: variant > 0 || len(hs[m]) >= 2})
			}
		}
		register(e)
	}

	// Transaction envelope.
	fee := &transaction.Fee{Amount: *quantity.NewFromUint64(2000), Gas: 10000}
	var signedSeeds, txSeeds []seed
	for i, pick := range []struct {
		m    transaction.MethodName
		name string
	}{{"staking.Transfer", "transfer"}, {"governance.SubmitProposal", "upgrade"}, {"roothash.ExecutorCommit", "commit"},
		{"registry.RegisterEntity", "signed-entity"}, {"registry.RegisterNode", "multisigned-node-0"}, {"staking.AmendCommissionSchedule", "amend"}} {
		var body []byte
		for _, s := range hs[pick.m] {
			if s.Name == pick.name {
				body = s.Data
			}
		}
		if body == nil {
			panic("missing body seed " + pick.name)
		}
		tx := &transaction.Transaction{Nonce: uint64(i + 1), Fee: fee, Method: pick.m, Body: body}
		if i == 1 {
			tx.Fee = nil
		}
		txSeeds = append(txSeeds, seed{Name: string(pick.m), Data: cbor.Marshal(tx), Source: "built in harness", Thorough: i >= 3})
		signedSeeds = append(signedSeeds, seed{Name: string(pick.m), Data: signTx(tx), Source: "built and signed in harness", Thorough: i >= 3})
	}
	register(&entry{Name: "consensus.SignedTransaction", Kind: kindCBOR,
		About: "abciMux.decodeTx outside the multiplexer: size limit, cbor.Unmarshal into transaction.SignedTransaction, Open (signature), SanityCheck, body decode by method",
		Run:   runSignedTx, Seeds: signedSeeds})
	register(&entry{Name: "consensus.Transaction", Kind: kindCBOR,
		About: "cbor.Unmarshal into transaction.Transaction (the signed blob), SanityCheck, body decode by method",
		Run:   runTx, Seeds: txSeeds})
	register(&entry{Name: "cbor.any", Kind: kindCBOR, About: "cbor.Unmarshal into an empty interface",
		Run: func(in []byte, _ int) result {
			var v any
			if err := cbor.Unmarshal(in, &v); err != nil {
				return rejected(err)
			}
			return accepted(fmt.Sprintf("%T", v))
		},
		Seeds: []seed{{Name: "tx", Data: txSeeds[0].Data, Source: "built in harness"}}})
}
