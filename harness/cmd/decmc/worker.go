package main

// Worker process: executes decoder calls on a single goroutine so that the
// allocation meter (runtime.MemStats.TotalAlloc) measures only those calls.
// A second goroutine is the hang watchdog; it only sleeps and reads atomics.

import (
	"bufio"
	"encoding/base64"
	"encoding/binary"
	"encoding/hex"
	"encoding/json"
	"fmt"
	"os"
	"runtime"
	"runtime/debug"
	"strings"
	"sync"
	"sync/atomic"
	"syscall"
	"time"

	"github.com/cespare/xxhash/v2"
)

const (
	allocCapBase    = 64 << 20         // 64 MiB for inputs up to 64 KiB
	maxStackBytes   = 32 << 20         // goroutine stack bound (fatal beyond it)
	allocPerByte    = 2048             // tolerated allocation per input byte on top of the base
	hangTimeout     = 20 * time.Second // user CPU time within one call
	hangWallTimeout = 5 * time.Minute  // wall time within one call (blocked)
	maxInlineHex    = 64 << 10
)

// allocCap is the allocation bound for one call with an input of n bytes.
// Allocation that is paid for by bytes actually present in the input is
// bounded by construction; what the bound has to catch is allocation driven
// by a declared size.  (The largest legitimate factor observed is ~1.6 KiB
// per input byte: an array of empty maps decoded into a slice of structs.)
func allocCap(n int) uint64 { return allocCapBase + allocPerByte*uint64(n) }

type job struct {
	ID      int    `json:"id"`
	EP      string `json:"ep"`
	Fam     string `json:"fam"` // "short" | "nbh" | "one"
	Seed    int    `json:"seed"`
	Lo      int    `json:"lo"`
	Hi      int    `json:"hi"`
	Careful bool   `json:"careful,omitempty"`
	Hex     string `json:"hex,omitempty"` // explicit input for "one"
}

type violRec struct {
	Kind     string `json:"kind"` // panic | alloc | hang | fatal | corrupt
	EP       string `json:"entry_point"`
	SeedName string `json:"seed"`
	Seed     int    `json:"seed_index"`
	Fam      string `json:"family"`
	Index    int    `json:"index"`
	Desc     string `json:"mutant"`
	InputLen int    `json:"input_len"`
	InputHex string `json:"input_hex,omitempty"`
	What     string `json:"what"`
	Site     string `json:"site,omitempty"`     // first repository frame of a panic
	Hi       int    `json:"range_hi,omitempty"` // for unpinpointed ranges
}

type sampleRec struct {
	EP     string `json:"entry_point"`
	Seed   string `json:"seed"`
	Mutant string `json:"mutant"`
	Len    int    `json:"input_len"`
	Hex    string `json:"input_hex_prefix"`
	Stage  string `json:"outcome"`
	Err    string `json:"error,omitempty"`
}

type jobResult struct {
	ID         int         `json:"id"`
	Calls      int64       `json:"calls"`
	Rejected   int64       `json:"rejected"`
	Decoded    int64       `json:"decoded"`
	Accepted   int64       `json:"accepted"`
	Dup        int64       `json:"dup"`
	SeedChecks int64       `json:"seed_checks"`
	MaxAlloc   uint64      `json:"max_alloc"`
	Strict     int64       `json:"strict_accepted"` // indefinite-length / duplicate-key / tag mutants that were accepted
	Hashes     string      `json:"hashes,omitempty"`
	Shorts     []uint32    `json:"shorts,omitempty"`
	Viol       []violRec   `json:"viol,omitempty"`
	NViol      int64       `json:"nviol"`
	Samples    []sampleRec `json:"samples,omitempty"`
	Outcomes   []string    `json:"outcomes,omitempty"`
	Err        string      `json:"err,omitempty"`
	Millis     int64       `json:"ms"`
	Aborted    bool        `json:"aborted,omitempty"`
}

var (
	outMu    sync.Mutex
	out      *bufio.Writer
	curStart atomic.Int64
	curIdx   atomic.Int64
	curJob   atomic.Int64
)

func emit(v any) {
	b, _ := json.Marshal(v)
	outMu.Lock()
	out.Write(b)
	out.WriteByte('\n')
	out.Flush()
	outMu.Unlock()
}

func stageName(s int) string {
	switch s {
	case stRejected:
		return "rejected"
	case stDecoded:
		return "decoded-then-rejected"
	}
	return "accepted"
}

// callOnce runs one decoder call under recover.
func callOnce(e *entry, in []byte, si int) (res result, pan string) {
	defer func() {
		if r := recover(); r != nil {
			st := string(debug.Stack())
			if len(st) > 2500 {
				st = st[:2500]
			}
			pan = fmt.Sprintf("%v\n%s", r, st)
		}
	}()
	res = e.Run(in, si)
	return
}

// panicSite extracts the first frame inside the repository from a panic stack.
func panicSite(pan string) string {
	seenPanic := false
	for _, l := range strings.Split(pan, "\n") {
		if strings.HasPrefix(l, "panic(") {
			seenPanic = true
			continue
		}
		if seenPanic && strings.HasPrefix(l, "github.com/oasisprotocol/oasis-core/go/") {
			l = strings.TrimPrefix(l, "github.com/oasisprotocol/oasis-core/go/")
			if i := strings.LastIndex(l, "("); i > 0 {
				l = l[:i]
			}
			return l
		}
	}
	return "unknown"
}

type seedRef struct {
	stage int
	fp    string
	err   string
}

var seedRefs = map[string]seedRef{}

func refKey(e *entry, si int) string { return fmt.Sprintf("%s/%d", e.Name, si) }

func errStr(err error) string {
	if err == nil {
		return ""
	}
	return err.Error()
}

// seedCheck decodes the valid seed again and compares with the reference.
func seedCheck(e *entry, si int) string {
	res, pan := callOnce(e, e.Seeds[si].Data, si)
	if pan != "" {
		return "valid seed now panics: " + pan
	}
	ref, ok := seedRefs[refKey(e, si)]
	if !ok {
		return "no reference for seed"
	}
	if res.Stage != ref.stage || res.FP != ref.fp || errStr(res.Err) != ref.err {
		return fmt.Sprintf("valid seed %q now gives %s (%s), before: %s (%s)", e.Seeds[si].Name,
			stageName(res.Stage), errStr(res.Err), stageName(ref.stage), ref.err)
	}
	return ""
}

// userCPU returns the user CPU time of the process in nanoseconds.
func userCPU() int64 {
	var ru syscall.Rusage
	if err := syscall.Getrusage(syscall.RUSAGE_SELF, &ru); err != nil {
		return 0
	}
	return ru.Utime.Nano()
}

func totalAlloc() uint64 {
	var ms runtime.MemStats
	runtime.ReadMemStats(&ms)
	return ms.TotalAlloc
}

type item struct {
	idx  int
	desc string
	in   []byte
}

func isStrictMutant(desc string) bool {
	if strings.HasPrefix(desc, "json:") {
		return false
	}
	return strings.Contains(desc, "indef") || strings.Contains(desc, ":dupkey") || strings.Contains(desc, ":tag") || strings.Contains(desc, "=tag")
}

func runJob(j *job) *jobResult {
	r := &jobResult{ID: j.ID}
	t0 := time.Now()
	defer func() { r.Millis = time.Since(t0).Milliseconds() }()
	e := entryByID[j.EP]
	if e == nil {
		r.Err = "unknown entry point " + j.EP
		return r
	}
	si := j.Seed
	if si < 0 || si >= len(e.Seeds) {
		r.Err = "bad seed index"
		return r
	}
	curJob.Store(int64(j.ID))
	var hashes []byte
	outcomes := map[string]struct{}{}
	addViol := func(v violRec) {
		r.NViol++
		if len(r.Viol) < 5 {
			r.Viol = append(r.Viol, v)
		}
	}
	mk := func(kind string, it item, what string) violRec {
		v := violRec{Kind: kind, EP: e.Name, SeedName: e.Seeds[si].Name, Seed: si, Fam: j.Fam, Index: it.idx, Desc: it.desc,
			InputLen: len(it.in), What: what}
		if len(it.in) <= maxInlineHex {
			v.InputHex = hex.EncodeToString(it.in)
		}
		if j.Fam == "short" {
			v.Desc = "short:" + hex.EncodeToString(it.in)
		}
		return v
	}
	record := func(it item, res result) {
		r.Calls++
		switch res.Stage {
		case stRejected:
			r.Rejected++
		case stDecoded:
			r.Decoded++
		default:
			r.Accepted++
		}
		if res.Stage != stRejected && isStrictMutant(it.desc) {
			r.Strict++
		}
		if j.Fam != "short" {
			if len(it.in) <= maxShortLen {
				v := uint32(len(it.in)) << 24
				for _, b := range it.in {
					v = v&0xff000000 | (v&0xffffff)<<8 | uint32(b)
				}
				r.Shorts = append(r.Shorts, v)
			} else {
				hashes = binary.LittleEndian.AppendUint64(hashes, xxhash.Sum64(it.in))
			}
		}
		if len(outcomes) < 24 {
			es := errStr(res.Err)
			if len(es) > 48 {
				es = es[:48]
			}
			outcomes[e.Name+"|"+stageName(res.Stage)+"|"+es] = struct{}{}
		}
		if len(r.Samples) < 2 && (r.Calls == 1 || res.Stage != stRejected && len(r.Samples) < 2 && r.Calls%97 == 0) {
			pre := it.in
			if len(pre) > 48 {
				pre = pre[:48]
			}
			es := errStr(res.Err)
			if len(es) > 160 {
				es = es[:160]
			}
			r.Samples = append(r.Samples, sampleRec{EP: e.Name, Seed: e.Seeds[si].Name, Mutant: it.desc, Len: len(it.in),
				Hex: hex.EncodeToString(pre), Stage: stageName(res.Stage), Err: es})
		}
	}
	// careful executes one item with its own allocation measurement and seed check.
	careful := func(it item, count bool) {
		if j.Careful {
			outMu.Lock()
			fmt.Fprintf(out, "@ %d\n", it.idx)
			out.Flush()
			outMu.Unlock()
		}
		curIdx.Store(int64(it.idx))
		a0 := totalAlloc()
		curStart.Store(time.Now().UnixNano())
		res, pan := callOnce(e, it.in, si)
		curStart.Store(0)
		d := totalAlloc() - a0
		if count {
			record(it, res)
		}
		if d > r.MaxAlloc {
			r.MaxAlloc = d
		}
		if pan != "" {
			v := mk("panic", it, "panic: "+pan)
			v.Site = panicSite(pan)
			addViol(v)
		}
		if d > allocCap(len(it.in)) {
			addViol(mk("alloc", it, fmt.Sprintf("allocated %d bytes for an input of %d bytes (bound %d)", d, len(it.in), allocCap(len(it.in)))))
		}
		r.SeedChecks++
		if msg := seedCheck(e, si); msg != "" {
			addViol(mk("corrupt", it, "subsequent processing corrupted: "+msg))
			r.Aborted = true
		}
	}

	gen := func(i int) (item, bool) {
		switch j.Fam {
		case "short":
			return item{idx: i, desc: "short", in: shortString(i, make([]byte, 0, maxShortLen))}, true
		case "one":
			if j.Hex != "" {
				b, err := hex.DecodeString(j.Hex)
				if err != nil {
					return item{}, false
				}
				return item{idx: i, desc: "explicit", in: b}, true
			}
			fallthrough
		default:
			desc, in, dup := e.nbhMutant(si, i)
			if dup {
				r.Dup++
				return item{}, false
			}
			return item{idx: i, desc: desc, in: in}, true
		}
	}

	if j.Careful || j.Fam == "one" {
		for i := j.Lo; i < j.Hi && !r.Aborted; i++ {
			if it, ok := gen(i); ok {
				careful(it, true)
			}
			r.Aborted = r.Aborted || r.NViol >= 64 && j.Hi-j.Lo > 1
		}
	} else {
		// Batched execution: the allocation meter and the seed re-check run
		// once per batch.  TotalAlloc only grows, so a batch whose total stays
		// below the smallest per-call bound contains no offending call; a
		// batch above it is bisected (re-executed) down to single calls.
		exec := func(it item) (result, string) {
			curIdx.Store(int64(it.idx))
			curStart.Store(time.Now().UnixNano())
			res, pan := callOnce(e, it.in, si)
			curStart.Store(0)
			return res, pan
		}
		var bisect func(items []item)
		bisect = func(items []item) {
			if len(items) == 1 {
				it := items[0]
				a0 := totalAlloc()
				exec(it)
				d := totalAlloc() - a0
				if d > r.MaxAlloc {
					r.MaxAlloc = d
				}
				if d > allocCap(len(it.in)) {
					addViol(mk("alloc", it, fmt.Sprintf("allocated %d bytes for an input of %d bytes (bound %d)", d, len(it.in), allocCap(len(it.in)))))
				}
				return
			}
			for _, half := range [][]item{items[:len(items)/2], items[len(items)/2:]} {
				a0 := totalAlloc()
				for _, it := range half {
					exec(it)
				}
				if totalAlloc()-a0 > allocCapBase {
					bisect(half)
				}
			}
		}
		g := genericCount(len(e.Seeds[si].Data))
		maxB := func(lo int) int {
			switch {
			case j.Fam == "short":
				return 4096
			case lo >= g && e.Batch > 16:
				return 16
			}
			return e.Batch
		}
		b := maxB(j.Lo)
		if b > 64 {
			b = 64
		}
		var items []item
		for lo := j.Lo; lo < j.Hi; {
			if r.NViol >= 64 {
				r.Aborted = true
				break
			}
			if m := maxB(lo); b > m {
				b = m
			}
			hi := lo + b
			if hi > j.Hi {
				hi = j.Hi
			}
			if j.Fam != "short" && lo < g && hi > g {
				hi = g // do not mix generic and structural mutants in one batch
			}
			items = items[:0]
			for i := lo; i < hi; i++ {
				if it, ok := gen(i); ok {
					items = append(items, it)
				}
			}
			a0 := totalAlloc()
			for _, it := range items {
				res, pan := exec(it)
				record(it, res)
				if pan != "" {
					v := mk("panic", it, "panic: "+pan)
					v.Site = panicSite(pan)
					addViol(v)
				}
			}
			d := totalAlloc() - a0
			r.SeedChecks++
			if msg := seedCheck(e, si); msg != "" {
				// The process state is no longer trustworthy: report the range
				// and stop; the parent locates the mutant in a fresh process,
				// checking the seed after every single call.
				addViol(violRec{Kind: "corrupt", EP: e.Name, SeedName: e.Seeds[si].Name, Seed: si, Fam: j.Fam, Index: lo, Hi: hi,
					Desc: fmt.Sprintf("range [%d,%d)", lo, hi), What: "subsequent processing corrupted: " + msg})
				r.Aborted = true
				break
			}
			if d > allocCapBase {
				bisect(items)
			}
			if n := uint64(len(items)); n > 0 && d/n > r.MaxAlloc {
				// Lower bound of the per-call maximum when only the batch was measured.
				r.MaxAlloc = d / n
			}
			// Keep the batch total well below the bound so that re-execution is rare.
			switch {
			case d > allocCapBase/4 && b > 8:
				b /= 2
			case d < allocCapBase/16 && b < maxB(hi):
				b *= 2
			}
			lo = hi
		}
	}
	r.Hashes = base64.StdEncoding.EncodeToString(hashes)
	for o := range outcomes {
		r.Outcomes = append(r.Outcomes, o)
	}
	return r
}

// dropPanickingSeeds removes every valid seed on which the code under test panics (a violation in
// itself, reported by the parent) so that the rest of the exploration can go on; parent and workers
// do the same, deterministically.
func dropPanickingSeeds() (dropped []string) {
	for _, e := range entries {
		var keep []seed
		for si := range e.Seeds {
			if _, pan := callOnce(e, e.Seeds[si].Data, si); pan != "" {
				first := pan
				if i := strings.Index(first, "\n"); i > 0 {
					first = first[:i]
				}
				dropped = append(dropped, fmt.Sprintf("%s/%s: %s", e.Name, e.Seeds[si].Name, first))
				continue
			}
			keep = append(keep, e.Seeds[si])
		}
		e.Seeds = keep
	}
	return dropped
}

// workerMain is the entry of a worker process.
func workerMain() {
	runtime.GOMAXPROCS(2)
	debug.SetMaxStack(maxStackBytes)
	out = bufio.NewWriterSize(os.Stdout, 1<<16)
	initAll()
	dropPanickingSeeds() // reported by the parent, which does the same
	// References for every seed.
	for _, e := range entries {
		for si := range e.Seeds {
			res, pan := callOnce(e, e.Seeds[si].Data, si)
			if pan != "" {
				emit(map[string]any{"fatal": fmt.Sprintf("seed %s/%s panics: %s", e.Name, e.Seeds[si].Name, pan)})
				os.Exit(4)
			}
			seedRefs[refKey(e, si)] = seedRef{stage: res.Stage, fp: res.FP, err: errStr(res.Err)}
		}
	}
	go func() {
		// Hang watchdog.  A call is reported as hung when the process has
		// burnt hangTimeout of user CPU time while that one call was in
		// progress (a spinning decoder), or when it has been in progress for
		// hangWallTimeout of wall time (a blocked decoder).  CPU time is used
		// for the first so that a machine that starves or freezes the process
		// does not look like a hang; every report is confirmed by the parent
		// in a fresh process before it becomes a violation.
		var seenStart, cpuAtSeen int64
		for {
			time.Sleep(250 * time.Millisecond)
			s := curStart.Load()
			if s == 0 {
				seenStart = 0
				continue
			}
			if s != seenStart {
				seenStart, cpuAtSeen = s, userCPU()
				continue
			}
			if time.Duration(userCPU()-cpuAtSeen) > hangTimeout || time.Since(time.Unix(0, s)) > hangWallTimeout {
				outMu.Lock()
				fmt.Fprintf(out, "{\"hang\":true,\"id\":%d,\"idx\":%d}\n", curJob.Load(), curIdx.Load())
				out.Flush()
				os.Exit(3)
			}
		}
	}()
	emit(map[string]any{"ready": true, "digest": seedDigest()})
	sc := bufio.NewScanner(os.Stdin)
	sc.Buffer(make([]byte, 1<<20), 1<<28)
	for sc.Scan() {
		var j job
		if err := json.Unmarshal(sc.Bytes(), &j); err != nil {
			emit(&jobResult{ID: -1, Err: "bad job: " + err.Error()})
			continue
		}
		emit(runJob(&j))
	}
}
