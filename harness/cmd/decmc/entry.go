package main

import (
	"crypto/sha256"
	"encoding/hex"
	"fmt"
	"sort"
	"sync"
)

// Stages of a decoder call.
const (
	stRejected  = 0 // rejected by the decoder with an error
	stDecoded   = 1 // decoded, then rejected by validation / verification
	stAccepted  = 2 // decoded and accepted by every check the entry point runs
	kindCBOR    = "cbor"
	kindBinary  = "binary"
	kindJSON    = "json"
	kindFrame   = "frame"
	kindChunk   = "chunk"
	kindQuote   = "quote"
	maxShortLen = 3
)

// result is what one call of an entry point returns.
type result struct {
	Stage int
	FP    string // fingerprint of the decoded value (stage >= 1)
	Err   error
}

func rejected(err error) result           { return result{Stage: stRejected, Err: err} }
func decoded(fp string, err error) result { return result{Stage: stDecoded, FP: fp, Err: err} }
func accepted(fp string) result           { return result{Stage: stAccepted, FP: fp} }

type seed struct {
	Name     string
	Data     []byte
	Thorough bool // only used in the thorough tier
	Source   string
}

// entry is one untrusted decode/verify entry point.
type entry struct {
	Name  string
	Kind  string
	About string
	// Run feeds the input to the production decode/verify path.  si is the
	// index of the seed the input derives from (context such as the expected
	// root or the TCB bundle belongs to the seed); it must not keep state.
	Run   func(in []byte, si int) result
	Seeds []seed
	// Extra returns entry-point specific structural mutants of a seed.
	Extra func(s []byte, si int) []mutant
	// Batch is the number of mutants between allocation / seed re-checks.
	Batch int
	// ShortMax limits the all-byte-strings family (default maxShortLen).
	ShortMax int
	// SmallBinary enables multi-byte length-field boundary writes at every offset.
	SmallBinary bool

	nbh    [][]mutant // structural mutants per seed (lazy)
	nbhMu  sync.Mutex
	nbhSet []bool
}

var (
	entries   []*entry
	entryByID = map[string]*entry{}
)

func register(e *entry) {
	if e.Batch == 0 {
		e.Batch = 256
	}
	if e.ShortMax == 0 {
		e.ShortMax = maxShortLen
	}
	// Drop seeds whose bytes repeat an earlier seed of this entry point.
	var uniq []seed
	for _, s := range e.Seeds {
		dup := false
		for _, u := range uniq {
			if string(u.Data) == string(s.Data) {
				dup = true
			}
		}
		if !dup {
			uniq = append(uniq, s)
		}
	}
	e.Seeds = uniq
	if _, dup := entryByID[e.Name]; dup {
		panic("duplicate entry " + e.Name)
	}
	entries = append(entries, e)
	entryByID[e.Name] = e
}

// structural returns (and caches) the structural mutants of seed si.
func (e *entry) structural(si int) []mutant {
	e.nbhMu.Lock()
	defer e.nbhMu.Unlock()
	if e.nbh == nil {
		e.nbh = make([][]mutant, len(e.Seeds))
		e.nbhSet = make([]bool, len(e.Seeds))
	}
	if e.nbhSet[si] {
		return e.nbh[si]
	}
	s := e.Seeds[si].Data
	var ms []mutant
	switch e.Kind {
	case kindCBOR:
		ms = append(ms, cborStructural(s, 0, len(s), nil, "cbor:")...)
	case kindJSON:
		ms = append(ms, jsonStructural(s)...)
	case kindFrame:
		ms = append(ms, frameStructural(s)...)
	case kindChunk:
		ms = append(ms, chunkStructural(s)...)
	}
	if e.SmallBinary {
		ms = append(ms, leEveryOffset(s)...)
		ms = append(ms, leConsistentTruncations(s, 0)...)
	}
	if e.Extra != nil {
		ms = append(ms, e.Extra(s, si)...)
	}
	e.nbh[si] = ms
	e.nbhSet[si] = true
	return ms
}

// nbhCount is the size of the index space of seed si's neighbourhood.
func (e *entry) nbhCount(si int) int {
	return genericCount(len(e.Seeds[si].Data)) + len(e.structural(si))
}

// nbhMutant returns mutant i of seed si; dup marks indices that are by
// construction identical to the seed or to another index.
func (e *entry) nbhMutant(si, i int) (desc string, out []byte, dup bool) {
	s := e.Seeds[si].Data
	g := genericCount(len(s))
	if i < g {
		return genericMutant(s, i)
	}
	m := e.structural(si)[i-g]
	out = m.Gen()
	if isGenericNeighbour(s, out) {
		return m.Desc, nil, true
	}
	return m.Desc, out, false
}

// shortCount returns the number of byte strings of length <= l.
func shortCount(l int) int {
	n, p := 0, 1
	for k := 0; k <= l; k++ {
		n += p
		p *= 256
	}
	return n
}

// shortString returns the i-th byte string in length-then-lexicographic order.
func shortString(i int, buf []byte) []byte {
	l, p := 0, 1
	for i >= p {
		i -= p
		p *= 256
		l++
	}
	buf = buf[:l]
	for k := l - 1; k >= 0; k-- {
		buf[k] = byte(i)
		i >>= 8
	}
	return buf
}

// seedDigest binds parent and workers to the same seeds.
func seedDigest() string {
	h := sha256.New()
	names := make([]string, 0, len(entries))
	for _, e := range entries {
		names = append(names, e.Name)
	}
	sort.Strings(names)
	for _, n := range names {
		e := entryByID[n]
		fmt.Fprintf(h, "%s/%d;", n, len(e.Seeds))
		for _, s := range e.Seeds {
			fmt.Fprintf(h, "%s/%d:", s.Name, len(s.Data))
			h.Write(s.Data)
		}
	}
	return hex.EncodeToString(h.Sum(nil))
}
