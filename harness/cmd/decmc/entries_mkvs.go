package main

import (
	"bytes"
	"encoding/hex"
	"fmt"
	"os"
	"path/filepath"

	"github.com/golang/snappy"

	"github.com/oasisprotocol/oasis-core/go/common"
	"github.com/oasisprotocol/oasis-core/go/common/cbor"
	"github.com/oasisprotocol/oasis-core/go/common/crypto/hash"
	"github.com/oasisprotocol/oasis-core/go/storage/mkvs"
	"github.com/oasisprotocol/oasis-core/go/storage/mkvs/checkpoint"
	dbApi "github.com/oasisprotocol/oasis-core/go/storage/mkvs/db/api"
	"github.com/oasisprotocol/oasis-core/go/storage/mkvs/db/badger"
	"github.com/oasisprotocol/oasis-core/go/storage/mkvs/node"
	"github.com/oasisprotocol/oasis-core/go/storage/mkvs/syncer"
	"github.com/oasisprotocol/oasis-core/go/storage/mkvs/writelog"
)

var (
	mkvsNs     common.Namespace
	scratchDir string

	proofRoot  hash.Hash // root of the tree all proof seeds come from
	chunkRoots []node.Root
	restoreDB  dbApi.NodeDB
	restorer   checkpoint.Restorer
)

func newMemDB(name string) dbApi.NodeDB {
	ndb, err := badger.New(&dbApi.Config{DB: filepath.Join(scratchDir, name), Namespace: mkvsNs, MaxCacheSize: 16 << 20, MemoryOnly: true, NoFsync: true})
	must(err)
	return ndb
}

// treeKV is the content of the seed tree: keys that share prefixes, a key that
// is a prefix of another (internal node with a leaf), short and long values.
func treeKV(n int) (ks, vs [][]byte) {
	for i := 0; i < n; i++ {
		ks = append(ks, []byte(fmt.Sprintf("key %03d", i)))
		vs = append(vs, []byte(fmt.Sprintf("value %03d", i)))
	}
	ks = append(ks, []byte("key"), []byte("key 00"), []byte{}, []byte{0xff, 0xff})
	vs = append(vs, []byte("prefix"), bytes.Repeat([]byte("long "), 40), []byte("empty key"), []byte{})
	return
}

func resetRestorer() {
	if restoreDB != nil {
		restoreDB.Close()
	}
	restoreDB = newMemDB(fmt.Sprintf("restore-%d", restoreGen))
	restoreGen++
	var err error
	restorer, err = checkpoint.NewRestorer(restoreDB)
	must(err)
}

var restoreGen int

// runChunk feeds a chunk to the restorer; the checkpoint metadata (which also
// comes from the peer) names the digest of exactly these bytes, so the chunk
// passes the integrity check and reaches the decoder and the proof verifier.
func runChunk(in []byte, si int) result {
	root := chunkRoots[0]
	if si < len(chunkRoots) {
		root = chunkRoots[si]
	}
	meta := &checkpoint.Metadata{Version: 1, Root: root, Chunks: []hash.Hash{hash.NewFromBytes(in)}}
	if err := meta.Validate(); err != nil {
		return rejected(err)
	}
	// A panic inside the restore leaves the restorer and the database in an
	// unknown state: start from scratch for the next call and re-panic.
	defer func() {
		if p := recover(); p != nil {
			resetRestorer()
			panic(p)
		}
	}()
	// Same sequence as the storage worker and the consensus snapshot restore:
	// multipart insert around the restore, aborted afterwards so that whatever
	// was imported is removed again and the database stays empty.
	_ = restorer.AbortRestore(bgCtx)
	if err := restoreDB.StartMultipartInsert(root.Version); err != nil {
		panic(fmt.Sprintf("harness: StartMultipartInsert: %v", err))
	}
	if err := restorer.StartRestore(bgCtx, meta); err != nil {
		panic(fmt.Sprintf("harness: StartRestore: %v", err))
	}
	done, err := restorer.RestoreChunk(bgCtx, 0, bytes.NewReader(in))
	_ = restorer.AbortRestore(bgCtx)
	if aerr := restoreDB.AbortMultipartInsert(); aerr != nil {
		panic(fmt.Sprintf("harness: AbortMultipartInsert: %v", aerr))
	}
	if err != nil {
		return rejected(err)
	}
	return accepted(fmt.Sprintf("restored done=%v", done))
}

func snappyStream(raw []byte) []byte {
	var buf bytes.Buffer
	w := snappy.NewBufferedWriter(&buf)
	_, _ = w.Write(raw)
	_ = w.Close()
	return buf.Bytes()
}

func snappyDecode(b []byte) ([]byte, bool) {
	var out bytes.Buffer
	if _, err := out.ReadFrom(snappy.NewReader(bytes.NewReader(b))); err != nil {
		return nil, false
	}
	return out.Bytes(), true
}

// chunkStructural: CBOR structural mutants of the decompressed entry stream,
// re-compressed.
func chunkStructural(s []byte) []mutant {
	raw, ok := snappyDecode(s)
	if !ok {
		return nil
	}
	return cborStructural(raw, 0, len(raw), snappyStream, "stream:")
}

// deepProofEntries builds proof entries for a chain of d internal nodes, each
// the left child of the previous one (version 1 layout: leaf, left, right).
func deepProofEntries(d int) [][]byte {
	in := []byte{0x01, node.PrefixInternalNode, 0x00, 0x00, node.PrefixNilNode}
	es := make([][]byte, 0, 3*d+1)
	for i := 0; i < d; i++ {
		es = append(es, in, nil) // node, nil leaf
	}
	es = append(es, nil) // left of the innermost
	for i := 0; i < d; i++ {
		es = append(es, nil) // rights
	}
	return es
}

var deepDepths = []int{16, 64, 127, 128, 129, 1024, 65536, 1 << 20}

func registerMkvsEntries() {
	must(mkvsNs.UnmarshalHex("8000000000000000000000000000000000000000000000000000000000000077"))

	// Build the seed tree in a database (needed for checkpoints).
	ndb := newMemDB("seedtree")
	defer ndb.Close()
	tree := mkvs.New(nil, ndb, node.RootTypeState)
	ks, vs := treeKV(120)
	for i := range ks {
		must(tree.Insert(bgCtx, ks[i], vs[i]))
	}
	_, rootHash, err := tree.Commit(bgCtx, mkvsNs, 1)
	must(err)
	root := node.Root{Namespace: mkvsNs, Version: 1, Type: node.RootTypeState, Hash: rootHash}
	must(ndb.Finalize([]node.Root{root}))
	proofRoot = rootHash

	// --- serialized nodes, taken from proofs of the real tree ---------------
	var nodeSeeds []seed
	leaf := &node.LeafNode{Key: []byte("key 001"), Value: []byte("value 001")}
	lb, _ := leaf.MarshalBinary()
	nodeSeeds = append(nodeSeeds, seed{Name: "leaf", Data: lb, Source: "LeafNode.MarshalBinary"})
	emptyLeaf := &node.LeafNode{Key: []byte{}, Value: []byte{}}
	elb, _ := emptyLeaf.MarshalBinary()
	nodeSeeds = append(nodeSeeds, seed{Name: "leaf-empty", Data: elb, Source: "LeafNode.MarshalBinary"})
	leaf.UpdateHash()
	h1, h2 := mkHash("left"), mkHash("right")
	inode := &node.InternalNode{Label: node.Key("ke"), LabelBitLength: 13,
		LeafNode: &node.Pointer{Clean: true, Hash: leaf.Hash, Node: leaf},
		Left:     &node.Pointer{Clean: true, Hash: h1}, Right: &node.Pointer{Clean: true, Hash: h2}}
	ib, _ := inode.MarshalBinary()
	nodeSeeds = append(nodeSeeds, seed{Name: "internal-with-leaf", Data: ib, Source: "InternalNode.MarshalBinary"})
	inode2 := &node.InternalNode{Label: node.Key{0xa0}, LabelBitLength: 3, Left: &node.Pointer{Clean: true, Hash: h1}}
	ib2, _ := inode2.MarshalBinary()
	nodeSeeds = append(nodeSeeds, seed{Name: "internal-no-leaf", Data: ib2, Source: "InternalNode.MarshalBinary"})
	cb, _ := inode.CompactMarshalBinaryV1()
	nodeSeeds = append(nodeSeeds, seed{Name: "internal-compact-v1", Data: cb, Source: "InternalNode.CompactMarshalBinaryV1"})
	cb0, _ := inode.CompactMarshalBinaryV0()
	nodeSeeds = append(nodeSeeds, seed{Name: "internal-compact-v0", Data: cb0, Source: "InternalNode.CompactMarshalBinaryV0"})

	register(&entry{Name: "mkvs.node.UnmarshalBinary", Kind: kindBinary, SmallBinary: true,
		About: "node.UnmarshalBinary (leaf and internal nodes), GetHash and re-marshal",
		Run: func(in []byte, _ int) result {
			n, err := node.UnmarshalBinary(in)
			if err != nil {
				return rejected(err)
			}
			h := n.GetHash()
			b, err := n.MarshalBinary()
			if err != nil {
				return decoded(h.String(), err)
			}
			_ = n.Size()
			_ = n.ExtractUnchecked()
			return accepted(h.String() + hex.EncodeToString(b))
		}, Seeds: nodeSeeds})

	var keySeeds []seed
	for _, k := range []node.Key{node.Key("key 001"), {}, bytes.Repeat([]byte{0xab}, 300)} {
		kb, _ := k.MarshalBinary()
		keySeeds = append(keySeeds, seed{Name: fmt.Sprintf("key-len-%d", len(k)), Data: kb, Source: "Key.MarshalBinary"})
	}
	register(&entry{Name: "mkvs.node.Key", Kind: kindBinary, SmallBinary: true,
		About: "node.Key.UnmarshalBinary / SizedUnmarshalBinary and bit operations on the result",
		Run: func(in []byte, _ int) result {
			var k node.Key
			n, err := k.SizedUnmarshalBinary(in)
			if err != nil {
				return rejected(err)
			}
			_ = k.BitLength()
			if len(k) > 0 {
				_ = k.GetBit(k.BitLength() - 1)
				p, s := k.Split(k.BitLength()/2, k.BitLength())
				_ = p.Merge(k.BitLength()/2, s, k.BitLength()-k.BitLength()/2)
			}
			var k2 node.Key
			if err := k2.UnmarshalBinary(in); err != nil {
				return decoded(k.String(), err)
			}
			return accepted(fmt.Sprintf("%d:%s", n, k.String()))
		}, Seeds: keySeeds})
	register(&entry{Name: "mkvs.node.Depth", Kind: kindBinary,
		About: "node.Depth.UnmarshalBinary and ToBytes",
		Run: func(in []byte, _ int) result {
			var d node.Depth
			n, err := d.UnmarshalBinary(in)
			if err != nil {
				return rejected(err)
			}
			return accepted(fmt.Sprintf("%d:%d:%d", n, d, d.ToBytes()))
		}, Seeds: []seed{{Name: "depth-13", Data: node.Depth(13).MarshalBinary(), Source: "Depth.MarshalBinary"},
			{Name: "depth-max", Data: node.Depth(0xffff).MarshalBinary(), Source: "Depth.MarshalBinary"}}})

	// --- proofs ------------------------------------------------------------
	var proofSeeds []seed
	tid := syncer.TreeID{Root: root, Position: rootHash}
	addProof := func(name string, p *syncer.Proof, thorough bool) {
		proofSeeds = append(proofSeeds, seed{Name: name, Data: cbor.Marshal(p), Source: "produced by the real tree (Sync* on mkvs.Tree)", Thorough: thorough})
	}
	for _, ver := range []uint16{1, 0} {
		r, err := tree.SyncGet(bgCtx, &syncer.GetRequest{Tree: tid, Key: []byte("key 001"), ProofVersion: ver})
		must(err)
		addProof(fmt.Sprintf("get-v%d", ver), &r.Proof, false)
		r, err = tree.SyncGet(bgCtx, &syncer.GetRequest{Tree: tid, Key: []byte("key 00"), IncludeSiblings: true, ProofVersion: ver})
		must(err)
		addProof(fmt.Sprintf("get-siblings-v%d", ver), &r.Proof, ver == 0)
		r, err = tree.SyncGetPrefixes(bgCtx, &syncer.GetPrefixesRequest{Tree: tid, Prefixes: [][]byte{[]byte("key 01")}, Limit: 10, ProofVersion: ver})
		must(err)
		addProof(fmt.Sprintf("prefixes-v%d", ver), &r.Proof, true)
		r, err = tree.SyncIterate(bgCtx, &syncer.IterateRequest{Tree: tid, Key: []byte("key 05"), Prefetch: 5, ProofVersion: ver})
		must(err)
		addProof(fmt.Sprintf("iterate-v%d", ver), &r.Proof, ver == 1)
	}
	r, err := tree.SyncGet(bgCtx, &syncer.GetRequest{Tree: tid, Key: []byte("absent"), ProofVersion: 1})
	must(err)
	addProof("get-absent-v1", &r.Proof, false)

	register(&entry{Name: "syncer.Proof.VerifyProof", Kind: kindCBOR, Batch: 128,
		About: "cbor.Unmarshal into syncer.Proof, ProofVerifier.VerifyProof and VerifyProofToWriteLog against the independently known root",
		Run: func(in []byte, _ int) result {
			var p syncer.Proof
			if err := cbor.Unmarshal(in, &p); err != nil {
				return rejected(err)
			}
			var pv syncer.ProofVerifier
			ptr, err := pv.VerifyProof(bgCtx, proofRoot, &p)
			if err != nil {
				// Also with the root the prover claims (reaches the recursive verifier).
				_, _ = pv.VerifyProof(bgCtx, p.UntrustedRoot, &p)
				return decoded(fmt.Sprintf("v%d/%d", p.V, len(p.Entries)), err)
			}
			wl, err := pv.VerifyProofToWriteLog(bgCtx, proofRoot, &p)
			if err != nil {
				return decoded("ptr", err)
			}
			fp := fmt.Sprintf("%d entries", len(wl))
			if ptr != nil {
				fp += ptr.Hash.String()
			}
			return accepted(fp)
		},
		Seeds: proofSeeds,
		Extra: func(s []byte, si int) []mutant {
			var ms []mutant
			if si != 0 {
				return nil // independent of the seed
			}
			for _, d := range deepDepths {
				for _, ver := range []uint16{1, 0} {
					d, ver := d, ver
					ms = append(ms, mutant{Desc: fmt.Sprintf("proof:chain-of-internal-nodes,depth=%d,v=%d", d, ver), Gen: func() []byte {
						es := deepProofEntries(d)
						if ver == 0 {
							// Version 0: no separate leaf entry.
							in := es[0]
							es = es[:0]
							for i := 0; i < d; i++ {
								es = append(es, in)
							}
							for i := 0; i <= d; i++ {
								es = append(es, nil)
							}
						}
						return cbor.Marshal(&syncer.Proof{V: ver, UntrustedRoot: proofRoot, Entries: es})
					}})
				}
			}
			return ms
		}})

	// --- checkpoint chunks --------------------------------------------------
	fc, err := checkpoint.NewFileCreator(filepath.Join(scratchDir, "checkpoints"), ndb)
	must(err)
	cp, err := fc.CreateCheckpoint(bgCtx, root, 2048, 0)
	must(err)
	var chunkSeeds []seed
	for i := range cp.Chunks {
		cm, err := cp.GetChunkMetadata(uint64(i))
		must(err)
		var buf bytes.Buffer
		must(fc.GetCheckpointChunk(bgCtx, cm, &buf))
		chunkSeeds = append(chunkSeeds, seed{Name: fmt.Sprintf("chunk-%d-of-%d", i, len(cp.Chunks)), Data: buf.Bytes(),
			Source: "checkpoint.NewFileCreator(...).CreateCheckpoint on the seed tree", Thorough: i >= 2})
		chunkRoots = append(chunkRoots, root)
	}
	// A one-chunk checkpoint of a small tree (restores completely).
	small := mkvs.New(nil, ndb, node.RootTypeState)
	for i := 0; i < 5; i++ {
		must(small.Insert(bgCtx, ks[i], vs[i]))
	}
	_, smallHash, err := small.Commit(bgCtx, mkvsNs, 2)
	must(err)
	smallRoot := node.Root{Namespace: mkvsNs, Version: 2, Type: node.RootTypeState, Hash: smallHash}
	must(ndb.Finalize([]node.Root{smallRoot}))
	cp2, err := fc.CreateCheckpoint(bgCtx, smallRoot, 1<<20, 0)
	must(err)
	cm, err := cp2.GetChunkMetadata(0)
	must(err)
	var buf bytes.Buffer
	must(fc.GetCheckpointChunk(bgCtx, cm, &buf))
	chunkSeeds = append([]seed{{Name: "whole-small-tree", Data: buf.Bytes(), Source: "CreateCheckpoint on a 5-key tree"}}, chunkSeeds...)
	chunkRoots = append([]node.Root{smallRoot}, chunkRoots...)
	small.Close()
	tree.Close()
	resetRestorer()

	register(&entry{Name: "checkpoint.RestoreChunk", Kind: kindChunk, Batch: 64, ShortMax: 2,
		About: "Restorer.StartRestore + RestoreChunk (restoreChunk: snappy, CBOR entry stream, proof verification, import) into a memory-only badger node database; metadata digest = digest of the presented bytes",
		Run:   runChunk, Seeds: chunkSeeds,
		Extra: func(s []byte, si int) []mutant {
			var ms []mutant
			if si != 0 {
				return nil // independent of the seed
			}
			for _, d := range deepDepths[:len(deepDepths)-1] {
				d := d
				ms = append(ms, mutant{Desc: fmt.Sprintf("chunk:chain-of-internal-nodes,depth=%d", d), Gen: func() []byte {
					var raw bytes.Buffer
					in := cbor.Marshal([]byte{0x01, node.PrefixInternalNode, 0x00, 0x00, node.PrefixNilNode})
					for i := 0; i < d; i++ {
						raw.Write(in)
					}
					for i := 0; i <= d; i++ {
						raw.WriteByte(0xf6)
					}
					return snappyStream(raw.Bytes())
				}})
			}
			return ms
		}})
	register(&entry{Name: "checkpoint.RestoreChunk.stream", Kind: kindCBOR, Batch: 64,
		About: "as checkpoint.RestoreChunk, the input is the uncompressed entry stream (compressed by the harness), so that short strings reach the CBOR decoder",
		Run:   func(in []byte, si int) result { return runChunk(snappyStream(in), 0) },
		Seeds: []seed{{Name: "whole-small-tree-stream", Data: mustDecode(chunkSeeds[0].Data), Source: "decompressed chunk"}}})

	// --- write logs ----------------------------------------------------------
	wl := writelog.WriteLog{{Key: []byte("key 001"), Value: []byte("v")}, {Key: []byte("key"), Value: []byte{}},
		{Key: []byte("key 002"), Value: nil}, {Key: []byte{}, Value: bytes.Repeat([]byte("x"), 70)}}
	var big writelog.WriteLog
	for i := range ks[:40] {
		big = append(big, writelog.LogEntry{Key: ks[i], Value: vs[i]})
	}
	register(&entry{Name: "writelog.WriteLog", Kind: kindCBOR, Batch: 128,
		About: "cbor.Unmarshal into writelog.WriteLog, ApplyWriteLog on an in-memory tree and Commit",
		Run: func(in []byte, _ int) result {
			var w writelog.WriteLog
			if err := cbor.Unmarshal(in, &w); err != nil {
				return rejected(err)
			}
			t := mkvs.New(nil, nil, node.RootTypeIO)
			defer t.Close()
			if err := t.ApplyWriteLog(bgCtx, writelog.NewStaticIterator(w)); err != nil {
				return decoded(fmt.Sprint(len(w)), err)
			}
			_, h, err := t.Commit(bgCtx, mkvsNs, 1)
			if err != nil {
				return decoded(fmt.Sprint(len(w)), err)
			}
			return accepted(h.String())
		},
		Seeds: []seed{{Name: "inserts-and-delete", Data: cbor.Marshal(wl), Source: "built in harness"},
			{Name: "forty-inserts", Data: cbor.Marshal(big), Source: "built in harness", Thorough: true}}})
}

func mustDecode(b []byte) []byte {
	raw, ok := snappyDecode(b)
	if !ok {
		panic("seed chunk does not decompress")
	}
	return raw
}

func init() {
	// Workers get their scratch directory from the parent, which removes the
	// whole tree when it finishes (workers may be killed).
	if d := os.Getenv("DECMC_SCRATCH"); d != "" {
		must(os.MkdirAll(d, 0o700))
		scratchDir = d
		return
	}
	// Memory-backed scratch space if available (checkpoint files of the seed
	// tree are written once per process).
	base := ""
	if st, err := os.Stat("/dev/shm"); err == nil && st.IsDir() {
		base = "/dev/shm"
	}
	var err error
	if scratchDir, err = os.MkdirTemp(base, "decmc"); err != nil {
		scratchDir, err = os.MkdirTemp("", "decmc")
		must(err)
	}
}
