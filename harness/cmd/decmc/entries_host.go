package main

import (
	"bytes"
	"encoding/binary"
	"fmt"
	"io"
	"reflect"

	"github.com/oasisprotocol/oasis-core/go/common/cbor"
	"github.com/oasisprotocol/oasis-core/go/common/version"
	"github.com/oasisprotocol/oasis-core/go/runtime/host/protocol"
	"github.com/oasisprotocol/oasis-core/go/storage/mkvs/syncer"
)

type rwOnce struct{ r *bytes.Reader }

func (x rwOnce) Read(p []byte) (int, error)  { return x.r.Read(p) }
func (x rwOnce) Write(p []byte) (int, error) { return len(p), nil }

var _ io.ReadWriter = rwOnce{}

// runFrame reads one length-prefixed frame exactly as the runtime host
// connection does, then touches the message the way handleMessage does.
func runFrame(in []byte, _ int) result {
	codec := cbor.NewMessageCodec(rwOnce{bytes.NewReader(in)}, "decmc")
	var msg protocol.Message
	if err := codec.Read(&msg); err != nil {
		return rejected(err)
	}
	fp := fmt.Sprintf("%d/%d/%s", msg.ID, msg.MessageType, msg.Body.Type())
	switch msg.MessageType {
	case protocol.MessageRequest, protocol.MessageResponse:
	default:
		_ = fmt.Sprintf("%+v", msg)
		return decoded(fp, fmt.Errorf("malformed message type"))
	}
	return accepted(fp + marshalFP(&msg))
}

func frame(payload []byte) []byte {
	out := make([]byte, 4, 4+len(payload))
	binary.BigEndian.PutUint32(out, uint32(len(payload)))
	return append(out, payload...)
}

// frameStructural: CBOR structural mutants of the payload with a consistent
// length prefix, the same with the stale prefix, and prefix boundary values.
func frameStructural(s []byte) []mutant {
	if len(s) < 4 {
		return nil
	}
	fix := func(b []byte) []byte {
		out := append([]byte(nil), b...)
		binary.BigEndian.PutUint32(out, uint32(len(out)-4))
		return out
	}
	ms := cborStructural(s, 4, len(s), fix, "payload:")
	stale := cborStructural(s, 4, len(s), nil, "payload-stale-prefix:")
	ms = append(ms, stale...)
	n := uint32(len(s) - 4)
	for _, v := range []uint32{0, 1, n - 1, n + 1, n + 4, 0xff, 0xffff, 0x10000, 0x3ffffff, 0x4000000, 0x4000001, 0x7fffffff, 0x80000000, 0xfffffffe, 0xffffffff} {
		v := v
		ms = append(ms, mutant{Desc: fmt.Sprintf("prefix:len=%d", v), Gen: func() []byte {
			out := append([]byte(nil), s...)
			binary.BigEndian.PutUint32(out, v)
			return out
		}}, mutant{Desc: fmt.Sprintf("prefix-only:len=%d", v), Gen: func() []byte {
			out := make([]byte, 4)
			binary.BigEndian.PutUint32(out, v)
			return out
		}})
	}
	return ms
}

func registerHostEntries() {
	var seeds []seed
	add := func(name string, m *protocol.Message, thorough bool) {
		seeds = append(seeds, seed{Name: name, Data: frame(cbor.Marshal(m)), Source: "built in harness (MessageWriter framing)", Thorough: thorough})
	}
	add("ping-request", &protocol.Message{ID: 1, MessageType: protocol.MessageRequest, Body: protocol.Body{RuntimePingRequest: &protocol.Empty{}}}, false)
	add("info-response", &protocol.Message{ID: 2, MessageType: protocol.MessageResponse, Body: protocol.Body{
		RuntimeInfoResponse: &protocol.RuntimeInfoResponse{ProtocolVersion: version.RuntimeHostProtocol, RuntimeVersion: version.FromU64(77),
			Features: protocol.Features{KeyManagerStatusUpdates: true}}}}, false)
	add("error-response", &protocol.Message{ID: 3, MessageType: protocol.MessageResponse, Body: protocol.Body{
		Error: &protocol.Error{Module: "mod", Code: 7, Message: "failed"}}}, false)
	add("host-storage-sync", &protocol.Message{ID: 4, MessageType: protocol.MessageRequest, Body: protocol.Body{
		HostStorageSyncRequest: &protocol.HostStorageSyncRequest{SyncGet: &syncer.GetRequest{Key: []byte("key 001"), IncludeSiblings: true}}}}, false)
	add("host-local-storage-set", &protocol.Message{ID: 5, MessageType: protocol.MessageRequest, Body: protocol.Body{
		HostLocalStorageSetRequest: &protocol.HostLocalStorageSetRequest{Key: []byte("k"), Value: bytes.Repeat([]byte("v"), 100)}}}, true)
	// A populated value of every body field, one message each (thorough).
	bt := reflect.TypeOf(protocol.Body{})
	for i := 0; i < bt.NumField(); i++ {
		var body protocol.Body
		f := reflect.ValueOf(&body).Elem().Field(i)
		ok := func() (ok bool) {
			defer func() {
				if recover() != nil {
					ok = false
				}
			}()
			fill(f, i, 3)
			m := &protocol.Message{ID: uint64(100 + i), MessageType: protocol.MessageRequest, Body: body}
			raw := frame(cbor.Marshal(m))
			if r := runFrame(raw, 0); r.Stage == stRejected {
				return false
			}
			add("filled-"+bt.Field(i).Name, m, true)
			return true
		}()
		_ = ok
	}
	register(&entry{Name: "host.protocol.frame", Kind: kindFrame, Batch: 128,
		About: "cbor.MessageCodec.Read (4-byte length prefix, 64 MiB cap, streaming decode) into runtime/host/protocol.Message, Body.Type, re-marshal",
		Run:   runFrame, Seeds: seeds})
	register(&entry{Name: "host.protocol.frame.payload", Kind: kindCBOR, Batch: 128,
		About: "as host.protocol.frame with the length prefix computed by the harness, so that short strings reach the message decoder",
		Run:   func(in []byte, si int) result { return runFrame(frame(in), si) },
		Seeds: []seed{{Name: "info-response-payload", Data: seeds[1].Data[4:], Source: "built in harness"}}})
}
